import BufModel.Annot
/-
  Helper lemmas for C20: ordering laws of fileAnnotationCompareTo, the stable insertion sort,
  the de-duplication loop, injectivity of the length-prefixed key, line structure of the
  line-oriented printers.
-/
namespace BufModel.Annot

/-! ### ordering laws -/

structure OrdLaw {α : Type} (cmp : α → α → Ordering) : Prop where
  swap : ∀ a b, cmp b a = (cmp a b).swap
  trans_lt : ∀ a b c, cmp a b = .lt → cmp b c = .lt → cmp a c = .lt
  eq_left : ∀ a b c, cmp a b = .eq → cmp a c = cmp b c

theorem OrdLaw.eq_right {α : Type} {cmp : α → α → Ordering} (h : OrdLaw cmp) (a b c : α)
    (e : cmp b c = .eq) : cmp a b = cmp a c := by
  have e' : cmp c b = .eq := by rw [h.swap b c, e]; rfl
  have h1 := h.eq_left c b a e'
  rw [h.swap b a, h.swap c a, h1]

theorem OrdLaw.refl {α : Type} {cmp : α → α → Ordering} (h : OrdLaw cmp) (a : α) : cmp a a = .eq := by
  have := h.swap a a
  cases hc : cmp a a <;> simp_all [Ordering.swap]

/-- pointwise transitivity of a lexicographic combination -/
theorem then_trans_lt {x1 y1 z1 x2 y2 z2 : Ordering}
    (h1 : x1 = .lt → y1 = .lt → z1 = .lt) (h1e : x1 = .eq → z1 = y1) (h1e' : y1 = .eq → z1 = x1)
    (h2 : x2 = .lt → y2 = .lt → z2 = .lt) :
    x1.then x2 = .lt → y1.then y2 = .lt → z1.then z2 = .lt := by
  cases x1 <;> cases y1 <;> simp_all [Ordering.then]

theorem then_eq_left {x1 y1 z1 x2 y2 z2 : Ordering}
    (h1 : x1 = .eq → z1 = y1) (h2 : x2 = .eq → z2 = y2) :
    x1.then x2 = .eq → z1.then z2 = y1.then y2 := by
  cases x1 <;> simp_all [Ordering.then]

def thenCmp {α : Type} (c1 c2 : α → α → Ordering) (a b : α) : Ordering := (c1 a b).then (c2 a b)

theorem OrdLaw.thenCmp {α : Type} {c1 c2 : α → α → Ordering} (h1 : OrdLaw c1) (h2 : OrdLaw c2) :
    OrdLaw (thenCmp c1 c2) where
  swap a b := by simp only [Annot.thenCmp, h1.swap a b, h2.swap a b, Ordering.swap_then]
  trans_lt a b c := then_trans_lt (h1.trans_lt a b c) (h1.eq_left a b c) (fun e => (h1.eq_right a b c e).symm)
    (h2.trans_lt a b c)
  eq_left a b c := then_eq_left (h1.eq_left a b c) (h2.eq_left a b c)

def onCmp {α β : Type} (f : α → β) (c : β → β → Ordering) (a b : α) : Ordering := c (f a) (f b)

theorem OrdLaw.onCmp {α β : Type} (f : α → β) {c : β → β → Ordering} (h : OrdLaw c) : OrdLaw (onCmp f c) where
  swap a b := h.swap (f a) (f b)
  trans_lt a b c := h.trans_lt (f a) (f b) (f c)
  eq_left a b c := h.eq_left (f a) (f b) (f c)

theorem cmpNat_law : OrdLaw cmpNat where
  swap a b := by unfold cmpNat; split <;> split <;> simp_all [Ordering.swap] <;> omega
  trans_lt a b c := by
    intro h1 h2
    have hab : a < b := by
      unfold cmpNat at h1; split at h1
      · assumption
      · split at h1 <;> cases h1
    have hbc : b < c := by
      unfold cmpNat at h2; split at h2
      · assumption
      · split at h2 <;> cases h2
    unfold cmpNat; rw [if_pos (by omega)]
  eq_left a b c := by
    unfold cmpNat
    intro h
    have : a = b := by
      split at h
      · cases h
      · split at h
        · cases h
        · omega
    subst this; rfl

theorem cmpNat_eq_iff (a b : Nat) : cmpNat a b = .eq ↔ a = b := by
  unfold cmpNat; split <;> (try split) <;> simp_all <;> omega

theorem cmpStr_eq_iff : ∀ a b : Str, cmpStr a b = .eq ↔ a = b
  | [], [] => by simp [cmpStr]
  | [], _ :: _ => by simp [cmpStr]
  | _ :: _, [] => by simp [cmpStr]
  | x :: xs, y :: ys => by
    simp only [cmpStr, Ordering.then_eq_eq, cmpNat_eq_iff, cmpStr_eq_iff xs ys, Char.toNat_inj, List.cons.injEq]

theorem cmpStr_swap : ∀ a b : Str, cmpStr b a = (cmpStr a b).swap
  | [], [] => rfl
  | [], _ :: _ => rfl
  | _ :: _, [] => rfl
  | x :: xs, y :: ys => by
    simp only [cmpStr, Ordering.swap_then, cmpNat_law.swap x.toNat y.toNat, cmpStr_swap xs ys]

theorem cmpStr_trans_lt : ∀ a b c : Str, cmpStr a b = .lt → cmpStr b c = .lt → cmpStr a c = .lt
  | [], [], _ => by simp [cmpStr]
  | [], _ :: _, [] => by simp [cmpStr]
  | [], _ :: _, _ :: _ => by simp [cmpStr]
  | _ :: _, [], _ => by simp [cmpStr]
  | _ :: _, _ :: _, [] => by simp [cmpStr]
  | x :: xs, y :: ys, z :: zs => by
    simp only [cmpStr]
    exact then_trans_lt (cmpNat_law.trans_lt _ _ _) (cmpNat_law.eq_left _ _ _)
      (fun e => (cmpNat_law.eq_right _ _ _ e).symm) (cmpStr_trans_lt xs ys zs)

theorem cmpStr_law : OrdLaw cmpStr where
  swap := cmpStr_swap
  trans_lt := cmpStr_trans_lt
  eq_left a b c h := by rw [(cmpStr_eq_iff a b).mp h]

theorem cmpFile_eq_iff : ∀ a b : Option Str, cmpFile a b = .eq ↔ a = b
  | none, none => by simp [cmpFile]
  | none, some _ => by simp [cmpFile]
  | some _, none => by simp [cmpFile]
  | some a, some b => by simp [cmpFile, cmpStr_eq_iff]

theorem cmpFile_law : OrdLaw cmpFile where
  swap a b := by
    cases a <;> cases b <;> simp [cmpFile, Ordering.swap]
    exact cmpStr_swap _ _
  trans_lt a b c := by
    cases a <;> cases b <;> cases c <;> simp [cmpFile]
    exact cmpStr_trans_lt _ _ _
  eq_left a b c h := by rw [(cmpFile_eq_iff a b).mp h]

/-- compareTo is the lexicographic combination of its seven field comparisons. -/
theorem compareTo_eq_thenCmp : compareTo =
    thenCmp (onCmp Annot.file cmpFile) (thenCmp (onCmp Annot.sl cmpNat) (thenCmp (onCmp Annot.sc cmpNat)
      (thenCmp (onCmp Annot.type cmpStr) (thenCmp (onCmp Annot.msg cmpStr)
        (thenCmp (onCmp Annot.el cmpNat) (onCmp Annot.ec cmpNat)))))) := rfl

theorem compareTo_law : OrdLaw compareTo := by
  rw [compareTo_eq_thenCmp]
  exact (cmpFile_law.onCmp _).thenCmp <| (cmpNat_law.onCmp _).thenCmp <| (cmpNat_law.onCmp _).thenCmp <|
    (cmpStr_law.onCmp _).thenCmp <| (cmpStr_law.onCmp _).thenCmp <| (cmpNat_law.onCmp _).thenCmp (cmpNat_law.onCmp _)

/-- The fields fileAnnotationCompareTo looks at. -/
def cmpFields (a : Annot) : Option Str × Nat × Nat × Str × Str × Nat × Nat :=
  (a.file, a.sl, a.sc, a.type, a.msg, a.el, a.ec)

theorem compareTo_eq_iff (a b : Annot) : compareTo a b = .eq ↔ cmpFields a = cmpFields b := by
  simp only [compareTo, Ordering.then_eq_eq, cmpFile_eq_iff, cmpNat_eq_iff, cmpStr_eq_iff, cmpFields, Prod.mk.injEq]

/-! ### the stable insertion sort -/

/-- `a` may stand before `b`: not (b < a). -/
def LE (a b : Annot) : Prop := compareTo a b ≠ .gt

theorem less_iff (a b : Annot) : less a b = true ↔ compareTo a b = .lt := by
  simp [less]

theorem LE_of_not_less {a b : Annot} (h : ¬ less b a = true) : LE a b := by
  intro hgt
  apply h
  rw [less_iff, compareTo_law.swap a b, hgt]; rfl

theorem LE_of_less {a b : Annot} (h : less a b = true) : LE a b := by
  rw [less_iff] at h; simp [LE, h]

theorem LE_trans {a b c : Annot} (h1 : LE a b) (h2 : LE b c) : LE a c := by
  unfold LE at *
  have L := compareTo_law
  cases hab : compareTo a b with
  | gt => exact absurd hab h1
  | eq => rw [L.eq_left a b c hab]; exact h2
  | lt =>
    cases hbc : compareTo b c with
    | gt => exact absurd hbc h2
    | eq => rw [← L.eq_right a b c hbc, hab]; simp
    | lt => rw [L.trans_lt a b c hab hbc]; simp

theorem ins_perm (x : Annot) : ∀ l, (ins x l).Perm (x :: l)
  | [] => List.Perm.refl _
  | y :: ys => by
    simp only [ins]
    split
    · exact ((ins_perm x ys).cons y).trans (List.Perm.swap x y ys)
    · exact List.Perm.refl _

theorem sortS_perm : ∀ l, (sortS l).Perm l
  | [] => List.Perm.refl _
  | x :: xs => (ins_perm x (sortS xs)).trans ((sortS_perm xs).cons x)

theorem mem_ins {a x : Annot} {l : List Annot} : a ∈ ins x l ↔ a = x ∨ a ∈ l := by
  rw [(ins_perm x l).mem_iff, List.mem_cons]

theorem ins_sorted (x : Annot) : ∀ l, l.Pairwise LE → (ins x l).Pairwise LE
  | [], _ => by simp [ins]
  | y :: ys, h => by
    simp only [ins]
    rw [List.pairwise_cons] at h
    split
    · rename_i hl
      rw [List.pairwise_cons]
      refine ⟨?_, ins_sorted x ys h.2⟩
      intro z hz
      rcases mem_ins.mp hz with rfl | hz
      · exact LE_of_less hl
      · exact h.1 z hz
    · rename_i hl
      rw [List.pairwise_cons]
      refine ⟨?_, List.pairwise_cons.mpr h⟩
      intro z hz
      rcases List.mem_cons.mp hz with rfl | hz
      · exact LE_of_not_less hl
      · exact LE_trans (LE_of_not_less hl) (h.1 z hz)

theorem sortS_sorted : ∀ l, (sortS l).Pairwise LE
  | [] => List.Pairwise.nil
  | x :: xs => ins_sorted x _ (sortS_sorted xs)

/-- No two members tie under compareTo. -/
def NoTies (l : List Annot) : Prop := l.Pairwise fun a b => compareTo a b ≠ .eq

theorem NoTies.perm {l l' : List Annot} (h : NoTies l) (p : l.Perm l') : NoTies l' :=
  List.Pairwise.perm h p (by
    intro a b hab hba
    apply hab
    rw [compareTo_law.swap b a, hba]; rfl)

/-- Two sorted lists without mutual ties that are permutations of each other are equal:
    the sorted order is unique, the stable sort's tie-breaking never comes into play. -/
theorem sorted_unique {l1 l2 : List Annot} (p : l1.Perm l2) (s1 : l1.Pairwise LE) (s2 : l2.Pairwise LE)
    (nt : ∀ a b, a ∈ l1 → b ∈ l1 → compareTo a b = .eq → a = b) : l1 = l2 := by
  refine List.Perm.eq_of_pairwise (le := LE) ?_ s1 s2 p
  intro a b ha hb hab hba
  apply nt a b ha (p.symm.mem_iff.mp hb |> fun h => h)
  have hsw := compareTo_law.swap a b
  unfold LE at hab hba
  cases h : compareTo a b with
  | eq => rfl
  | gt => exact absurd h hab
  | lt => rw [h] at hsw; exact absurd hsw hba

theorem sortS_strict {l : List Annot} (nt : NoTies l) :
    (sortS l).Pairwise fun a b => compareTo a b = .lt := by
  have h1 := sortS_sorted l
  have h2 : NoTies (sortS l) := nt.perm (sortS_perm l).symm
  refine List.Pairwise.imp ?_ (List.Pairwise.and h1 h2)
  intro a b h
  cases hc : compareTo a b with
  | lt => rfl
  | eq => exact absurd hc h.2
  | gt => exact absurd hc h.1

/-! ### the de-duplication loop -/

theorem mem_dedupWith {key : Annot → Str} : ∀ {l : List Annot} {seen : List Str} {a : Annot},
    a ∈ dedupWith key l seen → a ∈ l ∧ key a ∉ seen
  | [], _, _, h => by simp [dedupWith] at h
  | x :: xs, seen, a, h => by
    simp only [dedupWith] at h
    split at h
    · have := mem_dedupWith h
      exact ⟨List.mem_cons_of_mem _ this.1, this.2⟩
    · rename_i hx
      rcases List.mem_cons.mp h with rfl | h
      · exact ⟨List.mem_cons_self, hx⟩
      · have := mem_dedupWith h
        exact ⟨List.mem_cons_of_mem _ this.1, fun hm => this.2 (List.mem_cons_of_mem _ hm)⟩

/-- the survivors have pairwise different keys -/
theorem dedupWith_keys_distinct {key : Annot → Str} : ∀ (l : List Annot) (seen : List Str),
    (dedupWith key l seen).Pairwise fun a b => key a ≠ key b
  | [], _ => by simp [dedupWith]
  | x :: xs, seen => by
    simp only [dedupWith]
    split
    · exact dedupWith_keys_distinct xs seen
    · rw [List.pairwise_cons]
      refine ⟨?_, dedupWith_keys_distinct xs _⟩
      intro b hb heq
      have := (mem_dedupWith hb).2
      exact this (heq ▸ List.mem_cons_self)

/-- every key of the input that was not seen before is represented among the survivors -/
theorem dedupWith_covers {key : Annot → Str} : ∀ (l : List Annot) (seen : List Str) (a : Annot),
    a ∈ l → key a ∉ seen → ∃ a' ∈ dedupWith key l seen, key a' = key a
  | [], _, _, h, _ => by simp at h
  | x :: xs, seen, a, h, hs => by
    simp only [dedupWith]
    rcases List.mem_cons.mp h with rfl | h
    · split
      · rename_i hx; exact absurd hx hs
      · exact ⟨a, List.mem_cons_self, rfl⟩
    · split
      · exact dedupWith_covers xs seen a h hs
      · by_cases hk : key a = key x
        · exact ⟨x, List.mem_cons_self, hk.symm⟩
        · have hs' : key a ∉ key x :: seen := by
            intro hm; rcases List.mem_cons.mp hm with e | e
            · exact hk e
            · exact hs e
          obtain ⟨a', ha', hk'⟩ := dedupWith_covers xs _ a h hs'
          exact ⟨a', List.mem_cons_of_mem _ ha', hk'⟩

/-- nothing is dropped from a list whose keys are pairwise different -/
theorem dedupWith_id {key : Annot → Str} : ∀ (l : List Annot) (seen : List Str),
    l.Pairwise (fun a b => key a ≠ key b) → (∀ a ∈ l, key a ∉ seen) → dedupWith key l seen = l
  | [], _, _, _ => rfl
  | x :: xs, seen, hp, hs => by
    rw [List.pairwise_cons] at hp
    simp only [dedupWith]
    rw [if_neg (hs x List.mem_cons_self)]
    congr 1
    apply dedupWith_id xs _ hp.2
    intro a ha hm
    rcases List.mem_cons.mp hm with e | e
    · exact hp.1 a ha e.symm
    · exact hs a (List.mem_cons_of_mem _ ha) e

/-! ### injectivity of the length-prefixed key -/

theorem itoa_digit {n : Nat} {c : Char} (h : c ∈ itoa n) : c.isDigit = true :=
  Nat.isDigit_of_mem_toDigits (by decide) (by decide) h

theorem itoa_inj {a b : Nat} (h : itoa a = itoa b) : a = b := by
  have ha := @Nat.ofDigitChars_ten_toDigits a
  have hb := @Nat.ofDigitChars_ten_toDigits b
  unfold itoa at h
  rw [h] at ha
  exact ha.symm.trans hb

theorem isDigit_ne {c d : Char} (h : c.isDigit = true) (hd : d.isDigit = false) : c ≠ d := by
  intro e; subst e; rw [h] at hd; cases hd

theorem split_at_sep (sep : Char) : ∀ (p1 p2 q1 q2 : Str), (∀ c ∈ p1, c ≠ sep) → (∀ c ∈ p2, c ≠ sep) →
    p1 ++ sep :: q1 = p2 ++ sep :: q2 → p1 = p2 ∧ q1 = q2
  | [], [], _, _, _, _, h => by simpa using h
  | [], y :: ys, _, _, _, h2, h => by
    simp only [List.nil_append, List.cons_append, List.cons.injEq] at h
    exact absurd h.1.symm (h2 y List.mem_cons_self)
  | x :: xs, [], _, _, h1, _, h => by
    simp only [List.nil_append, List.cons_append, List.cons.injEq] at h
    exact absurd h.1 (h1 x List.mem_cons_self)
  | x :: xs, y :: ys, q1, q2, h1, h2, h => by
    simp only [List.cons_append, List.cons.injEq] at h
    have := split_at_sep sep xs ys q1 q2 (fun c hc => h1 c (List.mem_cons_of_mem _ hc))
      (fun c hc => h2 c (List.mem_cons_of_mem _ hc)) h.2
    exact ⟨by rw [h.1, this.1], this.2⟩

theorem utf8Len_eq_zero : ∀ {s : Str}, utf8Len s = 0 → s = []
  | [], _ => rfl
  | c :: cs, h => by
    simp only [utf8Len] at h
    have := Char.utf8Size_pos c
    omega

theorem append_inj_utf8 : ∀ (s1 s2 r1 r2 : Str), utf8Len s1 = utf8Len s2 → s1 ++ r1 = s2 ++ r2 →
    s1 = s2 ∧ r1 = r2
  | [], s2, _, _, hl, h => by
    have : s2 = [] := utf8Len_eq_zero (by simpa [utf8Len] using hl.symm)
    subst this; exact ⟨rfl, by simpa using h⟩
  | c :: cs, [], _, _, hl, _ => by
    have : c :: cs = [] := utf8Len_eq_zero (by simpa [utf8Len] using hl)
    cases this
  | c :: cs, d :: ds, r1, r2, hl, h => by
    simp only [List.cons_append, List.cons.injEq] at h
    obtain ⟨rfl, h⟩ := h
    simp only [utf8Len] at hl
    have := append_inj_utf8 cs ds r1 r2 (by omega) h
    exact ⟨by rw [this.1], this.2⟩

/-- a length-prefixed field can be read back unambiguously from the front of the key -/
theorem lp_append_inj (s1 s2 r1 r2 : Str) (h : lp s1 ++ r1 = lp s2 ++ r2) : s1 = s2 ∧ r1 = r2 := by
  unfold lp at h
  simp only [List.append_assoc, List.cons_append] at h
  have hd : ∀ n, ∀ c ∈ itoa n, c ≠ ':' := fun n c hc => isDigit_ne (itoa_digit hc) (by decide)
  obtain ⟨h1, h2⟩ := split_at_sep ':' _ _ _ _ (hd _) (hd _) h
  exact append_inj_utf8 _ _ _ _ (itoa_inj h1) h2

theorem flatMap_lp_inj : ∀ (l1 l2 : List Str), l1.length = l2.length →
    l1.flatMap lp = l2.flatMap lp → l1 = l2
  | [], [], _, _ => rfl
  | [], _ :: _, hl, _ => by simp at hl
  | _ :: _, [], hl, _ => by simp at hl
  | x :: xs, y :: ys, hl, h => by
    simp only [List.flatMap_cons] at h
    obtain ⟨hx, hr⟩ := lp_append_inj _ _ _ _ h
    rw [hx, flatMap_lp_inj xs ys (by simpa using hl) hr]

/-- THE FIX: the length-prefixed key determines the seven key fields. -/
theorem keyNew_inj {a b : Annot} (h : keyNew a = keyNew b) : keyFields a = keyFields b :=
  flatMap_lp_inj _ _ (by simp [keyFields]) h

/-- equal on the seven key fields (path as the hash sees it, the four numbers, type, message) -/
theorem keyFields_eq_iff (a b : Annot) : keyFields a = keyFields b ↔
    pathOf a = pathOf b ∧ a.sl = b.sl ∧ a.sc = b.sc ∧ a.el = b.el ∧ a.ec = b.ec ∧ a.type = b.type ∧ a.msg = b.msg := by
  simp only [keyFields, List.cons.injEq, and_true]
  constructor
  · rintro ⟨h1, h2, h3, h4, h5, h6, h7⟩
    exact ⟨h1, itoa_inj h2, itoa_inj h3, itoa_inj h4, itoa_inj h5, h6, h7⟩
  · rintro ⟨h1, h2, h3, h4, h5, h6, h7⟩
    rw [h1, h2, h3, h4, h5, h6, h7]; simp

theorem keyNew_eq_iff (a b : Annot) : keyNew a = keyNew b ↔ keyFields a = keyFields b :=
  ⟨keyNew_inj, fun h => by unfold keyNew; rw [h]⟩

/-! ### line structure of the line-oriented printers -/

/-- no line break inside -/
def OneLine (s : Str) : Prop := ∀ c ∈ s, c ≠ '\n' ∧ c ≠ '\r'

instance (s : Str) : Decidable (OneLine s) := by unfold OneLine; infer_instance

theorem OneLine.append {s t : Str} (hs : OneLine s) (ht : OneLine t) : OneLine (s ++ t) := by
  intro c hc
  rcases List.mem_append.mp hc with h | h
  · exact hs c h
  · exact ht c h

theorem OneLine.cons {c : Char} {t : Str} (hc : c ≠ '\n' ∧ c ≠ '\r') (ht : OneLine t) : OneLine (c :: t) := by
  intro d hd
  rcases List.mem_cons.mp hd with rfl | h
  · exact hc
  · exact ht d h

theorem OneLine.nil : OneLine [] := by intro c hc; cases hc

theorem oneLine_itoa (n : Nat) : OneLine (itoa n) := fun _ hc =>
  ⟨isDigit_ne (itoa_digit hc) (by decide), isDigit_ne (itoa_digit hc) (by decide)⟩

theorem oneLine_oneLine (s : Str) : OneLine (oneLine s) := by
  intro c hc
  simp only [oneLine, List.mem_map] at hc
  obtain ⟨d, _, rfl⟩ := hc
  split
  · exact ⟨by decide, by decide⟩
  · rename_i h; exact ⟨fun e => h (Or.inl e), fun e => h (Or.inr e)⟩

theorem oneLine_escData (s : Str) : OneLine (escData s) := by
  intro c hc
  simp only [escData, List.mem_flatMap] at hc
  obtain ⟨d, _, hd⟩ := hc
  split at hd
  · revert c; decide
  · split at hd
    · revert c; decide
    · split at hd
      · revert c; decide
      · rename_i h1 h2 h3
        simp only [List.mem_singleton] at hd
        subst hd; exact ⟨h3, h2⟩

theorem oneLine_escProp (s : Str) : OneLine (escProp s) := by
  intro c hc
  simp only [escProp, List.mem_flatMap] at hc
  obtain ⟨d, _, hd⟩ := hc
  split at hd
  · revert c; decide
  · split at hd
    · revert c; decide
    · split at hd
      · revert c; decide
      · split at hd
        · revert c; decide
        · split at hd
          · revert c; decide
          · rename_i h1 h2 h3 h4 h5
            simp only [List.mem_singleton] at hd
            subst hd; exact ⟨h3, h2⟩

theorem oneLine_pluginSuffix {esc : Str → Str} (h : ∀ s, OneLine (esc s)) (p : Str) :
    OneLine (pluginSuffix esc p) := by
  unfold pluginSuffix
  split
  · exact OneLine.nil
  · exact ((show OneLine " (".toList by decide).append (h p)).append (by decide)

theorem oneLine_msvsLine (a : Annot) : OneLine (msvsLine a) := by
  unfold msvsLine msvsLineWith
  repeat' (first
    | exact oneLine_oneLine _
    | exact oneLine_itoa _
    | exact oneLine_pluginSuffix oneLine_oneLine _
    | decide
    | apply OneLine.cons (by decide)
    | apply OneLine.append)

theorem oneLine_ghaPos (a : Annot) : OneLine (ghaPos a) := by
  unfold ghaPos
  have lit : ∀ {s : Str} {n : Nat}, OneLine s → OneLine (s ++ itoa n) := fun h => h.append (oneLine_itoa _)
  split
  · exact OneLine.nil
  · refine OneLine.append (OneLine.append (lit (by decide)) ?_) ?_
    · split
      · exact OneLine.nil
      · exact lit (by decide)
    · split
      · exact OneLine.nil
      · refine OneLine.append (lit (by decide)) ?_
        split
        · exact OneLine.nil
        · exact lit (by decide)

theorem oneLine_ghaLine (a : Annot) : OneLine (ghaLine a) := by
  unfold ghaLine ghaLineWith
  repeat' (first
    | exact oneLine_escProp _
    | exact oneLine_escData _
    | exact oneLine_ghaPos _
    | exact oneLine_pluginSuffix oneLine_escData _
    | decide
    | apply OneLine.append)

theorem linesOf_append_nl : ∀ (s rest : Str), (∀ c ∈ s, c ≠ '\n') → linesOf (s ++ '\n' :: rest) = s :: linesOf rest
  | [], rest, _ => by simp [linesOf]
  | c :: cs, rest, h => by
    have hc : c ≠ '\n' := h c List.mem_cons_self
    simp only [List.cons_append, linesOf, if_neg hc]
    rw [linesOf_append_nl cs rest (fun d hd => h d (List.mem_cons_of_mem _ hd))]

/-- if no rendered line contains a line feed, the consumer reads back exactly one line per
    annotation, in order -/
theorem linesOf_printLines (line : Annot → Str) : ∀ (l : List Annot), (∀ a ∈ l, ∀ c ∈ line a, c ≠ '\n') →
    linesOf (printLines line l) = l.map line
  | [], _ => rfl
  | a :: as, h => by
    simp only [printLines, List.flatMap_cons, List.map_cons, List.append_assoc, List.singleton_append]
    rw [linesOf_append_nl _ _ (h a List.mem_cons_self)]
    congr 1
    exact linesOf_printLines line as (fun b hb => h b (List.mem_cons_of_mem _ hb))

/-! ### dedupSort: what survives, uniqueness of the result -/

theorem dedup_noTies (l : List Annot) : NoTies (dedupWith keyNew l []) := by
  refine List.Pairwise.imp ?_ (dedupWith_keys_distinct (key := keyNew) l [])
  intro a b hk he
  apply hk
  rw [keyNew_eq_iff, keyFields_eq_iff]
  have := (compareTo_eq_iff a b).mp he
  simp only [cmpFields, Prod.mk.injEq] at this
  obtain ⟨h1, h2, h3, h4, h5, h6, h7⟩ := this
  exact ⟨by unfold pathOf; rw [h1], h2, h3, h6, h7, h4, h5⟩

theorem mem_dedupSort {l : List Annot} {a : Annot} : a ∈ dedupSort l ↔ a ∈ dedupWith keyNew l [] :=
  (sortS_perm _).mem_iff

theorem dedupSort_subset {l : List Annot} {a : Annot} (h : a ∈ dedupSort l) : a ∈ l :=
  (mem_dedupWith (mem_dedupSort.mp h)).1

theorem dedupSort_ne_nil {l : List Annot} (h : l ≠ []) : dedupSort l ≠ [] := by
  cases l with
  | nil => exact absurd rfl h
  | cons x xs =>
    intro he
    have hx : x ∈ dedupSort (x :: xs) := by
      rw [mem_dedupSort]; simp [dedupWith]
    rw [he] at hx; cases hx

/-- annotations equal on the seven key fields are equal (in practice: the rule ID determines
    the plugin name, and a FileInfo is nil only for path-less annotations) -/
def KeyDet (l : List Annot) : Prop := ∀ a ∈ l, ∀ b ∈ l, keyFields a = keyFields b → a = b

theorem mem_dedup_of_keyDet {l : List Annot} (kd : KeyDet l) {a : Annot} :
    a ∈ dedupWith keyNew l [] ↔ a ∈ l := by
  constructor
  · exact fun h => (mem_dedupWith h).1
  · intro h
    obtain ⟨a', ha', hk⟩ := dedupWith_covers (key := keyNew) l [] a h (by simp)
    have : a' = a := kd a' (mem_dedupWith ha').1 a h (keyNew_inj hk)
    exact this ▸ ha'

theorem dedup_nodup (l : List Annot) : (dedupWith keyNew l []).Nodup := by
  refine List.Pairwise.imp ?_ (dedupWith_keys_distinct (key := keyNew) l [])
  intro a b hk he; exact hk (he ▸ rfl)

theorem perm_of_nodup_of_mem_iff {l1 l2 : List Annot} (n1 : l1.Nodup) (n2 : l2.Nodup)
    (h : ∀ a, a ∈ l1 ↔ a ∈ l2) : l1.Perm l2 := by
  rw [List.perm_iff_count]
  intro a
  rw [n1.count, n2.count]
  by_cases ha : a ∈ l1
  · rw [if_pos ha, if_pos ((h a).mp ha)]
  · rw [if_neg ha, if_neg (fun h2 => ha ((h a).mpr h2))]

theorem dedupSort_perm_eq {l1 l2 : List Annot} (p : l1.Perm l2) (kd : KeyDet l1) :
    dedupSort l1 = dedupSort l2 := by
  have kd2 : KeyDet l2 := fun a ha b hb h => kd a (p.mem_iff.mpr ha) b (p.mem_iff.mpr hb) h
  have pd : (dedupWith keyNew l1 []).Perm (dedupWith keyNew l2 []) :=
    perm_of_nodup_of_mem_iff (dedup_nodup l1) (dedup_nodup l2) (fun a => by
      rw [mem_dedup_of_keyDet kd, mem_dedup_of_keyDet kd2]; exact p.mem_iff)
  have ps : (dedupSort l1).Perm (dedupSort l2) :=
    (sortS_perm _).trans (pd.trans (sortS_perm _).symm)
  refine sorted_unique ps (sortS_sorted _) (sortS_sorted _) ?_
  intro a b ha hb he
  apply kd a (dedupSort_subset ha) b (dedupSort_subset hb)
  rw [keyFields_eq_iff]
  have := (compareTo_eq_iff a b).mp he
  simp only [cmpFields, Prod.mk.injEq] at this
  obtain ⟨h1, h2, h3, h4, h5, h6, h7⟩ := this
  exact ⟨by unfold pathOf; rw [h1], h2, h3, h6, h7, h4, h5⟩

/-! ### exit status -/

/-- The invariant tying the final error to what was printed. -/
def Consistent (o : Outcome) : Prop :=
  match o.final with
  | .ok => o.printed = [] ∧ o.diff = false
  | .fileAnnotation => o.printed ≠ [] ∨ o.diff = true
  | .importNotExist => True
  | .other => o.printed = [] ∧ o.diff = false

theorem failStep_consistent (e : StepErr) : Consistent (failStep e []) := by
  cases e with
  | annots hd tl =>
    simp only [failStep, Consistent, List.nil_append]
    exact Or.inl (dedupSort_ne_nil (by simp))
  | importNotExist => simp [failStep, Consistent]
  | other => simp [failStep, Consistent]

theorem runSteps_consistent : ∀ (steps : List Step) (o : Outcome), runSteps steps = some o → Consistent o
  | [], _, h => by simp [runSteps] at h
  | none :: rest, o, h => runSteps_consistent rest o (by simpa [runSteps] using h)
  | some e :: _, o, h => by
    simp only [runSteps, Option.some.injEq] at h
    exact h ▸ failStep_consistent e

theorem checkLoop_consistent : ∀ (steps : List Step) (acc : List Annot), Consistent (checkLoop steps acc)
  | [], acc => by
    simp only [checkLoop]
    split
    · simp [Consistent]
    · rename_i h; simp only [Consistent]; exact Or.inl (dedupSort_ne_nil h)
  | none :: rest, acc => by simp only [checkLoop]; exact checkLoop_consistent rest acc
  | some (.annots hd tl) :: rest, acc => by simp only [checkLoop]; exact checkLoop_consistent rest _
  | some .importNotExist :: _, _ => by simp [checkLoop, Consistent]
  | some .other :: _, _ => by simp [checkLoop, Consistent]

theorem runSteps_eq_none_iff : ∀ (steps : List Step), runSteps steps = none ↔ ∀ s ∈ steps, s = none
  | [] => by simp [runSteps]
  | none :: rest => by simp [runSteps, runSteps_eq_none_iff rest]
  | some e :: _ => by simp [runSteps]

/-- complete description of the return path of a mode whose performed I/O steps succeed -/
theorem fmtTail_clean (m : FmtMode) (d : Bool) (io : FmtIO) (h : ∀ s ∈ m.ioSteps d io, s = none) :
    fmtTail m d io = (fmtDeferred m d,
      { stdoutDiff := m.diff && d,
        stdoutSource := !m.diff && !m.write && m.out == .stdout,
        rewrote := m.write && d,
        wroteOut := !m.write && m.out == .path }) := by
  rcases m with ⟨md, mw, mo, me⟩
  rcases io with ⟨c, r, o⟩
  cases md <;> cases mw <;> cases mo <;> cases d <;>
    simp_all [fmtTail, FmtMode.ioSteps, FmtEffects.none]

/-- a performed I/O step that fails makes the run fail with that step's error -/
theorem fmtTail_dirty (m : FmtMode) (d : Bool) (io : FmtIO) (h : ¬ ∀ s ∈ m.ioSteps d io, s = none) :
    ∃ e, (fmtTail m d io).1 = failStep e [] := by
  rcases m with ⟨md, mw, mo, me⟩
  rcases io with ⟨c, r, o⟩
  cases md <;> cases mw <;> cases mo <;> cases d <;> cases c <;> cases r <;> cases o <;>
    simp_all [fmtTail, FmtMode.ioSteps, FmtEffects.none] <;> exact ⟨_, rfl⟩

theorem failStep_diff (e : StepErr) : (failStep e []).diff = false := by
  cases e <;> rfl

theorem runSteps_diff : ∀ (steps : List Step) (o : Outcome), runSteps steps = some o → o.diff = false
  | [], _, h => by simp [runSteps] at h
  | none :: rest, o, h => runSteps_diff rest o (by simpa [runSteps] using h)
  | some e :: _, o, h => by
    simp only [runSteps, Option.some.injEq] at h
    exact h ▸ failStep_diff e

theorem fmtDeferred_consistent (m : FmtMode) (d : Bool) : Consistent (fmtDeferred m d) := by
  unfold fmtDeferred
  split <;> simp [Consistent]

theorem fmtTail_consistent (m : FmtMode) (d : Bool) (io : FmtIO) : Consistent (fmtTail m d io).1 := by
  unfold fmtTail
  dsimp only
  split
  · exact failStep_consistent _
  · split
    · exact fmtDeferred_consistent m d
    · split
      · split
        · exact failStep_consistent _
        · exact fmtDeferred_consistent m d
      · split
        · exact failStep_consistent _
        · exact fmtDeferred_consistent m d

theorem formatFull_consistent (m : FmtMode) (sw : Bool) (ctl : List Step) (f : Step) (d : Bool)
    (io : FmtIO) : Consistent (formatFull m sw ctl f d io).1 := by
  unfold formatFull
  split
  · exact failStep_consistent .other
  · split
    · rename_i o h; exact runSteps_consistent _ o h
    · exact fmtTail_consistent m d io

/-- the run reaches the mode's return path and every I/O step the mode performs succeeds -/
def FmtClean (m : FmtMode) (sw : Bool) (ctl : List Step) (f : Step) (d : Bool) (io : FmtIO) : Prop :=
  m.valid sw = true ∧ (∀ s ∈ ctl, s = none) ∧ f = none ∧ (∀ s ∈ m.ioSteps d io, s = none)

theorem formatFull_clean {m : FmtMode} {sw : Bool} {ctl : List Step} {f : Step} {d : Bool} {io : FmtIO}
    (h : FmtClean m sw ctl f d io) :
    formatFull m sw ctl f d io = (fmtDeferred m d,
      { stdoutDiff := m.diff && d,
        stdoutSource := !m.diff && !m.write && m.out == .stdout,
        rewrote := m.write && d,
        wroteOut := !m.write && m.out == .path }) := by
  obtain ⟨hv, hc, hf, hio⟩ := h
  have hr : runSteps (ctl ++ [f]) = none := by
    rw [runSteps_eq_none_iff]
    intro s hs
    rcases List.mem_append.mp hs with h | h
    · exact hc s h
    · rw [List.mem_singleton] at h; rw [h, hf]
  unfold formatFull
  rw [hv, hr]
  simp only [Bool.not_true, Bool.false_eq_true, if_false]
  exact fmtTail_clean m d io hio

theorem run_consistent (c : Cmd) : Consistent c.run := by
  cases c with
  | lint ctl k =>
    simp only [Cmd.run, lintLike]
    split
    · rename_i o h; exact runSteps_consistent _ o h
    · exact checkLoop_consistent _ _
  | breaking ctl k =>
    simp only [Cmd.run, lintLike]
    split
    · rename_i o h; exact runSteps_consistent _ o h
    · exact checkLoop_consistent _ _
  | build ctl =>
    simp only [Cmd.run, build]
    split
    · rename_i o h; exact runSteps_consistent _ o h
    · simp [Consistent]
  | format m sw ctl f d io =>
    simp only [Cmd.run, format]
    exact formatFull_consistent m sw ctl f d io

/-! ### groupAnnotationsByPath: flattening the JUnit suites gives back the list when equal
    displayed paths are adjacent -/

abbrev Groups := List (Str × List Annot)

def gkeys (gs : Groups) : List Str := gs.map (·.1)
def gflat (gs : Groups) : List Annot := gs.flatMap (·.2)
def lastKey (gs : Groups) : Option Str := gs.getLast?.map (·.1)

theorem addToGroups_new (k : Str) (a : Annot) : ∀ gs : Groups, k ∉ gkeys gs →
    addToGroups k a gs = gs ++ [(k, [a])]
  | [], _ => rfl
  | (k', g) :: rest, h => by
    have hne : k' ≠ k := fun e => h (by simp [gkeys, e])
    have hr : k ∉ gkeys rest := fun hm => h (by simp only [gkeys, List.map_cons, List.mem_cons]; exact Or.inr hm)
    simp only [addToGroups, if_neg hne, List.cons_append, addToGroups_new k a rest hr]

theorem addToGroups_last (k : Str) (a : Annot) (g : List Annot) : ∀ gs' : Groups, k ∉ gkeys gs' →
    addToGroups k a (gs' ++ [(k, g)]) = gs' ++ [(k, g ++ [a])]
  | [], _ => by simp [addToGroups]
  | (k', g') :: rest, h => by
    have hne : k' ≠ k := fun e => h (by simp [gkeys, e])
    have hr : k ∉ gkeys rest := fun hm => h (by simp only [gkeys, List.map_cons, List.mem_cons]; exact Or.inr hm)
    simp only [List.cons_append, addToGroups, if_neg hne, addToGroups_last k a g rest hr]

/-- `l` continues a run of equal displayed paths: each element either continues the current
    path or starts one never seen before. -/
def ContigFrom : List Str → Option Str → List Annot → Prop
  | _, _, [] => True
  | seen, cur, a :: rest =>
    (cur = some (dispPath a) ∨ dispPath a ∉ seen) ∧ ContigFrom (seen ++ [dispPath a]) (some (dispPath a)) rest

theorem ContigFrom_congr : ∀ (l : List Annot) (s1 s2 : List Str) (c : Option Str),
    (∀ k, k ∈ s1 ↔ k ∈ s2) → ContigFrom s1 c l → ContigFrom s2 c l
  | [], _, _, _, _, _ => trivial
  | a :: rest, s1, s2, c, hs, h => by
    simp only [ContigFrom] at h ⊢
    refine ⟨h.1.imp id (fun hn hm => hn ((hs _).mpr hm)), ContigFrom_congr rest _ _ _ ?_ h.2⟩
    intro k; simp only [List.mem_append, hs k]

theorem gflat_append (g1 g2 : Groups) : gflat (g1 ++ g2) = gflat g1 ++ gflat g2 := by
  simp [gflat, List.flatMap_append]

theorem group_flat : ∀ (l : List Annot) (gs : Groups), (gkeys gs).Nodup →
    ContigFrom (gkeys gs) (lastKey gs) l →
    gflat (l.foldl (fun gs a => addToGroups (dispPath a) a gs) gs) = gflat gs ++ l
  | [], gs, _, _ => by simp
  | a :: rest, gs, nd, h => by
    simp only [ContigFrom] at h
    simp only [List.foldl_cons]
    rcases h.1 with hc | hn
    · -- continues the last group
      rcases List.eq_nil_or_concat gs with rfl | ⟨gs', ⟨k, g⟩, rfl⟩
      · simp [lastKey] at hc
      · simp only [List.concat_eq_append] at *
        have hk : k = dispPath a := by simpa [lastKey] using hc
        subst hk
        have hnot : dispPath a ∉ gkeys gs' := by
          have : (gkeys gs' ++ [dispPath a]).Nodup := by simpa [gkeys] using nd
          rw [List.nodup_append] at this
          intro hm
          exact this.2.2 _ hm _ (List.mem_singleton.mpr rfl) rfl
        rw [addToGroups_last _ _ _ _ hnot]
        rw [group_flat rest]
        · simp [gflat]
        · simpa [gkeys] using nd
        · refine ContigFrom_congr rest _ _ _ ?_ (by simpa [lastKey] using h.2)
          intro k'; simp [gkeys]
    · rw [addToGroups_new _ _ _ hn]
      rw [group_flat rest]
      · simp [gflat]
      · have : gkeys (gs ++ [(dispPath a, [a])]) = gkeys gs ++ [dispPath a] := by simp [gkeys]
        rw [this, List.nodup_append]
        refine ⟨nd, by simp, ?_⟩
        intro x hx y hy e
        rw [List.mem_singleton] at hy
        exact hn (hy ▸ e ▸ hx)
      · have : gkeys (gs ++ [(dispPath a, [a])]) = gkeys gs ++ [dispPath a] := by simp [gkeys]
        rw [this]
        simpa [lastKey] using h.2

theorem groupByPath_flat {l : List Annot} (h : ContigFrom [] none l) : gflat (groupByPath l) = l := by
  have := group_flat l [] (by simp [gkeys]) (by simpa [gkeys, lastKey] using h)
  simpa [groupByPath, gflat] using this

/-- every member of a group shows the group's path -/
def GroupsOK (gs : Groups) : Prop := ∀ kg ∈ gs, ∀ a ∈ kg.2, dispPath a = kg.1

theorem addToGroups_ok (a : Annot) : ∀ gs : Groups, GroupsOK gs → GroupsOK (addToGroups (dispPath a) a gs)
  | [], _ => by
    intro kg hkg b hb
    simp only [addToGroups, List.mem_singleton] at hkg
    subst hkg
    simp only [List.mem_singleton] at hb
    rw [hb]
  | (k', g) :: rest, h => by
    simp only [addToGroups]
    split
    · rename_i he
      intro kg hkg b hb
      rcases List.mem_cons.mp hkg with rfl | hm
      · rcases List.mem_append.mp hb with hb | hb
        · exact h (k', g) List.mem_cons_self b hb
        · rw [List.mem_singleton.mp hb]; exact he.symm
      · exact h kg (List.mem_cons_of_mem _ hm) b hb
    · intro kg hkg b hb
      rcases List.mem_cons.mp hkg with rfl | hm
      · exact h (k', g) List.mem_cons_self b hb
      · exact addToGroups_ok a rest (fun kg hkg => h kg (List.mem_cons_of_mem _ hkg)) kg hm b hb

theorem foldl_groups_ok : ∀ (l : List Annot) (gs : Groups), GroupsOK gs →
    GroupsOK (l.foldl (fun gs a => addToGroups (dispPath a) a gs) gs)
  | [], _, h => h
  | a :: rest, gs, h => foldl_groups_ok rest _ (addToGroups_ok a gs h)

theorem groupByPath_ok (l : List Annot) : GroupsOK (groupByPath l) :=
  foldl_groups_ok l [] (by intro kg hkg; cases hkg)

theorem junit_items_eq : ∀ (gs : Groups), GroupsOK gs →
    (gs.map fun kg => ({ name := trimProto kg.1, tests := kg.2.length, cases := kg.2.map junitCase } : JSuite)).flatMap
      (fun s => s.cases.map (Rendered.junit s.name)) = (gflat gs).map (render .junit)
  | [], _ => rfl
  | (k, g) :: rest, h => by
    simp only [List.map_cons, List.flatMap_cons, gflat, List.map_append]
    rw [show List.flatMap (fun x => x.2) rest = gflat rest from rfl,
      ← junit_items_eq rest (fun kg hkg => h kg (List.mem_cons_of_mem _ hkg))]
    congr 1
    simp only [List.map_map]
    apply List.map_congr_left
    intro a ha
    simp only [Function.comp, render]
    rw [h (k, g) List.mem_cons_self a ha]

/-- different FileInfos are displayed differently (fails only if a file is literally named
    "<input>" and a path-less annotation is present as well) -/
def DispInj (l : List Annot) : Prop := ∀ a ∈ l, ∀ b ∈ l, dispPath a = dispPath b → a.file = b.file

theorem LE_file {a b : Annot} (h : LE a b) : cmpFile a.file b.file ≠ .gt := by
  intro hg; apply h; simp [compareTo, hg, Ordering.then]

theorem cmpFile_antisymm {x y : Option Str} (h1 : cmpFile x y ≠ .gt) (h2 : cmpFile y x ≠ .gt) : x = y := by
  have hs := cmpFile_law.swap x y
  cases h : cmpFile x y with
  | eq => exact (cmpFile_eq_iff x y).mp h
  | gt => exact absurd h h1
  | lt => rw [h] at hs; exact absurd hs h2

theorem contig_of_sorted : ∀ (l pre : List Annot), (pre ++ l).Pairwise LE → DispInj (pre ++ l) →
    ContigFrom (pre.map dispPath) (pre.getLast?.map dispPath) l
  | [], _, _, _ => trivial
  | a :: rest, pre, hs, hi => by
    simp only [ContigFrom]
    constructor
    · by_cases hm : dispPath a ∈ pre.map dispPath
      · left
        obtain ⟨e, he, hde⟩ := List.mem_map.mp hm
        have hfile : e.file = a.file :=
          hi e (List.mem_append_left _ he) a (List.mem_append_right _ List.mem_cons_self) hde
        rcases List.eq_nil_or_concat pre with rfl | ⟨pre', x, rfl⟩
        · cases he
        · simp only [List.concat_eq_append] at *
          simp only [List.getLast?_append, List.getLast?_singleton, Option.some_or, Option.map_some]
          congr 1
          have hxa : LE x a := by
            rw [List.pairwise_append] at hs
            exact hs.2.2 x (by simp) a List.mem_cons_self
          have hex : cmpFile e.file x.file ≠ .gt := by
            rcases List.mem_append.mp he with h | h
            · rw [List.pairwise_append] at hs
              have hp := hs.1
              rw [List.pairwise_append] at hp
              exact LE_file (hp.2.2 e h x (by simp))
            · rw [List.mem_singleton.mp h, cmpFile_law.refl]; simp
          have : x.file = a.file := cmpFile_antisymm (LE_file hxa) (hfile ▸ hex)
          unfold dispPath; rw [this]
      · exact Or.inr hm
    · have := contig_of_sorted rest (pre ++ [a]) (by simpa using hs) (by simpa using hi)
      simpa using this

theorem sorted_contig {l : List Annot} (hs : l.Pairwise LE) (hi : DispInj l) : ContigFrom [] none l := by
  simpa using contig_of_sorted l [] (by simpa using hs) (by simpa using hi)

/-! ### every format carries the fields of the JSON record -/

/-- path shown for a JSON record: a record without `path` key is a path-less annotation -/
def recPath (r : JsonRec) : Str := if r.path = [] then inputPath else r.path
def recShownMsg (r : JsonRec) : Str :=
  if r.msg = [] then (if r.type = [] then failureStr else r.type) else r.msg
def recShownType (r : JsonRec) : Str := if r.type = [] then failureStr else r.type

/-- the text line as a function of the JSON record -/
def textOfRec (r : JsonRec) : Str :=
  recPath r ++ ':' :: itoa r.sl ++ ':' :: itoa r.sc ++ ':' :: recShownMsg r ++ pluginSuffix id r.plugin

/-- the msvs line as a function of the JSON record -/
def msvsOfRec (r : JsonRec) : Str :=
  oneLine (recPath r) ++ '(' :: itoa r.sl ++ ',' :: itoa r.sc ++ ") : error ".toList
    ++ oneLine (recShownType r) ++ " : ".toList ++ oneLine (recShownMsg r) ++ pluginSuffix oneLine r.plugin

theorem recPath_jsonRec {a : Annot} (h : a.file ≠ some []) : recPath (jsonRec a) = dispPath a := by
  unfold recPath jsonRec pathOf dispPath
  cases hf : a.file with
  | none => simp
  | some p =>
    have : p ≠ [] := fun e => h (by rw [hf, e])
    simp [this]

/-! ### GitHub's escaping can be undone: the runner reads back the original path and message -/

/-- the runner's unescape for property values (%25 %0D %0A %3A %2C) -/
def unescProp : Str → Str
  | c :: a :: b :: t =>
    if c = '%' ∧ a = '2' ∧ b = '5' then '%' :: unescProp t
    else if c = '%' ∧ a = '0' ∧ b = 'D' then '\r' :: unescProp t
    else if c = '%' ∧ a = '0' ∧ b = 'A' then '\n' :: unescProp t
    else if c = '%' ∧ a = '3' ∧ b = 'A' then ':' :: unescProp t
    else if c = '%' ∧ a = '2' ∧ b = 'C' then ',' :: unescProp t
    else c :: unescProp (a :: b :: t)
  | [c, a] => [c, a]
  | [c] => [c]
  | [] => []
termination_by s => s.length
decreasing_by all_goals (simp only [List.length_cons]; omega)

/-- the runner's unescape for command data (%25 %0D %0A) -/
def unescData : Str → Str
  | c :: a :: b :: t =>
    if c = '%' ∧ a = '2' ∧ b = '5' then '%' :: unescData t
    else if c = '%' ∧ a = '0' ∧ b = 'D' then '\r' :: unescData t
    else if c = '%' ∧ a = '0' ∧ b = 'A' then '\n' :: unescData t
    else c :: unescData (a :: b :: t)
  | [c, a] => [c, a]
  | [c] => [c]
  | [] => []
termination_by s => s.length
decreasing_by all_goals (simp only [List.length_cons]; omega)

def escPropChar (c : Char) : Str :=
  if c = '%' then "%25".toList else if c = '\r' then "%0D".toList
  else if c = '\n' then "%0A".toList else if c = ':' then "%3A".toList
  else if c = ',' then "%2C".toList else [c]

def escDataChar (c : Char) : Str :=
  if c = '%' then "%25".toList else if c = '\r' then "%0D".toList
  else if c = '\n' then "%0A".toList else [c]

theorem escProp_cons (c : Char) (t : Str) : escProp (c :: t) = escPropChar c ++ escProp t := by
  simp only [escProp, List.flatMap_cons, escPropChar]

theorem escData_cons (c : Char) (t : Str) : escData (c :: t) = escDataChar c ++ escData t := by
  simp only [escData, List.flatMap_cons, escDataChar]

/-- a plain character (not '%') in front is copied -/
theorem unescProp_plain {c : Char} (h : c ≠ '%') : ∀ t : Str, unescProp (c :: t) = c :: unescProp t
  | [] => by simp [unescProp]
  | [a] => by simp [unescProp]
  | a :: b :: t => by rw [unescProp]; simp [h]

theorem unescData_plain {c : Char} (h : c ≠ '%') : ∀ t : Str, unescData (c :: t) = c :: unescData t
  | [] => by simp [unescData]
  | [a] => by simp [unescData]
  | a :: b :: t => by rw [unescData]; simp [h]

theorem unescProp_escProp : ∀ s : Str, unescProp (escProp s) = s
  | [] => by simp [escProp, unescProp]
  | c :: t => by
    have ih := unescProp_escProp t
    rw [escProp_cons]
    by_cases h1 : c = '%'
    · subst h1; simp [escPropChar, unescProp, ih]
    · by_cases h2 : c = '\r'
      · subst h2; simp [escPropChar, unescProp, ih]
      · by_cases h3 : c = '\n'
        · subst h3; simp [escPropChar, unescProp, ih]
        · by_cases h4 : c = ':'
          · subst h4; simp [escPropChar, unescProp, ih]
          · by_cases h5 : c = ','
            · subst h5; simp [escPropChar, unescProp, ih]
            · simp only [escPropChar, if_neg h1, if_neg h2, if_neg h3, if_neg h4, if_neg h5, List.singleton_append]
              rw [unescProp_plain h1, ih]

theorem unescData_escData : ∀ s : Str, unescData (escData s) = s
  | [] => by simp [escData, unescData]
  | c :: t => by
    have ih := unescData_escData t
    rw [escData_cons]
    by_cases h1 : c = '%'
    · subst h1; simp [escDataChar, unescData, ih]
    · by_cases h2 : c = '\r'
      · subst h2; simp [escDataChar, unescData, ih]
      · by_cases h3 : c = '\n'
        · subst h3; simp [escDataChar, unescData, ih]
        · simp only [escDataChar, if_neg h1, if_neg h2, if_neg h3, List.singleton_append]
          rw [unescData_plain h1, ih]

/-- an escaped property value contains no ',' and no ':' — the value ends where the next
    `,key=` or the `::` begins -/
theorem escProp_no_sep (s : Str) : ∀ c ∈ escProp s, c ≠ ',' ∧ c ≠ ':' := by
  intro c hc
  simp only [escProp, List.mem_flatMap] at hc
  obtain ⟨d, _, hd⟩ := hc
  split at hd
  · revert c; decide
  · split at hd
    · revert c; decide
    · split at hd
      · revert c; decide
      · split at hd
        · revert c; decide
        · split at hd
          · revert c; decide
          · rename_i h1 h2 h3 h4 h5
            simp only [List.mem_singleton] at hd
            subst hd; exact ⟨h5, h4⟩

end BufModel.Annot
