import BufModel.Config
import BufProofs.Lemmas.PathLemmas
/-
  Helper lemmas for C16: strict total orders (strLt, keyLt), the sort functions, the
  antichain predicate, re-basing of path lists, and the round trip of check configurations.
-/
namespace BufModel.Config
open BufModel.Path

/-! ### strict total orders -/

structure StrictTotal {α : Type} (lt : α → α → Bool) : Prop where
  irrefl : ∀ a, lt a a = false
  trans : ∀ a b c, lt a b = true → lt b c = true → lt a c = true
  tri : ∀ a b, lt a b = false → lt b a = false → a = b

theorem StrictTotal.asymm {α : Type} {lt : α → α → Bool} (h : StrictTotal lt) (a b : α)
    (hab : lt a b = true) : lt b a = false := by
  cases hba : lt b a with
  | false => rfl
  | true => have := h.trans a b a hab hba; rw [h.irrefl] at this; cases this

theorem charLt_total : StrictTotal charLt where
  irrefl := by intro a; simp [charLt]
  trans := by intro a b c; simp only [charLt, decide_eq_true_eq]; omega
  tri := by
    intro a b h1 h2
    simp only [charLt, decide_eq_false_iff_not] at h1 h2
    have : a.toNat = b.toNat := by omega
    exact Char.ext (UInt32.toNat_inj.mp this)

theorem lexLt_total {α : Type} {lt : α → α → Bool} (h : StrictTotal lt) : StrictTotal (lexLt lt) where
  irrefl := by
    intro a
    induction a with
    | nil => rfl
    | cons x xs ih => simp [lexLt, h.irrefl, ih]
  trans := by
    intro a
    induction a with
    | nil =>
      intro b c hab hbc
      cases b with
      | nil => simp [lexLt] at hab
      | cons y ys => cases c with
        | nil => simp [lexLt] at hbc
        | cons z zs => simp [lexLt]
    | cons x xs ih =>
      intro b c hab hbc
      cases b with
      | nil => simp [lexLt] at hab
      | cons y ys =>
        cases c with
        | nil => simp [lexLt] at hbc
        | cons z zs =>
          simp only [lexLt] at hab hbc ⊢
          by_cases hxy : lt x y = true
          · by_cases hyz : lt y z = true
            · simp [h.trans x y z hxy hyz]
            · simp only [hyz] at hbc
              by_cases hzy : lt z y = true
              · simp [hzy] at hbc
              · have : y = z := h.tri y z (by simpa using hyz) (by simpa using hzy)
                subst this; simp [hxy]
          · simp only [hxy] at hab
            by_cases hyx : lt y x = true
            · simp [hyx] at hab
            · have hxy' : x = y := h.tri x y (by simpa using hxy) (by simpa using hyx)
              subst hxy'
              simp only [Bool.false_eq_true, if_false, hyx] at hab
              by_cases hxz : lt x z = true
              · simp [hxz]
              · simp only [hxz, Bool.false_eq_true, if_false] at hbc ⊢
                by_cases hzx : lt z x = true
                · simp [hzx] at hbc
                · simp only [hzx, Bool.false_eq_true, if_false] at hbc ⊢
                  exact ih ys zs hab hbc
  tri := by
    intro a
    induction a with
    | nil => intro b h1 h2; cases b with
      | nil => rfl
      | cons y ys => simp [lexLt] at h1
    | cons x xs ih =>
      intro b h1 h2
      cases b with
      | nil => simp [lexLt] at h2
      | cons y ys =>
        simp only [lexLt] at h1 h2
        by_cases hxy : lt x y = true
        · simp [hxy] at h1
        · by_cases hyx : lt y x = true
          · simp [hyx] at h2
          · have : x = y := h.tri x y (by simpa using hxy) (by simpa using hyx)
            subst this
            simp only [hxy, Bool.false_eq_true, if_false] at h1 h2
            rw [ih ys h1 h2]

theorem strLt_total : StrictTotal strLt := lexLt_total charLt_total

/-- Lexicographic product of an order on a projection with a tie-breaking order. -/
theorem prod_total {α β : Type} [DecidableEq β] (f : α → β) {ltb : β → β → Bool} {lta : α → α → Bool}
    (hb : StrictTotal ltb) (ha : StrictTotal lta) :
    StrictTotal (fun a b => ltb (f a) (f b) || (decide (f a = f b) && lta a b)) where
  irrefl := by intro a; simp [hb.irrefl, ha.irrefl]
  trans := by
    intro a b c h1 h2
    simp only [Bool.or_eq_true, Bool.and_eq_true, decide_eq_true_eq] at h1 h2 ⊢
    rcases h1 with h1 | ⟨e1, h1⟩
    · rcases h2 with h2 | ⟨e2, h2⟩
      · exact Or.inl (hb.trans _ _ _ h1 h2)
      · rw [← e2]; exact Or.inl h1
    · rcases h2 with h2 | ⟨e2, h2⟩
      · rw [e1]; exact Or.inl h2
      · exact Or.inr ⟨e1.trans e2, ha.trans _ _ _ h1 h2⟩
  tri := by
    intro a b h1 h2
    simp only [Bool.or_eq_false_iff, Bool.and_eq_false_iff, decide_eq_false_iff_not] at h1 h2
    have e : f a = f b := hb.tri _ _ h1.1 h2.1
    have l1 : lta a b = false := by rcases h1.2 with h | h; exact absurd e h; exact h
    have l2 : lta b a = false := by rcases h2.2 with h | h; exact absurd e.symm h; exact h
    exact ha.tri a b l1 l2

theorem keyLt_total : StrictTotal keyLt := by
  have h := prod_total renderKey strLt_total (lexLt_total strLt_total)
  exact ⟨h.irrefl, h.trans, h.tri⟩

/-- On validated paths the tie-break never decides: `keyLt` is the string order of the
    rendered paths, i.e. what `sort.Strings` uses. -/
theorem keyLt_proper {a b : Key} (ha : AllProper a) (hb : AllProper b) :
    keyLt a b = strLt (renderKey a) (renderKey b) := by
  unfold keyLt
  by_cases e : renderKey a = renderKey b
  · have := renderKey_inj ha hb e
    subst this
    simp [(lexLt_total strLt_total).irrefl]
  · simp [e]

/-! ### sortU -/

abbrev Sorted {α : Type} (lt : α → α → Bool) (l : List α) : Prop := l.Pairwise (fun a b => lt a b = true)

theorem mem_insertU {α : Type} (lt : α → α → Bool) (x z : α) (l : List α) :
    z ∈ insertU lt x l → z = x ∨ z ∈ l := by
  induction l with
  | nil => simp [insertU]
  | cons y ys ih =>
    unfold insertU
    split
    · simp
    · split
      · intro h
        rcases List.mem_cons.mp h with h | h
        · exact Or.inr (by simp [h])
        · rcases ih h with h | h
          · exact Or.inl h
          · exact Or.inr (by simp [h])
      · intro h; exact Or.inr h

theorem mem_insertU_of_mem {α : Type} (lt : α → α → Bool) (x z : α) (l : List α) (h : z ∈ l) :
    z ∈ insertU lt x l := by
  induction l with
  | nil => cases h
  | cons y ys ih =>
    unfold insertU
    split
    · simp [List.mem_cons.mp h]
    · split
      · rcases List.mem_cons.mp h with h | h
        · simp [h]
        · simp [ih h]
      · exact h

theorem self_mem_insertU {α : Type} {lt : α → α → Bool} (ht : StrictTotal lt) (x : α) (l : List α) :
    x ∈ insertU lt x l := by
  induction l with
  | nil => simp [insertU]
  | cons y ys ih =>
    unfold insertU
    split
    · simp
    · rename_i h1
      split
      · simp [ih]
      · rename_i h2
        have : x = y := ht.tri x y (by simpa using h1) (by simpa using h2)
        simp [this]

theorem mem_sortU_imp {α : Type} (lt : α → α → Bool) (z : α) (l : List α) : z ∈ sortU lt l → z ∈ l := by
  induction l with
  | nil => simp [sortU]
  | cons x xs ih =>
    intro h
    have h' : z ∈ insertU lt x (sortU lt xs) := h
    rcases mem_insertU lt x z _ h' with h | h
    · simp [h]
    · simp [ih h]

theorem mem_sortU {α : Type} {lt : α → α → Bool} (ht : StrictTotal lt) (z : α) (l : List α) :
    z ∈ sortU lt l ↔ z ∈ l := by
  refine ⟨mem_sortU_imp lt z l, ?_⟩
  induction l with
  | nil => simp
  | cons x xs ih =>
    intro h
    show z ∈ insertU lt x (sortU lt xs)
    rcases List.mem_cons.mp h with h | h
    · subst h; exact self_mem_insertU ht _ _
    · exact mem_insertU_of_mem lt x z _ (ih h)

theorem sorted_insertU {α : Type} {lt : α → α → Bool} (htr : ∀ a b c, lt a b = true → lt b c = true → lt a c = true)
    (x : α) (l : List α) (h : Sorted lt l) : Sorted lt (insertU lt x l) := by
  induction l with
  | nil => simp [insertU, Sorted]
  | cons y ys ih =>
    have hy := List.pairwise_cons.mp h
    unfold insertU
    split
    · rename_i hxy
      refine List.pairwise_cons.mpr ⟨?_, h⟩
      intro z hz
      rcases List.mem_cons.mp hz with hz | hz
      · subst hz; exact hxy
      · exact htr _ _ _ hxy (hy.1 z hz)
    · split
      · rename_i hyx
        refine List.pairwise_cons.mpr ⟨?_, ih hy.2⟩
        intro z hz
        rcases mem_insertU lt x z ys hz with hz | hz
        · subst hz; exact hyx
        · exact hy.1 z hz
      · exact h

theorem sorted_sortU {α : Type} {lt : α → α → Bool} (htr : ∀ a b c, lt a b = true → lt b c = true → lt a c = true)
    (l : List α) : Sorted lt (sortU lt l) := by
  induction l with
  | nil => simp [sortU, Sorted]
  | cons x xs ih => exact sorted_insertU htr x _ ih

theorem sortU_eq_self {α : Type} {lt : α → α → Bool} (l : List α) (h : Sorted lt l) : sortU lt l = l := by
  induction l with
  | nil => rfl
  | cons x xs ih =>
    have hx := List.pairwise_cons.mp h
    show insertU lt x (sortU lt xs) = x :: xs
    rw [ih hx.2]
    cases xs with
    | nil => rfl
    | cons y ys => simp [insertU, hx.1 y (by simp)]

/-- Two strictly sorted lists with the same members are equal. -/
theorem sorted_ext {α : Type} {lt : α → α → Bool} (ht : StrictTotal lt) :
    ∀ (a b : List α), Sorted lt a → Sorted lt b → (∀ z, z ∈ a ↔ z ∈ b) → a = b := by
  intro a
  induction a with
  | nil =>
    intro b _ _ hm
    cases b with
    | nil => rfl
    | cons y ys => have := (hm y).mpr (by simp); cases this
  | cons x xs ih =>
    intro b ha hb hm
    cases b with
    | nil => have := (hm x).mp (by simp); cases this
    | cons y ys =>
      have hx := List.pairwise_cons.mp ha
      have hy := List.pairwise_cons.mp hb
      have hxy : x = y := by
        have h1 : x ∈ y :: ys := (hm x).mp (by simp)
        have h2 : y ∈ x :: xs := (hm y).mpr (by simp)
        rcases List.mem_cons.mp h1 with h1 | h1
        · exact h1
        · rcases List.mem_cons.mp h2 with h2 | h2
          · exact h2.symm
          · have l1 := hy.1 x h1
            have l2 := hx.1 y h2
            rw [ht.asymm _ _ l1] at l2; cases l2
      subst hxy
      congr 1
      apply ih ys hx.2 hy.2
      intro z
      constructor
      · intro hz
        have := (hm z).mp (by simp [hz])
        rcases List.mem_cons.mp this with h | h
        · subst h; have := hx.1 z hz; rw [ht.irrefl] at this; cases this
        · exact h
      · intro hz
        have := (hm z).mpr (by simp [hz])
        rcases List.mem_cons.mp this with h | h
        · subst h; have := hy.1 z hz; rw [ht.irrefl] at this; cases this
        · exact h

/-- `sortU` only depends on the set of members; a sorted list with the right members is it. -/
theorem sortU_eq_of_mem {α : Type} {lt : α → α → Bool} (ht : StrictTotal lt) (l s : List α)
    (hs : Sorted lt s) (hm : ∀ z, z ∈ l ↔ z ∈ s) : sortU lt l = s :=
  sorted_ext ht _ _ (sorted_sortU ht.trans l) hs (fun z => (mem_sortU ht z l).trans (hm z))

theorem sorted_nodup {α : Type} {lt : α → α → Bool} (hirr : ∀ a, lt a a = false) (l : List α) (h : Sorted lt l) :
    l.Nodup := by
  induction l with
  | nil => simp
  | cons x xs ih =>
    have hx := List.pairwise_cons.mp h
    refine List.nodup_cons.mpr ⟨?_, ih hx.2⟩
    intro hm
    have := hx.1 x hm
    rw [hirr] at this; cases this

/-! ### sortStable -/

theorem sortStable_eq_self {α : Type} {lt : α → α → Bool} (l : List α)
    (h : l.Pairwise (fun a b => lt b a = false)) : sortStable lt l = l := by
  induction l with
  | nil => rfl
  | cons x xs ih =>
    have hx := List.pairwise_cons.mp h
    show insertS lt x (sortStable lt xs) = x :: xs
    rw [ih hx.2]
    cases xs with
    | nil => rfl
    | cons y ys => simp [insertS, hx.1 y (by simp)]

theorem mem_insertS {α : Type} (lt : α → α → Bool) (x z : α) (l : List α) :
    z ∈ insertS lt x l ↔ z = x ∨ z ∈ l := by
  induction l with
  | nil => simp [insertS]
  | cons y ys ih =>
    unfold insertS
    split
    · simp [ih]; constructor
      · rintro (h | h | h) <;> simp [h]
      · rintro (h | h | h) <;> simp [h]
    · simp

theorem mem_sortStable {α : Type} (lt : α → α → Bool) (z : α) (l : List α) : z ∈ sortStable lt l ↔ z ∈ l := by
  induction l with
  | nil => simp [sortStable]
  | cons x xs ih =>
    show z ∈ insertS lt x (sortStable lt xs) ↔ _
    rw [mem_insertS, ih]; simp

/-- Output of the stable sort is sorted (non-strictly), for an order of the form "strict total
    order on a key". -/
theorem sorted_sortStable {α β : Type} (key : α → β) {ltb : β → β → Bool} (ht : StrictTotal ltb) (l : List α) :
    (sortStable (fun a b => ltb (key a) (key b)) l).Pairwise (fun a b => ltb (key b) (key a) = false) := by
  induction l with
  | nil => simp [sortStable]
  | cons x xs ih =>
    show (insertS _ x (sortStable _ xs)).Pairwise _
    generalize sortStable (fun a b => ltb (key a) (key b)) xs = s at ih
    induction s with
    | nil => simp [insertS]
    | cons y ys ihs =>
      have hy := List.pairwise_cons.mp ih
      unfold insertS
      split
      · rename_i hyx
        refine List.pairwise_cons.mpr ⟨?_, ihs hy.2⟩
        intro z hz
        rcases (mem_insertS _ x z ys).mp hz with hz | hz
        · subst hz; exact ht.asymm _ _ hyx
        · exact hy.1 z hz
      · rename_i hyx
        have hyx' : ltb (key y) (key x) = false := by simpa using hyx
        refine List.pairwise_cons.mpr ⟨?_, ih⟩
        intro z hz
        rcases List.mem_cons.mp hz with hz | hz
        · subst hz; exact hyx'
        · -- ¬ z < y and ¬ y < x imply ¬ z < x
          have hzy := hy.1 z hz
          cases hzx : ltb (key z) (key x) with
          | false => rfl
          | true =>
            cases hyz : ltb (key y) (key z) with
            | true => have := ht.trans _ _ _ hyz hzx; rw [hyx'] at this; cases this
            | false =>
              have : key z = key y := ht.tri _ _ hzy hyz
              rw [this, hyx'] at hzx; cases hzx

end BufModel.Config

namespace BufModel.Config
open BufModel.Path

/-! ### prefixes, antichains -/

theorem isPrefixOf_append_left (d a b : Key) : (d ++ a).isPrefixOf (d ++ b) = a.isPrefixOf b := by
  induction d with
  | nil => rfl
  | cons x xs ih => simp [List.isPrefixOf, ih]

theorem isPrefixOf_self_append (d k : Key) : d.isPrefixOf (d ++ k) = true := by
  have := isPrefixOf_append_left d [] k
  simpa using this

theorem append_eq_self_iff (d k : Key) : d ++ k = d ↔ k = [] := by
  constructor
  · intro h; exact List.append_right_eq_self.mp h
  · intro h; simp [h]

theorem unrelated_append (d a b : Key) : unrelated (d ++ a) (d ++ b) = unrelated a b := by
  simp [unrelated, isPrefixOf_append_left]

theorem unrelated_symm (a b : Key) : unrelated a b = unrelated b a := by
  simp [unrelated, Bool.and_comm]

theorem isPrefixOf_refl (a : Key) : a.isPrefixOf a = true := by
  induction a with
  | nil => rfl
  | cons x xs ih => simp [List.isPrefixOf, ih]

theorem unrelated_irrefl (a : Key) : unrelated a a = false := by
  simp [unrelated, isPrefixOf_refl]

def SetAnti (l : List Key) : Prop := ∀ a ∈ l, ∀ b ∈ l, a ≠ b → unrelated a b = true

theorem antichain_iff (l : List Key) : antichain l = true ↔ l.Nodup ∧ SetAnti l := by
  induction l with
  | nil => simp [antichain, SetAnti]
  | cons x xs ih =>
    simp only [antichain, Bool.and_eq_true, List.all_eq_true, ih, List.nodup_cons]
    constructor
    · rintro ⟨hx, hnd, hs⟩
      refine ⟨⟨?_, hnd⟩, ?_⟩
      · intro hm; have := hx x hm; rw [unrelated_irrefl] at this; cases this
      · intro a ha b hb hab
        rcases List.mem_cons.mp ha with ha | ha
        · rcases List.mem_cons.mp hb with hb | hb
          · exact absurd (ha.trans hb.symm) hab
          · rw [ha]; exact hx b hb
        · rcases List.mem_cons.mp hb with hb | hb
          · rw [hb, unrelated_symm]; exact hx a ha
          · exact hs a ha b hb hab
    · rintro ⟨⟨hnx, hnd⟩, hs⟩
      refine ⟨?_, hnd, ?_⟩
      · intro b hb
        exact hs x (by simp) b (by simp [hb]) (by intro e; subst e; exact hnx hb)
      · intro a ha b hb hab
        exact hs a (by simp [ha]) b (by simp [hb]) hab

theorem antichain_sortU (l : List Key) (h : antichain l = true) : antichain (sortU keyLt l) = true := by
  rw [antichain_iff] at h ⊢
  refine ⟨sorted_nodup keyLt_total.irrefl _ (sorted_sortU keyLt_total.trans l), ?_⟩
  intro a ha b hb hab
  exact h.2 a (mem_sortU_imp _ _ _ ha) b (mem_sortU_imp _ _ _ hb) hab

theorem antichain_map_append (d : Key) (l : List Key) : antichain (l.map (d ++ ·)) = antichain l := by
  induction l with
  | nil => rfl
  | cons x xs ih =>
    simp only [List.map_cons, antichain, ih, List.all_map]
    congr 1
    apply List.all_congr rfl
    simp [unrelated_append]

theorem antichain_of_mem_subset (l s : List Key) (hnd : s.Nodup) (hs : ∀ z ∈ s, z ∈ l)
    (h : antichain l = true) : antichain s = true := by
  rw [antichain_iff] at h ⊢
  exact ⟨hnd, fun a ha b hb hab => h.2 a (hs a ha) b (hs b hb) hab⟩

/-! ### normCheckKeys on lists that are already in normal form -/

theorem normCheckKeys_self (ks : List Key) (hs : Sorted keyLt ks) (ha : antichain ks = true) :
    normCheckKeys ks = some ks := by
  simp [normCheckKeys, ha, sortU_eq_self ks hs]

theorem normCheckKeys_sortU_self (ks : List Key) (hs : Sorted keyLt ks) (ha : antichain ks = true) :
    normCheckKeys (sortU keyLt ks) = some ks := by
  rw [sortU_eq_self ks hs]; exact normCheckKeys_self ks hs ha

/-! ### re-basing lists of paths: write (join) then read (rel) -/

def rebase (d : Key) (ks : List Key) : List P := ks.map fun k => P.ok (d ++ k)

theorem isDisabled_rebase (d : Key) (ks : List Key) (h : [] ∉ ks) : isDisabled d (rebase d ks) = some false := by
  induction ks with
  | nil => rfl
  | cons k rest ih =>
    have hk : k ≠ [] := fun e => h (by simp [e])
    have hr : [] ∉ rest := fun e => h (by simp [e])
    simp only [rebase, List.map_cons, isDisabled, P.nv]
    rw [if_neg (by rw [append_eq_self_iff]; exact hk)]
    exact ih hr

theorem drop_append_self (d k : Key) : (d ++ k).drop d.length = k := by simp

theorem relPaths_rebase (d : Key) (r : Bool) (ks : List Key) : relPaths d r (rebase d ks) = some ks := by
  induction ks with
  | nil => rfl
  | cons k rest ih =>
    simp only [rebase, List.map_cons, relPaths, P.nv, isPrefixOf_self_append, if_true]
    have : relPaths d r (List.map (fun k => P.ok (d ++ k)) rest) = some rest := ih
    rw [this, drop_append_self]

def rebaseIO (d : Key) (io : List (Str × List Key)) : List (Str × List P) :=
  io.map fun (id, ks) => (id, ks.map fun k => P.ok (d ++ k))

theorem relIgnoreOnly_rebase (d : Key) (r : Bool) (io : List (Str × List Key))
    (h : ∀ e ∈ io, e.2 ≠ []) : relIgnoreOnly d r (rebaseIO d io) = some io := by
  induction io with
  | nil => rfl
  | cons e rest ih =>
    obtain ⟨id, ks⟩ := e
    have hks : ks ≠ [] := h (id, ks) (by simp)
    have hr : ∀ e ∈ rest, e.2 ≠ [] := fun e he => h e (by simp [he])
    simp only [rebaseIO, List.map_cons, relIgnoreOnly]
    have h1 : relPaths d r (List.map (fun k => P.ok (d ++ k)) ks) = some ks := relPaths_rebase d r ks
    have h2 : relIgnoreOnly d r (List.map (fun x => (x.1, List.map (fun k => P.ok (d ++ k)) x.2)) rest) = some rest := ih hr
    rw [h1, h2]
    simp [hks]

/-! ### well-formed check configurations and their round trip -/

structure WFKeys (ks : List Key) : Prop where
  sorted : Sorted keyLt ks
  anti : antichain ks = true

/-- What every CheckConfig produced by a reader satisfies. -/
structure WFCheck (c : Check) : Prop where
  dis : c.disabled = true → c = Check.disabledCfg
  use : Sorted strLt c.use
  except : Sorted strLt c.except
  ignore : WFKeys c.ignore
  noRoot : [] ∉ c.ignore
  ignoreOnly : ∀ e ∈ c.ignoreOnly, e.2 ≠ [] ∧ WFKeys e.2

theorem checkIgnoreOnly_self (io : List (Str × List Key)) (h : ∀ e ∈ io, WFKeys e.2) :
    checkIgnoreOnly io = some io := by
  induction io with
  | nil => rfl
  | cons e rest ih =>
    obtain ⟨id, ks⟩ := e
    have hk : WFKeys ks := h (id, ks) (by simp)
    have hr := ih (fun e he => h e (by simp [he]))
    simp only [checkIgnoreOnly, normCheckKeys_sortU_self ks hk.sorted hk.anti, hr]

theorem newEnabledCheck_self (c : Check) (h : WFCheck c) (hd : c.disabled = false) :
    newEnabledCheck c.use c.except c.ignore c.ignoreOnly c.disableBuiltin = some c := by
  unfold newEnabledCheck
  rw [normCheckKeys_sortU_self _ h.ignore.sorted h.ignore.anti,
      checkIgnoreOnly_self _ (fun e he => (h.ignoreOnly e he).2),
      sortU_eq_self _ h.use, sortU_eq_self _ h.except]
  cases c; simp_all

/-- Reading back what the (fixed) writer produces for a check config gives the config back, for
    the module-specific (`require = true`) and the hoisted (`require = false`) position alike. -/
theorem readCheck_extCheckOf (c : Check) (d : Key) (r : Bool) (h : WFCheck c) :
    readCheck (extCheckOf c d) d r = some c := by
  cases hd : c.disabled with
  | true =>
    have := h.dis hd
    subst this
    simp [readCheck, extCheckOf, Check.disabledCfg, isDisabled, P.nv]
  | false =>
    have e1 : (extCheckOf c d).ignore = rebase d c.ignore := by simp [extCheckOf, hd, rebase]
    have e2 : (extCheckOf c d).ignoreOnly = rebaseIO d c.ignoreOnly := by simp [extCheckOf, rebaseIO]
    unfold readCheck
    rw [e1, e2, isDisabled_rebase d _ h.noRoot, relPaths_rebase,
      relIgnoreOnly_rebase d r _ (fun e he => (h.ignoreOnly e he).1)]
    exact newEnabledCheck_self c h hd

end BufModel.Config

namespace BufModel.Config
open BufModel.Path

/-! ### every check configuration produced by a reader is well-formed -/

theorem normCheckKeys_some {x y : List Key} (h : normCheckKeys x = some y) :
    antichain x = true ∧ y = sortU keyLt x := by
  unfold normCheckKeys at h
  split at h
  · rename_i ha; exact ⟨ha, by simpa using h.symm⟩
  · cases h

theorem wfKeys_of_normCheck_sortU {ks y : List Key} (h : normCheckKeys (sortU keyLt ks) = some y) : WFKeys y := by
  obtain ⟨ha, hy⟩ := normCheckKeys_some h
  have hs : Sorted keyLt (sortU keyLt ks) := sorted_sortU keyLt_total.trans ks
  rw [sortU_eq_self _ hs] at hy
  subst hy
  exact ⟨hs, ha⟩

theorem insertU_ne_nil {α : Type} (lt : α → α → Bool) (x : α) (l : List α) : insertU lt x l ≠ [] := by
  cases l with
  | nil => simp [insertU]
  | cons y ys =>
    unfold insertU
    split
    · simp
    · split <;> simp

theorem sortU_ne_nil {α : Type} (lt : α → α → Bool) (l : List α) (h : l ≠ []) : sortU lt l ≠ [] := by
  cases l with
  | nil => exact absurd rfl h
  | cons x xs => exact insertU_ne_nil lt x _

theorem drop_eq_nil_of_prefix {d k : Key} (hp : d.isPrefixOf k = true) (h : k.drop d.length = []) : k = d := by
  obtain ⟨t, rfl⟩ := List.isPrefixOf_iff_prefix.mp hp
  simp at h; simp [h]

theorem relPaths_noRoot (d : Key) (r : Bool) : ∀ (ps : List P) (ks : List Key),
    isDisabled d ps = some false → relPaths d r ps = some ks → [] ∉ ks := by
  intro ps
  induction ps with
  | nil => intro ks _ h; simp [relPaths] at h; subst h; simp
  | cons p rest ih =>
    intro ks hdis hrel
    simp only [isDisabled] at hdis
    simp only [relPaths] at hrel
    cases hp : p.nv with
    | none => simp [hp] at hdis
    | some k =>
      simp only [hp] at hdis hrel
      by_cases hkd : k = d
      · simp [hkd] at hdis
      · simp only [hkd, if_false] at hdis
        by_cases hpre : d.isPrefixOf k = true
        · simp only [hpre, if_true] at hrel
          cases hr : relPaths d r rest with
          | none => simp [hr] at hrel
          | some ks' =>
            simp only [hr, Option.some.injEq] at hrel
            subst hrel
            intro hm
            rcases List.mem_cons.mp hm with hm | hm
            · exact hkd (drop_eq_nil_of_prefix hpre hm.symm)
            · exact ih ks' hdis hr hm
        · simp only [hpre, Bool.false_eq_true, if_false] at hrel
          cases r with
          | true => simp at hrel
          | false => simp only [Bool.false_eq_true, if_false] at hrel; exact ih ks hdis hrel

theorem relIgnoreOnly_nonempty (d : Key) (r : Bool) : ∀ (io : List (Str × List P)) (out : List (Str × List Key)),
    relIgnoreOnly d r io = some out → ∀ e ∈ out, e.2 ≠ [] := by
  intro io
  induction io with
  | nil => intro out h; simp [relIgnoreOnly] at h; subst h; simp
  | cons x rest ih =>
    intro out h
    obtain ⟨id, ps⟩ := x
    simp only [relIgnoreOnly] at h
    cases h1 : relPaths d r ps with
    | none => simp [h1] at h
    | some ks =>
      cases h2 : relIgnoreOnly d r rest with
      | none => simp [h1, h2] at h
      | some out' =>
        simp only [h1, h2, Option.some.injEq] at h
        by_cases hk : ks = []
        · simp only [hk, if_true] at h; subst h; exact ih out' h2
        · simp only [hk, if_false] at h; subst h
          intro e he
          rcases List.mem_cons.mp he with he | he
          · subst he; exact hk
          · exact ih out' h2 e he

theorem checkIgnoreOnly_wf : ∀ (io out : List (Str × List Key)),
    (∀ e ∈ io, e.2 ≠ []) → checkIgnoreOnly io = some out → ∀ e ∈ out, e.2 ≠ [] ∧ WFKeys e.2 := by
  intro io
  induction io with
  | nil => intro out _ h; simp [checkIgnoreOnly] at h; subst h; simp
  | cons x rest ih =>
    intro out hne h
    obtain ⟨id, ks⟩ := x
    simp only [checkIgnoreOnly] at h
    cases h1 : normCheckKeys (sortU keyLt ks) with
    | none => simp [h1] at h
    | some ks' =>
      cases h2 : checkIgnoreOnly rest with
      | none => simp [h1, h2] at h
      | some out' =>
        simp only [h1, h2, Option.some.injEq] at h
        subst h
        intro e he
        rcases List.mem_cons.mp he with he | he
        · subst he
          refine ⟨?_, wfKeys_of_normCheck_sortU h1⟩
          obtain ⟨_, hy⟩ := normCheckKeys_some h1
          show ks' ≠ []
          rw [hy]
          exact sortU_ne_nil _ _ (sortU_ne_nil _ _ (hne (id, ks) (by simp)))
        · exact ih out' (fun e he => hne e (by simp [he])) h2 e he

theorem wfCheck_disabled : WFCheck Check.disabledCfg := by
  refine ⟨fun _ => rfl, ?_, ?_, ⟨?_, ?_⟩, ?_, ?_⟩ <;> simp [Check.disabledCfg, Sorted, antichain]

theorem readCheck_wf (e : ExtCheck) (d : Key) (r : Bool) (c : Check) (h : readCheck e d r = some c) : WFCheck c := by
  unfold readCheck at h
  cases hdis : isDisabled d e.ignore with
  | none => simp [hdis] at h
  | some b =>
    cases b with
    | true => simp [hdis] at h; subst h; exact wfCheck_disabled
    | false =>
      simp only [hdis] at h
      cases h1 : relPaths d r e.ignore with
      | none => simp [h1] at h
      | some ig =>
        cases h2 : relIgnoreOnly d r e.ignoreOnly with
        | none => simp [h1, h2] at h
        | some io =>
          simp only [h1, h2] at h
          unfold newEnabledCheck at h
          cases h3 : normCheckKeys (sortU keyLt ig) with
          | none => simp [h3] at h
          | some ig' =>
            cases h4 : checkIgnoreOnly io with
            | none => simp [h3, h4] at h
            | some io' =>
              simp only [h3, h4, Option.some.injEq] at h
              subst h
              refine ⟨by simp, sorted_sortU strLt_total.trans _, sorted_sortU strLt_total.trans _,
                wfKeys_of_normCheck_sortU h3, ?_, ?_⟩
              · obtain ⟨_, hy⟩ := normCheckKeys_some h3
                show [] ∉ ig'
                rw [hy]
                intro hm
                exact relPaths_noRoot d r _ _ hdis h1 (mem_sortU_imp _ _ _ (mem_sortU_imp _ _ _ hm))
              · exact checkIgnoreOnly_wf io io' (relIgnoreOnly_nonempty d r _ _ h2) h4

/-! ### lint / breaking -/

def WFLint (l : Lint) : Prop := WFCheck l.chk
def WFBreaking (b : Breaking) : Prop := WFCheck b.chk

theorem readLint_wf {v2 : Bool} {e : ExtLint} {d : Key} {r : Bool} {l : Lint} (h : readLint v2 e d r = some l) : WFLint l := by
  unfold readLint at h
  cases hc : readCheck e.chk d r with
  | none => simp [hc] at h
  | some c => simp only [hc, Option.some.injEq] at h; subst h; exact readCheck_wf _ _ _ _ hc

theorem readBreaking_wf {e : ExtBreaking} {d : Key} {r : Bool} {b : Breaking} (h : readBreaking e d r = some b) : WFBreaking b := by
  unfold readBreaking at h
  cases hc : readCheck e.chk d r with
  | none => simp [hc] at h
  | some c => simp only [hc, Option.some.injEq] at h; subst h; exact readCheck_wf _ _ _ _ hc

theorem readLint_extLintOf (v2 : Bool) (l : Lint) (d : Key) (r : Bool) (h : WFLint l) :
    readLint v2 (extLintOf v2 l d) d r = some l := by
  unfold readLint
  show (match readCheck (extCheckOf l.chk d) d r with | some c => _ | none => none) = _
  rw [readCheck_extCheckOf _ _ _ h]
  cases v2 <;> simp [extLintOfWith]

theorem readBreaking_extBreakingOf (b : Breaking) (d : Key) (r : Bool) (h : WFBreaking b) :
    readBreaking (extBreakingOf b d) d r = some b := by
  unfold readBreaking
  show (match readCheck (extCheckOf b.chk d) d r with | some c => _ | none => none) = _
  rw [readCheck_extCheckOf _ _ _ h]
  simp [extBreakingOfWith]

end BufModel.Config
