import BufProofs.Lemmas.GraphLemmas
/-
  Lemmas behind the headline theorems of C10 about `depsRec` / `moduleDeps` / `dagRec` / `toDAG`
  (bufmodule.getModuleDepsRec, getModuleDeps, moduleSetToDAGRec, ModuleSetToDAG as coded).

  * `DPost` / `deps_post`      what a SUCCESSFUL run of `depsRec` guarantees (unconditional)
  * `depsTop_post`             the top-level call: dep-map keys = reach⁺ r, flags, r not on a cycle
  * `depsRec_error`            what a FAILED run means: never fuel; `cycle` only when the root is on
                               a cycle; any other error is a local error of a reachable module
  * `dagRec_error` / `dagRec_ok`   the same two directions for the DAG construction
  * `Good` / `goodWs`          the "everything resolves" hypothesis and a decidable sufficient check
-/
set_option linter.unusedSectionVars false
set_option linter.unusedVariables false
namespace BufModel.Graph
open BufModel.Path

/-! ### foldE -/
section FoldE
variable {σ ε β : Type}

theorem foldE_ok_inv (f : β → σ → Except ε σ) (Inv : σ → Prop) :
    ∀ (cs : List β) (s s' : σ), Inv s → (∀ c ∈ cs, ∀ a b, Inv a → f c a = .ok b → Inv b) →
      foldE f cs s = .ok s' → Inv s' := by
  intro cs
  induction cs with
  | nil =>
    intro s s' hi _ h
    simp only [foldE] at h
    injection h with h; subst h; exact hi
  | cons c cs ih =>
    intro s s' hi hstep h
    simp only [foldE] at h
    split at h
    · exact absurd h (by simp)
    · rename_i s1 heq
      exact ih s1 s' (hstep c List.mem_cons_self s s1 hi heq)
        (fun c' hc' => hstep c' (List.mem_cons_of_mem _ hc')) h

theorem foldE_error_inv (f : β → σ → Except ε σ) (Inv : σ → Prop) :
    ∀ (cs : List β) (s : σ) (e : ε), Inv s → (∀ c ∈ cs, ∀ a b, Inv a → f c a = .ok b → Inv b) →
      foldE f cs s = .error e → ∃ c ∈ cs, ∃ a, Inv a ∧ f c a = .error e := by
  intro cs
  induction cs with
  | nil => intro s e _ _ h; simp [foldE] at h
  | cons c cs ih =>
    intro s e hi hstep h
    simp only [foldE] at h
    split at h
    · rename_i e' heq
      injection h with h; subst h
      exact ⟨c, List.mem_cons_self, s, hi, heq⟩
    · rename_i s1 heq
      obtain ⟨c', hc', a, ha, hf⟩ := ih s1 e (hstep c List.mem_cons_self s s1 hi heq)
        (fun c' hc' => hstep c' (List.mem_cons_of_mem _ hc')) h
      exact ⟨c', List.mem_cons_of_mem _ hc', a, ha, hf⟩

theorem foldE_ok_all (f : β → σ → Except ε σ) :
    ∀ (cs : List β) (s s' : σ), foldE f cs s = .ok s' → ∀ c ∈ cs, ∃ a b, f c a = .ok b := by
  intro cs
  induction cs with
  | nil => intro s s' _ c hc; simp at hc
  | cons c cs ih =>
    intro s s' h c' hc'
    simp only [foldE] at h
    split at h
    · exact absurd h (by simp)
    · rename_i s1 heq
      rcases List.mem_cons.mp hc' with rfl | hc'
      · exact ⟨s, s1, heq⟩
      · exact ih s1 s' h c' hc'

end FoldE

/-! ### reachability -/
section ReachLemmas
variable {α : Type} [DecidableEq α] {succ : α → Option (List α)}

theorem Reach.cases_head {a x : α} (h : Reach succ a x) :
    x = a ∨ ∃ cs c, succ a = some cs ∧ c ∈ cs ∧ Reach succ c x := by
  induction h with
  | refl => exact Or.inl rfl
  | step hr hs hc ih =>
    rcases ih with h | ⟨cs', c', hs', hc', hr'⟩
    · subst h
      exact Or.inr ⟨_, _, hs, hc, Reach.refl _⟩
    · exact Or.inr ⟨cs', c', hs', hc', Reach.step hr' hs hc⟩

theorem ReachPlus.of_succ {a c : α} {cs : List α} (hs : succ a = some cs) (hc : c ∈ cs) :
    ReachPlus succ a c := ⟨a, cs, Reach.refl a, hs, hc⟩

theorem ReachPlus.reach {a c : α} (h : ReachPlus succ a c) : Reach succ a c := by
  obtain ⟨b, cs, hr, hs, hc⟩ := h
  exact Reach.step hr hs hc

theorem ReachPlus.of_reach {a b c : α} (h1 : Reach succ a b) (h2 : ReachPlus succ b c) :
    ReachPlus succ a c := by
  obtain ⟨b', cs, hr, hs, hc⟩ := h2
  exact ⟨b', cs, Reach.trans h1 hr, hs, hc⟩

theorem ReachPlus.head {a b c : α} {cs : List α} (hs : succ a = some cs) (hb : b ∈ cs)
    (h : ReachPlus succ b c) : ReachPlus succ a c :=
  ReachPlus.of_reach (Reach.step (Reach.refl a) hs hb) h

theorem ReachPlus.tail {a b c : α} {cs : List α} (h : ReachPlus succ a b) (hs : succ b = some cs)
    (hc : c ∈ cs) : ReachPlus succ a c := ⟨b, cs, h.reach, hs, hc⟩

theorem ReachPlus.reach_left {a b c : α} (h1 : ReachPlus succ a b) (h2 : Reach succ b c) :
    ReachPlus succ a c := by
  induction h2 with
  | refl => exact h1
  | step _ hs hc ih => exact ih.tail hs hc

end ReachLemmas

/-! ### the insertion sort -/
section Sorting
variable {β : Type} (le : β → β → Bool)

theorem insertBy_perm (a : β) (l : List β) : (insertBy le a l).Perm (a :: l) := by
  induction l with
  | nil => exact List.Perm.refl _
  | cons b bs ih =>
    unfold insertBy
    split
    · exact (List.Perm.cons b ih).trans (List.Perm.swap a b bs)
    · exact List.Perm.refl _

theorem sortBy_perm (l : List β) : (sortBy le l).Perm l := by
  induction l with
  | nil => exact List.Perm.refl _
  | cons a as ih => exact (insertBy_perm le a _).trans (List.Perm.cons a ih)

theorem mem_sortBy {l : List β} {x : β} : x ∈ sortBy le l ↔ x ∈ l := (sortBy_perm le l).mem_iff

theorem insertBy_pairwise (htot : ∀ a b, le a b = true ∨ le b a = true)
    (htr : ∀ a b c, le a b = true → le b c = true → le a c = true) (a : β) (l : List β)
    (hl : l.Pairwise (fun x y => le x y = true)) :
    (insertBy le a l).Pairwise (fun x y => le x y = true) := by
  induction l with
  | nil => simp [insertBy]
  | cons b bs ih =>
    rw [List.pairwise_cons] at hl
    unfold insertBy
    split
    · rename_i hba
      rw [List.pairwise_cons]
      refine ⟨?_, ih hl.2⟩
      intro x hx
      have := (insertBy_perm le a bs).subset hx
      rcases List.mem_cons.mp this with rfl | hx'
      · exact hba
      · exact hl.1 x hx'
    · rename_i hba
      have hab : le a b = true := by
        rcases htot a b with h | h
        · exact h
        · exact absurd h hba
      rw [List.pairwise_cons]
      refine ⟨?_, List.pairwise_cons.mpr hl⟩
      intro x hx
      rcases List.mem_cons.mp hx with rfl | hx
      · exact hab
      · exact htr _ _ _ hab (hl.1 x hx)

theorem sortBy_pairwise (htot : ∀ a b, le a b = true ∨ le b a = true)
    (htr : ∀ a b c, le a b = true → le b c = true → le a c = true) (l : List β) :
    (sortBy le l).Pairwise (fun x y => le x y = true) := by
  induction l with
  | nil => exact List.Pairwise.nil
  | cons a as ih => exact insertBy_pairwise le htot htr a _ ih

end Sorting

/-! ### dep maps, owners, successors -/

theorem keys_append (a b : DepMap) : DepMap.keys (a ++ b) = DepMap.keys a ++ DepMap.keys b := by
  simp [DepMap.keys]

theorem keys_map_pair (l : List Nat) (dir : Bool) : DepMap.keys (l.map (fun k => (k, dir))) = l := by
  induction l with
  | nil => rfl
  | cons x xs ih => simp only [DepMap.keys, List.map_cons, List.map_map] at ih ⊢; rw [ih]

theorem mem_keys_of_mem {d : DepMap} {e : Nat × Bool} (h : e ∈ d) : e.1 ∈ DepMap.keys d :=
  List.mem_map.mpr ⟨e, h, rfl⟩

theorem owner_one_lt {ws : WS} {p : Str} {k : Nat} (h : owner ws p = .one k) : k < ws.mods.length := by
  unfold owner at h
  split at h
  · cases h
  · rename_i m heq
    injection h with h; subst h
    have hm : m ∈ providers ws p := by rw [heq]; exact List.mem_cons_self
    unfold providers at hm
    exact List.mem_range.mp (List.mem_filter.mp hm).1
  · cases h

theorem lt_of_modFiles_nonempty {ws : WS} {m : Nat} (h : (modFiles ws m).isEmpty = false) :
    m < ws.mods.length := by
  by_cases hlt : m < ws.mods.length
  · exact hlt
  · exfalso
    have hn : ws.mods[m]? = none := List.getElem?_eq_none (Nat.le_of_not_lt hlt)
    simp [modFiles, hn] at h

theorem mem_msucc {ws : WS} {m k : Nat} :
    k ∈ msucc ws m ↔ ∃ p ∈ allImports ws m, owner ws p = .one k ∧ k ≠ m := by
  unfold msucc
  rw [List.mem_filterMap]
  constructor
  · rintro ⟨p, hp, h⟩
    split at h
    · rename_i d hd
      split at h
      · cases h
      · rename_i hne
        injection h with h; subst h
        exact ⟨p, hp, hd, hne⟩
    · cases h
  · rintro ⟨p, hp, ho, hne⟩
    refine ⟨p, hp, ?_⟩
    rw [ho]
    simp [hne]

theorem msucc_lt {ws : WS} {m k : Nat} (h : k ∈ msucc ws m) : k < ws.mods.length := by
  obtain ⟨p, _, ho, _⟩ := mem_msucc.mp h
  exact owner_one_lt ho

theorem msucc_ne {ws : WS} {m k : Nat} (h : k ∈ msucc ws m) : k ≠ m := by
  obtain ⟨p, _, _, hne⟩ := mem_msucc.mp h
  exact hne

theorem msucc_src_lt {ws : WS} {m k : Nat} (h : k ∈ msucc ws m) : m < ws.mods.length := by
  obtain ⟨p, hp, _, _⟩ := mem_msucc.mp h
  apply lt_of_modFiles_nonempty
  cases hf : modFiles ws m with
  | nil => simp [allImports, hf] at hp
  | cons _ _ => rfl

theorem reach_lt {ws : WS} {r x : Nat} (hr : r < ws.mods.length) (h : Reach (msuccO ws) r x) :
    x < ws.mods.length := by
  induction h with
  | refl => exact hr
  | step _ hs hc _ =>
    simp only [msuccO, Option.some.injEq] at hs
    subst hs
    exact msucc_lt hc

theorem nodup_lt_length_le {l : List Nat} {n : Nat} (hnd : l.Nodup) (hlt : ∀ x ∈ l, x < n) :
    l.length ≤ n := by
  have h := List.Nodup.length_le_of_subset hnd (l₂ := List.range n)
    (fun x hx => List.mem_range.mpr (hlt x hx))
  simpa using h

/-! ### the import scan of one module -/

/-- what a successful scan of the imports `imps` of module `m` does: it appends to the dep map
    (and to the new-dep list) the owners of the imports, other than `m`, that are not yet keys —
    each once, flagged `dir`; afterwards every such owner is a key. -/
theorem scan_spec (ws : WS) (m : Nat) (dir : Bool) :
    ∀ (imps : List Str) (d : DepMap) (nw : List Nat) (d' : DepMap) (nw' : List Nat),
      scanImports ws m dir imps d nw = .ok (d', nw') →
      ∃ add : List Nat, nw' = nw ++ add ∧ d' = d ++ add.map (fun k => (k, dir)) ∧ add.Nodup ∧
        (∀ k ∈ add, k ≠ m ∧ k ∉ DepMap.keys d ∧ ∃ p ∈ imps, owner ws p = .one k) ∧
        (∀ p ∈ imps, ∀ k, owner ws p = .one k → k ≠ m → k ∈ DepMap.keys d') := by
  intro imps
  induction imps with
  | nil =>
    intro d nw d' nw' h
    simp only [scanImports] at h
    injection h with h; injection h with h1 h2; subst h1; subst h2
    exact ⟨[], by simp, by simp, List.nodup_nil, by simp, by simp⟩
  | cons p ps ih =>
    intro d nw d' nw' h
    simp only [scanImports] at h
    -- the common continuation: the import `p` adds nothing
    have skip : scanImports ws m dir ps d nw = .ok (d', nw') →
        (∀ k, owner ws p = .one k → k ≠ m → k ∈ DepMap.keys d) →
        ∃ add : List Nat, nw' = nw ++ add ∧ d' = d ++ add.map (fun k => (k, dir)) ∧ add.Nodup ∧
        (∀ k ∈ add, k ≠ m ∧ k ∉ DepMap.keys d ∧ ∃ q ∈ p :: ps, owner ws q = .one k) ∧
        (∀ q ∈ p :: ps, ∀ k, owner ws q = .one k → k ≠ m → k ∈ DepMap.keys d') := by
      intro h hp
      obtain ⟨add, e1, e2, nd, f1, f2⟩ := ih d nw d' nw' h
      refine ⟨add, e1, e2, nd, ?_, ?_⟩
      · intro k hk
        obtain ⟨a, b, q, hq, ho⟩ := f1 k hk
        exact ⟨a, b, q, List.mem_cons_of_mem _ hq, ho⟩
      · intro q hq k ho hne
        rcases List.mem_cons.mp hq with rfl | hq
        · have := hp k ho hne
          rw [e2, keys_append]
          exact List.mem_append.mpr (Or.inl this)
        · exact f2 q hq k ho hne
    split at h
    · rename_i hown
      split at h
      · exact skip h (fun k ho => by rw [hown] at ho; cases ho)
      · exact absurd h (by simp)
    · exact absurd h (by simp)
    · rename_i k0 hown
      split at h
      · rename_i hkm
        exact skip h (fun k ho hne => by
          rw [hown] at ho; injection ho with ho; subst ho; exact absurd hkm hne)
      · rename_i hkm
        split at h
        · rename_i hin
          exact skip h (fun k ho _ => by
            rw [hown] at ho; injection ho with ho; subst ho; exact hin)
        · rename_i hnin
          obtain ⟨add, e1, e2, nd, f1, f2⟩ := ih _ _ d' nw' h
          refine ⟨k0 :: add, ?_, ?_, ?_, ?_, ?_⟩
          · rw [e1]; simp
          · rw [e2]; simp
          · rw [List.nodup_cons]
            refine ⟨?_, nd⟩
            intro hk
            have := (f1 k0 hk).2.1
            rw [keys_append] at this
            exact this (List.mem_append.mpr (Or.inr (by simp [DepMap.keys])))
          · intro k hk
            rcases List.mem_cons.mp hk with rfl | hk
            · exact ⟨hkm, hnin, p, List.mem_cons_self, hown⟩
            · obtain ⟨a, b, q, hq, ho⟩ := f1 k hk
              refine ⟨a, ?_, q, List.mem_cons_of_mem _ hq, ho⟩
              intro hkd
              rw [keys_append] at b
              exact b (List.mem_append.mpr (Or.inl hkd))
          · intro q hq k ho hne
            rcases List.mem_cons.mp hq with rfl | hq
            · rw [hown] at ho; injection ho with ho; subst ho
              rw [e2, keys_append, keys_append]
              exact List.mem_append.mpr (Or.inl (List.mem_append.mpr (Or.inr (by simp [DepMap.keys]))))
            · exact f2 q hq k ho hne

/-- a failed scan names an import that is provided twice, or by nobody and is not a WKT. -/
theorem scan_error (ws : WS) (m : Nat) (dir : Bool) :
    ∀ (imps : List Str) (d : DepMap) (nw : List Nat) (e : DErr),
      scanImports ws m dir imps d nw = .error e →
      ∃ p ∈ imps, (e = .dupPath ∧ owner ws p = .dup) ∨
        (e = .importNotExist ∧ owner ws p = .none ∧ isWkt ws p = false) := by
  intro imps
  induction imps with
  | nil => intro d nw e h; simp [scanImports] at h
  | cons p ps ih =>
    intro d nw e h
    simp only [scanImports] at h
    have next : ∀ d nw, scanImports ws m dir ps d nw = .error e →
        ∃ q ∈ p :: ps, (e = .dupPath ∧ owner ws q = .dup) ∨
          (e = .importNotExist ∧ owner ws q = .none ∧ isWkt ws q = false) := by
      intro d nw h
      obtain ⟨q, hq, hh⟩ := ih d nw e h
      exact ⟨q, List.mem_cons_of_mem _ hq, hh⟩
    split at h
    · rename_i hown
      split at h
      · exact next _ _ h
      · rename_i hw
        injection h with h; subst h
        exact ⟨p, List.mem_cons_self, Or.inr ⟨rfl, hown, by simpa using hw⟩⟩
    · rename_i hown
      injection h with h; subst h
      exact ⟨p, List.mem_cons_self, Or.inl ⟨rfl, hown⟩⟩
    · split at h
      · exact next _ _ h
      · split at h
        · exact next _ _ h
        · exact next _ _ h

/-! ### inversion of one `depsRec` step -/

theorem depsRec_ok_inv {ws : WS} {fuel m : Nat} {dir : Bool} {par vis vis' : List Nat} {d d' : DepMap}
    (h : depsRec ws (fuel + 1) m dir par (vis, d) = .ok (vis', d')) :
    m ∉ par ∧ ((m ∈ vis ∧ vis' = vis ∧ d' = d) ∨
      (m ∉ vis ∧ ∃ d1 nw, scanImports ws m dir (allImports ws m) d [] = .ok (d1, nw) ∧
        (modFiles ws m).isEmpty = false ∧
        foldE (fun c s => depsRec ws fuel c false (m :: par) s) (sortBy natLe nw) (m :: vis, d1)
          = .ok (vis', d'))) := by
  simp only [depsRec] at h
  split at h
  · exact absurd h (by simp)
  · rename_i hpar
    refine ⟨hpar, ?_⟩
    split at h
    · rename_i hvis
      injection h with h; injection h with h1 h2
      exact Or.inl ⟨hvis, h1.symm, h2.symm⟩
    · rename_i hvis
      split at h
      · exact absurd h (by simp)
      · rename_i d1 nw hscan
        split at h
        · exact absurd h (by simp)
        · rename_i hne
          exact Or.inr ⟨hvis, d1, nw, hscan, by simpa using hne, h⟩

theorem depsRec_error_inv {ws : WS} {fuel m : Nat} {dir : Bool} {par vis : List Nat} {d : DepMap} {e : DErr}
    (h : depsRec ws (fuel + 1) m dir par (vis, d) = .error e) :
    (m ∈ par ∧ e = .cycle) ∨ (m ∉ par ∧ m ∉ vis ∧
      (scanImports ws m dir (allImports ws m) d [] = .error e ∨
       ∃ d1 nw, scanImports ws m dir (allImports ws m) d [] = .ok (d1, nw) ∧
        (((modFiles ws m).isEmpty = true ∧ e = .noProtoFiles) ∨
         ((modFiles ws m).isEmpty = false ∧
          foldE (fun c s => depsRec ws fuel c false (m :: par) s) (sortBy natLe nw) (m :: vis, d1)
            = .error e)))) := by
  simp only [depsRec] at h
  split at h
  · rename_i hpar
    injection h with h
    exact Or.inl ⟨hpar, h.symm⟩
  · rename_i hpar
    split at h
    · exact absurd h (by simp)
    · rename_i hvis
      refine Or.inr ⟨hpar, hvis, ?_⟩
      split at h
      · rename_i e' hscan
        injection h with h; subst h
        exact Or.inl hscan
      · rename_i d1 nw hscan
        refine Or.inr ⟨d1, nw, hscan, ?_⟩
        split at h
        · rename_i he
          injection h with h
          exact Or.inl ⟨he, h.symm⟩
        · rename_i hne
          exact Or.inr ⟨by simpa using hne, h⟩

/-! ### what a successful run guarantees -/

/-- Post-condition of a successful run of `depsRec` from the roots `rs` (one module, or the sorted
    new deps of a module) under the parent stack `par`, from state `(vis, d)` to `(vis', d')`:
    the roots are visited and not on the stack; the visited set only grows; the dep map is
    extended by `nd` whose flags are `dir` or `false`, whose keys are new, pairwise distinct,
    visited at the end, not on the stack and reachable from a root in one or more hops; every
    newly visited module is reachable from a root and all its successors are keys at the end. -/
structure DPost (ws : WS) (dir : Bool) (rs par vis : List Nat) (d : DepMap) (vis' : List Nat) (d' : DepMap) : Prop where
  roots : ∀ c ∈ rs, c ∈ vis' ∧ c ∉ par
  vmono : ∀ x ∈ vis, x ∈ vis'
  ex : ∃ nd : DepMap, d' = d ++ nd ∧ (∀ e ∈ nd, e.2 = dir ∨ e.2 = false) ∧
    (∀ k ∈ DepMap.keys nd, k ∉ DepMap.keys d ∧ k ∈ vis' ∧ k ∉ par ∧ ∃ c ∈ rs, ReachPlus (msuccO ws) c k) ∧
    (DepMap.keys nd).Nodup
  scanned : ∀ x ∈ vis', x ∈ vis ∨ ((∃ c ∈ rs, Reach (msuccO ws) c x) ∧ ∀ s ∈ msucc ws x, s ∈ DepMap.keys d')

theorem DPost.keys_mono {ws : WS} {dir : Bool} {rs par vis vis' : List Nat} {d d' : DepMap}
    (h : DPost ws dir rs par vis d vis' d') : ∀ k ∈ DepMap.keys d, k ∈ DepMap.keys d' := by
  obtain ⟨nd, e, _⟩ := h.ex
  intro k hk
  rw [e, keys_append]
  exact List.mem_append.mpr (Or.inl hk)

theorem dpost_nil (ws : WS) (par vis : List Nat) (d : DepMap) : DPost ws false [] par vis d vis d :=
  ⟨by simp, fun _ h => h, ⟨[], by simp, by simp, by simp [DepMap.keys], by simp [DepMap.keys]⟩, fun _ h => Or.inl h⟩

theorem dpost_cons {ws : WS} {c : Nat} {cs par vis v1 v2 : List Nat} {d d1 d2 : DepMap}
    (h1 : DPost ws false [c] par vis d v1 d1) (h2 : DPost ws false cs par v1 d1 v2 d2) :
    DPost ws false (c :: cs) par vis d v2 d2 := by
  obtain ⟨r1, m1, ⟨n1, e1, f1, k1, nd1⟩, s1⟩ := h1
  obtain ⟨r2, m2, ⟨n2, e2, f2, k2, nd2⟩, s2⟩ := h2
  have hmono : ∀ k ∈ DepMap.keys d1, k ∈ DepMap.keys d2 := by
    intro k hk; rw [e2, keys_append]; exact List.mem_append.mpr (Or.inl hk)
  refine ⟨?_, fun x hx => m2 x (m1 x hx), ⟨n1 ++ n2, ?_, ?_, ?_, ?_⟩, ?_⟩
  · intro c' hc'
    rcases List.mem_cons.mp hc' with rfl | hc'
    · exact ⟨m2 _ (r1 _ (List.mem_singleton.mpr rfl)).1, (r1 _ (List.mem_singleton.mpr rfl)).2⟩
    · exact r2 c' hc'
  · rw [e2, e1, List.append_assoc]
  · intro e he
    rcases List.mem_append.mp he with h | h
    · exact f1 e h
    · exact f2 e h
  · intro k hk
    rw [keys_append] at hk
    rcases List.mem_append.mp hk with h | h
    · obtain ⟨a, b, c0, c', hc', hr⟩ := k1 k h
      simp only [List.mem_singleton] at hc'
      subst hc'
      exact ⟨a, m2 k b, c0, c', List.mem_cons_self, hr⟩
    · obtain ⟨a, b, c0, c', hc', hr⟩ := k2 k h
      refine ⟨?_, b, c0, c', List.mem_cons_of_mem _ hc', hr⟩
      intro hkd
      apply a
      rw [e1, keys_append]
      exact List.mem_append.mpr (Or.inl hkd)
  · rw [keys_append, List.nodup_append]
    refine ⟨nd1, nd2, ?_⟩
    intro a ha b hb hab
    subst hab
    apply (k2 a hb).1
    rw [e1, keys_append]
    exact List.mem_append.mpr (Or.inr ha)
  · intro x hx
    rcases s2 x hx with h | ⟨⟨c', hc', hr⟩, hs⟩
    · rcases s1 x h with h | ⟨⟨c', hc', hr⟩, hs⟩
      · exact Or.inl h
      · simp only [List.mem_singleton] at hc'
        subst hc'
        exact Or.inr ⟨⟨c', List.mem_cons_self, hr⟩, fun s hs' => hmono s (hs s hs')⟩
    · exact Or.inr ⟨⟨c', List.mem_cons_of_mem _ hc', hr⟩, hs⟩

theorem depsFold_post {ws : WS} {fuel : Nat} {par : List Nat}
    (hf : ∀ c vis d vis' d', depsRec ws fuel c false par (vis, d) = .ok (vis', d') →
      DPost ws false [c] par vis d vis' d') :
    ∀ (cs : List Nat) vis d vis' d',
      foldE (fun c s => depsRec ws fuel c false par s) cs (vis, d) = .ok (vis', d') →
      DPost ws false cs par vis d vis' d' := by
  intro cs
  induction cs with
  | nil =>
    intro vis d vis' d' h
    simp only [foldE] at h
    injection h with h; injection h with h1 h2; subst h1; subst h2
    exact dpost_nil ws par vis d
  | cons c cs ih =>
    intro vis d vis' d' h
    simp only [foldE] at h
    split at h
    · exact absurd h (by simp)
    · rename_i s1 heq
      obtain ⟨v1, d1⟩ := s1
      exact dpost_cons (hf c vis d v1 d1 heq) (ih v1 d1 vis' d' h)

/-- THE invariant of `getModuleDepsRec`: every successful call satisfies `DPost`. -/
theorem deps_post (ws : WS) :
    ∀ (fuel m : Nat) (dir : Bool) (par vis : List Nat) (d : DepMap) (vis' : List Nat) (d' : DepMap),
      depsRec ws fuel m dir par (vis, d) = .ok (vis', d') → DPost ws dir [m] par vis d vis' d' := by
  intro fuel
  induction fuel with
  | zero => intro m dir par vis d vis' d' h; simp [depsRec] at h
  | succ fuel ih =>
    intro m dir par vis d vis' d' h
    obtain ⟨hpar, hcase⟩ := depsRec_ok_inv h
    rcases hcase with ⟨hvis, rfl, rfl⟩ | ⟨hvis, d1, nw, hscan, hne, hfold⟩
    · refine ⟨?_, fun _ h => h, ⟨[], by simp, by simp, by simp [DepMap.keys], by simp [DepMap.keys]⟩, fun _ h => Or.inl h⟩
      intro c hc
      simp only [List.mem_singleton] at hc
      subst hc
      exact ⟨hvis, hpar⟩
    · obtain ⟨add, e1, e2, ndadd, f1, f2⟩ := scan_spec ws m dir _ _ _ _ _ hscan
      simp only [List.nil_append] at e1
      subst e1
      have hp := depsFold_post (fun c vis d vis' d' hh => ih c false (m :: par) vis d vis' d' hh)
        (sortBy natLe nw) (m :: vis) d1 vis' d' hfold
      obtain ⟨r2, m2, ⟨n2, e3, fl2, k2, nd2⟩, s2⟩ := hp
      have hmono1 : ∀ k ∈ DepMap.keys d, k ∈ DepMap.keys d1 := by
        intro k hk; rw [e2, keys_append]; exact List.mem_append.mpr (Or.inl hk)
      have hmono2 : ∀ k ∈ DepMap.keys d1, k ∈ DepMap.keys d' := by
        intro k hk; rw [e3, keys_append]; exact List.mem_append.mpr (Or.inl hk)
      have hsucc : ∀ k ∈ nw, k ∈ msucc ws m := by
        intro k hk
        obtain ⟨hkm, _, p, hp, ho⟩ := f1 k hk
        exact mem_msucc.mpr ⟨p, hp, ho, hkm⟩
      have hmsucc : ∀ s ∈ msucc ws m, s ∈ DepMap.keys d1 := by
        intro s hs
        obtain ⟨p, hp, ho, hne⟩ := mem_msucc.mp hs
        exact f2 p hp s ho hne
      refine ⟨?_, fun x hx => m2 x (List.mem_cons_of_mem _ hx),
        ⟨nw.map (fun k => (k, dir)) ++ n2, ?_, ?_, ?_, ?_⟩, ?_⟩
      · intro c hc
        simp only [List.mem_singleton] at hc
        subst hc
        exact ⟨m2 c List.mem_cons_self, hpar⟩
      · rw [e3, e2, List.append_assoc]
      · intro e he
        rcases List.mem_append.mp he with h | h
        · obtain ⟨k, _, rfl⟩ := List.mem_map.mp h
          exact Or.inl rfl
        · rcases fl2 e h with h | h <;> exact Or.inr h
      · intro k hk
        rw [keys_append, keys_map_pair] at hk
        rcases List.mem_append.mp hk with h | h
        · have hr := r2 k ((mem_sortBy natLe).mpr h)
          exact ⟨(f1 k h).2.1, hr.1, fun hh => hr.2 (List.mem_cons_of_mem _ hh), m,
            List.mem_singleton.mpr rfl, ReachPlus.of_succ (rfl : msuccO ws m = some (msucc ws m)) (hsucc k h)⟩
        · obtain ⟨a, b, c0, c', hc', hr⟩ := k2 k h
          refine ⟨fun hh => a (hmono1 k hh), b, fun hh => c0 (List.mem_cons_of_mem _ hh), m,
            List.mem_singleton.mpr rfl, ?_⟩
          exact ReachPlus.head (rfl : msuccO ws m = some (msucc ws m))
            (hsucc c' ((mem_sortBy natLe).mp hc')) hr
      · rw [keys_append, keys_map_pair, List.nodup_append]
        refine ⟨ndadd, nd2, ?_⟩
        intro a ha b hb hab
        subst hab
        apply (k2 a hb).1
        rw [e2, keys_append, keys_map_pair]
        exact List.mem_append.mpr (Or.inr ha)
      · intro x hx
        rcases s2 x hx with h | ⟨⟨c', hc', hr⟩, hs⟩
        · rcases List.mem_cons.mp h with rfl | h
          · exact Or.inr ⟨⟨x, List.mem_singleton.mpr rfl, Reach.refl _⟩,
              fun s hs => hmono2 s (hmsucc s hs)⟩
          · exact Or.inl h
        · exact Or.inr ⟨⟨m, List.mem_singleton.mpr rfl,
            Reach.head (rfl : msuccO ws m = some (msucc ws m)) (hsucc c' ((mem_sortBy natLe).mp hc')) hr⟩, hs⟩

/-! ### the top-level call of `getModuleDeps` -/

/-- A successful top-level run: everything visited is reachable from `r`; the keys of the dep map
    are pairwise distinct and are exactly the modules reachable from `r` in one or more hops;
    `r` is not among them (so `r` lies on no cycle); an entry is flagged direct iff it is a
    first-hop successor of `r`. -/
theorem depsTop_post {ws : WS} {fuel r : Nat} {vis' : List Nat} {d' : DepMap}
    (h : depsRec ws fuel r true [] ([], []) = .ok (vis', d')) :
    (∀ x ∈ vis', Reach (msuccO ws) r x) ∧ (DepMap.keys d').Nodup ∧
    (∀ k, k ∈ DepMap.keys d' ↔ ReachPlus (msuccO ws) r k) ∧ ¬ ReachPlus (msuccO ws) r r ∧
    (∀ e ∈ d', e.2 = true ↔ e.1 ∈ msucc ws r) ∧ (modFiles ws r).isEmpty = false := by
  cases fuel with
  | zero => simp [depsRec] at h
  | succ fuel =>
  obtain ⟨_, hcase⟩ := depsRec_ok_inv h
  rcases hcase with ⟨hvis, _, _⟩ | ⟨_, d1, nw, hscan, hne, hfold⟩
  · simp at hvis
  obtain ⟨add, e1, e2, ndadd, f1, f2⟩ := scan_spec ws r true _ _ _ _ _ hscan
  simp only [List.nil_append] at e1 e2
  subst e1
  have hp := depsFold_post (fun c vis d vis' d' hh => deps_post ws fuel c false [r] vis d vis' d' hh)
    (sortBy natLe nw) [r] d1 vis' d' hfold
  obtain ⟨r2, m2, ⟨n2, e3, fl2, k2, nd2⟩, s2⟩ := hp
  have hd1 : DepMap.keys d1 = nw := by rw [e2, keys_map_pair]
  have hkeys : DepMap.keys d' = nw ++ DepMap.keys n2 := by rw [e3, keys_append, hd1]
  have hsucc : ∀ k ∈ nw, k ∈ msucc ws r := by
    intro k hk
    obtain ⟨hkm, _, p, hp, ho⟩ := f1 k hk
    exact mem_msucc.mpr ⟨p, hp, ho, hkm⟩
  have hmsucc : ∀ s ∈ msucc ws r, s ∈ nw := by
    intro s hs
    obtain ⟨p, hp, ho, hne⟩ := mem_msucc.mp hs
    have := f2 p hp s ho hne
    rwa [hd1] at this
  have hS : msuccO ws r = some (msucc ws r) := rfl
  -- (a) facts about every key
  have hA : ∀ k ∈ DepMap.keys d', k ≠ r ∧ k ∈ vis' ∧ ReachPlus (msuccO ws) r k := by
    intro k hk
    rw [hkeys] at hk
    rcases List.mem_append.mp hk with h | h
    · exact ⟨(f1 k h).1, (r2 k ((mem_sortBy natLe).mpr h)).1, ReachPlus.of_succ hS (hsucc k h)⟩
    · obtain ⟨_, b, c0, c', hc', hr⟩ := k2 k h
      refine ⟨fun hh => c0 (by rw [hh]; exact List.mem_singleton.mpr rfl), b, ?_⟩
      exact ReachPlus.head hS (hsucc c' ((mem_sortBy natLe).mp hc')) hr
  -- (b) facts about every visited module
  have hB : ∀ x ∈ vis', Reach (msuccO ws) r x ∧ ∀ s ∈ msucc ws x, s ∈ DepMap.keys d' := by
    intro x hx
    rcases s2 x hx with h | ⟨⟨c', hc', hr⟩, hs⟩
    · simp only [List.mem_singleton] at h
      subst h
      refine ⟨Reach.refl _, fun s hs => ?_⟩
      rw [hkeys]
      exact List.mem_append.mpr (Or.inl (hmsucc s hs))
    · exact ⟨Reach.head hS (hsucc c' ((mem_sortBy natLe).mp hc')) hr, hs⟩
  have hr_vis : r ∈ vis' := m2 r (List.mem_singleton.mpr rfl)
  -- (c) closure
  have hC : ∀ b, Reach (msuccO ws) r b → b = r ∨ b ∈ DepMap.keys d' := by
    intro b hb
    induction hb with
    | refl => exact Or.inl rfl
    | step _ hs hc ih =>
      simp only [msuccO, Option.some.injEq] at hs
      subst hs
      rcases ih with h | h
      · subst h; exact Or.inr ((hB _ hr_vis).2 _ hc)
      · exact Or.inr ((hB _ (hA _ h).2.1).2 _ hc)
  have hD : ∀ k, ReachPlus (msuccO ws) r k → k ∈ DepMap.keys d' := by
    intro k ⟨b, cs, hb, hs, hc⟩
    simp only [msuccO, Option.some.injEq] at hs
    subst hs
    rcases hC b hb with h | h
    · subst h; exact (hB _ hr_vis).2 _ hc
    · exact (hB _ (hA _ h).2.1).2 _ hc
  refine ⟨fun x hx => (hB x hx).1, ?_, fun k => ⟨fun hk => (hA k hk).2.2, hD k⟩,
    fun hrr => (hA r (hD r hrr)).1 rfl, ?_, hne⟩
  · rw [hkeys, List.nodup_append]
    refine ⟨ndadd, nd2, ?_⟩
    intro a ha b hb hab
    subst hab
    apply (k2 a hb).1
    rw [hd1]; exact ha
  · intro e he
    rw [e3, e2] at he
    rcases List.mem_append.mp he with h | h
    · obtain ⟨k, hk, rfl⟩ := List.mem_map.mp h
      simp only [true_iff]
      exact hsucc k hk
    · have hf : e.2 = false := by rcases fl2 e h with h | h <;> exact h
      have hnot : e.1 ∉ msucc ws r := by
        intro hh
        apply (k2 e.1 (mem_keys_of_mem h)).1
        rw [hd1]; exact hmsucc _ hh
      rw [hf]
      constructor
      · intro hh; cases hh
      · intro hh; exact absurd hh hnot

/-- completeness of the visited set of the top-level call: every module reachable from `r` was
    visited (so the final duplicate-path check `dupAmong` really ranges over ALL reachable
    modules, also those nobody's import statement names a shared path of). -/
theorem depsTop_vis_complete {ws : WS} {fuel r : Nat} {vis' : List Nat} {d' : DepMap}
    (h : depsRec ws fuel r true [] ([], []) = .ok (vis', d')) :
    ∀ x, Reach (msuccO ws) r x → x ∈ vis' := by
  cases fuel with
  | zero => simp [depsRec] at h
  | succ fuel =>
  obtain ⟨_, hcase⟩ := depsRec_ok_inv h
  rcases hcase with ⟨hvis, _, _⟩ | ⟨_, d1, nw, hscan, hne, hfold⟩
  · simp at hvis
  obtain ⟨add, e1, e2, ndadd, f1, f2⟩ := scan_spec ws r true _ _ _ _ _ hscan
  simp only [List.nil_append] at e1 e2
  subst e1
  have hp := depsFold_post (fun c vis d vis' d' hh => deps_post ws fuel c false [r] vis d vis' d' hh)
    (sortBy natLe nw) [r] d1 vis' d' hfold
  obtain ⟨r2, m2, ⟨n2, e3, fl2, k2, nd2⟩, s2⟩ := hp
  have hd1 : DepMap.keys d1 = nw := by rw [e2, keys_map_pair]
  have hkeys : DepMap.keys d' = nw ++ DepMap.keys n2 := by rw [e3, keys_append, hd1]
  have hmsucc : ∀ s ∈ msucc ws r, s ∈ nw := by
    intro s hs
    obtain ⟨p, hp, ho, hne⟩ := mem_msucc.mp hs
    have := f2 p hp s ho hne
    rwa [hd1] at this
  have hA : ∀ k ∈ DepMap.keys d', k ∈ vis' := by
    intro k hk
    rw [hkeys] at hk
    rcases List.mem_append.mp hk with h | h
    · exact (r2 k ((mem_sortBy natLe).mpr h)).1
    · exact (k2 k h).2.1
  have hr_vis : r ∈ vis' := m2 r (List.mem_singleton.mpr rfl)
  have hB : ∀ x ∈ vis', ∀ s ∈ msucc ws x, s ∈ DepMap.keys d' := by
    intro x hx
    rcases s2 x hx with h | ⟨_, hs⟩
    · simp only [List.mem_singleton] at h
      subst h
      intro s hs
      rw [hkeys]
      exact List.mem_append.mpr (Or.inl (hmsucc s hs))
    · exact hs
  intro b hb
  induction hb with
  | refl => exact hr_vis
  | step _ hs hc ih =>
    simp only [msuccO, Option.some.injEq] at hs
    subst hs
    exact hA _ (hB _ ih _ hc)

/-! ### what a failed run means -/

/-- the errors a module can cause by itself: an import provided by two modules, an import nobody
    provides that is not a well-known type, no .proto file at all. -/
inductive LocalErr (ws : WS) (x : Nat) : DErr → Prop where
  | dup (p : Str) : p ∈ allImports ws x → owner ws p = .dup → LocalErr ws x .dupPath
  | noimp (p : Str) : p ∈ allImports ws x → owner ws p = .none → isWkt ws p = false →
      LocalErr ws x .importNotExist
  | noproto : (modFiles ws x).isEmpty = true → LocalErr ws x .noProtoFiles

theorem LocalErr.ne_cycle {ws : WS} {x : Nat} {e : DErr} (h : LocalErr ws x e) : e ≠ .cycle := by
  cases h <;> simp

theorem LocalErr.ne_fuel {ws : WS} {x : Nat} {e : DErr} (h : LocalErr ws x e) : e ≠ .fuel := by
  cases h <;> simp

/-- A failed run of `depsRec` below the root `r` (the invariants hold at the top-level call and
    are maintained by the recursion): the error is never `fuel`; it is `cycle` only if `r` itself
    lies on a cycle; any other error is a local error of a module reachable from `r`. -/
theorem depsRec_error (ws : WS) (r : Nat) :
    ∀ (fuel m : Nat) (dir : Bool) (par vis : List Nat) (d : DepMap) (e : DErr),
      Reach (msuccO ws) r m → (m ∈ par → ReachPlus (msuccO ws) r r) →
      (∀ p ∈ par, p = r ∨ p ∈ DepMap.keys d) → (m = r ∨ m ∈ DepMap.keys d) →
      par.Nodup → (∀ p ∈ par, p < ws.mods.length) → ws.mods.length + 1 ≤ fuel + par.length →
      depsRec ws fuel m dir par (vis, d) = .error e →
      (e = .cycle ∧ ReachPlus (msuccO ws) r r) ∨ (∃ x, Reach (msuccO ws) r x ∧ LocalErr ws x e) := by
  intro fuel
  induction fuel with
  | zero =>
    intro m dir par vis d e _ _ _ _ hnd hlt hfuel _
    have := nodup_lt_length_le hnd hlt
    omega
  | succ fuel ih =>
    intro m dir par vis d e hreach hcyc hpar hm hnd hlt hfuel h
    rcases depsRec_error_inv h with ⟨hin, rfl⟩ | ⟨hnpar, hnvis, hrest⟩
    · exact Or.inl ⟨rfl, hcyc hin⟩
    rcases hrest with hscan | ⟨d1, nw, hscan, hrest⟩
    · obtain ⟨p, hp, hh⟩ := scan_error ws m dir _ _ _ _ hscan
      rcases hh with ⟨rfl, ho⟩ | ⟨rfl, ho, hw⟩
      · exact Or.inr ⟨m, hreach, LocalErr.dup p hp ho⟩
      · exact Or.inr ⟨m, hreach, LocalErr.noimp p hp ho hw⟩
    rcases hrest with ⟨hemp, rfl⟩ | ⟨hne, hfold⟩
    · exact Or.inr ⟨m, hreach, LocalErr.noproto hemp⟩
    obtain ⟨add, e1, e2, ndadd, f1, f2⟩ := scan_spec ws m dir _ _ _ _ _ hscan
    simp only [List.nil_append] at e1
    subst e1
    have hmono1 : ∀ k ∈ DepMap.keys d, k ∈ DepMap.keys d1 := by
      intro k hk; rw [e2, keys_append]; exact List.mem_append.mpr (Or.inl hk)
    obtain ⟨c, hc, a, hinv, hcall⟩ := foldE_error_inv
      (fun c s => depsRec ws fuel c false (m :: par) s)
      (fun s => ∀ k ∈ DepMap.keys d1, k ∈ DepMap.keys s.2)
      (sortBy natLe nw) (m :: vis, d1) e (fun k hk => hk)
      (by
        intro c _ a b ha hab
        obtain ⟨av, ad⟩ := a
        obtain ⟨bv, bd⟩ := b
        intro k hk
        exact (deps_post ws fuel c false (m :: par) av ad bv bd hab).keys_mono k (ha k hk))
      hfold
    obtain ⟨av, ad⟩ := a
    have hcn : c ∈ nw := (mem_sortBy natLe).mp hc
    obtain ⟨hcm, hcd, p, hp, ho⟩ := f1 c hcn
    have hcs : c ∈ msucc ws m := mem_msucc.mpr ⟨p, hp, ho, hcm⟩
    have hS : msuccO ws m = some (msucc ws m) := rfl
    have hcd1 : c ∈ DepMap.keys d1 := by
      rw [e2, keys_append, keys_map_pair]; exact List.mem_append.mpr (Or.inr hcn)
    apply ih c false (m :: par) av ad e (Reach.step hreach hS hcs) _ _ (Or.inr (hinv c hcd1))
      (List.nodup_cons.mpr ⟨hnpar, hnd⟩) _ _ hcall
    · intro hcin
      rcases List.mem_cons.mp hcin with h | h
      · exact absurd h hcm
      · rcases hpar c h with h | h
        · subst h; exact ⟨m, msucc ws m, hreach, hS, hcs⟩
        · exact absurd h hcd
    · intro p hp
      rcases List.mem_cons.mp hp with h | h
      · subst h
        rcases hm with h | h
        · exact Or.inl h
        · exact Or.inr (hinv _ (hmono1 _ h))
      · rcases hpar p h with h | h
        · exact Or.inl h
        · exact Or.inr (hinv _ (hmono1 _ h))
    · intro p hp
      rcases List.mem_cons.mp hp with h | h
      · subst h; exact lt_of_modFiles_nonempty hne
      · exact hlt p h
    · simp only [List.length_cons]; omega

/-! ### the "everything resolves" hypothesis -/

/-- Every import of every module reachable from `r` is provided by exactly one module of the set,
    or by none and is a well-known type; every reachable module has a .proto file; no two
    distinct reachable modules have a file path in common. -/
structure Good (ws : WS) (r : Nat) : Prop where
  imports : ∀ x, Reach (msuccO ws) r x → ∀ p ∈ allImports ws x,
    (∃ k, owner ws p = .one k) ∨ (owner ws p = .none ∧ isWkt ws p = true)
  nonempty : ∀ x, Reach (msuccO ws) r x → (modFiles ws x).isEmpty = false
  disjoint : ∀ x y, Reach (msuccO ws) r x → Reach (msuccO ws) r y → x ≠ y →
    ∀ f ∈ modFiles ws x, hasPath ws y f.path = false

theorem Good.no_localErr {ws : WS} {r x : Nat} {e : DErr} (hg : Good ws r)
    (hx : Reach (msuccO ws) r x) : ¬ LocalErr ws x e := by
  intro h
  cases h with
  | dup p hp ho =>
    rcases hg.imports x hx p hp with ⟨k, hk⟩ | ⟨hk, _⟩ <;> rw [ho] at hk <;> cases hk
  | noimp p hp ho hw =>
    rcases hg.imports x hx p hp with ⟨k, hk⟩ | ⟨_, hk⟩
    · rw [ho] at hk; cases hk
    · rw [hw] at hk; cases hk
  | noproto he =>
    have := hg.nonempty x hx
    rw [he] at this; cases this

theorem Good.of_reach {ws : WS} {r x : Nat} (hg : Good ws r) (hx : Reach (msuccO ws) r x) : Good ws x :=
  ⟨fun y hy => hg.imports y (Reach.trans hx hy), fun y hy => hg.nonempty y (Reach.trans hx hy),
   fun y z hy hz => hg.disjoint y z (Reach.trans hx hy) (Reach.trans hx hz)⟩

/-- decidable sufficient check: the whole module set resolves. -/
def goodWs (ws : WS) : Bool :=
  (List.range ws.mods.length).all (fun x =>
    (allImports ws x).all (fun p => match owner ws p with
      | .one _ => true
      | .none => isWkt ws p
      | .dup => false) &&
    !(modFiles ws x).isEmpty &&
    (List.range ws.mods.length).all (fun y => y == x || (modFiles ws x).all (fun f => !hasPath ws y f.path)))

theorem good_of_goodWs {ws : WS} {r : Nat} (h : goodWs ws = true) (hr : r < ws.mods.length) : Good ws r := by
  unfold goodWs at h
  rw [List.all_eq_true] at h
  have hx : ∀ x, Reach (msuccO ws) r x → x ∈ List.range ws.mods.length :=
    fun x hx => List.mem_range.mpr (reach_lt hr hx)
  refine ⟨?_, ?_, ?_⟩
  · intro x hrx p hp
    have := h x (hx x hrx)
    simp only [Bool.and_eq_true, List.all_eq_true] at this
    have hp' := this.1.1 p hp
    split at hp'
    · rename_i k hk; exact Or.inl ⟨k, hk⟩
    · rename_i hk; exact Or.inr ⟨hk, hp'⟩
    · cases hp'
  · intro x hrx
    have := h x (hx x hrx)
    simp only [Bool.and_eq_true, List.all_eq_true] at this
    simpa using this.1.2
  · intro x y hrx hry hne f hf
    have := h x (hx x hrx)
    simp only [Bool.and_eq_true, List.all_eq_true] at this
    have h2 := this.2 y (hx y hry)
    simp only [Bool.or_eq_true, beq_iff_eq, List.all_eq_true] at h2
    rcases h2 with h2 | h2
    · exact absurd h2.symm hne
    · simpa using h2 f hf

/-! ### `moduleDeps` = `Module.ModuleDeps()` -/

theorem natLe_total (a b : Nat) : natLe a b = true ∨ natLe b a = true := by
  simp only [natLe, decide_eq_true_eq]; omega

theorem natLe_trans (a b c : Nat) (h1 : natLe a b = true) (h2 : natLe b c = true) : natLe a c = true := by
  simp only [natLe, decide_eq_true_eq] at *; omega

/-- Soundness of a successful `ModuleDeps()` (no hypothesis on the module set): `r` lies on no
    cycle, the listed ids are exactly the modules reachable from `r` in one or more hops, strictly
    increasing, and an entry is flagged direct iff it is a first-hop successor of `r`. -/
theorem moduleDeps_ok {ws : WS} {r : Nat} {ds : DepMap} (h : moduleDeps ws r = .ok ds) :
    ¬ ReachPlus (msuccO ws) r r ∧ (∀ k, k ∈ DepMap.keys ds ↔ ReachPlus (msuccO ws) r k) ∧
    (DepMap.keys ds).Pairwise (· < ·) ∧ (∀ e ∈ ds, e.2 = true ↔ e.1 ∈ msucc ws r) ∧
    (modFiles ws r).isEmpty = false := by
  unfold moduleDeps at h
  split at h
  · exact absurd h (by simp)
  · rename_i vis d hrec
    split at h
    · exact absurd h (by simp)
    · injection h with h
      subst h
      obtain ⟨_, hnd, hkeys, hncyc, hflags, hne⟩ := depsTop_post hrec
      have hperm := sortBy_perm depLe d
      have hkperm : (DepMap.keys (sortBy depLe d)).Perm (DepMap.keys d) := List.Perm.map _ hperm
      refine ⟨hncyc, fun k => by rw [hkperm.mem_iff]; exact hkeys k, ?_,
        fun e he => hflags e (hperm.mem_iff.mp he), hne⟩
      have hsorted := sortBy_pairwise depLe (fun a b => natLe_total a.1 b.1)
        (fun a b c => natLe_trans a.1 b.1 c.1) d
      have hle : (DepMap.keys (sortBy depLe d)).Pairwise (· ≤ ·) := by
        unfold DepMap.keys
        rw [List.pairwise_map]
        exact hsorted.imp (fun hab => by simpa [depLe, natLe] using hab)
      have hne' : (DepMap.keys (sortBy depLe d)).Pairwise (· ≠ ·) := hkperm.nodup_iff.mpr hnd
      exact (hle.and hne').imp (fun hab => Nat.lt_of_le_of_ne hab.1 hab.2)

/-- Errors of `ModuleDeps()` are never spurious (no hypothesis on the module set): never `fuel`;
    `cycle` only if `r` itself lies on a cycle; otherwise a local error of a module reachable
    from `r`, or the final duplicate-path check over two distinct reachable modules. -/
theorem moduleDeps_error {ws : WS} {r : Nat} {e : DErr} (h : moduleDeps ws r = .error e) :
    (e = .cycle ∧ ReachPlus (msuccO ws) r r) ∨ (∃ x, Reach (msuccO ws) r x ∧ LocalErr ws x e) ∨
    (e = .dupPath ∧ ∃ x y, Reach (msuccO ws) r x ∧ Reach (msuccO ws) r y ∧ x ≠ y ∧
      ∃ f ∈ modFiles ws x, hasPath ws y f.path = true) := by
  unfold moduleDeps at h
  split at h
  · rename_i e' hrec
    injection h with h; subst h
    rcases depsRec_error ws r (ws.mods.length + 1) r true [] [] [] e' (Reach.refl r)
      (fun hh => by simp at hh) (fun p hp => by simp at hp) (Or.inl rfl) List.nodup_nil
      (fun p hp => by simp at hp) (by simp) hrec with h | h
    · exact Or.inl h
    · exact Or.inr (Or.inl h)
  · rename_i vis d hrec
    split at h
    · rename_i hdup
      injection h with h; subst h
      obtain ⟨hreach, _⟩ := depsTop_post hrec
      refine Or.inr (Or.inr ⟨rfl, ?_⟩)
      unfold dupAmong at hdup
      simp only [List.any_eq_true, Bool.and_eq_true, bne_iff_ne, ne_eq] at hdup
      obtain ⟨x, hx, y, hy, hne, f, hf, hp⟩ := hdup
      exact ⟨x, y, hreach x hx, hreach y hy, fun hh => hne hh.symm, f, hf, hp⟩
    · cases h

theorem moduleDeps_ne_fuel (ws : WS) (r : Nat) : moduleDeps ws r ≠ .error .fuel := by
  intro h
  rcases moduleDeps_error h with ⟨h, _⟩ | ⟨x, _, h⟩ | ⟨h, _⟩
  · cases h
  · exact h.ne_fuel rfl
  · cases h

/-- under `Good` the only possible error is the cycle through `r`. -/
theorem moduleDeps_error_good {ws : WS} {r : Nat} {e : DErr} (hg : Good ws r)
    (h : moduleDeps ws r = .error e) : e = .cycle ∧ ReachPlus (msuccO ws) r r := by
  rcases moduleDeps_error h with h | ⟨x, hx, h⟩ | ⟨_, x, y, hx, hy, hne, f, hf, hp⟩
  · exact h
  · exact absurd h (hg.no_localErr hx)
  · have := hg.disjoint x y hx hy hne f hf
    rw [hp] at this; cases this

/-- Two distinct modules reachable from `r` that have a file path in common make `ModuleDeps()`
    of `r` fail — also when nobody imports that path (the final `protoFileTracker.validate()`). -/
theorem moduleDeps_dupAmong_error {ws : WS} {r x y : Nat} (hx : Reach (msuccO ws) r x)
    (hy : Reach (msuccO ws) r y) (hne : x ≠ y) {f : PFile} (hf : f ∈ modFiles ws x)
    (hp : hasPath ws y f.path = true) : ∃ e, moduleDeps ws r = .error e := by
  cases hm : moduleDeps ws r with
  | error e => exact ⟨e, rfl⟩
  | ok ds =>
    exfalso
    unfold moduleDeps at hm
    split at hm
    · cases hm
    · rename_i vis d hrec
      have hc := depsTop_vis_complete hrec
      have hdup : dupAmong ws vis = true := by
        unfold dupAmong
        simp only [List.any_eq_true, Bool.and_eq_true, bne_iff_ne, ne_eq]
        exact ⟨x, hc x hx, y, hc y hy, fun hh => hne hh.symm, f, hf, hp⟩
      rw [hdup] at hm
      cases hm

/-- the direct deps listed by a successful `ModuleDeps()` are the first-hop successors. -/
theorem moduleDeps_direct {ws : WS} {m : Nat} {ds : DepMap} (h : moduleDeps ws m = .ok ds) :
    ∀ c, c ∈ msucc ws m ↔ ∃ e ∈ ds.filter (·.2), e.1 = c := by
  obtain ⟨_, hkeys, _, hflags, _⟩ := moduleDeps_ok h
  intro c
  constructor
  · intro hc
    have hk := (hkeys c).mpr (ReachPlus.of_succ (rfl : msuccO ws m = some (msucc ws m)) hc)
    obtain ⟨e, he, rfl⟩ := List.mem_map.mp hk
    exact ⟨e, List.mem_filter.mpr ⟨he, (hflags e he).mpr hc⟩, rfl⟩
  · rintro ⟨e, he, rfl⟩
    obtain ⟨he1, he2⟩ := List.mem_filter.mp he
    exact (hflags e he1).mp he2

/-! ### ModuleSetToDAG -/

theorem dagRec_succ (ws : WS) (fuel m : Nat) (g : Dag) :
    dagRec ws (fuel + 1) m g = match moduleDeps ws m with
      | .error e => .error e
      | .ok ds => foldE (fun d g' => dagRec ws fuel d.1 (addEdge g' m d.1)) (ds.filter (·.2)) (addNode g m) := by
  simp only [dagRec]
  cases moduleDeps ws m <;> rfl

/-- A failed `moduleSetToDAGRec` call: some module reachable from `m` has a failing
    `ModuleDeps()` with that very error; in particular the fuel (depth `|modules| + 1`) is never
    exhausted, although the code keeps no visited set: a module that occurs twice on a
    direct-dep chain lies on a cycle and its own `ModuleDeps()` fails. -/
theorem dagRec_error (ws : WS) :
    ∀ (fuel m : Nat) (anc : List Nat) (g : Dag) (e : DErr),
      anc.Nodup → (∀ a ∈ anc, a < ws.mods.length) → (∀ a ∈ anc, ReachPlus (msuccO ws) a m) →
      ws.mods.length + 1 ≤ fuel + anc.length →
      dagRec ws fuel m g = .error e → ∃ x, Reach (msuccO ws) m x ∧ moduleDeps ws x = .error e := by
  intro fuel
  induction fuel with
  | zero =>
    intro m anc g e hnd hlt _ hfuel _
    have := nodup_lt_length_le hnd hlt
    omega
  | succ fuel ih =>
    intro m anc g e hnd hlt hanc hfuel h
    rw [dagRec_succ] at h
    split at h
    · rename_i e' hm
      injection h with h; subst h
      exact ⟨m, Reach.refl m, hm⟩
    · rename_i ds hm
      obtain ⟨hncyc, _, _, _, hne⟩ := moduleDeps_ok hm
      obtain ⟨c, hc, a, _, hcall⟩ := foldE_error_inv
        (fun (d : Nat × Bool) g' => dagRec ws fuel d.1 (addEdge g' m d.1)) (fun _ => True)
        (ds.filter (·.2)) (addNode g m) e trivial (fun _ _ _ _ _ _ => trivial) h
      have hcs : c.1 ∈ msucc ws m := (moduleDeps_direct hm c.1).mpr ⟨c, hc, rfl⟩
      have hS : msuccO ws m = some (msucc ws m) := rfl
      obtain ⟨x, hx, hxe⟩ := ih c.1 (m :: anc) _ e
        (List.nodup_cons.mpr ⟨fun hin => hncyc (hanc m hin), hnd⟩)
        (by
          intro a ha
          rcases List.mem_cons.mp ha with h | h
          · subst h; exact lt_of_modFiles_nonempty hne
          · exact hlt a h)
        (by
          intro a ha
          rcases List.mem_cons.mp ha with h | h
          · subst h; exact ReachPlus.of_succ hS hcs
          · exact (hanc a h).tail hS hcs)
        (by simp only [List.length_cons]; omega) hcall
      exact ⟨x, Reach.head hS hcs hx, hxe⟩

/-- A successful `moduleSetToDAGRec` call: `ModuleDeps()` succeeded for every module reachable
    from `m`. -/
theorem dagRec_ok (ws : WS) :
    ∀ (fuel m : Nat) (g g' : Dag), dagRec ws fuel m g = .ok g' →
      ∀ x, Reach (msuccO ws) m x → ∃ ds, moduleDeps ws x = .ok ds := by
  intro fuel
  induction fuel with
  | zero => intro m g g' h; simp [dagRec] at h
  | succ fuel ih =>
    intro m g g' h x hx
    rw [dagRec_succ] at h
    split at h
    · exact absurd h (by simp)
    · rename_i ds hm
      rcases hx.cases_head with rfl | ⟨cs, c, hs, hc, hcx⟩
      · exact ⟨ds, hm⟩
      · simp only [msuccO, Option.some.injEq] at hs
        subst hs
        obtain ⟨e, he, rfl⟩ := (moduleDeps_direct hm c).mp hc
        obtain ⟨a, b, hab⟩ := foldE_ok_all _ _ _ _ h e he
        exact ih e.1 _ b hab x hcx

theorem toDAG_error {ws : WS} {e : DErr} (h : toDAG ws = .error e) :
    ∃ t ∈ targetMods ws, ∃ x, Reach (msuccO ws) t x ∧ moduleDeps ws x = .error e := by
  unfold toDAG at h
  obtain ⟨t, ht, a, _, hcall⟩ := foldE_error_inv
    (fun m g => dagRec ws (ws.mods.length + 1) m g) (fun _ => True)
    (targetMods ws) ([], []) e trivial (fun _ _ _ _ _ _ => trivial) h
  obtain ⟨x, hx, hxe⟩ := dagRec_error ws (ws.mods.length + 1) t [] a e List.nodup_nil
    (fun a ha => by simp at ha) (fun a ha => by simp at ha) (by simp) hcall
  exact ⟨t, ht, x, hx, hxe⟩

theorem toDAG_ok {ws : WS} {g : Dag} (h : toDAG ws = .ok g) :
    ∀ t ∈ targetMods ws, ∀ x, Reach (msuccO ws) t x → ∃ ds, moduleDeps ws x = .ok ds := by
  unfold toDAG at h
  intro t ht x hx
  obtain ⟨a, b, hab⟩ := foldE_ok_all _ _ _ _ h t ht
  exact dagRec_ok ws _ t a b hab x hx

/-! ### small facts used by the concrete examples -/

theorem reachPlus_pred {ws : WS} {a c : Nat} (h : ReachPlus (msuccO ws) a c) :
    ∃ m, m < ws.mods.length ∧ c ∈ msucc ws m := by
  obtain ⟨b, cs, _, hs, hc⟩ := h
  simp only [msuccO, Option.some.injEq] at hs
  subst hs
  exact ⟨b, msucc_src_lt hc, hc⟩

theorem targetMods_lt {ws : WS} {t : Nat} (h : t ∈ targetMods ws) : t < ws.mods.length := by
  unfold targetMods at h
  exact List.mem_range.mp (List.mem_filter.mp h).1

/-- a strictly increasing list is determined by its members. -/
theorem sorted_set_unique {l1 l2 : List Nat} (h1 : l1.Pairwise (· < ·)) (h2 : l2.Pairwise (· < ·))
    (hm : ∀ x, x ∈ l1 ↔ x ∈ l2) : l1 = l2 := by
  have n1 : l1.Nodup := h1.imp (fun h => Nat.ne_of_lt h)
  have n2 : l2.Nodup := h2.imp (fun h => Nat.ne_of_lt h)
  have hp : l1.Perm l2 := (List.perm_ext_iff_of_nodup n1 n2).mpr hm
  exact hp.eq_of_pairwise (fun a b _ _ hab hba => absurd hab (Nat.lt_asymm hba)) h1 h2

end BufModel.Graph
