import BufProofs.Lemmas.ConfigLemmas
namespace BufModel.Config
open BufModel.Path

theorem mapM_map_some {α β γ : Type} (g : α → β) (f : β → Option γ) (h : α → γ) (l : List α)
    (hh : ∀ x ∈ l, f (g x) = some (h x)) : (l.map g).mapM f = some (l.map h) := by
  induction l with
  | nil => simp
  | cons x xs ih =>
    have h1 := hh x (by simp)
    have h2 := ih (fun y hy => hh y (by simp [hy]))
    simp [List.mapM_cons, h1, h2]

theorem mapM_some_imp {α β : Type} (f : α → Option β) : ∀ (l : List α) (out : List β), l.mapM f = some out →
    out.length = l.length ∧ ∀ y ∈ out, ∃ x ∈ l, f x = some y := by
  intro l
  induction l with
  | nil => intro out h; simp at h; subst h; simp
  | cons x xs ih =>
    intro out h
    simp only [List.mapM_cons] at h
    cases h1 : f x with
    | none => simp [h1] at h
    | some y =>
      cases h2 : xs.mapM f with
      | none => simp [h1, h2] at h
      | some ys =>
        simp [h1, h2] at h
        subst h
        obtain ⟨hl, hm⟩ := ih ys h2
        refine ⟨by simp [hl], ?_⟩
        intro z hz
        rcases List.mem_cons.mp hz with hz | hz
        · subst hz; exact ⟨x, by simp, h1⟩
        · obtain ⟨w, hw, hf⟩ := hm z hz; exact ⟨w, by simp [hw], hf⟩

/-! ### v2 modules: reading back what the writer produced -/

theorem readName_extNameOf (n : Str) : readName (extNameOf n) = some n := by
  unfold readName extNameOf
  by_cases h : n = [] <;> simp [h]

theorem protoExt_append (d k : Key) (hk : k ≠ []) : protoExt (d ++ k) = protoExt k := by
  unfold protoExt
  rw [List.getLast?_append]
  cases hk' : k.getLast? with
  | none => exact absurd (List.getLast?_eq_none_iff.mp hk') hk
  | some c => simp

theorem containsStrict_append (d a b : Key) : containsStrict (d ++ a) (d ++ b) = containsStrict a b := by
  unfold containsStrict
  rw [isPrefixOf_append_left]
  have e1 : (d ++ a != d ++ b) = (a != b) := by
    by_cases h : a = b
    · subst h; rw [bne_self_eq_false, bne_self_eq_false]
    · have h' : d ++ a ≠ d ++ b := fun e => h (List.append_cancel_left e)
      rw [bne_iff_ne.mpr h, bne_iff_ne.mpr h']
  rw [e1]

structure WFRootV2 (incs excl : List Key) : Prop where
  wi : WFKeys incs
  iok : ∀ i ∈ incs, i ≠ [] ∧ protoExt i = false
  we : WFKeys excl
  eok : ∀ x ∈ excl, x ≠ [] ∧ protoExt x = false
  inter : incs ≠ [] → ∀ x ∈ excl,
    (∀ i ∈ incs, i ≠ x ∧ containsStrict x i = false) ∧ ∃ i ∈ incs, containsStrict i x = true

structure WFModuleV2 (m : Module) : Prop where
  roots : ∃ incs excl, m.roots = [⟨[], incs, excl⟩] ∧ WFRootV2 incs excl
  lint : WFLint m.lint
  breaking : WFBreaking m.breaking

theorem strict_rebase (d : Key) (ks : List Key) : (rebase d ks).mapM P.strict = some (ks.map (d ++ ·)) := by
  unfold rebase
  exact mapM_map_some _ _ _ _ (fun _ _ => rfl)

theorem normCheckPaths_rebase (d : Key) (ks : List Key) (h : antichain ks = true) :
    normCheckPaths (rebase d ks) = some (sortU keyLt (ks.map (d ++ ·))) := by
  unfold normCheckPaths
  rw [strict_rebase]
  simp [normCheckKeys, antichain_map_append, h]

theorem mem_sortU_map (d : Key) (ks : List Key) (z : Key) :
    z ∈ sortU keyLt (ks.map (d ++ ·)) ↔ ∃ k ∈ ks, z = d ++ k := by
  rw [mem_sortU keyLt_total]
  simp only [List.mem_map]
  constructor
  · rintro ⟨k, hk, rfl⟩; exact ⟨k, hk, rfl⟩
  · rintro ⟨k, hk, rfl⟩; exact ⟨k, hk, rfl⟩

theorem getRootToExcludes_dot (excl : List Key) (hw : WFKeys excl)
    (hok : ∀ x ∈ excl, x ≠ [] ∧ protoExt x = false) :
    getRootToExcludes [P.ok []] (excl.map P.ok) = some [([], excl)] := by
  unfold getRootToExcludes
  have hroots : normCheckPaths [P.ok ([] : Key)] = some [[]] := by
    simp [normCheckPaths, P.strict, normCheckKeys, antichain, sortU, insertU]
  simp only [List.cons_ne_self, if_false, hroots, reduceCtorEq]
  by_cases he : excl = []
  · subst he; simp
  · have hne : excl.map P.ok ≠ [] := by simpa using he
    rw [if_neg hne]
    have hstrict : (excl.map P.ok).mapM P.strict = some (excl.map id) :=
      mapM_map_some _ _ _ _ (fun _ _ => rfl)
    have hn : normCheckPaths (excl.map P.ok) = some excl := by
      unfold normCheckPaths
      rw [hstrict, List.map_id]
      exact normCheckKeys_self _ hw.sorted hw.anti
    simp only [hn]
    have h1 : excl.any protoExt = false := by
      rw [List.any_eq_false]; intro x hx; simp [(hok x hx).2]
    have h2 : (excl.any fun e => [([] : Key)].contains e) = false := by
      rw [List.any_eq_false]; intro x hx
      have := (hok x hx).1
      simp [this]
    simp only [h1, h2, Bool.false_eq_true, if_false]
    have h3 : ∀ l : List Key, assignExcludes [[]] l = some (l.map fun e => ([], e)) := by
      intro l
      induction l with
      | nil => rfl
      | cons e rest ih => simp [assignExcludes, matchingRoots, ih]
    simp only [h3, List.map_cons, List.map_nil]
    have h4 : (List.filter (fun a : Key × Key => decide (a.1 = [])) (List.map (fun e => ([], e)) excl)).map (·.2) = excl := by
      rw [List.filter_eq_self.mpr (by intro a ha; simp at ha; obtain ⟨_, _, rfl⟩ := ha; simp)]
      rw [List.map_map]
      have : ((fun x : Key × Key => x.snd) ∘ fun e => (([] : Key), e)) = id := rfl
      rw [this, List.map_id]
    rw [h4, sortU_eq_self _ hw.sorted]

theorem readModuleV2_rt (m : Module) (hw : WFModuleV2 m) (incs excl : List Key)
    (hr : m.roots = [⟨[], incs, excl⟩]) (hroot : WFRootV2 incs excl)
    (defL ml : ExtLint) (defB mb : ExtBreaking)
    (hl : (if !ml.isEmpty then ml else defL) = extLintOf true m.lint m.dirPath)
    (hb : (if !mb.isEmpty then mb else defB) = extBreakingOf m.breaking m.dirPath) :
    readModuleV2 defL defB ⟨P.ok m.dirPath, extNameOf m.name, rebase m.dirPath incs, rebase m.dirPath excl, ml, mb⟩
      = some m := by
  obtain ⟨d, name, roots, lint, brk⟩ := m
  simp only at hr hl hb
  subst hr
  unfold readModuleV2
  dsimp only [P.nv]
  rw [readName_extNameOf, normCheckPaths_rebase d incs hroot.wi.anti]
  dsimp only
  -- includes
  have hS : ∀ z ∈ sortU keyLt (incs.map (d ++ ·)), relInclude d z = some (z.drop d.length) := by
    intro z hz
    obtain ⟨k, hk, rfl⟩ := (mem_sortU_map d incs z).mp hz
    have := hroot.iok k hk
    unfold relInclude
    rw [if_neg (by rw [append_eq_self_iff]; exact this.1)]
    simp [isPrefixOf_self_append, protoExt_append d k this.1, this.2]
  have hinc : (sortU keyLt (incs.map (d ++ ·))).mapM (relInclude d)
      = some ((sortU keyLt (incs.map (d ++ ·))).map (fun z => z.drop d.length)) := by
    have := mapM_map_some id (relInclude d) (fun z => z.drop d.length) _ hS
    simpa using this
  -- excludes
  have hexc : (rebase d excl).mapM (relExclude d (sortU keyLt (incs.map (d ++ ·)))) = some (excl.map id) := by
    unfold rebase
    apply mapM_map_some
    intro x hx
    have hxo := hroot.eok x hx
    unfold relExclude
    simp only [P.nv]
    rw [if_neg (by rw [append_eq_self_iff]; exact hxo.1)]
    simp only [isPrefixOf_self_append, Bool.not_true, Bool.false_eq_true, if_false]
    by_cases hi : incs = []
    · subst hi; simp [sortU]
    · have hSne : sortU keyLt (incs.map (d ++ ·)) ≠ [] := sortU_ne_nil _ _ (by simpa using hi)
      obtain ⟨hall, i0, hi0, hc0⟩ := hroot.inter hi x hx
      have a1 : (sortU keyLt (incs.map (d ++ ·))).any (fun i => i == (d ++ x) || containsStrict (d ++ x) i) = false := by
        rw [List.any_eq_false]
        intro z hz
        obtain ⟨k, hk, rfl⟩ := (mem_sortU_map d incs z).mp hz
        have := hall k hk
        simp [containsStrict_append, this.1, this.2]
      have a2 : (sortU keyLt (incs.map (d ++ ·))).any (fun i => containsStrict i (d ++ x)) = true := by
        rw [List.any_eq_true]
        exact ⟨d ++ i0, (mem_sortU_map d incs _).mpr ⟨i0, hi0, rfl⟩, by simp [containsStrict_append, hc0]⟩
      simp [hSne, a1, a2]
  rw [hinc, hexc, List.map_id]
  simp only [getRootToExcludes_dot excl hroot.we hroot.eok]
  -- lint / breaking
  simp only [hl, hb]
  rw [readLint_extLintOf true lint d _ hw.lint, readBreaking_extBreakingOf brk d _ hw.breaking]
  -- the root
  have e1 : sortU keyLt ((sortU keyLt (incs.map (d ++ ·))).map (fun z => z.drop d.length)) = incs := by
    apply sortU_eq_of_mem keyLt_total _ _ hroot.wi.sorted
    intro z
    simp only [List.mem_map]
    constructor
    · rintro ⟨w, hw', rfl⟩
      obtain ⟨k, hk, rfl⟩ := (mem_sortU_map d incs w).mp hw'
      simpa using hk
    · intro hz
      exact ⟨d ++ z, (mem_sortU_map d incs _).mpr ⟨z, hz, rfl⟩, by simp⟩
  simp [e1, sortU_eq_self _ hroot.we.sorted]

end BufModel.Config

namespace BufModel.Config
open BufModel.Path

/-! ### v2 files -/

theorem isEmpty_lint_iff (l : ExtLint) : l.isEmpty = true ↔ l = ExtLint.zero := by
  simp [ExtLint.isEmpty]

theorem isEmpty_breaking_iff (b : ExtBreaking) : b.isEmpty = true ↔ b = ExtBreaking.zero := by
  simp [ExtBreaking.isEmpty]

theorem allEq_headD {α : Type} [DecidableEq α] (l : List α) (dflt : α) (h : allEq l = true) :
    ∀ x ∈ l, x = l.headD dflt := by
  cases l with
  | nil => simp
  | cons y ys =>
    intro x hx
    simp only [allEq, List.all_eq_true, decide_eq_true_eq] at h
    rcases List.mem_cons.mp hx with hx | hx
    · simp [hx]
    · simp [h x hx]

def WFPlugin (p : Plugin) : Prop := readPlugin (extPluginOf p) = some p

theorem readPlugin_wf (e : ExtPlugin) (p : Plugin) (h : readPlugin e = some p) : WFPlugin p := by
  unfold WFPlugin
  unfold readPlugin at h
  split at h
  · cases h
  · rename_i hopt
    cases hp : e.path with
    | nil => simp [hp] at h
    | cons name args =>
      simp only [hp] at h
      have hopt' : (e.options.any fun kv => decide (kv.1 = [])) = false := by
        cases hx : (e.options.any fun kv => decide (kv.1 = [])) with
        | false => rfl
        | true => simp [hx] at hopt
      split at h
      · simp only [Option.some.injEq] at h; subst h
        simp [readPlugin, extPluginOf, hopt']
      · split at h
        · split at h
          · cases h
          · rename_i hw hn
            simp only [Option.some.injEq] at h; subst h
            simp [readPlugin, extPluginOf, hopt', hw, hn]
        · split at h
          · cases h
          · rename_i hw hn
            simp only [Option.some.injEq] at h; subst h
            simp [readPlugin, extPluginOf, hopt', hw, hn]

theorem readDeps_ext (ds : List Dep) : readDeps (ds.map extDepOf) = some ds := by
  induction ds with
  | nil => rfl
  | cons d rest ih => simp [readDeps, extDepOf, ih]

structure WFFileV2 (c : BufYAML) : Prop where
  ver : c.version = .v2
  ne : c.modules ≠ []
  mods : ∀ m ∈ c.modules, WFModuleV2 m
  names : uniqueNonEmpty (c.modules.map (·.name)) = true
  sorted : c.modules.Pairwise (fun a b => moduleLt b a = false)
  depsSorted : Sorted depLt c.deps
  depsUnique : uniqueNonEmpty (c.deps.map (·.full)) = true
  plugins : ∀ p ∈ c.plugins, WFPlugin p

/-- The top-level lint section the writer produces is itself readable with module directory ".". -/
theorem readCheck_top_isSome (c : Check) (d : Key) (h : WFCheck c) :
    (readCheck (extCheckOf c d) [] false).isSome = true := by
  cases hd : c.disabled with
  | true =>
    have := h.dis hd; subst this
    by_cases hd0 : d = []
    · subst hd0; simp [readCheck, extCheckOf, Check.disabledCfg, isDisabled, P.nv]
    · simp [readCheck, extCheckOf, Check.disabledCfg, isDisabled, P.nv, hd0, relPaths, relIgnoreOnly,
        newEnabledCheck, checkIgnoreOnly, normCheckKeys, sortU, insertU, antichain]
  | false =>
    have e1 : (extCheckOf c d).ignore = rebase [] (c.ignore.map (d ++ ·)) := by
      simp [extCheckOf, hd, rebase]
    have e2 : (extCheckOf c d).ignoreOnly = rebaseIO [] (c.ignoreOnly.map fun e => (e.1, e.2.map (d ++ ·))) := by
      simp [extCheckOf, rebaseIO]
    have hnr : [] ∉ c.ignore.map (d ++ ·) := by
      simp only [List.mem_map, not_exists, not_and]
      intro k hk e
      have : k = [] := (List.append_eq_nil_iff.mp e).2
      exact h.noRoot (this ▸ hk)
    unfold readCheck
    rw [e1, e2, isDisabled_rebase [] _ hnr, relPaths_rebase,
      relIgnoreOnly_rebase [] false _ (by
        intro e he
        simp only [List.mem_map] at he
        obtain ⟨e0, he0, rfl⟩ := he
        simpa using (h.ignoreOnly e0 he0).1)]
    unfold newEnabledCheck
    have a1 : antichain (sortU keyLt (c.ignore.map (d ++ ·))) = true :=
      antichain_sortU _ (by rw [antichain_map_append]; exact h.ignore.anti)
    have a2 : ∀ (io : List (Str × List Key)), (∀ e ∈ io, WFKeys e.2) →
        (checkIgnoreOnly (io.map fun e => (e.1, e.2.map (d ++ ·)))).isSome = true := by
      intro io
      induction io with
      | nil => intro _; rfl
      | cons e rest ih =>
        intro hio
        have he := hio e (by simp)
        have hr := ih (fun x hx => hio x (by simp [hx]))
        obtain ⟨out, hout⟩ := Option.isSome_iff_exists.mp hr
        have ha : antichain (sortU keyLt (e.2.map (d ++ ·))) = true :=
          antichain_sortU _ (by rw [antichain_map_append d]; exact he.anti)
        simp [checkIgnoreOnly, normCheckKeys, ha, hout]
    obtain ⟨out, hout⟩ := Option.isSome_iff_exists.mp (a2 c.ignoreOnly (fun e he => (h.ignoreOnly e he).2))
    simp [normCheckKeys, a1, hout]

theorem readLint_top_isSome (l : Lint) (d : Key) (h : WFLint l) :
    (readLint true (extLintOf true l d) [] false).isSome = true := by
  unfold readLint
  show (match readCheck (extCheckOf l.chk d) [] false with | some c => _ | none => none).isSome = true
  obtain ⟨c, hc⟩ := Option.isSome_iff_exists.mp (readCheck_top_isSome l.chk d h)
  rw [hc]; rfl

theorem readBreaking_top_isSome (b : Breaking) (d : Key) (h : WFBreaking b) :
    (readBreaking (extBreakingOf b d) [] false).isSome = true := by
  unfold readBreaking
  show (match readCheck (extCheckOf b.chk d) [] false with | some c => _ | none => none).isSome = true
  obtain ⟨c, hc⟩ := Option.isSome_iff_exists.mp (readCheck_top_isSome b.chk d h)
  rw [hc]; rfl

theorem extModuleOf_eq (m : Module) (incs excl : List Key) (hr : m.roots = [⟨[], incs, excl⟩]) :
    extModuleOfWith extCheckOf m = ⟨P.ok m.dirPath, extNameOf m.name, rebase m.dirPath incs, rebase m.dirPath excl,
      extLintOf true m.lint m.dirPath, extBreakingOf m.breaking m.dirPath⟩ := by
  simp [extModuleOfWith, hr, rebase]

end BufModel.Config

namespace BufModel.Config
open BufModel.Path

def wMods (c : BufYAML) : List ExtModule := c.modules.map (extModuleOfWith extCheckOf)
def wHoist (c : BufYAML) : Bool := allEq ((wMods c).map (·.lint)) && allEq ((wMods c).map (·.breaking))
def wTopL (c : BufYAML) : ExtLint := if wHoist c then ((wMods c).map (·.lint)).headD ExtLint.zero else ExtLint.zero
def wTopB (c : BufYAML) : ExtBreaking := if wHoist c then ((wMods c).map (·.breaking)).headD ExtBreaking.zero else ExtBreaking.zero
def wMods' (c : BufYAML) : List ExtModule := if wHoist c then (wMods c).map ExtModule.clearChecks else wMods c

theorem readMods_rt (c : BufYAML) (hm : ∀ m ∈ c.modules, WFModuleV2 m) :
    (wMods' c).mapM (readModuleV2 (wTopL c) (wTopB c)) = some c.modules := by
  have key : ∀ (g : Module → ExtModule), (∀ m ∈ c.modules, readModuleV2 (wTopL c) (wTopB c) (g m) = some m) →
      (c.modules.map g).mapM (readModuleV2 (wTopL c) (wTopB c)) = some c.modules := by
    intro g hg
    have := mapM_map_some g (readModuleV2 (wTopL c) (wTopB c)) id c.modules hg
    simpa using this
  cases hh : wHoist c with
  | true =>
    have e : wMods' c = c.modules.map (fun m => (extModuleOfWith extCheckOf m).clearChecks) := by
      simp [wMods', hh, wMods, List.map_map, Function.comp]
    rw [e]
    apply key
    intro m hmem
    obtain ⟨incs, excl, hr, hroot⟩ := (hm m hmem).roots
    rw [extModuleOf_eq m incs excl hr]
    have hall : allEq ((wMods c).map (·.lint)) = true ∧ allEq ((wMods c).map (·.breaking)) = true := by
      simpa [wHoist] using hh
    apply readModuleV2_rt m (hm m hmem) incs excl hr hroot
    · have : (extModuleOfWith extCheckOf m).lint ∈ (wMods c).map (·.lint) := by
        simp only [wMods, List.map_map, List.mem_map]; exact ⟨m, hmem, rfl⟩
      have h1 := allEq_headD _ ExtLint.zero hall.1 _ this
      simp only [wTopL, hh, if_true]
      rw [← h1, extModuleOf_eq m incs excl hr]
      simp [ExtModule.clearChecks, ExtLint.isEmpty]
    · have : (extModuleOfWith extCheckOf m).breaking ∈ (wMods c).map (·.breaking) := by
        simp only [wMods, List.map_map, List.mem_map]; exact ⟨m, hmem, rfl⟩
      have h1 := allEq_headD _ ExtBreaking.zero hall.2 _ this
      simp only [wTopB, hh, if_true]
      rw [← h1, extModuleOf_eq m incs excl hr]
      simp [ExtModule.clearChecks, ExtBreaking.isEmpty]
  | false =>
    have e : wMods' c = c.modules.map (extModuleOfWith extCheckOf) := by simp [wMods', hh, wMods]
    rw [e]
    apply key
    intro m hmem
    obtain ⟨incs, excl, hr, hroot⟩ := (hm m hmem).roots
    rw [extModuleOf_eq m incs excl hr]
    apply readModuleV2_rt m (hm m hmem) incs excl hr hroot
    · simp only [wTopL, hh]
      cases he : (extLintOf true m.lint m.dirPath).isEmpty with
      | true => simp [(isEmpty_lint_iff _).mp he]
      | false => simp
    · simp only [wTopB, hh]
      cases he : (extBreakingOf m.breaking m.dirPath).isEmpty with
      | true => simp [(isEmpty_breaking_iff _).mp he]
      | false => simp

theorem top_ok (c : BufYAML) (hne : c.modules ≠ []) (hm : ∀ m ∈ c.modules, WFModuleV2 m) :
    (!(wTopL c).isEmpty && (readLint true (wTopL c) [] false).isNone) = false ∧
    (!(wTopB c).isEmpty && (readBreaking (wTopB c) [] false).isNone) = false := by
  cases hh : wHoist c with
  | false => simp [wTopL, wTopB, hh, ExtLint.isEmpty, ExtBreaking.isEmpty]
  | true =>
    cases hc : c.modules with
    | nil => exact absurd hc hne
    | cons m rest =>
      have hwm := hm m (by simp [hc])
      obtain ⟨incs, excl, hr, _⟩ := hwm.roots
      have e1 : wTopL c = extLintOf true m.lint m.dirPath := by
        simp [wTopL, hh, wMods, hc, extModuleOf_eq m incs excl hr]
      have e2 : wTopB c = extBreakingOf m.breaking m.dirPath := by
        simp [wTopB, hh, wMods, hc, extModuleOf_eq m incs excl hr]
      rw [e1, e2]
      have s1 := readLint_top_isSome m.lint m.dirPath hwm.lint
      have s2 := readBreaking_top_isSome m.breaking m.dirPath hwm.breaking
      obtain ⟨x, hx⟩ := Option.isSome_iff_exists.mp s1
      obtain ⟨y, hy⟩ := Option.isSome_iff_exists.mp s2
      simp [hx, hy]

theorem readPlugins_rt (ps : List Plugin) (h : ∀ p ∈ ps, WFPlugin p) :
    (ps.map extPluginOf).mapM readPlugin = some ps := by
  have := mapM_map_some extPluginOf readPlugin id ps (fun p hp => h p hp)
  simpa using this

theorem newBufYAML_self (c : BufYAML) (h : WFFileV2 c) :
    newBufYAML .v2 c.modules c.plugins c.deps = some c := by
  unfold newBufYAML
  rw [if_neg h.ne]
  simp only [h.names, h.depsUnique, Bool.not_true, Bool.false_eq_true, if_false]
  rw [sortStable_eq_self _ h.sorted, sortU_eq_self _ h.depsSorted]
  have hv := h.ver
  cases c; simp only at hv; simp [hv]

/-- The tail of `readV2` after the module list has been determined. -/
theorem readV2_of_mods (e : ExtV2) (c : BufYAML) (h : WFFileV2 c)
    (hmods : (if e.modules = [] then some [⟨P.ok [], e.name, [], [], ExtLint.zero, ExtBreaking.zero⟩]
              else if e.name.name ≠ [] then none else some e.modules) = some (wMods' c))
    (hl : e.lint = wTopL c) (hb : e.breaking = wTopB c)
    (hp : e.plugins = c.plugins.map extPluginOf) (hd : e.deps = c.deps.map extDepOf) :
    readV2 e = some c := by
  unfold readV2
  simp only [hmods, hl, hb, readMods_rt c h.mods]
  obtain ⟨t1, t2⟩ := top_ok c h.ne h.mods
  simp only [t1, t2, Bool.false_eq_true, if_false, hp, hd, readPlugins_rt _ h.plugins, readDeps_ext]
  exact newBufYAML_self c h

theorem writeV2_shape (c : BufYAML) :
    writeV2 c = (match wMods' c with
      | [m] =>
        if m.path = P.ok [] && m.excludes = [] && (false || m.includes = []) then
          ⟨m.name, [], c.deps.map extDepOf, wTopL c, wTopB c, c.plugins.map extPluginOf⟩
        else ⟨extNameOf [], wMods' c, c.deps.map extDepOf, wTopL c, wTopB c, c.plugins.map extPluginOf⟩
      | _ => ⟨extNameOf [], wMods' c, c.deps.map extDepOf, wTopL c, wTopB c, c.plugins.map extPluginOf⟩) := by
  rfl

end BufModel.Config

namespace BufModel.Config
open BufModel.Path

theorem wMods'_length (c : BufYAML) : (wMods' c).length = c.modules.length := by
  unfold wMods' wMods; split <;> simp

theorem wMods'_single_cleared (c : BufYAML) (m : ExtModule) (h : wMods' c = [m]) :
    m.lint = ExtLint.zero ∧ m.breaking = ExtBreaking.zero := by
  have hl : c.modules.length = 1 := by rw [← wMods'_length, h]; rfl
  cases hc : c.modules with
  | nil => simp [hc] at hl
  | cons m0 rest =>
    cases rest with
    | cons _ _ => simp [hc] at hl
    | nil =>
      have hh : wHoist c = true := by simp [wHoist, wMods, hc, allEq]
      simp only [wMods', hh, if_true, wMods, hc, List.map_cons, List.map_nil, List.cons.injEq, and_true] at h
      subst h
      simp [ExtModule.clearChecks]

/-- Round trip of a well-formed v2 configuration through the (fixed) writer and the reader. -/
theorem readV2_writeV2 (c : BufYAML) (h : WFFileV2 c) : readV2 (writeV2 c) = some c := by
  rw [writeV2_shape]
  have hlen := wMods'_length c
  cases hw : wMods' c with
  | nil =>
    rw [hw] at hlen
    exact absurd (List.length_eq_zero_iff.mp hlen.symm) h.ne
  | cons m rest =>
    cases rest with
    | cons m2 rest2 =>
      apply readV2_of_mods _ c h _ rfl rfl rfl rfl
      simp [hw, extNameOf]
    | nil =>
      dsimp only
      split
      · rename_i hcond
        apply readV2_of_mods _ c h _ rfl rfl rfl rfl
        obtain ⟨z1, z2⟩ := wMods'_single_cleared c m hw
        simp only [Bool.false_or, Bool.and_eq_true, decide_eq_true_eq] at hcond
        obtain ⟨⟨p1, p2⟩, p3⟩ := hcond
        obtain ⟨mp, mn, mi, me, ml, mb⟩ := m
        simp only at z1 z2 p1 p2 p3
        subst z1 z2 p1 p2 p3
        simp [hw]
      · apply readV2_of_mods _ c h _ rfl rfl rfl rfl
        simp [hw, extNameOf]

end BufModel.Config

namespace BufModel.Config
open BufModel.Path

/-! ### buf.work.yaml -/

theorem readWork_rt (ps : List P) (ds : List Key) (h : readWork ps = some ds) : readWork (writeWork ds) = some ds := by
  unfold readWork at h
  split at h
  · cases h
  · cases hk : ps.mapM P.nv with
    | none => simp [hk] at h
    | some ks =>
      simp only [hk] at h
      split at h
      · cases h
      · rename_i hps hroot
        split at h
        · rename_i hanti
          simp only [Option.some.injEq] at h
          subst h
          have hne : ks ≠ [] := by
            intro e; subst e
            cases ps with
            | nil => exact hps rfl
            | cons p rest =>
              simp only [List.mapM_cons] at hk
              cases h1 : p.nv <;> cases h2 : rest.mapM P.nv <;> simp [h1, h2] at hk
          unfold readWork writeWork
          have hs := sorted_sortU keyLt_total.trans ks
          have hmap : ((sortU keyLt ks).map P.ok).mapM P.nv = some ((sortU keyLt ks).map id) :=
            mapM_map_some _ _ _ _ (fun _ _ => rfl)
          have h1 : (sortU keyLt ks).map P.ok ≠ [] := by
            simpa using sortU_ne_nil keyLt ks hne
          have h2 : (sortU keyLt ks).contains [] = false := by
            cases hc : (sortU keyLt ks).contains [] with
            | false => rfl
            | true =>
              have : [] ∈ ks := mem_sortU_imp _ _ _ (List.contains_iff_mem.mp hc)
              have hr' : ks.contains [] = false := by simpa using hroot
              rw [List.contains_iff_mem.mpr this] at hr'; cases hr'
          rw [if_neg h1, hmap, List.map_id]
          simp only [h2, Bool.false_eq_true, if_false, antichain_sortU ks hanti, if_true,
            sortU_eq_self _ hs]
        · cases h

/-! ### buf.lock -/

theorem lockLt_trans : ∀ a b c : LockDep, lockLt a b = true → lockLt b c = true → lockLt a c = true :=
  fun a b c => strLt_total.trans a.full b.full c.full

theorem uniqueNonEmpty_of_sorted (l : List Str) (h : Sorted strLt l) : uniqueNonEmpty l = true := by
  induction l with
  | nil => rfl
  | cons x xs ih =>
    have hx := List.pairwise_cons.mp h
    simp only [uniqueNonEmpty, Bool.and_eq_true, Bool.or_eq_true, decide_eq_true_eq, Bool.not_eq_true']
    refine ⟨Or.inr ?_, ih hx.2⟩
    cases hc : xs.contains x with
    | false => rfl
    | true =>
      have := hx.1 x (List.contains_iff_mem.mp hc)
      rw [strLt_total.irrefl] at this; cases this

theorem sorted_map_of_sorted {α : Type} (f : α → Str) (l : List α)
    (h : Sorted (fun a b => strLt (f a) (f b)) l) : Sorted strLt (l.map f) := by
  induction l with
  | nil => simp [Sorted]
  | cons x xs ih =>
    have hx := List.pairwise_cons.mp h
    simp only [List.map_cons]
    refine List.pairwise_cons.mpr ⟨?_, ih hx.2⟩
    intro y hy
    obtain ⟨z, hz, rfl⟩ := List.mem_map.mp hy
    exact hx.1 z hz

theorem readLock_rt (ver : Ver) (ds : List ExtLockDep) (l : BufLock) (h : readLock ver ds = some l) :
    readLock ver (writeLock l) = some l := by
  unfold readLock at h
  cases hk : ds.mapM (readLockDep ver) with
  | none => simp [hk] at h
  | some deps =>
    simp only [hk] at h
    split at h
    · cases h
    · simp only [Option.some.injEq] at h
      subst h
      obtain ⟨_, hmem⟩ := mapM_some_imp _ _ _ hk
      have hs : Sorted lockLt (sortU lockLt deps) := sorted_sortU lockLt_trans deps
      have hdep : ∀ d ∈ sortU lockLt deps,
          readLockDep ver ⟨d.remote, d.owner, d.repository, true, d.commit, true, d.digest,
            if ver = .v2 then .b5 else .b4⟩ = some d := by
        intro d hd
        obtain ⟨x, _, hx⟩ := hmem d (mem_sortU_imp _ _ _ hd)
        unfold readLockDep at hx
        by_cases c1 : (decide (x.remote = []) || decide (x.owner = []) || decide (x.repository = [])) = true
        · simp [c1] at hx
        · by_cases c2 : x.nameValid = true
          · by_cases c3 : (decide (x.commit = []) || !x.commitValid) = true
            · simp [c1, c2, c3] at hx
            · by_cases c4 : x.digest = []
              · simp [c1, c2, c3, c4] at hx
              · by_cases c5 : x.digestType = (if ver = .v2 then .b5 else .b4)
                · simp only [c1, c2, c3, c4, c5, Bool.false_eq_true, if_false, Bool.not_true, decide_false,
                    ne_eq, not_true_eq_false, decide_true, Option.some.injEq] at hx
                  subst hx
                  simp only [Bool.or_eq_true, decide_eq_true_eq, not_or, Bool.not_eq_true'] at c1 c3
                  simp [readLockDep, c1.1.1, c1.1.2, c1.2, c3.1, c4]
                · simp [c1, c2, c3, c4, c5] at hx
          · simp [c1, c2] at hx
      unfold readLock writeLock
      have := mapM_map_some (fun d : LockDep => (⟨d.remote, d.owner, d.repository, true, d.commit, true, d.digest,
            if ver = .v2 then .b5 else .b4⟩ : ExtLockDep)) (readLockDep ver) id (sortU lockLt deps) hdep
      simp only [List.map_id] at this
      simp only [this]
      have hu : uniqueNonEmpty ((sortU lockLt deps).map (·.full)) = true :=
        uniqueNonEmpty_of_sorted _ (sorted_map_of_sorted LockDep.full _ hs)
      simp [hu, sortU_eq_self _ hs]

end BufModel.Config
