import BufProofs.Lemmas.LintOps
import BufProofs.Lemmas.LintSpec
/-
  C05 — planting operators whose effect reaches a MULTI-FILE rule: changing the request /
  response type of an RPC (RPC_REQUEST_RESPONSE_UNIQUE), a language option (PACKAGE_SAME_<option>),
  the package or the path of a file (the package/directory rules).  Their exactness theorems are
  stated in membership form, with the co-violations given by the set-level specifications of
  BufProofs/Lemmas/LintSpec.lean.
-/
namespace BufModel.Lint
open BufModel.Case

/-! ### request / response type of an RPC -/

/-- the RPC table after rewriting the RPC at `q0` of file `f`: that row changes, nothing else -/
theorem rpcTable_opRpc (w : Schema) (f : File) (q0 : List Nat) (g : Rpc → Rpc) (ρ : RpcRow → RpcRow)
    (hρ : ∀ q m, ρ ⟨f.path, q, m.inType, m.outType⟩ = ⟨f.path, q, (g m).inType, (g m).outType⟩) :
    rpcTable (plantDecl f.path (opRpc q0 g) w) =
      (rpcTable w).map (fun x => if x.file = f.path ∧ x.path = q0 then ρ x else x) := by
  rw [rpcTable_eq, rpcTable_eq]
  unfold plantDecl plantFile
  rw [nonImport_map _ (sel_isImport f.path (mapFile (opRpc q0 g)) (fun _ => rfl)), flatMap_map_left, map_flatMap_right]
  apply flatMap_congr_mem
  intro g' _
  unfold sel
  split
  · next hp =>
    have hp' : g'.path = f.path := by simpa using hp
    unfold fileRpcRows
    rw [fileRpcs_map, List.map_map, List.map_map]
    apply List.map_congr_left
    intro x _
    simp only [Function.comp, tauRpc, opRpc]
    show (⟨g'.path, x.1, _, _⟩ : RpcRow) = _
    rw [hp']
    simp only [true_and]
    split
    · rw [hρ]
    · rfl
  · next hp =>
    have hp' : g'.path ≠ f.path := by simpa using hp
    unfold fileRpcRows
    rw [List.map_map]
    apply List.map_congr_left
    intro x _
    simp only [Function.comp, hp', false_and, if_false]

/-- rewriting an RPC without touching its NAME keeps the full name of every method -/
theorem rpcFullNames_opRpc (w : Schema) (f : File) (q0 : List Nat) (g : Rpc → Rpc) (hn : ∀ m, (g m).name = m.name) :
    (rpcEntries (plantDecl f.path (opRpc q0 g) w)).map (·.full) = (rpcEntries w).map (·.full) := by
  unfold rpcEntries plantDecl plantFile
  rw [nonImport_map _ (sel_isImport f.path (mapFile (opRpc q0 g)) (fun _ => rfl)), flatMap_map_left,
    List.map_flatMap, List.map_flatMap]
  apply flatMap_congr_mem
  intro g' _
  unfold sel
  split
  · unfold fileRpcEntries
    rw [fileRpcs_map, List.map_map, List.map_map, List.map_map]
    apply List.map_congr_left
    intro x _
    simp only [Function.comp, tauRpc, opRpc]
    show rpcFullName (mapFile (opRpc q0 g) g') _ _ = rpcFullName g' _ _
    unfold rpcFullName rpcNestedName
    have hpk : (mapFile (opRpc q0 g) g').pkg = g'.pkg := rfl
    rw [hpk]
    have hs : (mapSvc { rpc := fun q m => if q = q0 then g m else m } x.1.dropLast.dropLast x.2.1).name = x.2.1.name := rfl
    rw [hs]
    split
    · rw [hn]
    · rfl
  · rfl

/-- … hence the methods keep pairwise distinct full names (what `FullNameToMethod` demands) -/
theorem fullNamesDistinct_opRpc (w : Schema) (f : File) (q0 : List Nat) (g : Rpc → Rpc) (hn : ∀ m, (g m).name = m.name)
    (h : FullNamesDistinct w) : FullNamesDistinct (plantDecl f.path (opRpc q0 g) w) := by
  unfold FullNamesDistinct at h ⊢
  rw [rpcFullNames_opRpc w f q0 g hn]; exact h

theorem stdNameBad_resp_congr (o : Options) (s : Service) (m m' : Rpc) (hn : m'.name = m.name)
    (ho : m'.outType = m.outType) : stdNameBad o false s m' = stdNameBad o false s m := by
  unfold stdNameBad; simp only [hn, ho, Bool.false_eq_true, if_false]

theorem stdNameBad_req_congr (o : Options) (s : Service) (m m' : Rpc) (hn : m'.name = m.name)
    (hi : m'.inType = m.inType) : stdNameBad o true s m' = stdNameBad o true s m := by
  unfold stdNameBad; simp only [hn, hi, if_true]

/-- a list with two different members has at least two elements -/
theorem two_le_length_of_mem {α} (l : List α) (x y : α) (hx : x ∈ l) (hy : y ∈ l) (hne : x ≠ y) : 2 ≤ l.length := by
  match l, hx, hy with
  | [], h, _ => simp at h
  | [a], h1, h2 =>
    simp only [List.mem_singleton] at h1 h2
    exact absurd (h1.trans h2.symm) hne
  | _ :: _ :: _, _, _ => simp

/-! ### header rewriting: declaration rules are silent -/

/-- After rewriting the HEADER of one target file of a Clean workspace (declarations, import flag
    and import statements kept), every annotation belongs to a file-header rule or to a
    multi-file rule: no declaration rule can fire. -/
theorem lint_header_op (o : Options) (rules : List Rule) (w : Schema) (f : File) (hf : FileAt w f)
    (h : File → File) (hI : ∀ g, (h g).isImport = g.isImport) (kd : KeepsDecls h)
    (hclean : cleanB o rules w = true) (a : Annotation) :
    a ∈ lint o rules (plantFile f.path h w) ↔
      a.rule ∈ rules ∧ (isFileRule a.rule = true ∨ elemRule a.rule = none) ∧
        a ∈ runRule o (plantFile f.path h w) a.rule := by
  rw [mem_lint_iff]
  constructor
  · rintro ⟨hr, ha⟩
    refine ⟨hr, ?_, ha⟩
    cases he : elemRule a.rule with
    | none => exact Or.inr rfl
    | some er =>
      left
      apply Classical.byContradiction
      intro hnf
      have hc := frame_fileOp_elem o w f hf h hI kd a.rule er he (fun hfr => absurd hfr hnf)
        (cleanB_rule hclean hr)
      rw [runRule_nil_of_clean o _ _ hc] at ha
      simp at ha
  · rintro ⟨hr, _, ha⟩
    exact ⟨hr, ha⟩

/-- what a file-header rule reports after the rewriting: it looks at the rewritten file only -/
theorem runRule_header_op (o : Options) (rules : List Rule) (w : Schema) (f : File) (hf : FileAt w f)
    (h : File → File) (hI : ∀ g, (h g).isImport = g.isImport) (hclean : cleanB o rules w = true)
    (r : Rule) (hr : r ∈ rules) (er : ElemRule) (he : elemRule r = some er) :
    runRule o (plantFile f.path h w) r = (er.flagged o (h f)).map (ann r (h f)) :=
  runRule_plant_elem o w r er he f hf h hI (cleanB_rule hclean hr)

/-! ### grouping rules after rewriting one file -/

/-- key and value functions of the nine grouping rules -/
def groupKV : Rule → Option ((File → Str) × (File → Str))
  | .DIRECTORY_SAME_PACKAGE => some (fileDir, (·.pkg))
  | .PACKAGE_SAME_DIRECTORY => some ((·.pkg), fileDir)
  | .PACKAGE_SAME_CSHARP_NAMESPACE => some ((·.pkg), (optVal · 0))
  | .PACKAGE_SAME_GO_PACKAGE => some ((·.pkg), (optVal · 1))
  | .PACKAGE_SAME_JAVA_MULTIPLE_FILES => some ((·.pkg), (optVal · 2))
  | .PACKAGE_SAME_JAVA_PACKAGE => some ((·.pkg), (optVal · 3))
  | .PACKAGE_SAME_PHP_NAMESPACE => some ((·.pkg), (optVal · 4))
  | .PACKAGE_SAME_RUBY_PACKAGE => some ((·.pkg), (optVal · 5))
  | .PACKAGE_SAME_SWIFT_PREFIX => some ((·.pkg), (optVal · 6))
  | _ => none

theorem cleanRule_group (o : Options) (w : Schema) (r : Rule) (key val : File → Str)
    (hkv : groupKV r = some (key, val)) : cleanRule o w r = groupClean (nonImport w) key val := by
  cases r <;> simp only [groupKV, Option.some.injEq, Prod.mk.injEq, reduceCtorEq] at hkv <;>
    obtain ⟨rfl, rfl⟩ := hkv <;> rfl

theorem mem_nonImport_plant (w : Schema) (f : File) (hf : FileAt w f) (h : File → File)
    (hI : ∀ g, (h g).isImport = g.isImport) (g' : File) :
    g' ∈ nonImport (plantFile f.path h w) ↔ g' = h f ∨ (g' ∈ nonImport w ∧ g'.path ≠ f.path) := by
  unfold plantFile
  rw [nonImport_map _ (sel_isImport f.path h hI)]
  constructor
  · intro hm
    obtain ⟨g, hg, rfl⟩ := List.mem_map.mp hm
    unfold sel
    split
    · next hp =>
      have : g = f := hf.unique g (mem_nonImport hg).1 (by simpa using hp)
      subst this; exact Or.inl rfl
    · next hp => exact Or.inr ⟨hg, by simpa using hp⟩
  · rintro (rfl | ⟨hg, hp⟩)
    · exact List.mem_map.mpr ⟨f, hf.nonImport, by unfold sel; simp⟩
    · exact List.mem_map.mpr ⟨g', hg, by unfold sel; simp [hp]⟩

/-- a grouping rule stays Clean when the rewritten file agrees with every OTHER target file that
    (now) has its key -/
theorem groupClean_plant (w : Schema) (f : File) (hf : FileAt w f) (h : File → File)
    (hI : ∀ g, (h g).isImport = g.isImport) (key val : File → Str)
    (hc : groupClean (nonImport w) key val = true)
    (hnew : ∀ g ∈ nonImport w, g.path ≠ f.path → key g = key (h f) → val g = val (h f)) :
    groupClean (nonImport (plantFile f.path h w)) key val = true := by
  rw [groupClean_iff] at hc ⊢
  intro g1 h1 g2 h2 e
  rw [mem_nonImport_plant w f hf h hI] at h1 h2
  rcases h1 with rfl | ⟨h1, p1⟩ <;> rcases h2 with rfl | ⟨h2, p2⟩
  · rfl
  · exact (hnew g2 h2 p2 e.symm).symm
  · exact hnew g1 h1 p1 e
  · exact hc g1 h1 g2 h2 e

/-! ### STABLE_PACKAGE_NO_IMPORT_UNSTABLE after a package change -/

theorem findFile_plant (w : List File) (fp : Str) (h : File → File) (hp : ∀ g, (h g).path = g.path) (p : Str) :
    findFile (w.map (sel fp h)) p = (findFile w p).map (sel fp h) := by
  apply findFile_map
  intro g; unfold sel; split
  · exact hp g
  · rfl

/-- the file with another package statement -/
def setPkg (np : Str) (g : File) : File := { g with pkg := np }

/-- changing the package of one file to a package that is unversioned, or has the stability of
    the old one, cannot make STABLE_PACKAGE_NO_IMPORT_UNSTABLE dirty -/
theorem stable_frame_pkg (o : Options) (w : Schema) (f : File) (hf : FileAt w f) (np : Str)
    (hst : isStable np = none ∨ isStable np = isStable f.pkg)
    (hc : cleanRule o w .STABLE_PACKAGE_NO_IMPORT_UNSTABLE = true) :
    cleanRule o (plantFile f.path (setPkg np) w) .STABLE_PACKAGE_NO_IMPORT_UNSTABLE = true := by
  rw [cleanRule_global o _ _ rfl] at hc ⊢
  simp only [globalClean] at hc ⊢
  have hnil := isEmpty_eq_nil _ hc
  apply List.isEmpty_iff.mpr
  apply List.eq_nil_iff_forall_not_mem.mpr
  intro a ha
  obtain ⟨f1, hf1, hs1, i, imp, himp, g1, hg1, hus, rfl⟩ := (mem_stableNoUnstable_iff _ a).mp ha
  unfold plantFile at hf1 hg1
  rw [nonImport_map _ (sel_isImport f.path (setPkg np) (fun _ => rfl))] at hf1 hg1
  obtain ⟨f0, hf0, rfl⟩ := List.mem_map.mp hf1
  rw [findFile_plant _ f.path (setPkg np) (fun _ => rfl)] at hg1
  cases hfind : findFile (nonImport w) imp.path with
  | none => rw [hfind] at hg1; simp at hg1
  | some g0 =>
    rw [hfind] at hg1
    simp only [Option.map_some, Option.some.injEq] at hg1
    subst hg1
    have hg0 : g0 ∈ nonImport w := by
      unfold findFile at hfind
      exact List.mem_of_find?_eq_some hfind
    have key : ∀ g ∈ nonImport w, ∀ b : Bool, isStable (sel f.path (setPkg np) g).pkg = some b →
        isStable g.pkg = some b := by
      intro g hg b hb
      unfold sel at hb
      split at hb
      · next hp =>
        have : g = f := hf.unique g (mem_nonImport hg).1 (by simpa using hp)
        subst this
        simp only [setPkg] at hb
        rcases hst with h1 | h1
        · rw [h1] at hb; simp at hb
        · rw [← h1]; exact hb
      · exact hb
    have himp0 : (i, imp) ∈ indexed f0.imports := by
      unfold sel at himp
      split at himp <;> exact himp
    have : ann .STABLE_PACKAGE_NO_IMPORT_UNSTABLE f0 [3, i] ∈ stableNoUnstable w :=
      (mem_stableNoUnstable_iff w _).mpr ⟨f0, hf0, key f0 hf0 true hs1, i, imp, himp0, g0, hfind,
        key g0 hg0 false hus, rfl⟩
    rw [hnil] at this
    simp at this

/-! ### operators on the file header -/

def setPackage (fp : Str) (np : Str) : Schema → Schema := plantFile fp (setPkg np)

/-- set language option number `k` (0 csharp_namespace, 1 go_package, 2 java_multiple_files,
    3 java_package, 4 php_namespace, 5 ruby_package, 6 swift_prefix) -/
def setOpt (k : Nat) (v : Option Str) (g : File) : File := { g with langOpts := g.langOpts.set k v }
/-- `v` is the RAW option statement: `none` removes it, `some x` writes `option <name> = x;`
    (`some []` = explicitly the empty string, `some "false"` = explicit `java_multiple_files = false`) -/
def setLangOpt (fp : Str) (k : Nat) (v : Option Str) : Schema → Schema := plantFile fp (setOpt k v)

theorem keepsDecls_setPkg (np : Str) : KeepsDecls (setPkg np) := ⟨fun _ => rfl, fun _ => rfl, fun _ => rfl, fun _ => rfl⟩
theorem keepsDecls_setOpt (k : Nat) (v : Option Str) : KeepsDecls (setOpt k v) :=
  ⟨fun _ => rfl, fun _ => rfl, fun _ => rfl, fun _ => rfl⟩

theorem optRaw_setOpt_ne (k i : Nat) (v : Option Str) (g : File) (h : i ≠ k) : optRaw (setOpt k v g) i = optRaw g i := by
  unfold optRaw setOpt
  simp only [List.getD_eq_getElem?_getD]
  rw [List.getElem?_set_ne (Ne.symm h)]

theorem optRaw_setOpt_eq (k : Nat) (v : Option Str) (g : File) (h : k < g.langOpts.length) : optRaw (setOpt k v g) k = v := by
  unfold optRaw setOpt
  simp only [List.getD_eq_getElem?_getD]
  rw [List.getElem?_set_self h]
  rfl

theorem optVal_setOpt_ne (k i : Nat) (v : Option Str) (g : File) (h : i ≠ k) : optVal (setOpt k v g) i = optVal g i := by
  unfold optVal; rw [optRaw_setOpt_ne k i v g h]

theorem optVal_setOpt_eq (k : Nat) (v : Option Str) (g : File) (h : k < g.langOpts.length) :
    optVal (setOpt k v g) k = v.getD [] := by
  unfold optVal; rw [optRaw_setOpt_eq k v g h]

/-- RPC_REQUEST_RESPONSE_UNIQUE cannot see a header rewriting that keeps path and declarations -/
theorem rpcUnique_frame_header (o : Options) (w : Schema) (fp : Str) (h : File → File)
    (hI : ∀ g, (h g).isImport = g.isImport) (kd : KeepsDecls h) (hp : ∀ g, (h g).path = g.path)
    (hc : cleanRule o w .RPC_REQUEST_RESPONSE_UNIQUE = true) :
    cleanRule o (plantFile fp h w) .RPC_REQUEST_RESPONSE_UNIQUE = true := by
  rw [cleanRule_global o _ _ rfl] at hc ⊢
  simp only [globalClean, rpcUnique] at hc ⊢
  rw [rpcTable_plant w fp h hI (fun g _ _ => fileRpcRows_of_keeps h kd hp g)]
  exact hc

/-! ### moving / renaming a file -/

def setPath (np : Str) (g : File) : File := { g with path := np }

/-- give the file `fp` the path `np` (a file that no other file imports) -/
def moveFile (fp : Str) (np : Str) : Schema → Schema := plantFile fp (setPath np)

theorem keepsDecls_setPath (np : Str) : KeepsDecls (setPath np) :=
  ⟨fun _ => rfl, fun _ => rfl, fun _ => rfl, fun _ => rfl⟩

theorem usesType_congr (t : Str) (x y : RpcRow) (hi : y.inType = x.inType) (ho : y.outType = x.outType) :
    usesType t y = usesType t x := by
  unfold usesType; rw [hi, ho]

theorem filter_length_map {α} (l : List α) (ρ : α → α) (p : α → Bool) (h : ∀ x, p (ρ x) = p x) :
    ((l.map ρ).filter p).length = (l.filter p).length := by
  rw [filter_map_comm, List.length_map]
  congr 1
  apply List.filter_congr
  intro x _
  exact h x

theorem rpcViolation_map (o : Options) (ms : List RpcRow) (ρ : RpcRow → RpcRow)
    (hi : ∀ x, (ρ x).inType = x.inType) (ho : ∀ x, (ρ x).outType = x.outType) (x : RpcRow) :
    RpcViolation o (ms.map ρ) (ρ x) ↔ RpcViolation o ms x := by
  unfold RpcViolation
  simp only [hi, ho, usesType_congr _ x (ρ x) (hi x) (ho x),
    filter_length_map ms ρ _ (fun y => usesType_congr _ y (ρ y) (hi y) (ho y)),
    filter_length_map ms ρ (fun y => y.inType == emptyType) (fun y => by simp only [hi]),
    filter_length_map ms ρ (fun y => y.outType == emptyType) (fun y => by simp only [ho])]

/-- RPC_REQUEST_RESPONSE_UNIQUE does not look at where a method is declared -/
theorem rpcUniqueT_nil_map (o : Options) (ms : List RpcRow) (ρ : RpcRow → RpcRow)
    (hi : ∀ x, (ρ x).inType = x.inType) (ho : ∀ x, (ρ x).outType = x.outType)
    (h : rpcUniqueT o ms = []) : rpcUniqueT o (ms.map ρ) = [] := by
  apply List.eq_nil_iff_forall_not_mem.mpr
  intro a ha
  obtain ⟨x', hx', _, hv⟩ := (mem_rpcUniqueT_iff o _ a).mp ha
  obtain ⟨x, hx, rfl⟩ := List.mem_map.mp hx'
  have : x.ann ∈ rpcUniqueT o ms :=
    (mem_rpcUniqueT_iff o ms _).mpr ⟨x, hx, rfl, (rpcViolation_map o ms ρ hi ho x).mp hv⟩
  rw [h] at this
  simp at this

theorem rpcTable_setPath (w : Schema) (f : File) (np : Str) :
    rpcTable (moveFile f.path np w) =
      (rpcTable w).map (fun x => if x.file = f.path then { x with file := np } else x) := by
  rw [rpcTable_eq, rpcTable_eq]
  unfold moveFile plantFile
  rw [nonImport_map _ (sel_isImport f.path (setPath np) (fun _ => rfl)), flatMap_map_left, map_flatMap_right]
  apply flatMap_congr_mem
  intro g' _
  unfold sel
  split
  · next hp =>
    have hp' : g'.path = f.path := by simpa using hp
    unfold fileRpcRows
    rw [(keepsDecls_setPath np).fileRpcs, List.map_map]
    apply List.map_congr_left
    intro x _
    simp only [Function.comp, hp', if_true, setPath]
  · next hp =>
    have hp' : g'.path ≠ f.path := by simpa using hp
    unfold fileRpcRows
    rw [List.map_map]
    apply List.map_congr_left
    intro x _
    simp only [Function.comp, hp', if_false]

theorem rpcUnique_frame_setPath (o : Options) (w : Schema) (f : File) (np : Str)
    (hc : cleanRule o w .RPC_REQUEST_RESPONSE_UNIQUE = true) :
    cleanRule o (moveFile f.path np w) .RPC_REQUEST_RESPONSE_UNIQUE = true := by
  rw [cleanRule_global o _ _ rfl] at hc ⊢
  simp only [globalClean, rpcUnique] at hc ⊢
  rw [rpcTable_setPath w f np]
  apply List.isEmpty_iff.mpr
  apply rpcUniqueT_nil_map o _ _ _ _ (isEmpty_eq_nil _ hc)
  · intro x; split <;> rfl
  · intro x; split <;> rfl

/-- lookups of paths other than the old and the new one are not affected by the move -/
theorem findFile_setPath (fp np p : Str) (h1 : p ≠ fp) (h2 : p ≠ np) : ∀ l : List File,
    findFile (l.map (sel fp (setPath np))) p = (findFile l p).map (sel fp (setPath np))
  | [] => rfl
  | a :: t => by
    unfold findFile
    simp only [List.map_cons, List.find?_cons]
    have : ((sel fp (setPath np) a).path == p) = (a.path == p) := by
      unfold sel
      split
      · next hp =>
        have hp' : a.path = fp := by simpa using hp
        simp only [setPath]
        have e1 : (np == p) = false := by simpa using fun e => h2 e.symm
        have e2 : (a.path == p) = false := by rw [hp']; simpa using fun e => h1 e.symm
        rw [e1, e2]
      · rfl
    rw [this]
    split
    · rfl
    · exact findFile_setPath fp np p h1 h2 t

/-- STABLE_PACKAGE_NO_IMPORT_UNSTABLE cannot see the move of a file that nobody imports -/
theorem stable_frame_setPath (o : Options) (w : Schema) (f : File) (np : Str)
    (hnoimp : ∀ g ∈ w, ∀ imp ∈ g.imports, imp.path ≠ f.path ∧ imp.path ≠ np)
    (hc : cleanRule o w .STABLE_PACKAGE_NO_IMPORT_UNSTABLE = true) :
    cleanRule o (moveFile f.path np w) .STABLE_PACKAGE_NO_IMPORT_UNSTABLE = true := by
  rw [cleanRule_global o _ _ rfl] at hc ⊢
  simp only [globalClean] at hc ⊢
  have hnil := isEmpty_eq_nil _ hc
  apply List.isEmpty_iff.mpr
  apply List.eq_nil_iff_forall_not_mem.mpr
  intro a ha
  obtain ⟨f1, hf1, hs1, i, imp, himp, g1, hg1, hus, rfl⟩ := (mem_stableNoUnstable_iff _ a).mp ha
  unfold moveFile plantFile at hf1 hg1
  rw [nonImport_map _ (sel_isImport f.path (setPath np) (fun _ => rfl))] at hf1 hg1
  obtain ⟨f0, hf0, rfl⟩ := List.mem_map.mp hf1
  have hpkg : ∀ g : File, (sel f.path (setPath np) g).pkg = g.pkg := by
    intro g; unfold sel; split <;> rfl
  have himp0 : (i, imp) ∈ indexed f0.imports := by
    unfold sel at himp
    split at himp <;> exact himp
  have hne := hnoimp f0 (mem_nonImport hf0).1 imp (mem_indexFrom_val 0 _ _ himp0)
  rw [findFile_setPath f.path np imp.path hne.1 hne.2] at hg1
  cases hfind : findFile (nonImport w) imp.path with
  | none => rw [hfind] at hg1; simp at hg1
  | some g0 =>
    rw [hfind] at hg1
    simp only [Option.map_some, Option.some.injEq] at hg1
    subst hg1
    rw [hpkg] at hs1 hus
    have : ann .STABLE_PACKAGE_NO_IMPORT_UNSTABLE f0 [3, i] ∈ stableNoUnstable w :=
      (mem_stableNoUnstable_iff w _).mpr ⟨f0, hf0, hs1, i, imp, himp0, g0, hfind, hus, rfl⟩
    rw [hnil] at this
    simp at this

/-! ### PACKAGE_NO_IMPORT_CYCLE cannot see the move of a file that nobody imports -/

/-- unfolding of `importCycle` (no independent specification: `reaches` is the coded search) -/
theorem mem_importCycle_iff (w : Schema) (a : Annotation) :
    a ∈ importCycle w ↔ ∃ f ∈ nonImport w, f.pkg.isEmpty = false ∧
      ∃ i imp, (i, imp) ∈ indexed f.imports ∧ ∃ g, findFile w imp.path = some g ∧
        (g.pkg == f.pkg || g.pkg.isEmpty) = false ∧
        reaches w f.pkg (w.length + 1) [f.pkg] g.pkg = true ∧ a = ann .PACKAGE_NO_IMPORT_CYCLE f [3, i] := by
  unfold importCycle
  constructor
  · intro h
    obtain ⟨f, hf, ha⟩ := List.mem_flatMap.mp h
    split at ha
    · simp at ha
    · next hpk =>
      obtain ⟨⟨i, imp⟩, himp, hx⟩ := List.mem_flatMap.mp ha
      simp only at hx
      split at hx
      · simp at hx
      · next g hg =>
        split at hx
        · simp at hx
        · next hne =>
          split at hx
          · next hre =>
            simp only [List.mem_singleton] at hx
            exact ⟨f, hf, by simpa using hpk, i, imp, himp, g, hg, by simpa using hne, hre, hx⟩
          · simp at hx
  · rintro ⟨f, hf, hpk, i, imp, himp, g, hg, hne, hre, rfl⟩
    apply List.mem_flatMap.mpr
    refine ⟨f, hf, ?_⟩
    rw [if_neg (by simp [hpk])]
    apply List.mem_flatMap.mpr
    refine ⟨(i, imp), himp, ?_⟩
    simp only [hg]
    rw [if_neg (by simp [hne]), if_pos hre]
    simp

theorem sel_setPath_pkg (fp np : Str) (g : File) : (sel fp (setPath np) g).pkg = g.pkg := by
  unfold sel; split <;> rfl
theorem sel_setPath_imports (fp np : Str) (g : File) : (sel fp (setPath np) g).imports = g.imports := by
  unfold sel; split <;> rfl

theorem filterMap_congr_mem {α β} (l : List α) (F G : α → Option β) (h : ∀ x ∈ l, F x = G x) :
    l.filterMap F = l.filterMap G := by
  induction l with
  | nil => rfl
  | cons a t ih =>
    simp only [List.filterMap_cons, h a (by simp), ih (fun x hx => h x (by simp [hx]))]

theorem pkgEdges_move (w : Schema) (f : File) (np : Str)
    (hnoimp : ∀ g ∈ w, ∀ imp ∈ g.imports, imp.path ≠ f.path ∧ imp.path ≠ np) (pkg : Str) :
    pkgEdges (moveFile f.path np w) pkg = pkgEdges w pkg := by
  unfold pkgEdges moveFile plantFile
  congr 1
  rw [filter_map_comm, flatMap_map_left]
  have e1 : (fun x : File => (sel f.path (setPath np) x).pkg == pkg) = (fun x => x.pkg == pkg) :=
    funext fun x => by rw [sel_setPath_pkg]
  rw [e1]
  apply flatMap_congr_mem
  intro g hg
  have hgw : g ∈ w := (List.mem_filter.mp hg).1
  rw [sel_setPath_imports]
  apply filterMap_congr_mem
  intro imp himp
  have hne := hnoimp g hgw imp himp
  rw [findFile_setPath f.path np imp.path hne.1 hne.2]
  cases findFile w imp.path with
  | none => rfl
  | some g' => simp only [Option.map_some, sel_setPath_pkg]

theorem reaches_move (w : Schema) (f : File) (np : Str)
    (hnoimp : ∀ g ∈ w, ∀ imp ∈ g.imports, imp.path ≠ f.path ∧ imp.path ≠ np) (target : Str) :
    ∀ (fuel : Nat) (used : List Str) (cur : Str),
      reaches (moveFile f.path np w) target fuel used cur = reaches w target fuel used cur
  | 0, _, _ => rfl
  | fuel + 1, used, cur => by
    simp only [reaches, pkgEdges_move w f np hnoimp]
    have : (fun nxt => !nxt.isEmpty && reaches (moveFile f.path np w) target fuel (cur :: used) nxt) =
        (fun nxt => !nxt.isEmpty && reaches w target fuel (cur :: used) nxt) :=
      funext fun nxt => by rw [reaches_move w f np hnoimp target fuel (cur :: used) nxt]
    rw [this]

theorem cycle_frame_setPath (o : Options) (w : Schema) (f : File) (np : Str)
    (hnoimp : ∀ g ∈ w, ∀ imp ∈ g.imports, imp.path ≠ f.path ∧ imp.path ≠ np)
    (hc : cleanRule o w .PACKAGE_NO_IMPORT_CYCLE = true) :
    cleanRule o (moveFile f.path np w) .PACKAGE_NO_IMPORT_CYCLE = true := by
  rw [cleanRule_global o _ _ rfl] at hc ⊢
  simp only [globalClean] at hc ⊢
  have hnil := isEmpty_eq_nil _ hc
  apply List.isEmpty_iff.mpr
  apply List.eq_nil_iff_forall_not_mem.mpr
  intro a ha
  obtain ⟨f1, hf1, hpk, i, imp, himp, g1, hg1, hne, hre, rfl⟩ := (mem_importCycle_iff _ a).mp ha
  rw [reaches_move w f np hnoimp] at hre
  have hlen : (moveFile f.path np w).length = w.length := by unfold moveFile plantFile; simp
  rw [hlen] at hre
  unfold moveFile plantFile at hf1 hg1
  rw [nonImport_map _ (sel_isImport f.path (setPath np) (fun _ => rfl))] at hf1
  obtain ⟨f0, hf0, rfl⟩ := List.mem_map.mp hf1
  rw [sel_setPath_imports] at himp
  rw [sel_setPath_pkg] at hpk hne hre
  have hn := hnoimp f0 (mem_nonImport hf0).1 imp (mem_indexFrom_val 0 _ _ himp)
  rw [findFile_setPath f.path np imp.path hn.1 hn.2] at hg1
  cases hfind : findFile w imp.path with
  | none => rw [hfind] at hg1; simp at hg1
  | some g0 =>
    rw [hfind] at hg1
    simp only [Option.map_some, Option.some.injEq] at hg1
    subst hg1
    rw [sel_setPath_pkg] at hne hre
    have : ann .PACKAGE_NO_IMPORT_CYCLE f0 [3, i] ∈ importCycle w :=
      (mem_importCycle_iff w _).mpr ⟨f0, hf0, hpk, i, imp, himp, g0, hfind, hne, hre, rfl⟩
    rw [hnil] at this
    simp at this

end BufModel.Lint
