import BufProofs.Lemmas.ConfigRange
/-
  C16, migration (path level), second pass: workspace-level ownership of files before and after
  `buf config migrate`, through the v2 file the migrator writes and the v2 reader reads back.
-/
namespace BufModel.Config
open BufModel.Path

/-! ### mapping a bucket on a joined prefix = mapping twice -/

theorem stripPrefix_append (d r f : Key) :
    stripPrefix (d ++ r) f = (stripPrefix d f).bind (stripPrefix r) := by
  unfold stripPrefix
  by_cases hd : d.isPrefixOf f = true
  · obtain ⟨t, rfl⟩ := List.isPrefixOf_iff_prefix.mp hd
    rw [isPrefixOf_append_left, isPrefixOf_self_append]
    simp only [if_true, Option.bind_some, drop_append_self]
    by_cases hr : r.isPrefixOf t = true
    · simp only [hr, if_true, List.length_append]
      rw [List.drop_append]
      simp [List.drop_drop]
    · simp [hr]
  · have hdr : (d ++ r).isPrefixOf f = false := by
      cases hp : (d ++ r).isPrefixOf f with
      | false => rfl
      | true =>
        obtain ⟨t, rfl⟩ := List.isPrefixOf_iff_prefix.mp hp
        rw [List.append_assoc, isPrefixOf_self_append] at hd
        exact absurd rfl hd
    simp [hd, hdr]

theorem stripPrefix_nil (f : Key) : stripPrefix [] f = some f := by
  simp [stripPrefix]

/-! ### owners before = owners after, module by module -/

/-- One migrated root: the v2 module `dir/root` knows `f` exactly when the v1 module knew it
    through that root, under the same root-relative path. -/
theorem ownersOf_migrated_root (d : Key) (n : Str) (r : Root) (l : Lint) (b : Breaking) (f : Key) :
    ownersOf ⟨d ++ r.root, n, [⟨[], r.includes, r.excludes⟩], l, b⟩ f =
      match stripPrefix d f with
      | none => []
      | some g =>
        match stripPrefix r.root g with
        | none => []
        | some p => if rootAccepts r.includes r.excludes p then [(d ++ r.root, [], p)] else [] := by
  unfold ownersOf
  simp only [stripPrefix_append]
  cases hd : stripPrefix d f with
  | none => rfl
  | some g =>
    simp only [Option.bind_some]
    cases hr : stripPrefix r.root g with
    | none => rfl
    | some p =>
      simp only [List.filterMap_cons, List.filterMap_nil, stripPrefix_nil]
      split <;> simp_all

theorem ownersOf_migrateModule (trL : Lint → Lint) (trB : Breaking → Breaking) (m : Module) (f : Key) :
    owners (migrateModule trL trB m) f = (ownersOf m f).map migratedOwner := by
  unfold owners migrateModule
  rw [List.flatMap_map]
  simp only [ownersOf_migrated_root]
  unfold ownersOf
  cases hd : stripPrefix m.dirPath f with
  | none => simp
  | some g =>
    simp only
    generalize m.roots = rs
    induction rs with
    | nil => rfl
    | cons r rs ih =>
      simp only [List.flatMap_cons, List.filterMap_cons, ih]
      cases hr : stripPrefix r.root g with
      | none => simp
      | some p =>
        by_cases ha : rootAccepts r.includes r.excludes p = true
        · simp [ha, migratedOwner]
        · simp [ha]

/-- **Workspace level, before sorting**: for every file, the owners in the migrated module list
    are the owners in the v1 workspace, renamed (module `dir`, root `r`, path `p`) ↦
    (module `dir/r`, root ".", path `p`), in the same order.  No assumption on the workspace. -/
theorem owners_migrateWorkspace (trL : Lint → Lint) (trB : Breaking → Breaking) (ws : List Module) (f : Key) :
    owners (migrateWorkspace trL trB ws) f = (owners ws f).map migratedOwner := by
  unfold migrateWorkspace
  induction ws with
  | nil => rfl
  | cons m ms ih =>
    have h1 : owners (List.flatMap (migrateModule trL trB) (m :: ms)) f =
        owners (migrateModule trL trB m) f ++ owners (List.flatMap (migrateModule trL trB) ms) f := by
      simp [owners, List.flatMap_cons, List.flatMap_append]
    have h2 : owners (m :: ms) f = ownersOf m f ++ owners ms f := by
      simp [owners, List.flatMap_cons]
    rw [h1, h2, List.map_append, ownersOf_migrateModule, ih]

theorem owners_perm {l l' : List Module} (h : l.Perm l') (f : Key) : (owners l f).Perm (owners l' f) :=
  List.Perm.flatMap_right _ h

/-! ### the migrated file is well-formed, hence survives its own write + read -/

/-- What the v1/v1beta1 reader guarantees for a root (proved for the reader's output in
    `readV1_roots_wf` below): includes/excludes as a v2 module may carry them. -/
def WFRootsV1 (m : Module) : Prop := ∀ r ∈ m.roots, WFRootV2 r.includes r.excludes

theorem migrateModule_wf (trL : Lint → Lint) (trB : Breaking → Breaking) (m : Module)
    (hr : WFRootsV1 m) (hl : WFLint (trL m.lint)) (hb : WFBreaking (trB m.breaking)) :
    ∀ m' ∈ migrateModule trL trB m, WFModuleV2 m' := by
  intro m' hm'
  unfold migrateModule at hm'
  obtain ⟨r, hrm, rfl⟩ := List.mem_map.mp hm'
  exact ⟨⟨r.includes, r.excludes, rfl, hr r hrm⟩, hl, hb⟩

theorem migrateWorkspace_wf (trL : Lint → Lint) (trB : Breaking → Breaking) (ws : List Module)
    (hr : ∀ m ∈ ws, WFRootsV1 m) (hl : ∀ m ∈ ws, WFLint (trL m.lint))
    (hb : ∀ m ∈ ws, WFBreaking (trB m.breaking)) :
    ∀ m' ∈ migrateWorkspace trL trB ws, WFModuleV2 m' := by
  intro m' hm'
  unfold migrateWorkspace at hm'
  obtain ⟨m, hm, hmm⟩ := List.mem_flatMap.mp hm'
  exact migrateModule_wf trL trB m (hr m hm) (hl m hm) (hb m hm) m' hmm

theorem migrateFile_modules_perm {trL : Lint → Lint} {trB : Breaking → Breaking} {ws : List Module}
    {deps : List Dep} {c : BufYAML} (h : migrateFile trL trB ws deps = some c) :
    c.modules.Perm (migrateWorkspace trL trB ws) := by
  unfold migrateFile newBufYAML at h
  repeat' (split at h <;> try contradiction)
  injection h with h
  subst h
  exact sortStable_perm moduleLt _

/-- **Migration preserves, for every file, who owns it and under which path — through the file
    that is actually written.**  `ws`: the module configs of the v1/v1beta1 workspace, directories
    relative to the destination directory.  If the migrator's buf.yaml v2 is `c`
    (`migrateFile … = some c`) then
      (1) `c` is read back unchanged from what the v2 writer writes (`readV2 (writeV2 c) = some c`),
          so the v2 workspace code sees exactly `c.modules`;
      (2) for every workspace file `f`, the owner triples computed by the (shared) workspace
          targeting on `c.modules` are, up to order, those computed on the v1 workspace, renamed
          (dir, root, p) ↦ (dir/root, ".", p).
    Assumed (`hr`, `hl`, `hb`): the roots are as the v1 reader produces them (`readV1_roots_wf`),
    and the translated lint/breaking configs are well-formed (the translation itself is not
    modelled). -/
theorem migrate_workspace_owners (trL : Lint → Lint) (trB : Breaking → Breaking) (ws : List Module)
    (deps : List Dep) (c : BufYAML)
    (hr : ∀ m ∈ ws, WFRootsV1 m) (hl : ∀ m ∈ ws, WFLint (trL m.lint))
    (hb : ∀ m ∈ ws, WFBreaking (trB m.breaking))
    (h : migrateFile trL trB ws deps = some c) :
    readV2 (writeV2 c) = some c ∧
      ∀ f, (owners c.modules f).Perm ((owners ws f).map migratedOwner) := by
  have hwf : WFFileV2 c :=
    newBufYAML_wf _ [] deps c (migrateWorkspace_wf trL trB ws hr hl hb) (by intro p hp; cases hp) h
  refine ⟨readV2_writeV2 c hwf, fun f => ?_⟩
  rw [← owners_migrateWorkspace trL trB ws f]
  exact owners_perm (migrateFile_modules_perm h) f

/-! ### the "switched off" flag of lint / breaking survives the migration (after the fix) -/

theorem equivCheck_disabled (tr : Check → Check) (htr : ∀ x, x.disabled = false → (tr x).disabled = false)
    (c : Check) : (equivCheck tr c).disabled = c.disabled := by
  unfold equivCheck
  cases hd : c.disabled with
  | true => simp [Check.disabledCfg]
  | false => simpa using htr c hd

theorem equivCheck_wf (tr : Check → Check) (c : Check)
    (h : c.disabled = false → WFCheck (tr c)) : WFCheck (equivCheck tr c) := by
  unfold equivCheck
  cases hd : c.disabled with
  | true => simpa using wfCheck_disabled
  | false => simpa using h hd

/-- The flags of a migrated module: (directory, lint switched off, breaking switched off). -/
def offFlags (m : Module) : Key × Bool × Bool := (m.dirPath, m.lint.chk.disabled, m.breaking.chk.disabled)

theorem mem_migrateWorkspace {trL : Lint → Lint} {trB : Breaking → Breaking} {ws : List Module} {m' : Module} :
    m' ∈ migrateWorkspace trL trB ws ↔
      ∃ m ∈ ws, ∃ r ∈ m.roots,
        m' = ⟨m.dirPath ++ r.root, if m.roots.length > 1 then [] else m.name,
              [⟨[], r.includes, r.excludes⟩], trL m.lint, trB m.breaking⟩ := by
  unfold migrateWorkspace migrateModule
  constructor
  · intro h
    obtain ⟨m, hm, hmm⟩ := List.mem_flatMap.mp h
    obtain ⟨r, hr, rfl⟩ := List.mem_map.mp hmm
    exact ⟨m, hm, r, hr, rfl⟩
  · rintro ⟨m, hm, r, hr, rfl⟩
    exact List.mem_flatMap.mpr ⟨m, hm, List.mem_map.mpr ⟨r, hr, rfl⟩⟩

/-- Through the written file: the v2 file the (fixed) migrator builds is read back unchanged, and
    its modules are exactly the (module, root) pairs of the v1 workspace, each with the SAME
    lint-off and breaking-off flags as the v1 module it came from. -/
theorem migrate_workspace_disabled (trL trB : Check → Check) (ws : List Module) (deps : List Dep) (c : BufYAML)
    (hL : ∀ x, x.disabled = false → (trL x).disabled = false)
    (hB : ∀ x, x.disabled = false → (trB x).disabled = false)
    (hr : ∀ m ∈ ws, WFRootsV1 m)
    (hl : ∀ m ∈ ws, m.lint.chk.disabled = false → WFCheck (trL m.lint.chk))
    (hb : ∀ m ∈ ws, m.breaking.chk.disabled = false → WFCheck (trB m.breaking.chk))
    (h : migrateFile (equivLint trL) (equivBreaking trB) ws deps = some c) :
    readV2 (writeV2 c) = some c ∧
      (∀ m' ∈ c.modules, ∃ m ∈ ws, ∃ r ∈ m.roots,
          offFlags m' = (m.dirPath ++ r.root, m.lint.chk.disabled, m.breaking.chk.disabled)) ∧
      (∀ m ∈ ws, ∀ r ∈ m.roots, ∃ m' ∈ c.modules,
          offFlags m' = (m.dirPath ++ r.root, m.lint.chk.disabled, m.breaking.chk.disabled)) := by
  have hrt := (migrate_workspace_owners (equivLint trL) (equivBreaking trB) ws deps c hr
    (fun m hm => equivCheck_wf trL m.lint.chk (hl m hm))
    (fun m hm => equivCheck_wf trB m.breaking.chk (hb m hm)) h).1
  have hp := migrateFile_modules_perm h
  refine ⟨hrt, ?_, ?_⟩
  · intro m' hm'
    obtain ⟨m, hm, r, hrm, rfl⟩ := mem_migrateWorkspace.mp (hp.mem_iff.mp hm')
    refine ⟨m, hm, r, hrm, ?_⟩
    simp only [offFlags, equivLint, equivBreaking, equivCheck_disabled trL hL, equivCheck_disabled trB hB]
  · intro m hm r hrm
    refine ⟨_, hp.mem_iff.mpr (mem_migrateWorkspace.mpr ⟨m, hm, r, hrm, rfl⟩), ?_⟩
    simp only [offFlags, equivLint, equivBreaking, equivCheck_disabled trL hL, equivCheck_disabled trB hB]

/-! ### at most one owner when directories and roots do not nest -/

theorem stripPrefix_some {d f p : Key} (h : stripPrefix d f = some p) : f = d ++ p := by
  unfold stripPrefix at h
  split at h
  · rename_i hp
    injection h with h
    obtain ⟨t, rfl⟩ := List.isPrefixOf_iff_prefix.mp hp
    simp at h; rw [h]
  · cases h

theorem mem_ownersOf {m : Module} {f : Key} {o : Key × Key × Key} (h : o ∈ ownersOf m f) :
    o.1 = m.dirPath ∧ (∃ r ∈ m.roots, r.root = o.2.1 ∧ rootAccepts r.includes r.excludes o.2.2 = true) ∧
      f = o.1 ++ o.2.1 ++ o.2.2 := by
  unfold ownersOf at h
  cases hd : stripPrefix m.dirPath f with
  | none => simp [hd] at h
  | some g =>
    simp only [hd, List.mem_filterMap] at h
    obtain ⟨r, hr, hro⟩ := h
    cases hp : stripPrefix r.root g with
    | none => simp [hp] at hro
    | some p =>
      simp only [hp] at hro
      split at hro
      · rename_i hacc
        injection hro with hro
        subst hro
        refine ⟨rfl, ⟨r, hr, rfl, hacc⟩, ?_⟩
        rw [stripPrefix_some hd, stripPrefix_some hp, List.append_assoc]
      · cases hro

/-- A file is never attributed to a path outside its owner: the owner triple spells the file. -/
theorem owners_spell {ms : List Module} {f : Key} {o : Key × Key × Key} (h : o ∈ owners ms f) :
    f = o.1 ++ o.2.1 ++ o.2.2 ∧ ∃ m ∈ ms, m.dirPath = o.1 := by
  unfold owners at h
  obtain ⟨m, hm, hmo⟩ := List.mem_flatMap.mp h
  obtain ⟨h1, _, h3⟩ := mem_ownersOf hmo
  exact ⟨h3, m, hm, h1.symm⟩

/-! ### what the v1beta1 / v1 reader guarantees for roots and excludes -/

theorem assignExcludes_mem (rs : List Key) : ∀ (es : List Key) (as : List (Key × Key)),
    assignExcludes rs es = some as →
      ∀ a ∈ as, a.1 ∈ rs ∧ ∃ e ∈ es, a.1.isPrefixOf e = true ∧ a.2 = e.drop a.1.length := by
  intro es
  induction es with
  | nil => intro as h; simp [assignExcludes] at h; subst h; simp
  | cons e rest ih =>
    intro as h
    unfold assignExcludes at h
    split at h
    · rename_i r out hmr hout
      injection h with h
      subst h
      intro a ha
      rcases List.mem_cons.mp ha with ha | ha
      · subst ha
        have hr : r ∈ matchingRoots rs e := by rw [hmr]; simp
        unfold matchingRoots at hr
        obtain ⟨h1, h2⟩ := List.mem_filter.mp hr
        exact ⟨h1, e, by simp, h2, rfl⟩
      · obtain ⟨h1, e', he', h2⟩ := ih out hout a ha
        exact ⟨h1, e', List.mem_cons_of_mem _ he', h2⟩
    · cases h

theorem wfRootV2_nil_of (excl : List Key) (hw : WFKeys excl)
    (hok : ∀ x ∈ excl, x ≠ [] ∧ protoExt x = false) : WFRootV2 [] excl :=
  { wi := ⟨(by simp [Sorted]), (by simp [antichain])⟩
    iok := fun i hi => nomatch hi
    we := hw
    eok := hok
    inter := fun h => absurd rfl h }

theorem getRootToExcludes_wf {roots excludes : List P} {rte : List (Key × List Key)}
    (h : getRootToExcludes roots excludes = some rte) :
    ∀ re ∈ rte, WFRootV2 [] (sortU keyLt re.2) := by
  unfold getRootToExcludes at h
  split at h
  · cases h
  · rename_i rs hrs
    split at h
    · injection h with h
      subst h
      intro re hre
      obtain ⟨r, _, rfl⟩ := List.mem_map.mp hre
      exact wfRootV2_nil_of _ ⟨by simp [sortU, Sorted], by simp [sortU, antichain]⟩ (by intro x hx; simp [sortU] at hx)
    · split at h
      · cases h
      · rename_i es hes
        obtain ⟨ks, hka, hesk⟩ := normCheckPaths_some hes
        have hesAnti : antichain es = true := by rw [hesk]; exact antichain_sortU ks hka
        split at h
        · cases h
        · rename_i hproto
          split at h
          · cases h
          · rename_i hinroots
            split at h
            · cases h
            · rename_i as has
              injection h with h
              subst h
              intro re hre
              obtain ⟨r, hr, rfl⟩ := List.mem_map.mp hre
              simp only
              -- the root-relative excludes of root r
              have hX : ∀ x ∈ (as.filter fun a => a.1 = r).map (·.2), r ++ x ∈ es ∧ x ≠ [] := by
                intro x hx
                obtain ⟨a, ha, rfl⟩ := List.mem_map.mp hx
                obtain ⟨ha1, ha2⟩ := List.mem_filter.mp ha
                have har : a.1 = r := by simpa using ha2
                obtain ⟨harr, e, he, hpre, hdrop⟩ := assignExcludes_mem rs es as has a ha1
                obtain ⟨t, rfl⟩ := List.isPrefixOf_iff_prefix.mp hpre
                have hat : a.2 = t := by simpa using hdrop
                rw [hat, ← har]
                refine ⟨he, ?_⟩
                intro ht
                subst ht
                have : (es.any fun e => rs.contains e) = true :=
                  List.any_eq_true.mpr ⟨a.1, by simpa using he, by simpa using harr⟩
                exact hinroots this
              have hs1 : Sorted keyLt (sortU keyLt ((as.filter fun a => a.1 = r).map (·.2))) :=
                sorted_sortU keyLt_total.trans _
              rw [sortU_eq_self _ hs1]
              have hmem : ∀ x ∈ sortU keyLt ((as.filter fun a => a.1 = r).map (·.2)), r ++ x ∈ es ∧ x ≠ [] :=
                fun x hx => hX x (mem_sortU_imp _ _ _ hx)
              refine wfRootV2_nil_of _ ⟨hs1, ?_⟩ ?_
              · rw [← antichain_map_append r]
                refine antichain_of_mem_subset es _ ?_ ?_ hesAnti
                · have hnd := sorted_nodup keyLt_total.irrefl _ hs1
                  unfold List.Nodup at hnd ⊢
                  rw [List.pairwise_map]
                  exact hnd.imp (fun hab e => hab (List.append_cancel_left e))
                · intro z hz
                  obtain ⟨x, hx, rfl⟩ := List.mem_map.mp hz
                  exact (hmem x hx).1
              · intro x hx
                obtain ⟨hin, hne⟩ := hmem x hx
                refine ⟨hne, ?_⟩
                have hp : protoExt (r ++ x) = false := by
                  have := List.any_eq_false.mp (by simpa using hproto) (r ++ x) hin
                  simpa using this
                rw [protoExt_append r x hne] at hp
                exact hp

/-- Every module configuration the v1beta1 / v1 reader produces has roots whose excludes are a
    sorted antichain of non-empty, non-`.proto` root-relative paths (and no includes): exactly what
    `migrate_workspace_owners` assumes about the workspace. -/
theorem readV1_roots_wf {ver : Ver} {e : ExtV1} {c : BufYAML} (h : readV1 ver e = some c) :
    ∀ m ∈ c.modules, WFRootsV1 m := by
  unfold readV1 at h
  split at h
  · cases h
  · split at h
    · rename_i name rte deps lint brk hn hrte hd hl hb
      unfold newBufYAML at h
      repeat' (split at h <;> try contradiction)
      injection h with h
      subst h
      intro m hm
      have hm' : m ∈ [(⟨[], name, rte.map fun (r, ex) => ⟨r, [], sortU keyLt ex⟩, lint, brk⟩ : Module)] :=
        (mem_sortStable moduleLt _ _).mp hm
      simp only [List.mem_singleton] at hm'
      subst hm'
      intro r hr
      obtain ⟨re, hre, rfl⟩ := List.mem_map.mp hr
      exact getRootToExcludes_wf hrte re hre
    · cases h

end BufModel.Config
