import BufModel.ManagedYaml
import BufProofs.Lemmas.ConfigGenLemmas
/-
  Lemmas about the v1 `managed:` reader (`BufModel.ConfigGen.readManagedV1`) used by the C18
  theorems on the config-key family: which disable / override rules a document produces, section
  by section, and the injectivity of the mark-sweeper's path key.
-/
namespace BufProofs.ManagedYamlLemmas
open BufModel.ConfigGen BufModel.ManagedYaml

/-! ## the mark-sweeper's key -/

theorem pathKey_injective : ∀ (p q : List Nat), (∀ e ∈ p, e < 4294967296) → (∀ e ∈ q, e < 4294967296) →
    pathKey p = pathKey q → p = q := by
  intro p
  induction p with
  | nil =>
    intro q _ _ h
    cases q with
    | nil => rfl
    | cons b bs => simp [pathKey] at h
  | cons a as ih =>
    intro q hp hq h
    cases q with
    | nil => simp [pathKey] at h
    | cons b bs =>
      simp only [pathKey, List.cons.injEq] at h
      obtain ⟨h0, h1, h2, h3, ht⟩ := h
      have ha : a < 4294967296 := hp a (List.mem_cons_self ..)
      have hb : b < 4294967296 := hq b (List.mem_cons_self ..)
      have hab : a = b := by omega
      have := ih bs (fun e he => hp e (List.mem_cons_of_mem _ he)) (fun e he => hq e (List.mem_cons_of_mem _ he)) ht
      rw [hab, this]

/-! ## `except` → disable rules -/

/-- the disable rule `disablesAndOverridesFromExceptAndOverrideV1` makes for one excepted module. -/
def exceptRule (fo : FileOption) (n : Str) : Disable :=
  { path := [], module := n, field := [], fileOption := some fo, fieldOption := none }

theorem mkDisable_except {env : Env} {n : Str} {fo : FileOption} {d : Disable}
    (h : mkDisable env [] n [] (some fo) none = some d) : d = exceptRule fo n := by
  unfold mkDisable at h
  split at h
  · contradiction
  · split at h
    · contradiction
    · split at h
      · contradiction
      · split at h
        · contradiction
        · split at h
          · contradiction
          · injection h with h; exact h.symm

theorem exceptDisables_eq {env : Env} {fo : FileOption} :
    ∀ {ns seen : List Str} {ds : List Disable}, exceptDisables env fo ns seen = some ds →
      ds = ns.map (exceptRule fo) := by
  intro ns
  induction ns with
  | nil => intro seen ds h; simp [exceptDisables] at h; subst h; rfl
  | cons n ns ih =>
    intro seen ds h
    unfold exceptDisables at h
    split at h
    · contradiction
    · split at h
      · contradiction
      · obtain ⟨d, ds', hd, hds, rfl⟩ := optCons_some h
        rw [mkDisable_except hd, ih hds]; rfl

theorem isEmpty_except {mode : DefaultMode} {p : ExtPrefixV1} (h : p.isEmpty mode = true) :
    p.except = [] ∧ p.override = [] := by
  unfold ExtPrefixV1.isEmpty at h
  simp only [Bool.and_eq_true, decide_eq_true_eq] at h
  exact ⟨h.1.2, h.2⟩

/-! ## `override` → module-scoped override rules -/

/-- what a rule made for an entry `module ↦ value` of an `override` map looks like. -/
def IsModuleRule (fo : FileOption) (kv : Str × Str) (o : Override) : Prop :=
  o.path = [] ∧ o.module = kv.1 ∧ o.field = [] ∧ o.fileOption = some fo ∧ o.fieldOption = none ∧
    parseFileValue fo (.str kv.2) = some o.value

theorem mkFileOverride_fields {env : Env} {path module : Str} {fo : FileOption} {v : ExtVal} {o : Override}
    (h : mkFileOverride env path module fo v = some o) :
    o.path = path ∧ o.module = module ∧ o.field = [] ∧ o.fileOption = some fo ∧ o.fieldOption = none ∧
      parseFileValue fo v = some o.value := by
  unfold mkFileOverride at h
  split at h
  · contradiction
  · rename_i pv hpv
    split at h
    · contradiction
    · split at h
      · contradiction
      · injection h with h; subst h; exact ⟨rfl, rfl, rfl, rfl, rfl, hpv⟩

theorem moduleOverrides_spec {env : Env} {fo : FileOption} {except : List Str} :
    ∀ {l : List (Str × Str)} {os : List Override}, moduleOverrides env fo except l = some os →
      (∀ kv ∈ l, ∃ o ∈ os, IsModuleRule fo kv o) ∧ (∀ o ∈ os, ∃ kv ∈ l, IsModuleRule fo kv o) := by
  intro l
  induction l with
  | nil => intro os h; simp [moduleOverrides] at h; subst h; simp
  | cons kv rest ih =>
    intro os h
    obtain ⟨k, v⟩ := kv
    unfold moduleOverrides at h
    split at h
    · contradiction
    · split at h
      · contradiction
      · obtain ⟨o, os', ho, hos, rfl⟩ := optCons_some h
        have hf := mkFileOverride_fields ho
        have hr : IsModuleRule fo (k, v) o := ⟨hf.1, hf.2.1, hf.2.2.1, hf.2.2.2.1, hf.2.2.2.2.1, hf.2.2.2.2.2⟩
        obtain ⟨i1, i2⟩ := ih hos
        constructor
        · intro kv hkv
          rcases List.mem_cons.mp hkv with e | e
          · subst e; exact ⟨o, List.mem_cons_self .., hr⟩
          · obtain ⟨o', ho', hr'⟩ := i1 kv e
            exact ⟨o', List.mem_cons_of_mem _ ho', hr'⟩
        · intro o' ho'
          rcases List.mem_cons.mp ho' with e | e
          · subst e; exact ⟨(k, v), List.mem_cons_self .., hr⟩
          · obtain ⟨kv, hkv, hr'⟩ := i2 o' e
            exact ⟨kv, List.mem_cons_of_mem _ hkv, hr'⟩

theorem mem_insertByKey {α : Type} (x : Str × α) : ∀ (l : List (Str × α)) (a : Str × α),
    a ∈ insertByKey x l ↔ a = x ∨ a ∈ l := by
  intro l
  induction l with
  | nil => intro a; simp [insertByKey]
  | cons y ys ih =>
    intro a
    unfold insertByKey
    split
    · simp
    · simp only [List.mem_cons, ih a]
      constructor
      · rintro (h | h | h)
        · exact Or.inr (Or.inl h)
        · exact Or.inl h
        · exact Or.inr (Or.inr h)
      · rintro (h | h | h)
        · exact Or.inr (Or.inl h)
        · exact Or.inl h
        · exact Or.inr (Or.inr h)

theorem mem_sortByKey {α : Type} : ∀ (l : List (Str × α)) (a : Str × α), a ∈ sortByKey l ↔ a ∈ l := by
  intro l
  induction l with
  | nil => intro a; simp [sortByKey]
  | cons x xs ih =>
    intro a
    have : sortByKey (x :: xs) = insertByKey x (sortByKey xs) := rfl
    rw [this, mem_insertByKey, ih a]; simp

/-- the rules of one section: the disables are exactly one per excepted module (in order); every
    entry of the `override` map has its module-scoped rule; every rule with a module comes from an
    entry of the map. -/
theorem prefixSection_spec {env : Env} {mode : DefaultMode} {efo ofo : FileOption} {p : ExtPrefixV1}
    {ds : List Disable} {os : List Override}
    (h : prefixSection env mode efo ofo p = some (ds, os)) :
    ds = p.except.map (exceptRule efo) ∧
    (∀ kv ∈ p.override, ∃ o ∈ os, IsModuleRule ofo kv o) ∧
    (∀ o ∈ os, (o.path = [] ∧ o.module = [] ∧ o.fileOption = some ofo ∧ o.fieldOption = none) ∨
       ∃ kv ∈ p.override, IsModuleRule ofo kv o) := by
  unfold prefixSection at h
  split at h
  · rename_i he
    injection h with h; injection h with h1 h2; subst h1; subst h2
    obtain ⟨e1, e2⟩ := isEmpty_except he
    rw [e1, e2]; simp
  · simp only at h
    split at h
    · rename_i d ds' os' hd hds hos
      injection h with h; injection h with h1 h2; subst h1; subst h2
      obtain ⟨m1, m2⟩ := moduleOverrides_spec hos
      have hdflt : ∀ o ∈ d, o.path = [] ∧ o.module = [] ∧ o.fileOption = some ofo ∧ o.fieldOption = none := by
        have single : ∀ {r : Option Override} {l : List Override},
            (r.map fun o => [o]) = some l → (∀ o, r = some o → o.path = [] ∧ o.module = [] ∧ o.fileOption = some ofo ∧ o.fieldOption = none) →
            ∀ o ∈ l, o.path = [] ∧ o.module = [] ∧ o.fileOption = some ofo ∧ o.fieldOption = none := by
          intro r l hl hr o ho
          cases r with
          | none => simp at hl
          | some o' => simp at hl; subst hl; simp at ho; subst ho; exact hr _ rfl
        have hmk : ∀ o, mkFileOverride env [] [] ofo (.str p.default) = some o →
            o.path = [] ∧ o.module = [] ∧ o.fileOption = some ofo ∧ o.fieldOption = none := by
          intro o ho
          have hf := mkFileOverride_fields ho
          exact ⟨hf.1, hf.2.1, hf.2.2.2.1, hf.2.2.2.2.1⟩
        cases mode with
        | required =>
          simp only at hd
          split at hd
          · contradiction
          · exact single hd hmk
        | optional =>
          simp only at hd
          split at hd
          · injection hd with hd; subst hd; simp
          · exact single hd hmk
        | absent =>
          simp only at hd
          injection hd with hd; subst hd; simp
      refine ⟨exceptDisables_eq hds, ?_, ?_⟩
      · intro kv hkv
        obtain ⟨o, ho, hr⟩ := m1 kv ((mem_sortByKey _ _).mpr hkv)
        exact ⟨o, List.mem_append_right _ ho, hr⟩
      · intro o ho
        rcases List.mem_append.mp ho with ho | ho
        · exact Or.inl (hdflt o ho)
        · obtain ⟨kv, hkv, hr⟩ := m2 o ho
          exact Or.inr ⟨kv, (mem_sortByKey _ _).mp hkv, hr⟩
    · contradiction

/-! ## the other override sources carry no module -/

theorem boolOverride_unscoped {env : Env} {fo : FileOption} {b : Option Bool} {l : List Override}
    (h : boolOverride env fo b = some l) :
    ∀ o ∈ l, o.path = [] ∧ o.module = [] ∧ o.fileOption = some fo ∧ o.fieldOption = none := by
  cases b with
  | none => simp [boolOverride] at h; subst h; simp
  | some b =>
    simp only [boolOverride] at h
    cases hm : mkFileOverride env [] [] fo (.bool b) with
    | none => rw [hm] at h; simp at h
    | some o' =>
      rw [hm] at h; simp at h; subst h
      intro o ho; simp at ho; subst ho
      have hf := mkFileOverride_fields hm
      exact ⟨hf.1, hf.2.1, hf.2.2.2.1, hf.2.2.2.2.1⟩

theorem perFileInner_module {env : Env} {fo : FileOption} :
    ∀ {l : List (Str × Str)} {os : List Override}, perFileInner env fo l = some os →
      ∀ o ∈ os, o.module = [] := by
  intro l
  induction l with
  | nil => intro os h; simp [perFileInner] at h; subst h; simp
  | cons kv rest ih =>
    intro os h
    obtain ⟨k, v⟩ := kv
    unfold perFileInner at h
    split at h
    · contradiction
    · simp only at h
      split at h
      · contradiction
      · obtain ⟨o, os', ho, hos, rfl⟩ := optCons_some h
        intro o' ho'
        rcases List.mem_cons.mp ho' with e | e
        · subst e; exact (mkFileOverride_fields ho).2.1
        · exact ih hos o' e

theorem perFileOverrides_module {env : Env} :
    ∀ {l : List (Str × List (Str × Str))} {os : List Override},
      perFileOverrides env l = some os → ∀ o ∈ os, o.module = [] := by
  intro l
  induction l with
  | nil => intro os h; simp [perFileOverrides] at h; subst h; simp
  | cons kv rest ih =>
    intro os h
    obtain ⟨k, m⟩ := kv
    unfold perFileOverrides at h
    split at h
    · contradiction
    · split at h
      · rename_i a b ha hb
        injection h with h; subst h
        intro o ho
        rcases List.mem_append.mp ho with e | e
        · exact perFileInner_module ha o e
        · exact ih hb o e
      · contradiction

/-! ## the whole v1 reader -/

/-- The disable rules of a v1 document: for each of the six sections, in order, one rule per
    excepted module naming the section's `exceptOption`; nothing else. -/
theorem readManagedV1_disables {env : Env} {x : ExtManagedV1} {m : Managed}
    (h : readManagedV1 env x = some m) :
    m.disables = V1Section.all.flatMap fun s => (s.get x).except.map (exceptRule s.exceptOption) := by
  unfold readManagedV1 at h
  split at h
  · rename_i o1 o2 o3 d4 o4 d5 o5 d6 o6 d7 o7 d8 o8 d9 o9 o10 h1 h2 h3 h4 h5 h6 h7 h8 h9 h10
    injection h with h; subst h
    rw [(prefixSection_spec h4).1, (prefixSection_spec h5).1, (prefixSection_spec h6).1,
      (prefixSection_spec h7).1, (prefixSection_spec h8).1, (prefixSection_spec h9).1]
    simp [V1Section.all, V1Section.get, V1Section.exceptOption]
  · contradiction

/-- every entry `module ↦ value` of a section's `override` map yields an override rule scoped to
    exactly that module and naming the section's `overrideOption`. -/
theorem readManagedV1_module_override {env : Env} {x : ExtManagedV1} {m : Managed}
    (h : readManagedV1 env x = some m) (s : V1Section) (kv : Str × Str) (hkv : kv ∈ (s.get x).override) :
    ∃ o ∈ m.overrides, IsModuleRule s.overrideOption kv o := by
  unfold readManagedV1 at h
  split at h
  · rename_i o1 o2 o3 d4 o4 d5 o5 d6 o6 d7 o7 d8 o8 d9 o9 o10 h1 h2 h3 h4 h5 h6 h7 h8 h9 h10
    injection h with h; subst h
    cases s with
    | javaPackagePrefix =>
      obtain ⟨o, ho, hr⟩ := (prefixSection_spec h4).2.1 kv hkv
      exact ⟨o, by simp [List.mem_append, ho], hr⟩
    | csharpNamespace =>
      obtain ⟨o, ho, hr⟩ := (prefixSection_spec h5).2.1 kv hkv
      exact ⟨o, by simp [List.mem_append, ho], hr⟩
    | optimizeFor =>
      obtain ⟨o, ho, hr⟩ := (prefixSection_spec h6).2.1 kv hkv
      exact ⟨o, by simp [List.mem_append, ho], hr⟩
    | goPackagePrefix =>
      obtain ⟨o, ho, hr⟩ := (prefixSection_spec h7).2.1 kv hkv
      exact ⟨o, by simp [List.mem_append, ho], hr⟩
    | objcClassPrefix =>
      obtain ⟨o, ho, hr⟩ := (prefixSection_spec h8).2.1 kv hkv
      exact ⟨o, by simp [List.mem_append, ho], hr⟩
    | rubyPackage =>
      obtain ⟨o, ho, hr⟩ := (prefixSection_spec h9).2.1 kv hkv
      exact ⟨o, by simp [List.mem_append, ho], hr⟩
  · contradiction

/-- conversely: an override rule that names a module comes from an entry of the `override` map of
    one of the six sections and carries that section's option (the bool keys, the `default`s and
    the per-file `override:` map never produce a module-scoped rule). -/
theorem readManagedV1_scoped_origin {env : Env} {x : ExtManagedV1} {m : Managed}
    (h : readManagedV1 env x = some m) (o : Override) (ho : o ∈ m.overrides) (hm : o.module ≠ []) :
    ∃ s : V1Section, ∃ kv ∈ (s.get x).override, IsModuleRule s.overrideOption kv o := by
  unfold readManagedV1 at h
  split at h
  · rename_i o1 o2 o3 d4 o4 d5 o5 d6 o6 d7 o7 d8 o8 d9 o9 o10 h1 h2 h3 h4 h5 h6 h7 h8 h9 h10
    injection h with h; subst h
    simp only [List.mem_append] at ho
    have sect : ∀ {ds : List Disable} {os : List Override} {mode : DefaultMode} {efo ofo : FileOption} {p : ExtPrefixV1},
        prefixSection env mode efo ofo p = some (ds, os) → o ∈ os → ∃ kv ∈ p.override, IsModuleRule ofo kv o := by
      intro ds os mode efo ofo p hp hmem
      rcases (prefixSection_spec hp).2.2 o hmem with hu | hs
      · exact absurd hu.2.1 hm
      · exact hs
    rcases ho with ((((((((ho | ho) | ho) | ho) | ho) | ho) | ho) | ho) | ho) | ho
    · exact absurd (boolOverride_unscoped h1 o ho).2.1 hm
    · exact absurd (boolOverride_unscoped h2 o ho).2.1 hm
    · exact absurd (boolOverride_unscoped h3 o ho).2.1 hm
    · exact ⟨.javaPackagePrefix, sect h4 ho⟩
    · exact ⟨.csharpNamespace, sect h5 ho⟩
    · exact ⟨.optimizeFor, sect h6 ho⟩
    · exact ⟨.goPackagePrefix, sect h7 ho⟩
    · exact ⟨.objcClassPrefix, sect h8 ho⟩
    · exact ⟨.rubyPackage, sect h9 ho⟩
    · exact absurd (perFileOverrides_module h10 o ho) hm
  · contradiction

/-- `configOfV1` succeeds exactly when the reader does; the rules are the reader's, mapped. -/
theorem configOfV1_some {env : Env} {x : ExtManagedV1} {cfg : BufModel.Managed.Config}
    (h : configOfV1 env x = some cfg) :
    ∃ m, readManagedV1 env x = some m ∧ cfg = toConfig m := by
  unfold configOfV1 at h
  cases hm : readManagedV1 env x with
  | none => rw [hm] at h; simp at h
  | some m => rw [hm] at h; simp at h; exact ⟨m, rfl, h.symm⟩

end BufProofs.ManagedYamlLemmas
