import BufProofs.Lemmas.BreakingLemmas
/-
  Per-rule implication lemmas behind the category hierarchy FILE ⇒ PACKAGE ⇒ WIRE_JSON ⇒ WIRE:
  whenever a rule that belongs only to a laxer category reports something, one of its
  `implies` rules (all members of the stricter category, checked by `decide` on the regenerated
  tables in Props/C04.lean) reports something too.
-/
namespace BufProofs.Breaking
open BufModel.Schema BufModel.Breaking

/-! ### flattening keeps the file context -/

mutual
theorem flatMsg_ctx (file : String) (locs : List SPath) (pkg : QName) :
    ∀ (m : Msg) (pre : QName) (path : SPath) (ml : Option SPath) (x : FlatMsg),
      x ∈ flatMsg file locs pkg pre path ml m → x.file = file ∧ x.pkg = pkg ∧ x.locs = locs
  | .mk info nested, pre, path, ml, x, hx => by
    rw [flatMsg] at hx
    rcases List.mem_cons.1 hx with rfl | h
    · exact ⟨rfl, rfl, rfl⟩
    · exact flatMsgs_ctx file locs pkg nested _ _ _ _ x h
theorem flatMsgs_ctx (file : String) (locs : List SPath) (pkg : QName) :
    ∀ (ms : List Msg) (pre : QName) (path : SPath) (pf : List Field) (i : Nat) (x : FlatMsg),
      x ∈ flatMsgs file locs pkg pre path pf i ms → x.file = file ∧ x.pkg = pkg ∧ x.locs = locs
  | [], _, _, _, _, x, hx => by rw [flatMsgs] at hx; cases hx
  | m :: ms, pre, path, pf, i, x, hx => by
    rw [flatMsgs] at hx
    rcases List.mem_append.1 hx with h | h
    · exact flatMsg_ctx file locs pkg m _ _ _ x h
    · exact flatMsgs_ctx file locs pkg ms _ _ _ _ x h
end

theorem topMsgs_ctx (file : String) (locs : List SPath) (pkg : QName) :
    ∀ (ms : List Msg) (i : Nat) (x : FlatMsg),
      x ∈ topMsgs file locs pkg i ms → x.file = file ∧ x.pkg = pkg ∧ x.locs = locs
  | [], _, x, hx => by rw [topMsgs] at hx; cases hx
  | m :: ms, i, x, hx => by
    rw [topMsgs] at hx
    rcases List.mem_append.1 hx with h | h
    · exact flatMsg_ctx file locs pkg m _ _ _ x h
    · exact topMsgs_ctx file locs pkg ms _ x h

theorem mem_flatMsgs_ctx {f : File} {m : FlatMsg} (h : m ∈ f.flatMsgs) :
    m.file = f.path ∧ m.pkg = f.pkg ∧ m.locs = f.locs :=
  topMsgs_ctx f.path f.locs f.pkg f.messages 0 m h

theorem mem_flatEnums_ctx {f : File} {e : FlatEnum} (h : e ∈ f.flatEnums) :
    e.file = f.path ∧ e.pkg = f.pkg := by
  unfold File.flatEnums at h
  rcases List.mem_append.1 h with h | h
  · obtain ⟨p, _, rfl⟩ := List.mem_map.1 h; exact ⟨rfl, rfl⟩
  · obtain ⟨m, _, hm⟩ := List.mem_flatMap.1 h
    obtain ⟨p, _, rfl⟩ := List.mem_map.1 hm; exact ⟨rfl, rfl⟩

theorem mem_flatExts_ctx {f : File} {e : FlatExt} (h : e ∈ f.flatExts) :
    e.file = f.path ∧ e.pkg = f.pkg := by
  unfold File.flatExts at h
  rcases List.mem_append.1 h with h | h
  · obtain ⟨p, _, rfl⟩ := List.mem_map.1 h; exact ⟨rfl, rfl⟩
  · obtain ⟨m, _, hm⟩ := List.mem_flatMap.1 h
    obtain ⟨p, _, rfl⟩ := List.mem_map.1 hm; exact ⟨rfl, rfl⟩

theorem mem_flatSvcs_ctx {f : File} {s : FlatSvc} (h : s ∈ f.flatSvcs) :
    s.file = f.path ∧ s.pkg = f.pkg := by
  unfold File.flatSvcs at h
  obtain ⟨p, _, rfl⟩ := List.mem_map.1 h; exact ⟨rfl, rfl⟩

theorem flatMap_ne_nil_elim {α : Type} (xs : List α) (g : α → List Ann) (h : xs.flatMap g ≠ []) :
    ∃ x ∈ xs, g x ≠ [] := by
  by_cases hall : ∀ x ∈ xs, g x = []
  · exact absurd (List.flatMap_eq_nil_iff.2 hall) h
  · obtain ⟨x, hx⟩ := Classical.not_forall.1 hall
    obtain ⟨h1, h2⟩ := Classical.not_imp.1 hx
    exact ⟨x, h1, h2⟩

/-! ### generic shape of "element of a previous file went missing from its package" -/

/-- The common argument of PACKAGE_*_NO_DELETE ⇒ FILE_NO_DELETE ∨ *_NO_DELETE ∨ FILE_SAME_PACKAGE.
    `pf` is the previous file holding the element; `inFile cf` says the element (by nested name)
    is still in the current file `cf`. -/
theorem file_cases (cur prev : Schema) (pf : File) (hpf : pf ∈ prev) :
    (cur.find? (fun c => decide (c.path = pf.path)) = none ∧ ruleFileNoDelete cur prev ≠ []) ∨
    (∃ cf, cur.find? (fun c => decide (c.path = pf.path)) = some cf ∧ cf ∈ cur ∧ cf.path = pf.path ∧
      (cf.pkg ≠ pf.pkg → ruleFileSamePackage cur prev ≠ [])) := by
  cases hf : cur.find? (fun c => decide (c.path = pf.path)) with
  | none =>
    left
    refine ⟨rfl, ?_⟩
    unfold ruleFileNoDelete
    exact pairwise_ne_nil_intro_missing File.path cur prev _ _ pf hpf hf (by simp)
  | some cf =>
    right
    have hmem : cf ∈ cur := List.mem_of_find?_eq_some hf
    have hpath : cf.path = pf.path := by
      have := List.find?_some hf; simpa using this
    refine ⟨cf, rfl, hmem, hpath, ?_⟩
    intro hne
    unfold ruleFileSamePackage fileSame filePairs
    apply pairwise_ne_nil_intro_pair File.path cur prev _ _ pf cf hpf hf
    have : pf.pkg ≠ cf.pkg := fun h => hne h.symm
    simp [this]

theorem filePairs_ne_nil (cur prev : Schema) (f : File → File → List Ann) (pf cf : File)
    (hpf : pf ∈ prev) (hf : cur.find? (fun c => decide (c.path = pf.path)) = some cf) (h : f cf pf ≠ []) :
    filePairs cur prev f ≠ [] := by
  unfold filePairs
  exact pairwise_ne_nil_intro_pair File.path cur prev _ _ pf cf hpf hf h

/-! ### PACKAGE_*_NO_DELETE -/

theorem package_enum_implied (cur prev : Schema) (h : rulePackageEnumNoDelete cur prev ≠ []) :
    ruleFileNoDelete cur prev ≠ [] ∨ ruleEnumNoDelete cur prev ≠ [] ∨ ruleFileSamePackage cur prev ≠ [] := by
  unfold rulePackageEnumNoDelete at h
  obtain ⟨pe, hpe, hne⟩ := flatMap_ne_nil_elim _ _ h
  try dsimp only at hne
  by_cases hpk : pe.pkg ∈ cur.map File.pkg
  · rw [if_pos hpk] at hne
    cases hfind : (allEnums cur).find? (fun ce => decide (ce.pkg = pe.pkg ∧ ce.nested = pe.nested)) with
    | some _ => rw [hfind] at hne; exact absurd rfl hne
    | none =>
      obtain ⟨pf, hpf, hpein⟩ := List.mem_flatMap.1 hpe
      obtain ⟨hfile, hpkg⟩ := mem_flatEnums_ctx hpein
      rcases file_cases cur prev pf hpf with ⟨_, hdel⟩ | ⟨cf, hcf, hcfmem, _, hsame⟩
      · exact Or.inl hdel
      · by_cases hp : cf.pkg = pf.pkg
        · right; left
          unfold ruleEnumNoDelete
          apply filePairs_ne_nil cur prev _ pf cf hpf hcf
          apply pairwise_ne_nil_intro_missing FlatEnum.nested cf.flatEnums pf.flatEnums _ _ pe hpein
          · apply find_key_none
            intro ce hce hk
            have hnone := List.find?_eq_none.1 hfind ce (List.mem_flatMap.2 ⟨cf, hcfmem, hce⟩)
            obtain ⟨_, hcepkg⟩ := mem_flatEnums_ctx hce
            simp [hk, hcepkg, hp, hpkg] at hnone
          · simp
        · exact Or.inr (Or.inr (hsame hp))
  · rw [if_neg hpk] at hne; exact absurd rfl hne

theorem package_extension_implied (cur prev : Schema) (h : rulePackageExtensionNoDelete cur prev ≠ []) :
    ruleFileNoDelete cur prev ≠ [] ∨ ruleExtensionNoDelete cur prev ≠ [] ∨ ruleFileSamePackage cur prev ≠ [] := by
  unfold rulePackageExtensionNoDelete at h
  obtain ⟨pe, hpe, hne⟩ := flatMap_ne_nil_elim _ _ h
  try dsimp only at hne
  by_cases hpk : pe.pkg ∈ cur.map File.pkg
  · rw [if_pos hpk] at hne
    cases hfind : (allExts cur).find? (fun ce => decide (ce.pkg = pe.pkg ∧ ce.nested = pe.nested)) with
    | some _ => rw [hfind] at hne; exact absurd rfl hne
    | none =>
      obtain ⟨pf, hpf, hpein⟩ := List.mem_flatMap.1 hpe
      obtain ⟨hfile, hpkg⟩ := mem_flatExts_ctx hpein
      rcases file_cases cur prev pf hpf with ⟨_, hdel⟩ | ⟨cf, hcf, hcfmem, _, hsame⟩
      · exact Or.inl hdel
      · by_cases hp : cf.pkg = pf.pkg
        · right; left
          unfold ruleExtensionNoDelete
          apply filePairs_ne_nil cur prev _ pf cf hpf hcf
          apply pairwise_ne_nil_intro_missing FlatExt.nested cf.flatExts pf.flatExts _ _ pe hpein
          · apply find_key_none
            intro ce hce hk
            have hnone := List.find?_eq_none.1 hfind ce (List.mem_flatMap.2 ⟨cf, hcfmem, hce⟩)
            obtain ⟨_, hcepkg⟩ := mem_flatExts_ctx hce
            simp [hk, hcepkg, hp, hpkg] at hnone
          · simp
        · exact Or.inr (Or.inr (hsame hp))
  · rw [if_neg hpk] at hne; exact absurd rfl hne

theorem package_message_implied (cur prev : Schema) (h : rulePackageMessageNoDelete cur prev ≠ []) :
    ruleFileNoDelete cur prev ≠ [] ∨ ruleMessageNoDelete cur prev ≠ [] ∨ ruleFileSamePackage cur prev ≠ [] := by
  unfold rulePackageMessageNoDelete at h
  obtain ⟨pm, hpm, hne⟩ := flatMap_ne_nil_elim _ _ h
  try dsimp only at hne
  by_cases hpk : pm.pkg ∈ cur.map File.pkg
  · rw [if_pos hpk] at hne
    try simp only at hne
    cases hfind : ((allMsgs cur).filter (fun cm => decide (cm.pkg = pm.pkg))).find?
        (fun cm => decide (cm.nested = pm.nested)) with
    | some _ => rw [hfind] at hne; exact absurd rfl hne
    | none =>
      obtain ⟨pf, hpf, hpmin⟩ := List.mem_flatMap.1 hpm
      obtain ⟨hfile, hpkg, _⟩ := mem_flatMsgs_ctx hpmin
      rcases file_cases cur prev pf hpf with ⟨_, hdel⟩ | ⟨cf, hcf, hcfmem, _, hsame⟩
      · exact Or.inl hdel
      · by_cases hp : cf.pkg = pf.pkg
        · right; left
          unfold ruleMessageNoDelete
          apply filePairs_ne_nil cur prev _ pf cf hpf hcf
          apply pairwise_ne_nil_intro_missing FlatMsg.nested cf.flatMsgs pf.flatMsgs _ _ pm hpmin
          · apply find_key_none
            intro cm hcm hk
            obtain ⟨_, hcmpkg, _⟩ := mem_flatMsgs_ctx hcm
            have hin : cm ∈ (allMsgs cur).filter (fun cm => decide (cm.pkg = pm.pkg)) := by
              apply List.mem_filter.2
              refine ⟨List.mem_flatMap.2 ⟨cf, hcfmem, hcm⟩, ?_⟩
              simp [hcmpkg, hp, hpkg]
            have hnone := List.find?_eq_none.1 hfind cm hin
            simp [hk] at hnone
          · simp
        · exact Or.inr (Or.inr (hsame hp))
  · rw [if_neg hpk] at hne; exact absurd rfl hne

theorem package_service_implied (cur prev : Schema) (h : rulePackageServiceNoDelete cur prev ≠ []) :
    ruleFileNoDelete cur prev ≠ [] ∨ ruleServiceNoDelete cur prev ≠ [] ∨ ruleFileSamePackage cur prev ≠ [] := by
  unfold rulePackageServiceNoDelete at h
  obtain ⟨ps, hps, hne⟩ := flatMap_ne_nil_elim _ _ h
  try dsimp only at hne
  by_cases hpk : ps.pkg ∈ cur.map File.pkg
  · rw [if_pos hpk] at hne
    cases hfind : (allSvcs cur).find? (fun cs => decide (cs.pkg = ps.pkg ∧ cs.svc.name = ps.svc.name)) with
    | some _ => rw [hfind] at hne; exact absurd rfl hne
    | none =>
      obtain ⟨pf, hpf, hpsin⟩ := List.mem_flatMap.1 hps
      obtain ⟨hfile, hpkg⟩ := mem_flatSvcs_ctx hpsin
      rcases file_cases cur prev pf hpf with ⟨_, hdel⟩ | ⟨cf, hcf, hcfmem, _, hsame⟩
      · exact Or.inl hdel
      · by_cases hp : cf.pkg = pf.pkg
        · right; left
          unfold ruleServiceNoDelete
          apply filePairs_ne_nil cur prev _ pf cf hpf hcf
          apply pairwise_ne_nil_intro_missing (fun s => s.svc.name) cf.flatSvcs pf.flatSvcs _ _ ps hpsin
          · apply find_key_none
            intro cs hcs hk
            have hnone := List.find?_eq_none.1 hfind cs (List.mem_flatMap.2 ⟨cf, hcfmem, hcs⟩)
            obtain ⟨_, hcspkg⟩ := mem_flatSvcs_ctx hcs
            simp [hk, hcspkg, hp, hpkg] at hnone
          · simp
        · exact Or.inr (Or.inr (hsame hp))
  · rw [if_neg hpk] at hne; exact absurd rfl hne

theorem package_implied (cur prev : Schema) (h : rulePackageNoDelete cur prev ≠ []) :
    ruleFileNoDelete cur prev ≠ [] ∨ ruleFileSamePackage cur prev ≠ [] := by
  unfold rulePackageNoDelete at h
  obtain ⟨pf, hpf, hne⟩ := flatMap_ne_nil_elim _ _ h
  try dsimp only at hne
  by_cases hpk : pf.pkg ∈ cur.map File.pkg
  · rw [if_pos hpk] at hne; exact absurd rfl hne
  · rcases file_cases cur prev pf hpf with ⟨_, hdel⟩ | ⟨cf, _, hcfmem, _, hsame⟩
    · exact Or.inl hdel
    · right
      apply hsame
      intro hp
      exact hpk (hp ▸ List.mem_map_of_mem hcfmem)

/-! ### message / enum / field pair rules -/

theorem msgPairs_ne_nil_mono (cur prev : Schema) (f₁ f₂ : FlatMsg → FlatMsg → List Ann)
    (hf : ∀ c p, f₁ c p ≠ [] → f₂ c p ≠ []) (h : msgPairs cur prev f₁ ≠ []) : msgPairs cur prev f₂ ≠ [] := by
  unfold msgPairs at h ⊢
  exact pairwise_ne_nil_mono _ _ _ _ _ _ _ (fun _ hx => hx) hf h

theorem enumPairs_ne_nil_mono (cur prev : Schema) (f₁ f₂ : FlatEnum → FlatEnum → List Ann)
    (hf : ∀ c p, f₁ c p ≠ [] → f₂ c p ≠ []) (h : enumPairs cur prev f₁ ≠ []) : enumPairs cur prev f₂ ≠ [] := by
  unfold enumPairs at h ⊢
  exact pairwise_ne_nil_mono _ _ _ _ _ _ _ (fun _ hx => hx) hf h

theorem append_ne_nil_mono {a₁ b₁ a₂ b₂ : List Ann} (ha : a₁ ≠ [] → a₂ ≠ []) (hb : b₁ ≠ [] → b₂ ≠ [])
    (h : a₁ ++ b₁ ≠ []) : a₂ ++ b₂ ≠ [] := by
  intro h2
  obtain ⟨h2a, h2b⟩ := List.append_eq_nil_iff.1 h2
  apply h
  apply List.append_eq_nil_iff.2
  constructor
  · by_cases hx : a₁ = []
    · exact hx
    · exact absurd h2a (ha hx)
  · by_cases hx : b₁ = []
    · exact hx
    · exact absurd h2b (hb hx)

theorem fieldPairs_ne_nil_mono (cur prev : Schema) (f₁ f₂ : FlatField → FlatField → List Ann)
    (hf : ∀ c p, f₁ c p ≠ [] → f₂ c p ≠ []) (h : fieldPairs cur prev f₁ ≠ []) :
    fieldPairs cur prev f₂ ≠ [] := by
  unfold fieldPairs at h ⊢
  refine append_ne_nil_mono ?_ ?_ h
  · apply msgPairs_ne_nil_mono
    intro c p hx
    exact pairwise_ne_nil_mono _ _ _ _ _ _ _ (fun _ hy => hy) hf hx
  · exact pairwise_ne_nil_mono _ _ _ _ _ _ _ (fun _ hy => hy) hf

theorem flatMap_ne_nil_mono {α : Type} (xs : List α) (g₁ g₂ : α → List Ann)
    (hg : ∀ x, g₁ x ≠ [] → g₂ x ≠ []) (h : xs.flatMap g₁ ≠ []) : xs.flatMap g₂ ≠ [] := by
  intro h2
  apply h
  rw [List.flatMap_eq_nil_iff] at h2 ⊢
  intro x hx
  by_cases hx1 : g₁ x = []
  · exact hx1
  · exact absurd (h2 x hx) (hg x hx1)

/-- FIELD_NO_DELETE_UNLESS_{NAME,NUMBER}_RESERVED ⇒ FIELD_NO_DELETE -/
theorem field_no_delete_implied (r : String) (a b : Bool) (cur prev : Schema)
    (h : fieldNoDelete r a b cur prev ≠ []) : fieldNoDelete "FIELD_NO_DELETE" false false cur prev ≠ [] := by
  unfold fieldNoDelete at h ⊢
  apply msgPairs_ne_nil_mono cur prev _ _ _ h
  intro c p
  apply flatMap_ne_nil_mono
  intro pf hx
  by_cases hn : c.info.hasNumber pf.number = true
  · simp [hn] at hx
  · simp [hn]

/-- ENUM_VALUE_NO_DELETE_UNLESS_{NAME,NUMBER}_RESERVED ⇒ ENUM_VALUE_NO_DELETE -/
theorem enum_value_no_delete_implied (r : String) (a b : Bool) (cur prev : Schema)
    (h : enumValueNoDelete r a b cur prev ≠ []) :
    enumValueNoDelete "ENUM_VALUE_NO_DELETE" false false cur prev ≠ [] := by
  unfold enumValueNoDelete at h ⊢
  apply enumPairs_ne_nil_mono cur prev _ _ _ h
  intro c p
  apply flatMap_ne_nil_mono
  intro pv hx
  by_cases hn : c.enum.hasNumber pv.number = true
  · simp [hn] at hx
  · simp [hn]

/-- a coarser grouping of cardinalities differs ⇒ a finer one differs -/
theorem card_implied (r₁ r₂ : String) (g₁ g₂ : Card → Nat)
    (hg : ∀ a b, g₁ a ≠ g₁ b → g₂ a ≠ g₂ b) (cur prev : Schema)
    (h : cardRule r₁ g₁ cur prev ≠ []) : cardRule r₂ g₂ cur prev ≠ [] := by
  unfold cardRule at h ⊢
  apply fieldPairs_ne_nil_mono cur prev _ _ _ h
  intro c p hx
  by_cases hm : (p.field.inMapEntry && c.field.inMapEntry) = true
  · simp [hm] at hx
  · simp only [hm] at hx ⊢
    by_cases hne : g₁ p.field.card ≠ g₁ c.field.card
    · simp [hg _ _ hne]
    · simp [hne] at hx

/-! ### type rules: WIRE ⇒ WIRE_JSON ⇒ SAME_TYPE -/

/-- protoreflect fact assumed of every current field: `Kind()` equals the declared `Type()` except
    that a delimited-encoded message reports GroupKind -/
def kindOk (f : Field) : Prop := f.kind = f.ty ∨ (f.ty = .message ∧ f.kind = .group)

/-- a field of the current schema: in a message or an extension -/
def IsCurField (cur : Schema) (c : FlatField) : Prop :=
  c ∈ extFields cur ∨ ∃ m ∈ allMsgs cur, c ∈ msgFields m

def KindsOK (cur : Schema) : Prop := ∀ c, IsCurField cur c → kindOk c.field

theorem fieldPairs_ne_nil_mono_mem (cur prev : Schema) (f₁ f₂ : FlatField → FlatField → List Ann)
    (hf : ∀ c, IsCurField cur c → ∀ p, f₁ c p ≠ [] → f₂ c p ≠ []) (h : fieldPairs cur prev f₁ ≠ []) :
    fieldPairs cur prev f₂ ≠ [] := by
  unfold fieldPairs at h ⊢
  refine append_ne_nil_mono ?_ ?_ h
  · unfold msgPairs
    apply pairwise_ne_nil_mono_mem _ _ _ _ _ _ _ (fun _ hx => hx)
    intro cm hcm pm hx
    exact pairwise_ne_nil_mono_mem _ _ _ _ _ _ _ (fun _ hy => hy)
      (fun c hc p hy => hf c (Or.inr ⟨cm, hcm, hc⟩) p hy) hx
  · exact pairwise_ne_nil_mono_mem _ _ _ _ _ _ _ (fun _ hy => hy)
      (fun c hc p hy => hf c (Or.inl hc) p hy)

theorem enumWireCompatible_rule_irrelevant (r₁ r₂ : String) (cur prev : Schema) (c p : FlatField)
    (h : enumWireCompatible r₁ cur prev c p ≠ []) : enumWireCompatible r₂ cur prev c p ≠ [] := by
  unfold enumWireCompatible at h ⊢
  split at h
  · next pe ce h1 h2 =>
    by_cases hn : pe.enum.name ≠ ce.enum.name
    · simp [hn]
    · simp only [hn, if_false] at h ⊢
      by_cases hs : (!enumIsSubset ce.enum pe.enum) = true
      · simp [hs]
      · simp [hs] at h
  · exact absurd rfl h

/-- FIELD_WIRE_COMPATIBLE_TYPE ⇒ FIELD_WIRE_JSON_COMPATIBLE_TYPE, given the regenerated tables
    refine each other (`htbl`, discharged by `decide` in Props/C04.lean) -/
theorem wire_type_implied (cur prev : Schema) (hk : KindsOK cur)
    (htbl : ∀ a b : Kind, a.wireGroup ≠ b.wireGroup → a.wireJsonGroup ≠ b.wireJsonGroup)
    (h : ruleFieldWireCompatibleType cur prev ≠ []) : ruleFieldWireJsonCompatibleType cur prev ≠ [] := by
  unfold ruleFieldWireCompatibleType at h
  unfold ruleFieldWireJsonCompatibleType
  apply fieldPairs_ne_nil_mono_mem cur prev _ _ _ h
  intro c hc p hx
  have hok := hk c hc
  try simp only at hx ⊢
  by_cases hj : p.field.kind.wireJsonGroup ≠ c.field.kind.wireJsonGroup
  · simp [hj, changedTypeAnn]
  · have hw : ¬ p.field.kind.wireGroup ≠ c.field.kind.wireGroup := fun hw => hj (htbl _ _ hw)
    simp only [hw, hj, if_false] at hx ⊢
    by_cases he : c.field.ty = .enum
    · have hke : c.field.kind = .enum := by
        rcases hok with h1 | ⟨h1, _⟩
        · rw [h1, he]
        · rw [he] at h1; cases h1
      simp only [he, hke, if_true] at hx ⊢
      by_cases ht : p.field.typeName ≠ c.field.typeName
      · rw [if_pos ht] at hx ⊢
        exact enumWireCompatible_rule_irrelevant _ _ cur prev c p hx
      · simp [ht] at hx
    · simp only [he, if_false] at hx
      by_cases hg : c.field.ty = .group ∨ c.field.ty = .message
      · simp only [hg, if_true] at hx
        have hkg : c.field.kind = .group ∨ c.field.kind = .message := by
          rcases hok with h1 | ⟨_, h2⟩
          · rw [h1]; exact hg
          · exact Or.inl h2
        have hkne : c.field.kind ≠ .enum := by
          rcases hkg with h1 | h1 <;> rw [h1] <;> decide
        simp only [hkne, hkg, if_false, if_true]
        by_cases ht : p.field.typeName ≠ c.field.typeName
        · simp [ht]
        · simp [ht] at hx
      · simp [hg] at hx

/-- FIELD_WIRE_JSON_COMPATIBLE_TYPE ⇒ FIELD_SAME_TYPE -/
theorem wire_json_type_implied (cur prev : Schema) (hk : KindsOK cur)
    (h : ruleFieldWireJsonCompatibleType cur prev ≠ []) : ruleFieldSameType cur prev ≠ [] := by
  unfold ruleFieldWireJsonCompatibleType at h
  unfold ruleFieldSameType
  apply fieldPairs_ne_nil_mono_mem cur prev _ _ _ h
  intro c hc p hx
  have hok := hk c hc
  try simp only at hx ⊢
  by_cases hkind : p.field.kind ≠ c.field.kind
  · simp [hkind]
  · have hkeq : p.field.kind = c.field.kind := Classical.not_not.1 hkind
    have hj : ¬ p.field.kind.wireJsonGroup ≠ c.field.kind.wireJsonGroup := by rw [hkeq]; simp
    simp only [hj, hkind, if_false] at hx ⊢
    have named : (c.field.kind = .enum ∨ c.field.kind = .group ∨ c.field.kind = .message) →
        c.field.ty.named = true := by
      intro hcase
      rcases hok with h1 | ⟨h1, _⟩
      · rw [← h1]; rcases hcase with h2 | h2 | h2 <;> rw [h2] <;> decide
      · rw [h1]; decide
    by_cases he : c.field.kind = .enum
    · simp only [he, if_true] at hx
      by_cases ht : p.field.typeName ≠ c.field.typeName
      · simp [named (Or.inl he), ht]
      · simp [ht] at hx
    · simp only [he, if_false] at hx
      by_cases hg : c.field.kind = .group ∨ c.field.kind = .message
      · simp only [hg, if_true] at hx
        by_cases ht : p.field.typeName ≠ c.field.typeName
        · simp [named (Or.inr hg), ht]
        · simp [ht] at hx
      · simp [hg] at hx

end BufProofs.Breaking
