import BufProofs.Lemmas.FilterClosureLemmas
/-
  C12, phase 2 seen from the index: an element whose key and whose ancestors are all `has` is
  present in the rewritten file (structural induction over the descriptor tree), and the
  exclude phase leaves a downward-closed set of excluded keys.
-/
namespace BufProofs.FilterRewrite
open BufModel.Filter BufProofs.FilterLemmas BufProofs.FilterClosure

def keyId : Key → Id
  | .el n => n
  | .file n => n
  | .oneof m _ => m

/-- "the parent of a kept element is kept" for one index entry -/
def Up (c : RCtx) (j : Info) : Prop := c.has j.key = true → ∀ p, j.parent = some p → c.has p = true

/-! ### index entries know their file -/

mutual
theorem file_msgInfos (file : Id) (parent : Key) (m : Msg) : ∀ i ∈ msgInfos file parent m, i.file = file := by
  cases m with
  | mk id fields oneofs exts nested enums rangeOpts reserved mapEntry opts =>
    intro i hi
    simp only [msgInfos, List.mem_cons, List.mem_append, List.mem_map] at hi
    rcases hi with rfl | (hi | ⟨e, _, rfl⟩) | ⟨x, _, rfl⟩
    · rfl
    · exact file_msgsInfos file (.el id) nested i hi
    · rfl
    · rfl
theorem file_msgsInfos (file : Id) (parent : Key) (ms : List Msg) : ∀ i ∈ msgsInfos file parent ms, i.file = file := by
  cases ms with
  | nil => intro i hi; simp [msgsInfos] at hi
  | cons m ms =>
    intro i hi
    simp only [msgsInfos, List.mem_append] at hi
    rcases hi with hi | hi
    · exact file_msgInfos file parent m i hi
    · exact file_msgsInfos file parent ms i hi
end

theorem file_fileInfos (f : File) : ∀ i ∈ fileInfos f, i.file = f.id := by
  intro i hi
  simp only [fileInfos, List.mem_cons, List.mem_append, List.mem_map, List.mem_flatten] at hi
  rcases hi with rfl | ((hi | ⟨e, _, rfl⟩) | ⟨l, ⟨s, _, rfl⟩, hi⟩) | ⟨x, _, rfl⟩
  · rfl
  · exact file_msgsInfos _ _ _ i hi
  · rfl
  · simp only [svcInfos, List.mem_cons, List.mem_map] at hi
    rcases hi with rfl | ⟨m, _, rfl⟩ <;> rfl
  · rfl

/-! ### a kept element's ancestors are kept -/

mutual
theorem up_msg (c : RCtx) (file : Id) (parent : Key) (m : Msg)
    (hU : ∀ j ∈ msgInfos file parent m, Up c j) :
    ∀ i ∈ msgInfos file parent m, c.has i.key = true → c.has parent = true := by
  cases m with
  | mk id fields oneofs exts nested enums rangeOpts reserved mapEntry opts =>
    obtain ⟨hd, tl, hl, hk, hp⟩ : ∃ hd tl, msgInfos file parent
        (Msg.mk id fields oneofs exts nested enums rangeOpts reserved mapEntry opts) = hd :: tl ∧
        hd.key = .el id ∧ hd.parent = some parent := by
      simp only [msgInfos]; exact ⟨_, _, rfl, rfl, rfl⟩
    have hhead : c.has (.el id) = true → c.has parent = true := by
      intro h
      have := hU hd (by rw [hl]; simp)
      unfold Up at this
      rw [hk] at this
      exact this h parent hp
    intro i hi hh
    have hi0 := hi
    simp only [msgInfos, List.mem_cons, List.mem_append, List.mem_map] at hi
    rcases hi with rfl | (hi | ⟨e, _, rfl⟩) | ⟨x, _, rfl⟩
    · exact hhead hh
    · apply hhead
      refine up_msgs c file (.el id) nested ?_ i hi hh
      intro j hj
      exact hU j (by simp only [msgInfos, List.mem_cons, List.mem_append]; exact Or.inr (Or.inl (Or.inl hj)))
    · exact hhead (hU _ hi0 hh (.el id) rfl)
    · exact hhead (hU _ hi0 hh (.el id) rfl)
theorem up_msgs (c : RCtx) (file : Id) (parent : Key) (ms : List Msg)
    (hU : ∀ j ∈ msgsInfos file parent ms, Up c j) :
    ∀ i ∈ msgsInfos file parent ms, c.has i.key = true → c.has parent = true := by
  cases ms with
  | nil => intro i hi; simp [msgsInfos] at hi
  | cons m ms =>
    intro i hi hh
    simp only [msgsInfos, List.mem_append] at hi
    rcases hi with hi | hi
    · exact up_msg c file parent m (fun j hj => hU j (by simp only [msgsInfos, List.mem_append]; exact Or.inl hj)) i hi hh
    · exact up_msgs c file parent ms (fun j hj => hU j (by simp only [msgsInfos, List.mem_append]; exact Or.inr hj)) i hi hh
end

/-! ### kept elements are present in the rewritten tree -/

theorem keptFrom_mem {α β} (path : List Nat) (f : List Nat → α → Option β × Marks) (xs : List α) (fr : Nat)
    (x : α) (y : β) (hx : x ∈ xs) (hf : ∀ p, (f p x).1 = some y) : y ∈ keptFrom path f xs fr := by
  induction xs generalizing fr with
  | nil => cases hx
  | cons a as ih =>
    unfold keptFrom
    cases hx with
    | head => rw [hf]; simp
    | tail _ hx =>
      split
      · exact List.mem_cons_of_mem _ (ih _ hx)
      · exact ih _ hx

theorem remapMsg_some (c : RCtx) (path : List Nat) (id : Id) (fields : List Field) (oneofs : List Oneof)
    (exts : List Field) (nested : List Msg) (enums : List Enum) (rangeOpts : List (List OptUse))
    (reserved mapEntry : Bool) (opts : List OptUse) (h : c.has (.el id) = true) :
    ∃ fs os ro rs, (remapMsg c path (.mk id fields oneofs exts nested enums rangeOpts reserved mapEntry opts)).1 =
      some (.mk id fs os (remapSlice (path ++ [6]) (remapField c) exts 0 0).1
        (remapMsgs c (path ++ [3]) nested 0 0).1 (remapSlice (path ++ [4]) (remapEnum c) enums 0 0).1
        ro rs mapEntry opts) := by
  unfold remapMsg
  simp only [h, Bool.not_true, Bool.false_eq_true, if_false]
  split
  · split
    · exact ⟨_, _, _, _, rfl⟩
    · exact ⟨_, _, _, _, rfl⟩
  · exact ⟨_, _, _, _, rfl⟩

mutual
theorem pres_msg (c : RCtx) (file : Id) (parent : Key) (path : List Nat) (m : Msg)
    (hU : ∀ j ∈ msgInfos file parent m, Up c j) :
    ∀ i ∈ msgInfos file parent m, i.fld = none → c.has i.key = true →
      ∃ y, (remapMsg c path m).1 = some y ∧ keyId i.key ∈ (presentMsg file y).map (·.id) := by
  cases m with
  | mk id fields oneofs exts nested enums rangeOpts reserved mapEntry opts =>
    intro i hi hfld hh
    have hi0 := hi
    have hUn : ∀ j ∈ msgsInfos file (.el id) nested, Up c j := fun j hj =>
      hU j (by simp only [msgInfos, List.mem_cons, List.mem_append]; exact Or.inr (Or.inl (Or.inl hj)))
    simp only [msgInfos, List.mem_cons, List.mem_append, List.mem_map] at hi
    have hid : c.has (.el id) = true := by
      rcases hi with rfl | (hi | ⟨e, _, rfl⟩) | ⟨x, _, rfl⟩
      · exact hh
      · exact up_msgs c file (.el id) nested hUn i hi hh
      · exact hU _ hi0 hh (.el id) rfl
      · exact hU _ hi0 hh (.el id) rfl
    obtain ⟨fs, os, ro, rs, hy⟩ := remapMsg_some c path id fields oneofs exts nested enums rangeOpts reserved mapEntry opts hid
    refine ⟨_, hy, ?_⟩
    simp only [presentMsg, List.map_cons, List.map_append, List.mem_cons, List.mem_append]
    rcases hi with rfl | (hi | ⟨e, he, rfl⟩) | ⟨x, _, rfl⟩
    · exact Or.inl rfl
    · exact Or.inr (Or.inl (Or.inl (pres_msgs c file (.el id) (path ++ [3]) nested 0 0 hUn i hi hfld hh)))
    · refine Or.inr (Or.inl (Or.inr ?_))
      simp only [List.map_map, List.mem_map, Function.comp]
      refine ⟨e, ?_, rfl⟩
      rw [remapSlice_items]
      refine keptFrom_mem _ _ _ _ e e he ?_
      intro p
      have hh' : c.has (.el e.id) = true := hh
      simp [remapEnum, hh']
    · simp [extInfo] at hfld
theorem pres_msgs (c : RCtx) (file : Id) (parent : Key) (path : List Nat) (ms : List Msg) (fr to : Nat)
    (hU : ∀ j ∈ msgsInfos file parent ms, Up c j) :
    ∀ i ∈ msgsInfos file parent ms, i.fld = none → c.has i.key = true →
      keyId i.key ∈ (presentMsgs file (remapMsgs c path ms fr to).1).map (·.id) := by
  cases ms with
  | nil => intro i hi; simp [msgsInfos] at hi
  | cons m ms =>
    intro i hi hfld hh
    have hU1 : ∀ j ∈ msgInfos file parent m, Up c j := fun j hj =>
      hU j (by simp only [msgsInfos, List.mem_append]; exact Or.inl hj)
    have hU2 : ∀ j ∈ msgsInfos file parent ms, Up c j := fun j hj =>
      hU j (by simp only [msgsInfos, List.mem_append]; exact Or.inr hj)
    simp only [msgsInfos, List.mem_append] at hi
    unfold remapMsgs
    rcases hi with hi | hi
    · obtain ⟨y, hy, hm⟩ := pres_msg c file parent (path ++ [fr]) m hU1 i hi hfld hh
      cases hr : remapMsg c (path ++ [fr]) m with
      | mk r mk =>
        rw [hr] at hy
        simp only at hy
        subst hy
        simp only [presentMsgs, List.map_append, List.mem_append]
        exact Or.inl hm
    · cases hr : remapMsg c (path ++ [fr]) m with
      | mk r mk =>
        cases r with
        | none => exact pres_msgs c file parent path ms (fr + 1) to hU2 i hi hfld hh
        | some y =>
          simp only [presentMsgs, List.map_append, List.mem_append]
          exact Or.inr (pres_msgs c file parent path ms (fr + 1) (to + 1) hU2 i hi hfld hh)
end

theorem svc_kept (c : RCtx) (path : List Nat) (svcs : List Service) (s : Service) (hs : s ∈ svcs)
    (hh : c.has (.el s.id) = true) (fr : Nat) :
    ∃ s', s' ∈ keptFrom path (remapService c) svcs fr ∧ s'.id = s.id := by
  induction svcs generalizing fr with
  | nil => cases hs
  | cons a as ih =>
    unfold keptFrom
    cases hs with
    | head =>
      simp only [remapService, hh, Bool.not_true, Bool.false_eq_true, if_false]
      exact ⟨_, List.mem_cons_self, rfl⟩
    | tail _ hs =>
      obtain ⟨s', hs', hid⟩ := ih hs (fr + 1)
      split
      · exact ⟨s', List.mem_cons_of_mem _ hs', hid⟩
      · exact ⟨s', hs', hid⟩

theorem mem_fileInfos_msgs (f : File) (j : Info) (h : j ∈ msgsInfos f.id (.file f.id) f.msgs) : j ∈ fileInfos f := by
  simp only [fileInfos, List.mem_cons, List.mem_append]
  exact Or.inr (Or.inl (Or.inl (Or.inl h)))

theorem up_file (c : RCtx) (f : File) (hU : ∀ j ∈ fileInfos f, Up c j) :
    ∀ i ∈ fileInfos f, c.has i.key = true → c.has (.file f.id) = true := by
  intro i hi hh
  have hi0 := hi
  simp only [fileInfos, List.mem_cons, List.mem_append, List.mem_map, List.mem_flatten] at hi
  rcases hi with rfl | ((hi | ⟨e, _, rfl⟩) | ⟨l, ⟨s, hs, rfl⟩, hi⟩) | ⟨x, _, rfl⟩
  · exact hh
  · exact up_msgs c f.id (.file f.id) f.msgs (fun j hj => hU j (mem_fileInfos_msgs f j hj)) i hi hh
  · exact hU _ hi0 hh (.file f.id) rfl
  · have hsvc : c.has (.el s.id) = true → c.has (.file f.id) = true := by
      intro h
      obtain ⟨hd, tl, hl, hk, hp⟩ : ∃ hd tl, svcInfos f.id s = hd :: tl ∧ hd.key = .el s.id ∧
          hd.parent = some (.file f.id) := by
        unfold svcInfos; exact ⟨_, _, rfl, rfl, rfl⟩
      have hm : hd ∈ fileInfos f := by
        simp only [fileInfos, List.mem_cons, List.mem_append, List.mem_map, List.mem_flatten]
        exact Or.inr (Or.inl (Or.inr ⟨_, ⟨s, hs, rfl⟩, by rw [hl]; simp⟩))
      have := hU hd hm
      unfold Up at this
      rw [hk] at this
      exact this h (.file f.id) hp
    simp only [svcInfos, List.mem_cons, List.mem_map] at hi
    rcases hi with rfl | ⟨m, _, rfl⟩
    · exact hsvc hh
    · exact hsvc (hU _ hi0 hh (.el s.id) rfl)
  · exact hU _ hi0 hh (.file f.id) rfl

/-- A kept message, enum or service whose ancestors are kept is present in the rewritten file. -/
theorem pres_file (c : RCtx) (f : File) (hU : ∀ j ∈ fileInfos f, Up c j) (i : Info) (hi : i ∈ fileInfos f)
    (hfld : i.fld = none) (hkm : i.kind ≠ .method) (hkf : i.kind ≠ .file) (hh : c.has i.key = true) :
    ∃ of, remapFile c f = some of ∧ of.id = f.id ∧ keyId i.key ∈ (presentFile of).map (·.id) := by
  have hfile := up_file c f hU i hi hh
  unfold remapFile
  simp only [hfile, Bool.not_true, Bool.false_eq_true, if_false]
  refine ⟨_, rfl, rfl, ?_⟩
  simp only [presentFile, List.map_append, List.mem_append]
  simp only [fileInfos, List.mem_cons, List.mem_append, List.mem_map, List.mem_flatten] at hi
  rcases hi with rfl | ((hi | ⟨e, he, rfl⟩) | ⟨l, ⟨s, hs, rfl⟩, hi⟩) | ⟨x, _, rfl⟩
  · exact absurd rfl hkf
  · exact Or.inl (Or.inl (Or.inl (pres_msgs c f.id (.file f.id) [4] f.msgs 0 0
      (fun j hj => hU j (mem_fileInfos_msgs f j hj)) i hi hfld hh)))
  · refine Or.inl (Or.inl (Or.inr ?_))
    simp only [List.map_map, List.mem_map, Function.comp]
    refine ⟨e, ?_, rfl⟩
    rw [remapSlice_items]
    refine keptFrom_mem _ _ _ _ e e he ?_
    intro p
    have hh' : c.has (.el e.id) = true := hh
    simp [remapEnum, hh']
  · simp only [svcInfos, List.mem_cons, List.mem_map] at hi
    rcases hi with rfl | ⟨m, _, rfl⟩
    · refine Or.inl (Or.inr ?_)
      have hh' : c.has (.el s.id) = true := hh
      simp only [List.mem_map, List.mem_flatten]
      have : ∃ s', s' ∈ (remapSlice [6] (remapService c) f.svcs 0 0).1 ∧ s'.id = s.id := by
        rw [remapSlice_items]
        exact svc_kept c [6] f.svcs s hs hh' 0
      obtain ⟨s', hs', hid⟩ := this
      refine ⟨⟨s'.id, f.id, false, 0, false⟩, ⟨_, ⟨s', hs', rfl⟩, List.mem_cons_self⟩, ?_⟩
      simp [keyId, hid]
    · exact absurd rfl hkm
  · simp [extInfo] at hfld

/-- what survives `rewrite` -/
theorem rewrite_mem (cfg : Cfg) (hcfg : cfg.keepsInputWhenEmpty = false) (st : St) (noInc : Bool) (img : Image)
    (out : List OFile) (h : rewrite cfg st noInc img = .ok out) (f : File) (hf : f ∈ img.files)
    (hseen : f.id ∈ st.seen) (of : OFile) (hof : remapFile ⟨st, noInc, !cfg.svcMarksInput, !cfg.staleOneofIndex⟩ f = some of) :
    of ∈ out := by
  unfold rewrite at h
  simp only [] at h
  split at h
  · cases h
  · have hm : of ∈ (img.files.filter (fun f => st.seen.contains f.id || st.edges.any (fun e => e.1 = f.id))).filterMap
        (remapFile ⟨st, noInc, !cfg.svcMarksInput, !cfg.staleOneofIndex⟩) := by
      rw [List.mem_filterMap]
      refine ⟨f, ?_, hof⟩
      rw [List.mem_filter]
      refine ⟨hf, ?_⟩
      simp [hseen]
    split at h
    · rename_i he
      rw [hcfg] at h
      simp only [Bool.false_eq_true, if_false] at h
      cases h
    · cases h; exact hm

/-! ### well-formed indexes and the exclude phase -/

/-- What the theorems need of the index.  `uniq` is the real restriction (no two indexed elements
    share a name id); the other two hold for every index `buildIndex` produces with unique keys and
    are kept as (decidable) hypotheses rather than proved. -/
structure WFIdx (idx : Index) : Prop where
  uniq : ∀ j ∈ idx, idx.find j.key = some j
  parentNonExt : ∀ j ∈ idx, ∀ p, j.parent = some p →
    (∀ m n, p ≠ .oneof m n) ∧ ∀ ip, idx.find p = some ip → ip.fld = none
  descClosed : ∀ i ∈ idx, ∀ j ∈ idx, ∀ p, j.parent = some p → p ∈ (i.key :: i.desc) → j.key ∈ i.desc

deriving instance DecidableEq for Info

def isOneofKey : Key → Bool
  | .oneof _ _ => true
  | _ => false

/-- executable form of `WFIdx` -/
def wfIdxB (idx : Index) : Bool :=
  idx.all (fun j => decide (idx.find j.key = some j)) &&
  idx.all (fun j => match j.parent with
    | some p => !isOneofKey p && (match idx.find p with | some ip => ip.fld.isNone | none => true)
    | none => true) &&
  idx.all (fun i => idx.all (fun j => match j.parent with
    | some p => !(i.key :: i.desc).contains p || i.desc.contains j.key
    | none => true))

theorem wfIdx_of_B (idx : Index) (h : wfIdxB idx = true) : WFIdx idx := by
  unfold wfIdxB at h
  simp only [Bool.and_eq_true, List.all_eq_true] at h
  obtain ⟨⟨h1, h2⟩, h3⟩ := h
  refine ⟨fun j hj => by simpa using h1 j hj, ?_, ?_⟩
  · intro j hj p hp
    have := h2 j hj
    rw [hp] at this
    simp only [Bool.and_eq_true, Bool.not_eq_true'] at this
    constructor
    · intro m n e; rw [e] at this; simp [isOneofKey] at this
    · intro ip hip
      rw [hip] at this
      simpa using this.2
  · intro i hi j hj p hp hmem
    have := h3 i hi j hj
    rw [hp] at this
    simp only [Bool.or_eq_true, Bool.not_eq_true'] at this
    rcases this with h | h
    · have : (i.key :: i.desc).contains p = true := by simpa using hmem
      rw [this] at h; cases h
    · simpa using h

/-- the excluded set is closed under children -/
def DC (idx : Index) (st : St) : Prop := ∀ j ∈ idx, ∀ p, j.parent = some p → rk st p = 4 → rk st j.key = 4

theorem exclKeys_step_onlyExcl (st : St) (k : Key) (h : OnlyExcl st) :
    OnlyExcl (if (st.get k).isNone then st.set k .excluded else st) := by
  split
  · intro k'; rw [get_set]; split
    · exact Or.inr rfl
    · exact h k'
  · exact h

theorem exclKeys_mem (st : St) (ks : List Key) (ho : OnlyExcl st) (k : Key) (hk : k ∈ ks) :
    (exclKeys st ks).get k = some .excluded := by
  induction ks generalizing st with
  | nil => cases hk
  | cons a as ih =>
    cases hk with
    | head => exact exclKeys_head st k as (ho k)
    | tail _ hk =>
      unfold exclKeys
      exact ih _ (exclKeys_step_onlyExcl st a ho) hk

theorem exclKeys_not_mem (st : St) (ks : List Key) (k : Key) (hk : k ∉ ks) :
    (exclKeys st ks).get k = st.get k := by
  induction ks generalizing st with
  | nil => rfl
  | cons a as ih =>
    unfold exclKeys
    have hne : k ≠ a := fun e => hk (by rw [e]; simp)
    have has : k ∉ as := fun e => hk (by simp [e])
    rw [ih _ has]
    split
    · rw [get_set]; simp [hne]
    · rfl

theorem dc_exclKeys (idx : Index) (hwf : WFIdx idx) (st : St) (i : Info) (hi : i ∈ idx)
    (ho : OnlyExcl st) (hd : DC idx st) : DC idx (exclKeys st (i.key :: i.desc)) := by
  intro j hj p hp h4
  by_cases hm : p ∈ (i.key :: i.desc)
  · have := hwf.descClosed i hi j hj p hp hm
    exact rk_excl.mpr (exclKeys_mem st _ ho _ (List.mem_cons_of_mem _ this))
  · have e := exclKeys_not_mem st _ p hm
    have h4' : rk st p = 4 := by
      unfold rk at h4 ⊢; rw [e] at h4; exact h4
    have := hd j hj p hp h4'
    exact rk_excl.mpr (exclKeys_exclLe st _ _ (rk_excl.mp this))

theorem dc_excludeType (img : Image) (idx : Index) (hwf : WFIdx idx) (st st' : St) (n : Id)
    (h : excludeType img idx st n = .ok st') (ho : OnlyExcl st) (hd : DC idx st) :
    OnlyExcl st' ∧ DC idx st' := by
  unfold excludeType at h
  split at h
  · rename_i i hi
    cases h
    exact ⟨exclKeys_onlyExcl _ _ ho, dc_exclKeys idx hwf st i (find_mem hi) ho hd⟩
  · split at h
    · cases h
      generalize filesOfPkg img n = fs
      induction fs generalizing st with
      | nil => exact ⟨ho, hd⟩
      | cons f fs ih =>
        simp only [List.foldl_cons]
        apply ih
        · split
          · exact exclKeys_onlyExcl _ _ ho
          · exact ho
        · split
          · rename_i i hi
            exact dc_exclKeys idx hwf st i (find_mem hi) ho hd
          · exact hd
    · cases h

theorem dc_excludePhase (img : Image) (idx : Index) (hwf : WFIdx idx) (st' : St) (ns : List Id)
    (h : foldlE (excludeType img idx) {} ns = .ok st') : OnlyExcl st' ∧ DC idx st' := by
  refine foldlE_pres (fun s => OnlyExcl s ∧ DC idx s) _ ?_ _ _ _ ⟨onlyExcl_empty, ?_⟩ h
  · intro b a b' hb hh
    exact dc_excludeType img idx hwf b b' a hh hb.1 hb.2
  · intro j _ p _ h4
    simp [rk, St.get, rank] at h4

theorem dc_of_le (c : Ctx) (hwf : WFIdx c.idx) (s0 st : St) (hd : DC c.idx s0) (hle : Le c s0 st) :
    DC c.idx st := by
  intro j hj p hp h4
  have hn : NonExt c p := hwf.parentNonExt j hj p hp
  exact hle.excl (hd j hj p hp (hle.frozen p hn h4))

theorem has_iff_rk (st : St) (mio rn : Bool) (k : Key) :
    (RCtx.has ⟨st, false, mio, rn⟩ k = true) ↔ (1 ≤ rk st k ∧ rk st k ≤ 3) := by
  unfold RCtx.has hasType rk
  cases h : st.get k with
  | none => simp [rank]
  | some m => cases m <;> simp [rank]

theorem up_of_closed (c : Ctx) (hwf : WFIdx c.idx) (st : St) (hc : Closed c st) (hd : DC c.idx st) (mio rn : Bool) :
    ∀ j ∈ c.idx, Up ⟨st, false, mio, rn⟩ j := by
  intro j hj hh p hp
  rw [has_iff_rk] at hh ⊢
  have hfind := hwf.uniq j hj
  have h1 := (hc j.key j hfind).1 hh.1 hh.2 p hp
  have := rk_le_four st p
  refine ⟨h1, ?_⟩
  by_cases h4 : rk st p = 4
  · have := hd j hj p hp h4; omega
  · omega

theorem mem_buildIndex (img : Image) (i : Info) (h : i ∈ buildIndex img) : ∃ f ∈ img.files, i ∈ fileInfos f := by
  unfold buildIndex at h
  simp only [List.mem_flatten, List.mem_map] at h
  obtain ⟨l, ⟨f, hf, rfl⟩, hi⟩ := h
  exact ⟨f, hf, hi⟩

theorem mem_buildIndex_of (img : Image) (f : File) (hf : f ∈ img.files) (i : Info) (h : i ∈ fileInfos f) :
    i ∈ buildIndex img := by
  unfold buildIndex
  simp only [List.mem_flatten, List.mem_map]
  exact ⟨_, ⟨f, hf, rfl⟩, h⟩

/-- **filter_keeps_includes** (messages, enums, services named by an include of a successful
    filter are present in the output, in their own file). -/
theorem filterWith_keeps_include (img : Image) (o : Opts) (fuel : Nat) (out : List OFile)
    (h : filterWith cfgFixed img o fuel = .ok out) (hwf : WFIdx (buildIndex img))
    (n : Id) (hn : n ∈ o.includes) (i : Info) (hi : (buildIndex img).find (.el n) = some i)
    (hfld : i.fld = none) (hkm : i.kind ≠ .method) (hkf : i.kind ≠ .file) :
    ∃ of ∈ out, of.id = i.file ∧ n ∈ (presentFile of).map (·.id) := by
  unfold filterWith at h
  split at h
  · cases h
  · rename_i st hcl
    have hinc : o.includes.isEmpty = false := by
      cases hl : o.includes with
      | nil => rw [hl] at hn; cases hn
      | cons a as => rfl
    rw [hinc] at h
    let c : Ctx := ⟨cfgFixed, buildIndex img, o.customOpts⟩
    have hexp := closure_keeps_includes cfgFixed rfl img o fuel st hcl n hn i hi hfld
    obtain ⟨st0, h0, ho, hg⟩ := closure_good cfgFixed rfl img o fuel st hcl
    have hd0 := (dc_excludePhase img (buildIndex img) hwf st0 o.excludes h0).2
    have hd : DC c.idx st := dc_of_le c hwf st0 st hd0 hg.2
    have hup := up_of_closed c hwf st hg.1 hd true true
    obtain ⟨f, hf, hif⟩ := mem_buildIndex img i (find_mem hi)
    have hkey := find_key _ _ _ hi
    have hhas : RCtx.has ⟨st, false, true, true⟩ i.key = true := by
      rw [has_iff_rk, hkey, rk_of_get hexp]; simp [rank]
    obtain ⟨of, hof, hid, hpres⟩ := pres_file ⟨st, false, true, true⟩ f
      (fun j hj => hup j (mem_buildIndex_of img f hf j hj)) i hif hfld hkm hkf hhas
    have hfile := file_fileInfos f i hif
    have hseen : f.id ∈ st.seen := by
      have hr := (hg.1 (.el n) i hi).2 (by rw [rk_of_get hexp]; simp [rank]) (by rw [rk_of_get hexp]; simp [rank])
      have := hr (.imp none i.file) (by unfold reqTasks postTasks; simp)
      rw [← hfile]
      exact this.1
    refine ⟨of, rewrite_mem cfgFixed rfl st false img out h f hf hseen of hof, by rw [hid, hfile], ?_⟩
    rw [hkey] at hpres
    exact hpres

/-! ### every needed import is listed -/

theorem mem_insertSorted (x y : Nat) (l : List Nat) : y ∈ insertSorted x l ↔ y = x ∨ y ∈ l := by
  induction l with
  | nil => simp [insertSorted]
  | cons a as ih =>
    unfold insertSorted
    split
    · simp
    · simp only [List.mem_cons, ih]
      constructor
      · rintro (h | h | h)
        · exact Or.inr (Or.inl h)
        · exact Or.inl h
        · exact Or.inr (Or.inr h)
      · rintro (h | h | h)
        · exact Or.inr (Or.inl h)
        · exact Or.inl h
        · exact Or.inr (Or.inr h)

theorem mem_sortNat (y : Nat) (l : List Nat) : y ∈ sortNat l ↔ y ∈ l := by
  unfold sortNat
  induction l with
  | nil => simp
  | cons a as ih => simp only [List.foldr_cons, mem_insertSorted, ih, List.mem_cons]

/-- remapDependencies lists every file the closure recorded an import edge to. -/
theorem remapDeps_lists (st : St) (f : File) (b : Id) (h : (f.id, b) ∈ st.edges) :
    b ∈ ((remapDeps st f).1).map (·.file) := by
  have hreq : b ∈ (st.edges.filter (fun e => e.1 = f.id)).map (·.2) := by
    simp only [List.mem_map, List.mem_filter]
    exact ⟨(f.id, b), ⟨h, by simp⟩, rfl⟩
  unfold remapDeps
  simp only [List.map_append, List.mem_append]
  by_cases hd : b ∈ f.deps.map (·.file)
  · left
    simp only [List.mem_map] at hd
    obtain ⟨d, hd, hdb⟩ := hd
    rw [remapSlice_items]
    simp only [List.mem_map]
    refine ⟨Dep.mk d.file false, ?_, hdb⟩
    refine keptFrom_mem _ _ _ _ d _ hd ?_
    intro p
    have : ((st.edges.filter (fun e => e.1 = f.id)).map (·.2)).contains d.file = true := by
      rw [hdb]; simpa using hreq
    simp only [this, if_true]
  · right
    simp only [List.map_map, List.mem_map, Function.comp]
    refine ⟨b, ?_, rfl⟩
    rw [mem_sortNat, List.mem_eraseDups, List.mem_filter]
    refine ⟨hreq, ?_⟩
    simpa using hd

theorem rewrite_origin (cfg : Cfg) (hcfg : cfg.keepsInputWhenEmpty = false) (st : St) (noInc : Bool) (img : Image)
    (out : List OFile) (h : rewrite cfg st noInc img = .ok out) (of : OFile) (hof : of ∈ out) :
    ∃ f ∈ img.files, remapFile ⟨st, noInc, !cfg.svcMarksInput, !cfg.staleOneofIndex⟩ f = some of := by
  unfold rewrite at h
  simp only [] at h
  split at h
  · cases h
  · split at h
    · rw [hcfg] at h
      simp only [Bool.false_eq_true, if_false] at h
      cases h
    · cases h
      rw [List.mem_filterMap] at hof
      obtain ⟨f, hf, hr⟩ := hof
      exact ⟨f, (List.mem_filter.mp hf).1, hr⟩

theorem remapFile_deps (c : RCtx) (f : File) (of : OFile) (h : remapFile c f = some of) :
    of.id = f.id ∧ of.deps = (remapDeps c.st f).1.map (·.file) := by
  unfold remapFile at h
  split at h
  · cases h
  · simp only [Option.some.injEq] at h
    subst h
    exact ⟨rfl, rfl⟩

/-! ### source paths of nested message lists -/

/-- every mark has `p` as a prefix of its path -/
def Under (p : List Nat) (ms : Marks) : Prop := ∀ mk ∈ ms, ∃ rest, mk.1 = p ++ rest

/-- marks of one message at path `p`: a `noComment` at `p` itself or strictly below `p` -/
def Below (p : List Nat) (ms : Marks) : Prop :=
  ∀ mk ∈ ms, (mk.1 = p ∧ mk.2 = Act.noComment) ∨ ∃ x rest, mk.1 = p ++ x :: rest

theorem under_append {p : List Nat} {a b : Marks} (ha : Under p a) (hb : Under p b) : Under p (a ++ b) := by
  intro mk hmk
  rcases List.mem_append.mp hmk with h | h
  · exact ha mk h
  · exact hb mk h

theorem under_remapSlice {α β} (path : List Nat) (f : List Nat → α → Option β × Marks)
    (hleaf : ∀ p x, (f p x).2 = []) (xs : List α) (fr to : Nat) : Under path (remapSlice path f xs fr to).2 := by
  induction xs generalizing fr to with
  | nil =>
    unfold remapSlice
    intro mk hmk
    split at hmk
    · simp only [List.mem_cons, List.mem_nil_iff, or_false] at hmk; subst hmk; exact ⟨[], by simp⟩
    · cases hmk
  | cons x xs ih =>
    unfold remapSlice
    have hl := hleaf (path ++ [fr]) x
    cases h : f (path ++ [fr]) x with
    | mk r ms =>
      rw [h] at hl; simp only at hl; subst hl
      cases r with
      | none =>
        simp only [h, List.nil_append]
        intro mk hmk
        simp only [List.singleton_append, List.mem_cons] at hmk
        rcases hmk with rfl | hmk
        · exact ⟨[fr], rfl⟩
        · exact ih _ _ mk hmk
      | some y =>
        simp only [h, List.nil_append]
        intro mk hmk
        rcases List.mem_append.mp hmk with hmk | hmk
        · split at hmk
          · simp only [List.mem_cons, List.mem_nil_iff, or_false] at hmk; subst hmk; exact ⟨[fr], rfl⟩
          · cases hmk
        · exact ih _ _ mk hmk

theorem under_sub {p : List Nat} (x : Nat) {ms : Marks} (h : Under (p ++ [x]) ms) : Below p ms := by
  intro mk hmk
  obtain ⟨rest, hr⟩ := h mk hmk
  exact Or.inr ⟨x, rest, by rw [hr]; simp⟩

theorem below_under {p : List Nat} {ms : Marks} (h : Below p ms) : Under p ms := by
  intro mk hmk
  rcases h mk hmk with ⟨h, _⟩ | ⟨x, rest, h⟩
  · exact ⟨[], by simp [h]⟩
  · exact ⟨x :: rest, h⟩

theorem below_append {p : List Nat} {a b : Marks} (ha : Below p a) (hb : Below p b) : Below p (a ++ b) := by
  intro mk hmk
  rcases List.mem_append.mp hmk with h | h
  · exact ha mk h
  · exact hb mk h

theorem remapField_leaf (c : RCtx) (p : List Nat) (x : Field) : (remapField c p x).2 = [] := by
  unfold remapField; repeat' split
  all_goals rfl

theorem remapEnum_leaf (c : RCtx) (p : List Nat) (x : Enum) : (remapEnum c p x).2 = [] := by
  unfold remapEnum; split <;> rfl

theorem remapOneof_leaf (c : RCtx) (m : Id) (p : List Nat) (x : Oneof) : (remapOneof c m p x).2 = [] := by
  unfold remapOneof; split <;> rfl

mutual
theorem below_remapMsg (c : RCtx) (p : List Nat) (m : Msg) : Below p (remapMsg c p m).2 := by
  cases m with
  | mk id fields oneofs exts nested enums rangeOpts reserved mapEntry opts =>
    have he := under_sub (p := p) 6 (under_remapSlice (p ++ [6]) (remapField c) (remapField_leaf c) exts 0 0)
    have hn := under_sub (p := p) 3 (under_remapMsgs c (p ++ [3]) nested 0 0)
    have hm := under_sub (p := p) 4 (under_remapSlice (p ++ [4]) (remapEnum c) (remapEnum_leaf c) enums 0 0)
    have hf := under_sub (p := p) 2 (under_remapSlice (p ++ [2]) (remapField c) (remapField_leaf c) fields 0 0)
    have ho := under_sub (p := p) 8 (under_remapSlice (p ++ [8]) (remapOneof c id) (remapOneof_leaf c id) oneofs 0 0)
    unfold remapMsg
    split
    · intro mk hmk; cases hmk
    · split
      · split
        · simp only []
          refine below_append (below_append (below_append ?_ he) hn) hm
          intro mk hmk
          simp only [List.mem_cons, List.mem_nil_iff, or_false] at hmk
          rcases hmk with rfl | rfl | rfl | rfl | rfl | rfl
          · exact Or.inl ⟨rfl, rfl⟩
          · exact Or.inr ⟨2, [], rfl⟩
          · exact Or.inr ⟨8, [], rfl⟩
          · exact Or.inr ⟨5, [], rfl⟩
          · exact Or.inr ⟨9, [], rfl⟩
          · exact Or.inr ⟨10, [], rfl⟩
        · exact below_append (below_append he hn) hm
      · exact below_append (below_append (below_append (below_append hf ho) he) hn) hm
theorem under_remapMsgs (c : RCtx) (path : List Nat) (ms : List Msg) (fr to : Nat) :
    Under path (remapMsgs c path ms fr to).2 := by
  cases ms with
  | nil =>
    unfold remapMsgs
    intro mk hmk
    split at hmk
    · simp only [List.mem_cons, List.mem_nil_iff, or_false] at hmk; subst hmk; exact ⟨[], by simp⟩
    · cases hmk
  | cons x xs =>
    unfold remapMsgs
    have hb := below_remapMsg c (path ++ [fr]) x
    have hu : Under path (remapMsg c (path ++ [fr]) x).2 := by
      intro mk hmk
      obtain ⟨rest, hr⟩ := below_under hb mk hmk
      exact ⟨fr :: rest, by rw [hr]; simp⟩
    cases h : remapMsg c (path ++ [fr]) x with
    | mk r mks =>
      rw [h] at hu
      cases r with
      | none =>
        simp only []
        refine under_append (under_append hu ?_) (under_remapMsgs c path xs (fr + 1) to)
        intro mk hmk
        simp only [List.mem_cons, List.mem_nil_iff, or_false] at hmk; subst hmk; exact ⟨[fr], rfl⟩
      | some y =>
        simp only []
        refine under_append (under_append hu ?_) (under_remapMsgs c path xs (fr + 1) (to + 1))
        intro mk hmk
        split at hmk
        · simp only [List.mem_cons, List.mem_nil_iff, or_false] at hmk; subst hmk; exact ⟨[fr], rfl⟩
        · cases hmk
end

theorem actAt_append (a b : Marks) (q : List Nat) :
    actAt (a ++ b) q = match actAt a q with | some x => some x | none => actAt b q := by
  induction a with
  | nil => rfl
  | cons m ms ih =>
    rw [List.cons_append, actAt_cons, actAt_cons]
    split
    · rfl
    · exact ih

theorem actAt_below (p : List Nat) (ms : Marks) (h : Below p ms) (path : List Nat) (x j : Nat) (hp : p = path ++ [x]) :
    actAt ms (path ++ [j]) = none := by
  induction ms with
  | nil => rfl
  | cons m ms ih =>
    rw [actAt_cons]
    have hm := h m (by simp)
    have hne : ¬ (m.1 = path ++ [j] ∧ m.2 ≠ Act.noComment) := by
      rintro ⟨h1, h2⟩
      rcases hm with ⟨_, h3⟩ | ⟨y, rest, h3⟩
      · exact h2 h3
      · rw [h1, hp] at h3
        have := congrArg List.length h3
        simp at this
    simp only [hne, if_false]
    exact ih (fun mk hmk => h mk (by simp [hmk]))

/-- which messages of a list the rewrite keeps -/
def msgFlags (c : RCtx) (ms : List Msg) : List Bool := ms.map (fun m => c.has (.el m.id))

theorem remapMsg_isSome (c : RCtx) (p : List Nat) (m : Msg) : (remapMsg c p m).1.isSome = c.has (.el m.id) := by
  cases m with
  | mk id fields oneofs exts nested enums rangeOpts reserved mapEntry opts =>
    unfold remapMsg
    simp only [Msg.id]
    cases c.has (.el id)
    · simp
    · simp only [Bool.not_true, Bool.false_eq_true, if_false]
      repeat' split
      all_goals rfl

/-- On the sibling positions `path ++ [i]` the marks of a (nested) message list are those of the
    plain slice with the same keep flags: the marks of the messages themselves lie below. -/
theorem actAt_remapMsgs (c : RCtx) (path : List Nat) (ms : List Msg) (fr to j : Nat) :
    actAt (remapMsgs c path ms fr to).2 (path ++ [j]) =
      actAt (sliceMarks path (msgFlags c ms) fr to) (path ++ [j]) := by
  induction ms generalizing fr to with
  | nil => unfold remapMsgs msgFlags; rfl
  | cons x xs ih =>
    unfold remapMsgs
    have hb := below_remapMsg c (path ++ [fr]) x
    have hs := remapMsg_isSome c (path ++ [fr]) x
    cases h : remapMsg c (path ++ [fr]) x with
    | mk r mks =>
      rw [h] at hb hs
      have hnone := actAt_below (path ++ [fr]) mks hb path fr j rfl
      simp only [msgFlags, List.map_cons]
      cases r with
      | none =>
        simp only [Option.isSome_none] at hs
        rw [← hs]
        simp only [sliceMarks]
        rw [List.append_assoc, actAt_append, hnone]
        simp only [List.singleton_append]
        rw [actAt_cons, actAt_cons]
        split
        · rfl
        · exact ih _ _
      | some y =>
        simp only [Option.isSome_some] at hs
        rw [← hs]
        simp only [sliceMarks]
        rw [List.append_assoc, actAt_append, hnone]
        simp only []
        rw [actAt_append, actAt_append]
        have := ih (fr + 1) (to + 1)
        unfold msgFlags at this
        rw [this]

theorem noCommentAt_of_no_node (ms : Marks) (p : List Nat) (h : hasNode ms p = false) : noCommentAt ms p = false := by
  induction ms with
  | nil => rfl
  | cons m ms ih =>
    unfold hasNode at h
    simp only [List.any_cons, Bool.or_eq_false_iff] at h
    unfold noCommentAt
    simp only [List.any_cons, Bool.or_eq_false_iff]
    constructor
    · have : ¬ m.1 = p := by
        intro e
        have : p.isPrefixOf m.1 = true := by rw [e]; simp
        rw [this] at h; exact absurd h.1 (by simp)
      simp [this]
    · exact ih h.2

/-- `fix` of a one-component path below `pre`, from the action stored at that node. -/
theorem fixPath_single (ms : Marks) (pre : List Nat) (x : Nat) :
    fixPath ms pre [x] = match actAt ms (pre ++ [x]) with
      | some .deleted => none
      | some (.moved t) => some ([t], noCommentAt ms (pre ++ [x]))
      | _ => some ([x], noCommentAt ms (pre ++ [x])) := by
  unfold fixPath
  by_cases hn : hasNode ms (pre ++ [x]) = true
  · simp only [hn, Bool.not_true, Bool.false_eq_true, if_false]
    cases h : actAt ms (pre ++ [x]) with
    | none => rfl
    | some a => cases a <;> rfl
  · have hn' : hasNode ms (pre ++ [x]) = false := by simpa using hn
    simp only [hn', Bool.not_false, if_true]
    rw [actAt_of_no_node _ _ hn', noCommentAt_of_no_node _ _ hn']

/-- comments_follow_elements for message lists at any nesting depth (the marks of the nested
    declarations are present): location `path ++ [i]` is deleted exactly when message `i` is
    dropped and otherwise becomes `path ++ [newIdx i]`; its comments are dropped exactly when the
    trie holds a `noComment` mark there. -/
theorem fixPath_remapMsgs (c : RCtx) (path : List Nat) (ms : List Msg) (i : Nat) (hi : i < (msgFlags c ms).length) :
    fixPath (remapMsgs c path ms 0 0).2 path [i] =
      if (msgFlags c ms)[i] = false then none
      else some ([newIdx (msgFlags c ms) i 0], noCommentAt (remapMsgs c path ms 0 0).2 (path ++ [i])) := by
  rw [fixPath_single, actAt_remapMsgs]
  have hact := actAt_sliceMarks path (msgFlags c ms) 0 0 i hi
  simp only [Nat.zero_add] at hact
  rw [hact]
  by_cases hb : (msgFlags c ms)[i] = false
  · simp [hb]
  · simp only [hb, if_false]
    by_cases hm : i ≠ newIdx (msgFlags c ms) i 0
    · simp [hm]
    · have : i = newIdx (msgFlags c ms) i 0 := by omega
      have hb' : (msgFlags c ms)[i] = true := by simpa using hb
      simp only [hm, if_false, hb']
      rw [← this]
      simp

end BufProofs.FilterRewrite
