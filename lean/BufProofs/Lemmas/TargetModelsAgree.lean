import BufModel.ImagePaths
import BufProofs.Lemmas.TargetCharLemmas
/-
  The two models of `moduleReadBucket.getIsTargetFileForPathUncached` — `BufModel.Targeting.isTargetFile`
  (C01 / C10: Dir-walk `mapHasLoop`, proto-file reference) and `BufModel.ImagePaths.isTargetFile`
  (C11: `List.any` over `equalsOrContainsPath`, no proto-file reference) — agree wherever both are
  defined, i.e. without a proto-file reference (audit C01 weak point 6).
-/
namespace BufModel.Targeting
open BufModel.Path BufModel.Graph

theorem mapHas_eq_any (m : List Str) (p : Str) :
    mapHasEqualOrContainingPath m p = m.any (fun v => equalsOrContainsPath v p) := by
  rw [Bool.eq_iff_iff, mapHas_iff, List.any_eq_true]

theorem isTargetFile_eq_imagePaths (mt : Bool) (cfg : TCfg) (files : List PFile) (f : PFile)
    (fs : List BufModel.ImagePaths.File) (hpf : cfg.protoFile = []) :
    isTargetFile mt cfg files f =
      BufModel.ImagePaths.isTargetFile
        { isTarget := mt, targetPaths := cfg.paths, excludePaths := cfg.excludes, files := fs } f.path := by
  unfold isTargetFile BufModel.ImagePaths.isTargetFile BufModel.ImagePaths.mapHas
  simp only [hpf, ne_eq, not_true_eq_false, ↓reduceIte, mapHas_eq_any]
  cases mt
  · simp
  · cases hp : cfg.paths <;> cases he : cfg.excludes <;> simp

end BufModel.Targeting
