import BufProofs.Lemmas.FilterLemmas
/-
  The closure traversal of C12 (BufModel.Filter.run) — step characterisation, the rank order on
  modes, the termination potential (fuel bound) and the worklist invariant.
-/
namespace BufProofs.FilterClosure
open BufModel.Filter BufProofs.FilterLemmas

/-! ### generic list-sum helpers -/

theorem sum_map_le {α} (l : List α) (f g : α → Nat) (h : ∀ x ∈ l, f x ≤ g x) :
    (l.map f).sum ≤ (l.map g).sum := by
  induction l with
  | nil => simp
  | cons a as ih =>
    simp only [List.map_cons, List.sum_cons]
    have h1 := h a (by simp)
    have h2 := ih (fun x hx => h x (by simp [hx]))
    omega

theorem sum_map_le_add {α} (l : List α) (f g : α → Nat) (h : ∀ x ∈ l, f x ≤ g x)
    (a : α) (ha : a ∈ l) (d : Nat) (hd : f a + d ≤ g a) :
    (l.map f).sum + d ≤ (l.map g).sum := by
  induction l with
  | nil => cases ha
  | cons b bs ih =>
    simp only [List.map_cons, List.sum_cons]
    cases ha with
    | head =>
      have h2 := sum_map_le bs f g (fun x hx => h x (by simp [hx]))
      omega
    | tail _ ha =>
      have h1 := h b (by simp)
      have h2 := ih (fun x hx => h x (by simp [hx])) ha
      omega

/-! ### the rank order on modes: none < enclosing < implicit < explicit < excluded -/

def rank : Option Mode → Nat
  | none => 0
  | some .enclosing => 1
  | some .implicit => 2
  | some .explicit => 3
  | some .excluded => 4

/-- rank of key `k` in state `st`. -/
def rk (st : St) (k : Key) : Nat := rank (st.get k)

theorem rk_set (st : St) (k k' : Key) (m : Mode) :
    rk (st.set k' m) k = if k = k' then rank (some m) else rk st k := by
  unfold rk; rw [get_set]; split <;> rfl

theorem rk_addImport (st : St) (fr : Option Id) (to : Id) (k : Key) :
    rk (st.addImport fr to) k = rk st k := by
  unfold rk; rw [get_addImport]

theorem rk_excl {st : St} {k : Key} : rk st k = 4 ↔ st.get k = some .excluded := by
  unfold rk
  cases h : st.get k with
  | none => simp [rank]
  | some m => cases m <;> simp [rank]

theorem isExcl_iff {st : St} {k : Key} : st.isExcl k = true ↔ rk st k = 4 := by
  rw [rk_excl]; unfold St.isExcl; simp

theorem isExcl_false_iff {st : St} {k : Key} : st.isExcl k = false ↔ rk st k ≠ 4 := by
  rw [Ne, ← isExcl_iff]; cases st.isExcl k <;> simp

theorem find_mem {idx : Index} {k : Key} {i : Info} (h : idx.find k = some i) : i ∈ idx := by
  unfold Index.find at h
  exact List.mem_of_find?_eq_some h

/-! ### step characterisation -/

/-- the types a file expansion visits -/
def fileTys (c : Ctx) (i : Info) : List Id :=
  if c.cfg.svcMarksInput then i.types
  else i.types.filter (fun t => (c.idx.find (.el t)).map (·.kind) != some Kind.method)

theorem fileTys_sub (c : Ctx) (i : Info) : ∀ t ∈ fileTys c i, t ∈ i.types := by
  intro t ht
  unfold fileTys at ht
  split at ht
  · exact ht
  · exact (List.mem_filter.mp ht).1

theorem fileTys_length (c : Ctx) (i : Info) : (fileTys c i).length ≤ i.types.length := by
  unfold fileTys
  split
  · exact Nat.le_refl _
  · exact List.length_filter_le _ _

theorem expand_cases (c : Ctx) (st st1 : St) (k : Key) (ref : Option Id) (implied : Bool) (i : Info)
    (new : List Task) (h : expand c st k ref implied i = .ok (st1, new)) :
    (i.kind = .file ∧ st1 = st ∧
        new = (fileTys c i).map (fun t => Task.add (.el t) none false) ++ postTasks i ref) ∨
    (i.kind = .msg ∧ st1 = st ∧
        new = i.fields.map (fun f => Task.field f i.file) ++ [Task.oneofs k] ++
          i.rangeOpts.map (fun us => Task.opts us i.file) ++ postTasks i ref) ∨
    (i.kind = .enum ∧ st1 = st ∧ new = i.valueOpts.map (fun us => Task.opts us i.file) ++ postTasks i ref) ∨
    (i.kind = .svc ∧ st1 = st ∧ new = i.methods.map Task.svcMethod ++ postTasks i ref) ∨
    (i.kind = .method ∧ st1 = st ∧ st.isExcl (.el i.input) = false ∧ st.isExcl (.el i.output) = false ∧
        new = [Task.add (.el i.input) (some i.file) false, Task.add (.el i.output) (some i.file) false] ++
          postTasks i ref) ∨
    (i.kind = .ext ∧ ∃ f e, i.fld = some f ∧ f.extendee = some e ∧
        (((st.isExcl (.el e) = true ∨
            (c.cfg.extendeeFirst = false ∧ st.isExcl (.el e) = false ∧ typeExcluded st f = true)) ∧
           st1 = st.set k .excluded ∧ new = []) ∨
         (st.isExcl (.el e) = false ∧ st1 = st ∧
            new = [Task.add (.el e) (some i.file) implied, Task.extType k ref]))) := by
  unfold expand at h
  split at h
  · rename_i hk
    split at h
    · cases h
    · cases h
      exact Or.inl ⟨hk, rfl, rfl⟩
  · rename_i hk; cases h; exact Or.inr (Or.inl ⟨hk, rfl, rfl⟩)
  · rename_i hk; cases h; exact Or.inr (Or.inr (Or.inl ⟨hk, rfl, rfl⟩))
  · rename_i hk; cases h; exact Or.inr (Or.inr (Or.inr (Or.inl ⟨hk, rfl, rfl⟩)))
  · rename_i hk
    split at h
    · cases h
    · rename_i hx
      cases h
      simp only [Bool.or_eq_true, not_or, Bool.not_eq_true] at hx
      exact Or.inr (Or.inr (Or.inr (Or.inr (Or.inl ⟨hk, rfl, hx.1, hx.2, rfl⟩))))
  · rename_i hk
    split at h
    · cases h
    · rename_i f hf
      split at h
      · cases h
      · rename_i e he
        split at h
        · rename_i hx
          cases h
          exact Or.inr (Or.inr (Or.inr (Or.inr (Or.inr ⟨hk, f, e, hf, he, Or.inl ⟨Or.inl hx, rfl, rfl⟩⟩))))
        · rename_i hx
          simp only [Bool.not_eq_true] at hx
          split at h
          · rename_i hy
            cases h
            simp only [Bool.and_eq_true, Bool.not_eq_true'] at hy
            exact Or.inr (Or.inr (Or.inr (Or.inr (Or.inr ⟨hk, f, e, hf, he, Or.inl ⟨Or.inr ⟨hy.1, hx, hy.2⟩, rfl, rfl⟩⟩))))
          · cases h
            exact Or.inr (Or.inr (Or.inr (Or.inr (Or.inr ⟨hk, f, e, hf, he, Or.inr ⟨hx, rfl, rfl⟩⟩))))

theorem step_add_cases (c : Ctx) (st st1 : St) (k : Key) (ref : Option Id) (implied : Bool)
    (new : List Task) (h : step c st (.add k ref implied) = .ok (st1, new)) :
    ∃ i, c.idx.find k = some i ∧
      ((st.get k = some .excluded ∧ st1 = st ∧ new = []) ∨
       (st.get k = some .explicit ∧ st1 = st.addImport ref i.file ∧ new = []) ∨
       (st.get k = some .implicit ∧
          st1 = (if implied then st else st.set k .explicit).addImport ref i.file ∧ new = []) ∨
       ((st.get k = none ∨ st.get k = some .enclosing) ∧
          expand c (st.set k (newMode implied)) k ref implied i = .ok (st1, new))) := by
  simp only [step] at h
  split at h
  · cases h
  · rename_i i hi
    refine ⟨i, hi, ?_⟩
    split at h
    · rename_i hm; cases h; exact Or.inl ⟨hm, rfl, rfl⟩
    · rename_i hm; cases h; exact Or.inr (Or.inl ⟨hm, rfl, rfl⟩)
    · rename_i hm; cases h; exact Or.inr (Or.inr (Or.inl ⟨hm, rfl, rfl⟩))
    · rename_i hm; exact Or.inr (Or.inr (Or.inr ⟨Or.inr hm, h⟩))
    · rename_i hm; exact Or.inr (Or.inr (Or.inr ⟨Or.inl hm, h⟩))

theorem step_field_cases (c : Ctx) (st st1 : St) (f : Field) (file : Id) (new : List Task)
    (h : step c st (.field f file) = .ok (st1, new)) :
    st1 = st ∧
    ((f.ty = none ∧ new = [.opts f.opts file]) ∨
     (∃ t, f.ty = some t ∧ st.isExcl (.el t) = true ∧ new = []) ∨
     (∃ t, f.ty = some t ∧ st.isExcl (.el t) = false ∧
        new = [.add (.el t) (some file) false, .opts f.opts file])) := by
  simp only [step] at h
  split at h
  · rename_i ht; cases h; exact ⟨rfl, Or.inl ⟨ht, rfl⟩⟩
  · rename_i t ht
    split at h
    · rename_i hx; cases h; exact ⟨rfl, Or.inr (Or.inl ⟨t, ht, hx, rfl⟩)⟩
    · rename_i hx; cases h
      simp only [Bool.not_eq_true] at hx
      exact ⟨rfl, Or.inr (Or.inr ⟨t, ht, hx, rfl⟩)⟩

theorem step_oneofs_cases (c : Ctx) (st st1 : St) (k : Key) (new : List Task)
    (h : step c st (.oneofs k) = .ok (st1, new)) :
    ∃ i, c.idx.find k = some i ∧ oneofsStep st i i.oneofs 0 = (st1, new) := by
  simp only [step] at h
  split at h
  · cases h
  · rename_i i hi
    refine ⟨i, hi, ?_⟩
    injection h

theorem step_svcMethod_cases (c : Ctx) (st st1 : St) (m : Method) (new : List Task)
    (h : step c st (.svcMethod m) = .ok (st1, new)) :
    ((st.isExcl (.el m.input) = true ∨ st.isExcl (.el m.output) = true) ∧ new = [] ∧
        st1 = (if c.cfg.svcMarksInput then st.set (.el m.input) .excluded else st)) ∨
    (st.isExcl (.el m.input) = false ∧ st.isExcl (.el m.output) = false ∧ st1 = st ∧
        new = [.add (.el m.id) none false]) := by
  simp only [step] at h
  split at h
  · rename_i hx; cases h
    simp only [Bool.or_eq_true] at hx
    exact Or.inl ⟨hx, rfl, rfl⟩
  · rename_i hx; cases h
    simp only [Bool.or_eq_true, not_or, Bool.not_eq_true] at hx
    exact Or.inr ⟨hx.1, hx.2, rfl, rfl⟩

theorem step_extType_cases (c : Ctx) (st st1 : St) (k : Key) (ref : Option Id) (new : List Task)
    (h : step c st (.extType k ref) = .ok (st1, new)) :
    ∃ i f, c.idx.find k = some i ∧ i.fld = some f ∧
      ((f.ty = none ∧ st1 = st ∧ new = postTasks i ref) ∨
       (∃ t, f.ty = some t ∧ st.isExcl (.el t) = true ∧ st1 = st.set k .excluded ∧ new = []) ∨
       (∃ t, f.ty = some t ∧ st.isExcl (.el t) = false ∧ st1 = st ∧
          new = .add (.el t) (some i.file) false :: postTasks i ref)) := by
  simp only [step] at h
  split at h
  · cases h
  · rename_i i hi
    split at h
    · cases h
    · rename_i f hf
      refine ⟨i, f, hi, hf, ?_⟩
      split at h
      · rename_i ht; cases h; exact Or.inl ⟨ht, rfl, rfl⟩
      · rename_i t ht
        split at h
        · rename_i hx; cases h; exact Or.inr (Or.inl ⟨t, ht, hx, rfl, rfl⟩)
        · rename_i hx; cases h
          simp only [Bool.not_eq_true] at hx
          exact Or.inr (Or.inr ⟨t, ht, hx, rfl, rfl⟩)

theorem step_encl_cases (c : Ctx) (st st1 : St) (p : Option Key) (file : Id) (new : List Task)
    (h : step c st (.encl p file) = .ok (st1, new)) :
    (st1 = st ∧ new = [] ∧ (p = none ∨ ∃ k m, p = some k ∧ st.get k = some m)) ∨
    (∃ k i, p = some k ∧ st.get k = none ∧ c.idx.find k = some i ∧ st1 = st.set k .enclosing ∧
        new = [.opts i.opts file, .encl i.parent file]) := by
  simp only [step] at h
  split at h
  · cases h; exact Or.inl ⟨rfl, rfl, Or.inl rfl⟩
  · rename_i k
    split at h
    · rename_i m hm; cases h; exact Or.inl ⟨rfl, rfl, Or.inr ⟨k, m, rfl, hm⟩⟩
    · rename_i hm
      split at h
      · cases h
      · rename_i i hi; cases h
        exact Or.inr ⟨k, i, rfl, hm, hi, rfl, rfl⟩

theorem step_opts_cases (c : Ctx) (st st1 : St) (us : List OptUse) (file : Id) (new : List Task)
    (h : step c st (.opts us file) = .ok (st1, new)) :
    st1 = st ∧ ((c.customOpts = true ∧ new = us.map (fun u => Task.opt u file)) ∨
      (c.customOpts = false ∧ new = [])) := by
  simp only [step] at h
  split at h
  · rename_i hc; cases h; exact ⟨rfl, Or.inl ⟨hc, rfl⟩⟩
  · rename_i hc; cases h
    simp only [Bool.not_eq_true] at hc
    exact ⟨rfl, Or.inr ⟨hc, rfl⟩⟩

/-- the sub-tasks of one option use that is not skipped -/
def optTasks (u : OptUse) (file : Id) : List Task :=
  u.anys.map (fun a => Task.add (.el a) (some file) false) ++
    (match u.ext with | some e => [Task.add (.el e) (some file) true] | none => [])

theorem step_opt_cases (c : Ctx) (st st1 : St) (u : OptUse) (file : Id) (new : List Task)
    (h : step c st (.opt u file) = .ok (st1, new)) :
    st1 = st ∧ ((∃ e, u.ext = some e ∧ st.isExcl (.el e) = true ∧ new = []) ∨
      ((∀ e, u.ext = some e → st.isExcl (.el e) = false) ∧ new = optTasks u file)) := by
  simp only [step] at h
  cases hu : u.ext with
  | none =>
    rw [hu] at h
    simp only [Bool.false_eq_true, if_false] at h
    cases h
    refine ⟨rfl, Or.inr ⟨(by intro e he; cases he), ?_⟩⟩
    unfold optTasks; rw [hu]
  | some e =>
    rw [hu] at h
    simp only [] at h
    by_cases hx : st.isExcl (.el e) = true
    · rw [if_pos hx] at h
      cases h
      exact ⟨rfl, Or.inl ⟨e, rfl, hx, rfl⟩⟩
    · rw [if_neg hx] at h
      cases h
      simp only [Bool.not_eq_true] at hx
      refine ⟨rfl, Or.inr ⟨(by intro e' he'; cases he'; exact hx), ?_⟩⟩
      unfold optTasks; rw [hu]

theorem step_imp_cases (c : Ctx) (st st1 : St) (fr : Option Id) (to : Id) (new : List Task)
    (h : step c st (.imp fr to) = .ok (st1, new)) : st1 = st.addImport fr to ∧ new = [] := by
  simp only [step] at h
  cases h; exact ⟨rfl, rfl⟩

/-! ### termination: a potential that every machine step decreases -/

def wOpt (u : OptUse) : Nat := u.anys.length + 2
def wOpts (us : List OptUse) : Nat := 1 + (us.map wOpt).sum
def wPost (i : Info) : Nat := 2 + wOpts i.opts

/-- an upper bound on the machine steps a task costs, *not* counting the expansion of elements
    (paid for by the element, see `eCost`) and the marking of enclosing elements (`cCost`). -/
def wTask (c : Ctx) : Task → Nat
  | .add .. => 1
  | .field f _ => 2 + wOpts f.opts
  | .oneofs k => 1 + (match c.idx.find k with
      | some i => (i.oneofs.map (fun o => wOpts o.opts)).sum
      | none => 0)
  | .svcMethod _ => 2
  | .extType k _ => 2 + (match c.idx.find k with | some i => wPost i | none => 0)
  | .imp .. => 1
  | .encl .. => 1
  | .opts us _ => wOpts us
  | .opt u _ => wOpt u

def wTasks (c : Ctx) (ts : List Task) : Nat := (ts.map (wTask c)).sum

theorem wTasks_append (c : Ctx) (a b : List Task) : wTasks c (a ++ b) = wTasks c a + wTasks c b := by
  unfold wTasks; simp

theorem wTasks_cons (c : Ctx) (t : Task) (ts : List Task) : wTasks c (t :: ts) = wTask c t + wTasks c ts := by
  unfold wTasks; simp

theorem wTasks_nil (c : Ctx) : wTasks c [] = 0 := rfl

theorem wTask_pos (c : Ctx) (t : Task) : 1 ≤ wTask c t := by
  cases t <;> simp only [wTask, wOpts, wOpt] <;> omega

/-- cost of expanding an element (sub-tasks pushed by `expand`, whatever its kind) -/
def eCost (i : Info) : Nat :=
  i.types.length + (i.fields.map (fun f => 2 + wOpts f.opts)).sum +
    (1 + (i.oneofs.map (fun o => wOpts o.opts)).sum) + (i.rangeOpts.map wOpts).sum +
    (i.valueOpts.map wOpts).sum + 2 * i.methods.length + 2 + (3 + wPost i) + wPost i

/-- cost of marking an element as enclosing -/
def cCost (i : Info) : Nat := wOpts i.opts + 1

def pot (st : St) (i : Info) : Nat :=
  match st.get i.key with
  | none => eCost i + cCost i
  | some .enclosing => eCost i
  | _ => 0

def potSum (c : Ctx) (st : St) : Nat := (c.idx.map (pot st)).sum

theorem wTasks_postTasks (c : Ctx) (i : Info) (ref : Option Id) : wTasks c (postTasks i ref) = wPost i := by
  simp [postTasks, wTasks, wTask, wPost]; omega

theorem wTasks_map_const (c : Ctx) {α} (l : List α) (f : α → Task) (n : Nat) (h : ∀ a, wTask c (f a) = n) :
    wTasks c (l.map f) = n * l.length := by
  induction l with
  | nil => simp [wTasks]
  | cons a as ih =>
    simp only [List.map_cons, wTasks_cons, ih, h, List.length_cons]
    rw [Nat.mul_succ]; omega

theorem wTasks_map (c : Ctx) {α} (l : List α) (f : α → Task) :
    wTasks c (l.map f) = (l.map (fun a => wTask c (f a))).sum := by
  unfold wTasks; simp [List.map_map, Function.comp_def]

theorem pot_addImport (st : St) (fr : Option Id) (to : Id) (i : Info) :
    pot (st.addImport fr to) i = pot st i := by
  unfold pot; rw [get_addImport]

theorem potSum_addImport (c : Ctx) (st : St) (fr : Option Id) (to : Id) :
    potSum c (st.addImport fr to) = potSum c st := by
  unfold potSum
  congr 1
  apply List.map_congr_left
  intro i _
  exact pot_addImport st fr to i

/-- writing a mode never increases an element's potential, except `enclosing` over a set mode -/
theorem pot_set_le (st : St) (k : Key) (m : Mode) (h : m ≠ .enclosing ∨ st.get k = none) (i : Info) :
    pot (st.set k m) i ≤ pot st i := by
  unfold pot
  rw [get_set]
  by_cases e : i.key = k
  · simp only [e, if_true]
    rcases h with h | h
    · cases m <;> simp at h ⊢
    · rw [h]; cases m <;> simp
  · simp [e]

theorem potSum_set_le (c : Ctx) (st : St) (k : Key) (m : Mode) (h : m ≠ .enclosing ∨ st.get k = none) :
    potSum c (st.set k m) ≤ potSum c st :=
  sum_map_le _ _ _ (fun i _ => pot_set_le st k m h i)

theorem potSum_expand (c : Ctx) (st : St) (k : Key) (m : Mode) (i : Info)
    (hi : c.idx.find k = some i) (hm : m = .explicit ∨ m = .implicit)
    (hk : st.get k = none ∨ st.get k = some .enclosing) :
    potSum c (st.set k m) + eCost i ≤ potSum c st := by
  refine sum_map_le_add _ _ _ (fun j _ => pot_set_le st k m (by rcases hm with h | h <;> simp [h]) j)
    i (find_mem hi) _ ?_
  have hkey := find_key _ _ _ hi
  unfold pot
  rw [get_set, hkey]
  simp only [if_true]
  rcases hk with hk | hk <;> rcases hm with hm | hm <;> simp [hk, hm]

theorem potSum_encl (c : Ctx) (st : St) (k : Key) (i : Info)
    (hi : c.idx.find k = some i) (hk : st.get k = none) :
    potSum c (st.set k .enclosing) + cCost i ≤ potSum c st := by
  refine sum_map_le_add _ _ _ (fun j _ => pot_set_le st k .enclosing (Or.inr hk) j)
    i (find_mem hi) _ ?_
  have hkey := find_key _ _ _ hi
  unfold pot
  rw [get_set, hkey]
  simp [hk]

theorem oneofsStep_cost (c : Ctx) (st : St) (i : Info) (os : List Oneof) (n : Nat) :
    wTasks c (oneofsStep st i os n).2 ≤ (os.map (fun o => wOpts o.opts)).sum ∧
    potSum c (oneofsStep st i os n).1 ≤ potSum c st := by
  induction os generalizing st n with
  | nil => simp [oneofsStep, wTasks]
  | cons o os ih =>
    unfold oneofsStep
    split
    · simp only [List.map_cons, List.sum_cons]
      refine ⟨Nat.le_trans (ih _ _).1 (by omega), Nat.le_trans (ih _ _).2 ?_⟩
      exact potSum_set_le c st _ .excluded (Or.inl (by simp))
    · have := ih st (n + 1)
      simp only [List.map_cons, List.sum_cons, wTasks_cons, wTask]
      constructor
      · omega
      · exact this.2

theorem expand_cost (c : Ctx) (st st1 : St) (k : Key) (ref : Option Id) (implied : Bool) (i : Info)
    (new : List Task) (hi : c.idx.find k = some i)
    (h : expand c st k ref implied i = .ok (st1, new)) :
    wTasks c new + potSum c st1 ≤ eCost i + potSum c st := by
  rcases expand_cases c st st1 k ref implied i new h with
    ⟨_, rfl, rfl⟩ | ⟨_, rfl, rfl⟩ | ⟨_, rfl, rfl⟩ | ⟨_, rfl, rfl⟩ | ⟨_, rfl, _, _, rfl⟩ |
    ⟨_, f, e, _, _, h⟩
  · rw [wTasks_append, wTasks_postTasks, wTasks_map_const c _ _ 1 (fun _ => rfl)]
    have := fileTys_length c i
    unfold eCost; omega
  · have e1 : wTasks c (i.rangeOpts.map (fun us => Task.opts us i.file)) = (i.rangeOpts.map wOpts).sum := by
      rw [wTasks_map]; rfl
    have e2 : wTasks c (i.fields.map (fun f => Task.field f i.file)) =
        (i.fields.map (fun f => 2 + wOpts f.opts)).sum := by rw [wTasks_map]; rfl
    rw [wTasks_append, wTasks_append, wTasks_append, wTasks_postTasks, e1, e2]
    simp only [wTask, wTasks_cons, wTasks_nil, hi]
    unfold eCost; omega
  · have e1 : wTasks c (i.valueOpts.map (fun us => Task.opts us i.file)) = (i.valueOpts.map wOpts).sum := by
      rw [wTasks_map]; rfl
    rw [wTasks_append, wTasks_postTasks, e1]
    unfold eCost; omega
  · rw [wTasks_append, wTasks_postTasks, wTasks_map_const c _ _ 2 (fun _ => rfl)]
    unfold eCost; omega
  · rw [wTasks_append, wTasks_postTasks]
    simp only [wTasks_cons, wTasks_nil, wTask]
    unfold eCost; omega
  · rcases h with ⟨_, rfl, rfl⟩ | ⟨_, rfl, rfl⟩
    · have := potSum_set_le c st k .excluded (Or.inl (by simp))
      simp only [wTasks_nil]; omega
    · simp only [wTasks_cons, wTasks_nil, wTask, hi]
      unfold eCost; omega

/-- Every machine step strictly decreases `wTasks stack + potSum state`. -/
theorem step_cost (c : Ctx) (st st1 : St) (t : Task) (new : List Task)
    (h : step c st t = .ok (st1, new)) :
    wTasks c new + potSum c st1 + 1 ≤ wTask c t + potSum c st := by
  cases t with
  | add k ref implied =>
    obtain ⟨i, hi, hc⟩ := step_add_cases c st st1 k ref implied new h
    simp only [wTask]
    rcases hc with ⟨_, rfl, rfl⟩ | ⟨_, rfl, rfl⟩ | ⟨hm, rfl, rfl⟩ | ⟨hk, he⟩
    · simp only [wTasks_nil]; omega
    · rw [potSum_addImport]; simp only [wTasks_nil]; omega
    · rw [potSum_addImport]
      simp only [wTasks_nil]
      split
      · omega
      · have := potSum_set_le c st k .explicit (Or.inl (by simp)); omega
    · have h1 := expand_cost c _ st1 k ref implied i new hi he
      have h2 := potSum_expand c st k (newMode implied) i hi
        (by unfold newMode; cases implied <;> simp) hk
      omega
  | field f file =>
    obtain ⟨rfl, hc⟩ := step_field_cases c st st1 f file new h
    simp only [wTask]
    rcases hc with ⟨_, rfl⟩ | ⟨t, _, _, rfl⟩ | ⟨t, _, _, rfl⟩ <;>
      simp only [wTasks_cons, wTasks_nil, wTask] <;> omega
  | oneofs k =>
    obtain ⟨i, hi, he⟩ := step_oneofs_cases c st st1 k new h
    have := oneofsStep_cost c st i i.oneofs 0
    rw [he] at this
    simp only [wTask, hi]
    simp only [] at this
    omega
  | svcMethod m =>
    simp only [wTask]
    rcases step_svcMethod_cases c st st1 m new h with ⟨_, rfl, rfl⟩ | ⟨_, _, rfl, rfl⟩
    · simp only [wTasks_nil]
      split
      · have := potSum_set_le c st (.el m.input) .excluded (Or.inl (by simp)); omega
      · omega
    · simp only [wTasks_cons, wTasks_nil, wTask]; omega
  | extType k ref =>
    obtain ⟨i, f, hi, _, hc⟩ := step_extType_cases c st st1 k ref new h
    simp only [wTask, hi]
    rcases hc with ⟨_, rfl, rfl⟩ | ⟨t, _, _, rfl, rfl⟩ | ⟨t, _, _, rfl, rfl⟩
    · rw [wTasks_postTasks]; omega
    · have := potSum_set_le c st k .excluded (Or.inl (by simp))
      simp only [wTasks_nil]; omega
    · rw [wTasks_cons, wTasks_postTasks]; simp only [wTask]; omega
  | imp fr to =>
    obtain ⟨rfl, rfl⟩ := step_imp_cases c st st1 fr to new h
    rw [potSum_addImport]; simp only [wTasks_nil, wTask]; omega
  | encl p file =>
    simp only [wTask]
    rcases step_encl_cases c st st1 p file new h with ⟨rfl, rfl, _⟩ | ⟨k, i, _, hk, hi, rfl, rfl⟩
    · simp only [wTasks_nil]; omega
    · have := potSum_encl c st k i hi hk
      simp only [wTasks_cons, wTasks_nil, wTask]
      unfold cCost at this; omega
  | opts us file =>
    obtain ⟨rfl, hc⟩ := step_opts_cases c st st1 us file new h
    simp only [wTask]
    rcases hc with ⟨_, rfl⟩ | ⟨_, rfl⟩
    · rw [wTasks_map]
      show (us.map wOpt).sum + potSum c st1 + 1 ≤ wOpts us + potSum c st1
      unfold wOpts; omega
    · simp only [wTasks_nil]; unfold wOpts; omega
  | opt u file =>
    obtain ⟨rfl, hc⟩ := step_opt_cases c st st1 u file new h
    simp only [wTask]
    rcases hc with ⟨e, _, _, rfl⟩ | ⟨_, rfl⟩
    · simp only [wTasks_nil]; unfold wOpt; omega
    · unfold optTasks
      rw [wTasks_append, wTasks_map_const c _ _ 1 (fun _ => rfl)]
      have : wTasks c (match u.ext with | some e => [Task.add (.el e) (some file) true] | none => []) ≤ 1 := by
        split <;> simp [wTasks, wTask]
      unfold wOpt; omega

theorem step_ne_fuel (c : Ctx) (st : St) (t : Task) : step c st t ≠ .error .fuel := by
  intro h
  cases t with
  | add k ref implied =>
    simp only [step] at h
    split at h
    · cases h
    · rename_i i _
      have hx : ∀ st', expand c st' k ref implied i ≠ .error .fuel := by
        intro st' hh
        unfold expand at hh
        repeat' split at hh
        all_goals cases hh
      split at h
      · cases h
      · cases h
      · cases h
      · exact hx _ h
      · exact hx _ h
  | field f file => simp only [step] at h; repeat' split at h
                    all_goals cases h
  | oneofs k => simp only [step] at h; repeat' split at h
                all_goals cases h
  | svcMethod m => simp only [step] at h; repeat' split at h
                   all_goals cases h
  | extType k ref => simp only [step] at h; repeat' split at h
                     all_goals cases h
  | imp fr to => simp only [step] at h; cases h
  | encl p file => simp only [step] at h; repeat' split at h
                   all_goals cases h
  | opts us file => simp only [step] at h; repeat' split at h
                    all_goals cases h
  | opt u file => simp only [step] at h; repeat' split at h
                  all_goals cases h

/-- With fuel at least the potential the machine never runs out of fuel. -/
theorem run_ne_fuel (c : Ctx) (n : Nat) (st : St) (ts : List Task)
    (h : wTasks c ts + potSum c st ≤ n) : run c n st ts ≠ .error .fuel := by
  induction n generalizing st ts with
  | zero =>
    cases ts with
    | nil => simp [run]
    | cons t ts =>
      have := wTask_pos c t
      rw [wTasks_cons] at h; omega
  | succ n ih =>
    cases ts with
    | nil => simp [run]
    | cons t ts =>
      simp only [run]
      cases hs : step c st t with
      | error e =>
        simp only []
        intro he
        injection he with he
        rw [he] at hs
        exact step_ne_fuel c st t hs
      | ok r =>
        obtain ⟨st1, new⟩ := r
        simp only []
        apply ih
        have := step_cost c st st1 t new hs
        rw [wTasks_cons] at h
        rw [wTasks_append]
        omega

/-- The bound: one `add` task plus the full potential of the index. -/
def idxBound (idx : Index) : Nat := 1 + (idx.map (fun i => eCost i + cCost i)).sum

theorem potSum_le (c : Ctx) (st : St) : 1 + potSum c st ≤ idxBound c.idx := by
  unfold idxBound potSum
  have := sum_map_le c.idx (pot st) (fun i => eCost i + cCost i) (by
    intro i _
    unfold pot
    split <;> omega)
  omega

theorem run_add_ne_fuel (c : Ctx) (n : Nat) (st : St) (k : Key) (ref : Option Id) (implied : Bool)
    (h : idxBound c.idx ≤ n) : run c n st [.add k ref implied] ≠ .error .fuel := by
  apply run_ne_fuel
  have := potSum_le c st
  simp only [wTasks_cons, wTasks_nil, wTask]
  omega

def fuelBound (img : Image) : Nat := idxBound (buildIndex img)

theorem foldlE_ne {α β ε} (f : β → α → Except ε β) (e : ε) (hf : ∀ b a, f b a ≠ .error e)
    (b : β) (l : List α) : foldlE f b l ≠ .error e := by
  induction l generalizing b with
  | nil => simp [foldlE]
  | cons a as ih =>
    simp only [foldlE]
    cases h : f b a with
    | error e' =>
      simp only []
      intro he; injection he with he
      rw [he] at h; exact hf b a h
    | ok b' => exact ih b'

theorem closure_ne_fuel (cfg : Cfg) (img : Image) (o : Opts) (fuel : Nat)
    (h : fuelBound img ≤ fuel) : closure cfg img o fuel ≠ .error .fuel := by
  unfold closure
  simp only []
  have hrun : ∀ st k ref implied,
      run ⟨cfg, buildIndex img, o.customOpts⟩ fuel st [.add k ref implied] ≠ .error .fuel :=
    fun st k ref implied => run_add_ne_fuel _ _ _ _ _ _ h
  have h0 : ∀ st, foldlE (excludeType img (buildIndex img)) st o.excludes ≠ .error .fuel := by
    intro st
    apply foldlE_ne
    intro b a hh
    unfold excludeType at hh
    repeat' split at hh
    all_goals cases hh
  have h1 : ∀ st, foldlE (includeType ⟨cfg, buildIndex img, o.customOpts⟩ img o fuel) st o.includes ≠ .error .fuel := by
    intro st
    apply foldlE_ne
    intro b a hh
    unfold includeType at hh
    split at hh
    · repeat' split at hh
      all_goals first | (cases hh; done) | exact hrun _ _ _ _ hh
    · split at hh
      · cases hh
      · split at hh
        · cases hh
        · refine foldlE_ne _ _ ?_ _ _ hh
          intro b2 f hf
          unfold includeFile at hf
          split at hf
          · cases hf
          · exact hrun _ _ _ _ hf
  have h2 : ∀ st, includeEverything ⟨cfg, buildIndex img, o.customOpts⟩ img fuel st ≠ .error .fuel := by
    intro st
    unfold includeEverything
    apply foldlE_ne
    intro b f hf
    repeat' split at hf
    all_goals first | (cases hf; done) | exact hrun _ _ _ _ hf
  have h3 : ∀ st, addExtensions ⟨cfg, buildIndex img, o.customOpts⟩ fuel st ≠ .error .fuel := by
    intro st
    unfold addExtensions
    simp only []
    apply foldlE_ne
    intro b m
    apply foldlE_ne
    intro b2 x hx
    split at hx
    · cases hx
    · exact hrun _ _ _ _ hx
  cases e0 : foldlE (excludeType img (buildIndex img)) {} o.excludes with
  | error e => simp only []; intro he; injection he with he; rw [he] at e0; exact h0 _ e0
  | ok st0 =>
    simp only []
    cases e1 : foldlE (includeType ⟨cfg, buildIndex img, o.customOpts⟩ img o fuel) st0 o.includes with
    | error e => simp only []; intro he; injection he with he; rw [he] at e1; exact h1 _ e1
    | ok st1 =>
      simp only []
      cases hinc : o.includes.isEmpty with
      | true =>
        simp only [if_true]
        cases e2 : includeEverything ⟨cfg, buildIndex img, o.customOpts⟩ img fuel st1 with
        | error e => simp only []; intro he; injection he with he; rw [he] at e2; exact h2 _ e2
        | ok st2 =>
          simp only []
          split
          · exact h3 _
          · simp
      | false =>
        simp only [Bool.false_eq_true, if_false]
        split
        · exact h3 _
        · simp

theorem rewrite_ne_fuel (cfg : Cfg) (st : St) (noInc : Bool) (img : Image) :
    rewrite cfg st noInc img ≠ .error .fuel := by
  unfold rewrite
  simp only []
  repeat' split
  all_goals simp

theorem filterWith_ne_fuel (cfg : Cfg) (img : Image) (o : Opts) (fuel : Nat)
    (h : fuelBound img ≤ fuel) : filterWith cfg img o fuel ≠ .error .fuel := by
  unfold filterWith
  cases e : closure cfg img o fuel with
  | error e' =>
    simp only []
    intro he; injection he with he
    rw [he] at e; exact closure_ne_fuel cfg img o fuel h e
  | ok st => exact rewrite_ne_fuel _ _ _ _

/-! ### the worklist invariant

  `Post c st t` — the (shallow, monotone) post-condition of task `t`: what must hold of the state
  once `t` and everything it pushed has been processed.  For `add k` it only says "k is visited
  (implicit, explicit or excluded) and the import is recorded"; that the *requirements* of a visited
  element hold is the global invariant `Closed`, proved for the depth-first machine by induction on
  the fuel (cycles in the type graph are harmless: a key that is being expanded is already marked).
-/

theorem rank_le_four (m : Option Mode) : rank m ≤ 4 := by
  cases m with
  | none => simp [rank]
  | some m => cases m <;> simp [rank]

theorem rk_le_four (st : St) (k : Key) : rk st k ≤ 4 := rank_le_four _

/-- keys that no step of the fixed code ever excludes after the exclude phase: element keys whose
    index entry is not an extension. -/
def NonExt (c : Ctx) (k : Key) : Prop := (∀ m n, k ≠ .oneof m n) ∧ ∀ i, c.idx.find k = some i → i.fld = none

/-- the order in which closure states evolve -/
structure Le (c : Ctx) (a b : St) : Prop where
  mono : ∀ k, rk a k ≤ rk b k
  seen : ∀ x, x ∈ a.seen → x ∈ b.seen
  edges : ∀ e, e ∈ a.edges → e ∈ b.edges
  frozen : ∀ k, NonExt c k → rk b k = 4 → rk a k = 4

theorem Le.refl (c : Ctx) (a : St) : Le c a a :=
  ⟨fun _ => Nat.le_refl _, fun _ h => h, fun _ h => h, fun _ _ h => h⟩

theorem Le.trans {c : Ctx} {a b d : St} (h1 : Le c a b) (h2 : Le c b d) : Le c a d :=
  ⟨fun k => Nat.le_trans (h1.mono k) (h2.mono k), fun x h => h2.seen x (h1.seen x h),
   fun e h => h2.edges e (h1.edges e h), fun id hn h => h1.frozen id hn (h2.frozen id hn h)⟩

theorem Le.excl {c : Ctx} {a b : St} (h : Le c a b) {k : Key} (hk : rk a k = 4) : rk b k = 4 := by
  have := h.mono k; have := rk_le_four b k; omega

theorem seen_addImport (st : St) (fr : Option Id) (to x : Id) (h : x ∈ st.seen) :
    x ∈ (st.addImport fr to).seen := by
  unfold St.addImport
  cases fr with
  | none => simp only []; split <;> simp [h]
  | some f =>
    simp only []
    repeat' split
    all_goals simp [h]

theorem edges_addImport (st : St) (fr : Option Id) (to : Id) (e : Id × Id) (h : e ∈ st.edges) :
    e ∈ (st.addImport fr to).edges := by
  unfold St.addImport
  cases fr with
  | none => simp only []; split <;> simp [h]
  | some f =>
    simp only []
    repeat' split
    all_goals simp [h]

theorem le_addImport (c : Ctx) (st : St) (fr : Option Id) (to : Id) : Le c st (st.addImport fr to) :=
  ⟨fun k => by rw [rk_addImport]; exact Nat.le_refl _, seen_addImport st fr to, edges_addImport st fr to,
   fun id _ h => by rw [rk_addImport] at h; exact h⟩

/-- setting a mode of at least the current rank; a key that becomes excluded is not `NonExt`. -/
theorem le_set (c : Ctx) (st : St) (k : Key) (m : Mode) (h : rk st k ≤ rank (some m))
    (hx : m = .excluded → rk st k = 4 ∨ ¬ NonExt c k) :
    Le c st (st.set k m) := by
  refine ⟨?_, fun _ h => h, fun _ h => h, ?_⟩
  · intro k'; rw [rk_set]; split
    · rename_i e; rw [e]; exact h
    · exact Nat.le_refl _
  · intro k' hn hr
    rw [rk_set] at hr
    split at hr
    · rename_i e
      have hm : m = .excluded := by cases m <;> simp [rank] at hr ⊢
      rcases hx hm with h4 | h5
      · rw [e]; exact h4
      · rw [e] at hn; exact absurd hn h5
    · exact hr

/-- the import `ref → file` is recorded -/
def EdgeOK (st : St) (ref : Option Id) (file : Id) : Prop :=
  file ∈ st.seen ∧ ∀ r, ref = some r → r = file ∨ (r, file) ∈ st.edges

theorem edgeOK_addImport (st : St) (ref : Option Id) (file : Id) : EdgeOK (st.addImport ref file) ref file := by
  have hseen : file ∈ (if st.seen.contains file = true then st else { st with seen := file :: st.seen }).seen := by
    split
    · rename_i h; simpa using h
    · simp
  unfold EdgeOK St.addImport
  simp only []
  generalize (if st.seen.contains file = true then st else { st with seen := file :: st.seen }) = s0 at hseen ⊢
  cases ref with
  | none => exact ⟨hseen, by intro r hr; cases hr⟩
  | some f =>
    simp only []
    by_cases e : f = file
    · simp only [e, if_true]
      exact ⟨hseen, fun r hr => by cases hr; exact Or.inl rfl⟩
    · simp only [e, if_false]
      split
      · rename_i h
        exact ⟨hseen, fun r hr => by cases hr; exact Or.inr (by simpa using h)⟩
      · exact ⟨hseen, fun r hr => by cases hr; exact Or.inr (by simp)⟩

theorem EdgeOK.mono {c : Ctx} {a b : St} (h : Le c a b) {ref : Option Id} {file : Id} (e : EdgeOK a ref file) :
    EdgeOK b ref file :=
  ⟨h.seen _ e.1, fun r hr => (e.2 r hr).imp id (h.edges _)⟩

theorem EdgeOK.weaken {st : St} {ref : Option Id} {file : Id} (e : EdgeOK st ref file) : EdgeOK st none file :=
  ⟨e.1, by intro r hr; cases hr⟩

def PostAdd (c : Ctx) (st : St) (k : Key) (ref : Option Id) : Prop :=
  ∀ i, c.idx.find k = some i → 2 ≤ rk st k ∧ (rk st k = 4 ∨ EdgeOK st ref i.file)

def PostEncl (st : St) (p : Option Key) : Prop := ∀ k, p = some k → 1 ≤ rk st k

def PostOpt (c : Ctx) (st : St) (u : OptUse) (file : Id) : Prop :=
  (∃ e, u.ext = some e ∧ rk st (.el e) = 4) ∨
  ((∀ a ∈ u.anys, PostAdd c st (.el a) (some file)) ∧ ∀ e, u.ext = some e → PostAdd c st (.el e) (some file))

def PostOpts (c : Ctx) (st : St) (us : List OptUse) (file : Id) : Prop :=
  c.customOpts = true → ∀ u ∈ us, PostOpt c st u file

def PostTail (c : Ctx) (st : St) (i : Info) (ref : Option Id) : Prop :=
  EdgeOK st ref i.file ∧ PostEncl st i.parent ∧ PostOpts c st i.opts i.file

/-- a field whose type is not excluded when the oneof loop runs -/
def liveField (st : St) (f : Field) : Prop := ∀ t, f.ty = some t → rk st (.el t) ≠ 4

def oneofMsg (k : Key) : Id := match k with | .el m => m | _ => 0

def PostOneofs (c : Ctx) (st : St) (i : Info) : Prop :=
  ∀ n, n < i.oneofs.length → rk st (.oneof (oneofMsg i.key) n) = 4 ∨
    ∃ f ∈ i.fields, f.oneof = some n ∧ (∀ t, f.ty = some t → rk st (.el t) ≠ 4 ∨ ¬ NonExt c (.el t))

def Post (c : Ctx) (st : St) : Task → Prop
  | .add k ref _ => PostAdd c st k ref
  | .field f file =>
      (∃ t, f.ty = some t ∧ rk st (.el t) = 4) ∨
      ((∀ t, f.ty = some t → PostAdd c st (.el t) (some file)) ∧ PostOpts c st f.opts file)
  | .oneofs k => ∀ i, c.idx.find k = some i → PostOneofs c st i
  | .svcMethod m => rk st (.el m.input) = 4 ∨ rk st (.el m.output) = 4 ∨ PostAdd c st (.el m.id) none
  | .extType k ref => ∀ i f, c.idx.find k = some i → i.fld = some f →
      rk st k = 4 ∨ ((∀ t, f.ty = some t → PostAdd c st (.el t) (some i.file)) ∧ PostTail c st i ref)
  | .imp fr to => EdgeOK st fr to
  | .encl p _ => PostEncl st p
  | .opts us file => PostOpts c st us file
  | .opt u file => PostOpt c st u file

theorem PostAdd.mono {c : Ctx} {a b : St} (h : Le c a b) {k : Key} {ref : Option Id} (p : PostAdd c a k ref) :
    PostAdd c b k ref := by
  intro i hi
  obtain ⟨h2, h4⟩ := p i hi
  refine ⟨Nat.le_trans h2 (h.mono k), ?_⟩
  rcases h4 with h4 | h4
  · exact Or.inl (h.excl h4)
  · exact Or.inr (h4.mono h)

theorem PostEncl.mono {c : Ctx} {a b : St} (h : Le c a b) {p : Option Key} (q : PostEncl a p) : PostEncl b p :=
  fun k hk => Nat.le_trans (q k hk) (h.mono k)

theorem PostOpt.mono {c : Ctx} {a b : St} (h : Le c a b) {u : OptUse} {file : Id} (p : PostOpt c a u file) :
    PostOpt c b u file := by
  rcases p with ⟨e, he, hx⟩ | ⟨h1, h2⟩
  · exact Or.inl ⟨e, he, h.excl hx⟩
  · exact Or.inr ⟨fun a ha => (h1 a ha).mono h, fun e he => (h2 e he).mono h⟩

theorem PostOpts.mono {c : Ctx} {a b : St} (h : Le c a b) {us : List OptUse} {file : Id}
    (p : PostOpts c a us file) : PostOpts c b us file :=
  fun hc u hu => (p hc u hu).mono h

theorem PostTail.mono {c : Ctx} {a b : St} (h : Le c a b) {i : Info} {ref : Option Id}
    (p : PostTail c a i ref) : PostTail c b i ref :=
  ⟨p.1.mono h, p.2.1.mono h, p.2.2.mono h⟩

theorem PostOneofs.mono {c : Ctx} {a b : St} (h : Le c a b) {i : Info} (p : PostOneofs c a i) :
    PostOneofs c b i := by
  intro n hn
  rcases p n hn with hx | ⟨f, hf, ho, ht⟩
  · exact Or.inl (h.excl hx)
  · refine Or.inr ⟨f, hf, ho, ?_⟩
    intro t htt
    rcases ht t htt with h1 | h1
    · by_cases hne : NonExt c (.el t)
      · left; intro h4; exact h1 (h.frozen _ hne h4)
      · exact Or.inr hne
    · exact Or.inr h1

theorem Post.mono {c : Ctx} {a b : St} (h : Le c a b) {t : Task} (p : Post c a t) : Post c b t := by
  cases t with
  | add k ref implied => exact PostAdd.mono h p
  | field f file =>
    rcases p with ⟨t, ht, hx⟩ | ⟨h1, h2⟩
    · exact Or.inl ⟨t, ht, h.excl hx⟩
    · exact Or.inr ⟨fun t ht => (h1 t ht).mono h, h2.mono h⟩
  | oneofs k => exact fun i hi => (p i hi).mono h
  | svcMethod m =>
    rcases p with p | p | p
    · exact Or.inl (h.excl p)
    · exact Or.inr (Or.inl (h.excl p))
    · exact Or.inr (Or.inr (p.mono h))
  | extType k ref =>
    intro i f hi hf
    rcases p i f hi hf with p | ⟨p1, p2⟩
    · exact Or.inl (h.excl p)
    · exact Or.inr ⟨fun t ht => (p1 t ht).mono h, p2.mono h⟩
  | imp fr to => exact EdgeOK.mono h p
  | encl q file => exact PostEncl.mono h p
  | opts us file => exact PostOpts.mono h p
  | opt u file => exact PostOpt.mono h p

/-! #### every step moves the state up in `Le` -/

theorem oneofsStep_cons (st : St) (i : Info) (o : Oneof) (os : List Oneof) (n : Nat) :
    oneofsStep st i (o :: os) n =
      if (i.fields.filter (fun f => f.oneof = some n && fieldIncluded st f)).isEmpty then
        oneofsStep (st.set (.oneof (oneofMsg i.key) n) .excluded) i os (n + 1)
      else ((oneofsStep st i os (n + 1)).1, .opts o.opts i.file :: (oneofsStep st i os (n + 1)).2) := by
  rw [oneofsStep]
  unfold oneofMsg
  cases i.key <;> rfl

theorem not_nonExt_oneof (c : Ctx) (m : Id) (n : Nat) : ¬ NonExt c (.oneof m n) :=
  fun h => h.1 m n rfl

theorem oneofsStep_le (c : Ctx) (st : St) (i : Info) (os : List Oneof) (n : Nat) :
    Le c st (oneofsStep st i os n).1 := by
  induction os generalizing st n with
  | nil => exact Le.refl _ _
  | cons o os ih =>
    rw [oneofsStep_cons]
    split
    · exact Le.trans (le_set c st _ .excluded (rk_le_four _ _) (fun _ => Or.inr (not_nonExt_oneof c _ _))) (ih _ _)
    · exact ih _ _

theorem oneofsStep_rk_el (st : St) (i : Info) (os : List Oneof) (n : Nat) (k : Key) (hk : ∀ m j, k ≠ .oneof m j) :
    rk (oneofsStep st i os n).1 k = rk st k := by
  induction os generalizing st n with
  | nil => rfl
  | cons o os ih =>
    rw [oneofsStep_cons]
    split
    · rw [ih, rk_set]; simp [hk]
    · exact ih _ _

theorem oneofsStep_rk_cases (st : St) (i : Info) (os : List Oneof) (n : Nat) (k : Key) :
    rk (oneofsStep st i os n).1 k = rk st k ∨ rk (oneofsStep st i os n).1 k = 4 ∨ 2 ≤ rk st k := by
  induction os generalizing st n with
  | nil => exact Or.inl rfl
  | cons o os ih =>
    rw [oneofsStep_cons]
    split
    · rcases ih (st.set (.oneof (oneofMsg i.key) n) .excluded) (n + 1) with h | h | h
      · rw [h, rk_set]
        split
        · right; left; rfl
        · left; rfl
      · exact Or.inr (Or.inl h)
      · rw [rk_set] at h
        split at h
        · rename_i e
          have hx : rk (st.set (.oneof (oneofMsg i.key) n) .excluded) k = 4 := by rw [rk_set, if_pos e]; rfl
          have hl := oneofsStep_exclLe (st.set (.oneof (oneofMsg i.key) n) .excluded) i os (n + 1) k (rk_excl.mp hx)
          exact Or.inr (Or.inl (rk_excl.mpr hl))
        · exact Or.inr (Or.inr h)
    · exact ih _ _

theorem expand_le (c : Ctx) (st st1 : St) (k : Key) (ref : Option Id) (implied : Bool) (i : Info)
    (new : List Task) (hi : c.idx.find k = some i) (h : expand c st k ref implied i = .ok (st1, new)) :
    Le c st st1 := by
  rcases expand_cases c st st1 k ref implied i new h with
    ⟨_, rfl, _⟩ | ⟨_, rfl, _⟩ | ⟨_, rfl, _⟩ | ⟨_, rfl, _⟩ | ⟨_, rfl, _⟩ | ⟨_, f, e, hf, _, h⟩
  any_goals exact Le.refl _ _
  rcases h with ⟨_, rfl, _⟩ | ⟨_, rfl, _⟩
  · refine le_set c st k .excluded (rk_le_four _ _) (fun _ => Or.inr ?_)
    intro hn
    have := hn.2 i hi
    rw [hf] at this; cases this
  · exact Le.refl _ _

theorem rk_of_get {st : St} {k : Key} {m : Option Mode} (h : st.get k = m) : rk st k = rank m := by
  unfold rk; rw [h]

theorem step_le (c : Ctx) (hcfg : c.cfg.svcMarksInput = false) (st st1 : St) (t : Task) (new : List Task)
    (h : step c st t = .ok (st1, new)) : Le c st st1 := by
  cases t with
  | add k ref implied =>
    obtain ⟨i, hi, hc⟩ := step_add_cases c st st1 k ref implied new h
    rcases hc with ⟨_, rfl, _⟩ | ⟨_, rfl, _⟩ | ⟨hm, rfl, _⟩ | ⟨hk, he⟩
    · exact Le.refl _ _
    · exact le_addImport _ _ _ _
    · refine Le.trans ?_ (le_addImport _ _ _ _)
      split
      · exact Le.refl _ _
      · exact le_set c st k .explicit (by rw [rk_of_get hm]; simp [rank]) (by simp)
    · refine Le.trans (le_set c st k (newMode implied) ?_ ?_) (expand_le c _ st1 k ref implied i new hi he)
      · rcases hk with hk | hk <;> rw [rk_of_get hk] <;> cases implied <;> simp [rank, newMode]
      · cases implied <;> simp [newMode]
  | field f file => obtain ⟨rfl, _⟩ := step_field_cases c st st1 f file new h; exact Le.refl _ _
  | oneofs k =>
    obtain ⟨i, _, he⟩ := step_oneofs_cases c st st1 k new h
    have := oneofsStep_le c st i i.oneofs 0
    rw [he] at this; exact this
  | svcMethod m =>
    rcases step_svcMethod_cases c st st1 m new h with ⟨_, _, rfl⟩ | ⟨_, _, rfl, _⟩
    · rw [hcfg]; exact Le.refl _ _
    · exact Le.refl _ _
  | extType k ref =>
    obtain ⟨i, f, hi, hf, hc⟩ := step_extType_cases c st st1 k ref new h
    rcases hc with ⟨_, rfl, _⟩ | ⟨t, _, _, rfl, _⟩ | ⟨t, _, _, rfl, _⟩
    · exact Le.refl _ _
    · refine le_set c st k .excluded (rk_le_four _ _) (fun _ => Or.inr ?_)
      intro hn
      have := hn.2 i hi
      rw [hf] at this; cases this
    · exact Le.refl _ _
  | imp fr to => obtain ⟨rfl, _⟩ := step_imp_cases c st st1 fr to new h; exact le_addImport _ _ _ _
  | encl p file =>
    rcases step_encl_cases c st st1 p file new h with ⟨rfl, _, _⟩ | ⟨k, i, _, hk, _, rfl, _⟩
    · exact Le.refl _ _
    · exact le_set c st k .enclosing (by rw [rk_of_get hk]; simp [rank]) (by simp)
  | opts us file => obtain ⟨rfl, _⟩ := step_opts_cases c st st1 us file new h; exact Le.refl _ _
  | opt u file => obtain ⟨rfl, _⟩ := step_opt_cases c st st1 u file new h; exact Le.refl _ _

theorem run_le (c : Ctx) (hcfg : c.cfg.svcMarksInput = false) (n : Nat) (st st' : St) (ts : List Task)
    (h : run c n st ts = .ok st') : Le c st st' := by
  induction n generalizing st ts with
  | zero =>
    cases ts with
    | nil => simp [run] at h; subst h; exact Le.refl _ _
    | cons t ts => simp [run] at h
  | succ n ih =>
    cases ts with
    | nil => simp [run] at h; subst h; exact Le.refl _ _
    | cons t ts =>
      simp only [run] at h
      split at h
      · cases h
      · rename_i st1 new hs
        exact Le.trans (step_le c hcfg st st1 t new hs) (ih _ _ h)

/-! #### requirements of a visited element -/

/-- the sub-tasks an expansion of `i` pushes (with the import reference forgotten) -/
def reqTasks (c : Ctx) (i : Info) : List Task :=
  (match i.kind with
    | .file => (fileTys c i).map (fun t => Task.add (.el t) none false)
    | .msg => i.fields.map (fun f => Task.field f i.file) ++ [Task.oneofs i.key] ++
        i.rangeOpts.map (fun us => Task.opts us i.file)
    | .enum => i.valueOpts.map (fun us => Task.opts us i.file)
    | .svc => i.methods.map Task.svcMethod
    | .method => [Task.add (.el i.input) (some i.file) false, Task.add (.el i.output) (some i.file) false]
    | .ext => match i.fld with
      | some f =>
        (match f.extendee with | some e => [Task.add (.el e) (some i.file) false] | none => []) ++
        (match f.ty with | some t => [Task.add (.el t) (some i.file) false] | none => [])
      | none => []) ++ postTasks i none

def Reqs (c : Ctx) (st : St) (i : Info) : Prop := ∀ t ∈ reqTasks c i, Post c st t

theorem Reqs.mono {c : Ctx} {a b : St} (h : Le c a b) {i : Info} (p : Reqs c a i) : Reqs c b i :=
  fun t ht => (p t ht).mono h

/-- what one step owes to the keys whose rank it raises -/
def KeyClauses (c : Ctx) (st st1 st' : St) : Prop :=
  ∀ k i, c.idx.find k = some i →
    (rk st k < 1 → 1 ≤ rk st1 k → rk st' k ≤ 3 → PostEncl st' i.parent) ∧
    (rk st k < 2 → 2 ≤ rk st1 k → rk st' k ≤ 3 → Reqs c st' i)

theorem keyClauses_of_unch (c : Ctx) (st st1 st' : St) (hle : Le c st1 st')
    (hu : ∀ k, rk st1 k = rk st k ∨ rk st1 k = 4 ∨ 2 ≤ rk st k) : KeyClauses c st st1 st' := by
  intro k i _
  have h4 : rk st1 k = 4 → rk st' k = 4 := fun h => hle.excl h
  rcases hu k with h | h | h
  · exact ⟨fun a b _ => by omega, fun a b _ => by omega⟩
  · exact ⟨fun _ _ c => by have := h4 h; omega, fun _ _ c => by have := h4 h; omega⟩
  · exact ⟨fun a _ _ => by omega, fun a _ _ => by omega⟩

theorem post_postTasks_none (c : Ctx) (st : St) (i : Info) (ref : Option Id)
    (h : ∀ u ∈ postTasks i ref, Post c st u) : ∀ u ∈ postTasks i none, Post c st u := by
  intro u hu
  simp only [postTasks, List.mem_cons, List.mem_nil_iff, or_false] at hu h
  rcases hu with rfl | rfl | rfl
  · have := h (.imp ref i.file) (Or.inl rfl)
    exact EdgeOK.weaken this
  · exact h _ (Or.inr (Or.inl rfl))
  · exact h _ (Or.inr (Or.inr rfl))

theorem postTail_of_postTasks (c : Ctx) (st : St) (i : Info) (ref : Option Id)
    (h : ∀ u ∈ postTasks i ref, Post c st u) : PostTail c st i ref := by
  simp only [postTasks, List.mem_cons, List.mem_nil_iff, or_false] at h
  exact ⟨h (.imp ref i.file) (Or.inl rfl), h (.encl i.parent i.file) (Or.inr (Or.inl rfl)),
    h (.opts i.opts i.file) (Or.inr (Or.inr rfl))⟩

theorem oneofsStep_post (c : Ctx) (st : St) (i : Info) (os : List Oneof) (n : Nat) :
    ∀ j, j < os.length → rk (oneofsStep st i os n).1 (.oneof (oneofMsg i.key) (n + j)) = 4 ∨
      ∃ f ∈ i.fields, f.oneof = some (n + j) ∧ ∀ t, f.ty = some t → rk (oneofsStep st i os n).1 (.el t) ≠ 4 := by
  induction os generalizing st n with
  | nil => intro j hj; simp at hj
  | cons o os ih =>
    intro j hj
    rw [oneofsStep_cons]
    cases j with
    | zero =>
      split
      · left
        apply (oneofsStep_le c _ i os (n + 1)).excl
        rw [rk_set]; simp [rank]
      · rename_i hne
        right
        simp only [Nat.add_zero]
        cases hf : i.fields.filter (fun f => f.oneof = some n && fieldIncluded st f) with
        | nil => rw [hf] at hne; simp at hne
        | cons f fs =>
          have hm : f ∈ i.fields.filter (fun f => f.oneof = some n && fieldIncluded st f) := by rw [hf]; simp
          rw [List.mem_filter] at hm
          simp only [Bool.and_eq_true, decide_eq_true_eq] at hm
          refine ⟨f, hm.1, hm.2.1, ?_⟩
          intro t ht
          rw [oneofsStep_rk_el _ _ _ _ _ (by intro m j; simp)]
          have := hm.2.2
          unfold fieldIncluded at this
          rw [ht] at this
          simp only [Bool.not_eq_true'] at this
          exact isExcl_false_iff.mp this
    | succ j =>
      have hj' : j < os.length := by simpa using hj
      have e : n + (j + 1) = (n + 1) + j := by omega
      rw [e]
      split
      · exact ih _ _ j hj'
      · exact ih _ _ j hj'

/-- Soundness of one step with respect to the post-conditions: if the pushed tasks get their
    post-conditions in a later state, so does the task itself, and the keys whose rank the step
    raised get their requirements. -/
theorem step_sound (c : Ctx) (hcfg : c.cfg.svcMarksInput = false) (st st1 : St) (t : Task) (new : List Task)
    (h : step c st t = .ok (st1, new)) (st' : St) (hle : Le c st1 st')
    (hnew : ∀ u ∈ new, Post c st' u) :
    Post c st' t ∧ KeyClauses c st st1 st' := by
  cases t with
  | add k ref implied =>
    obtain ⟨i, hi, hc⟩ := step_add_cases c st st1 k ref implied new h
    have hkey := find_key _ _ _ hi
    rcases hc with ⟨hm, rfl, rfl⟩ | ⟨hm, rfl, rfl⟩ | ⟨hm, rfl, rfl⟩ | ⟨hk, he⟩
    · have h4 : rk st' k = 4 := hle.excl (by rw [rk_of_get hm]; rfl)
      refine ⟨fun i' _ => ⟨by omega, Or.inl h4⟩, keyClauses_of_unch c _ _ _ hle (fun _ => Or.inl rfl)⟩
    · have h3 : 3 ≤ rk st' k := by
        have := hle.mono k; rw [rk_addImport, rk_of_get hm] at this; exact this
      refine ⟨fun i' hi' => ⟨by omega, Or.inr ?_⟩,
        keyClauses_of_unch c _ _ _ hle (fun _ => Or.inl (rk_addImport _ _ _ _))⟩
      rw [hi] at hi'; cases hi'
      exact (edgeOK_addImport _ _ _).mono hle
    · have h2 : 2 ≤ rk st' k := by
        have := hle.mono k; rw [rk_addImport] at this
        split at this
        · rw [rk_of_get hm] at this; exact this
        · rw [rk_set] at this; simp [rank] at this; omega
      refine ⟨fun i' hi' => ⟨h2, Or.inr ?_⟩, keyClauses_of_unch c _ _ _ hle ?_⟩
      · rw [hi] at hi'; cases hi'
        exact (edgeOK_addImport _ _ _).mono hle
      · intro k'
        rw [rk_addImport]
        split
        · exact Or.inl rfl
        · rw [rk_set]
          split
          · rename_i e; right; right; rw [e, rk_of_get hm]; simp [rank]
          · exact Or.inl rfl
    · -- expansion
      have hr2 : rk (st.set k (newMode implied)) k ≥ 2 := by
        rw [rk_set]; cases implied <;> simp [newMode, rank]
      have hlow : rk st k < 2 := by rcases hk with hk | hk <;> rw [rk_of_get hk] <;> simp [rank]
      have hother : ∀ k', k' ≠ k → rk (st.set k (newMode implied)) k' = rk st k' := by
        intro k' hne; rw [rk_set]; simp [hne]
      have hle2 := expand_le c _ st1 k ref implied i new hi he
      have h2' : 2 ≤ rk st' k := Nat.le_trans hr2 (Nat.le_trans (hle2.mono k) (hle.mono k))
      -- generic finishing move once the obligations of `k` itself are known
      have fin : (rk st' k ≤ 3 → EdgeOK st' ref i.file ∧ PostEncl st' i.parent ∧ Reqs c st' i) →
          (∀ k', k' ≠ k → rk st1 k' = rk st k') →
          Post c st' (.add k ref implied) ∧ KeyClauses c st st1 st' := by
        intro hk3 hoth
        constructor
        · intro i' hi'
          rw [hi] at hi'; cases hi'
          refine ⟨h2', ?_⟩
          by_cases h4 : rk st' k = 4
          · exact Or.inl h4
          · exact Or.inr (hk3 (by have := rk_le_four st' k; omega)).1
        · intro k' i' hi'
          by_cases e : k' = k
          · subst e
            rw [hi] at hi'; cases hi'
            exact ⟨fun _ _ h3 => (hk3 h3).2.1, fun _ _ h3 => (hk3 h3).2.2⟩
          · have := hoth k' e
            exact ⟨fun _ _ _ => by omega, fun _ _ _ => by omega⟩
      rcases expand_cases c _ st1 k ref implied i new he with
        ⟨hkind, rfl, rfl⟩ | ⟨hkind, rfl, rfl⟩ | ⟨hkind, rfl, rfl⟩ | ⟨hkind, rfl, rfl⟩ |
        ⟨hkind, rfl, _, _, rfl⟩ | ⟨hkind, f, e, hf, hfe, hx⟩
      · refine fin (fun _ => ?_) hother
        have hp := postTail_of_postTasks c st' i ref (fun u hu => hnew u (by simp [hu]))
        refine ⟨hp.1, hp.2.1, ?_⟩
        intro t ht
        unfold reqTasks at ht
        rw [hkind] at ht
        simp only [List.mem_append] at ht
        rcases ht with ht | ht
        · exact hnew t (by simp only [List.mem_append]; exact Or.inl ht)
        · exact post_postTasks_none c st' i ref (fun u hu => hnew u (by simp [hu])) t ht
      · refine fin (fun _ => ?_) hother
        have hp := postTail_of_postTasks c st' i ref (fun u hu => hnew u (by simp [hu]))
        refine ⟨hp.1, hp.2.1, ?_⟩
        intro t ht
        unfold reqTasks at ht
        rw [hkind, hkey] at ht
        simp only [List.mem_append] at ht
        rcases ht with ht | ht
        · exact hnew t (by simp only [List.mem_append]; exact Or.inl ht)
        · exact post_postTasks_none c st' i ref (fun u hu => hnew u (by simp [hu])) t ht
      · refine fin (fun _ => ?_) hother
        have hp := postTail_of_postTasks c st' i ref (fun u hu => hnew u (by simp [hu]))
        refine ⟨hp.1, hp.2.1, ?_⟩
        intro t ht
        unfold reqTasks at ht
        rw [hkind] at ht
        simp only [List.mem_append] at ht
        rcases ht with ht | ht
        · exact hnew t (by simp only [List.mem_append]; exact Or.inl ht)
        · exact post_postTasks_none c st' i ref (fun u hu => hnew u (by simp [hu])) t ht
      · refine fin (fun _ => ?_) hother
        have hp := postTail_of_postTasks c st' i ref (fun u hu => hnew u (by simp [hu]))
        refine ⟨hp.1, hp.2.1, ?_⟩
        intro t ht
        unfold reqTasks at ht
        rw [hkind] at ht
        simp only [List.mem_append] at ht
        rcases ht with ht | ht
        · exact hnew t (by simp only [List.mem_append]; exact Or.inl ht)
        · exact post_postTasks_none c st' i ref (fun u hu => hnew u (by simp [hu])) t ht
      · refine fin (fun _ => ?_) hother
        have hp := postTail_of_postTasks c st' i ref (fun u hu => hnew u (by simp [hu]))
        refine ⟨hp.1, hp.2.1, ?_⟩
        intro t ht
        unfold reqTasks at ht
        rw [hkind] at ht
        simp only [List.mem_append] at ht
        rcases ht with ht | ht
        · exact hnew t (by simp only [List.mem_append]; exact Or.inl ht)
        · exact post_postTasks_none c st' i ref (fun u hu => hnew u (by simp [hu])) t ht
      · rcases hx with ⟨_, rfl, rfl⟩ | ⟨_, rfl, rfl⟩
        · have h4 : rk st' k = 4 := hle.excl (by rw [rk_set]; simp [rank])
          refine fin (fun h3 => by omega) ?_
          intro k' hne; rw [rk_set]; simp only [hne, if_false]; exact hother k' hne
        · refine fin (fun h3 => ?_) hother
          have hext := hnew (.extType k ref) (by simp)
          have hadd : Post c st' (.add (.el e) (some i.file) implied) := hnew _ (by simp)
          rcases hext i f hi hf with h4 | ⟨hty, htail⟩
          · omega
          · refine ⟨htail.1, htail.2.1, ?_⟩
            intro t ht
            unfold reqTasks at ht
            simp only [hkind, hf, hfe, List.mem_append, List.mem_cons, List.mem_nil_iff, or_false] at ht
            rcases ht with (rfl | ht) | ht
            · exact hadd
            · cases hty' : f.ty with
              | none => rw [hty'] at ht; cases ht
              | some ty =>
                rw [hty'] at ht
                simp only [List.mem_cons, List.mem_nil_iff, or_false] at ht
                subst ht
                exact hty ty hty'
            · simp only [postTasks, List.mem_cons, List.mem_nil_iff, or_false] at ht
              rcases ht with rfl | rfl | rfl
              · exact htail.1.weaken
              · exact htail.2.1
              · exact htail.2.2
  | field f file =>
    obtain ⟨rfl, hc⟩ := step_field_cases c st st1 f file new h
    refine ⟨?_, keyClauses_of_unch c _ _ _ hle (fun _ => Or.inl rfl)⟩
    rcases hc with ⟨hty, rfl⟩ | ⟨t, hty, hx, rfl⟩ | ⟨t, hty, hx, rfl⟩
    · exact Or.inr ⟨(fun t ht => by rw [hty] at ht; cases ht), hnew (.opts f.opts file) (by simp)⟩
    · exact Or.inl ⟨t, hty, hle.excl (isExcl_iff.mp hx)⟩
    · refine Or.inr ⟨fun t' ht' => ?_, hnew (.opts f.opts file) (by simp)⟩
      rw [hty] at ht'; cases ht'
      exact hnew (.add (.el t) (some file) false) (by simp)
  | oneofs k =>
    obtain ⟨i, hi, he⟩ := step_oneofs_cases c st st1 k new h
    have hst1 : st1 = (oneofsStep st i i.oneofs 0).1 := by rw [he]
    constructor
    · intro i' hi'
      rw [hi] at hi'; cases hi'
      apply PostOneofs.mono hle
      intro n hn
      have := oneofsStep_post c st i i.oneofs 0 n hn
      rw [← hst1] at this
      simp only [Nat.zero_add] at this
      rcases this with h4 | ⟨f, hf, ho, ht⟩
      · exact Or.inl h4
      · exact Or.inr ⟨f, hf, ho, fun t htt => Or.inl (ht t htt)⟩
    · apply keyClauses_of_unch c _ _ _ hle
      intro k'
      by_cases hk' : ∀ m j, k' ≠ .oneof m j
      · left; rw [hst1]; exact oneofsStep_rk_el _ _ _ _ _ hk'
      · -- a oneof key: its rank stays or goes to 4
        rw [hst1]
        exact oneofsStep_rk_cases st i i.oneofs 0 k'
  | svcMethod m =>
    rcases step_svcMethod_cases c st st1 m new h with ⟨hx, rfl, rfl⟩ | ⟨_, _, rfl, rfl⟩
    · have e : (if c.cfg.svcMarksInput = true then st.set (.el m.input) .excluded else st) = st := by
        rw [hcfg]; rfl
      rw [e] at hle ⊢
      refine ⟨?_, keyClauses_of_unch c _ _ _ hle (fun _ => Or.inl rfl)⟩
      rcases hx with hx | hx
      · exact Or.inl (hle.excl (isExcl_iff.mp hx))
      · exact Or.inr (Or.inl (hle.excl (isExcl_iff.mp hx)))
    · exact ⟨Or.inr (Or.inr (hnew (.add (.el m.id) none false) (by simp))),
        keyClauses_of_unch c _ _ _ hle (fun _ => Or.inl rfl)⟩
  | extType k ref =>
    obtain ⟨i, f, hi, hf, hc⟩ := step_extType_cases c st st1 k ref new h
    rcases hc with ⟨hty, rfl, rfl⟩ | ⟨t, hty, hx, rfl, rfl⟩ | ⟨t, hty, hx, rfl, rfl⟩
    · refine ⟨?_, keyClauses_of_unch c _ _ _ hle (fun _ => Or.inl rfl)⟩
      intro i' f' hi' hf'
      rw [hi] at hi'; cases hi'
      rw [hf] at hf'; cases hf'
      exact Or.inr ⟨(fun t ht => by rw [hty] at ht; cases ht), postTail_of_postTasks c st' i ref hnew⟩
    · refine ⟨?_, keyClauses_of_unch c _ _ _ hle ?_⟩
      · intro i' f' _ _
        exact Or.inl (hle.excl (by rw [rk_set]; simp [rank]))
      · intro k'; rw [rk_set]; split
        · right; left; rfl
        · left; rfl
    · refine ⟨?_, keyClauses_of_unch c _ _ _ hle (fun _ => Or.inl rfl)⟩
      intro i' f' hi' hf'
      rw [hi] at hi'; cases hi'
      rw [hf] at hf'; cases hf'
      refine Or.inr ⟨fun t' ht' => ?_, postTail_of_postTasks c st' i ref (fun u hu => hnew u (by simp [hu]))⟩
      rw [hty] at ht'; cases ht'
      exact hnew (.add (.el t) (some i.file) false) (by simp)
  | imp fr to =>
    obtain ⟨rfl, rfl⟩ := step_imp_cases c st st1 fr to new h
    exact ⟨(edgeOK_addImport _ _ _).mono hle,
      keyClauses_of_unch c _ _ _ hle (fun _ => Or.inl (rk_addImport _ _ _ _))⟩
  | encl p file =>
    rcases step_encl_cases c st st1 p file new h with ⟨rfl, rfl, hp⟩ | ⟨k, i, rfl, hk, hi, rfl, rfl⟩
    · refine ⟨?_, keyClauses_of_unch c _ _ _ hle (fun _ => Or.inl rfl)⟩
      intro k hk
      rcases hp with rfl | ⟨k', m, rfl, hm⟩
      · cases hk
      · cases hk
        have := hle.mono k
        rw [rk_of_get hm] at this
        have : 1 ≤ rank (some m) := by cases m <;> simp [rank]
        omega
    · constructor
      · intro k' hk'
        cases hk'
        have := hle.mono k
        rw [rk_set] at this; simp [rank] at this; exact this
      · intro k' i' hi'
        by_cases e : k' = k
        · subst e
          rw [hi] at hi'; cases hi'
          refine ⟨fun _ _ _ => hnew (.encl i.parent file) (by simp), fun _ h2 _ => ?_⟩
          rw [rk_set] at h2; simp [rank] at h2
        · have : rk (st.set k .enclosing) k' = rk st k' := by rw [rk_set]; simp [e]
          exact ⟨fun _ _ _ => by omega, fun _ _ _ => by omega⟩
  | opts us file =>
    obtain ⟨rfl, hc⟩ := step_opts_cases c st st1 us file new h
    refine ⟨?_, keyClauses_of_unch c _ _ _ hle (fun _ => Or.inl rfl)⟩
    rcases hc with ⟨_, rfl⟩ | ⟨hc, rfl⟩
    · intro _ u hu
      exact hnew (.opt u file) (by simp only [List.mem_map]; exact ⟨u, hu, rfl⟩)
    · intro hc'; rw [hc] at hc'; cases hc'
  | opt u file =>
    obtain ⟨rfl, hc⟩ := step_opt_cases c st st1 u file new h
    refine ⟨?_, keyClauses_of_unch c _ _ _ hle (fun _ => Or.inl rfl)⟩
    rcases hc with ⟨e, he, hx, rfl⟩ | ⟨_, rfl⟩
    · exact Or.inl ⟨e, he, hle.excl (isExcl_iff.mp hx)⟩
    · refine Or.inr ⟨fun a ha => ?_, fun e he => ?_⟩
      · exact hnew (.add (.el a) (some file) false) (by unfold optTasks; simp only [List.mem_append, List.mem_map]; exact Or.inl ⟨a, ha, rfl⟩)
      · exact hnew (.add (.el e) (some file) true) (by unfold optTasks; rw [he]; simp)

/-- **The worklist invariant of the depth-first machine.**  When a run finishes, every task that
    was on the initial stack has its post-condition, and every key whose rank the run raised has
    its requirements (`PostEncl` of the parent for anything that got a mode, `Reqs` for anything
    that was visited). -/
theorem run_closed (c : Ctx) (hcfg : c.cfg.svcMarksInput = false) (n : Nat) (st st' : St) (ts : List Task)
    (h : run c n st ts = .ok st') : (∀ t ∈ ts, Post c st' t) ∧ KeyClauses c st st' st' := by
  induction n generalizing st ts with
  | zero =>
    cases ts with
    | nil =>
      simp [run] at h; subst h
      exact ⟨by simp, fun k i _ => ⟨fun _ _ _ => by omega, fun _ _ _ => by omega⟩⟩
    | cons t ts => simp [run] at h
  | succ n ih =>
    cases ts with
    | nil =>
      simp [run] at h; subst h
      exact ⟨by simp, fun k i _ => ⟨fun _ _ _ => by omega, fun _ _ _ => by omega⟩⟩
    | cons t ts =>
      simp only [run] at h
      split at h
      · cases h
      · rename_i st1 new hs
        obtain ⟨hposts, hkeys⟩ := ih _ _ h
        have hle1 := run_le c hcfg _ _ _ _ h
        obtain ⟨hpt, hk0⟩ := step_sound c hcfg st st1 t new hs st' hle1
          (fun u hu => hposts u (by simp [hu]))
        constructor
        · intro u hu
          cases hu with
          | head => exact hpt
          | tail _ hu => exact hposts u (List.mem_append_right _ hu)
        · intro k i hi
          obtain ⟨a1, a2⟩ := hk0 k i hi
          obtain ⟨b1, b2⟩ := hkeys k i hi
          constructor
          · intro h0 h1 h3
            by_cases hm : rk st1 k < 1
            · exact b1 hm h1 h3
            · exact a1 h0 (by omega) h3
          · intro h0 h1 h3
            by_cases hm : rk st1 k < 2
            · exact b2 hm h1 h3
            · exact a2 h0 (by omega) h3

/-- the closure state is closed: everything that has a (non-excluded) mode has a parent with a
    mode, and everything visited has all its requirements. -/
def Closed (c : Ctx) (st : St) : Prop :=
  ∀ k i, c.idx.find k = some i →
    (1 ≤ rk st k → rk st k ≤ 3 → PostEncl st i.parent) ∧
    (2 ≤ rk st k → rk st k ≤ 3 → Reqs c st i)

theorem closed_of_onlyExcl (c : Ctx) (st : St) (h : OnlyExcl st) : Closed c st := by
  intro k i _
  have : rk st k = 0 ∨ rk st k = 4 := by
    rcases h k with h | h <;> rw [rk_of_get h] <;> simp [rank]
  exact ⟨fun _ _ => by omega, fun _ _ => by omega⟩

theorem closed_run (c : Ctx) (hcfg : c.cfg.svcMarksInput = false) (n : Nat) (st st' : St) (ts : List Task)
    (hc : Closed c st) (h : run c n st ts = .ok st') : Closed c st' := by
  have hle := run_le c hcfg _ _ _ _ h
  obtain ⟨_, hk⟩ := run_closed c hcfg n st st' ts h
  intro k i hi
  obtain ⟨a1, a2⟩ := hk k i hi
  obtain ⟨b1, b2⟩ := hc k i hi
  have := hle.mono k
  constructor
  · intro h1 h3
    by_cases hm : rk st k < 1
    · exact a1 hm h1 h3
    · exact (b1 (by omega) (by omega)).mono hle
  · intro h2 h3
    by_cases hm : rk st k < 2
    · exact a2 hm h2 h3
    · exact (b2 (by omega) (by omega)).mono hle

theorem foldlE_pres {α β ε} (P : β → Prop) (f : β → α → Except ε β)
    (hf : ∀ b a b', P b → f b a = .ok b' → P b') (b b' : β) (l : List α)
    (hb : P b) (h : foldlE f b l = .ok b') : P b' := by
  induction l generalizing b with
  | nil => simp [foldlE] at h; subst h; exact hb
  | cons a as ih =>
    simp only [foldlE] at h
    split at h
    · cases h
    · rename_i b1 hb1
      exact ih _ (hf _ _ _ hb hb1) h

/-- a state reachable from `s0` by runs of the machine: closed and above `s0` -/
def Good (c : Ctx) (s0 st : St) : Prop := Closed c st ∧ Le c s0 st

theorem good_run (c : Ctx) (hcfg : c.cfg.svcMarksInput = false) (s0 : St) (n : Nat) (st st' : St) (ts : List Task)
    (hg : Good c s0 st) (h : run c n st ts = .ok st') : Good c s0 st' :=
  ⟨closed_run c hcfg n st st' ts hg.1 h, Le.trans hg.2 (run_le c hcfg _ _ _ _ h)⟩

theorem good_includeFile (c : Ctx) (hcfg : c.cfg.svcMarksInput = false) (s0 : St) (fuel : Nat) (st st' : St)
    (f : File) (hg : Good c s0 st) (h : includeFile c fuel st f = .ok st') : Good c s0 st' := by
  unfold includeFile at h
  split at h
  · cases h
  · exact good_run c hcfg s0 _ _ _ _ hg h

theorem good_includeType (c : Ctx) (hcfg : c.cfg.svcMarksInput = false) (s0 : St) (img : Image) (o : Opts)
    (fuel : Nat) (st st' : St) (n : Id) (hg : Good c s0 st)
    (h : includeType c img o fuel st n = .ok st') : Good c s0 st' := by
  unfold includeType at h
  split at h
  · leaves h
    exact good_run c hcfg s0 _ _ _ _ hg h
  · leaves h
    exact foldlE_pres (Good c s0) _ (fun b a b' hb hh => good_includeFile c hcfg s0 fuel b b' a hb hh) _ _ _ hg h

theorem good_includeEverything (c : Ctx) (hcfg : c.cfg.svcMarksInput = false) (s0 : St) (img : Image)
    (fuel : Nat) (st st' : St) (hg : Good c s0 st)
    (h : includeEverything c img fuel st = .ok st') : Good c s0 st' := by
  unfold includeEverything at h
  refine foldlE_pres (Good c s0) _ ?_ _ _ _ hg h
  intro b a b' hb hh
  leaves hh
  · cases hh; exact hb
  · cases hh; exact hb
  · exact good_run c hcfg s0 _ _ _ _ hb hh

theorem good_addExtensions (c : Ctx) (hcfg : c.cfg.svcMarksInput = false) (s0 : St)
    (fuel : Nat) (st st' : St) (hg : Good c s0 st)
    (h : addExtensions c fuel st = .ok st') : Good c s0 st' := by
  unfold addExtensions at h
  refine foldlE_pres (Good c s0) _ ?_ _ _ _ hg h
  intro b a b' hb hh
  refine foldlE_pres (Good c s0) _ ?_ _ _ _ hb hh
  intro b2 a2 b2' hb2 hh2
  split at hh2
  · cases hh2; exact hb2
  · exact good_run c hcfg s0 _ _ _ _ hb2 hh2

theorem excludePhase_onlyExcl (img : Image) (idx : Index) (st st' : St) (ns : List Id)
    (h : foldlE (excludeType img idx) st ns = .ok st') (ho : OnlyExcl st) : OnlyExcl st' :=
  foldlE_pres OnlyExcl _ (fun b a b' hb hh => (excludeType_spec img idx b b' a hh hb).2.1) _ _ _ ho h

/-- The phases of `closure`, exposed. -/
theorem closure_phases (cfg : Cfg) (img : Image) (o : Opts) (fuel : Nat) (st : St)
    (h : closure cfg img o fuel = .ok st) :
    ∃ st0 st1 st2,
      foldlE (excludeType img (buildIndex img)) {} o.excludes = .ok st0 ∧
      foldlE (includeType ⟨cfg, buildIndex img, o.customOpts⟩ img o fuel) st0 o.includes = .ok st1 ∧
      (if o.includes.isEmpty then includeEverything ⟨cfg, buildIndex img, o.customOpts⟩ img fuel st1 else .ok st1) = .ok st2 ∧
      (if o.knownExts then addExtensions ⟨cfg, buildIndex img, o.customOpts⟩ fuel st2 else .ok st2) = .ok st := by
  unfold closure at h
  simp only [] at h
  split at h
  · cases h
  · rename_i st0 h0
    split at h
    · cases h
    · rename_i st1 h1
      split at h
      · cases h
      · rename_i st2 h2
        exact ⟨st0, st1, st2, h0, h1, h2, h⟩

/-- **Closure-level self-containedness**: the final closure state is `Closed`, lies above the
    state `st0` left by the exclude phase, and `st0` only knows excluded keys. -/
theorem closure_good (cfg : Cfg) (hcfg : cfg.svcMarksInput = false) (img : Image) (o : Opts) (fuel : Nat) (st : St)
    (h : closure cfg img o fuel = .ok st) :
    ∃ st0, foldlE (excludeType img (buildIndex img)) {} o.excludes = .ok st0 ∧ OnlyExcl st0 ∧
      Good ⟨cfg, buildIndex img, o.customOpts⟩ st0 st := by
  obtain ⟨st0, st1, st2, h0, h1, h2, h3⟩ := closure_phases cfg img o fuel st h
  have ho := excludePhase_onlyExcl _ _ _ _ _ h0 onlyExcl_empty
  refine ⟨st0, h0, ho, ?_⟩
  have g0 : Good ⟨cfg, buildIndex img, o.customOpts⟩ st0 st0 := ⟨closed_of_onlyExcl _ _ ho, Le.refl _ _⟩
  have g1 : Good ⟨cfg, buildIndex img, o.customOpts⟩ st0 st1 :=
    foldlE_pres (Good _ st0) _ (fun b a b' hb hh => good_includeType _ hcfg st0 img o fuel b b' a hb hh) _ _ _ g0 h1
  have g2 : Good ⟨cfg, buildIndex img, o.customOpts⟩ st0 st2 := by
    split at h2
    · exact good_includeEverything _ hcfg st0 img fuel _ _ g1 h2
    · cases h2; exact g1
  split at h3
  · exact good_addExtensions _ hcfg st0 fuel _ _ g2 h3
  · cases h3; exact g2

/-! ### includes are kept (closure level) -/

theorem run_add_explicit (c : Ctx) (hcfg : c.cfg.svcMarksInput = false) (n : Nat) (st st' : St) (k : Key)
    (ref : Option Id) (h : run c n st [.add k ref false] = .ok st') (hx : rk st k ≠ 4) : 3 ≤ rk st' k := by
  cases n with
  | zero => simp [run] at h
  | succ n =>
    simp only [run] at h
    split at h
    · cases h
    · rename_i st1 new hs
      have hle := run_le c hcfg _ _ _ _ h
      refine Nat.le_trans ?_ (hle.mono k)
      obtain ⟨i, hi, hc⟩ := step_add_cases c st st1 k ref false new hs
      rcases hc with ⟨hm, _, _⟩ | ⟨hm, rfl, _⟩ | ⟨hm, rfl, _⟩ | ⟨hk, he⟩
      · exact absurd (rk_excl.mpr hm) hx
      · rw [rk_addImport, rk_of_get hm]; simp [rank]
      · rw [rk_addImport]; simp [rk_set, rank]
      · have := (expand_le c _ st1 k ref false i new hi he).mono k
        rw [rk_set] at this
        simpa [newMode, rank] using this

/-- an explicitly added non-extension element is `explicit` when the run ends -/
theorem run_add_explicit_nonExt (c : Ctx) (hcfg : c.cfg.svcMarksInput = false) (n : Nat) (st st' : St) (k : Key)
    (ref : Option Id) (h : run c n st [.add k ref false] = .ok st') (hx : rk st k ≠ 4) (hn : NonExt c k) :
    rk st' k = 3 := by
  have h3 := run_add_explicit c hcfg n st st' k ref h hx
  have hle := run_le c hcfg _ _ _ _ h
  have := rk_le_four st' k
  by_cases h4 : rk st' k = 4
  · exact absurd (hle.frozen k hn h4) hx
  · omega

theorem explicit_stable {c : Ctx} {a b : St} (h : Le c a b) {k : Key} (hn : NonExt c k) (h3 : rk a k = 3) :
    rk b k = 3 := by
  have := h.mono k
  have := rk_le_four b k
  by_cases h4 : rk b k = 4
  · have := h.frozen k hn h4; omega
  · omega

theorem foldlE_each {α β ε} (P : β → Prop) (R : β → β → Prop) (Q : α → β → Prop) (f : β → α → Except ε β)
    (hrefl : ∀ b, R b b) (htrans : ∀ a b c, R a b → R b c → R a c)
    (hQ : ∀ a b b', Q a b → R b b' → Q a b')
    (hf : ∀ b a b', P b → f b a = .ok b' → P b' ∧ R b b' ∧ Q a b')
    (b b' : β) (l : List α) (hb : P b) (h : foldlE f b l = .ok b') :
    P b' ∧ R b b' ∧ ∀ a ∈ l, Q a b' := by
  induction l generalizing b with
  | nil => simp [foldlE] at h; subst h; exact ⟨hb, hrefl _, by simp⟩
  | cons a as ih =>
    simp only [foldlE] at h
    split at h
    · cases h
    · rename_i b1 hb1
      obtain ⟨p1, r1, q1⟩ := hf _ _ _ hb hb1
      obtain ⟨p2, r2, q2⟩ := ih _ p1 h
      refine ⟨p2, htrans _ _ _ r1 r2, ?_⟩
      intro x hx
      cases hx with
      | head => exact hQ _ _ _ q1 r2
      | tail _ hx => exact q2 x hx

/-- Every include that names a non-extension element is `explicit` in the final closure. -/
theorem closure_keeps_includes (cfg : Cfg) (hcfg : cfg.svcMarksInput = false) (img : Image) (o : Opts)
    (fuel : Nat) (st : St) (h : closure cfg img o fuel = .ok st) (n : Id) (hn : n ∈ o.includes)
    (i : Info) (hi : (buildIndex img).find (.el n) = some i) (hne : i.fld = none) :
    st.get (.el n) = some .explicit := by
  obtain ⟨st0, st1, st2, h0, h1, h2, h3⟩ := closure_phases cfg img o fuel st h
  have ho := excludePhase_onlyExcl _ _ _ _ _ h0 onlyExcl_empty
  let c : Ctx := ⟨cfg, buildIndex img, o.customOpts⟩
  have hnon : NonExt c (.el n) := ⟨by intro m j; simp, by intro i' hi'; rw [hi] at hi'; cases hi'; exact hne⟩
  have g0 : Closed c st0 := closed_of_onlyExcl _ _ ho
  -- the include phase
  have key := foldlE_each (Closed c) (Le c)
    (fun (m : Id) (s : St) => ∀ j, c.idx.find (.el m) = some j → j.fld = none → rk s (.el m) = 3)
    (includeType c img o fuel) (Le.refl c) (fun _ _ _ => Le.trans)
    (by
      intro m b b' q hle j hj hjn
      exact explicit_stable hle ⟨by intro m j; simp, by intro j' hj'; rw [hj] at hj'; cases hj'; exact hjn⟩ (q j hj hjn))
    (by
      intro b m b' hb hh
      have hg := good_includeType c hcfg b img o fuel b b' m ⟨hb, Le.refl _ _⟩ hh
      refine ⟨hg.1, hg.2, ?_⟩
      intro j hj hjn
      unfold includeType at hh
      have hj' : c.idx.find (.el m) = some j := hj
      rw [hj'] at hh
      simp only [] at hh
      leaves hh
      rename_i hx _ _
      have hk := find_key _ _ _ hj
      rw [hk] at hh hx
      simp only [Bool.not_eq_true] at hx
      exact run_add_explicit_nonExt c hcfg fuel b b' (.el m) none hh (isExcl_false_iff.mp hx)
        ⟨by intro m j; simp, by intro j' hj''; rw [hj] at hj''; cases hj''; exact hjn⟩)
    st0 st1 o.includes g0 h1
  obtain ⟨g1, _, q1⟩ := key
  have e1 : rk st1 (.el n) = 3 := q1 n hn i hi hne
  have g2 : Good c st1 st2 := by
    split at h2
    · exact good_includeEverything c hcfg st1 img fuel _ _ ⟨g1, Le.refl _ _⟩ h2
    · cases h2; exact ⟨g1, Le.refl _ _⟩
  have g3 : Good c st2 st := by
    split at h3
    · exact good_addExtensions c hcfg st2 fuel _ _ ⟨g2.1, Le.refl _ _⟩ h3
    · cases h3; exact ⟨g2.1, Le.refl _ _⟩
  have e3 : rk st (.el n) = 3 := explicit_stable g3.2 hnon (explicit_stable g2.2 hnon e1)
  unfold rk at e3
  cases hm : st.get (.el n) with
  | none => rw [hm] at e3; simp [rank] at e3
  | some m => rw [hm] at e3; cases m <;> simp [rank] at e3 ⊢

end BufProofs.FilterClosure
