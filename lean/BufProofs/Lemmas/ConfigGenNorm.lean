import BufProofs.Lemmas.ConfigGenLemmas
/-
  buf.gen.yaml: the EXACT effect of write + read on every configuration a reader produced
  (all three versions), `normalise` of BufModel.ConfigGen — C16, second pass.
-/
namespace BufModel.ConfigGen

/-! ## plugins -/

/-- Re-reading the written form of `p` gives `normPlugin env p`. -/
def PluginNorm (env : Env) (p : Plugin) : Prop :=
  readPluginV2 env (writePlugin env p) = some (normPlugin env p)

theorem joinSp_singleton (s : Str) : joinSp [s] = s := rfl

theorem mkRemote_norm {env : Env} {name out : Str} {opt : List Str} {ii iw : Bool}
    {it et : List Str} {rev : Int} {p : Plugin}
    (h : mkRemote env name out opt ii iw it et rev = some p) (hout : out ≠ []) :
    PluginNorm env p := by
  unfold mkRemote at h
  split at h
  · contradiction
  · rename_i hwkt
    split at h
    · contradiction
    · rename_i host hhost
      split at h
      · contradiction
      · rename_i hrev
        injection h with h
        subst h
        simp only [PluginNorm, writePlugin, readPluginV2, normPlugin, b2n, AnyStrs.isNil,
          Option.isSome, Option.map, Option.getD, toStrs_fromStrs]
        simp [hout, parseStrategy, mkRemote, hhost, hwkt]
        by_cases h0 : rev = 0 <;> simp [h0]; omega

theorem mkLocal_norm {env : Env} {name out : Str} {opt : List Str} {ii iw : Bool}
    {it et : List Str} {st : Option Strategy} {path : List Str} {p : Plugin}
    (h : mkLocal name out opt ii iw it et st path = some p) (hout : out ≠ []) :
    PluginNorm env p := by
  unfold mkLocal at h
  split at h
  · contradiction
  · rename_i hpath
    split at h
    · contradiction
    · rename_i hwkt
      injection h with h
      subst h
      simp only [PluginNorm, writePlugin, readPluginV2, normPlugin, b2n, Option.isSome,
        isNil_fromStrs, toStrs_fromStrs, parseStrategy_map_name]
      simp [hout, hpath, mkLocal, hwkt, AnyStrs.isNil]

theorem mkProtocBuiltin_norm {env : Env} {name out : Str} {opt : List Str} {ii iw : Bool}
    {it et : List Str} {st : Option Strategy} {pp : List Str} {p : Plugin}
    (h : mkProtocBuiltin name out opt ii iw it et st pp = some p) (hout : out ≠ []) :
    PluginNorm env p := by
  unfold mkProtocBuiltin at h
  split at h
  · contradiction
  · rename_i hwkt
    injection h with h
    subst h
    simp only [PluginNorm, writePlugin, readPluginV2, normPlugin, b2n, Option.isSome,
      isNil_fromStrs, toStrs_fromStrs, parseStrategy_map_name]
    simp [hout, mkProtocBuiltin, hwkt, AnyStrs.isNil]

/-- The undetermined kind: the writer resolves it (LookPath, then protoc's builtin list, else
    local), the reader then sees a definite Local or ProtocBuiltin plugin. -/
theorem mkLocalOrProtocBuiltin_norm {env : Env} {name out : Str} {opt : List Str} {ii iw : Bool}
    {it et : List Str} {st : Option Strategy} {p : Plugin}
    (h : mkLocalOrProtocBuiltin name out opt ii iw it et st = some p) (hout : out ≠ []) :
    PluginNorm env p := by
  unfold mkLocalOrProtocBuiltin at h
  split at h
  · contradiction
  · rename_i hwkt
    injection h with h
    subst h
    by_cases hl : env.lookPath (protocGen name) = true
    · simp only [PluginNorm, writePlugin, normPlugin, hl, if_true, Bool.true_or]
      simp only [readPluginV2, b2n, Option.isSome, AnyStrs.isNil,
        parseStrategy_map_name, toStrs_fromStrs]
      simp [hout, mkLocal, hwkt, joinSp_singleton, AnyStrs.toStrs]
    · have hl' : env.lookPath (protocGen name) = false := by simpa using hl
      by_cases hm : name ∈ protocProxyPluginNames
      · have hc : (env.lookPath (protocGen name) || !decide (name ∈ protocProxyPluginNames)) = false := by
          simp [hl', hm]
        simp only [PluginNorm, writePlugin, normPlugin, hl', hm, hc, if_true, if_false,
          Bool.false_eq_true]
        simp only [readPluginV2, b2n, Option.isSome, AnyStrs.isNil,
          parseStrategy_map_name, toStrs_fromStrs]
        simp [hout, mkProtocBuiltin, hwkt, AnyStrs.toStrs]
      · have hc : (env.lookPath (protocGen name) || !decide (name ∈ protocProxyPluginNames)) = true := by
          simp [hm]
        simp only [PluginNorm, writePlugin, normPlugin, hl', hm, hc, if_true, if_false,
          Bool.false_eq_true]
        simp only [readPluginV2, b2n, Option.isSome, AnyStrs.isNil,
          parseStrategy_map_name, toStrs_fromStrs]
        simp [hout, mkLocal, hwkt, joinSp_singleton, AnyStrs.toStrs]

macro "plugin_norm_branches" h:ident : tactic => `(tactic|
  (repeat' (split at $h:ident <;> try contradiction)
   all_goals first
     | exact mkRemote_norm $h (by assumption)
     | exact mkLocal_norm $h (by assumption)
     | exact mkProtocBuiltin_norm $h (by assumption)
     | exact mkLocalOrProtocBuiltin_norm $h (by assumption)))

theorem readPluginV2_norm {env : Env} {x : ExtPluginV2} {p : Plugin}
    (h : readPluginV2 env x = some p) : PluginNorm env p := by
  unfold readPluginV2 at h
  plugin_norm_branches h

theorem readPluginV1_norm {env : Env} {x : ExtPluginV1} {p : Plugin}
    (h : readPluginV1 env x = some p) : PluginNorm env p := by
  unfold readPluginV1 at h
  simp only at h
  plugin_norm_branches h

theorem readPluginV1Beta1_norm {env : Env} {x : ExtPluginV1Beta1} {p : Plugin}
    (h : readPluginV1Beta1 x = some p) : PluginNorm env p := by
  unfold readPluginV1Beta1 at h
  plugin_norm_branches h

/-! ## inputs -/

def InputNorm (i : Input) : Prop := readInputV2 (writeInput i) = some (normInput i)

theorem writeInput_normInput (i : Input) : writeInput (normInput i) = writeInput i := rfl

theorem readInputV2_normInput {x : ExtInputV2} {i : Input} (h : readInputV2 x = some i) :
    readInputV2 { x with excludeTypes := [] } = some (normInput i) := by
  unfold readInputV2 at h ⊢
  have hk : kinds { x with excludeTypes := [] } = kinds x := rfl
  rw [hk]
  split at h
  · rename_i t loc hkx
    split at h
    · contradiction
    · split at h
      · contradiction
      · rename_i hc ha
        injection h with h
        subst h
        have ha' : optsAllowed t { x with excludeTypes := [] } = optsAllowed t x := rfl
        simp only [hkx]
        rw [if_neg hc, ha', if_neg ha]
        rfl
  · contradiction

theorem readInputV2_norm {x : ExtInputV2} {i : Input} (h : readInputV2 x = some i) :
    InputNorm i := by
  have h' := readInputV2_normInput h
  have hok : InputOK (normInput i) := readInputV2_ok h' rfl
  unfold InputOK at hok
  rw [writeInput_normInput] at hok
  exact hok

/-! ## lists -/

theorem mapOpt_map_of_forall2 {α β : Type} {f : β → Option α} {g : α → β} {n : α → α} :
    ∀ (l : List α), (∀ x ∈ l, f (g x) = some (n x)) → mapOpt f (l.map g) = some (l.map n) := by
  intro l
  induction l with
  | nil => intro _; rfl
  | cons x xs ih =>
    intro h
    simp only [List.map, mapOpt]
    rw [h x (List.mem_cons_self), ih (fun y hy => h y (List.mem_cons_of_mem _ hy))]
    rfl

/-! ## files -/

/-- Every component of `c` is re-read from its written form as its normal form. -/
def GoodN (env : Env) (c : GenFile) : Prop :=
  (∀ p ∈ c.plugins, PluginNorm env p) ∧ ManagedGood env c.managed ∧ (∀ i ∈ c.inputs, InputNorm i)

theorem readGen_goodN {env : Env} {e : ExtGen} {c : GenFile} (h : readGen env e = some c) :
    GoodN env c := by
  cases e with
  | v1beta1 d =>
    simp only [readGen, readV1Beta1] at h
    repeat' (split at h <;> try contradiction)
    rename_i _ m hm _ _ ps hps
    injection h with h; subst h
    exact ⟨mapOpt_forall (P := fun p => PluginNorm env p) (fun _ _ h => readPluginV1Beta1_norm h) hps,
           readManagedV1Beta1_good hm, by intro i hi; cases hi⟩
  | v1 d =>
    simp only [readGen, readV1] at h
    repeat' (split at h <;> try contradiction)
    rename_i _ m hm _ _ ps hps
    injection h with h; subst h
    exact ⟨mapOpt_forall (P := fun p => PluginNorm env p) (fun _ _ h => readPluginV1_norm h) hps,
           readManagedV1_good hm, by intro i hi; cases hi⟩
  | v2 d =>
    simp only [readGen, readV2] at h
    repeat' (split at h <;> try contradiction)
    rename_i m ps is hm hps his
    injection h with h; subst h
    exact ⟨mapOpt_forall (P := fun p => PluginNorm env p) (fun _ _ h => readPluginV2_norm h) hps,
           readManagedV2_good hm,
           mapOpt_forall (P := fun i => InputNorm i) (fun _ _ h => readInputV2_norm h) his⟩

theorem goodN_reread {env : Env} {c : GenFile} (hg : GoodN env c) :
    readGen env (.v2 (writeGen env c)) = some (normalise env c) := by
  obtain ⟨hp, hm, hi⟩ := hg
  simp only [readGen, readV2, writeGen]
  rw [managed_roundtrip hm,
    mapOpt_map_of_forall2 (n := normPlugin env) c.plugins (fun p hpm => hp p hpm),
    mapOpt_map_of_forall2 (n := normInput) c.inputs (fun i him => hi i him)]
  rfl

/-- **buf.gen.yaml, the exact effect of write + read.**  For every external document `e` of any
    version (v1beta1, v1, v2) and every environment, if the reader accepts it with configuration
    `c`, then the (v2) document the writer produces for `c` is accepted and read as
    `normalise env c`. -/
theorem gen_reread_eq_normalise {env : Env} {e : ExtGen} {c : GenFile}
    (h : readGen env e = some c) :
    readGen env (.v2 (writeGen env c)) = some (normalise env c) :=
  goodN_reread (readGen_goodN h)

/-! ## `normalise` is a projection and its fixed points are the representable configurations -/

theorem normPlugin_idem (env : Env) (p : Plugin) :
    normPlugin env (normPlugin env p) = normPlugin env p := by
  cases ht : p.type
  · simp only [normPlugin, ht]
  · simp only [normPlugin, ht]
  · simp only [normPlugin, ht]
  · by_cases hc : (env.lookPath (protocGen p.name) || !decide (p.name ∈ protocProxyPluginNames)) = true
    · simp only [normPlugin, ht, hc, if_true, joinSp_singleton]
    · simp only [normPlugin, ht, hc, if_false, Bool.false_eq_true]

theorem normInput_idem (i : Input) : normInput (normInput i) = normInput i := rfl

theorem normalise_idem (env : Env) (c : GenFile) :
    normalise env (normalise env c) = normalise env c := by
  simp only [normalise, List.map_map]
  congr 1
  · apply List.map_congr_left
    intro p _
    exact normPlugin_idem env p

theorem normPlugin_eq_self_iff (env : Env) (p : Plugin) : normPlugin env p = p ↔ RepPlugin p := by
  constructor
  · intro h
    cases ht : p.type
    · simp only [normPlugin, ht] at h
      refine ⟨(by rw [ht]; decide), (by intro hc; rw [ht] at hc; cases hc), ?_, ?_⟩
      · rw [← h]
      · rw [← h]
    · simp only [normPlugin, ht] at h
      refine ⟨(by rw [ht]; decide), fun _ => ?_, ?_, ?_⟩
      · have := congrArg Plugin.name h; simpa using this.symm
      · rw [← h]
      · rw [← h]
    · simp only [normPlugin, ht] at h
      refine ⟨(by rw [ht]; decide), (by intro hc; rw [ht] at hc; cases hc), ?_, ?_⟩
      · rw [← h]
      · rw [← h]
    · exfalso
      simp only [normPlugin, ht] at h
      split at h
      · have := congrArg Plugin.type h; rw [ht] at this; cases this
      · have := congrArg Plugin.type h; rw [ht] at this; cases this
  · intro ⟨h1, h2, h3, h4⟩
    cases ht : p.type
    · simp only [normPlugin, ht]; cases p; simp_all
    · have := h2 ht
      simp only [normPlugin, ht]; cases p; simp_all
    · simp only [normPlugin, ht]; cases p; simp_all
    · exact absurd ht h1

theorem map_eq_self_iff {α : Type} (f : α → α) (l : List α) : l.map f = l ↔ ∀ x ∈ l, f x = x := by
  induction l with
  | nil => simp
  | cons x xs ih => simp [ih]

theorem normInput_eq_self_iff (i : Input) : normInput i = i ↔ i.excludeTypes = [] := by
  constructor
  · intro h; rw [← h]; rfl
  · intro h; cases i; simp_all [normInput]

/-- The configurations on which write + read is the identity are exactly the `Representable`
    ones. -/
theorem normalise_eq_self_iff (env : Env) (c : GenFile) : normalise env c = c ↔ Representable c := by
  constructor
  · intro h
    have hp : c.plugins.map (normPlugin env) = c.plugins := by
      have := congrArg GenFile.plugins h; simpa [normalise] using this
    have ht : ([] : List Str) = c.typeInclude := by
      have := congrArg GenFile.typeInclude h; simpa [normalise] using this
    have hi : c.inputs.map normInput = c.inputs := by
      have := congrArg GenFile.inputs h; simpa [normalise] using this
    refine ⟨fun p hpm => (normPlugin_eq_self_iff env p).mp ((map_eq_self_iff _ _).mp hp p hpm),
      ht.symm, fun i him => (normInput_eq_self_iff i).mp ((map_eq_self_iff _ _).mp hi i him)⟩
  · intro ⟨hp, ht, hi⟩
    have hp' : c.plugins.map (normPlugin env) = c.plugins :=
      (map_eq_self_iff _ _).mpr fun p hpm => (normPlugin_eq_self_iff env p).mpr (hp p hpm)
    have hi' : c.inputs.map normInput = c.inputs :=
      (map_eq_self_iff _ _).mpr fun i him => (normInput_eq_self_iff i).mpr (hi i him)
    cases c
    simp_all [normalise]

/-- A normal form is representable: the SECOND write + read is always the identity. -/
theorem representable_normalise (env : Env) (c : GenFile) : Representable (normalise env c) :=
  (normalise_eq_self_iff env _).mp (normalise_idem env c)

/-- For a configuration a reader produced: the round trip is the identity if and only if the
    configuration is `Representable`. -/
theorem gen_roundtrip_iff {env : Env} {e : ExtGen} {c : GenFile} (h : readGen env e = some c) :
    readGen env (.v2 (writeGen env c)) = some c ↔ Representable c := by
  rw [gen_reread_eq_normalise h]
  constructor
  · intro h'; injection h' with h'; exact (normalise_eq_self_iff env c).mp h'
  · intro h'; rw [(normalise_eq_self_iff env c).mpr h']

/-! ## the writer does not see the difference: writing is idempotent for EVERY accepted document -/

theorem mkLocalOrProtocBuiltin_fields {name out : Str} {opt : List Str} {ii iw : Bool}
    {it et : List Str} {st : Option Strategy} {p : Plugin}
    (h : mkLocalOrProtocBuiltin name out opt ii iw it et st = some p) : p.protocPath = [] := by
  unfold mkLocalOrProtocBuiltin at h
  split at h
  · contradiction
  · injection h with h; subst h; rfl

/-- Shape fact the idempotence of the writer needs: an undetermined plugin has no protoc_path. -/
def LoPBShape (p : Plugin) : Prop := p.type = .localOrProtocBuiltin → p.protocPath = []

theorem mkRemote_shape {env : Env} {name out : Str} {opt : List Str} {ii iw : Bool}
    {it et : List Str} {rev : Int} {p : Plugin}
    (h : mkRemote env name out opt ii iw it et rev = some p) : LoPBShape p := by
  intro ht; rw [mkRemote_type h] at ht; cases ht

theorem mkLocal_shape {name out : Str} {opt : List Str} {ii iw : Bool} {it et : List Str}
    {st : Option Strategy} {path : List Str} {p : Plugin}
    (h : mkLocal name out opt ii iw it et st path = some p) : LoPBShape p := by
  intro ht; rw [(mkLocal_fields h).1] at ht; cases ht

theorem mkProtocBuiltin_shape {name out : Str} {opt : List Str} {ii iw : Bool} {it et : List Str}
    {st : Option Strategy} {pp : List Str} {p : Plugin}
    (h : mkProtocBuiltin name out opt ii iw it et st pp = some p) : LoPBShape p := by
  intro ht; rw [mkProtocBuiltin_type h] at ht; cases ht

theorem mkLocalOrProtocBuiltin_shape {name out : Str} {opt : List Str} {ii iw : Bool}
    {it et : List Str} {st : Option Strategy} {p : Plugin}
    (h : mkLocalOrProtocBuiltin name out opt ii iw it et st = some p) : LoPBShape p :=
  fun _ => mkLocalOrProtocBuiltin_fields h

macro "plugin_shape_branches" h:ident : tactic => `(tactic|
  (repeat' (split at $h:ident <;> try contradiction)
   all_goals first
     | exact mkRemote_shape $h
     | exact mkLocal_shape $h
     | exact mkProtocBuiltin_shape $h
     | exact mkLocalOrProtocBuiltin_shape $h))

theorem readPluginV2_shape {env : Env} {x : ExtPluginV2} {p : Plugin}
    (h : readPluginV2 env x = some p) : LoPBShape p := by
  unfold readPluginV2 at h
  plugin_shape_branches h

theorem readPluginV1_shape {env : Env} {x : ExtPluginV1} {p : Plugin}
    (h : readPluginV1 env x = some p) : LoPBShape p := by
  unfold readPluginV1 at h
  simp only at h
  plugin_shape_branches h

theorem readPluginV1Beta1_shape {x : ExtPluginV1Beta1} {p : Plugin}
    (h : readPluginV1Beta1 x = some p) : LoPBShape p := by
  unfold readPluginV1Beta1 at h
  plugin_shape_branches h

theorem readGen_shape {env : Env} {e : ExtGen} {c : GenFile} (h : readGen env e = some c) :
    ∀ p ∈ c.plugins, LoPBShape p := by
  cases e with
  | v1beta1 d =>
    simp only [readGen, readV1Beta1] at h
    repeat' (split at h <;> try contradiction)
    rename_i _ m hm _ _ ps hps
    injection h with h; subst h
    exact mapOpt_forall (P := LoPBShape) (fun _ _ h => readPluginV1Beta1_shape h) hps
  | v1 d =>
    simp only [readGen, readV1] at h
    repeat' (split at h <;> try contradiction)
    rename_i _ m hm _ _ ps hps
    injection h with h; subst h
    exact mapOpt_forall (P := LoPBShape) (fun _ _ h => readPluginV1_shape h) hps
  | v2 d =>
    simp only [readGen, readV2] at h
    repeat' (split at h <;> try contradiction)
    rename_i m ps is hm hps his
    injection h with h; subst h
    exact mapOpt_forall (P := LoPBShape) (fun _ _ h => readPluginV2_shape h) hps

theorem writePlugin_normPlugin (env : Env) (p : Plugin) (hs : LoPBShape p) :
    writePlugin env (normPlugin env p) = writePlugin env p := by
  cases ht : p.type
  · simp only [normPlugin, ht, writePlugin]
  · simp only [normPlugin, ht, writePlugin]
  · simp only [normPlugin, ht, writePlugin]
  · have hpp := hs ht
    by_cases hl : env.lookPath (protocGen p.name) = true
    · simp [normPlugin, ht, writePlugin, hl, fromStrs]
    · by_cases hm : p.name ∈ protocProxyPluginNames
      · simp [normPlugin, ht, writePlugin, hl, hm, hpp, fromStrs]
      · simp [normPlugin, ht, writePlugin, hl, hm, fromStrs]

theorem writeGen_normalise (env : Env) (c : GenFile) (hs : ∀ p ∈ c.plugins, LoPBShape p) :
    writeGen env (normalise env c) = writeGen env c := by
  simp only [writeGen, normalise, List.map_map]
  congr 1
  · apply List.map_congr_left
    intro p hp
    exact writePlugin_normPlugin env p (hs p hp)

/-- **Writing is idempotent for every accepted document** (all versions, no representability
    hypothesis): the second write produces the same external v2 document as the first. -/
theorem gen_write_idempotent {env : Env} {e : ExtGen} {c c' : GenFile}
    (h : readGen env e = some c)
    (h' : readGen env (.v2 (writeGen env c)) = some c') : writeGen env c' = writeGen env c := by
  rw [gen_reread_eq_normalise h] at h'
  injection h' with h'
  rw [← h']
  exact writeGen_normalise env c (readGen_shape h)

/-! ## which documents are covered by the identity round trip, stated on the documents -/

theorem mapOpt_forall_iff {α β : Type} {f : α → Option β} {P : α → Prop} {Q : β → Prop}
    (hR : ∀ x y, f x = some y → (P x ↔ Q y)) :
    ∀ {l : List α} {ys : List β}, mapOpt f l = some ys → ((∀ x ∈ l, P x) ↔ (∀ y ∈ ys, Q y)) := by
  intro l
  induction l with
  | nil => intro ys h; simp [mapOpt] at h; subst h; simp
  | cons x xs ih =>
    intro ys h
    obtain ⟨y, ys', hy, hys, rfl⟩ := optCons_some h
    simp [hR _ _ hy, ih hys]

theorem mkLocalOrProtocBuiltin_not_rep {name out : Str} {opt : List Str} {ii iw : Bool}
    {it et : List Str} {st : Option Strategy} {p : Plugin}
    (h : mkLocalOrProtocBuiltin name out opt ii iw it et st = some p) : ¬ RepPlugin p :=
  fun hr => hr.1 (mkLocalOrProtocBuiltin_type h)

theorem mkLocal_rep_iff {name out : Str} {opt : List Str} {ii iw : Bool}
    {st : Option Strategy} {path : List Str} {p : Plugin}
    (h : mkLocal name out opt ii iw [] [] st path = some p) : RepPlugin p ↔ name = joinSp path := by
  have hf := mkLocal_fields h
  constructor
  · intro hr; have := hr.2.1 hf.1; rw [hf.2.1, hf.2.2.1] at this; exact this
  · intro hn
    exact ⟨(by rw [hf.1]; decide), fun _ => (by rw [hf.2.1, hf.2.2.1]; exact hn), hf.2.2.2.1, hf.2.2.2.2⟩

/-- v1beta1 plugin: representable iff it has a `path` and its `name` equals that path. -/
theorem readPluginV1Beta1_rep_iff {x : ExtPluginV1Beta1} {p : Plugin}
    (h : readPluginV1Beta1 x = some p) : RepPlugin p ↔ (x.path ≠ [] ∧ x.name = x.path) := by
  unfold readPluginV1Beta1 at h
  repeat' (split at h <;> try contradiction)
  · rename_i hpath
    rw [mkLocal_rep_iff h, joinSp_singleton]
    exact ⟨fun hn => ⟨hpath, hn⟩, fun hn => hn.2⟩
  · rename_i hpath
    constructor
    · intro hr; exact absurd hr (mkLocalOrProtocBuiltin_not_rep h)
    · intro hn; exact absurd hn.1 hpath

/-- **Coverage of the identity round trip for v1beta1 documents**: an accepted v1beta1
    buf.gen.yaml is read, written and read back to the same configuration if and only if every
    plugin has a `path` and a `name` equal to it — i.e. for no ordinary v1beta1 document. -/
theorem gen_roundtrip_v1beta1_iff {env : Env} {d : ExtGenV1Beta1} {c : GenFile}
    (h : readGen env (.v1beta1 d) = some c) :
    readGen env (.v2 (writeGen env c)) = some c ↔ ∀ x ∈ d.plugins, x.path ≠ [] ∧ x.name = x.path := by
  rw [gen_roundtrip_iff h]
  simp only [readGen, readV1Beta1] at h
  repeat' (split at h <;> try contradiction)
  rename_i _ m hm _ _ ps hps
  injection h with h; subst h
  simp only [Representable]
  rw [mapOpt_forall_iff (P := fun x => x.path ≠ [] ∧ x.name = x.path) (Q := RepPlugin)
    (fun x y hxy => (readPluginV1Beta1_rep_iff hxy).symm) hps]
  simp

/-- The plugin identifier of a v1 entry (`plugin`, else `name`). -/
def identV1 (x : ExtPluginV1) : Str := if x.plugin ≠ [] then x.plugin else x.name

/-- A v1 plugin entry whose configuration survives write + read unchanged: a remote plugin, a
    local plugin whose identifier equals its space-joined path, or a protoc builtin given with
    `protoc_path`. -/
def RepPluginV1 (env : Env) (x : ExtPluginV1) : Prop :=
  (x.plugin ≠ [] ∧ (env.remoteHost (identV1 x)).isSome = true) ∨
  (∃ path, x.path.toStrs = some path ∧ path ≠ [] ∧ identV1 x = joinSp path) ∨
  (x.path.toStrs = some [] ∧ x.protocPath.isNil = false)

theorem mkRemote_rep {env : Env} {name out : Str} {opt : List Str} {ii iw : Bool} {rev : Int}
    {p : Plugin} (h : mkRemote env name out opt ii iw [] [] rev = some p) : RepPlugin p := by
  have hf := mkRemote_fields h
  have ht := mkRemote_type h
  exact ⟨(by rw [ht]; decide), (by intro hc; rw [ht] at hc; cases hc), hf.1, hf.2⟩

theorem mkProtocBuiltin_rep {name out : Str} {opt : List Str} {ii iw : Bool}
    {st : Option Strategy} {pp : List Str} {p : Plugin}
    (h : mkProtocBuiltin name out opt ii iw [] [] st pp = some p) : RepPlugin p := by
  have hf := mkProtocBuiltin_fields h
  have ht := mkProtocBuiltin_type h
  exact ⟨(by rw [ht]; decide), (by intro hc; rw [ht] at hc; cases hc), hf.1, hf.2⟩

theorem readPluginV1_rep_iff {env : Env} {x : ExtPluginV1} {p : Plugin}
    (h : readPluginV1 env x = some p) : RepPlugin p ↔ RepPluginV1 env x := by
  unfold readPluginV1 at h
  simp only at h
  have hid : (if x.plugin ≠ [] then x.plugin else x.name) = identV1 x := rfl
  simp only [hid] at h
  repeat' (split at h <;> try contradiction)
  · -- remote
    rename_i hrem _ _ _
    exact ⟨fun _ => Or.inl hrem, fun _ => mkRemote_rep h⟩
  · -- local with path
    rename_i path hpath _ _ _ hrem hne
    rw [mkLocal_rep_iff h]
    constructor
    · intro hn; exact Or.inr (Or.inl ⟨path, hpath, hne, hn⟩)
    · rintro (hr | ⟨path', hp', _, hn⟩ | ⟨hp', _⟩)
      · exact absurd hr hrem
      · rw [hpath] at hp'; injection hp' with hp'; subst hp'; exact hn
      · rw [hpath] at hp'; injection hp' with hp'; exact absurd hp' hne
  · -- protoc builtin
    rename_i path hpath _ _ _ hrem hne hpp
    have hpe : path = [] := by simpa using hne
    subst hpe
    refine ⟨fun _ => Or.inr (Or.inr ⟨hpath, by simpa using hpp⟩), fun _ => mkProtocBuiltin_rep h⟩
  · -- undetermined
    rename_i path hpath _ _ _ hrem hne hpp
    have hpe : path = [] := by simpa using hne
    subst hpe
    constructor
    · intro hr; exact absurd hr (mkLocalOrProtocBuiltin_not_rep h)
    · rintro (hr | ⟨path', hp', hne', _⟩ | ⟨_, hpn⟩)
      · exact absurd hr hrem
      · rw [hpath] at hp'; injection hp' with hp'; exact absurd hp'.symm hne'
      · simp [hpn] at hpp

/-- **Coverage of the identity round trip for v1 documents**: an accepted v1 buf.gen.yaml round
    trips to the same configuration iff it has no top-level `types.include` and every plugin entry
    is `RepPluginV1` (remote; local whose identifier equals its path; protoc builtin with
    `protoc_path`) — in particular NOT for the ordinary `plugin: go` / `name: go` entries. -/
theorem gen_roundtrip_v1_iff {env : Env} {d : ExtGenV1} {c : GenFile}
    (h : readGen env (.v1 d) = some c) :
    readGen env (.v2 (writeGen env c)) = some c ↔
      (d.typesInclude = [] ∧ ∀ x ∈ d.plugins, RepPluginV1 env x) := by
  rw [gen_roundtrip_iff h]
  simp only [readGen, readV1] at h
  repeat' (split at h <;> try contradiction)
  rename_i _ m hm _ _ ps hps
  injection h with h; subst h
  simp only [Representable]
  rw [mapOpt_forall_iff (P := RepPluginV1 env) (Q := RepPlugin)
    (fun x y hxy => (readPluginV1_rep_iff hxy).symm) hps]
  simp only [and_true, List.not_mem_nil, false_imp_iff, implies_true]
  exact And.comm

/-! ## v2 documents: exact coverage -/

theorem readPluginV2_types {env : Env} {x : ExtPluginV2} {p : Plugin}
    (h : readPluginV2 env x = some p) : p.includeTypes = x.types ∧ p.excludeTypes = x.excludeTypes := by
  unfold readPluginV2 at h
  repeat' (split at h <;> try contradiction)
  · exact mkRemote_fields h
  · exact (mkLocal_fields h).2.2.2
  · exact mkProtocBuiltin_fields h

theorem readPluginV2_rep_iff {env : Env} {x : ExtPluginV2} {p : Plugin}
    (h : readPluginV2 env x = some p) : RepPlugin p ↔ (x.types = [] ∧ x.excludeTypes = []) := by
  have ht := readPluginV2_types h
  constructor
  · intro hr; exact ⟨ht.1 ▸ hr.2.2.1, ht.2 ▸ hr.2.2.2⟩
  · intro hx; exact readPluginV2_rep h hx.1 hx.2

/-- **Coverage of the identity round trip for v2 documents**: an accepted v2 buf.gen.yaml round
    trips to the same configuration if and only if no plugin has `types` / `exclude_types` and no
    input has `exclude_types` (the writer drops exactly these keys). -/
theorem gen_roundtrip_v2_iff {env : Env} {d : ExtGenV2} {c : GenFile}
    (h : readGen env (.v2 d) = some c) :
    readGen env (.v2 (writeGen env c)) = some c ↔
      ((∀ x ∈ d.plugins, x.types = [] ∧ x.excludeTypes = []) ∧ ∀ x ∈ d.inputs, x.excludeTypes = []) := by
  rw [gen_roundtrip_iff h]
  simp only [readGen, readV2] at h
  repeat' (split at h <;> try contradiction)
  rename_i m ps is hm hps his
  injection h with h; subst h
  simp only [Representable]
  rw [mapOpt_forall_iff (P := fun x => x.types = [] ∧ x.excludeTypes = []) (Q := RepPlugin)
    (fun x y hxy => (readPluginV2_rep_iff hxy).symm) hps,
    mapOpt_forall_iff (P := fun x : ExtInputV2 => x.excludeTypes = []) (Q := fun i : Input => i.excludeTypes = [])
    (fun x y hxy => by rw [readInputV2_excludeTypes hxy]) his]
  simp

/-! ## witnesses: the normal form of the recorded families -/

/-- v1beta1 `plugins: [{name: go, out: gen}]`. -/
def v1beta1Go : ExtGen :=
  .v1beta1
    { managed := false
      options := ⟨none, none, []⟩
      plugins := [{ name := "go".toList, out := "gen".toList, opt := .nil, path := [], strategy := [] }] }

/-- (nothing on PATH) it reads as LocalOrProtocBuiltin "go" and re-reads as Local
    "protoc-gen-go" with path [protoc-gen-go]. -/
example :
    (∃ c, readGen env0 v1beta1Go = some c ∧
      (c.plugins.map fun p => (p.type, p.name, p.path)) = [(.localOrProtocBuiltin, "go".toList, [])] ∧
      ((normalise env0 c).plugins.map fun p => (p.type, p.name, p.path)) =
        [(.local_, "protoc-gen-go".toList, ["protoc-gen-go".toList])]) :=
  ⟨(readGen env0 v1beta1Go).get (by decide), by simp, by decide, by decide⟩

/-- v1 `plugins: [{name: java, out: gen}]` (nothing on PATH): re-reads as ProtocBuiltin "java". -/
example :
    let e := plugV1 { plugin := [], name := "java".toList, out := "gen".toList, revision := 0,
                      opt := .nil, path := .nil, protocPath := .nil, strategy := [] } []
    (∃ c, readGen env0 e = some c ∧
      ((normalise env0 c).plugins.map fun p => (p.type, p.name, p.path)) =
        [(.protocBuiltin, "java".toList, [])]) := by
  intro e
  exact ⟨(readGen env0 e).get (by decide), by simp, by decide⟩

end BufModel.ConfigGen
