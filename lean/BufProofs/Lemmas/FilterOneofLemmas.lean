import BufProofs.Lemmas.FilterOutputLemmas
/-
  C12 — oneofs (repair of `oneof-index-not-renumbered`).
    * list arithmetic of remapDescriptor's `newOneofIndexes` table: entry `i` is the position of oneof
      `i` among the kept oneofs (`cntBefore`), so a kept member of a kept oneof still names ITS oneof;
    * a third run invariant of the closure (`OInv`, with the stack invariant `StackOK2`): a oneof key
      is excluded only if every member field has an excluded type (so no kept field is a member of
      a dropped oneof);
    * output level: in every message of the output, at any depth, every `oneof_index` is in range
      (`OneofOK`) and every oneof has a member (`OneofFull`).
-/
namespace BufProofs.FilterOneof
open BufModel.Filter BufProofs.FilterLemmas BufProofs.FilterClosure BufProofs.FilterRewrite
open BufProofs.FilterIndex BufProofs.FilterOutput

/-! ### list arithmetic -/

/-- keep flags of the oneofs `idx, idx + 1, …` (`n` of them) of message `msg` -/
def oneofFlags (st : St) (msg : Id) : Nat → Nat → List Bool
  | 0, _ => []
  | n + 1, idx => (!st.isExcl (.oneof msg idx)) :: oneofFlags st msg n (idx + 1)

theorem oneofFlags_length (st : St) (msg : Id) (n idx : Nat) : (oneofFlags st msg n idx).length = n := by
  induction n generalizing idx with
  | zero => rfl
  | succ n ih => simp [oneofFlags, ih]

theorem oneofFlags_get (st : St) (msg : Id) (n idx i : Nat) (hi : i < n) :
    (oneofFlags st msg n idx)[i]? = some (!st.isExcl (.oneof msg (idx + i))) := by
  induction n generalizing idx i with
  | zero => omega
  | succ n ih =>
    cases i with
    | zero => simp [oneofFlags]
    | succ i =>
      simp only [oneofFlags, List.getElem?_cons_succ]
      rw [ih (idx + 1) i (by omega)]
      have : idx + 1 + i = idx + (i + 1) := by omega
      rw [this]

/-- number of kept elements before position `i` -/
def cntBefore : List Bool → Nat → Nat
  | _, 0 => 0
  | [], _ => 0
  | b :: bs, i + 1 => (if b then 1 else 0) + cntBefore bs i

theorem newIdx_eq (flags : List Bool) (i to : Nat) : newIdx flags i to = to + cntBefore flags i := by
  induction flags generalizing i to with
  | nil => cases i <;> simp [newIdx, cntBefore]
  | cons b bs ih =>
    cases i with
    | zero => simp [newIdx, cntBefore]
    | succ i =>
      simp only [newIdx, cntBefore]
      rw [ih]
      cases b <;> simp <;> omega

theorem newOneofIndexes_length (st : St) (msg : Id) (n idx next : Nat) :
    (newOneofIndexes st msg n idx next).length = n := by
  induction n generalizing idx next with
  | zero => rfl
  | succ n ih => simp [newOneofIndexes, ih]

/-- the table of remapDescriptor: entry `i` = `next` + number of kept oneofs among the first `i` -/
theorem newOneofIndexes_get (st : St) (msg : Id) (n idx next i : Nat) (hi : i < n) :
    (newOneofIndexes st msg n idx next)[i]? = some (next + cntBefore (oneofFlags st msg n idx) i) := by
  induction n generalizing idx next i with
  | zero => omega
  | succ n ih =>
    cases i with
    | zero => simp [newOneofIndexes, cntBefore]
    | succ i =>
      simp only [newOneofIndexes, List.getElem?_cons_succ, oneofFlags, cntBefore]
      rw [ih _ _ i (by omega)]
      unfold St.isExcl
      by_cases hx : st.get (.oneof msg idx) = some .excluded
      · simp [hx]
      · simp [hx]; omega

theorem newOneofIndexes_none (st : St) (msg : Id) (n idx next i : Nat) (hi : n ≤ i) :
    (newOneofIndexes st msg n idx next)[i]? = none := by
  rw [List.getElem?_eq_none_iff, newOneofIndexes_length]; exact hi

/-- the elements a flag list keeps -/
def keptBy {α} : List Bool → List α → List α
  | b :: bs, x :: xs => if b then x :: keptBy bs xs else keptBy bs xs
  | _, _ => []

/-- a kept element sits at position `cntBefore` of the kept list -/
theorem keptBy_get {α} (flags : List Bool) (xs : List α) (i : Nat) (hl : flags.length = xs.length)
    (hf : flags[i]? = some true) : (keptBy flags xs)[cntBefore flags i]? = xs[i]? := by
  induction flags generalizing xs i with
  | nil => simp at hf
  | cons b bs ih =>
    cases xs with
    | nil => simp at hl
    | cons x xs =>
      simp only [List.length_cons, Nat.add_right_cancel_iff] at hl
      cases i with
      | zero =>
        simp only [List.getElem?_cons_zero, Option.some.injEq] at hf
        subst hf
        simp [keptBy, cntBefore]
      | succ i =>
        simp only [List.getElem?_cons_succ] at hf ⊢
        cases b with
        | true =>
          simp only [keptBy, cntBefore, if_true]
          have : 1 + cntBefore bs i = cntBefore bs i + 1 := by omega
          rw [this, List.getElem?_cons_succ]
          exact ih xs i hl hf
        | false =>
          simp only [keptBy, cntBefore, Bool.false_eq_true, if_false, Nat.zero_add]
          exact ih xs i hl hf

theorem keptBy_lt {α} (flags : List Bool) (xs : List α) (i : Nat) (hl : flags.length = xs.length)
    (hf : flags[i]? = some true) : cntBefore flags i < (keptBy flags xs).length := by
  have h := keptBy_get flags xs i hl hf
  have hi : i < xs.length := by
    rw [← hl]
    exact (List.getElem?_eq_some_iff.mp hf).1
  rw [List.getElem?_eq_getElem hi] at h
  exact (List.getElem?_eq_some_iff.mp h).1

/-- every position of the kept list is the new position of a kept element -/
theorem keptBy_surj {α} (flags : List Bool) (xs : List α) (j : Nat) (hl : flags.length = xs.length)
    (hj : j < (keptBy flags xs).length) : ∃ i, i < xs.length ∧ flags[i]? = some true ∧ cntBefore flags i = j := by
  induction flags generalizing xs j with
  | nil => simp [keptBy] at hj
  | cons b bs ih =>
    cases xs with
    | nil => simp at hl
    | cons x xs =>
      simp only [List.length_cons, Nat.add_right_cancel_iff] at hl
      cases b with
      | true =>
        simp only [keptBy, if_true, List.length_cons] at hj
        cases j with
        | zero => exact ⟨0, by simp, by simp, by simp [cntBefore]⟩
        | succ j =>
          obtain ⟨i, hi, hf, hc⟩ := ih xs j hl (by omega)
          exact ⟨i + 1, by simp; omega, by simpa using hf, by simp [cntBefore, hc]; omega⟩
      | false =>
        simp only [keptBy, Bool.false_eq_true, if_false] at hj
        obtain ⟨i, hi, hf, hc⟩ := ih xs j hl hj
        exact ⟨i + 1, by simp; omega, by simpa using hf, by simp [cntBefore, hc]⟩

/-- the oneofs remapSlice keeps are those whose key is not excluded -/
theorem remapOneofs_kept (c : RCtx) (id : Id) (path : List Nat) (oneofs : List Oneof) (fr to : Nat) :
    (remapSlice (path ++ [8]) (remapOneof c id) oneofs fr to).1 =
      keptBy (oneofFlags c.st id oneofs.length fr) oneofs := by
  induction oneofs generalizing fr to with
  | nil => simp [remapSlice, keptBy, oneofFlags]
  | cons o os ih =>
    unfold remapSlice
    have hlast : ((path ++ [8] ++ [fr]).getLast?.getD 0) = fr := by simp
    simp only [remapOneof, hlast, List.length_cons, oneofFlags, keptBy]
    unfold St.isExcl
    by_cases hx : c.st.get (.oneof id fr) = some .excluded
    · simp only [hx, if_true, decide_true, Bool.not_true, Bool.false_eq_true, if_false]
      exact ih _ _
    · simp only [hx, if_false, decide_false, Bool.not_false, if_true]
      rw [ih]

/-! ### one message: kept members of kept oneofs follow their oneof -/

theorem renumberOneof_oneof (tbl : List Nat) (f : Field) (i j : Nat) (hi : f.oneof = some i) (hj : tbl[i]? = some j) :
    (renumberOneof tbl f).oneof = some j := by
  unfold renumberOneof
  rw [hi]
  simp only [hj]

theorem renumberOneof_none (tbl : List Nat) (f : Field) (hi : f.oneof = none) : renumberOneof tbl f = f := by
  unfold renumberOneof
  rw [hi]

/-- a kept field of a kept, not enclosing-only message, with the original field it comes from -/
theorem mem_fieldsOut_renumber (c : RCtx) (hr : c.renumber = true) (id : Id) (path : List Nat) (fields : List Field)
    (n : Nat) (g : Field) (h : g ∈ fieldsOut c id n (remapSlice (path ++ [2]) (remapField c) fields 0 0).1) :
    ∃ g0 ∈ fields, (∀ t, g0.ty = some t → c.has (.el t) = true) ∧
      g = renumberOneof (newOneofIndexes c.st id n 0 0) g0 := by
  unfold fieldsOut at h
  rw [hr] at h
  simp only [if_true] at h
  obtain ⟨g0, hg0, rfl⟩ := List.mem_map.mp h
  rw [remapSlice_items] at hg0
  obtain ⟨x, hx, q, hq⟩ := mem_keptFrom _ _ _ _ _ hg0
  obtain ⟨rfl, _, h2⟩ := remapField_some c q x g0 hq
  exact ⟨g0, hx, h2, rfl⟩

/-- **a kept member of a kept oneof still names its oneof**: for a field `g0` of the input message that
    is a member of oneof `i` (in range, not excluded), the field of the output carries the index `j` =
    number of kept oneofs before `i`, `j` is in range of the output's oneof list, and the oneof at `j`
    IS the input's oneof `i`. -/
theorem renumbered_names_oneof (c : RCtx) (id : Id) (path : List Nat) (oneofs : List Oneof) (g0 : Field) (i : Nat)
    (hi : g0.oneof = some i) (hlt : i < oneofs.length) (hk : c.st.get (.oneof id i) ≠ some .excluded) :
    let os := (remapSlice (path ++ [8]) (remapOneof c id) oneofs 0 0).1
    let g := renumberOneof (newOneofIndexes c.st id oneofs.length 0 0) g0
    ∃ j, g.oneof = some j ∧ j < os.length ∧ os[j]? = oneofs[i]? ∧
      j = cntBefore (oneofFlags c.st id oneofs.length 0) i := by
  intro os g
  have hflag : (oneofFlags c.st id oneofs.length 0)[i]? = some true := by
    rw [oneofFlags_get _ _ _ _ _ hlt]
    unfold St.isExcl
    simp [hk]
  have hl : (oneofFlags c.st id oneofs.length 0).length = oneofs.length := oneofFlags_length _ _ _ _
  refine ⟨cntBefore (oneofFlags c.st id oneofs.length 0) i, ?_, ?_, ?_, rfl⟩
  · apply renumberOneof_oneof _ _ i _ hi
    rw [newOneofIndexes_get _ _ _ _ _ _ hlt]; simp
  · show _ < (remapSlice (path ++ [8]) (remapOneof c id) oneofs 0 0).1.length
    rw [remapOneofs_kept]
    exact keptBy_lt _ _ _ hl hflag
  · show (remapSlice (path ++ [8]) (remapOneof c id) oneofs 0 0).1[_]? = _
    rw [remapOneofs_kept]
    exact keptBy_get _ _ _ hl hflag

/-! ### every message of the output, at any depth -/

mutual
/-- a message and every message nested in it -/
def msgAll : Msg → List Msg
  | .mk id fields oneofs exts nested enums rangeOpts reserved mapEntry opts =>
    .mk id fields oneofs exts nested enums rangeOpts reserved mapEntry opts :: msgsAll nested
def msgsAll : List Msg → List Msg
  | [] => []
  | m :: ms => msgAll m ++ msgsAll ms
end

/-- every `oneof_index` of the message is in range -/
def OneofOK (y : Msg) : Prop := ∀ g ∈ y.fields, ∀ j, g.oneof = some j → j < y.oneofs.length
/-- every oneof of the message has a member -/
def OneofFull (y : Msg) : Prop := ∀ j, j < y.oneofs.length → ∃ g ∈ y.fields, g.oneof = some j

/-- what the closure must guarantee for the index entry of a kept, not enclosing-only message:
    a kept field that is a member of a oneof names a oneof in range that is not dropped -/
def KeptHyp (c : RCtx) (j : Info) : Prop :=
  ∀ m, j.key = .el m → ∀ f ∈ j.fields, (∀ t, f.ty = some t → c.has (.el t) = true) → ∀ n, f.oneof = some n →
    n < j.oneofs.length ∧ c.st.get (.oneof m n) ≠ some .excluded

/-- … and: a oneof that is not dropped has a member field that is kept -/
def FullHyp (c : RCtx) (j : Info) : Prop :=
  ∀ m, j.key = .el m → c.has j.key = true → c.st.get j.key ≠ some .enclosing →
    ∀ n, n < j.oneofs.length → c.st.get (.oneof m n) ≠ some .excluded →
      ∃ f ∈ j.fields, f.oneof = some n ∧ f.extendee = none ∧ ∀ t, f.ty = some t → c.has (.el t) = true

theorem remapField_keeps (c : RCtx) (p : List Nat) (f : Field) (he : f.extendee = none)
    (ht : ∀ t, f.ty = some t → c.has (.el t) = true) : (remapField c p f).1 = some f := by
  unfold remapField
  simp only [he, Option.isSome_none, Bool.false_and, Bool.false_eq_true, if_false]
  cases h : f.ty with
  | none => rfl
  | some t => simp [ht t h]

theorem keptFrom_mem_of {α β} (path : List Nat) (f : List Nat → α → Option β × Marks) (xs : List α) (fr : Nat)
    (x : α) (y : β) (hx : x ∈ xs) (hf : ∀ p, (f p x).1 = some y) : y ∈ keptFrom path f xs fr := by
  induction xs generalizing fr with
  | nil => cases hx
  | cons a as ih =>
    unfold keptFrom
    cases hx with
    | head => rw [hf]; exact List.mem_cons_self
    | tail _ hx =>
      split
      · exact List.mem_cons_of_mem _ (ih _ hx)
      · exact ih _ hx

theorem msgInfos_head (file : Id) (parent : Key) (id : Id) (fields : List Field) (oneofs : List Oneof)
    (exts : List Field) (nested : List Msg) (enums : List Enum) (rangeOpts : List (List OptUse))
    (reserved mapEntry : Bool) (opts : List OptUse) :
    ∃ hd ∈ msgInfos file parent (.mk id fields oneofs exts nested enums rangeOpts reserved mapEntry opts),
      hd.key = .el id ∧ hd.kind = .msg ∧ hd.fields = fields ∧ hd.oneofs = oneofs := by
  simp only [msgInfos]
  exact ⟨_, List.mem_cons_self, rfl, rfl, rfl, rfl⟩

mutual
theorem oneofs_msg (c : RCtx) (hr : c.renumber = true) (file : Id) (parent : Key) (path : List Nat) (m y : Msg)
    (h : (remapMsg c path m).1 = some y) :
    ((∀ j ∈ msgInfos file parent m, j.kind = .msg → KeptHyp c j) → ∀ y' ∈ msgAll y, OneofOK y') ∧
    ((∀ j ∈ msgInfos file parent m, j.kind = .msg → KeptHyp c j ∧ FullHyp c j) → ∀ y' ∈ msgAll y, OneofFull y') := by
  cases m with
  | mk id fields oneofs exts nested enums rangeOpts reserved mapEntry opts =>
    obtain ⟨hid, fs, os, ro, rs, rfl, hfs⟩ := remapMsg_shape c path id fields oneofs exts nested enums rangeOpts
      reserved mapEntry opts y h
    have hsubN : ∀ j ∈ msgsInfos file (.el id) nested,
        j ∈ msgInfos file parent (.mk id fields oneofs exts nested enums rangeOpts reserved mapEntry opts) := by
      intro j hj
      simp only [msgInfos, List.mem_cons, List.mem_append]
      exact Or.inr (Or.inl (Or.inl hj))
    obtain ⟨n1, n2⟩ := oneofs_msgs c hr file (.el id) (path ++ [3]) nested 0 0
    -- the head entry of the block
    obtain ⟨hd, hhd, hkey, hkind, hflds, hons⟩ := msgInfos_head file parent id fields oneofs exts nested enums rangeOpts
      reserved mapEntry opts
    have hl : (oneofFlags c.st id oneofs.length 0).length = oneofs.length := oneofFlags_length _ _ _ _
    constructor
    · intro hH y' hy'
      simp only [msgAll, List.mem_cons] at hy'
      rcases hy' with rfl | hy'
      · intro g hg j hj
        simp only [Msg.fields] at hg
        simp only [Msg.oneofs]
        rcases hfs with ⟨rfl, _⟩ | ⟨_, rfl, rfl⟩
        · cases hg
        · obtain ⟨g0, hg0, hty, rfl⟩ := mem_fieldsOut_renumber c hr id path fields _ g hg
          cases ho : g0.oneof with
          | none => rw [renumberOneof_none _ _ ho, ho] at hj; cases hj
          | some i =>
            obtain ⟨hlt, hk⟩ := hH hd hhd hkind id hkey g0 (by rw [hflds]; exact hg0) hty i ho
            rw [hons] at hlt
            obtain ⟨j', hj', hlt', _⟩ := renumbered_names_oneof c id path oneofs g0 i ho hlt hk
            rw [hj'] at hj; cases hj
            exact hlt'
      · exact n1 (fun j hj hk => hH j (hsubN j hj) hk) y' hy'
    · intro hH y' hy'
      simp only [msgAll, List.mem_cons] at hy'
      rcases hy' with rfl | hy'
      · intro j hj
        simp only [Msg.oneofs] at hj
        simp only [Msg.fields]
        rcases hfs with ⟨_, rfl⟩ | ⟨hne, rfl, rfl⟩
        · simp at hj
        · rw [remapOneofs_kept] at hj
          obtain ⟨i, hi, hflag, hc⟩ := keptBy_surj _ _ j hl hj
          have hk : c.st.get (.oneof id i) ≠ some .excluded := by
            rw [oneofFlags_get _ _ _ _ _ hi] at hflag
            unfold St.isExcl at hflag
            intro hx
            simp [hx] at hflag
          obtain ⟨f, hf, hfo, hfe, hft⟩ := (hH hd hhd hkind).2 id hkey (by rw [hkey]; exact hid) (by rw [hkey]; exact hne) i
            (by rw [hons]; exact hi) hk
          rw [hflds] at hf
          refine ⟨renumberOneof (newOneofIndexes c.st id oneofs.length 0 0) f, ?_, ?_⟩
          · unfold fieldsOut
            rw [hr]
            simp only [if_true]
            refine List.mem_map.mpr ⟨f, ?_, rfl⟩
            rw [remapSlice_items]
            exact keptFrom_mem_of _ _ _ _ f f hf (fun p => remapField_keeps c p f hfe hft)
          · obtain ⟨j', hj', _, _, hjc⟩ := renumbered_names_oneof c id path oneofs f i hfo hi hk
            rw [hj', hjc, hc]
      · exact n2 (fun j hj hk => hH j (hsubN j hj) hk) y' hy'
theorem oneofs_msgs (c : RCtx) (hr : c.renumber = true) (file : Id) (parent : Key) (path : List Nat) (ms : List Msg)
    (fr to : Nat) :
    ((∀ j ∈ msgsInfos file parent ms, j.kind = .msg → KeptHyp c j) →
      ∀ y' ∈ msgsAll (remapMsgs c path ms fr to).1, OneofOK y') ∧
    ((∀ j ∈ msgsInfos file parent ms, j.kind = .msg → KeptHyp c j ∧ FullHyp c j) →
      ∀ y' ∈ msgsAll (remapMsgs c path ms fr to).1, OneofFull y') := by
  cases ms with
  | nil =>
    unfold remapMsgs
    simp only [msgsAll]
    exact ⟨fun _ y' hy' => (by cases hy'), fun _ y' hy' => (by cases hy')⟩
  | cons m ms =>
    have hs1 : ∀ j ∈ msgInfos file parent m, j ∈ msgsInfos file parent (m :: ms) := fun j hj => by
      simp only [msgsInfos, List.mem_append]; exact Or.inl hj
    have hs2 : ∀ j ∈ msgsInfos file parent ms, j ∈ msgsInfos file parent (m :: ms) := fun j hj => by
      simp only [msgsInfos, List.mem_append]; exact Or.inr hj
    unfold remapMsgs
    cases hrm : remapMsg c (path ++ [fr]) m with
    | mk r mk =>
      cases r with
      | none =>
        obtain ⟨b1, b2⟩ := oneofs_msgs c hr file parent path ms (fr + 1) to
        exact ⟨fun hH => b1 (fun j hj => hH j (hs2 j hj)), fun hH => b2 (fun j hj => hH j (hs2 j hj))⟩
      | some y =>
        obtain ⟨a1, a2⟩ := oneofs_msg c hr file parent (path ++ [fr]) m y (by rw [hrm])
        obtain ⟨b1, b2⟩ := oneofs_msgs c hr file parent path ms (fr + 1) (to + 1)
        simp only [msgsAll, List.mem_append]
        constructor
        · intro hH y' hy'
          rcases hy' with hy' | hy'
          · exact a1 (fun j hj => hH j (hs1 j hj)) y' hy'
          · exact b1 (fun j hj => hH j (hs2 j hj)) y' hy'
        · intro hH y' hy'
          rcases hy' with hy' | hy'
          · exact a2 (fun j hj => hH j (hs1 j hj)) y' hy'
          · exact b2 (fun j hj => hH j (hs2 j hj)) y' hy'
end

/-! ### the third run invariant: a oneof is dropped only when all its members are -/

/-- what the invariant needs of the index: entries of kind `msg` have element keys, no entry has a
    oneof key (true of every `buildIndex` output: `idxKeys_buildIndex`) -/
structure IdxKeys (idx : Index) : Prop where
  msgEl : ∀ j ∈ idx, j.kind = .msg → ∃ m, j.key = .el m
  noOneof : ∀ j ∈ idx, ∀ m n, j.key ≠ .oneof m n
  descEl : ∀ j ∈ idx, ∀ k ∈ j.desc, ∃ n, k = .el n

theorem idxKeys_buildIndex (img : Image) : IdxKeys (buildIndex img) := by
  have hkeys : ∀ j ∈ buildIndex img, (j.kind = .file ∧ ∃ x, j.key = .file x) ∨ ∃ n, j.key = .el n := by
    intro j hj
    obtain ⟨f, _, hjf⟩ := mem_buildIndex img j hj
    rw [fileInfos_eq] at hjf
    cases hjf with
    | head => exact Or.inl ⟨rfl, f.id, rfl⟩
    | tail _ hjf => exact Or.inr ((fileSub_B f).2.2.2 j hjf)
  refine ⟨?_, ?_, ?_⟩
  · intro j hj hk
    rcases hkeys j hj with ⟨hf, _⟩ | h
    · rw [hk] at hf; cases hf
    · exact h
  · intro j hj m n e
    rcases hkeys j hj with ⟨_, x, hx⟩ | ⟨x, hx⟩ <;> rw [hx] at e <;> cases e
  · intro j hj k hk
    obtain ⟨f, _, hjf⟩ := mem_buildIndex img j hj
    exact file_desc_el f j hjf k hk

/-- a oneof key is excluded only if every member field of that oneof has an excluded type -/
def OInv (c : Ctx) (st : St) : Prop :=
  ∀ m n i, rk st (.oneof m n) = 4 → c.idx.find (.el m) = some i →
    ∀ f ∈ i.fields, f.oneof = some n → ∃ t, f.ty = some t ∧ rk st (.el t) = 4

/-- every `oneofs` task on the stack names an element key -/
def StackOK2 (ts : List Task) : Prop := ∀ k, Task.oneofs k ∈ ts → ∃ m, k = .el m

theorem oinv_of_le (c : Ctx) (st st1 : St) (hle : Le c st st1)
    (hu : ∀ m n, rk st1 (.oneof m n) = 4 → rk st (.oneof m n) = 4) (hs : OInv c st) : OInv c st1 := by
  intro m n i h4 hi f hf ho
  obtain ⟨t, ht, h⟩ := hs m n i (hu m n h4) hi f hf ho
  exact ⟨t, ht, hle.excl h⟩

theorem rk_set_oneof (st : St) (k : Key) (md : Mode) (m n : Nat) (hk : k ≠ .oneof m n) :
    rk (st.set k md) (.oneof m n) = rk st (.oneof m n) := by
  rw [rk_set]
  have : ¬ (Key.oneof m n = k) := fun e => hk e.symm
  simp [this]

/-- what the oneof loop newly excludes -/
theorem oneofsStep_new (st : St) (i : Info) (os : List Oneof) (n0 : Nat) (m n : Nat)
    (h4 : rk (oneofsStep st i os n0).1 (.oneof m n) = 4) :
    rk st (.oneof m n) = 4 ∨
      (m = oneofMsg i.key ∧ ∀ f ∈ i.fields, f.oneof = some n → ∃ t, f.ty = some t ∧ rk st (.el t) = 4) := by
  induction os generalizing st n0 with
  | nil => exact Or.inl h4
  | cons o os ih =>
    rw [oneofsStep_cons] at h4
    split at h4
    · rename_i hemp
      rcases ih _ _ h4 with h | ⟨hm, hf⟩
      · rw [rk_set] at h
        split at h
        · rename_i e
          cases e
          right
          refine ⟨rfl, ?_⟩
          intro f hf ho
          have hnot : ∀ a ∈ i.fields, ¬ ((decide (a.oneof = some n) && fieldIncluded st a) = true) := by
            rw [List.isEmpty_iff, List.filter_eq_nil_iff] at hemp
            exact hemp
          have hinc : fieldIncluded st f = false := by
            cases hx : fieldIncluded st f with
            | false => rfl
            | true => exact absurd (by simp [ho, hx]) (hnot f hf)
          unfold fieldIncluded at hinc
          cases ht : f.ty with
          | none => rw [ht] at hinc; cases hinc
          | some t =>
            rw [ht] at hinc
            simp only [Bool.not_eq_false'] at hinc
            exact ⟨t, rfl, isExcl_iff.mp hinc⟩
        · exact Or.inl h
      · right
        refine ⟨hm, ?_⟩
        intro f hff ho
        obtain ⟨t, ht, h⟩ := hf f hff ho
        refine ⟨t, ht, ?_⟩
        rw [rk_set] at h
        simp only [reduceCtorEq, if_false] at h
        exact h
    · exact ih _ _ h4

theorem stackOK2_postTasks (i : Info) (ref : Option Id) : StackOK2 (postTasks i ref) := by
  intro k hm
  simp only [postTasks, List.mem_cons, List.mem_nil_iff, or_false, reduceCtorEq] at hm

theorem stackOK2_oneofsStep (st : St) (i : Info) (os : List Oneof) (n : Nat) : StackOK2 (oneofsStep st i os n).2 := by
  induction os generalizing st n with
  | nil => intro k hm; cases hm
  | cons o os ih =>
    rw [oneofsStep_cons]
    split
    · exact ih _ _
    · intro k hm
      simp only [List.mem_cons, reduceCtorEq, false_or] at hm
      exact ih _ _ k hm

theorem step_oinv (c : Ctx) (hk : IdxKeys c.idx) (hcfg : c.cfg.svcMarksInput = false) (st st1 : St) (t : Task)
    (new : List Task) (h : step c st t = .ok (st1, new)) (ht : StackOK2 [t]) (hs : OInv c st) :
    OInv c st1 ∧ StackOK2 new := by
  have hle := step_le c hcfg st st1 t new h
  have notOneof : ∀ k i, c.idx.find k = some i → ∀ m n, k ≠ .oneof m n := by
    intro k i hi m n e
    have := find_key _ _ _ hi
    exact hk.noOneof i (find_mem hi) m n (by rw [this, e])
  cases t with
  | add k ref implied =>
    obtain ⟨i, hi, hc⟩ := step_add_cases c st st1 k ref implied new h
    have hno := notOneof k i hi
    rcases hc with ⟨_, rfl, rfl⟩ | ⟨_, rfl, rfl⟩ | ⟨hm, rfl, rfl⟩ | ⟨hkk, he⟩
    · exact ⟨hs, fun k hm => by cases hm⟩
    · exact ⟨oinv_of_le c _ _ hle (fun m n h4 => by rw [rk_addImport] at h4; exact h4) hs, fun k hm => by cases hm⟩
    · refine ⟨oinv_of_le c _ _ hle ?_ hs, fun k hm => by cases hm⟩
      intro m n h4
      rw [rk_addImport] at h4
      split at h4
      · exact h4
      · rw [rk_set_oneof _ _ _ _ _ (hno m n)] at h4; exact h4
    · have hcases := expand_cases c _ st1 k ref implied i new he
      have hrk : ∀ m n, rk st1 (.oneof m n) = rk st (.oneof m n) := by
        intro m n
        rcases hcases with ⟨_, rfl, _⟩ | ⟨_, rfl, _⟩ | ⟨_, rfl, _⟩ | ⟨_, rfl, _⟩ | ⟨_, rfl, _⟩ | ⟨_, f, e, _, _, hx⟩
        any_goals exact rk_set_oneof _ _ _ _ _ (hno m n)
        rcases hx with ⟨_, rfl, _⟩ | ⟨_, rfl, _⟩
        · rw [rk_set_oneof _ _ _ _ _ (hno m n), rk_set_oneof _ _ _ _ _ (hno m n)]
        · exact rk_set_oneof _ _ _ _ _ (hno m n)
      refine ⟨oinv_of_le c _ _ hle (fun m n h4 => by rw [hrk] at h4; exact h4) hs, ?_⟩
      intro k' hm
      rcases hcases with ⟨_, _, rfl⟩ | ⟨hkind, _, rfl⟩ | ⟨_, _, rfl⟩ | ⟨_, _, rfl⟩ | ⟨_, _, _, _, rfl⟩ | ⟨_, f, e, _, _, hx⟩
      · simp only [List.mem_append, List.mem_map, reduceCtorEq, and_false, exists_false, false_or] at hm
        exact stackOK2_postTasks i ref k' hm
      · simp only [List.mem_append, List.mem_map, reduceCtorEq, and_false, exists_false, false_or, or_false] at hm
        rcases hm with hm | hm
        · simp only [List.mem_cons, List.mem_nil_iff, or_false, Task.oneofs.injEq] at hm
          subst hm
          have := find_key _ _ _ hi
          obtain ⟨m, hm⟩ := hk.msgEl i (find_mem hi) hkind
          exact ⟨m, by rw [← this, hm]⟩
        · exact stackOK2_postTasks i ref k' hm
      · simp only [List.mem_append, List.mem_map, reduceCtorEq, and_false, exists_false, false_or] at hm
        exact stackOK2_postTasks i ref k' hm
      · simp only [List.mem_append, List.mem_map, reduceCtorEq, and_false, exists_false, false_or] at hm
        exact stackOK2_postTasks i ref k' hm
      · simp only [List.mem_append, List.mem_cons, List.mem_nil_iff, reduceCtorEq, or_false, false_or] at hm
        exact stackOK2_postTasks i ref k' hm
      · rcases hx with ⟨_, _, rfl⟩ | ⟨_, _, rfl⟩
        · cases hm
        · simp only [List.mem_cons, List.mem_nil_iff, reduceCtorEq, or_false] at hm
  | field f file =>
    obtain ⟨rfl, hc⟩ := step_field_cases c st st1 f file new h
    refine ⟨hs, ?_⟩
    intro k hm
    rcases hc with ⟨_, rfl⟩ | ⟨t, _, _, rfl⟩ | ⟨t, _, _, rfl⟩ <;>
      simp only [List.mem_cons, List.mem_nil_iff, reduceCtorEq, or_false] at hm
  | oneofs k =>
    obtain ⟨i, hi, he⟩ := step_oneofs_cases c st st1 k new h
    have hst1 : st1 = (oneofsStep st i i.oneofs 0).1 := by rw [he]
    have hnew : new = (oneofsStep st i i.oneofs 0).2 := by rw [he]
    obtain ⟨mk, hmk⟩ := ht k (by simp)
    have hikey := find_key _ _ _ hi
    constructor
    · intro m n i' h4 hi' f hf ho
      rw [hst1] at h4
      rcases oneofsStep_new st i i.oneofs 0 m n h4 with h | ⟨hm, hall⟩
      · obtain ⟨t, ht', hx⟩ := hs m n i' h hi' f hf ho
        exact ⟨t, ht', hle.excl hx⟩
      · rw [hikey, hmk] at hm
        simp only [oneofMsg] at hm
        subst hm
        rw [← hmk, hi] at hi'
        cases hi'
        obtain ⟨t, ht', hx⟩ := hall f hf ho
        exact ⟨t, ht', hle.excl hx⟩
    · rw [hnew]; exact stackOK2_oneofsStep st i i.oneofs 0
  | svcMethod m =>
    rcases step_svcMethod_cases c st st1 m new h with ⟨_, rfl, rfl⟩ | ⟨_, _, rfl, rfl⟩
    · rw [hcfg]; exact ⟨hs, fun k hm => by cases hm⟩
    · refine ⟨hs, ?_⟩
      intro k hm
      simp only [List.mem_cons, List.mem_nil_iff, reduceCtorEq, or_false] at hm
  | extType k ref =>
    obtain ⟨i, f, hi, hf, hc⟩ := step_extType_cases c st st1 k ref new h
    have hno := notOneof k i hi
    rcases hc with ⟨_, rfl, rfl⟩ | ⟨t, _, _, rfl, rfl⟩ | ⟨t, _, _, rfl, rfl⟩
    · exact ⟨hs, stackOK2_postTasks i ref⟩
    · refine ⟨oinv_of_le c _ _ hle ?_ hs, fun k hm => by cases hm⟩
      intro m n h4
      rw [rk_set_oneof _ _ _ _ _ (hno m n)] at h4; exact h4
    · refine ⟨hs, ?_⟩
      intro k' hm
      simp only [List.mem_cons, reduceCtorEq, false_or] at hm
      exact stackOK2_postTasks i ref k' hm
  | imp fr to =>
    obtain ⟨rfl, rfl⟩ := step_imp_cases c st st1 fr to new h
    exact ⟨oinv_of_le c _ _ hle (fun m n h4 => by rw [rk_addImport] at h4; exact h4) hs, fun k hm => by cases hm⟩
  | encl q file =>
    rcases step_encl_cases c st st1 q file new h with ⟨rfl, rfl, _⟩ | ⟨k, i, rfl, hkk, hi, rfl, rfl⟩
    · exact ⟨hs, fun k hm => by cases hm⟩
    · have hno := notOneof k i hi
      refine ⟨oinv_of_le c _ _ hle ?_ hs, ?_⟩
      · intro m n h4
        rw [rk_set_oneof _ _ _ _ _ (hno m n)] at h4; exact h4
      · intro k' hm
        simp only [List.mem_cons, List.mem_nil_iff, reduceCtorEq, or_false] at hm
  | opts us file =>
    obtain ⟨rfl, hc⟩ := step_opts_cases c st st1 us file new h
    refine ⟨hs, ?_⟩
    intro k hm
    rcases hc with ⟨_, rfl⟩ | ⟨_, rfl⟩
    · simp only [List.mem_map, reduceCtorEq, and_false, exists_false] at hm
    · cases hm
  | opt u file =>
    obtain ⟨rfl, hc⟩ := step_opt_cases c st st1 u file new h
    refine ⟨hs, ?_⟩
    intro k hm
    rcases hc with ⟨e, _, _, rfl⟩ | ⟨_, rfl⟩
    · cases hm
    · unfold optTasks at hm
      simp only [List.mem_append, List.mem_map, reduceCtorEq, and_false, exists_false, false_or] at hm
      split at hm <;> simp only [List.mem_cons, List.mem_nil_iff, reduceCtorEq, or_false] at hm

theorem run_oinv (c : Ctx) (hk : IdxKeys c.idx) (hcfg : c.cfg.svcMarksInput = false) (n : Nat) (st st' : St)
    (ts : List Task) (h : run c n st ts = .ok st') (hs : OInv c st) (ht : StackOK2 ts) : OInv c st' := by
  induction n generalizing st ts with
  | zero =>
    cases ts with
    | nil => simp [run] at h; subst h; exact hs
    | cons t ts => simp [run] at h
  | succ n ih =>
    cases ts with
    | nil => simp [run] at h; subst h; exact hs
    | cons t ts =>
      simp only [run] at h
      split at h
      · cases h
      · rename_i st1 new hs1
        obtain ⟨a, b⟩ := step_oinv c hk hcfg st st1 t new hs1
          (fun k hm => ht k (by
            simp only [List.mem_cons, List.mem_nil_iff, or_false] at hm; rw [hm]; simp)) hs
        refine ih _ _ h a ?_
        intro k hm
        rcases List.mem_append.mp hm with hm | hm
        · exact b k hm
        · exact ht k (List.mem_cons_of_mem _ hm)

/-- no oneof key has a mode (true after the exclude phase) -/
def NoOneofMode (st : St) : Prop := ∀ m n, st.get (.oneof m n) = none

theorem noOneofMode_exclKeys (st : St) (ks : List Key) (hks : ∀ k ∈ ks, ∀ m n, k ≠ .oneof m n) (h : NoOneofMode st) :
    NoOneofMode (exclKeys st ks) := by
  intro m n
  rw [exclKeys_not_mem st ks _ (fun hm => hks _ hm m n rfl)]
  exact h m n

theorem noOneofMode_excludePhase (img : Image) (st' : St) (ns : List Id)
    (h : foldlE (excludeType img (buildIndex img)) {} ns = .ok st') : NoOneofMode st' := by
  have hk := idxKeys_buildIndex img
  have hentry : ∀ k i, (buildIndex img).find k = some i → ∀ k' ∈ i.key :: i.desc, ∀ m n, k' ≠ .oneof m n := by
    intro k i hi k' hk' m n e
    cases hk' with
    | head => exact hk.noOneof i (find_mem hi) m n e
    | tail _ hk' =>
      obtain ⟨x, hx⟩ := hk.descEl i (find_mem hi) k' hk'
      rw [hx] at e; cases e
  refine foldlE_pres NoOneofMode _ ?_ _ _ _ (fun _ _ => rfl) h
  intro b a b' hb hh
  unfold excludeType at hh
  split at hh
  · rename_i i hi
    cases hh
    exact noOneofMode_exclKeys _ _ (hentry _ i hi) hb
  · split at hh
    · cases hh
      generalize filesOfPkg img a = fs
      induction fs generalizing b with
      | nil => exact hb
      | cons f fs ih =>
        simp only [List.foldl_cons]
        apply ih
        split
        · rename_i i hi
          exact noOneofMode_exclKeys _ _ (hentry _ i hi) hb
        · exact hb
    · cases hh

theorem oinv_of_noOneofMode (c : Ctx) (st : St) (h : NoOneofMode st) : OInv c st := by
  intro m n i h4
  rw [rk_of_get (h m n)] at h4
  simp [rank] at h4

/-- **The oneof invariant holds in the final closure of the current code.** -/
theorem closure_oinv (cfg : Cfg) (hcfg : cfg.svcMarksInput = false) (img : Image) (o : Opts) (fuel : Nat) (st : St)
    (h : closure cfg img o fuel = .ok st) : OInv ⟨cfg, buildIndex img, o.customOpts⟩ st := by
  have hk := idxKeys_buildIndex img
  obtain ⟨st0, st1, st2, h0, h1, h2, h3⟩ := closure_phases cfg img o fuel st h
  let c : Ctx := ⟨cfg, buildIndex img, o.customOpts⟩
  have hrun : ∀ n st st' k ref imp, run c n st [.add k ref imp] = .ok st' → OInv c st → OInv c st' :=
    fun n st st' k ref imp h hs => run_oinv c hk hcfg n st st' _ h hs (fun k hm => by simp at hm)
  have g0 : OInv c st0 := oinv_of_noOneofMode c st0 (noOneofMode_excludePhase img st0 _ h0)
  have g1 : OInv c st1 := by
    refine foldlE_pres (OInv c) _ ?_ _ _ _ g0 h1
    intro b a b' hb hh
    unfold includeType at hh
    split at hh
    · leaves hh
      exact hrun _ _ _ _ _ _ hh hb
    · leaves hh
      refine foldlE_pres (OInv c) _ ?_ _ _ _ hb hh
      intro b2 f b2' hb2 hh2
      unfold includeFile at hh2
      split at hh2
      · cases hh2
      · exact hrun _ _ _ _ _ _ hh2 hb2
  have g2 : OInv c st2 := by
    split at h2
    · unfold includeEverything at h2
      refine foldlE_pres (OInv c) _ ?_ _ _ _ g1 h2
      intro b a b' hb hh
      leaves hh
      · cases hh; exact hb
      · cases hh; exact hb
      · exact hrun _ _ _ _ _ _ hh hb
    · cases h2; exact g1
  split at h3
  · unfold addExtensions at h3
    refine foldlE_pres (OInv c) _ ?_ _ _ _ g2 h3
    intro b a b' hb hh
    refine foldlE_pres (OInv c) _ ?_ _ _ _ hb hh
    intro b2 a2 b2' hb2 hh2
    split at hh2
    · cases hh2; exact hb2
    · exact hrun _ _ _ _ _ _ hh2 hb2
  · cases h3; exact g2

/-! ### output level -/

/-- input condition (decidable): every `oneof_index` of the INPUT image is in range -/
def OneofsWF (idx : Index) : Prop := ∀ j ∈ idx, ∀ f ∈ j.fields, ∀ n, f.oneof = some n → n < j.oneofs.length

def oneofsWFB (idx : Index) : Bool :=
  idx.all (fun j => j.fields.all (fun f => match f.oneof with
    | some n => decide (n < j.oneofs.length)
    | none => true))

theorem oneofsWF_of_B (idx : Index) (h : oneofsWFB idx = true) : OneofsWF idx := by
  unfold oneofsWFB at h
  simp only [List.all_eq_true] at h
  intro j hj f hf n hn
  have := h j hj f hf
  simpa [hn] using this

theorem remapFile_msgs (c : RCtx) (f : File) (of : OFile) (h : remapFile c f = some of) :
    of.msgs = (remapMsgs c [4] f.msgs 0 0).1 := by
  unfold remapFile at h
  split at h
  · cases h
  · simp only [Option.some.injEq] at h
    subst h
    rfl

/-- in the final closure no kept field is a member of a dropped oneof, and its index is in range -/
theorem keptHyp_of_closure (img : Image) (o : Opts) (fuel : Nat) (st : St)
    (hcl : closure cfgFixed img o fuel = .ok st) (hu : UniqIdx (buildIndex img)) (hw : OneofsWF (buildIndex img))
    (noInc mio rn : Bool) : ∀ j ∈ buildIndex img, KeptHyp ⟨st, noInc, mio, rn⟩ j := by
  intro j hj m hkey f hf hty n ho
  refine ⟨hw j hj f hf n ho, ?_⟩
  intro hx
  have hfind : (buildIndex img).find (.el m) = some j := by rw [← hkey]; exact hu j hj
  obtain ⟨t, ht, h4⟩ := closure_oinv cfgFixed rfl img o fuel st hcl m n j (rk_excl.mpr hx) hfind f hf ho
  have := hty t ht
  rw [has_false_of_excl st _ _ _ _ h4] at this
  cases this

/-- **oneof indexes of the output are in range** (every message, any depth). -/
theorem filterWith_oneofs_ok (img : Image) (o : Opts) (fuel : Nat) (out : List OFile)
    (h : filterWith cfgFixed img o fuel = .ok out) (hu : UniqIdx (buildIndex img)) (hw : OneofsWF (buildIndex img))
    (of : OFile) (hof : of ∈ out) : ∀ y ∈ msgsAll of.msgs, OneofOK y := by
  obtain ⟨st, hcl, hrw⟩ := filterWith_parts _ _ _ _ _ h
  obtain ⟨f, hf, hrf⟩ := rewrite_origin cfgFixed rfl st _ img out hrw of hof
  have hrf' : remapFile ⟨st, o.includes.isEmpty, true, true⟩ f = some of := hrf
  rw [remapFile_msgs _ f of hrf']
  refine (oneofs_msgs ⟨st, o.includes.isEmpty, true, true⟩ rfl f.id (.file f.id) [4] f.msgs 0 0).1 ?_
  intro j hj _
  exact keptHyp_of_closure img o fuel st hcl hu hw _ _ _ j
    (mem_buildIndex_of img f hf j (mem_fileInfos_msgs f j hj))

/-- a kept, not enclosing-only message is visited, so every oneof that is not dropped has a kept member -/
theorem fullHyp_of_closure (img : Image) (o : Opts) (fuel : Nat) (st : St)
    (hcl : closure cfgFixed img o fuel = .ok st) (hu : UniqIdx (buildIndex img)) (hr : WFRefs (buildIndex img))
    (hres : RefsResolve (buildIndex img)) (hmode : o.includes ≠ [] ∨ NoImportCover img)
    (f : File) (hf : f ∈ img.files) :
    ∀ j ∈ fileInfos f, j.kind = .msg → FullHyp ⟨st, o.includes.isEmpty, true, true⟩ j := by
  intro j hj hk m hkey hhas hne n hn hnx
  let c : Ctx := ⟨cfgFixed, buildIndex img, o.customOpts⟩
  have hjidx := mem_buildIndex_of img f hf j hj
  have hjfind : c.idx.find j.key = some j := hu j hjidx
  obtain ⟨st0, h0, ho, hgood⟩ := closure_good cfgFixed rfl img o fuel st hcl
  have h1 : rk st j.key ≠ 1 := by
    intro h1
    apply hne
    unfold rk at h1
    cases hm : st.get j.key with
    | none => rw [hm] at h1; simp [rank] at h1
    | some md => rw [hm] at h1; cases md <;> simp [rank] at h1 ⊢
  obtain ⟨h2, h3⟩ := visited_of_has img o fuel st hcl hu hmode f hf j hj (by rw [hk]; simp) (by rw [hk]; simp) hhas h1
  have hreq := (hgood.1 j.key j hjfind).2 h2 h3
  have hp := hreq (.oneofs j.key) (by
    unfold reqTasks; rw [hk]
    simp only [List.mem_append, List.mem_map, List.mem_cons, List.mem_nil_iff, or_false]
    exact Or.inl (Or.inl (Or.inr trivial)))
  have hpo := hp j hjfind
  have hom : oneofMsg j.key = m := by rw [hkey]; rfl
  rcases hpo n hn with h4 | ⟨g, hg, hgo, hgt⟩
  · rw [hom] at h4
    exact absurd (rk_excl.mp h4) hnx
  · refine ⟨g, hg, hgo, hr.fieldsPlain j hjidx g hg, ?_⟩
    intro t ht
    obtain ⟨it, hit, hfld, _, _⟩ := hres.fieldTy j hjidx g hg t ht
    have hnon : NonExt c (.el t) := ⟨by intro a b; simp, fun ie hie => by
      have : (buildIndex img).find (.el t) = some ie := hie
      rw [hit] at this; cases this; exact hfld⟩
    have hne4 : rk st (.el t) ≠ 4 := by
      rcases hgt t ht with h | h
      · exact h
      · exact absurd hnon h
    cases hinc : o.includes.isEmpty with
    | true => rw [has_true_noInc]; exact hne4
    | false =>
      rw [has_iff_rk]
      have hpf := hreq (.field g j.file) (by
        unfold reqTasks; rw [hk]
        simp only [List.mem_append, List.mem_map]
        exact Or.inl (Or.inl (Or.inl ⟨g, hg, rfl⟩)))
      rcases hpf with ⟨t', ht', h4⟩ | ⟨hadd, _⟩
      · rw [ht] at ht'; cases ht'; exact absurd h4 hne4
      · have := (hadd t ht it hit).1
        have := rk_le_four st (.el t)
        omega

/-- **every oneof of the output has a member** (every message, any depth; needs the mode hypothesis
    that excludes known finding 9e: the message must have been VISITED by the closure). -/
theorem filterWith_oneofs_full (img : Image) (o : Opts) (fuel : Nat) (out : List OFile)
    (h : filterWith cfgFixed img o fuel = .ok out) (hu : UniqIdx (buildIndex img)) (hr : WFRefs (buildIndex img))
    (hres : RefsResolve (buildIndex img)) (hw : OneofsWF (buildIndex img))
    (hmode : o.includes ≠ [] ∨ NoImportCover img)
    (of : OFile) (hof : of ∈ out) : ∀ y ∈ msgsAll of.msgs, OneofFull y := by
  obtain ⟨st, hcl, hrw⟩ := filterWith_parts _ _ _ _ _ h
  obtain ⟨f, hf, hrf⟩ := rewrite_origin cfgFixed rfl st _ img out hrw of hof
  have hrf' : remapFile ⟨st, o.includes.isEmpty, true, true⟩ f = some of := hrf
  rw [remapFile_msgs _ f of hrf']
  refine (oneofs_msgs ⟨st, o.includes.isEmpty, true, true⟩ rfl f.id (.file f.id) [4] f.msgs 0 0).2 ?_
  intro j hj hk
  have hjf := mem_fileInfos_msgs f j hj
  exact ⟨keptHyp_of_closure img o fuel st hcl hu hw _ _ _ j (mem_buildIndex_of img f hf j hjf),
    fullHyp_of_closure img o fuel st hcl hu hr hres hmode f hf j hjf hk⟩

end BufProofs.FilterOneof
