import BufModel.Bucket
import BufProofs.Lemmas.PathLemmas
/-
  Lemmas about the bucket model: the memory bucket and layered views refine a finite map from
  keys (lists of proper components) to contents; operations through a view rooted at prefix
  key `P` only ever touch keys that extend `P`.
-/
namespace BufModel.Bucket
open BufModel.Path

/-- Key-annotated layers: the prefix of a `pre` layer is a key. -/
inductive KLayer where
  | pre (k : Key)
  | filt (m : Matcher)

def KLayer.toLayer : KLayer → Layer
  | .pre k => .pre (renderKey k)
  | .filt m => .filt m

/-- The key prefix under which a view (layers outermost first) is rooted in its base bucket. -/
def fullKey : List KLayer → Key
  | [] => []
  | .pre k :: ls => fullKey ls ++ k
  | .filt _ :: ls => fullKey ls

def KLayersOK : List KLayer → Prop
  | [] => True
  | .pre k :: ls => AllProper k ∧ KLayersOK ls
  | .filt _ :: ls => KLayersOK ls

theorem fullKey_proper {ls : List KLayer} (h : KLayersOK ls) : AllProper (fullKey ls) := by
  induction ls with
  | nil => exact allProper_nil
  | cons l ls ih =>
    cases l with
    | pre k => exact allProper_append.mpr ⟨ih h.2, h.1⟩
    | filt m => exact ih h

/-! ### find / erase on association lists -/

theorem find_cons_eq (k : Str) (v : Content) (m : Mem) : Mem.find ((k, v) :: m) k = some v := by
  simp [Mem.find]

theorem find_cons_ne (k k' : Str) (v : Content) (m : Mem) (h : k ≠ k') :
    Mem.find ((k, v) :: m) k' = Mem.find m k' := by
  simp [Mem.find, h]

theorem find_erase_eq (m : Mem) (k : Str) : Mem.find (m.erase k) k = none := by
  induction m with
  | nil => simp [Mem.erase, Mem.find]
  | cons kv rest ih =>
    obtain ⟨a, b⟩ := kv
    by_cases h : a = k
    · subst h; simpa [Mem.erase, List.filter] using ih
    · have : (Mem.erase ((a, b) :: rest) k) = (a, b) :: Mem.erase rest k := by
        simp [Mem.erase, List.filter, h]
      rw [this, find_cons_ne _ _ _ _ h]; exact ih

theorem find_erase_ne (m : Mem) (k k' : Str) (h : k ≠ k') : Mem.find (m.erase k) k' = Mem.find m k' := by
  induction m with
  | nil => simp [Mem.erase, Mem.find]
  | cons kv rest ih =>
    obtain ⟨a, b⟩ := kv
    by_cases ha : a = k
    · subst ha
      have : (Mem.erase ((a, b) :: rest) a) = Mem.erase rest a := by simp [Mem.erase, List.filter]
      rw [this, find_cons_ne _ _ _ _ h]; exact ih
    · have : (Mem.erase ((a, b) :: rest) k) = (a, b) :: Mem.erase rest k := by
        simp [Mem.erase, List.filter, ha]
      rw [this]
      by_cases hk : a = k'
      · subst hk; simp [Mem.find]
      · rw [find_cons_ne _ _ _ _ hk, find_cons_ne _ _ _ _ hk]; exact ih

theorem find_filter (m : Mem) (p : Str → Bool) (k : Str) :
    Mem.find (m.filter fun kv => p kv.1) k = if p k then Mem.find m k else none := by
  induction m with
  | nil => simp [Mem.find]
  | cons kv rest ih =>
    obtain ⟨a, b⟩ := kv
    by_cases hpa : p a = true
    · simp only [List.filter, hpa]
      by_cases hak : a = k
      · subst hak; simp [Mem.find, hpa]
      · rw [find_cons_ne _ _ _ _ hak, find_cons_ne _ _ _ _ hak]; exact ih
    · have hpa' : p a = false := by simpa using hpa
      simp only [List.filter, hpa']
      by_cases hak : a = k
      · subst hak; rw [ih]; simp [hpa', Mem.find]
      · rw [find_cons_ne _ _ _ _ hak]; exact ih

theorem find_some_mem {m : Mem} {k : Str} {c : Content} (h : Mem.find m k = some c) : (k, c) ∈ m := by
  induction m with
  | nil => simp [Mem.find] at h
  | cons kv rest ih =>
    obtain ⟨a, b⟩ := kv
    by_cases hak : a = k
    · subst hak; simp [Mem.find] at h; subst h; simp
    · rw [find_cons_ne _ _ _ _ hak] at h; exact List.mem_cons_of_mem _ (ih h)


/-! ### What each view operation does, in terms of keys -/

theorem mapFullPath_spec (p : Key) (hp : AllProper p) (path full : Str)
    (h : mapFullPath (renderKey p) path = .ok full) :
    ∃ kq : Key, AllProper kq ∧ kq ≠ [] ∧ normalizeAndValidate path = .ok (renderKey kq) ∧
      full = renderKey (p ++ kq) := by
  unfold mapFullPath at h
  cases hv : normalizeAndValidate path with
  | error e => rw [hv] at h; cases h
  | ok q =>
    rw [hv] at h
    simp only at h
    split at h
    · cases h
    · rename_i hnd
      injection h with h
      obtain ⟨kq, hkq, hq⟩ := validate_sound path q hv
      refine ⟨kq, hkq, ?_, by rw [hq], ?_⟩
      · intro e; subst e; exact hnd (by rw [hq, renderKey_nil])
      · rw [← h, hq, join_keys hp hkq]

/-- Put through a view: the only key written is `fullKey ls ++ kq` for a non-empty key `kq`
    that the given path validated to. -/
theorem vPut_spec (ls : List KLayer) (hls : KLayersOK ls) (m m' : Mem) (path : Str) (c : Content)
    (h : vPut (ls.map KLayer.toLayer) m path c = .ok m') :
    ∃ kq : Key, AllProper kq ∧ kq ≠ [] ∧ normalizeAndValidate path = .ok (renderKey kq) ∧
      m' = (renderKey (fullKey ls ++ kq), c) :: m.erase (renderKey (fullKey ls ++ kq)) := by
  induction ls generalizing path with
  | nil =>
    simp only [List.map, vPut, memPut] at h
    cases hv : validatePath path with
    | error e => rw [hv] at h; cases h
    | ok p =>
      rw [hv] at h
      injection h with h
      obtain ⟨k, hk, hne, hp, hnv⟩ := validatePath_sound path p hv
      exact ⟨k, hk, hne, by rw [hnv, hp], by simp [fullKey, ← h, hp]⟩
  | cons l ls ih =>
    cases l with
    | pre k =>
      simp only [List.map, KLayer.toLayer, vPut] at h
      cases hm : mapFullPath (renderKey k) path with
      | error e => rw [hm] at h; cases h
      | ok full =>
        rw [hm] at h
        obtain ⟨kq, hkq, hne, hnv, hfull⟩ := mapFullPath_spec k hls.1 path full hm
        obtain ⟨kq', hkq', hne', hnv', hm'⟩ := ih hls.2 full h
        have hkk : AllProper (k ++ kq) := allProper_append.mpr ⟨hls.1, hkq⟩
        rw [hfull, validate_renderKey hkk] at hnv'
        have : kq' = k ++ kq := by
          injection hnv' with e
          exact (renderKey_inj hkk hkq' e).symm
        subst this
        exact ⟨kq, hkq, hne, hnv, by simp [fullKey, hm', List.append_assoc]⟩
    | filt f =>
      simp only [List.map, KLayer.toLayer, vPut] at h
      cases h

theorem vDelete_spec (ls : List KLayer) (hls : KLayersOK ls) (m m' : Mem) (path : Str)
    (h : vDelete (ls.map KLayer.toLayer) m path = .ok m') :
    ∃ kq : Key, AllProper kq ∧ kq ≠ [] ∧ normalizeAndValidate path = .ok (renderKey kq) ∧
      m.find (renderKey (fullKey ls ++ kq)) ≠ none ∧
      m' = m.erase (renderKey (fullKey ls ++ kq)) := by
  induction ls generalizing path with
  | nil =>
    simp only [List.map, vDelete, memDelete] at h
    cases hv : validatePath path with
    | error e => rw [hv] at h; cases h
    | ok p =>
      rw [hv] at h
      simp only at h
      obtain ⟨k, hk, hne, hp, hnv⟩ := validatePath_sound path p hv
      cases hf : m.find p with
      | none => rw [hf] at h; cases h
      | some c0 =>
        rw [hf] at h
        injection h with h
        refine ⟨k, hk, hne, by rw [hnv, hp], ?_, by simp [fullKey, ← h, hp]⟩
        simp [fullKey, ← hp, hf]
  | cons l ls ih =>
    cases l with
    | pre k =>
      simp only [List.map, KLayer.toLayer, vDelete] at h
      cases hm : mapFullPath (renderKey k) path with
      | error e => rw [hm] at h; cases h
      | ok full =>
        rw [hm] at h
        obtain ⟨kq, hkq, hne, hnv, hfull⟩ := mapFullPath_spec k hls.1 path full hm
        obtain ⟨kq', hkq', hne', hnv', hfound, hm'⟩ := ih hls.2 full h
        have hkk : AllProper (k ++ kq) := allProper_append.mpr ⟨hls.1, hkq⟩
        rw [hfull, validate_renderKey hkk] at hnv'
        have : kq' = k ++ kq := by
          injection hnv' with e
          exact (renderKey_inj hkk hkq' e).symm
        subst this
        refine ⟨kq, hkq, hne, hnv, ?_, ?_⟩
        · simpa [fullKey, List.append_assoc] using hfound
        · simp [fullKey, hm', List.append_assoc]
    | filt f =>
      simp only [List.map, KLayer.toLayer, vDelete] at h
      cases h

theorem vDeleteAll_spec (ls : List KLayer) (hls : KLayersOK ls) (m m' : Mem) (pfx : Str)
    (h : vDeleteAll (ls.map KLayer.toLayer) m pfx = .ok m') :
    ∃ kq : Key, AllProper kq ∧ normalizeAndValidate pfx = .ok (renderKey kq) ∧
      m' = m.filter (fun kv => !equalsOrContainsPath (renderKey (fullKey ls ++ kq)) kv.1) := by
  induction ls generalizing pfx with
  | nil =>
    simp only [List.map, vDeleteAll, memDeleteAll, validatePrefix] at h
    cases hv : normalizeAndValidate pfx with
    | error e => rw [hv] at h; cases h
    | ok p =>
      rw [hv] at h
      injection h with h
      obtain ⟨k, hk, hp⟩ := validate_sound pfx p hv
      exact ⟨k, hk, by rw [hp], by simp [fullKey, ← h, hp]⟩
  | cons l ls ih =>
    cases l with
    | pre k =>
      simp only [List.map, KLayer.toLayer, vDeleteAll] at h
      cases hv : normalizeAndValidate pfx with
      | error e => rw [hv] at h; cases h
      | ok q =>
        rw [hv] at h
        simp only at h
        obtain ⟨kq, hkq, hq⟩ := validate_sound pfx q hv
        rw [hq, join_keys hls.1 hkq] at h
        obtain ⟨kq', hkq', hnv', hm'⟩ := ih hls.2 _ h
        have hkk : AllProper (k ++ kq) := allProper_append.mpr ⟨hls.1, hkq⟩
        rw [validate_renderKey hkk] at hnv'
        have : kq' = k ++ kq := by
          injection hnv' with e
          exact (renderKey_inj hkk hkq' e).symm
        subst this
        exact ⟨kq, hkq, by rw [hq], by simp [fullKey, hm', List.append_assoc]⟩
    | filt f =>
      simp only [List.map, KLayer.toLayer, vDeleteAll] at h
      cases h

/-- Get through a view returns the content stored at `fullKey ls ++ kq` in the base bucket. -/
theorem vGet_spec (ls : List KLayer) (hls : KLayersOK ls) (m : Mem) (path : Str) (c : Content)
    (h : vGet (ls.map KLayer.toLayer) m path = .ok c) :
    ∃ kq : Key, AllProper kq ∧ kq ≠ [] ∧ normalizeAndValidate path = .ok (renderKey kq) ∧
      m.find (renderKey (fullKey ls ++ kq)) = some c := by
  induction ls generalizing path with
  | nil =>
    simp only [List.map, vGet, memGet] at h
    cases hv : validatePath path with
    | error e => rw [hv] at h; cases h
    | ok p =>
      rw [hv] at h
      simp only at h
      obtain ⟨k, hk, hne, hp, hnv⟩ := validatePath_sound path p hv
      cases hf : m.find p with
      | none => rw [hf] at h; cases h
      | some c0 =>
        rw [hf] at h
        injection h with h
        exact ⟨k, hk, hne, by rw [hnv, hp], by simp [fullKey, ← hp, hf, h]⟩
  | cons l ls ih =>
    cases l with
    | pre k =>
      simp only [List.map, KLayer.toLayer, vGet] at h
      cases hm : mapFullPath (renderKey k) path with
      | error e => rw [hm] at h; cases h
      | ok full =>
        rw [hm] at h
        obtain ⟨kq, hkq, hne, hnv, hfull⟩ := mapFullPath_spec k hls.1 path full hm
        obtain ⟨kq', hkq', hne', hnv', hfound⟩ := ih hls.2 full h
        have hkk : AllProper (k ++ kq) := allProper_append.mpr ⟨hls.1, hkq⟩
        rw [hfull, validate_renderKey hkk] at hnv'
        have : kq' = k ++ kq := by
          injection hnv' with e
          exact (renderKey_inj hkk hkq' e).symm
        subst this
        exact ⟨kq, hkq, hne, hnv, by simpa [fullKey, List.append_assoc] using hfound⟩
    | filt f =>
      simp only [List.map, KLayer.toLayer, vGet] at h
      cases hv : normalizeAndValidate path with
      | error e => rw [hv] at h; cases h
      | ok q =>
        rw [hv] at h
        simp only at h
        split at h
        · cases h
        · obtain ⟨kq, hkq, hq⟩ := validate_sound path q hv
          obtain ⟨kq', hkq', hne', hnv', hfound⟩ := ih hls q h
          rw [hq, validate_renderKey hkq] at hnv'
          have : kq' = kq := by
            injection hnv' with e
            exact (renderKey_inj hkq hkq' e).symm
          subst this
          exact ⟨kq', hkq', hne', by rw [hq], by simpa [fullKey] using hfound⟩


/-! ### Invariants of the memory bucket -/

/-- Every stored key is the rendering of a non-empty key. -/
def KeysValid (m : Mem) : Prop :=
  ∀ kv ∈ m, ∃ k : Key, AllProper k ∧ k ≠ [] ∧ kv.1 = renderKey k

theorem keysValid_nil : KeysValid [] := by intro kv h; cases h

theorem keysValid_erase {m : Mem} (h : KeysValid m) (p : Str) : KeysValid (m.erase p) := by
  intro kv hkv; exact h kv (List.mem_filter.mp hkv).1

theorem keysValid_filter {m : Mem} (h : KeysValid m) (f : Str × Content → Bool) : KeysValid (m.filter f) := by
  intro kv hkv; exact h kv (List.mem_filter.mp hkv).1

theorem keysValid_cons {m : Mem} (h : KeysValid m) {k : Key} (hk : AllProper k) (hne : k ≠ []) (c : Content) :
    KeysValid ((renderKey k, c) :: m) := by
  intro kv hkv
  rcases List.mem_cons.mp hkv with e | hm
  · subst e; exact ⟨k, hk, hne, rfl⟩
  · exact h kv hm

/-- No two entries share a key. -/
def NodupKeys (m : Mem) : Prop := (m.map (·.1)).Nodup

theorem nodupKeys_filter {m : Mem} (h : NodupKeys m) (f : Str × Content → Bool) : NodupKeys (m.filter f) := by
  unfold NodupKeys at *
  exact List.Nodup.sublist (List.Sublist.map _ List.filter_sublist) h

theorem not_mem_keys_erase (m : Mem) (p : Str) : p ∉ (m.erase p).map (·.1) := by
  intro h
  obtain ⟨kv, hkv, he⟩ := List.mem_map.mp h
  have := (List.mem_filter.mp hkv).2
  simp at this; exact this he

theorem nodupKeys_put {m : Mem} (h : NodupKeys m) (p : Str) (c : Content) :
    NodupKeys ((p, c) :: m.erase p) := by
  unfold NodupKeys
  simp only [List.map]
  exact List.nodup_cons.mpr ⟨not_mem_keys_erase m p, nodupKeys_filter h _⟩

/-! ### Walk -/

theorem unmapAll_sound (p : Key) (hp : AllProper p) (objs out : List (Str × Content))
    (hobjs : ∀ qc ∈ objs, ∃ kk : Key, AllProper kk ∧ qc.1 = renderKey kk)
    (h : unmapAll (renderKey p) objs = .ok out) :
    ∀ qc ∈ out, ∃ kk : Key, AllProper kk ∧ qc.1 = renderKey kk ∧ (renderKey (p ++ kk), qc.2) ∈ objs := by
  induction objs generalizing out with
  | nil => simp [unmapAll] at h; subst h; intro qc hqc; cases hqc
  | cons o rest ih =>
    obtain ⟨q, c⟩ := o
    obtain ⟨kk, hkk, hq⟩ := hobjs (q, c) (by simp)
    simp only at hq
    have hrest : ∀ qc ∈ rest, ∃ kk : Key, AllProper kk ∧ qc.1 = renderKey kk :=
      fun qc hqc => hobjs qc (List.mem_cons_of_mem _ hqc)
    unfold unmapAll at h
    unfold unmapPrefix at h
    by_cases hecp : equalsOrContainsPath (renderKey p) q = true
    · rw [hq] at hecp
      obtain ⟨r, hr⟩ := (ecp_keys hp hkk).mp hecp
      have hrp : AllProper r := by rw [← hr] at hkk; exact (allProper_append.mp hkk).2
      have hrel : rel (renderKey p) q = some (renderKey r) := by rw [hq, ← hr]; exact rel_keys hp hrp
      have hecp' : equalsOrContainsPath (renderKey p) q = true := by rw [hq]; exact hecp
      simp only [hecp', Bool.not_true, Bool.false_eq_true, if_false, hrel] at h
      cases hu : unmapAll (renderKey p) rest with
      | error e => rw [hu] at h; cases h
      | ok out' =>
        rw [hu] at h
        injection h with h; subst h
        intro qc hqc
        rcases List.mem_cons.mp hqc with e | hm
        · subst e
          exact ⟨r, hrp, rfl, by simp [hr, hq]⟩
        · obtain ⟨kk', h1, h2, h3⟩ := ih out' hrest hu qc hm
          exact ⟨kk', h1, h2, List.mem_cons_of_mem _ h3⟩
    · have hecp' : equalsOrContainsPath (renderKey p) q = false := by simpa using hecp
      simp only [hecp', Bool.not_false, if_true] at h
      intro qc hqc
      obtain ⟨kk', h1, h2, h3⟩ := ih out hrest h qc hqc
      exact ⟨kk', h1, h2, List.mem_cons_of_mem _ h3⟩

/-- Walk through a view only reports objects stored under the view's root (and under the
    requested prefix), with their paths relative to the view. -/
theorem vWalk_sound (ls : List KLayer) (hls : KLayersOK ls) (m : Mem) (hm : KeysValid m)
    (pfx : Str) (objs : List (Str × Content))
    (h : vWalk (ls.map KLayer.toLayer) m pfx = .ok objs) :
    ∃ kq : Key, AllProper kq ∧ normalizeAndValidate pfx = .ok (renderKey kq) ∧
      ∀ qc ∈ objs, ∃ kk : Key, AllProper kk ∧ qc.1 = renderKey kk ∧ kq <+: kk ∧
        (renderKey (fullKey ls ++ kk), qc.2) ∈ m := by
  induction ls generalizing pfx objs with
  | nil =>
    simp only [List.map, vWalk, memWalk, validatePrefix] at h
    cases hv : normalizeAndValidate pfx with
    | error e => rw [hv] at h; cases h
    | ok p =>
      rw [hv] at h
      injection h with h
      obtain ⟨kq, hkq, hp⟩ := validate_sound pfx p hv
      refine ⟨kq, hkq, by rw [hp], ?_⟩
      intro qc hqc
      rw [← h] at hqc
      obtain ⟨hmem, hecp⟩ := List.mem_filter.mp hqc
      obtain ⟨kk, hkk, _, hkey⟩ := hm qc hmem
      rw [hp, hkey] at hecp
      exact ⟨kk, hkk, hkey, (ecp_keys hkq hkk).mp hecp, by simpa [fullKey, ← hkey] using hmem⟩
  | cons l ls ih =>
    cases l with
    | pre k =>
      simp only [List.map, KLayer.toLayer, vWalk] at h
      cases hv : normalizeAndValidate pfx with
      | error e => rw [hv] at h; cases h
      | ok q =>
        rw [hv] at h
        simp only at h
        obtain ⟨kq, hkq, hq⟩ := validate_sound pfx q hv
        rw [hq, join_keys hls.1 hkq] at h
        cases hw : vWalk (ls.map KLayer.toLayer) m (renderKey (k ++ kq)) with
        | error e => rw [hw] at h; cases h
        | ok inner =>
          rw [hw] at h
          simp only at h
          obtain ⟨kq', hkq', hnv', hinner⟩ := ih hls.2 _ inner hw
          have hkk : AllProper (k ++ kq) := allProper_append.mpr ⟨hls.1, hkq⟩
          rw [validate_renderKey hkk] at hnv'
          have hkq'eq : kq' = k ++ kq := by
            injection hnv' with e
            exact (renderKey_inj hkk hkq' e).symm
          subst hkq'eq
          refine ⟨kq, hkq, by rw [hq], ?_⟩
          have hform : ∀ qc ∈ inner, ∃ kk : Key, AllProper kk ∧ qc.1 = renderKey kk := by
            intro qc hqc
            obtain ⟨kk, h1, h2, _, _⟩ := hinner qc hqc
            exact ⟨kk, h1, h2⟩
          intro qc hqc
          obtain ⟨kk, hkkp, hqk, hin⟩ := unmapAll_sound k hls.1 inner objs hform h qc hqc
          obtain ⟨kk2, hkk2, hq2, hpre2, hmem2⟩ := hinner _ hin
          simp only at hq2
          have hkkk : AllProper (k ++ kk) := allProper_append.mpr ⟨hls.1, hkkp⟩
          have : kk2 = k ++ kk := (renderKey_inj hkkk hkk2 hq2).symm
          subst this
          refine ⟨kk, hkkp, hqk, ?_, ?_⟩
          · exact (List.prefix_append_right_inj k).mp hpre2
          · simpa [fullKey, List.append_assoc] using hmem2
    | filt f =>
      simp only [List.map, KLayer.toLayer, vWalk] at h
      cases hv : normalizeAndValidate pfx with
      | error e => rw [hv] at h; cases h
      | ok q =>
        rw [hv] at h
        simp only at h
        cases hw : vWalk (ls.map KLayer.toLayer) m q with
        | error e => rw [hw] at h; cases h
        | ok inner =>
          rw [hw] at h
          injection h with h
          obtain ⟨kq, hkq, hq⟩ := validate_sound pfx q hv
          obtain ⟨kq', hkq', hnv', hinner⟩ := ih hls q inner hw
          rw [hq, validate_renderKey hkq] at hnv'
          have : kq' = kq := by
            injection hnv' with e
            exact (renderKey_inj hkq hkq' e).symm
          subst this
          refine ⟨kq', hkq', by rw [hq], ?_⟩
          intro qc hqc
          rw [← h] at hqc
          have := hinner qc (List.mem_filter.mp hqc).1
          simpa [fullKey] using this


/-! ### Membership vs lookup; walk exactness for the memory bucket; putAll -/

theorem find_none_of_not_mem_keys {m : Mem} {k : Str} (h : k ∉ m.map (·.1)) : Mem.find m k = none := by
  induction m with
  | nil => simp [Mem.find]
  | cons kv rest ih =>
    obtain ⟨a, b⟩ := kv
    simp at h
    rw [find_cons_ne _ _ _ _ (fun e => h.1 e.symm)]
    exact ih (by simpa using h.2)

theorem mem_iff_find {m : Mem} (hn : NodupKeys m) (k : Str) (c : Content) :
    (k, c) ∈ m ↔ Mem.find m k = some c := by
  constructor
  · intro hmem
    induction m with
    | nil => cases hmem
    | cons kv rest ih =>
      obtain ⟨a, b⟩ := kv
      unfold NodupKeys at hn
      simp only [List.map, List.nodup_cons] at hn
      rcases List.mem_cons.mp hmem with e | hr
      · injection e with e1 e2; subst e1; subst e2; exact find_cons_eq _ _ _
      · have hak : a ≠ k := by
          intro e; subst e
          exact hn.1 (List.mem_map.mpr ⟨(a, c), hr, rfl⟩)
        rw [find_cons_ne _ _ _ _ hak]
        exact ih hn.2 hr
  · exact find_some_mem

/-- Walk on the memory bucket returns exactly the objects whose key extends the prefix key
    (component-wise), each once. -/
theorem memWalk_exact (m : Mem) (hv : KeysValid m) (hn : NodupKeys m) (pfx : Str)
    (objs : List (Str × Content)) (h : memWalk m pfx = .ok objs) :
    ∃ kq : Key, AllProper kq ∧ normalizeAndValidate pfx = .ok (renderKey kq) ∧
      NodupKeys objs ∧
      ∀ (k : Key) (c : Content), AllProper k →
        ((renderKey k, c) ∈ objs ↔ (kq <+: k ∧ Mem.find m (renderKey k) = some c)) := by
  unfold memWalk validatePrefix at h
  cases hnv : normalizeAndValidate pfx with
  | error e => rw [hnv] at h; cases h
  | ok p =>
    rw [hnv] at h
    injection h with h
    obtain ⟨kq, hkq, hp⟩ := validate_sound pfx p hnv
    refine ⟨kq, hkq, by rw [hp], ?_, ?_⟩
    · rw [← h]; exact nodupKeys_filter hn _
    · intro k c hk
      rw [← h, List.mem_filter, hp, mem_iff_find hn]
      constructor
      · intro ⟨h1, h2⟩; exact ⟨(ecp_keys hkq hk).mp h2, h1⟩
      · intro ⟨h1, h2⟩; exact ⟨h2, (ecp_keys hkq hk).mpr h1⟩

def lookupObjs (objs : List (Str × Content)) (k : Str) : Option Content := Mem.find objs k

/-- Copy / untar∘tar: putting a walked object list into a bucket. -/
theorem putAll_spec (objs : List (Str × Content)) (hv : KeysValid objs) (hn : NodupKeys objs) (m : Mem) :
    ∃ m', putAll m objs = .ok m' ∧
      ∀ k : Str, Mem.find m' k = (match Mem.find objs k with | some c => some c | none => Mem.find m k) := by
  induction objs generalizing m with
  | nil => exact ⟨m, rfl, by intro k; simp [Mem.find]⟩
  | cons o rest ih =>
    obtain ⟨q, c⟩ := o
    obtain ⟨kk, hkk, hne, hq⟩ := hv (q, c) (by simp)
    simp only at hq
    have hput : memPut m q c = .ok ((q, c) :: m.erase q) := by
      unfold memPut; rw [hq, validatePath_renderKey hkk hne]
    have hvr : KeysValid rest := fun kv hkv => hv kv (List.mem_cons_of_mem _ hkv)
    have hnr : NodupKeys rest := by
      unfold NodupKeys at hn ⊢; simp only [List.map, List.nodup_cons] at hn; exact hn.2
    have hq_notin : q ∉ rest.map (·.1) := by
      unfold NodupKeys at hn; simp only [List.map, List.nodup_cons] at hn; exact hn.1
    obtain ⟨m', hm', hfind⟩ := ih hvr hnr ((q, c) :: m.erase q)
    refine ⟨m', by simp only [putAll, hput, hm'], ?_⟩
    intro k
    rw [hfind k]
    by_cases hk : q = k
    · subst hk
      rw [find_none_of_not_mem_keys hq_notin, find_cons_eq, find_cons_eq]
    · rw [find_cons_ne q k c rest hk]
      cases hf : Mem.find rest k with
      | some c' => rfl
      | none => simp only; rw [find_cons_ne _ _ _ _ hk, find_erase_ne _ _ _ hk]


theorem mergeMulti_dup (oa : List (Str × Content)) (k : Str) (ca cb : Content) (hka : (k, ca) ∈ oa) :
    ∀ ob : List (Str × Content), (k, cb) ∈ ob → mergeMulti oa ob = .error .multiple := by
  intro ob
  induction ob with
  | nil => intro h; cases h
  | cons o rest ih =>
    intro hkb
    unfold mergeMulti
    by_cases hs : hasKey oa o.1 = true
    · simp [hs]
    · have hs' : hasKey oa o.1 = false := by simpa using hs
      rcases List.mem_cons.mp hkb with e | hr
      · exfalso; apply hs; subst e
        unfold hasKey; exact List.any_eq_true.mpr ⟨(k, ca), hka, by simp⟩
      · simp only [hs', Bool.false_eq_true, if_false]
        rw [ih hr]


/-! ### Walk through prefix views is exact (sound, complete, each object once) -/

/-- Every entry is keyed by a rendered key. -/
def KeysRendered (objs : List (Str × Content)) : Prop :=
  ∀ qc ∈ objs, ∃ kk : Key, AllProper kk ∧ qc.1 = renderKey kk

theorem unmapAll_complete (p : Key) (hp : AllProper p) (objs out : List (Str × Content))
    (hobjs : KeysRendered objs) (h : unmapAll (renderKey p) objs = .ok out)
    (kk : Key) (hkk : AllProper kk) (c : Content) (hin : (renderKey (p ++ kk), c) ∈ objs) :
    (renderKey kk, c) ∈ out := by
  induction objs generalizing out with
  | nil => cases hin
  | cons o rest ih =>
    obtain ⟨q, c0⟩ := o
    have hrest : KeysRendered rest := fun qc hqc => hobjs qc (List.mem_cons_of_mem _ hqc)
    obtain ⟨k0, hk0, hq0⟩ := hobjs (q, c0) (by simp)
    simp only at hq0
    unfold unmapAll at h
    unfold unmapPrefix at h
    by_cases hecp : equalsOrContainsPath (renderKey p) q = true
    · have hpre : p <+: k0 := (ecp_keys hp hk0).mp (by rw [← hq0]; exact hecp)
      obtain ⟨r, hr⟩ := hpre
      have hrp : AllProper r := by rw [← hr] at hk0; exact (allProper_append.mp hk0).2
      have hrel : rel (renderKey p) q = some (renderKey r) := by rw [hq0, ← hr]; exact rel_keys hp hrp
      simp only [hecp, Bool.not_true, Bool.false_eq_true, if_false, hrel] at h
      cases hu : unmapAll (renderKey p) rest with
      | error e => rw [hu] at h; cases h
      | ok out' =>
        rw [hu] at h
        injection h with h; subst h
        rcases List.mem_cons.mp hin with e | hm
        · injection e with e1 e2
          have : p ++ kk = k0 := renderKey_inj (allProper_append.mpr ⟨hp, hkk⟩) hk0 (by rw [e1, hq0])
          have : kk = r := by rw [← hr] at this; exact List.append_cancel_left this
          subst this; subst e2
          exact List.mem_cons_self
        · exact List.mem_cons_of_mem _ (ih out' hrest hu hm)
    · have hecp' : equalsOrContainsPath (renderKey p) q = false := by simpa using hecp
      simp only [hecp', Bool.not_false, if_true] at h
      rcases List.mem_cons.mp hin with e | hm
      · exfalso
        injection e with e1 e2
        have : equalsOrContainsPath (renderKey p) q = true := by
          rw [← e1]; exact (ecp_keys hp (allProper_append.mpr ⟨hp, hkk⟩)).mpr (List.prefix_append p kk)
        rw [hecp'] at this; cases this
      · exact ih out hrest h hm

theorem unmapAll_nodup (p : Key) (hp : AllProper p) (objs out : List (Str × Content))
    (hobjs : KeysRendered objs) (hn : NodupKeys objs) (h : unmapAll (renderKey p) objs = .ok out) :
    NodupKeys out ∧ KeysRendered out := by
  induction objs generalizing out with
  | nil => simp [unmapAll] at h; subst h; exact ⟨by simp [NodupKeys], fun qc hqc => by cases hqc⟩
  | cons o rest ih =>
    obtain ⟨q, c0⟩ := o
    have hrest : KeysRendered rest := fun qc hqc => hobjs qc (List.mem_cons_of_mem _ hqc)
    have hnrest : NodupKeys rest := by
      unfold NodupKeys at hn ⊢; simp only [List.map, List.nodup_cons] at hn; exact hn.2
    have hq_notin : q ∉ rest.map (·.1) := by
      unfold NodupKeys at hn; simp only [List.map, List.nodup_cons] at hn; exact hn.1
    obtain ⟨k0, hk0, hq0⟩ := hobjs (q, c0) (by simp)
    simp only at hq0
    unfold unmapAll at h
    unfold unmapPrefix at h
    by_cases hecp : equalsOrContainsPath (renderKey p) q = true
    · have hpre : p <+: k0 := (ecp_keys hp hk0).mp (by rw [← hq0]; exact hecp)
      obtain ⟨r, hr⟩ := hpre
      have hrp : AllProper r := by rw [← hr] at hk0; exact (allProper_append.mp hk0).2
      have hrel : rel (renderKey p) q = some (renderKey r) := by rw [hq0, ← hr]; exact rel_keys hp hrp
      simp only [hecp, Bool.not_true, Bool.false_eq_true, if_false, hrel] at h
      cases hu : unmapAll (renderKey p) rest with
      | error e => rw [hu] at h; cases h
      | ok out' =>
        rw [hu] at h
        injection h with h; subst h
        obtain ⟨ihn, ihr⟩ := ih out' hrest hnrest hu
        refine ⟨?_, ?_⟩
        · unfold NodupKeys
          simp only [List.map, List.nodup_cons]
          refine ⟨?_, ihn⟩
          intro hmem
          obtain ⟨qc, hqc, he⟩ := List.mem_map.mp hmem
          obtain ⟨kk, hkkp, hqk, hin⟩ := unmapAll_sound p hp rest out' hrest hu qc hqc
          have : kk = r := renderKey_inj hkkp hrp (by rw [← hqk, he])
          subst this
          apply hq_notin
          rw [hq0, ← hr]
          exact List.mem_map.mpr ⟨_, hin, rfl⟩
        · intro qc hqc
          rcases List.mem_cons.mp hqc with e | hm
          · subst e; exact ⟨r, hrp, rfl⟩
          · exact ihr qc hm
    · have hecp' : equalsOrContainsPath (renderKey p) q = false := by simpa using hecp
      simp only [hecp', Bool.not_false, if_true] at h
      exact ih out hrest hnrest h

/-- A prefix-only view. -/
def PreOnly : List KLayer → Prop
  | [] => True
  | .pre _ :: ls => PreOnly ls
  | .filt _ :: _ => False

/-- Walk through any nesting of prefix views returns EXACTLY the objects stored under
    (view root ++ requested prefix), each once, with view-relative paths. -/
theorem vWalk_pre_exact (ls : List KLayer) (hls : KLayersOK ls) (hpre : PreOnly ls)
    (m : Mem) (hv : KeysValid m) (hn : NodupKeys m) (pfx : Str) (objs : List (Str × Content))
    (h : vWalk (ls.map KLayer.toLayer) m pfx = .ok objs) :
    ∃ kq : Key, AllProper kq ∧ normalizeAndValidate pfx = .ok (renderKey kq) ∧
      NodupKeys objs ∧ KeysRendered objs ∧
      ∀ (kk : Key) (c : Content), AllProper kk →
        ((renderKey kk, c) ∈ objs ↔ (kq <+: kk ∧ Mem.find m (renderKey (fullKey ls ++ kk)) = some c)) := by
  induction ls generalizing pfx objs with
  | nil =>
    simp only [List.map, vWalk] at h
    obtain ⟨kq, hkq, hnv, hnd, hall⟩ := memWalk_exact m hv hn pfx objs h
    refine ⟨kq, hkq, hnv, hnd, ?_, by simpa [fullKey] using hall⟩
    intro qc hqc
    unfold memWalk validatePrefix at h
    rw [hnv] at h
    injection h with h
    rw [← h] at hqc
    obtain ⟨kk, hkk, _, hk⟩ := hv qc (List.mem_filter.mp hqc).1
    exact ⟨kk, hkk, hk⟩
  | cons l ls ih =>
    cases l with
    | filt f => exact absurd hpre (by simp [PreOnly])
    | pre k =>
      simp only [List.map, KLayer.toLayer, vWalk] at h
      cases hnv : normalizeAndValidate pfx with
      | error e => rw [hnv] at h; cases h
      | ok q =>
        rw [hnv] at h
        simp only at h
        obtain ⟨kq, hkq, hq⟩ := validate_sound pfx q hnv
        rw [hq, join_keys hls.1 hkq] at h
        cases hw : vWalk (ls.map KLayer.toLayer) m (renderKey (k ++ kq)) with
        | error e => rw [hw] at h; cases h
        | ok inner =>
          rw [hw] at h
          simp only at h
          obtain ⟨kq', hkq', hnv', hnd', hrend', hall'⟩ := ih hls.2 hpre _ inner hw
          have hkk : AllProper (k ++ kq) := allProper_append.mpr ⟨hls.1, hkq⟩
          rw [validate_renderKey hkk] at hnv'
          have hkq'eq : kq' = k ++ kq := by
            injection hnv' with e
            exact (renderKey_inj hkk hkq' e).symm
          subst hkq'eq
          obtain ⟨hndo, hrendo⟩ := unmapAll_nodup k hls.1 inner objs hrend' hnd' h
          refine ⟨kq, hkq, by rw [hq], hndo, hrendo, ?_⟩
          intro kk c hkkp
          have hkkk : AllProper (k ++ kk) := allProper_append.mpr ⟨hls.1, hkkp⟩
          constructor
          · intro hin
            obtain ⟨kk2, hkk2, hq2, hin2⟩ := unmapAll_sound k hls.1 inner objs hrend' h (renderKey kk, c) hin
            simp only at hq2 hin2
            have : kk2 = kk := (renderKey_inj hkkp hkk2 hq2).symm
            subst this
            have := (hall' (k ++ kk2) c hkkk).mp hin2
            refine ⟨(List.prefix_append_right_inj k).mp this.1, ?_⟩
            simpa [fullKey, List.append_assoc] using this.2
          · intro ⟨hpref, hfind⟩
            have hin2 : (renderKey (k ++ kk), c) ∈ inner :=
              (hall' (k ++ kk) c hkkk).mpr ⟨(List.prefix_append_right_inj k).mpr hpref, by
                simpa [fullKey, List.append_assoc] using hfind⟩
            exact unmapAll_complete k hls.1 inner objs hrend' h kk hkkp c hin2

end BufModel.Bucket
