import BufModel.Bucket
import BufProofs.Lemmas.PathLemmas
/-
  Lemmas about the bucket model: the memory bucket and layered views refine a finite map from
  keys (lists of proper components) to contents; operations through a view rooted at prefix
  key `P` only ever touch keys that extend `P`.
-/
namespace BufModel.Bucket
open BufModel.Path

/-- Key-annotated layers: the prefix of a `pre` layer is a key. -/
inductive KLayer where
  | pre (k : Key)
  | filt (m : Matcher)

def KLayer.toLayer : KLayer → Layer
  | .pre k => .pre (renderKey k)
  | .filt m => .filt m

/-- The key prefix under which a view (layers outermost first) is rooted in its base bucket. -/
def fullKey : List KLayer → Key
  | [] => []
  | .pre k :: ls => fullKey ls ++ k
  | .filt _ :: ls => fullKey ls

def KLayersOK : List KLayer → Prop
  | [] => True
  | .pre k :: ls => AllProper k ∧ KLayersOK ls
  | .filt _ :: ls => KLayersOK ls

theorem fullKey_proper {ls : List KLayer} (h : KLayersOK ls) : AllProper (fullKey ls) := by
  induction ls with
  | nil => exact allProper_nil
  | cons l ls ih =>
    cases l with
    | pre k => exact allProper_append.mpr ⟨ih h.2, h.1⟩
    | filt m => exact ih h

/-! ### find / erase on association lists -/

theorem find_cons_eq (k : Str) (v : Content) (m : Mem) : Mem.find ((k, v) :: m) k = some v := by
  simp [Mem.find]

theorem find_cons_ne (k k' : Str) (v : Content) (m : Mem) (h : k ≠ k') :
    Mem.find ((k, v) :: m) k' = Mem.find m k' := by
  simp [Mem.find, h]

theorem find_erase_eq (m : Mem) (k : Str) : Mem.find (m.erase k) k = none := by
  induction m with
  | nil => simp [Mem.erase, Mem.find]
  | cons kv rest ih =>
    obtain ⟨a, b⟩ := kv
    by_cases h : a = k
    · subst h; simpa [Mem.erase, List.filter] using ih
    · have : (Mem.erase ((a, b) :: rest) k) = (a, b) :: Mem.erase rest k := by
        simp [Mem.erase, List.filter, h]
      rw [this, find_cons_ne _ _ _ _ h]; exact ih

theorem find_erase_ne (m : Mem) (k k' : Str) (h : k ≠ k') : Mem.find (m.erase k) k' = Mem.find m k' := by
  induction m with
  | nil => simp [Mem.erase, Mem.find]
  | cons kv rest ih =>
    obtain ⟨a, b⟩ := kv
    by_cases ha : a = k
    · subst ha
      have : (Mem.erase ((a, b) :: rest) a) = Mem.erase rest a := by simp [Mem.erase, List.filter]
      rw [this, find_cons_ne _ _ _ _ h]; exact ih
    · have : (Mem.erase ((a, b) :: rest) k) = (a, b) :: Mem.erase rest k := by
        simp [Mem.erase, List.filter, ha]
      rw [this]
      by_cases hk : a = k'
      · subst hk; simp [Mem.find]
      · rw [find_cons_ne _ _ _ _ hk, find_cons_ne _ _ _ _ hk]; exact ih

theorem find_filter (m : Mem) (p : Str → Bool) (k : Str) :
    Mem.find (m.filter fun kv => p kv.1) k = if p k then Mem.find m k else none := by
  induction m with
  | nil => simp [Mem.find]
  | cons kv rest ih =>
    obtain ⟨a, b⟩ := kv
    by_cases hpa : p a = true
    · simp only [List.filter, hpa]
      by_cases hak : a = k
      · subst hak; simp [Mem.find, hpa]
      · rw [find_cons_ne _ _ _ _ hak, find_cons_ne _ _ _ _ hak]; exact ih
    · have hpa' : p a = false := by simpa using hpa
      simp only [List.filter, hpa']
      by_cases hak : a = k
      · subst hak; rw [ih]; simp [hpa', Mem.find]
      · rw [find_cons_ne _ _ _ _ hak]; exact ih

theorem find_some_mem {m : Mem} {k : Str} {c : Content} (h : Mem.find m k = some c) : (k, c) ∈ m := by
  induction m with
  | nil => simp [Mem.find] at h
  | cons kv rest ih =>
    obtain ⟨a, b⟩ := kv
    by_cases hak : a = k
    · subst hak; simp [Mem.find] at h; subst h; simp
    · rw [find_cons_ne _ _ _ _ hak] at h; exact List.mem_cons_of_mem _ (ih h)


/-! ### What each view operation does, in terms of keys -/

theorem mapFullPath_spec (p : Key) (hp : AllProper p) (path full : Str)
    (h : mapFullPath (renderKey p) path = .ok full) :
    ∃ kq : Key, AllProper kq ∧ kq ≠ [] ∧ normalizeAndValidate path = .ok (renderKey kq) ∧
      full = renderKey (p ++ kq) := by
  unfold mapFullPath at h
  cases hv : normalizeAndValidate path with
  | error e => rw [hv] at h; cases h
  | ok q =>
    rw [hv] at h
    simp only at h
    split at h
    · cases h
    · rename_i hnd
      injection h with h
      obtain ⟨kq, hkq, hq⟩ := validate_sound path q hv
      refine ⟨kq, hkq, ?_, by rw [hq], ?_⟩
      · intro e; subst e; exact hnd (by rw [hq, renderKey_nil])
      · rw [← h, hq, join_keys hp hkq]

/-- Put through a view: the only key written is `fullKey ls ++ kq` for a non-empty key `kq`
    that the given path validated to. -/
theorem vPut_spec (ls : List KLayer) (hls : KLayersOK ls) (m m' : Mem) (path : Str) (c : Content)
    (h : vPut (ls.map KLayer.toLayer) m path c = .ok m') :
    ∃ kq : Key, AllProper kq ∧ kq ≠ [] ∧ normalizeAndValidate path = .ok (renderKey kq) ∧
      m' = (renderKey (fullKey ls ++ kq), c) :: m.erase (renderKey (fullKey ls ++ kq)) := by
  induction ls generalizing path with
  | nil =>
    simp only [List.map, vPut, memPut] at h
    cases hv : validatePath path with
    | error e => rw [hv] at h; cases h
    | ok p =>
      rw [hv] at h
      injection h with h
      obtain ⟨k, hk, hne, hp, hnv⟩ := validatePath_sound path p hv
      exact ⟨k, hk, hne, by rw [hnv, hp], by simp [fullKey, ← h, hp]⟩
  | cons l ls ih =>
    cases l with
    | pre k =>
      simp only [List.map, KLayer.toLayer, vPut] at h
      cases hm : mapFullPath (renderKey k) path with
      | error e => rw [hm] at h; cases h
      | ok full =>
        rw [hm] at h
        obtain ⟨kq, hkq, hne, hnv, hfull⟩ := mapFullPath_spec k hls.1 path full hm
        obtain ⟨kq', hkq', hne', hnv', hm'⟩ := ih hls.2 full h
        have hkk : AllProper (k ++ kq) := allProper_append.mpr ⟨hls.1, hkq⟩
        rw [hfull, validate_renderKey hkk] at hnv'
        have : kq' = k ++ kq := by
          injection hnv' with e
          exact (renderKey_inj hkk hkq' e).symm
        subst this
        exact ⟨kq, hkq, hne, hnv, by simp [fullKey, hm', List.append_assoc]⟩
    | filt f =>
      simp only [List.map, KLayer.toLayer, vPut] at h
      cases h

theorem vDelete_spec (ls : List KLayer) (hls : KLayersOK ls) (m m' : Mem) (path : Str)
    (h : vDelete (ls.map KLayer.toLayer) m path = .ok m') :
    ∃ kq : Key, AllProper kq ∧ kq ≠ [] ∧ normalizeAndValidate path = .ok (renderKey kq) ∧
      m.find (renderKey (fullKey ls ++ kq)) ≠ none ∧
      m' = m.erase (renderKey (fullKey ls ++ kq)) := by
  induction ls generalizing path with
  | nil =>
    simp only [List.map, vDelete, memDelete] at h
    cases hv : validatePath path with
    | error e => rw [hv] at h; cases h
    | ok p =>
      rw [hv] at h
      simp only at h
      obtain ⟨k, hk, hne, hp, hnv⟩ := validatePath_sound path p hv
      cases hf : m.find p with
      | none => rw [hf] at h; cases h
      | some c0 =>
        rw [hf] at h
        injection h with h
        refine ⟨k, hk, hne, by rw [hnv, hp], ?_, by simp [fullKey, ← h, hp]⟩
        simp [fullKey, ← hp, hf]
  | cons l ls ih =>
    cases l with
    | pre k =>
      simp only [List.map, KLayer.toLayer, vDelete] at h
      cases hm : mapFullPath (renderKey k) path with
      | error e => rw [hm] at h; cases h
      | ok full =>
        rw [hm] at h
        obtain ⟨kq, hkq, hne, hnv, hfull⟩ := mapFullPath_spec k hls.1 path full hm
        obtain ⟨kq', hkq', hne', hnv', hfound, hm'⟩ := ih hls.2 full h
        have hkk : AllProper (k ++ kq) := allProper_append.mpr ⟨hls.1, hkq⟩
        rw [hfull, validate_renderKey hkk] at hnv'
        have : kq' = k ++ kq := by
          injection hnv' with e
          exact (renderKey_inj hkk hkq' e).symm
        subst this
        refine ⟨kq, hkq, hne, hnv, ?_, ?_⟩
        · simpa [fullKey, List.append_assoc] using hfound
        · simp [fullKey, hm', List.append_assoc]
    | filt f =>
      simp only [List.map, KLayer.toLayer, vDelete] at h
      cases h

theorem vDeleteAll_spec (ls : List KLayer) (hls : KLayersOK ls) (m m' : Mem) (pfx : Str)
    (h : vDeleteAll (ls.map KLayer.toLayer) m pfx = .ok m') :
    ∃ kq : Key, AllProper kq ∧ normalizeAndValidate pfx = .ok (renderKey kq) ∧
      m' = m.filter (fun kv => !equalsOrContainsPath (renderKey (fullKey ls ++ kq)) kv.1) := by
  induction ls generalizing pfx with
  | nil =>
    simp only [List.map, vDeleteAll, memDeleteAll, validatePrefix] at h
    cases hv : normalizeAndValidate pfx with
    | error e => rw [hv] at h; cases h
    | ok p =>
      rw [hv] at h
      injection h with h
      obtain ⟨k, hk, hp⟩ := validate_sound pfx p hv
      exact ⟨k, hk, by rw [hp], by simp [fullKey, ← h, hp]⟩
  | cons l ls ih =>
    cases l with
    | pre k =>
      simp only [List.map, KLayer.toLayer, vDeleteAll] at h
      cases hv : normalizeAndValidate pfx with
      | error e => rw [hv] at h; cases h
      | ok q =>
        rw [hv] at h
        simp only at h
        obtain ⟨kq, hkq, hq⟩ := validate_sound pfx q hv
        rw [hq, join_keys hls.1 hkq] at h
        obtain ⟨kq', hkq', hnv', hm'⟩ := ih hls.2 _ h
        have hkk : AllProper (k ++ kq) := allProper_append.mpr ⟨hls.1, hkq⟩
        rw [validate_renderKey hkk] at hnv'
        have : kq' = k ++ kq := by
          injection hnv' with e
          exact (renderKey_inj hkk hkq' e).symm
        subst this
        exact ⟨kq, hkq, by rw [hq], by simp [fullKey, hm', List.append_assoc]⟩
    | filt f =>
      simp only [List.map, KLayer.toLayer, vDeleteAll] at h
      cases h

/-- Get through a view returns the content stored at `fullKey ls ++ kq` in the base bucket. -/
theorem vGet_spec (ls : List KLayer) (hls : KLayersOK ls) (m : Mem) (path : Str) (c : Content)
    (h : vGet (ls.map KLayer.toLayer) m path = .ok c) :
    ∃ kq : Key, AllProper kq ∧ kq ≠ [] ∧ normalizeAndValidate path = .ok (renderKey kq) ∧
      m.find (renderKey (fullKey ls ++ kq)) = some c := by
  induction ls generalizing path with
  | nil =>
    simp only [List.map, vGet, memGet] at h
    cases hv : validatePath path with
    | error e => rw [hv] at h; cases h
    | ok p =>
      rw [hv] at h
      simp only at h
      obtain ⟨k, hk, hne, hp, hnv⟩ := validatePath_sound path p hv
      cases hf : m.find p with
      | none => rw [hf] at h; cases h
      | some c0 =>
        rw [hf] at h
        injection h with h
        exact ⟨k, hk, hne, by rw [hnv, hp], by simp [fullKey, ← hp, hf, h]⟩
  | cons l ls ih =>
    cases l with
    | pre k =>
      simp only [List.map, KLayer.toLayer, vGet] at h
      cases hm : mapFullPath (renderKey k) path with
      | error e => rw [hm] at h; cases h
      | ok full =>
        rw [hm] at h
        obtain ⟨kq, hkq, hne, hnv, hfull⟩ := mapFullPath_spec k hls.1 path full hm
        obtain ⟨kq', hkq', hne', hnv', hfound⟩ := ih hls.2 full h
        have hkk : AllProper (k ++ kq) := allProper_append.mpr ⟨hls.1, hkq⟩
        rw [hfull, validate_renderKey hkk] at hnv'
        have : kq' = k ++ kq := by
          injection hnv' with e
          exact (renderKey_inj hkk hkq' e).symm
        subst this
        exact ⟨kq, hkq, hne, hnv, by simpa [fullKey, List.append_assoc] using hfound⟩
    | filt f =>
      simp only [List.map, KLayer.toLayer, vGet] at h
      cases hv : normalizeAndValidate path with
      | error e => rw [hv] at h; cases h
      | ok q =>
        rw [hv] at h
        simp only at h
        split at h
        · cases h
        · obtain ⟨kq, hkq, hq⟩ := validate_sound path q hv
          obtain ⟨kq', hkq', hne', hnv', hfound⟩ := ih hls q h
          rw [hq, validate_renderKey hkq] at hnv'
          have : kq' = kq := by
            injection hnv' with e
            exact (renderKey_inj hkq hkq' e).symm
          subst this
          exact ⟨kq', hkq', hne', by rw [hq], by simpa [fullKey] using hfound⟩


/-! ### Invariants of the memory bucket -/

/-- Every stored key is the rendering of a non-empty key. -/
def KeysValid (m : Mem) : Prop :=
  ∀ kv ∈ m, ∃ k : Key, AllProper k ∧ k ≠ [] ∧ kv.1 = renderKey k

theorem keysValid_nil : KeysValid [] := by intro kv h; cases h

theorem keysValid_erase {m : Mem} (h : KeysValid m) (p : Str) : KeysValid (m.erase p) := by
  intro kv hkv; exact h kv (List.mem_filter.mp hkv).1

theorem keysValid_filter {m : Mem} (h : KeysValid m) (f : Str × Content → Bool) : KeysValid (m.filter f) := by
  intro kv hkv; exact h kv (List.mem_filter.mp hkv).1

theorem keysValid_cons {m : Mem} (h : KeysValid m) {k : Key} (hk : AllProper k) (hne : k ≠ []) (c : Content) :
    KeysValid ((renderKey k, c) :: m) := by
  intro kv hkv
  rcases List.mem_cons.mp hkv with e | hm
  · subst e; exact ⟨k, hk, hne, rfl⟩
  · exact h kv hm

/-- No two entries share a key. -/
def NodupKeys (m : Mem) : Prop := (m.map (·.1)).Nodup

theorem nodupKeys_filter {m : Mem} (h : NodupKeys m) (f : Str × Content → Bool) : NodupKeys (m.filter f) := by
  unfold NodupKeys at *
  exact List.Nodup.sublist (List.Sublist.map _ List.filter_sublist) h

theorem not_mem_keys_erase (m : Mem) (p : Str) : p ∉ (m.erase p).map (·.1) := by
  intro h
  obtain ⟨kv, hkv, he⟩ := List.mem_map.mp h
  have := (List.mem_filter.mp hkv).2
  simp at this; exact this he

theorem nodupKeys_put {m : Mem} (h : NodupKeys m) (p : Str) (c : Content) :
    NodupKeys ((p, c) :: m.erase p) := by
  unfold NodupKeys
  simp only [List.map]
  exact List.nodup_cons.mpr ⟨not_mem_keys_erase m p, nodupKeys_filter h _⟩

/-! ### Walk -/

theorem unmapAll_sound (p : Key) (hp : AllProper p) (objs out : List (Str × Content))
    (hobjs : ∀ qc ∈ objs, ∃ kk : Key, AllProper kk ∧ qc.1 = renderKey kk)
    (h : unmapAll (renderKey p) objs = .ok out) :
    ∀ qc ∈ out, ∃ kk : Key, AllProper kk ∧ qc.1 = renderKey kk ∧ (renderKey (p ++ kk), qc.2) ∈ objs := by
  induction objs generalizing out with
  | nil => simp [unmapAll] at h; subst h; intro qc hqc; cases hqc
  | cons o rest ih =>
    obtain ⟨q, c⟩ := o
    obtain ⟨kk, hkk, hq⟩ := hobjs (q, c) (by simp)
    simp only at hq
    have hrest : ∀ qc ∈ rest, ∃ kk : Key, AllProper kk ∧ qc.1 = renderKey kk :=
      fun qc hqc => hobjs qc (List.mem_cons_of_mem _ hqc)
    unfold unmapAll at h
    unfold unmapPrefix at h
    by_cases hecp : equalsOrContainsPath (renderKey p) q = true
    · rw [hq] at hecp
      obtain ⟨r, hr⟩ := (ecp_keys hp hkk).mp hecp
      have hrp : AllProper r := by rw [← hr] at hkk; exact (allProper_append.mp hkk).2
      have hrel : rel (renderKey p) q = some (renderKey r) := by rw [hq, ← hr]; exact rel_keys hp hrp
      have hecp' : equalsOrContainsPath (renderKey p) q = true := by rw [hq]; exact hecp
      simp only [hecp', Bool.not_true, Bool.false_eq_true, if_false, hrel] at h
      cases hu : unmapAll (renderKey p) rest with
      | error e => rw [hu] at h; cases h
      | ok out' =>
        rw [hu] at h
        injection h with h; subst h
        intro qc hqc
        rcases List.mem_cons.mp hqc with e | hm
        · subst e
          exact ⟨r, hrp, rfl, by simp [hr, hq]⟩
        · obtain ⟨kk', h1, h2, h3⟩ := ih out' hrest hu qc hm
          exact ⟨kk', h1, h2, List.mem_cons_of_mem _ h3⟩
    · have hecp' : equalsOrContainsPath (renderKey p) q = false := by simpa using hecp
      simp only [hecp', Bool.not_false, if_true] at h
      intro qc hqc
      obtain ⟨kk', h1, h2, h3⟩ := ih out hrest h qc hqc
      exact ⟨kk', h1, h2, List.mem_cons_of_mem _ h3⟩

/-- Walk through a view only reports objects stored under the view's root (and under the
    requested prefix), with their paths relative to the view. -/
theorem vWalk_sound (ls : List KLayer) (hls : KLayersOK ls) (m : Mem) (hm : KeysValid m)
    (pfx : Str) (objs : List (Str × Content))
    (h : vWalk (ls.map KLayer.toLayer) m pfx = .ok objs) :
    ∃ kq : Key, AllProper kq ∧ normalizeAndValidate pfx = .ok (renderKey kq) ∧
      ∀ qc ∈ objs, ∃ kk : Key, AllProper kk ∧ qc.1 = renderKey kk ∧ kq <+: kk ∧
        (renderKey (fullKey ls ++ kk), qc.2) ∈ m := by
  induction ls generalizing pfx objs with
  | nil =>
    simp only [List.map, vWalk, memWalk, validatePrefix] at h
    cases hv : normalizeAndValidate pfx with
    | error e => rw [hv] at h; cases h
    | ok p =>
      rw [hv] at h
      injection h with h
      obtain ⟨kq, hkq, hp⟩ := validate_sound pfx p hv
      refine ⟨kq, hkq, by rw [hp], ?_⟩
      intro qc hqc
      rw [← h] at hqc
      obtain ⟨hmem, hecp⟩ := List.mem_filter.mp hqc
      obtain ⟨kk, hkk, _, hkey⟩ := hm qc hmem
      rw [hp, hkey] at hecp
      exact ⟨kk, hkk, hkey, (ecp_keys hkq hkk).mp hecp, by simpa [fullKey, ← hkey] using hmem⟩
  | cons l ls ih =>
    cases l with
    | pre k =>
      simp only [List.map, KLayer.toLayer, vWalk] at h
      cases hv : normalizeAndValidate pfx with
      | error e => rw [hv] at h; cases h
      | ok q =>
        rw [hv] at h
        simp only at h
        obtain ⟨kq, hkq, hq⟩ := validate_sound pfx q hv
        rw [hq, join_keys hls.1 hkq] at h
        cases hw : vWalk (ls.map KLayer.toLayer) m (renderKey (k ++ kq)) with
        | error e => rw [hw] at h; cases h
        | ok inner =>
          rw [hw] at h
          simp only at h
          obtain ⟨kq', hkq', hnv', hinner⟩ := ih hls.2 _ inner hw
          have hkk : AllProper (k ++ kq) := allProper_append.mpr ⟨hls.1, hkq⟩
          rw [validate_renderKey hkk] at hnv'
          have hkq'eq : kq' = k ++ kq := by
            injection hnv' with e
            exact (renderKey_inj hkk hkq' e).symm
          subst hkq'eq
          refine ⟨kq, hkq, by rw [hq], ?_⟩
          have hform : ∀ qc ∈ inner, ∃ kk : Key, AllProper kk ∧ qc.1 = renderKey kk := by
            intro qc hqc
            obtain ⟨kk, h1, h2, _, _⟩ := hinner qc hqc
            exact ⟨kk, h1, h2⟩
          intro qc hqc
          obtain ⟨kk, hkkp, hqk, hin⟩ := unmapAll_sound k hls.1 inner objs hform h qc hqc
          obtain ⟨kk2, hkk2, hq2, hpre2, hmem2⟩ := hinner _ hin
          simp only at hq2
          have hkkk : AllProper (k ++ kk) := allProper_append.mpr ⟨hls.1, hkkp⟩
          have : kk2 = k ++ kk := (renderKey_inj hkkk hkk2 hq2).symm
          subst this
          refine ⟨kk, hkkp, hqk, ?_, ?_⟩
          · exact (List.prefix_append_right_inj k).mp hpre2
          · simpa [fullKey, List.append_assoc] using hmem2
    | filt f =>
      simp only [List.map, KLayer.toLayer, vWalk] at h
      cases hv : normalizeAndValidate pfx with
      | error e => rw [hv] at h; cases h
      | ok q =>
        rw [hv] at h
        simp only at h
        cases hw : vWalk (ls.map KLayer.toLayer) m q with
        | error e => rw [hw] at h; cases h
        | ok inner =>
          rw [hw] at h
          injection h with h
          obtain ⟨kq, hkq, hq⟩ := validate_sound pfx q hv
          obtain ⟨kq', hkq', hnv', hinner⟩ := ih hls q inner hw
          rw [hq, validate_renderKey hkq] at hnv'
          have : kq' = kq := by
            injection hnv' with e
            exact (renderKey_inj hkq hkq' e).symm
          subst this
          refine ⟨kq', hkq', by rw [hq], ?_⟩
          intro qc hqc
          rw [← h] at hqc
          have := hinner qc (List.mem_filter.mp hqc).1
          simpa [fullKey] using this


/-! ### Membership vs lookup; walk exactness for the memory bucket; putAll -/

theorem find_none_of_not_mem_keys {m : Mem} {k : Str} (h : k ∉ m.map (·.1)) : Mem.find m k = none := by
  induction m with
  | nil => simp [Mem.find]
  | cons kv rest ih =>
    obtain ⟨a, b⟩ := kv
    simp at h
    rw [find_cons_ne _ _ _ _ (fun e => h.1 e.symm)]
    exact ih (by simpa using h.2)

theorem mem_iff_find {m : Mem} (hn : NodupKeys m) (k : Str) (c : Content) :
    (k, c) ∈ m ↔ Mem.find m k = some c := by
  constructor
  · intro hmem
    induction m with
    | nil => cases hmem
    | cons kv rest ih =>
      obtain ⟨a, b⟩ := kv
      unfold NodupKeys at hn
      simp only [List.map, List.nodup_cons] at hn
      rcases List.mem_cons.mp hmem with e | hr
      · injection e with e1 e2; subst e1; subst e2; exact find_cons_eq _ _ _
      · have hak : a ≠ k := by
          intro e; subst e
          exact hn.1 (List.mem_map.mpr ⟨(a, c), hr, rfl⟩)
        rw [find_cons_ne _ _ _ _ hak]
        exact ih hn.2 hr
  · exact find_some_mem

/-- Walk on the memory bucket returns exactly the objects whose key extends the prefix key
    (component-wise), each once. -/
theorem memWalk_exact (m : Mem) (hv : KeysValid m) (hn : NodupKeys m) (pfx : Str)
    (objs : List (Str × Content)) (h : memWalk m pfx = .ok objs) :
    ∃ kq : Key, AllProper kq ∧ normalizeAndValidate pfx = .ok (renderKey kq) ∧
      NodupKeys objs ∧
      ∀ (k : Key) (c : Content), AllProper k →
        ((renderKey k, c) ∈ objs ↔ (kq <+: k ∧ Mem.find m (renderKey k) = some c)) := by
  unfold memWalk validatePrefix at h
  cases hnv : normalizeAndValidate pfx with
  | error e => rw [hnv] at h; cases h
  | ok p =>
    rw [hnv] at h
    injection h with h
    obtain ⟨kq, hkq, hp⟩ := validate_sound pfx p hnv
    refine ⟨kq, hkq, by rw [hp], ?_, ?_⟩
    · rw [← h]; exact nodupKeys_filter hn _
    · intro k c hk
      rw [← h, List.mem_filter, hp, mem_iff_find hn]
      constructor
      · intro ⟨h1, h2⟩; exact ⟨(ecp_keys hkq hk).mp h2, h1⟩
      · intro ⟨h1, h2⟩; exact ⟨h2, (ecp_keys hkq hk).mpr h1⟩

def lookupObjs (objs : List (Str × Content)) (k : Str) : Option Content := Mem.find objs k

/-- Copy / untar∘tar: putting a walked object list into a bucket. -/
theorem putAll_spec (objs : List (Str × Content)) (hv : KeysValid objs) (hn : NodupKeys objs) (m : Mem) :
    ∃ m', putAll m objs = .ok m' ∧
      ∀ k : Str, Mem.find m' k = (match Mem.find objs k with | some c => some c | none => Mem.find m k) := by
  induction objs generalizing m with
  | nil => exact ⟨m, rfl, by intro k; simp [Mem.find]⟩
  | cons o rest ih =>
    obtain ⟨q, c⟩ := o
    obtain ⟨kk, hkk, hne, hq⟩ := hv (q, c) (by simp)
    simp only at hq
    have hput : memPut m q c = .ok ((q, c) :: m.erase q) := by
      unfold memPut; rw [hq, validatePath_renderKey hkk hne]
    have hvr : KeysValid rest := fun kv hkv => hv kv (List.mem_cons_of_mem _ hkv)
    have hnr : NodupKeys rest := by
      unfold NodupKeys at hn ⊢; simp only [List.map, List.nodup_cons] at hn; exact hn.2
    have hq_notin : q ∉ rest.map (·.1) := by
      unfold NodupKeys at hn; simp only [List.map, List.nodup_cons] at hn; exact hn.1
    obtain ⟨m', hm', hfind⟩ := ih hvr hnr ((q, c) :: m.erase q)
    refine ⟨m', by simp only [putAll, hput, hm'], ?_⟩
    intro k
    rw [hfind k]
    by_cases hk : q = k
    · subst hk
      rw [find_none_of_not_mem_keys hq_notin, find_cons_eq, find_cons_eq]
    · rw [find_cons_ne q k c rest hk]
      cases hf : Mem.find rest k with
      | some c' => rfl
      | none => simp only; rw [find_cons_ne _ _ _ _ hk, find_erase_ne _ _ _ hk]


theorem mergeMulti_dup (oa : List (Str × Content)) (k : Str) (ca cb : Content) (hka : (k, ca) ∈ oa) :
    ∀ ob : List (Str × Content), (k, cb) ∈ ob → mergeMulti oa ob = .error .multiple := by
  intro ob
  induction ob with
  | nil => intro h; cases h
  | cons o rest ih =>
    intro hkb
    unfold mergeMulti
    by_cases hs : hasKey oa o.1 = true
    · simp [hs]
    · have hs' : hasKey oa o.1 = false := by simpa using hs
      rcases List.mem_cons.mp hkb with e | hr
      · exfalso; apply hs; subst e
        unfold hasKey; exact List.any_eq_true.mpr ⟨(k, ca), hka, by simp⟩
      · simp only [hs', Bool.false_eq_true, if_false]
        rw [ih hr]


/-! ### Walk through prefix views is exact (sound, complete, each object once) -/

/-- Every entry is keyed by a rendered key. -/
def KeysRendered (objs : List (Str × Content)) : Prop :=
  ∀ qc ∈ objs, ∃ kk : Key, AllProper kk ∧ qc.1 = renderKey kk

theorem unmapAll_complete (p : Key) (hp : AllProper p) (objs out : List (Str × Content))
    (hobjs : KeysRendered objs) (h : unmapAll (renderKey p) objs = .ok out)
    (kk : Key) (hkk : AllProper kk) (c : Content) (hin : (renderKey (p ++ kk), c) ∈ objs) :
    (renderKey kk, c) ∈ out := by
  induction objs generalizing out with
  | nil => cases hin
  | cons o rest ih =>
    obtain ⟨q, c0⟩ := o
    have hrest : KeysRendered rest := fun qc hqc => hobjs qc (List.mem_cons_of_mem _ hqc)
    obtain ⟨k0, hk0, hq0⟩ := hobjs (q, c0) (by simp)
    simp only at hq0
    unfold unmapAll at h
    unfold unmapPrefix at h
    by_cases hecp : equalsOrContainsPath (renderKey p) q = true
    · have hpre : p <+: k0 := (ecp_keys hp hk0).mp (by rw [← hq0]; exact hecp)
      obtain ⟨r, hr⟩ := hpre
      have hrp : AllProper r := by rw [← hr] at hk0; exact (allProper_append.mp hk0).2
      have hrel : rel (renderKey p) q = some (renderKey r) := by rw [hq0, ← hr]; exact rel_keys hp hrp
      simp only [hecp, Bool.not_true, Bool.false_eq_true, if_false, hrel] at h
      cases hu : unmapAll (renderKey p) rest with
      | error e => rw [hu] at h; cases h
      | ok out' =>
        rw [hu] at h
        injection h with h; subst h
        rcases List.mem_cons.mp hin with e | hm
        · injection e with e1 e2
          have : p ++ kk = k0 := renderKey_inj (allProper_append.mpr ⟨hp, hkk⟩) hk0 (by rw [e1, hq0])
          have : kk = r := by rw [← hr] at this; exact List.append_cancel_left this
          subst this; subst e2
          exact List.mem_cons_self
        · exact List.mem_cons_of_mem _ (ih out' hrest hu hm)
    · have hecp' : equalsOrContainsPath (renderKey p) q = false := by simpa using hecp
      simp only [hecp', Bool.not_false, if_true] at h
      rcases List.mem_cons.mp hin with e | hm
      · exfalso
        injection e with e1 e2
        have : equalsOrContainsPath (renderKey p) q = true := by
          rw [← e1]; exact (ecp_keys hp (allProper_append.mpr ⟨hp, hkk⟩)).mpr (List.prefix_append p kk)
        rw [hecp'] at this; cases this
      · exact ih out hrest h hm

theorem unmapAll_nodup (p : Key) (hp : AllProper p) (objs out : List (Str × Content))
    (hobjs : KeysRendered objs) (hn : NodupKeys objs) (h : unmapAll (renderKey p) objs = .ok out) :
    NodupKeys out ∧ KeysRendered out := by
  induction objs generalizing out with
  | nil => simp [unmapAll] at h; subst h; exact ⟨by simp [NodupKeys], fun qc hqc => by cases hqc⟩
  | cons o rest ih =>
    obtain ⟨q, c0⟩ := o
    have hrest : KeysRendered rest := fun qc hqc => hobjs qc (List.mem_cons_of_mem _ hqc)
    have hnrest : NodupKeys rest := by
      unfold NodupKeys at hn ⊢; simp only [List.map, List.nodup_cons] at hn; exact hn.2
    have hq_notin : q ∉ rest.map (·.1) := by
      unfold NodupKeys at hn; simp only [List.map, List.nodup_cons] at hn; exact hn.1
    obtain ⟨k0, hk0, hq0⟩ := hobjs (q, c0) (by simp)
    simp only at hq0
    unfold unmapAll at h
    unfold unmapPrefix at h
    by_cases hecp : equalsOrContainsPath (renderKey p) q = true
    · have hpre : p <+: k0 := (ecp_keys hp hk0).mp (by rw [← hq0]; exact hecp)
      obtain ⟨r, hr⟩ := hpre
      have hrp : AllProper r := by rw [← hr] at hk0; exact (allProper_append.mp hk0).2
      have hrel : rel (renderKey p) q = some (renderKey r) := by rw [hq0, ← hr]; exact rel_keys hp hrp
      simp only [hecp, Bool.not_true, Bool.false_eq_true, if_false, hrel] at h
      cases hu : unmapAll (renderKey p) rest with
      | error e => rw [hu] at h; cases h
      | ok out' =>
        rw [hu] at h
        injection h with h; subst h
        obtain ⟨ihn, ihr⟩ := ih out' hrest hnrest hu
        refine ⟨?_, ?_⟩
        · unfold NodupKeys
          simp only [List.map, List.nodup_cons]
          refine ⟨?_, ihn⟩
          intro hmem
          obtain ⟨qc, hqc, he⟩ := List.mem_map.mp hmem
          obtain ⟨kk, hkkp, hqk, hin⟩ := unmapAll_sound p hp rest out' hrest hu qc hqc
          have : kk = r := renderKey_inj hkkp hrp (by rw [← hqk, he])
          subst this
          apply hq_notin
          rw [hq0, ← hr]
          exact List.mem_map.mpr ⟨_, hin, rfl⟩
        · intro qc hqc
          rcases List.mem_cons.mp hqc with e | hm
          · subst e; exact ⟨r, hrp, rfl⟩
          · exact ihr qc hm
    · have hecp' : equalsOrContainsPath (renderKey p) q = false := by simpa using hecp
      simp only [hecp', Bool.not_false, if_true] at h
      exact ih out hrest hnrest h

/-- A prefix-only view. -/
def PreOnly : List KLayer → Prop
  | [] => True
  | .pre _ :: ls => PreOnly ls
  | .filt _ :: _ => False

/-- Walk through any nesting of prefix views returns EXACTLY the objects stored under
    (view root ++ requested prefix), each once, with view-relative paths. -/
theorem vWalk_pre_exact (ls : List KLayer) (hls : KLayersOK ls) (hpre : PreOnly ls)
    (m : Mem) (hv : KeysValid m) (hn : NodupKeys m) (pfx : Str) (objs : List (Str × Content))
    (h : vWalk (ls.map KLayer.toLayer) m pfx = .ok objs) :
    ∃ kq : Key, AllProper kq ∧ normalizeAndValidate pfx = .ok (renderKey kq) ∧
      NodupKeys objs ∧ KeysRendered objs ∧
      ∀ (kk : Key) (c : Content), AllProper kk →
        ((renderKey kk, c) ∈ objs ↔ (kq <+: kk ∧ Mem.find m (renderKey (fullKey ls ++ kk)) = some c)) := by
  induction ls generalizing pfx objs with
  | nil =>
    simp only [List.map, vWalk] at h
    obtain ⟨kq, hkq, hnv, hnd, hall⟩ := memWalk_exact m hv hn pfx objs h
    refine ⟨kq, hkq, hnv, hnd, ?_, by simpa [fullKey] using hall⟩
    intro qc hqc
    unfold memWalk validatePrefix at h
    rw [hnv] at h
    injection h with h
    rw [← h] at hqc
    obtain ⟨kk, hkk, _, hk⟩ := hv qc (List.mem_filter.mp hqc).1
    exact ⟨kk, hkk, hk⟩
  | cons l ls ih =>
    cases l with
    | filt f => exact absurd hpre (by simp [PreOnly])
    | pre k =>
      simp only [List.map, KLayer.toLayer, vWalk] at h
      cases hnv : normalizeAndValidate pfx with
      | error e => rw [hnv] at h; cases h
      | ok q =>
        rw [hnv] at h
        simp only at h
        obtain ⟨kq, hkq, hq⟩ := validate_sound pfx q hnv
        rw [hq, join_keys hls.1 hkq] at h
        cases hw : vWalk (ls.map KLayer.toLayer) m (renderKey (k ++ kq)) with
        | error e => rw [hw] at h; cases h
        | ok inner =>
          rw [hw] at h
          simp only at h
          obtain ⟨kq', hkq', hnv', hnd', hrend', hall'⟩ := ih hls.2 hpre _ inner hw
          have hkk : AllProper (k ++ kq) := allProper_append.mpr ⟨hls.1, hkq⟩
          rw [validate_renderKey hkk] at hnv'
          have hkq'eq : kq' = k ++ kq := by
            injection hnv' with e
            exact (renderKey_inj hkk hkq' e).symm
          subst hkq'eq
          obtain ⟨hndo, hrendo⟩ := unmapAll_nodup k hls.1 inner objs hrend' hnd' h
          refine ⟨kq, hkq, by rw [hq], hndo, hrendo, ?_⟩
          intro kk c hkkp
          have hkkk : AllProper (k ++ kk) := allProper_append.mpr ⟨hls.1, hkkp⟩
          constructor
          · intro hin
            obtain ⟨kk2, hkk2, hq2, hin2⟩ := unmapAll_sound k hls.1 inner objs hrend' h (renderKey kk, c) hin
            simp only at hq2 hin2
            have : kk2 = kk := (renderKey_inj hkkp hkk2 hq2).symm
            subst this
            have := (hall' (k ++ kk2) c hkkk).mp hin2
            refine ⟨(List.prefix_append_right_inj k).mp this.1, ?_⟩
            simpa [fullKey, List.append_assoc] using this.2
          · intro ⟨hpref, hfind⟩
            have hin2 : (renderKey (k ++ kk), c) ∈ inner :=
              (hall' (k ++ kk) c hkkk).mpr ⟨(List.prefix_append_right_inj k).mpr hpref, by
                simpa [fullKey, List.append_assoc] using hfind⟩
            exact unmapAll_complete k hls.1 inner objs hrend' h kk hkkp c hin2


/-! ### Walk / Get coherence for every composite read bucket (`BExpr`) -/

/-- Well-formed composite: every `MapOnPrefix` prefix is the rendering of a key (a normalised,
    validated relative path — what `MapOnPrefix` documents as its precondition; "." = `[]`). -/
def BExpr.WF : BExpr → Prop
  | .base _ => True
  | .pre p b => (∃ k : Key, AllProper k ∧ p = renderKey k) ∧ BExpr.WF b
  | .filt _ b => BExpr.WF b
  | .multi a b => BExpr.WF a ∧ BExpr.WF b
  | .overlay a b => BExpr.WF a ∧ BExpr.WF b
  | .strip b => BExpr.WF b

/-- Every base bucket satisfies the memory-bucket invariants (kept by every operation:
    `mem_refines_spec`). -/
def BasesOK (bs : Bases) : Prop := ∀ i, KeysValid (bs.get i) ∧ NodupKeys (bs.get i)

theorem hasKey_true_iff {objs : List (Str × Content)} {k : Str} :
    hasKey objs k = true ↔ ∃ c, (k, c) ∈ objs := by
  unfold hasKey
  rw [List.any_eq_true]
  constructor
  · rintro ⟨⟨a, b⟩, hmem, heq⟩
    simp only [decide_eq_true_eq] at heq
    subst heq; exact ⟨b, hmem⟩
  · rintro ⟨c, hmem⟩
    exact ⟨(k, c), hmem, by simp⟩

theorem nodupKeys_append {a b : List (Str × Content)} (ha : NodupKeys a) (hb : NodupKeys b)
    (hd : ∀ kv ∈ b, hasKey a kv.1 = false) : NodupKeys (a ++ b) := by
  unfold NodupKeys at *
  rw [List.map_append, List.nodup_append]
  refine ⟨ha, hb, ?_⟩
  intro x hx y hy hxy
  subst hxy
  obtain ⟨kva, hkva, hea⟩ := List.mem_map.mp hx
  obtain ⟨kvb, hkvb, heb⟩ := List.mem_map.mp hy
  have := hd kvb hkvb
  have ht : hasKey a kvb.1 = true := hasKey_true_iff.mpr ⟨kva.2, by rw [heb, ← hea]; exact hkva⟩
  rw [ht] at this; cases this

theorem mergeMulti_ok {oa ob ob' : List (Str × Content)} (h : mergeMulti oa ob = .ok ob') :
    ob' = ob ∧ ∀ kv ∈ ob, hasKey oa kv.1 = false := by
  induction ob generalizing ob' with
  | nil => simp [mergeMulti] at h; subst h; exact ⟨rfl, fun kv hkv => by cases hkv⟩
  | cons o rest ih =>
    unfold mergeMulti at h
    by_cases hs : hasKey oa o.1 = true
    · simp [hs] at h
    · have hs' : hasKey oa o.1 = false := by simpa using hs
      simp only [hs', Bool.false_eq_true, if_false] at h
      cases hm : mergeMulti oa rest with
      | error e => rw [hm] at h; cases h
      | ok out =>
        rw [hm] at h
        injection h with h
        obtain ⟨h1, h2⟩ := ih hm
        refine ⟨by rw [← h, h1], ?_⟩
        intro kv hkv
        rcases List.mem_cons.mp hkv with e | hr
        · subst e; exact hs'
        · exact h2 kv hr

/-! #### `rGet` on a rendered key -/

theorem mapFullPath_key {p k : Key} (hp : AllProper p) (hk : AllProper k) (hne : k ≠ []) :
    mapFullPath (renderKey p) (renderKey k) = .ok (renderKey (p ++ k)) := by
  unfold mapFullPath
  rw [validate_renderKey hk]
  simp only
  rw [if_neg (renderKey_ne_dot hk hne), join_keys hp hk]

theorem memGet_key (m : Mem) {k : Key} (hk : AllProper k) (hne : k ≠ []) :
    memGet m (renderKey k) =
      (match m.find (renderKey k) with | some c => .ok c | none => .error .notExist) := by
  unfold memGet; rw [validatePath_renderKey hk hne]; rfl

theorem rGet_pre_key (b : BExpr) (bs : Bases) {p k : Key} (hp : AllProper p) (hk : AllProper k)
    (hne : k ≠ []) :
    rGet (.pre (renderKey p) b) bs (renderKey k) = rGet b bs (renderKey (p ++ k)) := by
  simp only [rGet, mapFullPath_key hp hk hne]

theorem rGet_filt_key (f : Matcher) (b : BExpr) (bs : Bases) {k : Key} (hk : AllProper k) :
    rGet (.filt f b) bs (renderKey k) =
      if f.matches (renderKey k) then rGet b bs (renderKey k) else .error .notExist := by
  simp only [rGet, validate_renderKey hk]
  cases f.matches (renderKey k) <;> simp

theorem append_ne_nil_right {α : Type} (p : List α) {k : List α} (h : k ≠ []) : p ++ k ≠ [] := by
  intro e; exact h (List.append_eq_nil_iff.mp e).2

/-- For a proper (non-root) rendered key a composite `Get`/`Stat` either finds an object, or
    reports not-exist, or — only below a union — reports the path as present in several
    members. No other error class is possible. -/
theorem rGet_key_cases (e : BExpr) (he : e.WF) (bs : Bases) {k : Key} (hk : AllProper k) (hne : k ≠ []) :
    (∃ c, rGet e bs (renderKey k) = .ok c) ∨ rGet e bs (renderKey k) = .error .notExist ∨
      rGet e bs (renderKey k) = .error .multiple := by
  induction e generalizing k with
  | base i =>
    simp only [rGet, memGet_key _ hk hne]
    cases (bs.get i).find (renderKey k) with
    | some c => exact Or.inl ⟨c, rfl⟩
    | none => exact Or.inr (Or.inl rfl)
  | pre p b ih =>
    obtain ⟨⟨kp, hkp, rfl⟩, hb⟩ := he
    rw [rGet_pre_key b bs hkp hk hne]
    exact ih hb (allProper_append.mpr ⟨hkp, hk⟩) (append_ne_nil_right kp hne)
  | filt f b ih =>
    rw [rGet_filt_key f b bs hk]
    cases f.matches (renderKey k) with
    | true => simpa using ih he hk hne
    | false => exact Or.inr (Or.inl (by simp))
  | multi a b iha ihb =>
    rcases iha he.1 hk hne with ⟨ca, ha⟩ | ha | ha <;> rcases ihb he.2 hk hne with ⟨cb, hb⟩ | hb | hb
    all_goals simp [rGet, ha, hb]
  | overlay a b iha ihb =>
    rcases iha he.1 hk hne with ⟨ca, ha⟩ | ha | ha
    · exact Or.inl ⟨ca, by simp [rGet, ha]⟩
    · have : rGet (.overlay a b) bs (renderKey k) = rGet b bs (renderKey k) := by simp [rGet, ha]
      rw [this]; exact ihb he.2 hk hne
    · exact Or.inr (Or.inr (by simp [rGet, ha]))
  | strip b ih =>
    simp only [rGet]; exact ih he hk hne


/-- What a successful composite walk under prefix key `kq` must look like for the composite to be
    ONE path→bytes map: keys are rendered keys, none listed twice, every listed non-root entry
    is what `Get` returns for that path, every gettable path under the prefix is listed, and
    `Get` below the prefix never fails for another reason than not-exist. -/
structure Coherent (e : BExpr) (bs : Bases) (kq : Key) (objs : List (Str × Content)) : Prop where
  nodup : NodupKeys objs
  rendered : KeysRendered objs
  sound : ∀ (kk : Key) (c : Content), AllProper kk → (renderKey kk, c) ∈ objs →
      kq <+: kk ∧ (kk ≠ [] → rGet e bs (renderKey kk) = .ok c)
  complete : ∀ (kk : Key) (c : Content), AllProper kk → kk ≠ [] → kq <+: kk →
      rGet e bs (renderKey kk) = .ok c → (renderKey kk, c) ∈ objs
  total : ∀ (kk : Key), AllProper kk → kk ≠ [] → kq <+: kk →
      (∃ c, rGet e bs (renderKey kk) = .ok c) ∨ rGet e bs (renderKey kk) = .error .notExist

theorem renderKey_inj_of_validate {a b : Key} (ha : AllProper a) (hb : AllProper b) {s : Str}
    (h1 : normalizeAndValidate s = .ok (renderKey a)) (h2 : normalizeAndValidate s = .ok (renderKey b)) :
    a = b := by
  rw [h1] at h2; injection h2 with e; exact renderKey_inj ha hb e

theorem ok_ne_notExist {c : Content} : (Except.ok c : Except PErr Content) ≠ .error .notExist := by
  intro h; cases h

/-- Walk/Get coherence, by structural induction over the composite. -/
theorem rWalk_coherent (e : BExpr) (he : e.WF) (bs : Bases) (hbs : BasesOK bs) (pfx : Str)
    (objs : List (Str × Content)) (h : rWalk e bs pfx = .ok objs) :
    ∃ kq : Key, AllProper kq ∧ normalizeAndValidate pfx = .ok (renderKey kq) ∧ Coherent e bs kq objs := by
  induction e generalizing pfx objs with
  | base i =>
    simp only [rWalk] at h
    obtain ⟨hv, hn⟩ := hbs i
    obtain ⟨kq, hkq, hnv, hnd, hall⟩ := memWalk_exact (bs.get i) hv hn pfx objs h
    refine ⟨kq, hkq, hnv, hnd, ?_, ?_, ?_, ?_⟩
    · intro qc hqc
      unfold memWalk validatePrefix at h
      rw [hnv] at h
      injection h with h
      rw [← h] at hqc
      obtain ⟨kk, hkk, _, hk⟩ := hv qc (List.mem_filter.mp hqc).1
      exact ⟨kk, hkk, hk⟩
    · intro kk c hkk hin
      obtain ⟨h1, h2⟩ := (hall kk c hkk).mp hin
      refine ⟨h1, fun hne => ?_⟩
      simp only [rGet, memGet_key _ hkk hne, h2]
    · intro kk c hkk hne hpre hg
      simp only [rGet, memGet_key _ hkk hne] at hg
      refine (hall kk c hkk).mpr ⟨hpre, ?_⟩
      cases hf : (bs.get i).find (renderKey kk) with
      | none => rw [hf] at hg; cases hg
      | some c' => rw [hf] at hg; injection hg with hg; rw [hg]
    · intro kk hkk hne _
      simp only [rGet, memGet_key _ hkk hne]
      cases (bs.get i).find (renderKey kk) with
      | some c => exact Or.inl ⟨c, rfl⟩
      | none => exact Or.inr rfl
  | pre p b ih =>
    obtain ⟨⟨kp, hkp, rfl⟩, hb⟩ := he
    simp only [rWalk] at h
    cases hnv : normalizeAndValidate pfx with
    | error e => rw [hnv] at h; cases h
    | ok q =>
      rw [hnv] at h
      simp only at h
      obtain ⟨kq, hkq, hq⟩ := validate_sound pfx q hnv
      rw [hq, join_keys hkp hkq] at h
      cases hw : rWalk b bs (renderKey (kp ++ kq)) with
      | error e => rw [hw] at h; cases h
      | ok inner =>
        rw [hw] at h
        simp only at h
        obtain ⟨kq', hkq', hnv', hc⟩ := ih hb _ inner hw
        have hkk : AllProper (kp ++ kq) := allProper_append.mpr ⟨hkp, hkq⟩
        have hkq'eq : kq' = kp ++ kq :=
          (renderKey_inj_of_validate hkk hkq' (validate_renderKey hkk) hnv').symm
        subst hkq'eq
        obtain ⟨hndo, hrendo⟩ := unmapAll_nodup kp hkp inner objs hc.rendered hc.nodup h
        refine ⟨kq, hkq, by rw [hq], hndo, hrendo, ?_, ?_, ?_⟩
        · intro kk c hkkp hin
          have hkkk : AllProper (kp ++ kk) := allProper_append.mpr ⟨hkp, hkkp⟩
          obtain ⟨kk2, hkk2, hq2, hin2⟩ := unmapAll_sound kp hkp inner objs hc.rendered h (renderKey kk, c) hin
          simp only at hq2 hin2
          have : kk2 = kk := (renderKey_inj hkkp hkk2 hq2).symm
          subst this
          obtain ⟨h1, h2⟩ := hc.sound (kp ++ kk2) c hkkk hin2
          refine ⟨(List.prefix_append_right_inj kp).mp h1, fun hne => ?_⟩
          rw [rGet_pre_key b bs hkp hkkp hne]
          exact h2 (append_ne_nil_right kp hne)
        · intro kk c hkkp hne hpre hg
          have hkkk : AllProper (kp ++ kk) := allProper_append.mpr ⟨hkp, hkkp⟩
          rw [rGet_pre_key b bs hkp hkkp hne] at hg
          have hin2 := hc.complete (kp ++ kk) c hkkk (append_ne_nil_right kp hne)
            ((List.prefix_append_right_inj kp).mpr hpre) hg
          exact unmapAll_complete kp hkp inner objs hc.rendered h kk hkkp c hin2
        · intro kk hkkp hne hpre
          have hkkk : AllProper (kp ++ kk) := allProper_append.mpr ⟨hkp, hkkp⟩
          rw [rGet_pre_key b bs hkp hkkp hne]
          exact hc.total (kp ++ kk) hkkk (append_ne_nil_right kp hne)
            ((List.prefix_append_right_inj kp).mpr hpre)
  | filt f b ih =>
    simp only [rWalk] at h
    cases hnv : normalizeAndValidate pfx with
    | error e => rw [hnv] at h; cases h
    | ok q =>
      rw [hnv] at h
      simp only at h
      cases hw : rWalk b bs q with
      | error e => rw [hw] at h; cases h
      | ok inner =>
        rw [hw] at h
        injection h with h
        obtain ⟨kq, hkq, hq⟩ := validate_sound pfx q hnv
        obtain ⟨kq', hkq', hnv', hc⟩ := ih he q inner hw
        have : kq' = kq := by
          rw [hq] at hnv'
          exact (renderKey_inj_of_validate hkq hkq' (validate_renderKey hkq) hnv').symm
        subst this
        refine ⟨kq', hkq', by rw [hq], ?_, ?_, ?_, ?_, ?_⟩
        · rw [← h]; exact nodupKeys_filter hc.nodup _
        · intro qc hqc; rw [← h] at hqc; exact hc.rendered qc (List.mem_filter.mp hqc).1
        · intro kk c hkk hin
          rw [← h] at hin
          obtain ⟨hmem, hmatch⟩ := List.mem_filter.mp hin
          simp only at hmatch
          obtain ⟨h1, h2⟩ := hc.sound kk c hkk hmem
          refine ⟨h1, fun hne => ?_⟩
          rw [rGet_filt_key f b bs hkk, if_pos hmatch]; exact h2 hne
        · intro kk c hkk hne hpre hg
          rw [rGet_filt_key f b bs hkk] at hg
          by_cases hmatch : f.matches (renderKey kk) = true
          · rw [if_pos hmatch] at hg
            rw [← h]; exact List.mem_filter.mpr ⟨hc.complete kk c hkk hne hpre hg, hmatch⟩
          · rw [if_neg hmatch] at hg; cases hg
        · intro kk hkk hne hpre
          rw [rGet_filt_key f b bs hkk]
          by_cases hmatch : f.matches (renderKey kk) = true
          · rw [if_pos hmatch]; exact hc.total kk hkk hne hpre
          · rw [if_neg hmatch]; exact Or.inr rfl
  | multi a b iha ihb =>
    simp only [rWalk] at h
    cases hwa : rWalk a bs pfx with
    | error e => rw [hwa] at h; cases h
    | ok oa =>
      rw [hwa] at h
      simp only at h
      cases hwb : rWalk b bs pfx with
      | error e => rw [hwb] at h; cases h
      | ok ob =>
        rw [hwb] at h
        simp only at h
        cases hm : mergeMulti oa ob with
        | error e => rw [hm] at h; cases h
        | ok ob' =>
          rw [hm] at h
          injection h with h
          obtain ⟨hob', hdisj⟩ := mergeMulti_ok hm
          rw [hob'] at h
          obtain ⟨kq, hkq, hnv, ca⟩ := iha he.1 pfx oa hwa
          obtain ⟨kq2, hkq2, hnv2, cb⟩ := ihb he.2 pfx ob hwb
          have : kq2 = kq := renderKey_inj_of_validate hkq2 hkq hnv2 hnv
          subst this
          -- a key cannot be gettable from both members
          have hexcl : ∀ kk, AllProper kk → kk ≠ [] → kq2 <+: kk → ∀ c1 c2,
              rGet a bs (renderKey kk) = .ok c1 → rGet b bs (renderKey kk) = .ok c2 → False := by
            intro kk hkk hne hpre c1 c2 h1 h2
            have hia := ca.complete kk c1 hkk hne hpre h1
            have hib := cb.complete kk c2 hkk hne hpre h2
            have := hdisj _ hib
            rw [hasKey_true_iff.mpr ⟨c1, hia⟩] at this; cases this
          refine ⟨kq2, hkq2, hnv, ?_, ?_, ?_, ?_, ?_⟩
          · rw [← h]; exact nodupKeys_append ca.nodup cb.nodup hdisj
          · intro qc hqc; rw [← h] at hqc
            rcases List.mem_append.mp hqc with hqc | hqc
            · exact ca.rendered qc hqc
            · exact cb.rendered qc hqc
          · intro kk c hkk hin
            rw [← h] at hin
            rcases List.mem_append.mp hin with hin | hin
            · obtain ⟨h1, h2⟩ := ca.sound kk c hkk hin
              refine ⟨h1, fun hne => ?_⟩
              have hga := h2 hne
              rcases cb.total kk hkk hne h1 with ⟨c2, hgb⟩ | hgb
              · exact absurd (hexcl kk hkk hne h1 c c2 hga hgb) id
              · simp [rGet, hga, hgb]
            · obtain ⟨h1, h2⟩ := cb.sound kk c hkk hin
              refine ⟨h1, fun hne => ?_⟩
              have hgb := h2 hne
              rcases ca.total kk hkk hne h1 with ⟨c1, hga⟩ | hga
              · exact absurd (hexcl kk hkk hne h1 c1 c hga hgb) id
              · simp [rGet, hga, hgb]
          · intro kk c hkk hne hpre hg
            rw [← h]
            rcases ca.total kk hkk hne hpre with ⟨c1, hga⟩ | hga <;>
              rcases cb.total kk hkk hne hpre with ⟨c2, hgb⟩ | hgb
            · exact absurd (hexcl kk hkk hne hpre c1 c2 hga hgb) id
            · simp [rGet, hga, hgb] at hg; subst hg
              exact List.mem_append.mpr (Or.inl (ca.complete kk c1 hkk hne hpre hga))
            · simp [rGet, hga, hgb] at hg; subst hg
              exact List.mem_append.mpr (Or.inr (cb.complete kk c2 hkk hne hpre hgb))
            · simp [rGet, hga, hgb] at hg
          · intro kk hkk hne hpre
            rcases ca.total kk hkk hne hpre with ⟨c1, hga⟩ | hga <;>
              rcases cb.total kk hkk hne hpre with ⟨c2, hgb⟩ | hgb
            · exact absurd (hexcl kk hkk hne hpre c1 c2 hga hgb) id
            · exact Or.inl ⟨c1, by simp [rGet, hga, hgb]⟩
            · exact Or.inl ⟨c2, by simp [rGet, hga, hgb]⟩
            · exact Or.inr (by simp [rGet, hga, hgb])
  | overlay a b iha ihb =>
    simp only [rWalk] at h
    cases hwa : rWalk a bs pfx with
    | error e => rw [hwa] at h; cases h
    | ok oa =>
      rw [hwa] at h
      simp only at h
      cases hwb : rWalk b bs pfx with
      | error e => rw [hwb] at h; cases h
      | ok ob =>
        rw [hwb] at h
        injection h with h
        obtain ⟨kq, hkq, hnv, ca⟩ := iha he.1 pfx oa hwa
        obtain ⟨kq2, hkq2, hnv2, cb⟩ := ihb he.2 pfx ob hwb
        have : kq2 = kq := renderKey_inj_of_validate hkq2 hkq hnv2 hnv
        subst this
        have hdisj : ∀ kv ∈ ob.filter (fun kv => !hasKey oa kv.1), hasKey oa kv.1 = false := by
          intro kv hkv; simpa using (List.mem_filter.mp hkv).2
        refine ⟨kq2, hkq2, hnv, ?_, ?_, ?_, ?_, ?_⟩
        · rw [← h]; exact nodupKeys_append ca.nodup (nodupKeys_filter cb.nodup _) hdisj
        · intro qc hqc; rw [← h] at hqc
          rcases List.mem_append.mp hqc with hqc | hqc
          · exact ca.rendered qc hqc
          · exact cb.rendered qc (List.mem_filter.mp hqc).1
        · intro kk c hkk hin
          rw [← h] at hin
          rcases List.mem_append.mp hin with hin | hin
          · obtain ⟨h1, h2⟩ := ca.sound kk c hkk hin
            exact ⟨h1, fun hne => by simp [rGet, h2 hne]⟩
          · obtain ⟨hmem, hnk⟩ := List.mem_filter.mp hin
            obtain ⟨h1, h2⟩ := cb.sound kk c hkk hmem
            refine ⟨h1, fun hne => ?_⟩
            rcases ca.total kk hkk hne h1 with ⟨c1, hga⟩ | hga
            · have := hdisj _ hin
              rw [hasKey_true_iff.mpr ⟨c1, ca.complete kk c1 hkk hne h1 hga⟩] at this; cases this
            · simp [rGet, hga, h2 hne]
        · intro kk c hkk hne hpre hg
          rw [← h]
          rcases ca.total kk hkk hne hpre with ⟨c1, hga⟩ | hga
          · simp [rGet, hga] at hg; subst hg
            exact List.mem_append.mpr (Or.inl (ca.complete kk c1 hkk hne hpre hga))
          · simp [rGet, hga] at hg
            refine List.mem_append.mpr (Or.inr (List.mem_filter.mpr ⟨cb.complete kk c hkk hne hpre hg, ?_⟩))
            cases hk : hasKey oa (renderKey kk) with
            | false => rfl
            | true =>
              obtain ⟨c', hc'⟩ := hasKey_true_iff.mp hk
              have := (ca.sound kk c' hkk hc').2 hne
              rw [hga] at this; cases this
        · intro kk hkk hne hpre
          rcases ca.total kk hkk hne hpre with ⟨c1, hga⟩ | hga
          · exact Or.inl ⟨c1, by simp [rGet, hga]⟩
          · have : rGet (.overlay a b) bs (renderKey kk) = rGet b bs (renderKey kk) := by simp [rGet, hga]
            rw [this]; exact cb.total kk hkk hne hpre
  | strip b ih =>
    simp only [rWalk] at h
    obtain ⟨kq, hkq, hnv, hc⟩ := ih he pfx objs h
    exact ⟨kq, hkq, hnv, hc.nodup, hc.rendered,
      fun kk c hkk hin => by simpa only [rGet] using hc.sound kk c hkk hin,
      fun kk c hkk hne hpre hg => hc.complete kk c hkk hne hpre (by simpa only [rGet] using hg),
      fun kk hkk hne hpre => by simpa only [rGet] using hc.total kk hkk hne hpre⟩

/-! #### Spelling: every composite operation depends on its path only through the validated form -/

theorem rGet_spelling (e : BExpr) (bs : Bases) (s₁ s₂ : Str)
    (h : normalizeAndValidate s₁ = normalizeAndValidate s₂) : rGet e bs s₁ = rGet e bs s₂ := by
  induction e with
  | base i => simp only [rGet, memGet, validatePath, h]
  | pre p b _ => simp only [rGet, mapFullPath, h]
  | filt f b _ => simp only [rGet, h]
  | multi a b iha ihb => simp only [rGet, iha, ihb]
  | overlay a b iha ihb => simp only [rGet, iha, ihb]
  | strip b ih => simp only [rGet, ih]

theorem rWalk_spelling (e : BExpr) (bs : Bases) (s₁ s₂ : Str)
    (h : normalizeAndValidate s₁ = normalizeAndValidate s₂) : rWalk e bs s₁ = rWalk e bs s₂ := by
  induction e with
  | base i => simp only [rWalk, memWalk, validatePrefix, h]
  | pre p b _ => simp only [rWalk, h]
  | filt f b _ => simp only [rWalk, h]
  | multi a b iha ihb => simp only [rWalk, iha, ihb]
  | overlay a b iha ihb => simp only [rWalk, iha, ihb]
  | strip b ih => simp only [rWalk, ih]

/-- `rGet` of any spelling of a key is `rGet` of the rendered key. -/
theorem rGet_of_validate (e : BExpr) (bs : Bases) {path : Str} {k : Key} (hk : AllProper k)
    (h : normalizeAndValidate path = .ok (renderKey k)) : rGet e bs path = rGet e bs (renderKey k) :=
  rGet_spelling e bs _ _ (by rw [h, validate_renderKey hk])

/-! #### The composite read as an abstract map -/

/-- A composite bucket read as an abstract map: what `Get` finds at each key. -/
def absE (e : BExpr) (bs : Bases) : Key → Option Content := fun k =>
  match rGet e bs (renderKey k) with
  | .ok c => some c
  | .error _ => none

theorem absE_base (i : Nat) (bs : Bases) {k : Key} (hk : AllProper k) (hne : k ≠ []) :
    absE (.base i) bs k = (bs.get i).find (renderKey k) := by
  simp only [absE, rGet, memGet_key _ hk hne]
  cases (bs.get i).find (renderKey k) <;> rfl

/-- mapView_abs: a prefix view is the sub-map below the prefix, re-keyed relative to it. -/
theorem absE_pre (b : BExpr) (bs : Bases) {p k : Key} (hp : AllProper p) (hk : AllProper k) (hne : k ≠ []) :
    absE (.pre (renderKey p) b) bs k = absE b bs (p ++ k) := by
  simp only [absE, rGet_pre_key b bs hp hk hne]

/-- filterView_abs: a filtered view is the map restricted to the matching paths. -/
theorem absE_filt (f : Matcher) (b : BExpr) (bs : Bases) {k : Key} (hk : AllProper k) :
    absE (.filt f b) bs k = if f.matches (renderKey k) then absE b bs k else none := by
  simp only [absE, rGet_filt_key f b bs hk]
  cases f.matches (renderKey k) <;> simp

/-- An overlay is the left-biased union of its members' maps (when the first member does not
    itself fail with a duplicate report). -/
theorem absE_overlay (a b : BExpr) (bs : Bases) (k : Key)
    (hm : rGet a bs (renderKey k) ≠ .error .multiple) (he : a.WF) (hk : AllProper k) (hne : k ≠ []) :
    absE (.overlay a b) bs k = (match absE a bs k with | some c => some c | none => absE b bs k) := by
  rcases rGet_key_cases a he bs hk hne with ⟨c, h⟩ | h | h
  · simp [absE, rGet, h]
  · simp [absE, rGet, h]
  · exact absurd h hm

/-- A union is the disjoint union of its members' maps; a key in both members is NOT served
    (reported as duplicate). -/
theorem absE_multi (a b : BExpr) (bs : Bases) (k : Key) (ha : a.WF) (hb : b.WF) (hk : AllProper k) (hne : k ≠ [])
    (hma : rGet a bs (renderKey k) ≠ .error .multiple) (hmb : rGet b bs (renderKey k) ≠ .error .multiple) :
    absE (.multi a b) bs k =
      (match absE a bs k, absE b bs k with
        | some c, none => some c
        | none, some c => some c
        | _, _ => none) ∧
    ((absE a bs k).isSome → (absE b bs k).isSome → rGet (.multi a b) bs (renderKey k) = .error .multiple) := by
  rcases rGet_key_cases a ha bs hk hne with ⟨c, h⟩ | h | h
  · rcases rGet_key_cases b hb bs hk hne with ⟨c', h'⟩ | h' | h'
    · simp [absE, rGet, h, h']
    · simp [absE, rGet, h, h']
    · exact absurd h' hmb
  · rcases rGet_key_cases b hb bs hk hne with ⟨c', h'⟩ | h' | h'
    · simp [absE, rGet, h, h']
    · simp [absE, rGet, h, h']
    · exact absurd h' hmb
  · exact absurd h hma

theorem absE_strip (b : BExpr) (bs : Bases) (k : Key) : absE (.strip b) bs k = absE b bs k := by
  simp only [absE, rGet]

/-- A successful composite walk lists exactly the entries of the composite's map under the
    prefix (non-root keys). -/
theorem rWalk_lists_absE (e : BExpr) (he : e.WF) (bs : Bases) (hbs : BasesOK bs) (pfx : Str)
    (objs : List (Str × Content)) (h : rWalk e bs pfx = .ok objs) :
    ∃ kq : Key, AllProper kq ∧ normalizeAndValidate pfx = .ok (renderKey kq) ∧
      ∀ (kk : Key) (c : Content), AllProper kk → kk ≠ [] →
        ((renderKey kk, c) ∈ objs ↔ (kq <+: kk ∧ absE e bs kk = some c)) := by
  obtain ⟨kq, hkq, hnv, hc⟩ := rWalk_coherent e he bs hbs pfx objs h
  refine ⟨kq, hkq, hnv, ?_⟩
  intro kk c hkk hne
  constructor
  · intro hin
    obtain ⟨h1, h2⟩ := hc.sound kk c hkk hin
    exact ⟨h1, by simp only [absE, h2 hne]⟩
  · intro ⟨hpre, ha⟩
    apply hc.complete kk c hkk hne hpre
    simp only [absE] at ha
    cases hg : rGet e bs (renderKey kk) with
    | ok c' => rw [hg] at ha; injection ha with ha; rw [ha]
    | error er => rw [hg] at ha; cases ha

/-! #### Get through prefix views is complete -/

/-- Get through any nesting of prefix views: `ok` exactly when the base bucket stores the mapped
    key, `not-exist` otherwise. -/
theorem vGet_pre_complete (ls : List KLayer) (hls : KLayersOK ls) (hpre : PreOnly ls) (m : Mem)
    (path : Str) (kq : Key) (hkq : AllProper kq) (hne : kq ≠ [])
    (hnv : normalizeAndValidate path = .ok (renderKey kq)) :
    vGet (ls.map KLayer.toLayer) m path =
      (match m.find (renderKey (fullKey ls ++ kq)) with
        | some c => .ok c
        | none => .error .notExist) := by
  induction ls generalizing path kq with
  | nil =>
    have hvp : validatePath path = .ok (renderKey kq) := by
      unfold validatePath; rw [hnv]; simp only; rw [if_neg (renderKey_ne_dot hkq hne)]
    simp only [List.map, vGet, memGet, hvp, fullKey, List.nil_append]
    cases m.find (renderKey kq) <;> rfl
  | cons l ls ih =>
    cases l with
    | filt f => exact absurd hpre (by simp [PreOnly])
    | pre k =>
      have hm : mapFullPath (renderKey k) path = .ok (renderKey (k ++ kq)) := by
        unfold mapFullPath; rw [hnv]; simp only
        rw [if_neg (renderKey_ne_dot hkq hne), join_keys hls.1 hkq]
      have hkk : AllProper (k ++ kq) := allProper_append.mpr ⟨hls.1, hkq⟩
      simp only [List.map, KLayer.toLayer, vGet, hm]
      rw [ih hls.2 hpre (renderKey (k ++ kq)) (k ++ kq) hkk (append_ne_nil_right k hne) (validate_renderKey hkk)]
      simp [fullKey, List.append_assoc]

/-! #### putAll / Copy from an arbitrary composite -/

theorem Bases.get_set_eq (bs : Bases) (i : Nat) (m : Mem) : (bs.set i m).get i = m := by
  unfold Bases.set Bases.get
  have hi : i < (List.range (max bs.length (i + 1))).length := by simp; omega
  rw [List.getD_eq_getElem?_getD, List.getElem?_map, List.getElem?_eq_getElem hi]
  simp

theorem Bases.get_set_ne (bs : Bases) (i j : Nat) (m : Mem) (h : j ≠ i) : (bs.set i m).get j = bs.get j := by
  unfold Bases.set Bases.get
  by_cases hj : j < max bs.length (i + 1)
  · have hj' : j < (List.range (max bs.length (i + 1))).length := by simpa using hj
    rw [List.getD_eq_getElem?_getD, List.getElem?_map, List.getElem?_eq_getElem hj']
    simp [h]
  · have h1 : (List.map (fun j => if j = i then m else List.getD bs j []) (List.range (max bs.length (i + 1))))[j]? = none := by
      apply List.getElem?_eq_none; simp; omega
    have h2 : bs[j]? = none := by apply List.getElem?_eq_none; omega
    rw [List.getD_eq_getElem?_getD, List.getD_eq_getElem?_getD, h1, h2]

theorem memPut_ok_key {m m' : Mem} {k : Key} {c : Content} (hk : AllProper k)
    (h : memPut m (renderKey k) c = .ok m') : k ≠ [] := by
  intro e; subst e
  unfold memPut at h
  have : validatePath (renderKey []) = .error .root := by decide
  rw [this] at h; cases h

theorem putAll_ok_keysValid {objs : List (Str × Content)} (hr : KeysRendered objs) :
    ∀ {m m' : Mem}, putAll m objs = .ok m' → KeysValid objs := by
  induction objs with
  | nil => intro _ _ _; exact keysValid_nil
  | cons o rest ih =>
    obtain ⟨q, c⟩ := o
    intro m m' h
    obtain ⟨kk, hkk, hq⟩ := hr (q, c) (by simp)
    simp only at hq
    unfold putAll at h
    cases hp : memPut m q c with
    | error e => rw [hp] at h; cases h
    | ok m1 =>
      rw [hp] at h
      simp only at h
      have hne : kk ≠ [] := memPut_ok_key hkk (by rw [← hq]; exact hp)
      have hrest := ih (fun qc hqc => hr qc (List.mem_cons_of_mem _ hqc)) h
      intro kv hkv
      rcases List.mem_cons.mp hkv with e | hm
      · subst e; exact ⟨kk, hkk, hne, hq⟩
      · exact hrest kv hm

theorem putAll_inv {objs : List (Str × Content)} (hv : KeysValid objs) :
    ∀ {m m' : Mem}, KeysValid m → NodupKeys m → putAll m objs = .ok m' → KeysValid m' ∧ NodupKeys m' := by
  induction objs with
  | nil => intro m m' h1 h2 h; simp [putAll] at h; subst h; exact ⟨h1, h2⟩
  | cons o rest ih =>
    obtain ⟨q, c⟩ := o
    intro m m' h1 h2 h
    obtain ⟨kk, hkk, hne, hq⟩ := hv (q, c) (by simp)
    simp only at hq
    have hput : memPut m q c = .ok ((q, c) :: m.erase q) := by
      unfold memPut; rw [hq, validatePath_renderKey hkk hne]
    simp only [putAll, hput] at h
    refine ih (fun kv hkv => hv kv (List.mem_cons_of_mem _ hkv)) ?_ (nodupKeys_put h2 q c) h
    rw [hq]; exact keysValid_cons (keysValid_erase h1 _) hkk hne c

/-- putAll without a distinctness hypothesis: a LATER entry for the same path wins. -/
theorem putAll_last_wins (objs : List (Str × Content)) (hv : KeysValid objs) (m : Mem) :
    ∃ m', putAll m objs = .ok m' ∧
      ∀ k : Str, Mem.find m' k = (match Mem.find objs.reverse k with | some c => some c | none => Mem.find m k) := by
  induction objs generalizing m with
  | nil => exact ⟨m, rfl, by intro k; simp [Mem.find]⟩
  | cons o rest ih =>
    obtain ⟨q, c⟩ := o
    obtain ⟨kk, hkk, hne, hq⟩ := hv (q, c) (by simp)
    simp only at hq
    have hput : memPut m q c = .ok ((q, c) :: m.erase q) := by
      unfold memPut; rw [hq, validatePath_renderKey hkk hne]
    obtain ⟨m', hm', hfind⟩ := ih (fun kv hkv => hv kv (List.mem_cons_of_mem _ hkv)) ((q, c) :: m.erase q)
    refine ⟨m', by simp only [putAll, hput, hm'], ?_⟩
    intro k
    rw [hfind k, List.reverse_cons]
    have happ : ∀ (l : Mem), Mem.find (l ++ [(q, c)]) k =
        (match Mem.find l k with | some c' => some c' | none => if q = k then some c else none) := by
      intro l
      induction l with
      | nil => simp [Mem.find]
      | cons x xs ihx =>
        obtain ⟨a, b⟩ := x
        by_cases hak : a = k
        · subst hak; simp [Mem.find]
        · simp only [List.cons_append]; rw [find_cons_ne _ _ _ _ hak, find_cons_ne _ _ _ _ hak]; exact ihx
    rw [happ]
    cases hf : Mem.find rest.reverse k with
    | some c' => rfl
    | none =>
      simp only
      by_cases hk : q = k
      · subst hk; rw [find_cons_eq]; simp
      · rw [find_cons_ne _ _ _ _ hk, find_erase_ne _ _ _ hk]; simp [hk]

/-- storage.Copy from ANY composite: if the copy succeeds, the target holds, at every (non-root)
    key, the object `Get` finds in the source composite if there is one, else what it held
    before; the other bases are untouched; the count is the number of walked objects. -/
theorem rCopy_spec (e : BExpr) (he : e.WF) (bs : Bases) (hbs : BasesOK bs) (t n : Nat) (bs' : Bases)
    (h : rCopy e bs t = .ok (n, bs')) :
    (∃ objs, rWalk e bs [] = .ok objs ∧ n = objs.length ∧ KeysValid objs) ∧
    (∀ j, j ≠ t → bs'.get j = bs.get j) ∧ KeysValid (bs'.get t) ∧ NodupKeys (bs'.get t) ∧
    ∀ kk : Key, AllProper kk → kk ≠ [] →
      (bs'.get t).find (renderKey kk) =
        (match rGet e bs (renderKey kk) with
          | .ok c => some c
          | .error _ => (bs.get t).find (renderKey kk)) := by
  unfold rCopy at h
  cases hw : rWalk e bs [] with
  | error er => rw [hw] at h; cases h
  | ok objs =>
    rw [hw] at h
    simp only at h
    cases hp : putAll (bs.get t) objs with
    | error er => rw [hp] at h; cases h
    | ok m' =>
      rw [hp] at h
      injection h with h
      injection h with hn hb
      obtain ⟨kq, hkq, hnv, hc⟩ := rWalk_coherent e he bs hbs [] objs hw
      have hkq0 : kq = [] := by
        have h0 : normalizeAndValidate [] = .ok (renderKey []) := by decide
        exact renderKey_inj_of_validate hkq allProper_nil hnv h0
      subst hkq0
      have hvo : KeysValid objs := putAll_ok_keysValid hc.rendered hp
      obtain ⟨m2, hm2, hfind⟩ := putAll_spec objs hvo hc.nodup (bs.get t)
      rw [hp] at hm2; injection hm2 with hm2; subst hm2
      obtain ⟨hvt, hnt⟩ := putAll_inv hvo (hbs t).1 (hbs t).2 hp
      subst hb
      refine ⟨⟨objs, rfl, hn.symm, hvo⟩, fun j hj => Bases.get_set_ne bs t j m' hj, ?_, ?_, ?_⟩
      · rw [Bases.get_set_eq]; exact hvt
      · rw [Bases.get_set_eq]; exact hnt
      · intro kk hkk hne
        rw [Bases.get_set_eq, hfind]
        rcases hc.total kk hkk hne List.nil_prefix with ⟨c, hg⟩ | hg
        · rw [hg, (mem_iff_find hc.nodup _ _).mp (hc.complete kk c hkk hne List.nil_prefix hg)]
        · rw [hg]
          cases hf : Mem.find objs (renderKey kk) with
          | none => rfl
          | some c =>
            have := (hc.sound kk c hkk (find_some_mem hf)).2 hne
            rw [hg] at this; cases this

/-- … and the copy does succeed whenever the source walk succeeds and does not report the view
    root "." itself as an object. -/
theorem rCopy_succeeds (e : BExpr) (he : e.WF) (bs : Bases) (hbs : BasesOK bs) (t : Nat)
    (objs : List (Str × Content)) (hw : rWalk e bs [] = .ok objs) (hroot : ∀ c, (dot, c) ∉ objs) :
    ∃ bs', rCopy e bs t = .ok (objs.length, bs') := by
  obtain ⟨kq, hkq, hnv, hc⟩ := rWalk_coherent e he bs hbs [] objs hw
  have hvo : KeysValid objs := by
    intro kv hkv
    obtain ⟨kk, hkk, hk⟩ := hc.rendered kv hkv
    refine ⟨kk, hkk, ?_, hk⟩
    intro e0; subst e0
    apply hroot kv.2
    rw [← renderKey_nil, ← hk]; exact hkv
  obtain ⟨m', hm', _⟩ := putAll_spec objs hvo hc.nodup (bs.get t)
  exact ⟨bs.set t m', by simp only [rCopy, hw, hm']⟩

/-! #### WalkReadObjects -/

theorem readObjects_eq (e : BExpr) (bs : Bases) (l : List (Str × Content))
    (h : ∀ kv ∈ l, rGet e bs kv.1 = .ok kv.2) : readObjects e bs l = .ok l := by
  induction l with
  | nil => rfl
  | cons kv rest ih =>
    unfold readObjects
    rw [h kv (by simp), ih (fun x hx => h x (List.mem_cons_of_mem _ hx))]

theorem readObjects_ok_get (e : BExpr) (bs : Bases) :
    ∀ (l out : List (Str × Content)), readObjects e bs l = .ok out →
      ∀ kv ∈ l, ∃ c, rGet e bs kv.1 = .ok c := by
  intro l
  induction l with
  | nil => intro out _ kv hkv; cases hkv
  | cons x rest ih =>
    intro out h kv hkv
    unfold readObjects at h
    cases hg : rGet e bs x.1 with
    | error er => rw [hg] at h; cases h
    | ok c =>
      rw [hg] at h
      simp only at h
      cases hr : readObjects e bs rest with
      | error er => rw [hr] at h; cases h
      | ok out' =>
        rcases List.mem_cons.mp hkv with e1 | hm
        · subst e1; exact ⟨c, hg⟩
        · exact ih out' hr kv hm

/-! #### small facts about concrete base lists -/

theorem basesOK_pair {src dst : Mem} (hv : KeysValid src) (hn : NodupKeys src) (hvd : KeysValid dst)
    (hnd : NodupKeys dst) : BasesOK [src, dst] := by
  intro i
  match i with
  | 0 => exact ⟨hv, hn⟩
  | 1 => exact ⟨hvd, hnd⟩
  | n + 2 => exact ⟨by simp [Bases.get, keysValid_nil], by simp [Bases.get, NodupKeys]⟩

theorem walk_all_mem (m : Mem) (rest : Bases) : rWalk (.base 0) (m :: rest) [] = .ok m := by
  have : memWalk m [] = .ok (m.filter fun kv => equalsOrContainsPath dot kv.1) := by
    unfold memWalk validatePrefix
    have : normalizeAndValidate [] = .ok dot := by decide
    rw [this]
  simp only [rWalk, Bases.get, List.getD_cons_zero]
  rw [this]
  congr 1
  apply List.filter_eq_self.mpr
  intro kv _; simp [equalsOrContainsPath]

theorem basesOK_single {m : Mem} (hv : KeysValid m) (hn : NodupKeys m) : BasesOK [m] := by
  intro i
  match i with
  | 0 => exact ⟨hv, hn⟩
  | n + 1 => exact ⟨by simp [Bases.get, keysValid_nil], by simp [Bases.get, NodupKeys]⟩

/-! #### keyOf -/

theorem keyOf_of_validate {s : Str} {k : Key} (hk : AllProper k)
    (h : normalizeAndValidate s = .ok (renderKey k)) : keyOf s = .ok k := by
  unfold keyOf; rw [h]; simp [cleanComps_renderKey hk]

/-- `keyOf s = ok k` means: `s` normalises and validates to the rendering of the key `k`. -/
theorem keyOf_ok {s : Str} {k : Key} (h : keyOf s = .ok k) :
    AllProper k ∧ normalizeAndValidate s = .ok (renderKey k) := by
  unfold keyOf at h
  cases hv : normalizeAndValidate s with
  | error e => rw [hv] at h; cases h
  | ok p =>
    rw [hv] at h
    injection h with h
    obtain ⟨k', hk', hp⟩ := validate_sound s p hv
    rw [hp, cleanComps_renderKey hk'] at h
    subst h
    exact ⟨hk', by rw [hp]⟩

theorem keyOf_dot {s : Str} (h : normalizeAndValidate s = .ok dot) : keyOf s = .ok [] := by
  unfold keyOf; rw [h]; decide

theorem keyOf_error {s : Str} {e : PErr} (h : normalizeAndValidate s = .error e) : keyOf s = .error e := by
  unfold keyOf; rw [h]

theorem validatePath_cases (s : Str) :
    (∃ e, normalizeAndValidate s = .error e ∧ validatePath s = .error e) ∨
    (normalizeAndValidate s = .ok dot ∧ validatePath s = .error .root) ∨
    (∃ k : Key, AllProper k ∧ k ≠ [] ∧ normalizeAndValidate s = .ok (renderKey k) ∧
      validatePath s = .ok (renderKey k)) := by
  unfold validatePath
  cases hv : normalizeAndValidate s with
  | error e => exact Or.inl ⟨e, rfl, rfl⟩
  | ok p =>
    obtain ⟨k, hk, hp⟩ := BufModel.Path.validate_sound s p hv
    subst hp
    by_cases hd : renderKey k = dot
    · rw [hd]; exact Or.inr (Or.inl ⟨rfl, by simp⟩)
    · refine Or.inr (Or.inr ⟨k, hk, ?_, rfl, by simp [hd]⟩)
      intro e; subst e; exact hd renderKey_nil

end BufModel.Bucket
