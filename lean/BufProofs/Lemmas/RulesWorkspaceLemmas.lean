import BufModel.RulesWorkspace
import BufProofs.Lemmas.RulesLemmas
/-
  Helper lemmas for C06, round 6-G: several modules in one v2 buf.yaml (`readYamlModules`,
  `readYamlMulti`) and the directive parser (`parseIgnoreDirectives`, `commentNames`).
-/
namespace BufModel.Rules
open BufModel.Path BufGen.RuleTables

/-! ## the loop over the modules -/

theorem readYamlModules_nil (lint : Bool) (ws : YSection) : readYamlModules lint ws [] = .ok [] := rfl

theorem readYamlModules_cons_ok (lint : Bool) (ws : YSection) (m : Str × YSection) (rest : List (Str × YSection))
    (o : Str × EffConfig) (out : List (Str × EffConfig))
    (h1 : convertModule lint ws m = .ok o) (h2 : readYamlModules lint ws rest = .ok out) :
    readYamlModules lint ws (m :: rest) = .ok (o :: out) := by
  rw [readYamlModules, h1, h2]

/-- Inversion: a successful read of `m :: rest`. -/
theorem readYamlModules_cons_inv (lint : Bool) (ws : YSection) (m : Str × YSection) (rest : List (Str × YSection))
    (res : List (Str × EffConfig)) (h : readYamlModules lint ws (m :: rest) = .ok res) :
    ∃ o out, convertModule lint ws m = .ok o ∧ readYamlModules lint ws rest = .ok out ∧ res = o :: out := by
  rw [readYamlModules] at h
  cases h1 : convertModule lint ws m with
  | error e => rw [h1] at h; cases h
  | ok o =>
    rw [h1] at h
    cases h2 : readYamlModules lint ws rest with
    | error e => rw [h2] at h; cases h
    | ok out =>
      rw [h2] at h
      exact ⟨o, out, rfl, rfl, by cases h; rfl⟩

/-- Entry by entry, in file order: the result lists exactly the conversions of the entries. -/
theorem readYamlModules_ok_iff_map (lint : Bool) (ws : YSection) :
    ∀ (mods : List (Str × YSection)) (out : List (Str × EffConfig)),
      readYamlModules lint ws mods = .ok out ↔ mods.map (convertModule lint ws) = out.map Except.ok
  | [], out => by
    rw [readYamlModules_nil]
    cases out with
    | nil => simp
    | cons o out => simp
  | m :: rest, res => by
    constructor
    · intro h
      obtain ⟨o, out, h1, h2, rfl⟩ := readYamlModules_cons_inv lint ws m rest res h
      rw [List.map_cons, List.map_cons, h1, (readYamlModules_ok_iff_map lint ws rest out).1 h2]
    · intro h
      cases res with
      | nil => simp at h
      | cons o out =>
        rw [List.map_cons, List.map_cons] at h
        have h1 : convertModule lint ws m = .ok o := (List.cons.inj h).1
        have h2 := (readYamlModules_ok_iff_map lint ws rest out).2 (List.cons.inj h).2
        exact readYamlModules_cons_ok lint ws m rest o out h1 h2

theorem readYamlModules_mem_out (lint : Bool) (ws : YSection) :
    ∀ (mods : List (Str × YSection)) (out : List (Str × EffConfig)),
      readYamlModules lint ws mods = .ok out →
      ∀ o, o ∈ out ↔ ∃ m ∈ mods, convertModule lint ws m = .ok o
  | [], out, h, o => by
    rw [readYamlModules_nil] at h; cases h; simp
  | m :: rest, res, h, o => by
    obtain ⟨o', out, h1, h2, rfl⟩ := readYamlModules_cons_inv lint ws m rest res h
    have ih := readYamlModules_mem_out lint ws rest out h2 o
    constructor
    · intro ho
      rcases List.mem_cons.1 ho with rfl | ho
      · exact ⟨m, List.mem_cons_self, h1⟩
      · obtain ⟨m', hm', hc⟩ := ih.1 ho
        exact ⟨m', List.mem_cons_of_mem _ hm', hc⟩
    · rintro ⟨m', hm', hc⟩
      rcases List.mem_cons.1 hm' with rfl | hm'
      · rw [h1] at hc; cases hc; exact List.mem_cons_self
      · exact List.mem_cons_of_mem _ (ih.2 ⟨m', hm', hc⟩)

theorem readYamlModules_ok_iff (lint : Bool) (ws : YSection) :
    ∀ (mods : List (Str × YSection)),
      (∃ out, readYamlModules lint ws mods = .ok out) ↔ ∀ m ∈ mods, ∃ o, convertModule lint ws m = .ok o
  | [] => by simp [readYamlModules_nil]
  | m :: rest => by
    have ih := readYamlModules_ok_iff lint ws rest
    constructor
    · rintro ⟨res, h⟩
      obtain ⟨o, out, h1, h2, rfl⟩ := readYamlModules_cons_inv lint ws m rest res h
      intro m' hm'
      rcases List.mem_cons.1 hm' with rfl | hm'
      · exact ⟨o, h1⟩
      · exact ih.1 ⟨out, h2⟩ m' hm'
    · intro hall
      obtain ⟨o, h1⟩ := hall m List.mem_cons_self
      obtain ⟨out, h2⟩ := ih.2 (fun m' hm' => hall m' (List.mem_cons_of_mem _ hm'))
      exact ⟨o :: out, readYamlModules_cons_ok lint ws m rest o out h1 h2⟩

/-- Listing the modules in another order permutes the result and nothing else. -/
theorem readYamlModules_perm (lint : Bool) (ws : YSection) {mods mods' : List (Str × YSection)}
    (hp : mods.Perm mods') :
    ∀ out, readYamlModules lint ws mods = .ok out →
      ∃ out', readYamlModules lint ws mods' = .ok out' ∧ out.Perm out' := by
  induction hp with
  | nil => intro out h; exact ⟨out, h, List.Perm.refl _⟩
  | cons m _ ih =>
    intro res h
    obtain ⟨o, out, h1, h2, rfl⟩ := readYamlModules_cons_inv lint ws m _ res h
    obtain ⟨out', h2', hp'⟩ := ih out h2
    exact ⟨o :: out', readYamlModules_cons_ok lint ws m _ o out' h1 h2', List.Perm.cons o hp'⟩
  | swap a b l =>
    intro res h
    obtain ⟨ob, out1, hb, h2, rfl⟩ := readYamlModules_cons_inv lint ws b _ res h
    obtain ⟨oa, out, ha, h3, rfl⟩ := readYamlModules_cons_inv lint ws a _ out1 h2
    exact ⟨oa :: ob :: out,
      readYamlModules_cons_ok lint ws a _ oa _ ha (readYamlModules_cons_ok lint ws b _ ob out hb h3),
      List.Perm.swap oa ob out⟩
  | trans _ _ ih1 ih2 =>
    intro out h
    obtain ⟨out1, h1, p1⟩ := ih1 out h
    obtain ⟨out2, h2, p2⟩ := ih2 out1 h1
    exact ⟨out2, h2, p1.trans p2⟩

/-! ## which workspace-relative paths reach a module -/

theorem relPathsFor_mem_iff (dir : Str) (req : Bool) :
    ∀ (ps rs : List Str), relPathsFor dir req ps = .ok rs →
      ∀ r, r ∈ rs ↔ ∃ p ∈ ps, ∃ n, normalizeAndValidate p = .ok n ∧ equalsOrContainsPath dir n = true ∧
        rel dir n = some r
  | [], rs, h, r => by
    rw [relPathsFor] at h; cases h; simp
  | p :: rest, rs, h, r => by
    rw [relPathsFor] at h
    cases hn : normalizeAndValidate p with
    | error e => rw [hn] at h; cases h
    | ok n =>
      rw [hn] at h
      simp only at h
      cases hc : equalsOrContainsPath dir n with
      | false =>
        rw [hc] at h
        simp only [Bool.not_false, if_true] at h
        cases req with
        | true => simp at h
        | false =>
          simp only [Bool.false_eq_true, if_false] at h
          have ih := relPathsFor_mem_iff dir false rest rs h r
          rw [ih]
          constructor
          · rintro ⟨p', hp', n', h1, h2, h3⟩
            exact ⟨p', List.mem_cons_of_mem _ hp', n', h1, h2, h3⟩
          · rintro ⟨p', hp', n', h1, h2, h3⟩
            rcases List.mem_cons.1 hp' with rfl | hp'
            · rw [hn] at h1; cases h1; rw [hc] at h2; cases h2
            · exact ⟨p', hp', n', h1, h2, h3⟩
      | true =>
        rw [hc] at h
        simp only [Bool.not_true, Bool.false_eq_true, if_false] at h
        cases hr : rel dir n with
        | none => rw [hr] at h; cases h
        | some r0 =>
          cases hrest : relPathsFor dir req rest with
          | error e => rw [hr, hrest] at h; cases h
          | ok rs0 =>
            rw [hr, hrest] at h
            cases h
            have ih := relPathsFor_mem_iff dir req rest rs0 hrest r
            constructor
            · intro hm
              rcases List.mem_cons.1 hm with rfl | hm
              · exact ⟨p, List.mem_cons_self, n, hn, hc, hr⟩
              · obtain ⟨p', hp', n', h1, h2, h3⟩ := ih.1 hm
                exact ⟨p', List.mem_cons_of_mem _ hp', n', h1, h2, h3⟩
            · rintro ⟨p', hp', n', h1, h2, h3⟩
              rcases List.mem_cons.1 hp' with rfl | hp'
              · rw [hn] at h1; cases h1; rw [hr] at h3; cases h3; exact List.mem_cons_self
              · exact List.mem_cons_of_mem _ (ih.2 ⟨p', hp', n', h1, h2, h3⟩)

/-! ## an in-place filter (documentation of seed C06-m9)

    `relPaths := paths[:0]` writes the relative paths over the front of the caller's slice.  The
    external section struct is copied per module but its slices share their backing arrays, so
    the NEXT module reads `result ++ paths.drop result.length`. -/

/-- What the shared slice holds after one module was converted in place. -/
def inPlaceLeftover (ps rs : List Str) : List Str := rs ++ ps.drop rs.length

/-- Two modules converted one after the other from a shared `ignore` list that is filtered in
    place (the second module reads the leftovers of the first). -/
def secondModuleIgnoreInPlace (dir1 dir2 : Str) (ps : List Str) : Except RErr (List Str) :=
  match relPathsFor dir1 false ps with
  | .error e => .error e
  | .ok rs1 => relPathsFor dir2 false (inPlaceLeftover ps rs1)

/-! ## strings: trimming, splitting at newlines -/

theorem dropWhile_append_all (p : Char → Bool) : ∀ (a s : Str), (∀ c ∈ a, p c = true) →
    (a ++ s).dropWhile p = s.dropWhile p
  | [], s, _ => rfl
  | c :: a, s, h => by
    have hc : p c = true := h c List.mem_cons_self
    simp only [List.cons_append, List.dropWhile_cons, hc, if_true]
    exact dropWhile_append_all p a s (fun x hx => h x (List.mem_cons_of_mem _ hx))

theorem dropWhile_all (p : Char → Bool) : ∀ (a : Str), (∀ c ∈ a, p c = true) → a.dropWhile p = []
  | [], _ => rfl
  | c :: a, h => by
    have hc : p c = true := h c List.mem_cons_self
    simp only [List.dropWhile_cons, hc, if_true]
    exact dropWhile_all p a (fun x hx => h x (List.mem_cons_of_mem _ hx))

theorem dropWhile_append_of_exists (p : Char → Bool) : ∀ (s b : Str), (∃ c ∈ s, p c = false) →
    (s ++ b).dropWhile p = s.dropWhile p ++ b
  | [], _, h => by obtain ⟨c, hc, _⟩ := h; cases hc
  | x :: s, b, h => by
    cases hx : p x with
    | false => simp [hx]
    | true =>
      simp only [List.cons_append, List.dropWhile_cons, hx, if_true]
      apply dropWhile_append_of_exists p s b
      obtain ⟨c, hc, hpc⟩ := h
      rcases List.mem_cons.1 hc with rfl | hc
      · rw [hx] at hpc; cases hpc
      · exact ⟨c, hc, hpc⟩

/-- The trailing half of `trimSpace`. -/
def dropEndSpaces (s : Str) : Str := (s.reverse.dropWhile isSpaceChar).reverse

theorem trimSpace_eq (s : Str) : trimSpace s = dropEndSpaces (s.dropWhile isSpaceChar) := rfl

theorem dropEndSpaces_append_all (s b : Str) (hb : ∀ c ∈ b, isSpaceChar c = true) :
    dropEndSpaces (s ++ b) = dropEndSpaces s := by
  unfold dropEndSpaces
  rw [List.reverse_append, dropWhile_append_all isSpaceChar b.reverse s.reverse
    (fun c hc => hb c (List.mem_reverse.1 hc))]

/-- White space in front of and behind a line is invisible to `strings.TrimSpace`. -/
theorem trimSpace_pad (a s b : Str) (ha : ∀ c ∈ a, isSpaceChar c = true) (hb : ∀ c ∈ b, isSpaceChar c = true) :
    trimSpace (a ++ s ++ b) = trimSpace s := by
  rw [trimSpace_eq, trimSpace_eq, List.append_assoc, dropWhile_append_all isSpaceChar a (s ++ b) ha]
  by_cases hs : ∃ c ∈ s, isSpaceChar c = false
  · rw [dropWhile_append_of_exists isSpaceChar s b hs, dropEndSpaces_append_all _ b hb]
  · have hall : ∀ c ∈ s, isSpaceChar c = true := by
      intro c hc
      cases h : isSpaceChar c with
      | true => rfl
      | false => exact absurd ⟨c, hc, h⟩ hs
    rw [dropWhile_append_all isSpaceChar s b hall, dropWhile_all isSpaceChar b hb, dropWhile_all isSpaceChar s hall]

theorem splitOnChar_noSep (sep : Char) : ∀ (l : Str), sep ∉ l → splitOnChar sep l = [l]
  | [], _ => rfl
  | c :: l, h => by
    have hc : c ≠ sep := fun e => h (e ▸ List.mem_cons_self)
    have hl : sep ∉ l := fun e => h (List.mem_cons_of_mem _ e)
    rw [splitOnChar, if_neg hc, splitOnChar_noSep sep l hl]

theorem splitOnChar_append_sep (sep : Char) : ∀ (l rest : Str), sep ∉ l →
    splitOnChar sep (l ++ sep :: rest) = l :: splitOnChar sep rest
  | [], rest, _ => by rw [List.nil_append, splitOnChar, if_pos rfl]
  | c :: l, rest, h => by
    have hc : c ≠ sep := fun e => h (e ▸ List.mem_cons_self)
    have hl : sep ∉ l := fun e => h (List.mem_cons_of_mem _ e)
    rw [List.cons_append, splitOnChar, if_neg hc, splitOnChar_append_sep sep l rest hl]

/-- Splitting at '\n' recovers the lines a comment was joined from. -/
theorem splitOnChar_joinLines : ∀ (ls : List Str), ls ≠ [] → (∀ l ∈ ls, '\n' ∉ l) →
    splitOnChar '\n' (joinLines ls) = ls
  | [], h, _ => absurd rfl h
  | [l], _, hnl => by
    rw [joinLines]; exact splitOnChar_noSep '\n' l (hnl l List.mem_cons_self)
  | l :: l' :: rest, _, hnl => by
    have hj : joinLines (l :: l' :: rest) = l ++ '\n' :: joinLines (l' :: rest) := rfl
    rw [hj, splitOnChar_append_sep '\n' l _ (hnl l List.mem_cons_self),
      splitOnChar_joinLines (l' :: rest) (by simp) (fun x hx => hnl x (List.mem_cons_of_mem _ hx))]

/-! ## the directive parser -/

theorem isPrefixOf_append_split : ∀ (a b t : Str),
    (a ++ b).isPrefixOf t = (a.isPrefixOf t && b.isPrefixOf (t.drop a.length))
  | [], b, t => by simp
  | x :: a, b, [] => by simp
  | x :: a, b, y :: t => by
    simp only [List.cons_append, List.isPrefixOf_cons_cons, List.length_cons, List.drop_succ_cons,
      isPrefixOf_append_split a b t, Bool.and_assoc]

theorem directiveOfLine_pad (pre a l b : Str) (ha : ∀ c ∈ a, isSpaceChar c = true) (hb : ∀ c ∈ b, isSpaceChar c = true) :
    directiveOfLine pre (a ++ l ++ b) = directiveOfLine pre l := by
  unfold directiveOfLine
  rw [trimSpace_pad a l b ha hb]

/-- One line: "the trimmed line starts with `pre ++ " " ++ id`", split into "is a directive" and
    "its text starts with the id". -/
theorem directiveOfLine_names (pre line : Str) (r : Id) :
    (directiveOfLine pre line).any (textNames r) = commentLineIgnores (trimSpace line) pre r := by
  have hsplit : pre ++ ' ' :: r.toList = (pre ++ [' ']) ++ r.toList := by simp
  have hlen : (pre ++ [' ']).length = pre.length + 1 := by simp
  have hd : directiveOfLine pre line =
      if (pre ++ [' ']).isPrefixOf (trimSpace line) = true then some ((trimSpace line).drop (pre.length + 1)) else none := rfl
  have hc : commentLineIgnores (trimSpace line) pre r =
      ((pre ++ [' ']).isPrefixOf (trimSpace line) && r.toList.isPrefixOf ((trimSpace line).drop (pre.length + 1))) := by
    unfold commentLineIgnores
    rw [hsplit, isPrefixOf_append_split, hlen]
  rw [hd, hc]
  cases h : (pre ++ [' ']).isPrefixOf (trimSpace line) with
  | false => rw [if_neg (by simp)]; rfl
  | true => rw [if_pos rfl]; rfl

theorem any_filterMap_eq {α β} (f : α → Option β) (g : β → Bool) : ∀ (l : List α),
    (l.filterMap f).any g = l.any (fun x => (f x).any g)
  | [] => rfl
  | x :: l => by
    cases h : f x with
    | none => simp [h, any_filterMap_eq f g l]
    | some t => simp [h, any_filterMap_eq f g l]

theorem ws6_filterMap_congr {α β} (f g : α → Option β) : ∀ (l : List α), (∀ x ∈ l, f x = g x) →
    l.filterMap f = l.filterMap g
  | [], _ => rfl
  | x :: l, h => by
    rw [List.filterMap_cons, List.filterMap_cons, h x List.mem_cons_self,
      ws6_filterMap_congr f g l (fun y hy => h y (List.mem_cons_of_mem _ hy))]

theorem commentLineIgnores_nil (pre : Str) (r : Id) : commentLineIgnores [] pre r = false := by
  unfold commentLineIgnores
  cases h : pre ++ ' ' :: r.toList with
  | nil => simp at h
  | cons x xs => rfl

theorem any_trimmed_lines (pre : Str) (r : Id) : ∀ (ls : List Str),
    ((ls.map trimSpace).filter (· ≠ [])).any (fun line => commentLineIgnores line pre r) =
      ls.any (fun line => commentLineIgnores (trimSpace line) pre r)
  | [] => rfl
  | l :: ls => by
    have ih := any_trimmed_lines pre r ls
    by_cases ht : trimSpace l = []
    · simp only [List.map_cons, List.any_cons]
      rw [List.filter_cons_of_neg (by simp [ht]), ih, ht, commentLineIgnores_nil, Bool.false_or]
    · simp only [List.map_cons, List.any_cons]
      rw [List.filter_cons_of_pos (by simp [ht]), List.any_cons, ih]

/-- The parser is what `commentIgnoresAt` applies to the element's leading comment. -/
theorem commentNames_eq (pre comment : Str) (r : Id) :
    commentNames pre comment r =
      (splitTrimLinesNoEmpty comment).any (fun line => commentLineIgnores line pre r) := by
  unfold commentNames parseIgnoreDirectives splitTrimLinesNoEmpty
  rw [any_filterMap_eq, any_trimmed_lines]
  congr 1
  funext line
  exact directiveOfLine_names pre line r

theorem parseIgnoreDirectives_joinLines (pre : Str) (ls : List Str) (hne : ls ≠ []) (hnl : ∀ l ∈ ls, '\n' ∉ l) :
    parseIgnoreDirectives pre (joinLines ls) = ls.filterMap (directiveOfLine pre) := by
  unfold parseIgnoreDirectives
  rw [splitOnChar_joinLines ls hne hnl]

end BufModel.Rules
