import BufModel.Format
/-
  Helper lemmas for C07: lexer round trip / progress, the stable insertion sort, the key order.
-/
namespace BufModel.Format

/-! ### lexer -/

theorem lexAux_roundtrip (n : Nat) (s : Str) : (lexAux n s).flatMap (·.text) = s := by
  induction n generalizing s with
  | zero => cases s <;> simp [lexAux]
  | succ n ih =>
    cases s with
    | nil => simp [lexAux]
    | cons c cs =>
      obtain ⟨a, h1, h2⟩ := step_spec c cs
      simp [lexAux, ih, h1, h2]

theorem lexAux_no_fuel (n : Nat) (s : Str) (h : s.length ≤ n) :
    ∀ t ∈ lexAux n s, t.kind ≠ .fuel ∧ t.text ≠ [] := by
  induction n generalizing s with
  | zero =>
    cases s with
    | nil => simp [lexAux]
    | cons c cs => simp at h
  | succ n ih =>
    cases s with
    | nil => simp [lexAux]
    | cons c cs =>
      intro t ht
      simp only [lexAux, List.mem_cons] at ht
      rcases ht with rfl | ht
      · refine ⟨step_kind_ne_fuel c cs, ?_⟩
        obtain ⟨a, h1, _⟩ := step_spec c cs
        simp [h1]
      · exact ih _ (by have := step_length c cs; simp at h; omega) t ht

/-! ### key order -/

theorem lexLt_irrefl (a : List Nat) : lexLt a a = false := by
  induction a with
  | nil => rfl
  | cons x xs ih => simp [lexLt, ih]

theorem lexLt_asymm : ∀ (a b : List Nat), lexLt a b = true → lexLt b a = false
  | _, [], h => by simp [lexLt] at h
  | [], _ :: _, _ => by simp [lexLt]
  | a :: as, b :: bs, h => by
    simp only [lexLt, Bool.or_eq_true, decide_eq_true_eq, Bool.and_eq_true] at h
    simp only [lexLt, Bool.or_eq_false_iff, decide_eq_false_iff_not, Bool.and_eq_false_iff]
    rcases h with h | ⟨h1, h2⟩
    · exact ⟨by omega, Or.inl (by omega)⟩
    · exact ⟨by omega, Or.inr (lexLt_asymm as bs h2)⟩

/-- negative transitivity: `≤` is transitive -/
theorem lexLt_negtrans : ∀ (a b c : List Nat), lexLt a b = false → lexLt b c = false → lexLt a c = false
  | _, _, [], _, _ => by simp [lexLt]
  | _, [], _ :: _, _, h2 => by simp [lexLt] at h2
  | [], _ :: _, _ :: _, h1, _ => by simp [lexLt] at h1
  | a :: as, b :: bs, c :: cs, h1, h2 => by
    simp only [lexLt, Bool.or_eq_false_iff, decide_eq_false_iff_not, Bool.and_eq_false_iff] at h1 h2 ⊢
    obtain ⟨h1a, h1b⟩ := h1
    obtain ⟨h2a, h2b⟩ := h2
    refine ⟨by omega, ?_⟩
    by_cases hac : a = c
    · right
      have hab : a = b := by omega
      have hbc : b = c := by omega
      have e1 : lexLt as bs = false := by rcases h1b with h | h; exact absurd hab h; exact h
      have e2 : lexLt bs cs = false := by rcases h2b with h | h; exact absurd hbc h; exact h
      exact lexLt_negtrans as bs cs e1 e2
    · exact Or.inl hac

/-! ### the stable insertion sort -/

section sort
variable {α : Type} (lt : α → α → Bool)

theorem insertBy_perm (x : α) (l : List α) : (insertBy lt x l).Perm (x :: l) := by
  induction l with
  | nil => exact List.Perm.refl _
  | cons y ys ih =>
    unfold insertBy
    by_cases h : lt y x = true
    · simp only [h, if_true]
      exact (List.Perm.cons y ih).trans (List.Perm.swap x y ys)
    · simp [h]

theorem isort_perm (l : List α) : (isort lt l).Perm l := by
  induction l with
  | nil => exact List.Perm.refl _
  | cons x xs ih =>
    show (insertBy lt x (isort lt xs)).Perm (x :: xs)
    exact (insertBy_perm lt x _).trans (List.Perm.cons x ih)

/-- inserting into a list keeps, for a class `p` closed under "not strictly smaller", the order -/
theorem insertBy_filter (p : α → Bool) (x : α) (l : List α)
    (h : ∀ y, lt y x = true → p x = true → p y = false) :
    (insertBy lt x l).filter p = (x :: l).filter p := by
  induction l with
  | nil => rfl
  | cons y ys ih =>
    unfold insertBy
    by_cases hyx : lt y x = true
    · simp only [hyx, if_true]
      by_cases hpx : p x = true
      · have hpy := h y hyx hpx
        simp [hpy, hpx] at ih ⊢
        exact ih
      · simp [List.filter_cons, hpx] at ih ⊢
        rw [ih]
    · simp [hyx]

/-- STABILITY: for every class of mutually "equal" elements the sort keeps the source order -/
theorem isort_filter (p : α → Bool) (l : List α)
    (h : ∀ x y, lt y x = true → p x = true → p y = false) :
    (isort lt l).filter p = l.filter p := by
  induction l with
  | nil => rfl
  | cons x xs ih =>
    show (insertBy lt x (isort lt xs)).filter p = (x :: xs).filter p
    rw [insertBy_filter lt p x _ (h x)]
    simp [List.filter_cons, ih]

theorem isort_of_sorted (l : List α) (h : Sorted lt l) : isort lt l = l := by
  induction l with
  | nil => rfl
  | cons x xs ih =>
    have hx := List.pairwise_cons.mp h
    show insertBy lt x (isort lt xs) = x :: xs
    rw [ih hx.2]
    cases xs with
    | nil => rfl
    | cons y ys =>
      have : lt y x = false := hx.1 y (List.mem_cons_self ..)
      simp [insertBy, this]

theorem insertBy_sorted (x : α) (l : List α)
    (asymm : ∀ a b, lt a b = true → lt b a = false)
    (negtrans : ∀ a b c, lt a b = false → lt b c = false → lt a c = false)
    (h : Sorted lt l) : Sorted lt (insertBy lt x l) := by
  induction l with
  | nil => simp [insertBy, Sorted]
  | cons y ys ih =>
    have hy := List.pairwise_cons.mp h
    unfold insertBy
    by_cases hyx : lt y x = true
    · simp only [hyx, if_true]
      refine List.pairwise_cons.mpr ⟨?_, ih hy.2⟩
      intro z hz
      have hz' := (insertBy_perm lt x ys).subset hz
      rcases List.mem_cons.mp hz' with rfl | hz''
      · exact asymm _ _ hyx
      · exact hy.1 z hz''
    · simp only [hyx]
      have hyx' : lt y x = false := by simpa using hyx
      refine List.pairwise_cons.mpr ⟨?_, h⟩
      intro z hz
      rcases List.mem_cons.mp hz with rfl | hz'
      · exact hyx'
      · exact negtrans z y x (hy.1 z hz') hyx'

theorem isort_sorted (l : List α)
    (asymm : ∀ a b, lt a b = true → lt b a = false)
    (negtrans : ∀ a b c, lt a b = false → lt b c = false → lt a c = false) :
    Sorted lt (isort lt l) := by
  induction l with
  | nil => simp [isort, Sorted]
  | cons x xs ih => exact insertBy_sorted lt x _ asymm negtrans ih

end sort

theorem ltOption_asymm (a b : Stmt) (h : ltOption a b = true) : ltOption b a = false :=
  lexLt_asymm _ _ h
theorem ltOption_negtrans (a b c : Stmt) (h1 : ltOption a b = false) (h2 : ltOption b c = false) :
    ltOption a c = false := lexLt_negtrans _ _ _ h1 h2
theorem ltImport_asymm (a b : Stmt) (h : ltImport a b = true) : ltImport b a = false :=
  lexLt_asymm _ _ h
theorem ltImport_negtrans (a b c : Stmt) (h1 : ltImport a b = false) (h2 : ltImport b c = false) :
    ltImport a c = false := lexLt_negtrans _ _ _ h1 h2

/-! ### duplicate-import elision -/

theorem elide_sublist (p : Option (List Nat)) (l : List Stmt) : (elide p l).Sublist l := by
  induction l generalizing p with
  | nil => exact List.Sublist.refl _
  | cons x xs ih =>
    unfold elide
    split
    · exact (ih _).cons x
    · exact (ih _).cons_cons x

theorem elide_idem (p : Option (List Nat)) (l : List Stmt) : elide p (elide p l) = elide p l := by
  induction l generalizing p with
  | nil => rfl
  | cons x xs ih =>
    by_cases h : (p = some (importName x) && !importHasComment x) = true
    · have e : elide p (x :: xs) = elide (some (importName x)) xs := by simp [elide, h]
      have hp : p = some (importName x) := by simp at h; exact h.1
      rw [e, hp]; exact ih _
    · have e : elide p (x :: xs) = x :: elide (some (importName x)) xs := by simp [elide, h]
      rw [e]
      have e2 : elide p (x :: elide (some (importName x)) xs) = x :: elide (some (importName x)) (elide (some (importName x)) xs) := by
        simp [elide, h]
      rw [e2, ih]



/-! ### roles -/

theorem norm_rewrites_aux (l : List (Token × Role))
    (h : ∀ p ∈ l, (p.2 = .dropEmpty → p.1.is ";") ∧ (p.2 = .dropSep → (p.1.is "," ∨ p.1.is ";")) ∧
      (p.2 = .toOpenBrace → p.1.is "<") ∧ (p.2 = .toCloseBrace → p.1.is ">")) :
    Rewrites l (l.flatMap normTok) := by
  induction l with
  | nil => exact .nil
  | cons p l ih =>
    have hp := h p (List.mem_cons_self ..)
    have ih' := ih (fun q hq => h q (List.mem_cons_of_mem _ hq))
    obtain ⟨t, r⟩ := p
    cases r with
    | keep => exact .keep t ih'
    | dropEmpty => exact .dropEmpty t (hp.1 rfl) ih'
    | dropSep => exact .dropSep t (hp.2.1 rfl) ih'
    | toOpenBrace => exact .openBrace t (hp.2.2.1 rfl) ih'
    | toCloseBrace => exact .closeBrace t (hp.2.2.2 rfl) ih'
    | colonAfter => exact .colonAfter t ih'

theorem annotateFrom_fst (st : AState) (ts : List Token) : (annotateFrom st ts).map (·.1) = ts := by
  induction ts generalizing st with
  | nil => rfl
  | cons t rest ih => simp [annotateFrom, ih]

theorem annotate_eq_zip (ts : List Token) : annotate ts = ts.zip (roles ts) :=
  List.zip_of_prod (annotateFrom_fst {} ts) rfl

theorem roles_length (ts : List Token) : (roles ts).length = ts.length := by
  have h := congrArg List.length (annotateFrom_fst {} ts)
  simpa [roles, annotate] using h

/-! ### decoration: nothing lost -/

theorem closePrev_toks (st : DState) (n : Nat) : toks (closePrev st n).1 = toks st.prev.toList := by
  unfold closePrev
  cases st.prev with
  | none => rfl
  | some p => simp only []; split <;> rfl

theorem closePrev_comments (st : DState) (n : Nat) :
    commentsOf (closePrev st n).1 ++ (closePrev st n).2 =
      st.prev.toList.flatMap (·.lead) ++ st.pend.map (·.key) := by
  unfold closePrev
  cases st.prev with
  | none => simp [commentsOf]
  | some p =>
    simp only []
    split
    · simp only [commentsOf, DTok.comments, List.flatMap_cons, List.flatMap_nil, List.append_nil,
        Option.toList, List.append_assoc, ← List.map_append, List.take_append_drop]
    · simp [commentsOf, DTok.comments]

theorem decoAux_toks (st : DState) (ts : List Token) :
    toks (decoAux st ts) = toks st.prev.toList ++ sig ts ++ [eofTok] := by
  induction ts generalizing st with
  | nil =>
    simp only [decoAux, toks, List.map_append, sig, List.filter_nil, List.append_nil]
    have := closePrev_toks st (if st.line = st.prevEnd then st.line + 1 else st.line)
    simp only [toks] at this
    rw [this]; rfl
  | cons t ts ih =>
    unfold decoAux
    by_cases hw : t.kind = .ws
    · simp only [hw, if_true]
      rw [ih]
      have : t.isSig = false := by simp [Token.isSig, hw]
      simp [sig, List.filter_cons, this]
    · simp only [hw, if_false]
      by_cases hc : t.isComment = true
      · simp only [hc, if_true]
        rw [ih]
        have : t.isSig = false := by
          unfold Token.isComment at hc; unfold Token.isSig
          cases hk : t.kind <;> simp_all
        simp [sig, List.filter_cons, this]
      · simp only [hc]
        have hs : t.isSig = true := by
          unfold Token.isComment at hc; unfold Token.isSig
          cases hk : t.kind <;> simp_all
        have h1 := closePrev_toks st st.line
        simp only [toks] at h1 ih ⊢
        simp only [Bool.false_eq_true, if_false, List.map_append, h1]
        rw [ih]
        simp [sig, List.filter_cons, hs]

theorem decorate_toks_aux (ts : List Token) : toks (decorate ts) = sig ts ++ [eofTok] := by
  unfold decorate; rw [decoAux_toks]; rfl

theorem decoAux_comments (st : DState) (ts : List Token) :
    commentsOf (decoAux st ts) =
      st.prev.toList.flatMap (·.lead) ++ st.pend.map (·.key) ++ (comments ts).map commentKey := by
  induction ts generalizing st with
  | nil =>
    simp only [decoAux, comments, List.filter_nil, List.map_nil, List.append_nil]
    have := closePrev_comments st (if st.line = st.prevEnd then st.line + 1 else st.line)
    rw [← this]
    simp [commentsOf, DTok.comments]
  | cons t ts ih =>
    unfold decoAux
    by_cases hw : t.kind = .ws
    · simp only [hw, if_true]
      rw [ih]
      have : t.isComment = false := by simp [Token.isComment, hw]
      simp [comments, List.filter_cons, this]
    · simp only [hw, if_false]
      by_cases hc : t.isComment = true
      · simp only [hc, if_true]
        rw [ih]
        simp [comments, List.filter_cons, hc]
      · simp only [hc]
        have hc' : t.isComment = false := by simpa using hc
        have h1 := closePrev_comments st st.line
        simp only [Bool.false_eq_true, if_false]
        have e : commentsOf ((closePrev st st.line).1 ++ decoAux
            { prev := some { tok := t, lead := (closePrev st st.line).2 }, prevEnd := st.line + newlines t.text,
              pend := [], line := st.line + newlines t.text } ts) =
            commentsOf (closePrev st st.line).1 ++ ((closePrev st st.line).2 ++ (comments ts).map commentKey) := by
          rw [commentsOf, List.flatMap_append, ← commentsOf, ← commentsOf, ih]
          simp
        rw [e, ← List.append_assoc, h1]
        simp [comments, List.filter_cons, hc']

theorem decorate_comments_aux (ts : List Token) :
    commentsOf (decorate ts) = (comments ts).map commentKey := by
  unfold decorate; rw [decoAux_comments]; rfl

/-! ### body rewrites on decorated tokens -/

/-- projection to (token, role) -/
def proj (p : DTok × Role) : Token × Role := (p.1.tok, p.2)

theorem giveLead_proj (cs : List CKey) (l l' : List (DTok × Role)) (h : giveLead cs l = some l') :
    l'.map proj = l.map proj := by
  cases l with
  | nil => simp [giveLead] at h
  | cons n rest =>
    obtain ⟨n, r⟩ := n
    simp only [giveLead, Option.some.injEq] at h
    subst h
    simp [proj]

theorem absorb_proj (x : DTok × Role) (acc : List (DTok × Role)) :
    (absorb x acc).map proj = proj x :: acc.map proj := by
  unfold absorb
  split
  · rename_i s rest
    split
    · simp [proj]
    · split
      · rename_i rest' hg
        have := giveLead_proj _ _ _ hg
        simp [proj, this]
      · rfl
  · rfl

theorem moveSepTrail_proj (l : List (DTok × Role)) : (moveSepTrail l).map proj = l.map proj := by
  induction l with
  | nil => rfl
  | cons x xs ih =>
    show (absorb x (moveSepTrail xs)).map proj = _
    rw [absorb_proj, ih]; rfl

theorem normTokD_toks (p : DTok × Role) : toks (normTokD p) = normTok (proj p) := by
  obtain ⟨d, r⟩ := p
  cases r <;> rfl

theorem flatMap_normTokD_toks (l : List (DTok × Role)) :
    toks (l.flatMap normTokD) = (l.map proj).flatMap normTok := by
  induction l with
  | nil => rfl
  | cons x xs ih =>
    simp only [List.flatMap_cons, List.map_cons, toks, List.map_append] at ih ⊢
    rw [ih]
    have := normTokD_toks x
    simp only [toks] at this
    rw [this]

theorem zip_proj (ds : List DTok) (rs : List Role) : (ds.zip rs).map proj = (toks ds).zip rs := by
  induction ds generalizing rs with
  | nil => rfl
  | cons d ds ih =>
    cases rs with
    | nil => rfl
    | cons r rs => simp [proj, toks] at ih ⊢; exact ih rs

/-- the token projection of the decorated rewrite IS the token-level `norm` -/
theorem normD_toks (ds : List DTok) : toks (normD ds) = norm (toks ds) := by
  unfold normD annotateD norm
  rw [flatMap_normTokD_toks, moveSepTrail_proj, zip_proj, annotate_eq_zip]

theorem commentsOf_append (a b : List DTok) : commentsOf (a ++ b) = commentsOf a ++ commentsOf b := by
  simp [commentsOf]

theorem commentsOf_cons (a : DTok) (b : List DTok) : commentsOf (a :: b) = a.lead ++ a.trail ++ commentsOf b := by
  simp [commentsOf, DTok.comments]

theorem giveLead_comments (cs : List CKey) (l l' : List (DTok × Role)) (h : giveLead cs l = some l') :
    commentsOf (l'.map (·.1)) = cs ++ commentsOf (l.map (·.1)) := by
  cases l with
  | nil => simp [giveLead] at h
  | cons n rest =>
    obtain ⟨n, r⟩ := n
    simp only [giveLead, Option.some.injEq] at h
    subst h
    simp [commentsOf_cons]

theorem absorb_comments (x : DTok × Role) (acc : List (DTok × Role)) :
    (commentsOf ((absorb x acc).map (·.1))).Perm (commentsOf ((x :: acc).map (·.1))) := by
  unfold absorb
  split
  · rename_i s rest
    split
    · rename_i he
      have he' : x.1.trail = [] := by simpa using he
      simp only [List.map_cons, commentsOf_cons, List.append_nil, List.append_assoc, he']
      refine List.Perm.append_left _ ?_
      rw [← List.append_assoc, ← List.append_assoc]
      exact List.Perm.append_right _ List.perm_append_comm
    · split
      · rename_i rest' hg
        simp only [List.map_cons, commentsOf_cons, List.append_nil, List.append_assoc,
          giveLead_comments _ _ _ hg]
        exact List.Perm.refl _
      · exact List.Perm.refl _
  · exact List.Perm.refl _

theorem moveSepTrail_comments (l : List (DTok × Role)) :
    (commentsOf ((moveSepTrail l).map (·.1))).Perm (commentsOf (l.map (·.1))) := by
  induction l with
  | nil => exact List.Perm.refl _
  | cons x xs ih =>
    show (commentsOf ((absorb x (moveSepTrail xs)).map (·.1))).Perm _
    refine (absorb_comments x _).trans ?_
    simp only [List.map_cons, commentsOf_cons]
    exact List.Perm.append_left _ ih

theorem flatMap_normTokD_comments (l : List (DTok × Role)) (h : dropsClean l = true) :
    commentsOf (l.flatMap normTokD) = commentsOf (l.map (·.1)) := by
  induction l with
  | nil => rfl
  | cons x xs ih =>
    have hx : (!(x.2 = .dropEmpty || x.2 = .dropSep) || (x.1.lead.isEmpty && x.1.trail.isEmpty)) = true := by
      have := List.all_eq_true.mp h x (List.mem_cons_self ..)
      exact this
    have hxs : dropsClean xs = true := by
      unfold dropsClean at h ⊢
      simp only [List.all_cons, Bool.and_eq_true] at h
      exact h.2
    simp only [List.flatMap_cons, List.map_cons, commentsOf_append, ih hxs, commentsOf_cons]
    obtain ⟨d, r⟩ := x
    cases r <;> simp_all [normTokD, commentsOf, DTok.comments]

theorem zip_roles_fst (ds : List DTok) : (ds.zip (roles (toks ds))).map (·.1) = ds := by
  apply List.map_fst_zip
  rw [roles_length]; simp [toks]

/-- the body rewrites lose no comment (when no dropped token carries one) -/
theorem normD_comments (ds : List DTok) (h : dropsClean (annotateD ds) = true) :
    (commentsOf (normD ds)).Perm (commentsOf ds) := by
  unfold normD
  rw [flatMap_normTokD_comments _ h]
  unfold annotateD
  have := moveSepTrail_comments (ds.zip (roles (toks ds)))
  rw [zip_roles_fst] at this
  exact this

/-! ### statements: nothing lost -/

theorem splitStmts_flatten (ts : List DTok) (depth : Nat) (cur : Stmt) :
    (splitStmts ts depth cur).flatten = cur.reverse ++ ts := by
  induction ts generalizing depth cur with
  | nil =>
    unfold splitStmts
    cases cur <;> simp
  | cons t ts ih =>
    unfold splitStmts
    simp only []
    split
    · rw [ih]; simp
    · split
      · split
        · simp [ih]
        · rw [ih]; simp
      · split
        · simp [ih]
        · rw [ih]; simp

/-- token conservation: the statements of a stream, concatenated, are the stream -/
theorem stmts_flatten_aux (ds : List DTok) : (stmts ds).flatten = ds := by
  unfold stmts; rw [splitStmts_flatten]; rfl

theorem gapNormAux_toks (c : List CKey) (s : Stmt) : toks (gapNormAux c s) = toks s := by
  induction s generalizing c with
  | nil => rfl
  | cons d rest ih =>
    unfold gapNormAux
    split <;> simp [toks] at ih ⊢ <;> exact ih _

theorem gapNormAux_comments (c : List CKey) (s : Stmt) (h : s ≠ [] ∨ c = []) :
    commentsOf (gapNormAux c s) = c ++ commentsOf s := by
  induction s generalizing c with
  | nil =>
    rcases h with h | h
    · exact absurd rfl h
    · subst h; rfl
  | cons d rest ih =>
    unfold gapNormAux
    split
    · simp [commentsOf_cons, ih [] (Or.inr rfl)]
    · rename_i hne
      have hr : rest ≠ [] := by
        intro e; subst e; simp at hne
      simp [commentsOf_cons, ih _ (Or.inl hr)]

theorem gapNorm_toks (s : Stmt) : stmtText (gapNorm s) = stmtText s := gapNormAux_toks [] s
theorem gapNorm_comments (s : Stmt) : commentsOf (gapNorm s) = commentsOf s := by
  unfold gapNorm; rw [gapNormAux_comments _ _ (Or.inr rfl)]; rfl

theorem gapNorm_firstIs (s : Stmt) (w : String) : firstIs (gapNorm s) w = firstIs s w := by
  cases s with
  | nil => rfl
  | cons d rest =>
    unfold gapNorm gapNormAux
    split <;> rfl

/-! ### header partition -/

theorem perm_insert_mid {α} (a b t : List α) (x : α) (h : (a ++ b).Perm t) : (a ++ x :: b).Perm (x :: t) :=
  List.perm_middle.trans (List.Perm.cons x h)

/-- the five classes partition the statements: hoisting loses and duplicates nothing -/
theorem parseHeader_perm (ss : List Stmt) : (parseHeader ss).render.Perm ss := by
  induction ss with
  | nil => exact List.Perm.refl _
  | cons s t ih =>
    simp only [parseHeader, Header.render, ofCls] at ih ⊢
    generalize hA : List.filter (fun x => decide (cls x = Cls.syn)) t = A at ih ⊢
    generalize hB : List.filter (fun x => decide (cls x = Cls.pkg)) t = B at ih ⊢
    generalize hC : List.filter (fun x => decide (cls x = Cls.imp)) t = C at ih ⊢
    generalize hD : List.filter (fun x => decide (cls x = Cls.opt)) t = D at ih ⊢
    generalize hE : List.filter (fun x => decide (cls x = Cls.rest)) t = E at ih ⊢
    cases hc : cls s
    all_goals
      simp only [List.filter_cons, hc, decide_true, decide_false, if_true, if_false, reduceCtorEq,
        Bool.false_eq_true, hA, hB, hC, hD, hE]
    · exact List.Perm.cons _ ih
    · have e : A ++ s :: B ++ C ++ D ++ E = A ++ s :: (B ++ C ++ D ++ E) := by simp
      rw [e]; exact perm_insert_mid _ _ _ _ (by simpa using ih)
    · have e : A ++ B ++ s :: C ++ D ++ E = (A ++ B) ++ s :: (C ++ D ++ E) := by simp
      rw [e]; exact perm_insert_mid _ _ _ _ (by simpa using ih)
    · have e : A ++ B ++ C ++ s :: D ++ E = (A ++ B ++ C) ++ s :: (D ++ E) := by simp
      rw [e]; exact perm_insert_mid _ _ _ _ (by simpa using ih)
    · have e : A ++ B ++ C ++ D ++ s :: E = (A ++ B ++ C ++ D) ++ s :: E := by simp
      rw [e]; exact perm_insert_mid _ _ _ _ (by simpa using ih)

/-! ### the checker's clauses -/

theorem subtract_spec (ins outs el : List Stmt) (h : subtract ins outs = some el) :
    (outs ++ el).Perm ins := by
  induction outs generalizing ins with
  | nil => simp [subtract] at h; subst h; exact List.Perm.refl _
  | cons o os ih =>
    unfold subtract at h
    split at h
    · rename_i hm
      have := ih _ h
      exact (List.Perm.cons o this).trans (List.perm_cons_erase hm).symm
    · simp at h

theorem subtract_self (l : List Stmt) : subtract l l = some [] := by
  induction l with
  | nil => rfl
  | cons o os ih => simp [subtract, ih]

/-! ### the relation the checker decides -/

/-- the output imports are the input imports (decorated: tokens and comments) in any order, minus
    the elided ones; an elided import carries no comment and imports a file that a kept statement
    imports.  (When the modifiers `public`/`weak` of the two differ the input does not link:
    "already imported"; golden test duplicate_import.proto documents that behaviour.) -/
structure ImportsRel (ins outs : List Stmt) : Prop where
  split : ∃ elided : List Stmt, (outs ++ elided).Perm ins ∧
    ∀ e ∈ elided, stmtComments e = [] ∧ ∃ k ∈ outs, importName k = importName e

/-- a STABLE reordering: a permutation that keeps the relative order of the statements of every
    option name -/
structure OptionsRel (ins outs : List Stmt) : Prop where
  perm : outs.Perm ins
  stable : ∀ k, outs.filter (optionKey · = k) = ins.filter (optionKey · = k)

/-- hoisting + sorting of the file header, as a relation between the statement lists -/
structure HeaderRel (si so : List Stmt) : Prop where
  /-- syntax / edition, package, and everything that is not an import or a file option (messages,
      enums, services, extends, the EOF token): the same statements — tokens and comments — in the
      same order -/
  syn : ofCls .syn so = ofCls .syn si
  pkg : ofCls .pkg so = ofCls .pkg si
  rest : ofCls .rest so = ofCls .rest si
  imports : ImportsRel (ofCls .imp si) (ofCls .imp so)
  options : OptionsRel (ofCls .opt si) (ofCls .opt so)

theorem importsOK_sound (ins outs : List Stmt) (h : importsOK ins outs = true) : ImportsRel ins outs := by
  unfold importsOK at h
  split at h
  · rename_i el hm
    refine ⟨el, subtract_spec _ _ _ hm, ?_⟩
    intro e he
    have := (List.all_eq_true.mp h) e he
    simp only [Bool.and_eq_true, List.isEmpty_iff, List.any_eq_true, decide_eq_true_eq] at this
    exact this
  · simp at h

theorem importsOK_refl (l : List Stmt) : importsOK l l = true := by
  simp [importsOK, subtract_self]

theorem optionsOK_sound (ins outs : List Stmt) (h : optionsOK ins outs = true) : OptionsRel ins outs := by
  unfold optionsOK at h
  simp only [Bool.and_eq_true] at h
  obtain ⟨hp, hall⟩ := h
  have hperm : outs.Perm ins := List.isPerm_iff.mp hp
  refine ⟨hperm, ?_⟩
  intro k
  by_cases hk : k ∈ ins.map optionKey
  · have := (List.all_eq_true.mp hall) k hk
    simpa using this
  · have e1 : ins.filter (optionKey · = k) = [] := by
      apply List.filter_eq_nil_iff.mpr
      intro a ha hka
      exact hk (List.mem_map.mpr ⟨a, ha, by simpa using hka⟩)
    have e2 : outs.filter (optionKey · = k) = [] := by
      apply List.filter_eq_nil_iff.mpr
      intro a ha hka
      exact hk (List.mem_map.mpr ⟨a, hperm.subset ha, by simpa using hka⟩)
    rw [e1, e2]

theorem optionsOK_refl (l : List Stmt) : optionsOK l l = true := by
  unfold optionsOK
  simp only [Bool.and_eq_true]
  exact ⟨List.isPerm_iff.mpr (List.Perm.refl _), List.all_eq_true.mpr (fun k _ => by simp)⟩

theorem headerOK_sound (si so : List Stmt) (h : headerOK si so = true) : HeaderRel si so := by
  unfold headerOK at h
  simp only [Bool.and_eq_true, beq_iff_eq] at h
  obtain ⟨⟨⟨⟨h1, h2⟩, h3⟩, h4⟩, h5⟩ := h
  exact ⟨h1, h2, h3, importsOK_sound _ _ h4, optionsOK_sound _ _ h5⟩

theorem headerOK_refl (s : List Stmt) : headerOK s s = true := by
  simp [headerOK, importsOK_refl, optionsOK_refl]

/-- consequence: the output statements are a permutation of the input statements minus the
    elided duplicate imports -/
theorem HeaderRel.perm {si so : List Stmt} (h : HeaderRel si so) :
    ∃ elided : List Stmt, (so ++ elided).Perm si ∧
      ∀ e ∈ elided, cls e = .imp ∧ stmtComments e = [] ∧ ∃ k ∈ so, cls k = .imp ∧ importName k = importName e := by
  obtain ⟨el, hp, hel⟩ := h.imports.split
  refine ⟨el, ?_, ?_⟩
  · have h1 := (parseHeader_perm so).symm
    have h2 := parseHeader_perm si
    refine ((List.Perm.append_right el h1).trans ?_).trans h2
    simp only [parseHeader, Header.render, h.syn, h.pkg, h.rest]
    generalize ofCls .syn si = A
    generalize ofCls .pkg si = B
    generalize ofCls .rest si = E
    have ho := h.options.perm
    -- A ++ B ++ I' ++ O' ++ E ++ el  ~  A ++ B ++ I ++ O ++ E
    have step1 : (A ++ B ++ ofCls .imp so ++ ofCls .opt so ++ E ++ el).Perm
        (A ++ B ++ (ofCls .imp so ++ el) ++ ofCls .opt so ++ E) := by
      simp only [List.append_assoc]
      refine List.Perm.append_left _ (List.Perm.append_left _ (List.Perm.append_left _ ?_))
      have : (ofCls Cls.opt so ++ E ++ el).Perm (el ++ (ofCls Cls.opt so ++ E)) := List.perm_append_comm
      simpa only [List.append_assoc] using this
    refine step1.trans ?_
    exact List.Perm.append_right _ (List.Perm.append (List.Perm.append_left _ hp) ho)
  · intro e he
    have hmem : e ∈ ofCls .imp si := hp.subset (List.mem_append_right _ he)
    have hc : cls e = .imp := by
      have := (List.mem_filter.mp hmem).2
      simpa using this
    obtain ⟨hcom, k, hk, hn⟩ := hel e he
    have hk' := List.mem_filter.mp hk
    exact ⟨hc, hcom, k, hk'.1, by simpa using hk'.2, hn⟩

/-! ### comment anchors -/

/-- where a comment is attached: to which token (index `idx`) of which file-level declaration
    (its token text `decl`), as a leading or a trailing comment -/
structure Anchor where
  key : CKey
  trailing : Bool
  idx : Nat
  decl : List Token
  deriving DecidableEq, Repr

def tokAnchors (decl : List Token) (d : DTok) (i : Nat) : List Anchor :=
  d.lead.map (⟨·, false, i, decl⟩) ++ d.trail.map (⟨·, true, i, decl⟩)

def stmtAnchorsFrom (decl : List Token) : Nat → Stmt → List Anchor
  | _, [] => []
  | i, d :: rest => tokAnchors decl d i ++ stmtAnchorsFrom decl (i + 1) rest

def stmtAnchors (s : Stmt) : List Anchor := stmtAnchorsFrom (stmtText s) 0 s

/-- all comment anchors of a list of declarations, in source order -/
def anchors (ss : List Stmt) : List Anchor := ss.flatMap stmtAnchors

theorem stmtAnchorsFrom_keys (decl : List Token) (i : Nat) (s : Stmt) :
    (stmtAnchorsFrom decl i s).map (·.key) = commentsOf s := by
  induction s generalizing i with
  | nil => rfl
  | cons d rest ih =>
    simp [stmtAnchorsFrom, tokAnchors, commentsOf_cons, ih, Function.comp_def]

theorem anchors_keys (ss : List Stmt) : (anchors ss).map (·.key) = commentsOf ss.flatten := by
  induction ss with
  | nil => rfl
  | cons s t ih =>
    simp only [anchors, List.flatMap_cons, List.map_append, List.flatten_cons, commentsOf_append] at ih ⊢
    rw [ih]; unfold stmtAnchors; rw [stmtAnchorsFrom_keys]

theorem stmtAnchors_nil_of_no_comments (s : Stmt) (h : stmtComments s = []) : stmtAnchors s = [] := by
  have := stmtAnchorsFrom_keys (stmtText s) 0 s
  unfold stmtComments at h
  rw [h] at this
  exact List.map_eq_nil_iff.mp this

theorem commentsOf_flatten_gapNorm (ss : List Stmt) :
    commentsOf (ss.map gapNorm).flatten = commentsOf ss.flatten := by
  induction ss with
  | nil => rfl
  | cons s t ih => simp [commentsOf_append, gapNorm_comments, ih]

theorem toks_flatten_gapNorm (ss : List Stmt) : toks (ss.map gapNorm).flatten = toks ss.flatten := by
  induction ss with
  | nil => rfl
  | cons s t ih =>
    have := gapNorm_toks s
    simp only [stmtText, toks] at this ih ⊢
    simp [this, ih]

/-! ### streams without a rewritable token -/

theorem absorb_keep (x : DTok × Role) (acc : List (DTok × Role)) (h : ∀ p ∈ acc, p.2 = .keep) :
    absorb x acc = x :: acc := by
  unfold absorb
  split
  · rename_i s rest
    have := h (s, .dropSep) (List.mem_cons_self ..)
    simp at this
  · rfl

theorem moveSepTrail_keep (l : List (DTok × Role)) (h : ∀ p ∈ l, p.2 = .keep) : moveSepTrail l = l := by
  induction l with
  | nil => rfl
  | cons x xs ih =>
    have hx := ih (fun p hp => h p (List.mem_cons_of_mem _ hp))
    show absorb x (moveSepTrail xs) = _
    rw [hx, absorb_keep _ _ (fun p hp => h p (List.mem_cons_of_mem _ hp))]

theorem flatMap_normTokD_keep (l : List (DTok × Role)) (h : ∀ p ∈ l, p.2 = .keep) :
    l.flatMap normTokD = l.map (·.1) := by
  induction l with
  | nil => rfl
  | cons x xs ih =>
    have hx := h x (List.mem_cons_self ..)
    obtain ⟨d, r⟩ := x
    simp only at hx; subst hx
    simp [normTokD, ih (fun p hp => h p (List.mem_cons_of_mem _ hp))]

theorem zip_roles_keep (ds : List DTok) (h : (roles (toks ds)).all (· = .keep) = true) :
    ∀ p ∈ ds.zip (roles (toks ds)), p.2 = .keep := by
  intro p hp
  have := (List.of_mem_zip hp).2
  have := List.all_eq_true.mp h _ this
  simpa using this

theorem annotateD_keep (ds : List DTok) (h : (roles (toks ds)).all (· = .keep) = true) :
    annotateD ds = ds.zip (roles (toks ds)) :=
  moveSepTrail_keep _ (zip_roles_keep ds h)

/-- a stream in which every role is `keep` is a fixed point of the body rewrites -/
theorem normD_keep (ds : List DTok) (h : (roles (toks ds)).all (· = .keep) = true) : normD ds = ds := by
  unfold normD
  rw [annotateD_keep ds h, flatMap_normTokD_keep _ (zip_roles_keep ds h), zip_roles_fst]

theorem dropsClean_keep (ds : List DTok) (h : (roles (toks ds)).all (· = .keep) = true) :
    dropsClean (annotateD ds) = true := by
  rw [annotateD_keep ds h]
  unfold dropsClean
  apply List.all_eq_true.mpr
  intro p hp
  have := zip_roles_keep ds h p hp
  simp [this]

/-! ### the header rearrangement as a chain of elementary steps -/

/-- two file-level statements whose relative order matters: same class, not imports, and for
    options the same option name -/
def conflict (a b : Stmt) : Prop :=
  cls a = cls b ∧ cls a ≠ .imp ∧ (cls a = .opt → optionKey a = optionKey b)

/-- ONE elementary header rewrite -/
inductive HStep : List Stmt → List Stmt → Prop
  /-- exchange two adjacent statements whose relative order does not matter: an import with
      anything, statements of different classes (hoisting), two options with different names -/
  | swap (l r : List Stmt) (a b : Stmt) : ¬ conflict a b → HStep (l ++ a :: b :: r) (l ++ b :: a :: r)
  /-- remove an import statement that carries no comment and whose file another (remaining)
      import statement imports -/
  | elide (l r : List Stmt) (e k : Stmt) : cls e = .imp → stmtComments e = [] →
      k ∈ l ++ r → cls k = .imp → importName k = importName e → HStep (l ++ e :: r) (l ++ r)

/-- reflexive-transitive closure -/
inductive HSteps : List Stmt → List Stmt → Prop
  | refl (a) : HSteps a a
  | step {a b c} : HStep a b → HSteps b c → HSteps a c

theorem HSteps.trans {a b c : List Stmt} (h1 : HSteps a b) (h2 : HSteps b c) : HSteps a c := by
  induction h1 with
  | refl => exact h2
  | step s _ ih => exact .step s (ih h2)

theorem HStep.cons (x : Stmt) {a b : List Stmt} (h : HStep a b) : HStep (x :: a) (x :: b) := by
  cases h with
  | swap l r a b hc => exact .swap (x :: l) r a b hc
  | elide l r e k h1 h2 h3 h4 h5 => exact .elide (x :: l) r e k h1 h2 (List.mem_cons_of_mem _ h3) h4 h5

theorem HSteps.cons (x : Stmt) {a b : List Stmt} (h : HSteps a b) : HSteps (x :: a) (x :: b) := by
  induction h with
  | refl => exact .refl _
  | step s _ ih => exact .step (s.cons x) ih

/-- the classes inside which the order is kept -/
inductive QClass : (Stmt → Bool) → Prop
  | syn : QClass (fun s => decide (cls s = .syn))
  | pkg : QClass (fun s => decide (cls s = .pkg))
  | rest : QClass (fun s => decide (cls s = .rest))
  | opt (k : List Nat) : QClass (fun s => decide (cls s = .opt) && decide (optionKey s = k))

theorem conflict_of_class {q : Stmt → Bool} (hq : QClass q) {a b : Stmt} (ha : q a = true) (hb : q b = true) :
    conflict a b := by
  cases hq <;> simp only [Bool.and_eq_true, decide_eq_true_eq] at ha hb
  · exact ⟨ha.trans hb.symm, by rw [ha]; simp, by rw [ha]; simp⟩
  · exact ⟨ha.trans hb.symm, by rw [ha]; simp, by rw [ha]; simp⟩
  · exact ⟨ha.trans hb.symm, by rw [ha]; simp, by rw [ha]; simp⟩
  · exact ⟨ha.1.trans hb.1.symm, by rw [ha.1]; simp, fun _ => ha.2.trans hb.2.symm⟩

theorem class_of_conflict {a b : Stmt} (h : conflict a b) : ∃ q, QClass q ∧ q a = true ∧ q b = true := by
  obtain ⟨h1, h2, h3⟩ := h
  cases hc : cls a
  · exact ⟨_, .syn, by simp [hc], by simp [← h1, hc]⟩
  · exact ⟨_, .pkg, by simp [hc], by simp [← h1, hc]⟩
  · exact absurd hc h2
  · exact ⟨_, .opt (optionKey a), by simp [hc], by simp [← h1, hc, h3 hc]⟩
  · exact ⟨_, .rest, by simp [hc], by simp [← h1, hc]⟩

theorem class_not_import {q : Stmt → Bool} (hq : QClass q) {e : Stmt} (he : cls e = .imp) : q e = false := by
  cases hq <;> simp [he]

/-- a statement moves to the front across statements it does not conflict with -/
theorem bubble (A B : List Stmt) (x : Stmt) (h : ∀ a ∈ A, ¬ conflict a x) :
    HSteps (A ++ x :: B) (x :: (A ++ B)) := by
  induction A with
  | nil => exact .refl _
  | cons a A ih =>
    have h1 := ih (fun y hy => h y (List.mem_cons_of_mem _ hy))
    have h2 : HSteps (a :: (A ++ x :: B)) (a :: x :: (A ++ B)) := h1.cons a
    exact h2.trans (.step (.swap [] (A ++ B) a x (h a (List.mem_cons_self ..))) (.refl _))

theorem exists_first_split (o : Stmt) (l : List Stmt) (h : o ∈ l) : ∃ A B, l = A ++ o :: B ∧ o ∉ A := by
  induction l with
  | nil => simp at h
  | cons y ys ih =>
    by_cases hy : o = y
    · exact ⟨[], ys, by simp [hy], by simp⟩
    · have : o ∈ ys := by
        rcases List.mem_cons.mp h with h | h
        · exact absurd h hy
        · exact h
      obtain ⟨A, B, e, hn⟩ := ih this
      refine ⟨y :: A, B, by simp [e], ?_⟩
      intro hm
      rcases List.mem_cons.mp hm with hm | hm
      · exact hy hm
      · exact hn hm

/-- a permutation that keeps the order inside every class is reachable by swaps -/
theorem sort_by_swaps (so si : List Stmt) (hp : so.Perm si)
    (hq : ∀ q, QClass q → so.filter q = si.filter q) : HSteps si so := by
  induction so generalizing si with
  | nil => rw [List.Perm.eq_nil hp.symm]; exact .refl _
  | cons o so ih =>
    have ho : o ∈ si := hp.subset (List.mem_cons_self ..)
    obtain ⟨A, B, e, hn⟩ := exists_first_split o si ho
    subst e
    -- nothing in A is in a class together with o
    have hA : ∀ q, QClass q → q o = true → A.filter q = [] := by
      intro q hQ hqo
      have := hq q hQ
      simp only [List.filter_cons, hqo, if_true, List.filter_append] at this
      cases hf : A.filter q with
      | nil => rfl
      | cons a0 rest =>
        rw [hf] at this
        simp only [List.cons_append, List.cons.injEq] at this
        have : a0 ∈ A := (List.mem_filter.mp (by rw [hf]; exact List.mem_cons_self ..)).1
        rw [← ‹o = a0 ∧ _›.1] at this
        exact absurd this hn
    have hnc : ∀ a ∈ A, ¬ conflict a o := by
      intro a ha hc
      obtain ⟨q, hQ, hqa, hqo⟩ := class_of_conflict hc
      have := hA q hQ hqo
      have hm : a ∈ A.filter q := List.mem_filter.mpr ⟨ha, hqa⟩
      rw [this] at hm
      simp at hm
    have hb := bubble A B o hnc
    have hp' : so.Perm (A ++ B) := (List.Perm.cons_inv (hp.trans List.perm_middle))
    have hq' : ∀ q, QClass q → so.filter q = (A ++ B).filter q := by
      intro q hQ
      have := hq q hQ
      by_cases hqo : q o = true
      · have hA' := hA q hQ hqo
        simp only [List.filter_cons, hqo, if_true, List.filter_append, hA', List.nil_append,
          List.cons.injEq, true_and] at this ⊢
        exact this
      · simp only [List.filter_cons, hqo, List.filter_append] at this ⊢
        simpa using this
    exact hb.trans ((ih (A ++ B) hp' hq').cons o)

/-- the chain for a whole header relation: first the elisions, then the swaps -/
theorem chain_of_perm (el so si : List Stmt) (hp : (so ++ el).Perm si)
    (hq : ∀ q, QClass q → so.filter q = si.filter q)
    (hel : ∀ e ∈ el, cls e = .imp ∧ stmtComments e = [] ∧ ∃ k ∈ so, cls k = .imp ∧ importName k = importName e) :
    HSteps si so := by
  induction el generalizing si with
  | nil => exact sort_by_swaps so si (by simpa using hp) hq
  | cons e el ih =>
    have he : e ∈ si := hp.subset (by simp)
    obtain ⟨A, B, rfl⟩ := List.append_of_mem he
    obtain ⟨hc, hcom, k, hk, hkc, hkn⟩ := hel e (List.mem_cons_self ..)
    have hp' : (so ++ el).Perm (A ++ B) := by
      have h1 : (e :: (so ++ el)).Perm (so ++ e :: el) := List.perm_middle.symm
      exact List.Perm.cons_inv ((h1.trans hp).trans List.perm_middle)
    have hkm : k ∈ A ++ B := hp'.subset (List.mem_append_left _ hk)
    have hq' : ∀ q, QClass q → so.filter q = (A ++ B).filter q := by
      intro q hQ
      have := hq q hQ
      simp only [List.filter_append, List.filter_cons, class_not_import hQ hc] at this ⊢
      simpa using this
    exact .step (.elide A B e k hc hcom hkm hkc hkn)
      (ih (A ++ B) hp' hq' (fun x hx => hel x (List.mem_cons_of_mem _ hx)))

theorem HeaderRel.classes {si so : List Stmt} (h : HeaderRel si so) :
    ∀ q, QClass q → so.filter q = si.filter q := by
  intro q hQ
  cases hQ with
  | syn => exact h.syn
  | pkg => exact h.pkg
  | rest => exact h.rest
  | opt k =>
    have := h.options.stable k
    simp only [ofCls, List.filter_filter] at this
    simpa [Bool.and_comm] using this

theorem HeaderRel.chain {si so : List Stmt} (h : HeaderRel si so) : HSteps si so := by
  obtain ⟨el, hp, hel⟩ := h.perm
  exact chain_of_perm el so si hp h.classes hel

/-! ### what every elementary step preserves -/

/-- the part of the meaning of a file that can be stated on statement lists: the syntax and
    package statements and all declarations in their order; for every option name the sequence
    of its statements (values of a repeated option keep their order); the SET of imported files;
    the comments with their anchors -/
structure SameMeaning (a b : List Stmt) : Prop where
  classes : ∀ q, QClass q → b.filter q = a.filter q
  imports : ∀ n, n ∈ (ofCls .imp b).map importName ↔ n ∈ (ofCls .imp a).map importName
  comments : (anchors b).Perm (anchors a)

theorem SameMeaning.refl (a : List Stmt) : SameMeaning a a :=
  ⟨fun _ _ => rfl, fun _ => Iff.rfl, List.Perm.refl _⟩

theorem SameMeaning.trans {a b c : List Stmt} (h1 : SameMeaning a b) (h2 : SameMeaning b c) : SameMeaning a c :=
  ⟨fun q hq => (h2.classes q hq).trans (h1.classes q hq),
   fun n => (h2.imports n).trans (h1.imports n), h2.comments.trans h1.comments⟩

theorem HStep.sound {a b : List Stmt} (h : HStep a b) : SameMeaning a b := by
  cases h with
  | swap l r x y hc =>
    refine ⟨?_, ?_, ?_⟩
    · intro q hQ
      by_cases hx : q x = true
      · by_cases hy : q y = true
        · exact absurd (conflict_of_class hQ hx hy) hc
        · simp [List.filter_cons, hx, hy]
      · simp [List.filter_cons, hx]
    · intro n
      have hp : (l ++ y :: x :: r).Perm (l ++ x :: y :: r) := List.Perm.append_left _ (List.Perm.swap ..)
      have := ((hp.filter (cls · = .imp)).map importName)
      exact ⟨fun h => this.subset h, fun h => this.symm.subset h⟩
    · exact List.Perm.flatMap_right _ (List.Perm.append_left _ (List.Perm.swap ..))
  | elide l r e k hc hcom hk hkc hkn =>
    refine ⟨?_, ?_, ?_⟩
    · intro q hQ
      simp [List.filter_append, List.filter_cons, class_not_import hQ hc]
    · intro n
      simp only [ofCls, List.filter_append, List.filter_cons, hc, decide_true, if_true, List.map_append,
        List.map_cons, List.mem_append, List.mem_cons]
      constructor
      · rintro (h | h)
        · exact Or.inl h
        · exact Or.inr (Or.inr h)
      · rintro (h | h | h)
        · exact Or.inl h
        · subst h
          rw [← hkn]
          have : k ∈ List.filter (fun x => decide (cls x = Cls.imp)) (l ++ r) :=
            List.mem_filter.mpr ⟨hk, by simp [hkc]⟩
          rw [List.filter_append] at this
          rcases List.mem_append.mp this with h | h
          · exact Or.inl (List.mem_map_of_mem h)
          · exact Or.inr (List.mem_map_of_mem h)
        · exact Or.inr h
    · simp only [anchors, List.flatMap_append, List.flatMap_cons, stmtAnchors_nil_of_no_comments e hcom,
        List.nil_append]
      exact List.Perm.refl _

theorem HSteps.sound {a b : List Stmt} (h : HSteps a b) : SameMeaning a b := by
  induction h with
  | refl => exact SameMeaning.refl _
  | step s _ ih => exact s.sound.trans ih

/-! ### example texts used by the non-vacuity examples of Props/C07 -/

/-- a real run: imports sorted (the trailing comment travels with its import), `<>` → `{}`, the
    separator `,` dropped and its trailing comment moved to the value, empty statement dropped -/
def exIn : Str := "import \"b\";import \"a\"; // ia\noption x={a:1, // s\n b<>};;message M{int32 a=1; // ta\n /* lb */ int32 b=2;}".toList
def exOut : Str := "import \"a\"; // ia\nimport \"b\";\n\noption x = {\n  a: 1 // s\n  b: {}\n};\n\nmessage M {\n  int32 a = 1; // ta\n  /* lb */\n  int32 b = 2;\n}\n".toList


/-- `import "a";` and `message M {}` as statements -/
def exStmtA : Stmt := [⟨⟨.ident, "import".toList⟩, [], []⟩, ⟨⟨.str, "\"a\"".toList⟩, [], []⟩, ⟨sym ";", [], []⟩]
def exStmtB : Stmt := [⟨⟨.ident, "message".toList⟩, [], []⟩, ⟨⟨.ident, "M".toList⟩, [], []⟩, ⟨sym "{", [], []⟩, ⟨sym "}", [], []⟩]

instance (a b : Stmt) : Decidable (conflict a b) := by unfold conflict; infer_instance

/-! ### the byte order mark (protocompile newLexer) -/

theorem step_bom (cs : Str) : step bomChar cs = (⟨.sym, [bomChar]⟩, cs) := by
  have h1 : isWs bomChar = false := by decide
  have h2 : isLetter bomChar = false := by decide
  have h3 : isDigit bomChar = false := by decide
  have h4 : ¬ bomChar = '.' := by decide
  have h5 : ¬ bomChar = '"' := by decide
  have h6 : ¬ bomChar = '\'' := by decide
  have h7 : ¬ bomChar = '/' := by decide
  unfold step
  simp [h1, h2, h3, h4, h5, h6, h7]

/-- without the lexer's rule a byte order mark would be a symbol token of its own (so a text with
    one is never `validFormat`-related to its real output: `bom_needs_stripping_counterexample`) -/
theorem lex_bom (cs : Str) : lex (bomChar :: cs) = ⟨.sym, [bomChar]⟩ :: lex cs := by
  unfold lex
  simp only [List.length_cons, lexAux, step_bom]

end BufModel.Format
