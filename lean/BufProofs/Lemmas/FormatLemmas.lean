import BufModel.Format
/-
  Helper lemmas for C07: lexer round trip / progress, the stable insertion sort, the key order.
-/
namespace BufModel.Format

/-! ### lexer -/

theorem lexAux_roundtrip (n : Nat) (s : Str) : (lexAux n s).flatMap (·.text) = s := by
  induction n generalizing s with
  | zero => cases s <;> simp [lexAux]
  | succ n ih =>
    cases s with
    | nil => simp [lexAux]
    | cons c cs =>
      obtain ⟨a, h1, h2⟩ := step_spec c cs
      simp [lexAux, ih, h1, h2]

theorem lexAux_no_fuel (n : Nat) (s : Str) (h : s.length ≤ n) :
    ∀ t ∈ lexAux n s, t.kind ≠ .fuel ∧ t.text ≠ [] := by
  induction n generalizing s with
  | zero =>
    cases s with
    | nil => simp [lexAux]
    | cons c cs => simp at h
  | succ n ih =>
    cases s with
    | nil => simp [lexAux]
    | cons c cs =>
      intro t ht
      simp only [lexAux, List.mem_cons] at ht
      rcases ht with rfl | ht
      · refine ⟨step_kind_ne_fuel c cs, ?_⟩
        obtain ⟨a, h1, _⟩ := step_spec c cs
        simp [h1]
      · exact ih _ (by have := step_length c cs; simp at h; omega) t ht

/-! ### key order -/

theorem lexLt_irrefl (a : List Nat) : lexLt a a = false := by
  induction a with
  | nil => rfl
  | cons x xs ih => simp [lexLt, ih]

theorem lexLt_asymm : ∀ (a b : List Nat), lexLt a b = true → lexLt b a = false
  | _, [], h => by simp [lexLt] at h
  | [], _ :: _, _ => by simp [lexLt]
  | a :: as, b :: bs, h => by
    simp only [lexLt, Bool.or_eq_true, decide_eq_true_eq, Bool.and_eq_true] at h
    simp only [lexLt, Bool.or_eq_false_iff, decide_eq_false_iff_not, Bool.and_eq_false_iff]
    rcases h with h | ⟨h1, h2⟩
    · exact ⟨by omega, Or.inl (by omega)⟩
    · exact ⟨by omega, Or.inr (lexLt_asymm as bs h2)⟩

/-- negative transitivity: `≤` is transitive -/
theorem lexLt_negtrans : ∀ (a b c : List Nat), lexLt a b = false → lexLt b c = false → lexLt a c = false
  | _, _, [], _, _ => by simp [lexLt]
  | _, [], _ :: _, _, h2 => by simp [lexLt] at h2
  | [], _ :: _, _ :: _, h1, _ => by simp [lexLt] at h1
  | a :: as, b :: bs, c :: cs, h1, h2 => by
    simp only [lexLt, Bool.or_eq_false_iff, decide_eq_false_iff_not, Bool.and_eq_false_iff] at h1 h2 ⊢
    obtain ⟨h1a, h1b⟩ := h1
    obtain ⟨h2a, h2b⟩ := h2
    refine ⟨by omega, ?_⟩
    by_cases hac : a = c
    · right
      have hab : a = b := by omega
      have hbc : b = c := by omega
      have e1 : lexLt as bs = false := by rcases h1b with h | h; exact absurd hab h; exact h
      have e2 : lexLt bs cs = false := by rcases h2b with h | h; exact absurd hbc h; exact h
      exact lexLt_negtrans as bs cs e1 e2
    · exact Or.inl hac

/-! ### the stable insertion sort -/

section sort
variable {α : Type} (lt : α → α → Bool)

theorem insertBy_perm (x : α) (l : List α) : (insertBy lt x l).Perm (x :: l) := by
  induction l with
  | nil => exact List.Perm.refl _
  | cons y ys ih =>
    unfold insertBy
    by_cases h : lt y x = true
    · simp only [h, if_true]
      exact (List.Perm.cons y ih).trans (List.Perm.swap x y ys)
    · simp [h]

theorem isort_perm (l : List α) : (isort lt l).Perm l := by
  induction l with
  | nil => exact List.Perm.refl _
  | cons x xs ih =>
    show (insertBy lt x (isort lt xs)).Perm (x :: xs)
    exact (insertBy_perm lt x _).trans (List.Perm.cons x ih)

/-- inserting into a list keeps, for a class `p` closed under "not strictly smaller", the order -/
theorem insertBy_filter (p : α → Bool) (x : α) (l : List α)
    (h : ∀ y, lt y x = true → p x = true → p y = false) :
    (insertBy lt x l).filter p = (x :: l).filter p := by
  induction l with
  | nil => rfl
  | cons y ys ih =>
    unfold insertBy
    by_cases hyx : lt y x = true
    · simp only [hyx, if_true]
      by_cases hpx : p x = true
      · have hpy := h y hyx hpx
        simp [hpy, hpx] at ih ⊢
        exact ih
      · simp [List.filter_cons, hpx] at ih ⊢
        rw [ih]
    · simp [hyx]

/-- STABILITY: for every class of mutually "equal" elements the sort keeps the source order -/
theorem isort_filter (p : α → Bool) (l : List α)
    (h : ∀ x y, lt y x = true → p x = true → p y = false) :
    (isort lt l).filter p = l.filter p := by
  induction l with
  | nil => rfl
  | cons x xs ih =>
    show (insertBy lt x (isort lt xs)).filter p = (x :: xs).filter p
    rw [insertBy_filter lt p x _ (h x)]
    simp [List.filter_cons, ih]

theorem isort_of_sorted (l : List α) (h : Sorted lt l) : isort lt l = l := by
  induction l with
  | nil => rfl
  | cons x xs ih =>
    have hx := List.pairwise_cons.mp h
    show insertBy lt x (isort lt xs) = x :: xs
    rw [ih hx.2]
    cases xs with
    | nil => rfl
    | cons y ys =>
      have : lt y x = false := hx.1 y (List.mem_cons_self ..)
      simp [insertBy, this]

theorem insertBy_sorted (x : α) (l : List α)
    (asymm : ∀ a b, lt a b = true → lt b a = false)
    (negtrans : ∀ a b c, lt a b = false → lt b c = false → lt a c = false)
    (h : Sorted lt l) : Sorted lt (insertBy lt x l) := by
  induction l with
  | nil => simp [insertBy, Sorted]
  | cons y ys ih =>
    have hy := List.pairwise_cons.mp h
    unfold insertBy
    by_cases hyx : lt y x = true
    · simp only [hyx, if_true]
      refine List.pairwise_cons.mpr ⟨?_, ih hy.2⟩
      intro z hz
      have hz' := (insertBy_perm lt x ys).subset hz
      rcases List.mem_cons.mp hz' with rfl | hz''
      · exact asymm _ _ hyx
      · exact hy.1 z hz''
    · simp only [hyx]
      have hyx' : lt y x = false := by simpa using hyx
      refine List.pairwise_cons.mpr ⟨?_, h⟩
      intro z hz
      rcases List.mem_cons.mp hz with rfl | hz'
      · exact hyx'
      · exact negtrans z y x (hy.1 z hz') hyx'

theorem isort_sorted (l : List α)
    (asymm : ∀ a b, lt a b = true → lt b a = false)
    (negtrans : ∀ a b c, lt a b = false → lt b c = false → lt a c = false) :
    Sorted lt (isort lt l) := by
  induction l with
  | nil => simp [isort, Sorted]
  | cons x xs ih => exact insertBy_sorted lt x _ asymm negtrans ih

end sort

theorem ltOption_asymm (a b : Stmt) (h : ltOption a b = true) : ltOption b a = false :=
  lexLt_asymm _ _ h
theorem ltOption_negtrans (a b c : Stmt) (h1 : ltOption a b = false) (h2 : ltOption b c = false) :
    ltOption a c = false := lexLt_negtrans _ _ _ h1 h2
theorem ltImport_asymm (a b : Stmt) (h : ltImport a b = true) : ltImport b a = false :=
  lexLt_asymm _ _ h
theorem ltImport_negtrans (a b c : Stmt) (h1 : ltImport a b = false) (h2 : ltImport b c = false) :
    ltImport a c = false := lexLt_negtrans _ _ _ h1 h2

/-! ### duplicate-import elision -/

theorem elide_sublist (p : Option (List Nat)) (l : List Stmt) : (elide p l).Sublist l := by
  induction l generalizing p with
  | nil => exact List.Sublist.refl _
  | cons x xs ih =>
    unfold elide
    split
    · exact (ih _).cons x
    · exact (ih _).cons_cons x

theorem elide_idem (p : Option (List Nat)) (l : List Stmt) : elide p (elide p l) = elide p l := by
  induction l generalizing p with
  | nil => rfl
  | cons x xs ih =>
    by_cases h : (p = some (importName x) && !importHasComment x) = true
    · have e : elide p (x :: xs) = elide (some (importName x)) xs := by simp [elide, h]
      have hp : p = some (importName x) := by simp at h; exact h.1
      rw [e, hp]; exact ih _
    · have e : elide p (x :: xs) = x :: elide (some (importName x)) xs := by simp [elide, h]
      rw [e]
      have e2 : elide p (x :: elide (some (importName x)) xs) = x :: elide (some (importName x)) (elide (some (importName x)) xs) := by
        simp [elide, h]
      rw [e2, ih]

end BufModel.Format
