import BufModel.Digest
import BufProofs.Lemmas.ManifestLemmas
/-
  Helper lemmas for C08 about the module-digest model: the module-file filter is idempotent,
  the walk succeeds on a well-formed bucket, closed form of the b5 digest, dependency strings.
-/
namespace BufModel.Digest
open BufModel.Path BufModel.Manifest

/-- The invariant of a real bucket: a path → bytes map whose paths are validated
    (`storageutil.ValidatePath` on every entry point): non-empty, valid, normalized — the checks
    `NewFileNode` re-does, EXCEPT the line-feed check added by the fix (a bucket may well hold a
    file whose name contains U+000A; `NewFileNode` then refuses it). -/
def BucketOK (b : Bucket) : Prop :=
  (b.map (·.1)).Nodup ∧ ∀ e ∈ b, validateNodePathOld e.1 = .ok ()

/-- No path contains a line feed (the manifest format cannot represent one).  Since the fix this
    is no longer a hypothesis of the sensitivity theorems: it FOLLOWS from the digest
    computation having succeeded (`moduleB5_ok_noNewline`). -/
def NoNewline (b : Bucket) : Prop := ∀ e ∈ b, '\n' ∉ e.1

/-- On a real bucket without line feeds every path passes the repaired `NewFileNode`. -/
theorem nodePaths_ok {b : Bucket} (h : ∀ e ∈ b, validateNodePathOld e.1 = .ok ()) (hn : NoNewline b) :
    ∀ e ∈ b, validateNodePath e.1 = .ok () :=
  fun e he => (validateNodePath_ok_iff e.1).mpr ⟨h e he, hn e he⟩

theorem has_iff (b : Bucket) (p : Str) : has b p = true ↔ ∃ c, (p, c) ∈ b := by
  simp only [has, List.any_eq_true, decide_eq_true_eq]
  constructor
  · rintro ⟨⟨q, c⟩, hm, rfl⟩; exact ⟨c, hm⟩
  · rintro ⟨c, hm⟩; exact ⟨(p, c), hm, rfl⟩

theorem mem_filterModule {b : Bucket} {e : Entry} :
    e ∈ filterModule b ↔ e ∈ b ∧ isModuleFile (docPath b) e.1 = true := by
  simp [filterModule, List.mem_filter]

theorem isModuleFile_self (d : Str) : isModuleFile d d = true := by
  simp [isModuleFile]

theorem docPath_filterModule (b : Bucket) : docPath (filterModule b) = docPath b := by
  unfold docPath
  cases hf : docPaths.find? (has b) with
  | none =>
    have hall : ∀ d ∈ docPaths, has b d = false := by
      intro d hd
      have := List.find?_eq_none.mp hf d hd
      simpa using this
    have : docPaths.find? (has (filterModule b)) = none := by
      apply List.find?_eq_none.mpr
      intro d hd
      have hb := hall d hd
      intro hh
      rcases (has_iff _ _).mp hh with ⟨c, hc⟩
      have : has b d = true := (has_iff _ _).mpr ⟨c, (mem_filterModule.mp hc).1⟩
      rw [hb] at this; cases this
    rw [this]
  | some d0 =>
    rcases List.find?_eq_some_iff_append.mp hf with ⟨hd0, as, bs, hsplit, has_as⟩
    have hdoc : docPath b = d0 := by unfold docPath; rw [hf]; rfl
    have : docPaths.find? (has (filterModule b)) = some d0 := by
      apply List.find?_eq_some_iff_append.mpr
      refine ⟨?_, as, bs, hsplit, ?_⟩
      · rcases (has_iff _ _).mp hd0 with ⟨c, hc⟩
        apply (has_iff _ _).mpr
        exact ⟨c, mem_filterModule.mpr ⟨hc, by rw [hdoc]; exact isModuleFile_self d0⟩⟩
      · intro a ha
        have hna := has_as a ha
        simp only [Bool.not_eq_true'] at hna ⊢
        apply Bool.eq_false_iff.mpr
        intro hh
        rcases (has_iff _ _).mp hh with ⟨c, hc⟩
        have : has b a = true := (has_iff _ _).mpr ⟨c, (mem_filterModule.mp hc).1⟩
        rw [hna] at this; cases this
    rw [this]

/-- The "extreme defensive" second application of the matcher changes nothing. -/
theorem filterModule_idem (b : Bucket) : filterModule (filterModule b) = filterModule b := by
  have h := docPath_filterModule b
  show (filterModule b).filter (fun e => isModuleFile (docPath (filterModule b)) e.1) = _
  rw [h]
  unfold filterModule
  rw [List.filter_filter]
  simp

theorem BucketOK.filter {b : Bucket} (h : BucketOK b) : BucketOK (filterModule b) := by
  refine ⟨?_, fun e he => h.2 e (mem_filterModule.mp he).1⟩
  exact (List.Sublist.map _ (List.filter_sublist (l := b))).nodup h.1

theorem NoNewline.filter {b : Bucket} (h : NoNewline b) : NoNewline (filterModule b) :=
  fun e he => h e (mem_filterModule.mp he).1

/-- the file nodes of a walk -/
def nodesOf (H : Bytes → Digest) (b : Bucket) : List FileNode := b.map (fun e => ⟨e.1, H e.2⟩)

theorem nodesOf_paths (H : Bytes → Digest) (b : Bucket) :
    (nodesOf H b).map (·.path) = b.map (·.1) := by
  simp [nodesOf, List.map_map, Function.comp_def]

theorem walkNodes_ok (H : Bytes → Digest) (b : Bucket)
    (h : ∀ e ∈ b, validateNodePath e.1 = .ok ()) : walkNodes H b = .ok (nodesOf H b) := by
  induction b with
  | nil => rfl
  | cons e rest ih =>
    obtain ⟨p, c⟩ := e
    have h1 := newFileNode_ok (H c) (h (p, c) (by simp))
    simp only [walkNodes, h1, ih (fun x hx => h x (by simp [hx]))]
    rfl

/-- A successful walk means every path passed the repaired `NewFileNode` (in particular none
    contains a line feed), and its result is `nodesOf`. -/
theorem walkNodes_eq_ok (H : Bytes → Digest) : ∀ (b : Bucket) (ns : List FileNode),
    walkNodes H b = .ok ns → (∀ e ∈ b, validateNodePath e.1 = .ok ()) ∧ ns = nodesOf H b
  | [], ns, h => by
    simp only [walkNodes, Except.ok.injEq] at h
    subst h; exact ⟨(by intro e he; cases he), rfl⟩
  | (p, c) :: rest, ns, h => by
    simp only [walkNodes] at h
    cases hn : newFileNode p (H c) with
    | error e => rw [hn] at h; cases h
    | ok n =>
      rw [hn] at h
      cases hr : walkNodes H rest with
      | error e => rw [hr] at h; cases h
      | ok ms =>
        rw [hr] at h
        simp only [Except.ok.injEq] at h
        obtain ⟨ih1, ih2⟩ := walkNodes_eq_ok H rest ms hr
        obtain ⟨hv, hn'⟩ := newFileNode_eq_ok hn
        subst h
        refine ⟨?_, ?_⟩
        · intro e he
          rcases List.mem_cons.mp he with rfl | he
          · exact hv
          · exact ih1 e he
        · rw [hn', ih2]; rfl

/-- On a real bucket (bucket-level checks passed) the only way the walk can fail is a line feed
    in a path, and then it fails with exactly that error whatever the walk order. -/
theorem walkNodes_err_newline (H : Bytes → Digest) : ∀ (b : Bucket),
    (∀ e ∈ b, validateNodePathOld e.1 = .ok ()) → ¬ NoNewline b → walkNodes H b = .error .pathLineFeed
  | [], _, hn => absurd (fun e he => by cases he) hn
  | (p, c) :: rest, hv, hn => by
    have hp := validateNodePath_of_old (hv (p, c) (by simp))
    by_cases hnl : '\n' ∈ p
    · have : newFileNode p (H c) = .error .pathLineFeed := by
        unfold newFileNode; rw [hp, if_pos hnl]
      simp only [walkNodes, this]
    · have h1 : newFileNode p (H c) = .ok ⟨p, H c⟩ := by
        unfold newFileNode; rw [hp, if_neg hnl]
      have hrest : ¬ NoNewline rest := by
        intro hr
        apply hn
        intro e he
        rcases List.mem_cons.mp he with rfl | he
        · exact hnl
        · exact hr e he
      have ih := walkNodes_err_newline H rest (fun e he => hv e (by simp [he])) hrest
      simp only [walkNodes, h1, ih]

/-- the manifest of the module files of a bucket -/
def moduleManifest (H : Bytes → Digest) (raw : Bucket) : Manifest :=
  sortBy pathLe (nodesOf H (filterModule raw))

theorem filesDigest_eq (H : Bytes → Digest) (raw : Bucket) (h : BucketOK raw)
    (hn : NoNewline (filterModule raw)) :
    filesDigest H (filterModule raw) = .ok (H (utf8 (manifestString (moduleManifest H raw)))) := by
  have hf := h.filter
  unfold filesDigest
  rw [filterModule_idem, walkNodes_ok H _ (nodePaths_ok hf.2 hn)]
  show manifestDigest H (nodesOf H (filterModule raw)) = _
  unfold manifestDigest
  rw [newManifest_of_nodup _ (by rw [nodesOf_paths]; exact hf.1)]
  rfl

theorem manifestText_eq (H : Bytes → Digest) (raw : Bucket) (h : BucketOK raw)
    (hn : NoNewline (filterModule raw)) :
    manifestText H (filterModule raw) = manifestString (moduleManifest H raw) := by
  have hf := h.filter
  unfold manifestText
  rw [filterModule_idem, walkNodes_ok H _ (nodePaths_ok hf.2 hn)]
  simp only []
  rw [newManifest_of_nodup _ (by rw [nodesOf_paths]; exact hf.1)]
  rfl

/-! ### dependency digest strings -/

theorem depStrings_eq (deps : List MDigest) :
    depStrings deps =
      if deps.all (fun d => d.type = .b5) then .ok (deps.map mdigestString) else .error .depDigestType := by
  induction deps with
  | nil => rfl
  | cons d ds ih =>
    unfold depStrings
    by_cases hd : d.type = .b5
    · rw [if_neg (by simpa using hd), ih]
      by_cases hall : ds.all (fun d => decide (d.type = .b5)) = true
      · simp [hall, hd]
      · simp [hall, hd]
    · simp [hd]

theorem strLe_total (a b : Str) : strLe a b = true ∨ strLe b a = true := by
  simp only [strLe, decide_eq_true_eq]; exact List.le_total _ _

theorem strLe_trans (a b c : Str) (h1 : strLe a b = true) (h2 : strLe b c = true) : strLe a c = true := by
  simp only [strLe, decide_eq_true_eq] at *; exact List.le_trans h1 h2

theorem strLe_antisymm {a b : Str} (h1 : strLe a b = true) (h2 : strLe b a = true) : a = b := by
  simp only [strLe, decide_eq_true_eq] at *; exact List.le_antisymm h1 h2

theorem sortStr_eq_of_perm {l₁ l₂ : List Str} (h : l₁.Perm l₂) : sortBy strLe l₁ = sortBy strLe l₂ :=
  sortBy_eq_of_perm strLe strLe_total strLe_trans h (fun _ _ _ _ h1 h2 => strLe_antisymm h1 h2)

/-- facts about the regenerated digest type names -/
theorem dtypeName_plain : ∀ t : DType, ∀ c ∈ t.name, c ≠ '\n' ∧ c ≠ ':' := by
  intro t; cases t <;> decide

theorem dtypeName_inj : ∀ a b : DType, a.name = b.name → a = b := by
  intro a b; cases a <;> cases b <;> decide

theorem mdigestString_no_newline (d : MDigest) : '\n' ∉ mdigestString d := by
  intro hm
  simp only [mdigestString, List.mem_append, List.mem_cons] at hm
  rcases hm with h | h | h
  · exact (dtypeName_plain _ _ h).1 rfl
  · exact absurd h (by decide)
  · exact (hexEncode_plain _ _ h).2.1 rfl

theorem mdigestString_inj {a b : MDigest} (h : mdigestString a = mdigestString b) : a = b := by
  have ha : cutC ':' (mdigestString a) = some (a.type.name, hexEncode a.digest.val) :=
    cutC_append ':' _ (fun hm => (dtypeName_plain _ _ hm).2 rfl) _
  have hb : cutC ':' (mdigestString b) = some (b.type.name, hexEncode b.digest.val) :=
    cutC_append ':' _ (fun hm => (dtypeName_plain _ _ hm).2 rfl) _
  rw [h, hb] at ha
  have h2 := Option.some.inj ha
  have ht : a.type = b.type := (dtypeName_inj _ _ (congrArg Prod.fst h2).symm)
  have hv : a.digest = b.digest := Subtype.ext (hexEncode_inj (congrArg Prod.snd h2).symm)
  cases a; cases b; simp_all

theorem digestString_no_newline (d : Digest) : '\n' ∉ digestString d :=
  fun hm => (digestString_plain d _ hm).2 rfl

/-- Closed form of `Module.Digest(b5)` on a well-formed bucket whose module files have no line
    feed in their paths. -/
theorem moduleB5_eq (H : Bytes → Digest) (raw : Bucket) (deps : List MDigest) (h : BucketOK raw)
    (hn : NoNewline (filterModule raw))
    (hd : deps.all (fun d => d.type = .b5) = true) :
    moduleB5 H raw deps = .ok ⟨.b5, H (utf8 (b5Preimage (H (utf8 (manifestString (moduleManifest H raw))))
      (sortBy strLe (deps.map mdigestString))))⟩ := by
  unfold moduleB5 b5ForDepDigests
  rw [filesDigest_eq H raw h hn, depStrings_eq, if_pos hd]

theorem moduleB5_err (H : Bytes → Digest) (raw : Bucket) (deps : List MDigest) (h : BucketOK raw)
    (hn : NoNewline (filterModule raw))
    (hd : deps.all (fun d => d.type = .b5) = false) :
    moduleB5 H raw deps = .error .depDigestType := by
  unfold moduleB5 b5ForDepDigests
  rw [filesDigest_eq H raw h hn, depStrings_eq, hd]
  rfl

/-- THE REPAIRED BEHAVIOUR: a module file whose path contains a line feed makes the b5 digest
    an error (`pathLineFeed`), whatever the dependency digests and the walk order — never a
    digest over an ambiguous manifest. -/
theorem moduleB5_newline_err (H : Bytes → Digest) (raw : Bucket) (deps : List MDigest) (h : BucketOK raw)
    (hn : ¬ NoNewline (filterModule raw)) :
    moduleB5 H raw deps = .error .pathLineFeed := by
  have hf := h.filter
  unfold moduleB5 b5ForDepDigests filesDigest
  rw [filterModule_idem, walkNodes_err_newline H _ hf.2 hn]

/-- A SUCCESSFUL b5 computation implies that every module file passed the repaired
    `NewFileNode`; in particular no module-file path contains a line feed.  (No hypothesis on the
    bucket.) -/
theorem moduleB5_ok_paths {H : Bytes → Digest} {raw : Bucket} {deps : List MDigest} {d : MDigest}
    (h : moduleB5 H raw deps = .ok d) : ∀ e ∈ filterModule raw, validateNodePath e.1 = .ok () := by
  unfold moduleB5 b5ForDepDigests filesDigest at h
  rw [filterModule_idem] at h
  cases hw : walkNodes H (filterModule raw) with
  | error e => rw [hw] at h; cases h
  | ok ns => exact (walkNodes_eq_ok H _ ns hw).1

theorem moduleB5_ok_noNewline {H : Bytes → Digest} {raw : Bucket} {deps : List MDigest} {d : MDigest}
    (h : moduleB5 H raw deps = .ok d) : NoNewline (filterModule raw) :=
  fun e he => validateNodePath_no_newline (moduleB5_ok_paths h e he)

/-- A successful b5 computation implies that every dependency digest is b5. -/
theorem moduleB5_ok_deps_b5 {H : Bytes → Digest} {raw : Bucket} {deps : List MDigest} {d : MDigest}
    (h : moduleB5 H raw deps = .ok d) : deps.all (fun d => d.type = .b5) = true := by
  unfold moduleB5 b5ForDepDigests at h
  cases hf : filesDigest H (filterModule raw) with
  | error e => rw [hf] at h; cases h
  | ok fd =>
    rw [hf, depStrings_eq] at h
    cases hd : deps.all (fun d => decide (d.type = .b5)) with
    | true => rfl
    | false => rw [hd] at h; cases h

/-! ### the pre-fix computation agrees with the repaired one wherever no line feed occurs -/

theorem oldWalkNodes_eq (H : Bytes → Digest) : ∀ (b : Bucket), NoNewline b →
    Old.walkNodes H b = walkNodes H b
  | [], _ => rfl
  | (p, c) :: rest, hn => by
    have h1 : newFileNode p (H c) = newFileNodeOld p (H c) := newFileNode_eq_old _ (hn (p, c) (by simp))
    have ih := oldWalkNodes_eq H rest (fun e he => hn e (by simp [he]))
    simp only [Old.walkNodes, walkNodes, h1, ih]

theorem oldModuleB5_eq (H : Bytes → Digest) (raw : Bucket) (deps : List MDigest)
    (hn : NoNewline (filterModule raw)) : Old.moduleB5 H raw deps = moduleB5 H raw deps := by
  unfold Old.moduleB5 moduleB5 b5ForDepDigests Old.filesDigest filesDigest
  rw [filterModule_idem, oldWalkNodes_eq H _ hn]

theorem nodup_of_nodup_map {α β : Type} (f : α → β) {l : List α} (h : (l.map f).Nodup) : l.Nodup := by
  induction l with
  | nil => exact List.nodup_nil
  | cons a as ih =>
    rw [List.map_cons, List.nodup_cons] at h
    exact List.nodup_cons.mpr ⟨fun hm => h.1 (List.mem_map.mpr ⟨a, hm, rfl⟩), ih h.2⟩

theorem moduleManifest_congr (H : Bytes → Digest) (b₁ b₂ : Bucket) (h1 : BucketOK b₁) (h2 : BucketOK b₂)
    (hsame : ∀ e, e ∈ filterModule b₁ ↔ e ∈ filterModule b₂) :
    moduleManifest H b₁ = moduleManifest H b₂ := by
  have f1 := h1.filter
  have f2 := h2.filter
  have hperm : (filterModule b₁).Perm (filterModule b₂) :=
    (List.perm_ext_iff_of_nodup (nodup_of_nodup_map _ f1.1) (nodup_of_nodup_map _ f2.1)).mpr hsame
  have hn : (nodesOf H (filterModule b₁)).Perm (nodesOf H (filterModule b₂)) := hperm.map _
  apply sortBy_eq_of_perm pathLe pathLe_total pathLe_trans hn
  intro a b ha hb hab hba
  exact pathLe_antisymm_of_nodup (by rw [nodesOf_paths]; exact f1.1) ha hb hab hba


theorem filterModule_perm {b₁ b₂ : Bucket} (hp : b₁.Perm b₂) (e : Entry) :
    e ∈ filterModule b₁ ↔ e ∈ filterModule b₂ := by
  have hhas : ∀ p, has b₁ p = has b₂ p := by
    intro p
    apply Bool.eq_iff_iff.mpr
    rw [has_iff, has_iff]
    exact ⟨fun ⟨c, hc⟩ => ⟨c, hp.subset hc⟩, fun ⟨c, hc⟩ => ⟨c, hp.symm.subset hc⟩⟩
  have hdoc : docPath b₁ = docPath b₂ := by
    unfold docPath
    rw [show has b₁ = has b₂ from funext hhas]
  rw [mem_filterModule, mem_filterModule, hdoc]
  exact ⟨fun ⟨a, b⟩ => ⟨hp.subset a, b⟩, fun ⟨a, b⟩ => ⟨hp.symm.subset a, b⟩⟩


theorem perm_of_map_perm {α β : Type} [DecidableEq α] (f : α → β) (hf : ∀ a b, f a = f b → a = b) :
    ∀ (l₁ l₂ : List α), (l₁.map f).Perm (l₂.map f) → l₁.Perm l₂
  | [], l₂, h => by
    have : l₂.map f = [] := List.Perm.eq_nil (h.symm)
    have : l₂ = [] := List.map_eq_nil_iff.mp this
    subst this; exact List.Perm.refl _
  | a :: as, l₂, h => by
    have hm : f a ∈ l₂.map f := h.subset (by simp)
    rcases List.mem_map.mp hm with ⟨b, hb, hfb⟩
    have hab : b = a := hf _ _ hfb
    subst hab
    have hl2 : l₂.Perm (b :: l₂.erase b) := List.perm_cons_erase hb
    have h' : ((b :: as).map f).Perm ((b :: l₂.erase b).map f) := h.trans (hl2.map f)
    simp only [List.map_cons] at h'
    have := perm_of_map_perm f hf as (l₂.erase b) (List.Perm.cons_inv h')
    exact (List.Perm.cons b this).trans hl2.symm


theorem mapExcept_congr {α β ε : Type} (f g : α → Except ε β) (l : List α)
    (h : ∀ a ∈ l, f a = g a) : mapExcept f l = mapExcept g l := by
  induction l with
  | nil => rfl
  | cons a as ih =>
    simp only [mapExcept, h a (by simp), ih (fun x hx => h x (by simp [hx]))]


/-! ### b4: the module files plus the v1 buf.yaml / buf.lock object data -/

/-- the (name, data) pairs of the object data that are present -/
def objEntries (os : List (Option ObjectData)) : List Entry :=
  os.filterMap (fun o => o.map fun d => (d.name, d.data))

/-- everything a b4 digest covers: the module files and the present object data -/
def b4Entries (b : Bucket) (yaml lock : Option ObjectData) : List Entry :=
  filterModule b ++ objEntries [yaml, lock]

theorem objectNodes_ok (H : Bytes → Digest) : ∀ (os : List (Option ObjectData)) (extra : List FileNode),
    objectNodes H os = .ok extra →
    extra = nodesOf H (objEntries os) ∧ ∀ e ∈ objEntries os, validateNodePath e.1 = .ok ()
  | [], extra, h => by
    simp only [objectNodes, Except.ok.injEq] at h
    subst h; exact ⟨rfl, by intro e he; cases he⟩
  | none :: rest, extra, h => by
    simp only [objectNodes] at h
    simpa [objEntries] using objectNodes_ok H rest extra h
  | some o :: rest, extra, h => by
    simp only [objectNodes] at h
    cases hn : newFileNode o.name (H o.data) with
    | error e => rw [hn] at h; cases h
    | ok n =>
      rw [hn] at h
      cases hr : objectNodes H rest with
      | error e => rw [hr] at h; cases h
      | ok ns =>
        rw [hr] at h
        simp only [Except.ok.injEq] at h
        obtain ⟨ih1, ih2⟩ := objectNodes_ok H rest ns hr
        have hne := newFileNode_eq_ok hn
        subst h
        refine ⟨?_, ?_⟩
        · simp only [objEntries, List.filterMap_cons, Option.map_some, nodesOf, List.map_cons]
          rw [show ns = nodesOf H (objEntries rest) from ih1]
          simp only [nodesOf, objEntries, List.cons.injEq, and_true]
          cases n; simp_all
        · intro e he
          simp only [objEntries, List.filterMap_cons, Option.map_some, List.mem_cons] at he
          rcases he with rfl | he
          · exact hne.1
          · exact ih2 e he

/-- closed form of a successful `Module.Digest(b4)` -/
theorem moduleB4_eq_ok (H : Bytes → Digest) (raw : Bucket) (yaml lock : Option ObjectData) (h : BucketOK raw)
    (d : MDigest) (hd : moduleB4 H raw yaml lock = .ok d) :
    ((nodesOf H (b4Entries raw yaml lock)).map (·.path)).Nodup ∧
    (∀ e ∈ b4Entries raw yaml lock, validateNodePath e.1 = .ok ()) ∧
    d = ⟨.b4, H (utf8 (manifestString (sortBy pathLe (nodesOf H (b4Entries raw yaml lock)))))⟩ ∧
    b4ManifestText H (filterModule raw) yaml lock =
      manifestString (sortBy pathLe (nodesOf H (b4Entries raw yaml lock))) := by
  have hf := h.filter
  unfold moduleB4 b4Digest at hd
  rw [filterModule_idem] at hd
  have hwv : ∀ e ∈ filterModule raw, validateNodePath e.1 = .ok () := by
    cases hw : walkNodes H (filterModule raw) with
    | error e => rw [hw] at hd; cases hd
    | ok ns => exact (walkNodes_eq_ok H _ ns hw).1
  rw [walkNodes_ok H _ hwv] at hd
  simp only [] at hd
  cases ho : objectNodes H [yaml, lock] with
  | error e => rw [ho] at hd; cases hd
  | ok extra =>
    rw [ho] at hd
    simp only [] at hd
    obtain ⟨hx, hv⟩ := objectNodes_ok H _ extra ho
    cases hm : manifestDigest H (nodesOf H (filterModule raw) ++ extra) with
    | error e => rw [hm] at hd; cases hd
    | ok dg =>
      rw [hm] at hd
      simp only [Except.ok.injEq] at hd
      unfold manifestDigest at hm
      cases hn : newManifest (nodesOf H (filterModule raw) ++ extra) with
      | error e => rw [hn] at hm; cases hm
      | ok m =>
        rw [hn] at hm
        simp only [Except.ok.injEq] at hm
        obtain ⟨hnd, hm2⟩ := newManifest_eq_ok hn
        have hnodes : nodesOf H (filterModule raw) ++ extra = nodesOf H (b4Entries raw yaml lock) := by
          rw [hx]; simp [nodesOf, b4Entries]
        rw [hnodes] at hnd hm2
        refine ⟨hnd, ?_, ?_, ?_⟩
        · intro e he
          rcases List.mem_append.mp he with he | he
          · exact hwv e he
          · exact hv e he
        · rw [← hd, ← hm, hm2]
        · unfold b4ManifestText
          rw [filterModule_idem, walkNodes_ok H _ hwv, ho]
          simp only []
          rw [hn, hm2]

/-! ### module sets: the digest of every module as a function of the set -/

theorem mapExcept_ok_map {α β ε : Type} (f : α → Except ε β) (g : α → β) : ∀ (l : List α),
    (∀ a ∈ l, f a = .ok (g a)) → mapExcept f l = .ok (l.map g)
  | [], _ => rfl
  | a :: as, h => by
    simp only [mapExcept, h a (by simp), mapExcept_ok_map f g as (fun x hx => h x (by simp [hx])), List.map_cons]

/-- `Module.Digest(b5)` of module `i` of the set, with the fuel the driver uses -/
def dg (H : Bytes → Digest) (ms : List Mod) (i : Nat) : Except MErr MDigest :=
  moduleDigest H ms (ms.length + 1) i

def dfltDigest : MDigest := ⟨.b5, ⟨List.replicate 64 0, by simp⟩⟩

/-- the digest value (a default where the computation fails) -/
def val (H : Bytes → Digest) (ms : List Mod) (i : Nat) : MDigest :=
  match dg H ms i with
  | .ok d => d
  | .error _ => dfltDigest

/-- the dependency digests `Module.Digest(b5)` of module `m` is computed over -/
def depDigests (H : Bytes → Digest) (ms : List Mod) (m : Mod) : List MDigest :=
  if m.isLocal then m.deps.map (val H ms) else m.pinned

/-- everything hashed when the digest of module `a` of the set is computed -/
def inputsAt (H : Bytes → Digest) (ms : List Mod) (a : Nat) : List Bytes :=
  match ms[a]? with
  | some m => b5Inputs H m.bucket (depDigests H ms m)
  | none => []

/-- A module set as ModuleSetBuilder / getModuleDeps produce it: resolved dependencies of local
    modules have smaller indices (topological numbering; acyclic), the dependency lists are
    transitively closed over local modules (ModuleDeps() "includes transitive dependencies") and
    duplicate-free, buckets are path → bytes maps with validated paths whose module files have no
    U+000A, pinned digests are b5. -/
structure SetOK (ms : List Mod) : Prop where
  topo : ∀ (i : Nat) (m : Mod), ms[i]? = some m → m.isLocal = true → ∀ j ∈ m.deps, j < i
  closed : ∀ (i : Nat) (m : Mod), ms[i]? = some m → m.isLocal = true → ∀ j ∈ m.deps, ∀ mj, ms[j]? = some mj →
    mj.isLocal = true → ∀ l ∈ mj.deps, l ∈ m.deps
  nodup : ∀ (i : Nat) (m : Mod), ms[i]? = some m → m.deps.Nodup
  bucket : ∀ (i : Nat) (m : Mod), ms[i]? = some m → BucketOK m.bucket ∧ NoNewline (filterModule m.bucket)
  pinned : ∀ (i : Nat) (m : Mod), ms[i]? = some m → m.pinned.all (fun d => d.type = .b5) = true

/-- just the numbering part of `SetOK` -/
structure SetTopo (ms : List Mod) : Prop where
  topo : ∀ (i : Nat) (m : Mod), ms[i]? = some m → m.isLocal = true → ∀ j ∈ m.deps, j < i

theorem moduleDigest_fuel_topo (H : Bytes → Digest) (ms : List Mod)
    (htopo : ∀ (i : Nat) (m : Mod), ms[i]? = some m → m.isLocal = true → ∀ j ∈ m.deps, j < i) :
    ∀ i fuel, i < fuel → moduleDigest H ms fuel i = moduleDigest H ms (i + 1) i := by
  intro i
  induction i using Nat.strongRecOn with
  | _ i ih =>
    intro fuel hf
    obtain ⟨f, rfl⟩ : ∃ f, fuel = f + 1 := ⟨fuel - 1, by omega⟩
    unfold moduleDigest
    cases hm : ms[i]? with
    | none => rfl
    | some m =>
      simp only []
      by_cases hl : m.isLocal = true
      · simp only [hl, if_true]
        have : mapExcept (moduleDigest H ms f) m.deps = mapExcept (moduleDigest H ms i) m.deps := by
          apply mapExcept_congr
          intro j hj
          have hji := htopo i m hm hl j hj
          rw [ih j hji f (by omega), ih j hji i hji]
        rw [this]
      · have hl' : m.isLocal = false := by simpa using hl
        simp only [hl']
        rfl

/-- one step of the recursion, in terms of `dg` (needs the topological numbering only) -/
theorem dg_unfold_topo (H : Bytes → Digest) (ms : List Mod)
    (htopo : ∀ (i : Nat) (m : Mod), ms[i]? = some m → m.isLocal = true → ∀ j ∈ m.deps, j < i)
    (i : Nat) (m : Mod) (hm : ms[i]? = some m) :
    dg H ms i = if m.isLocal then
        (match mapExcept (dg H ms) m.deps with
         | .error e => .error e
         | .ok ds => moduleB5 H m.bucket ds)
      else moduleB5 H m.bucket m.pinned := by
  have h : SetTopo ms := ⟨htopo⟩
  have hi : i < ms.length := (List.getElem?_eq_some_iff.mp hm).1
  unfold dg
  rw [moduleDigest]
  simp only [hm]
  by_cases hl : m.isLocal = true
  · simp only [hl, if_true]
    have : mapExcept (moduleDigest H ms ms.length) m.deps = mapExcept (fun j => moduleDigest H ms (ms.length + 1) j) m.deps := by
      apply mapExcept_congr
      intro j hj
      have hji := h.topo i m hm hl j hj
      rw [moduleDigest_fuel_topo H ms h.topo j ms.length (by omega),
        moduleDigest_fuel_topo H ms h.topo j (ms.length + 1) (by omega)]
    rw [this]
    rfl
  · have hl' : m.isLocal = false := by simpa using hl
    simp only [hl']
    rfl

theorem dg_unfold (H : Bytes → Digest) (ms : List Mod) (h : SetOK ms) (i : Nat) (m : Mod) (hm : ms[i]? = some m) :
    dg H ms i = if m.isLocal then
        (match mapExcept (dg H ms) m.deps with
         | .error e => .error e
         | .ok ds => moduleB5 H m.bucket ds)
      else moduleB5 H m.bucket m.pinned :=
  dg_unfold_topo H ms h.topo i m hm

theorem mapExcept_error_of_mem {α β ε : Type} (f : α → Except ε β) : ∀ (l : List α) (a : α),
    a ∈ l → (∃ e, f a = .error e) → ∃ e, mapExcept f l = .error e
  | [], a, h, _ => by cases h
  | x :: xs, a, h, ⟨e, he⟩ => by
    cases hx : f x with
    | error e' => exact ⟨e', by simp only [mapExcept, hx]⟩
    | ok b =>
      have ha : a ∈ xs := by
        rcases List.mem_cons.mp h with rfl | h
        · rw [he] at hx; cases hx
        · exact h
      obtain ⟨e', he'⟩ := mapExcept_error_of_mem f xs a ha ⟨e, he⟩
      exact ⟨e', by simp only [mapExcept, hx, he']⟩

/-- every module of a well-formed set has a b5 digest -/
theorem dg_ok (H : Bytes → Digest) (ms : List Mod) (h : SetOK ms) :
    ∀ (i : Nat) (m : Mod), ms[i]? = some m → ∃ d, dg H ms i = .ok d ∧ d.type = .b5 := by
  intro i
  induction i using Nat.strongRecOn with
  | _ i ih =>
    intro m hm
    have hi : i < ms.length := (List.getElem?_eq_some_iff.mp hm).1
    rw [dg_unfold H ms h i m hm]
    by_cases hl : m.isLocal = true
    · simp only [hl, if_true]
      have hdeps : ∀ j ∈ m.deps, dg H ms j = .ok (val H ms j) ∧ (val H ms j).type = .b5 := by
        intro j hj
        have hji := h.topo i m hm hl j hj
        obtain ⟨d, hd, ht⟩ := ih j hji ms[j] (List.getElem?_eq_getElem (by omega))
        have : val H ms j = d := by simp [val, hd]
        rw [this]; exact ⟨hd, ht⟩
      rw [mapExcept_ok_map _ (val H ms) m.deps (fun j hj => (hdeps j hj).1)]
      simp only []
      have hall : (m.deps.map (val H ms)).all (fun d => d.type = .b5) = true := by
        simp only [List.all_eq_true, List.mem_map, decide_eq_true_eq]
        rintro d ⟨j, hj, rfl⟩; exact (hdeps j hj).2
      rw [moduleB5_eq H m.bucket _ (h.bucket i m hm).1 (h.bucket i m hm).2 hall]
      exact ⟨_, rfl, rfl⟩
    · have hl' : m.isLocal = false := by simpa using hl
      simp only [hl', Bool.false_eq_true, if_false]
      rw [moduleB5_eq H m.bucket _ (h.bucket i m hm).1 (h.bucket i m hm).2 (h.pinned i m hm)]
      exact ⟨_, rfl, rfl⟩

theorem dg_eq_val (H : Bytes → Digest) (ms : List Mod) (h : SetOK ms) (i : Nat) (m : Mod) (hm : ms[i]? = some m) :
    dg H ms i = .ok (val H ms i) ∧ (val H ms i).type = .b5 := by
  obtain ⟨d, hd, ht⟩ := dg_ok H ms h i m hm
  have : val H ms i = d := by simp [val, hd]
  rw [this]; exact ⟨hd, ht⟩

/-- the closed form: the digest of a module is `moduleB5` of its bucket over `depDigests` -/
theorem dg_eq_moduleB5 (H : Bytes → Digest) (ms : List Mod) (h : SetOK ms) (i : Nat) (m : Mod) (hm : ms[i]? = some m) :
    dg H ms i = moduleB5 H m.bucket (depDigests H ms m) ∧
    (depDigests H ms m).all (fun d => d.type = .b5) = true := by
  rw [dg_unfold H ms h i m hm]
  unfold depDigests
  by_cases hl : m.isLocal = true
  · simp only [hl, if_true]
    have hi : i < ms.length := (List.getElem?_eq_some_iff.mp hm).1
    have hdeps : ∀ j ∈ m.deps, dg H ms j = .ok (val H ms j) ∧ (val H ms j).type = .b5 := by
      intro j hj
      have hji := h.topo i m hm hl j hj
      exact dg_eq_val H ms h j ms[j] (List.getElem?_eq_getElem (by omega))
    rw [mapExcept_ok_map _ (val H ms) m.deps (fun j hj => (hdeps j hj).1)]
    refine ⟨rfl, ?_⟩
    simp only [List.all_eq_true, List.mem_map, decide_eq_true_eq]
    rintro d ⟨j, hj, rfl⟩; exact (hdeps j hj).2
  · have hl' : m.isLocal = false := by simpa using hl
    simp only [hl', Bool.false_eq_true, if_false]
    exact ⟨trivial, h.pinned i m hm⟩

/-- the set with the bucket of module `k` replaced by `b'` -/
def withBucket (ms : List Mod) (k : Nat) (mk : Mod) (b' : Bucket) : List Mod :=
  ms.set k { mk with bucket := b' }

theorem withBucket_get_ne (ms : List Mod) (k : Nat) (mk : Mod) (b' : Bucket) {j : Nat} (h : j ≠ k) :
    (withBucket ms k mk b')[j]? = ms[j]? := List.getElem?_set_ne (fun e => h e.symm)

theorem withBucket_get_self (ms : List Mod) (k : Nat) (mk : Mod) (b' : Bucket) (hk : ms[k]? = some mk) :
    (withBucket ms k mk b')[k]? = some { mk with bucket := b' } :=
  List.getElem?_set_self (List.getElem?_eq_some_iff.mp hk).1

/-- replacing a bucket keeps the numbering -/
theorem withBucket_topo {ms : List Mod} (k : Nat) (mk : Mod) (b' : Bucket) (hk : ms[k]? = some mk)
    (htopo : ∀ (i : Nat) (m : Mod), ms[i]? = some m → m.isLocal = true → ∀ j ∈ m.deps, j < i) :
    ∀ (i : Nat) (m : Mod), (Digest.withBucket ms k mk b')[i]? = some m → m.isLocal = true → ∀ j ∈ m.deps, j < i := by
  intro i m hm hl j hj
  by_cases hik : i = k
  · subst hik
    rw [withBucket_get_self ms i mk b' hk] at hm
    simp only [Option.some.injEq] at hm
    subst hm
    exact htopo i mk hk hl j hj
  · rw [withBucket_get_ne ms k mk b' hik] at hm
    exact htopo i m hm hl j hj

/-- A module whose bucket has a line feed in a module-file path has no digest; nor has any local
    module that lists it among its (transitively closed) dependencies. -/
theorem dg_newline_err (H : Bytes → Digest) (ms : List Mod)
    (htopo : ∀ (i : Nat) (m : Mod), ms[i]? = some m → m.isLocal = true → ∀ j ∈ m.deps, j < i)
    (k : Nat) (mk : Mod) (hk : ms[k]? = some mk) (hb : BucketOK mk.bucket)
    (hn : ¬ NoNewline (filterModule mk.bucket)) :
    (∃ e, dg H ms k = .error e) ∧
    ∀ (i : Nat) (mi : Mod), ms[i]? = some mi → mi.isLocal = true → k ∈ mi.deps → ∃ e, dg H ms i = .error e := by
  have hkerr : ∃ e, dg H ms k = .error e := by
    rw [dg_unfold_topo H ms htopo k mk hk]
    by_cases hl : mk.isLocal = true
    · simp only [hl, if_true]
      cases mapExcept (dg H ms) mk.deps with
      | error e => exact ⟨e, rfl⟩
      | ok ds => exact ⟨_, moduleB5_newline_err H mk.bucket ds hb hn⟩
    · have hl' : mk.isLocal = false := by simpa using hl
      simp only [hl', Bool.false_eq_true, if_false]
      exact ⟨_, moduleB5_newline_err H mk.bucket mk.pinned hb hn⟩
  refine ⟨hkerr, ?_⟩
  intro i mi hi hil hik
  rw [dg_unfold_topo H ms htopo i mi hi]
  simp only [hil, if_true]
  obtain ⟨e, he⟩ := mapExcept_error_of_mem (dg H ms) mi.deps k hik hkerr
  rw [he]
  exact ⟨e, rfl⟩

/-- replacing a bucket by another well-formed one keeps the set well formed -/
theorem SetOK.withBucket {ms : List Mod} (h : SetOK ms) (k : Nat) (mk : Mod) (b' : Bucket) (hk : ms[k]? = some mk)
    (hb : BucketOK b') (hn : NoNewline (filterModule b')) : SetOK (withBucket ms k mk b') := by
  have get : ∀ (i : Nat) (m : Mod), (Digest.withBucket ms k mk b')[i]? = some m →
      ∃ m0, ms[i]? = some m0 ∧ m.isLocal = m0.isLocal ∧ m.deps = m0.deps ∧ m.pinned = m0.pinned ∧
        (BucketOK m.bucket ∧ NoNewline (filterModule m.bucket)) := by
    intro i m hm
    by_cases hik : i = k
    · subst hik
      rw [withBucket_get_self ms i mk b' hk] at hm
      simp only [Option.some.injEq] at hm
      subst hm
      exact ⟨mk, hk, rfl, rfl, rfl, hb, hn⟩
    · rw [withBucket_get_ne ms k mk b' hik] at hm
      exact ⟨m, hm, rfl, rfl, rfl, h.bucket i m hm⟩
  constructor
  · intro i m hm hl j hj
    obtain ⟨m0, h0, e1, e2, _, _⟩ := get i m hm
    exact h.topo i m0 h0 (e1 ▸ hl) j (e2 ▸ hj)
  · intro i m hm hl j hj mj hmj hlj l hl'
    obtain ⟨m0, h0, e1, e2, _, _⟩ := get i m hm
    obtain ⟨mj0, hj0, f1, f2, _, _⟩ := get j mj hmj
    rw [e2]
    exact h.closed i m0 h0 (e1 ▸ hl) j (e2 ▸ hj) mj0 hj0 (f1 ▸ hlj) l (f2 ▸ hl')
  · intro i m hm
    obtain ⟨m0, h0, _, e2, _, _⟩ := get i m hm
    rw [e2]; exact h.nodup i m0 h0
  · intro i m hm
    exact (get i m hm).choose_spec.2.2.2.2
  · intro i m hm
    obtain ⟨m0, h0, _, _, e3, _⟩ := get i m hm
    rw [e3]; exact h.pinned i m0 h0

/-- A module that is not `k` and does not (transitively, through local modules) depend on `k`
    keeps its digest when the bucket of `k` changes. -/
theorem dg_unchanged (H : Bytes → Digest) (ms : List Mod) (k : Nat) (mk : Mod) (b' : Bucket)
    (h1 : SetOK ms) (h2 : SetOK (withBucket ms k mk b')) :
    ∀ (j : Nat) (mj : Mod), ms[j]? = some mj → j ≠ k → (mj.isLocal = false ∨ k ∉ mj.deps) →
      dg H ms j = dg H (withBucket ms k mk b') j := by
  intro j
  induction j using Nat.strongRecOn with
  | _ j ih =>
    intro mj hmj hjk hdep
    have hmj' : (withBucket ms k mk b')[j]? = some mj := by rw [withBucket_get_ne ms k mk b' hjk]; exact hmj
    rw [dg_unfold H ms h1 j mj hmj, dg_unfold H _ h2 j mj hmj']
    by_cases hl : mj.isLocal = true
    · simp only [hl, if_true]
      have hk' : k ∉ mj.deps := by
        rcases hdep with h | h
        · rw [hl] at h; cases h
        · exact h
      have hj : j < ms.length := (List.getElem?_eq_some_iff.mp hmj).1
      have : mapExcept (dg H ms) mj.deps = mapExcept (dg H (withBucket ms k mk b')) mj.deps := by
        apply mapExcept_congr
        intro l hl'
        have hlj := h1.topo j mj hmj hl l hl'
        have hml : ms[l]? = some ms[l] := List.getElem?_eq_getElem (by omega)
        refine ih l hlj ms[l] hml (fun e => hk' (e ▸ hl')) ?_
        by_cases hll : (ms[l]).isLocal = true
        · right
          intro hkl
          exact hk' (h1.closed j mj hmj hl l hl' ms[l] hml hll k hkl)
        · left; simpa using hll
      rw [this]
    · have hl' : mj.isLocal = false := by simpa using hl
      simp only [hl', Bool.false_eq_true, if_false]

theorem countP_lt_of_imp {α : Type} (p q : α → Bool) : ∀ (l : List α),
    (∀ x ∈ l, p x = true → q x = true) → (∃ x ∈ l, q x = true ∧ p x = false) → l.countP p < l.countP q
  | [], _, h => by obtain ⟨x, hx, _⟩ := h; cases hx
  | a :: as, himp, hex => by
    have hle : as.countP p ≤ as.countP q :=
      List.countP_mono_left (fun x hx h => himp x (List.mem_cons_of_mem _ hx) h)
    simp only [List.countP_cons]
    obtain ⟨x, hx, hq, hp⟩ := hex
    rcases List.mem_cons.mp hx with rfl | hx
    · simp only [hq, hp, if_true, Bool.false_eq_true, if_false]; omega
    · have ih := countP_lt_of_imp p q as (fun y hy => himp y (List.mem_cons_of_mem _ hy)) ⟨x, hx, hq, hp⟩
      by_cases hpa : p a = true
      · simp only [hpa, himp a List.mem_cons_self hpa, if_true]; omega
      · have : p a = false := by simpa using hpa
        simp only [this, Bool.false_eq_true, if_false]
        split <;> omega

end BufModel.Digest
