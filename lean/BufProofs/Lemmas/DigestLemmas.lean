import BufModel.Digest
import BufProofs.Lemmas.ManifestLemmas
/-
  Helper lemmas for C08 about the module-digest model: the module-file filter is idempotent,
  the walk succeeds on a well-formed bucket, closed form of the b5 digest, dependency strings.
-/
namespace BufModel.Digest
open BufModel.Path BufModel.Manifest

/-- The invariant of a real bucket: a path → bytes map whose paths are validated
    (`storageutil.ValidatePath` on every entry point); exactly what `NewFileNode` re-checks. -/
def BucketOK (b : Bucket) : Prop :=
  (b.map (·.1)).Nodup ∧ ∀ e ∈ b, validateNodePath e.1 = .ok ()

/-- …and no path contains a line feed (the manifest format cannot represent one). -/
def NoNewline (b : Bucket) : Prop := ∀ e ∈ b, '\n' ∉ e.1

theorem has_iff (b : Bucket) (p : Str) : has b p = true ↔ ∃ c, (p, c) ∈ b := by
  simp only [has, List.any_eq_true, decide_eq_true_eq]
  constructor
  · rintro ⟨⟨q, c⟩, hm, rfl⟩; exact ⟨c, hm⟩
  · rintro ⟨c, hm⟩; exact ⟨(p, c), hm, rfl⟩

theorem mem_filterModule {b : Bucket} {e : Entry} :
    e ∈ filterModule b ↔ e ∈ b ∧ isModuleFile (docPath b) e.1 = true := by
  simp [filterModule, List.mem_filter]

theorem isModuleFile_self (d : Str) : isModuleFile d d = true := by
  simp [isModuleFile]

theorem docPath_filterModule (b : Bucket) : docPath (filterModule b) = docPath b := by
  unfold docPath
  cases hf : docPaths.find? (has b) with
  | none =>
    have hall : ∀ d ∈ docPaths, has b d = false := by
      intro d hd
      have := List.find?_eq_none.mp hf d hd
      simpa using this
    have : docPaths.find? (has (filterModule b)) = none := by
      apply List.find?_eq_none.mpr
      intro d hd
      have hb := hall d hd
      intro hh
      rcases (has_iff _ _).mp hh with ⟨c, hc⟩
      have : has b d = true := (has_iff _ _).mpr ⟨c, (mem_filterModule.mp hc).1⟩
      rw [hb] at this; cases this
    rw [this]
  | some d0 =>
    rcases List.find?_eq_some_iff_append.mp hf with ⟨hd0, as, bs, hsplit, has_as⟩
    have hdoc : docPath b = d0 := by unfold docPath; rw [hf]; rfl
    have : docPaths.find? (has (filterModule b)) = some d0 := by
      apply List.find?_eq_some_iff_append.mpr
      refine ⟨?_, as, bs, hsplit, ?_⟩
      · rcases (has_iff _ _).mp hd0 with ⟨c, hc⟩
        apply (has_iff _ _).mpr
        exact ⟨c, mem_filterModule.mpr ⟨hc, by rw [hdoc]; exact isModuleFile_self d0⟩⟩
      · intro a ha
        have hna := has_as a ha
        simp only [Bool.not_eq_true'] at hna ⊢
        apply Bool.eq_false_iff.mpr
        intro hh
        rcases (has_iff _ _).mp hh with ⟨c, hc⟩
        have : has b a = true := (has_iff _ _).mpr ⟨c, (mem_filterModule.mp hc).1⟩
        rw [hna] at this; cases this
    rw [this]

/-- The "extreme defensive" second application of the matcher changes nothing. -/
theorem filterModule_idem (b : Bucket) : filterModule (filterModule b) = filterModule b := by
  have h := docPath_filterModule b
  show (filterModule b).filter (fun e => isModuleFile (docPath (filterModule b)) e.1) = _
  rw [h]
  unfold filterModule
  rw [List.filter_filter]
  simp

theorem BucketOK.filter {b : Bucket} (h : BucketOK b) : BucketOK (filterModule b) := by
  refine ⟨?_, fun e he => h.2 e (mem_filterModule.mp he).1⟩
  exact (List.Sublist.map _ (List.filter_sublist (l := b))).nodup h.1

theorem NoNewline.filter {b : Bucket} (h : NoNewline b) : NoNewline (filterModule b) :=
  fun e he => h e (mem_filterModule.mp he).1

/-- the file nodes of a walk -/
def nodesOf (H : Bytes → Digest) (b : Bucket) : List FileNode := b.map (fun e => ⟨e.1, H e.2⟩)

theorem nodesOf_paths (H : Bytes → Digest) (b : Bucket) :
    (nodesOf H b).map (·.path) = b.map (·.1) := by
  simp [nodesOf, List.map_map, Function.comp_def]

theorem walkNodes_ok (H : Bytes → Digest) (b : Bucket)
    (h : ∀ e ∈ b, validateNodePath e.1 = .ok ()) : walkNodes H b = .ok (nodesOf H b) := by
  induction b with
  | nil => rfl
  | cons e rest ih =>
    obtain ⟨p, c⟩ := e
    have h1 := newFileNode_ok (H c) (h (p, c) (by simp))
    simp only [walkNodes, h1, ih (fun x hx => h x (by simp [hx]))]
    rfl

/-- the manifest of the module files of a bucket -/
def moduleManifest (H : Bytes → Digest) (raw : Bucket) : Manifest :=
  sortBy pathLe (nodesOf H (filterModule raw))

theorem filesDigest_eq (H : Bytes → Digest) (raw : Bucket) (h : BucketOK raw) :
    filesDigest H (filterModule raw) = .ok (H (utf8 (manifestString (moduleManifest H raw)))) := by
  have hf := h.filter
  unfold filesDigest
  rw [filterModule_idem, walkNodes_ok H _ hf.2]
  show manifestDigest H (nodesOf H (filterModule raw)) = _
  unfold manifestDigest
  rw [newManifest_of_nodup _ (by rw [nodesOf_paths]; exact hf.1)]
  rfl

theorem manifestText_eq (H : Bytes → Digest) (raw : Bucket) (h : BucketOK raw) :
    manifestText H (filterModule raw) = manifestString (moduleManifest H raw) := by
  have hf := h.filter
  unfold manifestText
  rw [filterModule_idem, walkNodes_ok H _ hf.2]
  simp only []
  rw [newManifest_of_nodup _ (by rw [nodesOf_paths]; exact hf.1)]
  rfl

/-! ### dependency digest strings -/

theorem depStrings_eq (deps : List MDigest) :
    depStrings deps =
      if deps.all (fun d => d.type = .b5) then .ok (deps.map mdigestString) else .error .depDigestType := by
  induction deps with
  | nil => rfl
  | cons d ds ih =>
    unfold depStrings
    by_cases hd : d.type = .b5
    · rw [if_neg (by simpa using hd), ih]
      by_cases hall : ds.all (fun d => decide (d.type = .b5)) = true
      · simp [hall, hd]
      · simp [hall, hd]
    · simp [hd]

theorem strLe_total (a b : Str) : strLe a b = true ∨ strLe b a = true := by
  simp only [strLe, decide_eq_true_eq]; exact List.le_total _ _

theorem strLe_trans (a b c : Str) (h1 : strLe a b = true) (h2 : strLe b c = true) : strLe a c = true := by
  simp only [strLe, decide_eq_true_eq] at *; exact List.le_trans h1 h2

theorem strLe_antisymm {a b : Str} (h1 : strLe a b = true) (h2 : strLe b a = true) : a = b := by
  simp only [strLe, decide_eq_true_eq] at *; exact List.le_antisymm h1 h2

theorem sortStr_eq_of_perm {l₁ l₂ : List Str} (h : l₁.Perm l₂) : sortBy strLe l₁ = sortBy strLe l₂ :=
  sortBy_eq_of_perm strLe strLe_total strLe_trans h (fun _ _ _ _ h1 h2 => strLe_antisymm h1 h2)

/-- facts about the regenerated digest type names -/
theorem dtypeName_plain : ∀ t : DType, ∀ c ∈ t.name, c ≠ '\n' ∧ c ≠ ':' := by
  intro t; cases t <;> decide

theorem dtypeName_inj : ∀ a b : DType, a.name = b.name → a = b := by
  intro a b; cases a <;> cases b <;> decide

theorem mdigestString_no_newline (d : MDigest) : '\n' ∉ mdigestString d := by
  intro hm
  simp only [mdigestString, List.mem_append, List.mem_cons] at hm
  rcases hm with h | h | h
  · exact (dtypeName_plain _ _ h).1 rfl
  · exact absurd h (by decide)
  · exact (hexEncode_plain _ _ h).2.1 rfl

theorem mdigestString_inj {a b : MDigest} (h : mdigestString a = mdigestString b) : a = b := by
  have ha : cutC ':' (mdigestString a) = some (a.type.name, hexEncode a.digest.val) :=
    cutC_append ':' _ (fun hm => (dtypeName_plain _ _ hm).2 rfl) _
  have hb : cutC ':' (mdigestString b) = some (b.type.name, hexEncode b.digest.val) :=
    cutC_append ':' _ (fun hm => (dtypeName_plain _ _ hm).2 rfl) _
  rw [h, hb] at ha
  have h2 := Option.some.inj ha
  have ht : a.type = b.type := (dtypeName_inj _ _ (congrArg Prod.fst h2).symm)
  have hv : a.digest = b.digest := Subtype.ext (hexEncode_inj (congrArg Prod.snd h2).symm)
  cases a; cases b; simp_all

theorem digestString_no_newline (d : Digest) : '\n' ∉ digestString d :=
  fun hm => (digestString_plain d _ hm).2 rfl

/-- Closed form of `Module.Digest(b5)` on a well-formed bucket. -/
theorem moduleB5_eq (H : Bytes → Digest) (raw : Bucket) (deps : List MDigest) (h : BucketOK raw)
    (hd : deps.all (fun d => d.type = .b5) = true) :
    moduleB5 H raw deps = .ok ⟨.b5, H (utf8 (b5Preimage (H (utf8 (manifestString (moduleManifest H raw))))
      (sortBy strLe (deps.map mdigestString))))⟩ := by
  unfold moduleB5 b5ForDepDigests
  rw [filesDigest_eq H raw h, depStrings_eq, if_pos hd]

theorem moduleB5_err (H : Bytes → Digest) (raw : Bucket) (deps : List MDigest) (h : BucketOK raw)
    (hd : deps.all (fun d => d.type = .b5) = false) :
    moduleB5 H raw deps = .error .depDigestType := by
  unfold moduleB5 b5ForDepDigests
  rw [filesDigest_eq H raw h, depStrings_eq, hd]
  rfl

theorem nodup_of_nodup_map {α β : Type} (f : α → β) {l : List α} (h : (l.map f).Nodup) : l.Nodup := by
  induction l with
  | nil => exact List.nodup_nil
  | cons a as ih =>
    rw [List.map_cons, List.nodup_cons] at h
    exact List.nodup_cons.mpr ⟨fun hm => h.1 (List.mem_map.mpr ⟨a, hm, rfl⟩), ih h.2⟩

theorem moduleManifest_congr (H : Bytes → Digest) (b₁ b₂ : Bucket) (h1 : BucketOK b₁) (h2 : BucketOK b₂)
    (hsame : ∀ e, e ∈ filterModule b₁ ↔ e ∈ filterModule b₂) :
    moduleManifest H b₁ = moduleManifest H b₂ := by
  have f1 := h1.filter
  have f2 := h2.filter
  have hperm : (filterModule b₁).Perm (filterModule b₂) :=
    (List.perm_ext_iff_of_nodup (nodup_of_nodup_map _ f1.1) (nodup_of_nodup_map _ f2.1)).mpr hsame
  have hn : (nodesOf H (filterModule b₁)).Perm (nodesOf H (filterModule b₂)) := hperm.map _
  apply sortBy_eq_of_perm pathLe pathLe_total pathLe_trans hn
  intro a b ha hb hab hba
  exact pathLe_antisymm_of_nodup (by rw [nodesOf_paths]; exact f1.1) ha hb hab hba


theorem filterModule_perm {b₁ b₂ : Bucket} (hp : b₁.Perm b₂) (e : Entry) :
    e ∈ filterModule b₁ ↔ e ∈ filterModule b₂ := by
  have hhas : ∀ p, has b₁ p = has b₂ p := by
    intro p
    apply Bool.eq_iff_iff.mpr
    rw [has_iff, has_iff]
    exact ⟨fun ⟨c, hc⟩ => ⟨c, hp.subset hc⟩, fun ⟨c, hc⟩ => ⟨c, hp.symm.subset hc⟩⟩
  have hdoc : docPath b₁ = docPath b₂ := by
    unfold docPath
    rw [show has b₁ = has b₂ from funext hhas]
  rw [mem_filterModule, mem_filterModule, hdoc]
  exact ⟨fun ⟨a, b⟩ => ⟨hp.subset a, b⟩, fun ⟨a, b⟩ => ⟨hp.symm.subset a, b⟩⟩


theorem perm_of_map_perm {α β : Type} [DecidableEq α] (f : α → β) (hf : ∀ a b, f a = f b → a = b) :
    ∀ (l₁ l₂ : List α), (l₁.map f).Perm (l₂.map f) → l₁.Perm l₂
  | [], l₂, h => by
    have : l₂.map f = [] := List.Perm.eq_nil (h.symm)
    have : l₂ = [] := List.map_eq_nil_iff.mp this
    subst this; exact List.Perm.refl _
  | a :: as, l₂, h => by
    have hm : f a ∈ l₂.map f := h.subset (by simp)
    rcases List.mem_map.mp hm with ⟨b, hb, hfb⟩
    have hab : b = a := hf _ _ hfb
    subst hab
    have hl2 : l₂.Perm (b :: l₂.erase b) := List.perm_cons_erase hb
    have h' : ((b :: as).map f).Perm ((b :: l₂.erase b).map f) := h.trans (hl2.map f)
    simp only [List.map_cons] at h'
    have := perm_of_map_perm f hf as (l₂.erase b) (List.Perm.cons_inv h')
    exact (List.Perm.cons b this).trans hl2.symm


theorem mapExcept_congr {α β ε : Type} (f g : α → Except ε β) (l : List α)
    (h : ∀ a ∈ l, f a = g a) : mapExcept f l = mapExcept g l := by
  induction l with
  | nil => rfl
  | cons a as ih =>
    simp only [mapExcept, h a (by simp), ih (fun x hx => h x (by simp [hx]))]


end BufModel.Digest
