import BufModel.Breaking
/-
  Helper lemmas for C03 / C04 about the pair handlers (`pairwise`), lookups in association lists
  with unique keys, flattening of nested messages, and the tag-range coverage check.
-/
namespace BufProofs.Breaking
open BufModel.Schema BufModel.Breaking

/-! ### lists -/

theorem indexed_map_snd {α : Type} (xs : List α) : (indexed xs).map (·.2) = xs := by
  unfold indexed
  simp [List.map_map, Function.comp_def]

theorem mem_indexed_snd {α : Type} {xs : List α} {p : Nat × α} (h : p ∈ indexed xs) : p.2 ∈ xs := by
  have : p.2 ∈ (indexed xs).map (·.2) := List.mem_map_of_mem h
  rwa [indexed_map_snd] at this

theorem exists_indexed_of_mem {α : Type} {xs : List α} {x : α} (h : x ∈ xs) : ∃ i, (i, x) ∈ indexed xs := by
  have : x ∈ (indexed xs).map (·.2) := by rw [indexed_map_snd]; exact h
  obtain ⟨p, hp, rfl⟩ := List.mem_map.1 this
  exact ⟨p.1, hp⟩

/-- keys are unique ⇒ an element is determined by its key -/
theorem eq_of_key_eq {α κ : Type} (key : α → κ) :
    ∀ (xs : List α), (xs.map key).Nodup → ∀ a b, a ∈ xs → b ∈ xs → key a = key b → a = b
  | [], _, _, _, ha, _, _ => by cases ha
  | x :: xs, hnd, a, b, ha, hb, hk => by
    rw [List.map_cons, List.nodup_cons] at hnd
    rcases List.mem_cons.1 ha with rfl | ha'
    · rcases List.mem_cons.1 hb with rfl | hb'
      · rfl
      · exact absurd (hk ▸ List.mem_map_of_mem hb') hnd.1
    · rcases List.mem_cons.1 hb with rfl | hb'
      · exact absurd (hk ▸ List.mem_map_of_mem ha') hnd.1
      · exact eq_of_key_eq key xs hnd.2 a b ha' hb' hk

/-- the first element with the key of a member exists, is a member and has that key -/
theorem find_key_some {α κ : Type} [DecidableEq κ] (key : α → κ) (xs : List α) (k : κ)
    (h : ∃ c ∈ xs, key c = k) : ∃ c, xs.find? (fun c => decide (key c = k)) = some c ∧ c ∈ xs ∧ key c = k := by
  obtain ⟨c0, hc0, hk0⟩ := h
  cases hf : xs.find? (fun c => decide (key c = k)) with
  | none =>
    have := List.find?_eq_none.1 hf c0 hc0
    simp [hk0] at this
  | some c =>
    refine ⟨c, rfl, List.mem_of_find?_eq_some hf, ?_⟩
    have := List.find?_some hf
    simpa using this

theorem find_key_none {α κ : Type} [DecidableEq κ] (key : α → κ) (xs : List α) (k : κ)
    (h : ∀ c ∈ xs, key c ≠ k) : xs.find? (fun c => decide (key c = k)) = none := by
  apply List.find?_eq_none.2
  intro c hc
  simp [h c hc]

theorem find_key_unique {α κ : Type} [DecidableEq κ] (key : α → κ) (xs : List α)
    (hnd : (xs.map key).Nodup) (c : α) (hc : c ∈ xs) :
    xs.find? (fun x => decide (key x = key c)) = some c := by
  obtain ⟨c', hf, hc', hk⟩ := find_key_some key xs (key c) ⟨c, hc, rfl⟩
  rw [hf, eq_of_key_eq key xs hnd c' c hc' hc hk]

/-! ### pairwise -/

theorem pairwise_eq_nil_iff {α κ : Type} [DecidableEq κ] (key : α → κ) (cur prev : List α)
    (onMissing : α → List Ann) (onPair : α → α → List Ann) :
    pairwise key cur prev onMissing onPair = [] ↔
      ∀ p ∈ prev, (match cur.find? (fun c => decide (key c = key p)) with
        | none => onMissing p
        | some c => onPair c p) = [] := by
  unfold pairwise
  exact List.flatMap_eq_nil_iff

/-- every previous element has a current counterpart with the same key on which the rule is
    silent, and current keys are unique ⇒ the pair handler is silent -/
theorem pairwise_ext_nil {α κ : Type} [DecidableEq κ] (key : α → κ) (cur prev : List α)
    (onMissing : α → List Ann) (onPair : α → α → List Ann)
    (hnd : (cur.map key).Nodup)
    (h : ∀ p ∈ prev, ∃ c ∈ cur, key c = key p ∧ onPair c p = []) :
    pairwise key cur prev onMissing onPair = [] := by
  rw [pairwise_eq_nil_iff]
  intro p hp
  obtain ⟨c, hc, hk, hnil⟩ := h p hp
  have := find_key_unique key cur hnd c hc
  rw [hk] at this
  rw [this]
  exact hnil

theorem pairwise_self_nil {α κ : Type} [DecidableEq κ] (key : α → κ) (xs : List α)
    (onMissing : α → List Ann) (onPair : α → α → List Ann)
    (hnd : (xs.map key).Nodup) (h : ∀ x ∈ xs, onPair x x = []) :
    pairwise key xs xs onMissing onPair = [] :=
  pairwise_ext_nil key xs xs onMissing onPair hnd fun p hp => ⟨p, hp, rfl, h p hp⟩

/-- membership: a previous element without counterpart contributes `onMissing` -/
theorem mem_pairwise_missing {α κ : Type} [DecidableEq κ] (key : α → κ) (cur prev : List α)
    (onMissing : α → List Ann) (onPair : α → α → List Ann) (p : α) (a : Ann)
    (hp : p ∈ prev) (hno : ∀ c ∈ cur, key c ≠ key p) (ha : a ∈ onMissing p) :
    a ∈ pairwise key cur prev onMissing onPair := by
  unfold pairwise
  refine List.mem_flatMap.2 ⟨p, hp, ?_⟩
  rw [find_key_none key cur (key p) hno]
  exact ha

/-- membership: a previous element whose key is found contributes `onPair` with the first match -/
theorem mem_pairwise_pair {α κ : Type} [DecidableEq κ] (key : α → κ) (cur prev : List α)
    (onMissing : α → List Ann) (onPair : α → α → List Ann) (p c : α) (a : Ann)
    (hp : p ∈ prev) (hf : cur.find? (fun x => decide (key x = key p)) = some c) (ha : a ∈ onPair c p) :
    a ∈ pairwise key cur prev onMissing onPair := by
  unfold pairwise
  refine List.mem_flatMap.2 ⟨p, hp, ?_⟩
  rw [hf]
  exact ha

/-- with unique current keys the counterpart is THE element with that key -/
theorem mem_pairwise_pair_unique {α κ : Type} [DecidableEq κ] (key : α → κ) (cur prev : List α)
    (onMissing : α → List Ann) (onPair : α → α → List Ann) (p c : α) (a : Ann)
    (hnd : (cur.map key).Nodup) (hp : p ∈ prev) (hc : c ∈ cur) (hk : key c = key p)
    (ha : a ∈ onPair c p) : a ∈ pairwise key cur prev onMissing onPair := by
  apply mem_pairwise_pair key cur prev onMissing onPair p c a hp _ ha
  have := find_key_unique key cur hnd c hc
  rwa [hk] at this

/-- monotonicity used by the hierarchy: if whenever the laxer handler speaks on an element the
    stricter one speaks too, then a non-silent laxer pair handler implies a non-silent stricter one -/
theorem pairwise_ne_nil_mono {α κ : Type} [DecidableEq κ] (key : α → κ) (cur prev : List α)
    (m₁ m₂ : α → List Ann) (f₁ f₂ : α → α → List Ann)
    (hm : ∀ p, m₁ p ≠ [] → m₂ p ≠ []) (hf : ∀ c p, f₁ c p ≠ [] → f₂ c p ≠ [])
    (h : pairwise key cur prev m₁ f₁ ≠ []) : pairwise key cur prev m₂ f₂ ≠ [] := by
  intro h2
  apply h
  rw [pairwise_eq_nil_iff] at h2 ⊢
  intro p hp
  have := h2 p hp
  cases hfind : cur.find? (fun c => decide (key c = key p)) with
  | none =>
    rw [hfind] at this
    simp only
    by_cases hx : m₁ p = []
    · exact hx
    · exact absurd this (hm p hx)
  | some c =>
    rw [hfind] at this
    simp only
    by_cases hx : f₁ c p = []
    · exact hx
    · exact absurd this (hf c p hx)

/-- a non-silent pair handler has a witness -/
theorem pairwise_ne_nil_elim {α κ : Type} [DecidableEq κ] (key : α → κ) (cur prev : List α)
    (onMissing : α → List Ann) (onPair : α → α → List Ann)
    (h : pairwise key cur prev onMissing onPair ≠ []) :
    ∃ p ∈ prev, (cur.find? (fun c => decide (key c = key p)) = none ∧ onMissing p ≠ []) ∨
      (∃ c, cur.find? (fun c => decide (key c = key p)) = some c ∧ onPair c p ≠ []) := by
  by_cases hall : ∀ p ∈ prev, (match cur.find? (fun c => decide (key c = key p)) with
        | none => onMissing p | some c => onPair c p) = []
  · exact absurd ((pairwise_eq_nil_iff key cur prev onMissing onPair).2 hall) h
  · obtain ⟨p, hall⟩ := Classical.not_forall.1 hall
    obtain ⟨hp, hne⟩ := Classical.not_imp.1 hall
    refine ⟨p, hp, ?_⟩
    cases hfind : cur.find? (fun c => decide (key c = key p)) with
    | none => rw [hfind] at hne; exact Or.inl ⟨rfl, hne⟩
    | some c => rw [hfind] at hne; exact Or.inr ⟨c, rfl, hne⟩

theorem pairwise_ne_nil_intro_missing {α κ : Type} [DecidableEq κ] (key : α → κ) (cur prev : List α)
    (onMissing : α → List Ann) (onPair : α → α → List Ann) (p : α) (hp : p ∈ prev)
    (hf : cur.find? (fun c => decide (key c = key p)) = none) (hne : onMissing p ≠ []) :
    pairwise key cur prev onMissing onPair ≠ [] := by
  intro h
  have := (pairwise_eq_nil_iff key cur prev onMissing onPair).1 h p hp
  rw [hf] at this
  exact hne this

theorem pairwise_ne_nil_intro_pair {α κ : Type} [DecidableEq κ] (key : α → κ) (cur prev : List α)
    (onMissing : α → List Ann) (onPair : α → α → List Ann) (p c : α) (hp : p ∈ prev)
    (hf : cur.find? (fun c => decide (key c = key p)) = some c) (hne : onPair c p ≠ []) :
    pairwise key cur prev onMissing onPair ≠ [] := by
  intro h
  have := (pairwise_eq_nil_iff key cur prev onMissing onPair).1 h p hp
  rw [hf] at this
  exact hne this

/-- `pairwise_ne_nil_mono` with the current element known to be a member -/
theorem pairwise_ne_nil_mono_mem {α κ : Type} [DecidableEq κ] (key : α → κ) (cur prev : List α)
    (m₁ m₂ : α → List Ann) (f₁ f₂ : α → α → List Ann)
    (hm : ∀ p, m₁ p ≠ [] → m₂ p ≠ []) (hf : ∀ c ∈ cur, ∀ p, f₁ c p ≠ [] → f₂ c p ≠ [])
    (h : pairwise key cur prev m₁ f₁ ≠ []) : pairwise key cur prev m₂ f₂ ≠ [] := by
  obtain ⟨p, hp, hcase⟩ := pairwise_ne_nil_elim key cur prev m₁ f₁ h
  rcases hcase with ⟨hf0, hne⟩ | ⟨c, hf0, hne⟩
  · exact pairwise_ne_nil_intro_missing key cur prev m₂ f₂ p hp hf0 (hm p hne)
  · exact pairwise_ne_nil_intro_pair key cur prev m₂ f₂ p c hp hf0
      (hf c (List.mem_of_find?_eq_some hf0) p hne)

/-! ### tag ranges -/

theorem covers_of_mem : ∀ (fuel : Nat) (rs : List Range) (lo hi : Int),
    rs.length < fuel → (∃ r ∈ rs, r.1 ≤ lo ∧ hi ≤ r.2) → covers fuel rs lo hi = true
  | 0, _, _, _, hlen, _ => by omega
  | fuel + 1, rs, lo, hi, hlen, ⟨r, hr, hlo, hhi⟩ => by
    unfold covers
    by_cases hlt : hi < lo
    · simp [hlt]
    · simp only [hlt, if_false]
      have hle : lo ≤ hi := by omega
      cases hf : rs.find? (fun r => rangeHas r lo) with
      | none =>
        have := List.find?_eq_none.1 hf r hr
        simp [rangeHas] at this
        omega
      | some q =>
        simp only
        have hq : q ∈ rs := List.mem_of_find?_eq_some hf
        have hqhas : rangeHas q lo = true := List.find?_some (p := fun r => rangeHas r lo) hf
        simp [rangeHas] at hqhas
        by_cases hdone : hi < q.2 + 1
        · -- the next call starts past hi
          cases fuel with
          | zero => simp [covers, hdone]
          | succ f => unfold covers; simp [hdone]
        · apply covers_of_mem
          · -- q itself is filtered out
            have hlt2 : (rs.filter fun x => decide (q.2 < x.2)).length < rs.length := by
              apply List.length_filter_lt_length_iff_exists.2
              exact ⟨q, hq, by simp⟩
            omega
          · refine ⟨r, ?_, ?_, hhi⟩
            · apply List.mem_filter.2
              refine ⟨hr, ?_⟩
              simp
              omega
            · omega

theorem rangeMissing_of_mem (rs : List Range) (r : Range) (h : r ∈ rs) : rangeMissing rs r = false := by
  unfold rangeMissing
  rw [covers_of_mem (rs.length + 1) rs r.1 r.2 (by omega) ⟨r, h, Int.le_refl _, Int.le_refl _⟩]
  rfl

end BufProofs.Breaking
