import BufModel.CacheDigest
import BufProofs.Lemmas.CacheLemmas
import BufProofs.Lemmas.DigestLemmas
/-
  Helper lemmas linking the C09 cache model to the C08 digest model:
  * the two models of `filepath.Ext` (`Bucket.extOf`, `Digest.ext`) are the same function;
  * `Cache.isModuleFile` = `Digest.isModuleFile (docPath b)` on buckets whose chosen
    documentation path is `buf.md` or none;
  * `toBucket` is injective / membership-preserving; `entryFiles` of an entry with distinct keys.
-/
namespace BufModel.CacheDigest
open BufModel.Path BufModel.Bucket BufModel.Manifest BufModel.Cache
open BufModel.Digest (MDigest moduleB5 filterModule docPath BucketOK NoNewline)

/-! ### `Digest.ext` = `Bucket.extOf` -/

theorem extRev_plain (a : Str) (h1 : '.' ∉ a) (h2 : '/' ∉ a) (acc : Str) : Digest.extRev a acc = [] := by
  induction a generalizing acc with
  | nil => rfl
  | cons c cs ih =>
    simp only [List.mem_cons, not_or] at h1 h2
    unfold Digest.extRev
    rw [if_neg (fun e => h2.1 e.symm), if_neg (fun e => h1.1 e.symm)]
    exact ih h1.2 h2.2 _

theorem extRev_slash (a rest : Str) (h1 : '.' ∉ a) (h2 : '/' ∉ a) (acc : Str) :
    Digest.extRev (a ++ '/' :: rest) acc = [] := by
  induction a generalizing acc with
  | nil => simp [Digest.extRev]
  | cons c cs ih =>
    simp only [List.mem_cons, not_or] at h1 h2
    show Digest.extRev (c :: (cs ++ '/' :: rest)) acc = []
    unfold Digest.extRev
    rw [if_neg (fun e => h2.1 e.symm), if_neg (fun e => h1.1 e.symm)]
    exact ih h1.2 h2.2 _

theorem extRev_dot (a rest : Str) (h1 : '.' ∉ a) (h2 : '/' ∉ a) (acc : Str) :
    Digest.extRev (a ++ '.' :: rest) acc = '.' :: (a.reverse ++ acc) := by
  induction a generalizing acc with
  | nil => simp [Digest.extRev]
  | cons c cs ih =>
    simp only [List.mem_cons, not_or] at h1 h2
    show Digest.extRev (c :: (cs ++ '.' :: rest)) acc = _
    unfold Digest.extRev
    rw [if_neg (fun e => h2.1 e.symm), if_neg (fun e => h1.1 e.symm), ih h1.2 h2.2]
    simp

theorem extGo_plain (l : Str) (h : '.' ∉ l) (acc : Option Str) : extOf.go l acc = acc := by
  induction l generalizing acc with
  | nil => rfl
  | cons c cs ih =>
    simp only [List.mem_cons, not_or] at h
    unfold extOf.go
    rw [if_neg (fun e => h.1 e.symm)]
    exact ih h.2 _

theorem extGo_dot (x y : Str) (h : '.' ∉ y) (acc : Option Str) :
    extOf.go (x ++ '.' :: y) acc = some ('.' :: y) := by
  induction x generalizing acc with
  | nil =>
    show extOf.go ('.' :: y) acc = _
    unfold extOf.go
    rw [if_pos rfl]
    exact extGo_plain y h _
  | cons c cs ih =>
    show extOf.go (c :: (cs ++ '.' :: y)) acc = _
    unfold extOf.go
    split
    · exact ih _
    · exact ih _

/-- A path is a prefix that is empty or ends in '/', followed by its last element. -/
theorem lastComp_split (p : Str) :
    ∃ pre last, p = pre ++ last ∧ '/' ∉ last ∧ (pre = [] ∨ ∃ q, pre = q ++ ['/']) ∧
      (splitSlash p).getLast? = some last := by
  by_cases hs : '/' ∈ p
  · have hr : '/' ∈ p.reverse := List.mem_reverse.mpr hs
    obtain ⟨as, bs, heq, hno⟩ := List.eq_append_cons_of_mem hr
    have hp : p = bs.reverse ++ '/' :: as.reverse := by
      have := congrArg List.reverse heq
      simpa using this
    have hno' : '/' ∉ as.reverse := fun h => hno (List.mem_reverse.mp h)
    refine ⟨bs.reverse ++ ['/'], as.reverse, by rw [hp]; simp, hno', Or.inr ⟨_, rfl⟩, ?_⟩
    rw [hp, splitSlash_append, splitSlash_comp _ hno', List.getLast?_append]
    rfl
  · exact ⟨[], p, rfl, hs, Or.inl rfl, by rw [splitSlash_comp _ hs]; rfl⟩

/-- The C13 bucket model and the C08 digest model implement `filepath.Ext` identically. -/
theorem ext_eq_extOf (p : Str) : Digest.ext p = extOf p := by
  obtain ⟨pre, last, hp, hns, hpre, hlast⟩ := lastComp_split p
  have hR : extOf p = (extOf.go last none).getD [] := by
    unfold extOf; rw [hlast]; rfl
  have hL : Digest.ext p = Digest.extRev (last.reverse ++ pre.reverse) [] := by
    unfold Digest.ext; rw [hp, List.reverse_append]
  rw [hR, hL]
  have hnsr : '/' ∉ last.reverse := fun h => hns (List.mem_reverse.mp h)
  by_cases hd : '.' ∈ last
  · have hr : '.' ∈ last.reverse := List.mem_reverse.mpr hd
    obtain ⟨as, bs, heq, hno⟩ := List.eq_append_cons_of_mem hr
    have hl : last = bs.reverse ++ '.' :: as.reverse := by
      have := congrArg List.reverse heq
      simpa using this
    have hno' : '.' ∉ as.reverse := fun h => hno (List.mem_reverse.mp h)
    have hsl : '/' ∉ as := fun h => hnsr (by rw [heq]; exact List.mem_append_left _ h)
    rw [heq, List.append_assoc, List.cons_append, extRev_dot as _ hno hsl, hl, extGo_dot _ _ hno']
    simp
  · have hdr : '.' ∉ last.reverse := fun h => hd (List.mem_reverse.mp h)
    rw [extGo_plain last hd]
    rcases hpre with rfl | ⟨q, rfl⟩
    · simp only [List.reverse_nil, List.append_nil]
      rw [extRev_plain _ hdr hnsr]; rfl
    · rw [List.reverse_append]
      show Digest.extRev (last.reverse ++ '/' :: q.reverse) [] = _
      rw [extRev_slash _ _ hdr hnsr]; rfl

/-! ### the two module-file matchers -/

theorem bufMd_mem_docPaths : "buf.md".toList ∈ Digest.docPaths := by decide
theorem nil_not_mem_docPaths : ([] : Str) ∉ Digest.docPaths := by decide

theorem docPath_nil_absent (b : Digest.Bucket) (h : docPath b = []) :
    ∀ d ∈ Digest.docPaths, Digest.has b d = false := by
  unfold Digest.docPath at h
  cases hf : Digest.docPaths.find? (Digest.has b) with
  | none =>
    intro d hd
    have := List.find?_eq_none.mp hf d hd
    simpa using this
  | some d0 =>
    rw [hf] at h
    have : d0 = [] := h
    subst this
    exact absurd (List.mem_of_find?_eq_some hf) nil_not_mem_docPaths

/-- On a bucket whose chosen documentation path is `buf.md` or none, the matcher of
    `getStorageMatcher` and `Cache.isModuleFile` agree on every (non-empty) path of the bucket. -/
theorem isModuleFile_agree (b : Digest.Bucket)
    (hdoc : docPath b = [] ∨ docPath b = "buf.md".toList) (p : Str)
    (hp : Digest.has b p = true) (hne : p ≠ []) :
    Digest.isModuleFile (docPath b) p = Cache.isModuleFile p := by
  have hexts : Digest.moduleExts = [".proto".toList] := by decide
  have hlic : Digest.licensePath = "LICENSE".toList := by decide
  unfold Digest.isModuleFile Cache.isModuleFile
  rw [hexts, hlic, ext_eq_extOf]
  simp only [List.any_cons, List.any_nil, Bool.or_false]
  congr 1
  rcases hdoc with h | h
  · rw [h]
    have hnb : p ≠ "buf.md".toList := by
      intro e
      have := docPath_nil_absent b h _ bufMd_mem_docPaths
      rw [← e, hp] at this; cases this
    rw [decide_eq_false hne, decide_eq_false hnb]
  · rw [h]

theorem toBucket_paths (fs : List (Str × Content)) : (toBucket fs).map (·.1) = fs.map (·.1) := by
  simp [toBucket, List.map_map, Function.comp_def]

theorem contentBytes_inj {a b : Content} (h : contentBytes a = contentBytes b) : a = b :=
  String.toList_inj.mp (utf8_inj h)

theorem mem_toBucket {fs : List (Str × Content)} {e : Digest.Entry} :
    e ∈ toBucket fs ↔ ∃ x ∈ fs, e = (x.1, contentBytes x.2) := by
  unfold toBucket
  rw [List.mem_map]
  exact ⟨fun ⟨x, hx, he⟩ => ⟨x, hx, he.symm⟩, fun ⟨x, hx, he⟩ => ⟨x, hx, he.symm⟩⟩

theorem mem_toBucket_pair {fs : List (Str × Content)} {p : Str} {c : Content} :
    (p, contentBytes c) ∈ toBucket fs ↔ (p, c) ∈ fs := by
  rw [mem_toBucket]
  constructor
  · rintro ⟨⟨q, d⟩, hx, he⟩
    injection he with h1 h2
    have := contentBytes_inj h2
    subst h1; subst this; exact hx
  · intro h; exact ⟨(p, c), h, rfl⟩

theorem has_toBucket {fs : List (Str × Content)} {p : Str} :
    Digest.has (toBucket fs) p = true ↔ p ∈ fs.map (·.1) := by
  rw [Digest.has_iff, List.mem_map]
  constructor
  · rintro ⟨c, hc⟩
    obtain ⟨x, hx, he⟩ := mem_toBucket.mp hc
    injection he with h1 _
    exact ⟨x, hx, h1.symm⟩
  · rintro ⟨x, hx, rfl⟩
    exact ⟨contentBytes x.2, mem_toBucket.mpr ⟨x, hx, rfl⟩⟩

/-- Same stored objects (as sets) ↔ same digest-model entries. -/
theorem toBucket_mem_iff (a b : List (Str × Content)) :
    (∀ x, x ∈ a ↔ x ∈ b) ↔ (∀ e, e ∈ toBucket a ↔ e ∈ toBucket b) := by
  constructor
  · intro h e
    rw [mem_toBucket, mem_toBucket]
    exact ⟨fun ⟨x, hx, he⟩ => ⟨x, (h x).mp hx, he⟩, fun ⟨x, hx, he⟩ => ⟨x, (h x).mpr hx, he⟩⟩
  · intro h x
    obtain ⟨p, c⟩ := x
    rw [← mem_toBucket_pair, ← mem_toBucket_pair (fs := b)]
    exact h _

/-- `ModuleData.Bucket()` serves exactly the files `getStorageMatcher` selects. -/
theorem toBucket_servedFiles (fs : List (Str × Content)) :
    toBucket (servedFiles fs) = filterModule (toBucket fs) := by
  unfold servedFiles Digest.filterModule toBucket
  rw [List.filter_map]
  rfl

theorem bucketOK_ne_nil {b : Digest.Bucket} (h : BucketOK b) : ∀ e ∈ b, e.1 ≠ [] := by
  intro e he hnil
  have := h.2 e he
  rw [hnil] at this
  simp [validateNodePathOld] at this

theorem docOnlyBufMd_iff (fs : List (Str × Content)) :
    docOnlyBufMd fs = true ↔ (docPath (toBucket fs) = [] ∨ docPath (toBucket fs) = "buf.md".toList) := by
  simp [docOnlyBufMd]

/-- Under `docOnlyBufMd` the files served are those `Cache.isModuleFile` selects. -/
theorem servedFiles_eq (fs : List (Str × Content)) (hdoc : docOnlyBufMd fs = true)
    (hne : ∀ x ∈ fs, x.1 ≠ []) :
    servedFiles fs = fs.filter (fun kv => Cache.isModuleFile kv.1) := by
  unfold servedFiles
  apply List.filter_congr
  intro x hx
  exact isModuleFile_agree _ ((docOnlyBufMd_iff fs).mp hdoc) x.1
    (has_toBucket.mpr (List.mem_map.mpr ⟨x, hx, rfl⟩)) (hne x hx)

/-- `Cache.moduleFilesOf` = the `Cache.isModuleFile` objects under files/. -/
theorem moduleFilesOf_eq (entry : Mem) :
    moduleFilesOf entry = (entryFiles entry).filter (fun kv => Cache.isModuleFile kv.1) := by
  induction entry with
  | nil => rfl
  | cons kv rest ih =>
    unfold moduleFilesOf entryFiles at *
    rw [List.filterMap_cons, List.filterMap_cons]
    cases hs : stripFiles kv.1 with
    | none => simpa using ih
    | some rel =>
      simp only []
      by_cases hm : Cache.isModuleFile rel = true
      · rw [if_pos hm, List.filter_cons_of_pos (by simpa using hm), ih]
      · rw [if_neg hm, List.filter_cons_of_neg (by simpa using hm), ih]

/-- A simpler sufficient condition. -/
theorem docOnlyBufMd_of_noOtherDocPath (fs : List (Str × Content)) (h : noOtherDocPath fs = true) :
    docOnlyBufMd fs = true := by
  rw [docOnlyBufMd_iff]
  unfold Digest.docPath
  cases hf : Digest.docPaths.find? (Digest.has (toBucket fs)) with
  | none => exact Or.inl rfl
  | some d =>
    right
    show d = _
    have hd := List.mem_of_find?_eq_some hf
    have hhas := List.find?_some hf
    obtain ⟨x, hx, hxe⟩ := List.mem_map.mp (has_toBucket.mp hhas)
    unfold noOtherDocPath at h
    have := List.all_eq_true.mp h x hx
    rw [hxe] at this
    simpa [List.contains_iff_mem, hd] using this

/-! ### `entryFiles` -/

theorem stripFiles_some {p rel : Str} (h : stripFiles p = some rel) : p = filesPrefix ++ rel := by
  unfold stripFiles at h
  split at h
  · rename_i hp
    injection h with h
    obtain ⟨t, ht⟩ := List.isPrefixOf_iff_prefix.mp hp
    rw [← ht] at h ⊢
    rw [List.drop_left] at h
    rw [h]
  · cases h

theorem mem_entryFiles {entry : Mem} {x : Str × Content} :
    x ∈ entryFiles entry ↔ (filesPrefix ++ x.1, x.2) ∈ entry := by
  unfold entryFiles
  rw [List.mem_filterMap]
  constructor
  · rintro ⟨kv, hkv, he⟩
    cases hs : stripFiles kv.1 with
    | none => rw [hs] at he; cases he
    | some rel =>
      rw [hs] at he
      injection he with he
      subst he
      have := stripFiles_some hs
      show (filesPrefix ++ rel, kv.2) ∈ entry
      rw [← this]; exact hkv
  · intro h
    refine ⟨_, h, ?_⟩
    simp only [stripFiles_prefix]

theorem entryFiles_nodup {entry : Mem} (hn : NodupKeys entry) : NodupKeys (entryFiles entry) := by
  unfold NodupKeys at *
  induction entry with
  | nil => exact List.nodup_nil
  | cons kv rest ih =>
    simp only [List.map_cons, List.nodup_cons] at hn
    unfold entryFiles
    rw [List.filterMap_cons]
    cases hs : stripFiles kv.1 with
    | none => exact ih hn.2
    | some rel =>
      simp only [List.map_cons, List.nodup_cons]
      refine ⟨?_, ih hn.2⟩
      intro hm
      obtain ⟨y, hy, hye⟩ := List.mem_map.mp hm
      have hy' := mem_entryFiles.mp hy
      apply hn.1
      rw [stripFiles_some hs, ← hye]
      exact List.mem_map.mpr ⟨_, hy', rfl⟩

/-- Two buckets with the same entries (as sets) have the same module files. -/
theorem filterModule_congr_mem {b₁ b₂ : Digest.Bucket} (h : ∀ e, e ∈ b₁ ↔ e ∈ b₂) (e : Digest.Entry) :
    e ∈ filterModule b₁ ↔ e ∈ filterModule b₂ := by
  have hhas : ∀ p, Digest.has b₁ p = Digest.has b₂ p := by
    intro p
    apply Bool.eq_iff_iff.mpr
    rw [Digest.has_iff, Digest.has_iff]
    exact ⟨fun ⟨c, hc⟩ => ⟨c, (h _).mp hc⟩, fun ⟨c, hc⟩ => ⟨c, (h _).mpr hc⟩⟩
  have hdoc : docPath b₁ = docPath b₂ := by
    unfold Digest.docPath
    rw [show Digest.has b₁ = Digest.has b₂ from funext hhas]
  rw [Digest.mem_filterModule, Digest.mem_filterModule, hdoc, h e]

theorem sameSet_iff (a b : List (Str × Content)) : sameSet a b = true ↔ ∀ x, x ∈ a ↔ x ∈ b := by
  unfold sameSet
  rw [Bool.and_eq_true, subsetOf_iff, subsetOf_iff]
  exact ⟨fun ⟨h1, h2⟩ x => ⟨h1 x, h2 x⟩, fun h => ⟨fun x => (h x).mp, fun x => (h x).mpr⟩⟩

/-- `moduleB5 … = .ok d` forces every dependency digest to be b5. -/
theorem deps_b5_of_ok {H : Bytes → Digest} {b : Digest.Bucket} {deps : List MDigest} {d : MDigest}
    (_hb : BucketOK b) (h : moduleB5 H b deps = .ok d) :
    deps.all (fun d => d.type = .b5) = true :=
  Digest.moduleB5_ok_deps_b5 h

/-! ### `load` / `loadD` as equations -/

/-- What a `.hit` of `loadD` means, read off the code path: a marker that parses to some
    dependency digests, all side files present, recomputed digest equal to the pinned one, and
    the served list is the storage-matcher selection of files/. -/
theorem loadD_hit_inv (H : Bytes → Digest) (pinned : MDigest) (depsOf : Content → Option (List MDigest))
    (sides : List Str) (entry : Mem) (got : List (Str × Content))
    (h : loadD H pinned depsOf sides entry = .hit got) :
    ∃ tok deps, entry.find markerPath = some tok ∧ depsOf tok = some deps ∧
      (sides.all fun s => (entry.find s).isSome) = true ∧
      moduleB5 H (toBucket (entryFiles entry)) deps = .ok pinned ∧
      got = servedFiles (entryFiles entry) := by
  unfold loadD at h
  cases hm : entry.find markerPath with
  | none => rw [hm] at h; cases h
  | some tok =>
    rw [hm] at h
    simp only at h
    cases hd : depsOf tok with
    | none => rw [hd] at h; cases h
    | some deps =>
      rw [hd] at h
      simp only at h
      split at h
      · cases h
      · rename_i hs
        split at h
        · rename_i hdig
          injection h with h
          exact ⟨tok, deps, rfl, hd, (by cases hb : (sides.all fun s => (entry.find s).isSome) with | true => rfl | false => rw [hb] at hs; exact absurd rfl hs), hdig, h.symm⟩
        · cases h

/-- The abstract gate of `Cache.load`, as an equation on entries with a valid marker and all
    side files. -/
theorem load_eq_gate (exp : Expected) (entry : Mem) (tok : Content)
    (hm : entry.find markerPath = some tok) (hv : markerValid tok = true)
    (hs : (exp.sides.all fun s => (entry.find s.1).isSome) = true) :
    load exp entry =
      if (sameSet (moduleFilesOf entry) (exp.files.filter fun f => Cache.isModuleFile f.1) && decide (tok = markerCanonical)) = true
      then .hit (moduleFilesOf entry) else .mismatch := by
  unfold load
  rw [hm]
  simp only [hv, hs, Bool.not_true, Bool.false_eq_true, if_false]

theorem loadD_eq_gate (H : Bytes → Digest) (pinned : MDigest) (depsOf : Content → Option (List MDigest))
    (sides : List Str) (entry : Mem) (tok : Content) (deps : List MDigest)
    (hm : entry.find markerPath = some tok) (hd : depsOf tok = some deps)
    (hs : (sides.all fun s => (entry.find s).isSome) = true) :
    loadD H pinned depsOf sides entry =
      if moduleB5 H (toBucket (entryFiles entry)) deps = .ok pinned
      then .hit (servedFiles (entryFiles entry)) else .mismatch := by
  unfold loadD
  rw [hm]
  simp only
  rw [hd]
  simp only [hs, Bool.not_true, Bool.false_eq_true, if_false]

end BufModel.CacheDigest
