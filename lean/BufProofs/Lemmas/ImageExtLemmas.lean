import BufModel.ImagePaths
import BufProofs.Lemmas.ImagePathsLemmas
/-
  Helper lemmas for the C11 extension-bit theorems (Props/C11ExtBits.lean):

  NATURALITY of the path filter: `imageWithOnlyPaths` reads only path, import flag and dependency
  list of a file and re-flags with `mark`; so it commutes with every map `φ` on files that keeps
  these three and commutes with `mark` (`BitMap`) — in particular with forgetting the
  unused-dependency indexes.
-/
namespace BufProofs.ImageExtLemmas
open BufModel.Path BufModel.ImagePaths BufProofs.ImagePathsLemmas

/-- A map on image files that the path filter cannot observe. -/
structure BitMap (φ : File → File) : Prop where
  path : ∀ f, (φ f).path = f.path
  imp : ∀ f, (φ f).isImport = f.isImport
  deps : ∀ f, (φ f).deps = f.deps
  mark : ∀ t f, mark t (φ f) = φ (mark t f)

theorem extbits_eraseUnused_bitmap : BitMap eraseUnused :=
  ⟨fun _ => rfl, fun _ => rfl, fun _ => rfl, fun _ _ => rfl⟩

section Nat
variable {φ : File → File} (hφ : BitMap φ)
include hφ

theorem extbits_paths_map (l : List File) : paths (l.map φ) = paths l := by
  unfold paths
  rw [List.map_map]
  apply List.map_congr_left
  intro f _
  exact hφ.path f

theorem extbits_getFile_map (img : List File) (p : Str) :
    getFile (img.map φ) p = (getFile img p).map φ := by
  induction img with
  | nil => rfl
  | cons g gs ih =>
    simp only [List.map_cons]
    unfold getFile
    rw [hφ.path g]
    by_cases h : g.path = p
    · rw [if_pos h, if_pos h]; rfl
    · rw [if_neg h, if_neg h]; exact ih

/-- state of the walk with the accumulator mapped -/
def mapSt (φ : File → File) (st : DState) : DState := (st.1, st.2.map φ)

theorem extbits_visit_map (img : List File) (t : List Str) (fuel : Nat) : ∀ (f : File) (st : DState),
    visit (getFile (img.map φ)) t fuel (φ f) (mapSt φ st) = mapSt φ (visit (getFile img) t fuel f st) := by
  induction fuel with
  | zero => intro f st; rfl
  | succ n ih =>
    intro f st
    rw [visit_succ, visit_succ, hφ.path f, hφ.deps f]
    show (if f.path ∈ st.1 then _ else _) = _
    by_cases hs : f.path ∈ st.1
    · rw [if_pos hs, if_pos hs]
    · rw [if_neg hs, if_neg hs]
      have hfold : ∀ (ds : List Str) (s : DState),
          ds.foldl (depStep (getFile (img.map φ)) t n) (mapSt φ s) =
            mapSt φ (ds.foldl (depStep (getFile img) t n) s) := by
        intro ds
        induction ds with
        | nil => intro s; rfl
        | cons d ds ihd =>
          intro s
          simp only [List.foldl_cons]
          have : depStep (getFile (img.map φ)) t n (mapSt φ s) d = mapSt φ (depStep (getFile img) t n s d) := by
            unfold depStep
            rw [extbits_getFile_map hφ]
            cases getFile img d with
            | none => rfl
            | some g => exact ih g s
          rw [this]
          exact ihd _
      have h0 : (f.path :: (mapSt φ st).1, (mapSt φ st).2) = mapSt φ (f.path :: st.1, st.2) := rfl
      rw [h0, hfold]
      unfold mapSt
      simp only [List.map_append, List.map_cons, List.map_nil]
      rw [hφ.mark]

theorem extbits_visitAll_map (img : List File) (t : List Str) (fuel : Nat) : ∀ (fs : List File) (st : DState),
    visitAll (getFile (img.map φ)) t fuel (fs.map φ) (mapSt φ st) =
      mapSt φ (visitAll (getFile img) t fuel fs st) := by
  intro fs
  induction fs with
  | nil => intro st; rfl
  | cons f fs ih =>
    intro st
    unfold visitAll
    simp only [List.map_cons, List.foldl_cons]
    rw [extbits_visit_map hφ]
    exact ih _

theorem extbits_newImage_map (l : List File) :
    newImage (l.map φ) = (newImage l).map (List.map φ) := by
  unfold newImage
  rw [extbits_paths_map hφ]
  cases l with
  | nil => rfl
  | cons x xs =>
    simp only [List.map_cons, List.isEmpty_cons, Bool.false_eq_true, if_false]
    split <;> rfl

theorem extbits_getImageWithImports_map (img ni : List File) :
    getImageWithImports (img.map φ) (ni.map φ) = (getImageWithImports img ni).map (List.map φ) := by
  unfold getImageWithImports
  rw [extbits_paths_map hφ, List.length_map]
  have := extbits_visitAll_map hφ img (paths ni) (img.length + 1) ni ([], [])
  have h0 : mapSt φ ([], []) = ([], []) := rfl
  rw [h0] at this
  rw [this]
  exact extbits_newImage_map hφ _

theorem extbits_excludesExist_map (img : List File) (excl : List Str) :
    excludesExist (img.map φ) excl = excludesExist img excl := by
  unfold excludesExist
  congr 1
  funext e
  rw [List.any_map]
  congr 1
  funext f
  simp only [Function.comp, hφ.path]

theorem extbits_splitPaths_map (img : List File) : ∀ (ps : List Str) (ni : List File) (pot : List Str),
    splitPaths (img.map φ) ps (ni.map φ) pot =
      (splitPaths img ps ni pot).map (fun r => (r.1.map φ, r.2)) := by
  intro ps
  induction ps with
  | nil => intro ni pot; rfl
  | cons p ps ih =>
    intro ni pot
    unfold splitPaths
    by_cases hd : p = dot
    · rw [if_pos hd, if_pos hd]; rfl
    · rw [if_neg hd, if_neg hd]
      by_cases he : ext p ≠ protoExt
      · rw [if_pos he, if_pos he]; exact ih _ _
      · rw [if_neg he, if_neg he, extbits_getFile_map hφ]
        cases getFile img p with
        | none => exact ih _ _
        | some f =>
          simp only [Option.map_some]
          rw [extbits_paths_map hφ]
          by_cases hm : p ∈ paths ni
          · rw [if_pos hm, if_pos hm]; exact ih _ _
          · rw [if_neg hm, if_neg hm]
            have : ni.map φ ++ [φ f] = (ni ++ [f]).map φ := by simp
            rw [this]; exact ih _ _

/-- state of the directory loop with the file list mapped -/
def mapDir (φ : File → File) (st : DirState) : DirState := (st.1.map φ, st.2.1, st.2.2)

theorem extbits_dirStep_map (pot excl : List Str) (st : DirState) (f : File) :
    dirStep pot excl (mapDir φ st) (φ f) = mapDir φ (dirStep pot excl st f) := by
  unfold dirStep mapDir
  simp only [hφ.path, extbits_paths_map hφ]
  split
  · rfl
  · split <;> simp

theorem extbits_dirFold_map (pot excl : List Str) : ∀ (l : List File) (st : DirState),
    (l.map φ).foldl (dirStep pot excl) (mapDir φ st) = mapDir φ (l.foldl (dirStep pot excl) st) := by
  intro l
  induction l with
  | nil => intro st; rfl
  | cons f l ih =>
    intro st
    simp only [List.map_cons, List.foldl_cons]
    rw [extbits_dirStep_map hφ]
    exact ih _

/-- **Naturality of the path filter.** -/
theorem extbits_iwop_map (img : Image) (pths excl : List Str) (allow : Bool) :
    imageWithOnlyPaths (img.map φ) pths excl allow =
      (imageWithOnlyPaths img pths excl allow).map (List.map φ) := by
  unfold imageWithOnlyPaths
  by_cases h1 : (!validUnique pths) = true
  · rw [if_pos h1, if_pos h1]; rfl
  rw [if_neg h1, if_neg h1]
  by_cases h2 : (!validUnique excl) = true
  · rw [if_pos h2, if_pos h2]; rfl
  rw [if_neg h2, if_neg h2]
  by_cases h3 : (pths.isEmpty && !excl.isEmpty) = true
  · rw [if_pos h3, if_pos h3]
    simp only [extbits_excludesExist_map hφ]
    by_cases h4 : (!allow && !excludesExist img excl) = true
    · rw [if_pos h4, if_pos h4]; rfl
    · rw [if_neg h4, if_neg h4]
      have : (img.map φ).filter (fun f => !f.isImport && !mapHas excl f.path) =
          (img.filter (fun f => !f.isImport && !mapHas excl f.path)).map φ := by
        rw [List.filter_map]
        congr 1
        apply List.filter_congr
        intro f _
        simp only [Function.comp, hφ.imp, hφ.path]
      rw [this]
      exact extbits_getImageWithImports_map hφ _ _
  rw [if_neg h3, if_neg h3]
  by_cases h5 : (pths.any fun p => excl.contains p) = true
  · rw [if_pos h5, if_pos h5]; rfl
  rw [if_neg h5, if_neg h5]
  have hsp := extbits_splitPaths_map hφ img pths [] []
  simp only [List.map_nil] at hsp
  rw [hsp]
  cases splitPaths img pths [] [] with
  | error e => rfl
  | ok r =>
    obtain ⟨ni, pot⟩ := r
    simp only [Except.map]
    by_cases h6 : pot.isEmpty = true
    · rw [if_pos h6, if_pos h6]
      simp only [extbits_excludesExist_map hφ]
      by_cases h4 : (!allow && !excludesExist img excl) = true
      · rw [if_pos h4, if_pos h4]
      · rw [if_neg h4, if_neg h4]
        exact extbits_getImageWithImports_map hφ _ _
    · rw [if_neg h6, if_neg h6]
      have hfold := extbits_dirFold_map hφ pot excl img (ni, [], [])
      have h0 : mapDir φ (ni, [], []) = (ni.map φ, [], []) := rfl
      rw [h0] at hfold
      simp only [hfold]
      have e1 : (mapDir φ (img.foldl (dirStep pot excl) (ni, [], []))).2.1 = (img.foldl (dirStep pot excl) (ni, [], [])).2.1 := rfl
      have e2 : (mapDir φ (img.foldl (dirStep pot excl) (ni, [], []))).2.2 = (img.foldl (dirStep pot excl) (ni, [], [])).2.2 := rfl
      have e3 : (mapDir φ (img.foldl (dirStep pot excl) (ni, [], []))).1 = (img.foldl (dirStep pot excl) (ni, [], [])).1.map φ := rfl
      rw [e1, e2, e3]
      split
      · rfl
      · exact extbits_getImageWithImports_map hφ _ _

theorem extbits_filterImagePaths_map (img : Image) (pths excl : List Str) :
    filterImagePaths (img.map φ) pths excl = (filterImagePaths img pths excl).map (List.map φ) := by
  unfold filterImagePaths
  split
  · rfl
  · exact extbits_iwop_map hφ img pths excl true

end Nat

/-! ## the closure walk only ever emits re-flagged files of the image -/

section Walk
variable (img : Image) (t : List Str)

/-- `h` is a file of `img` re-flagged by `mark t`. -/
def FromImg (h : File) : Prop := ∃ g ∈ img, h = mark t g

theorem extbits_visit_from (fuel : Nat) : ∀ (f : File) (st : DState), f ∈ img →
    (∀ h ∈ st.2, FromImg img t h) →
    ∀ h ∈ (visit (getFile img) t fuel f st).2, FromImg img t h := by
  induction fuel with
  | zero => intro f st _ hst; exact hst
  | succ n ih =>
    intro f st hf hst
    rw [visit_succ]
    by_cases hs : f.path ∈ st.1
    · rw [if_pos hs]; exact hst
    · rw [if_neg hs]
      have hfold : ∀ (ds : List Str) (s : DState), (∀ h ∈ s.2, FromImg img t h) →
          ∀ h ∈ (ds.foldl (depStep (getFile img) t n) s).2, FromImg img t h := by
        intro ds
        induction ds with
        | nil => intro s hs'; exact hs'
        | cons d ds ihd =>
          intro s hs'
          simp only [List.foldl_cons]
          apply ihd
          unfold depStep
          cases hg : getFile img d with
          | none => exact hs'
          | some g => exact ih g s (getFile_some hg).1 hs'
      intro h hh
      rcases List.mem_append.mp hh with hh | hh
      · exact hfold f.deps (f.path :: st.1, st.2) hst h hh
      · have : h = mark t f := by simpa using hh
        exact ⟨f, hf, this⟩

theorem extbits_visitAll_from (fuel : Nat) : ∀ (fs : List File) (st : DState), (∀ f ∈ fs, f ∈ img) →
    (∀ h ∈ st.2, FromImg img t h) →
    ∀ h ∈ (visitAll (getFile img) t fuel fs st).2, FromImg img t h := by
  intro fs
  induction fs with
  | nil => intro st _ hst; exact hst
  | cons f fs ih =>
    intro st hsub hst
    unfold visitAll
    simp only [List.foldl_cons]
    exact ih _ (fun g hg => hsub g (List.mem_cons_of_mem _ hg))
      (extbits_visit_from img t fuel f st (hsub f (by simp)) hst)

end Walk

theorem extbits_newImage_ok {fs out : List File} (h : newImage fs = .ok out) : out = fs := by
  unfold newImage at h
  split at h
  · cases h
  · split at h
    · cases h
    · cases h; rfl

/-- `getImageWithImports` from roots that are files of the image. -/
theorem extbits_getImageWithImports_from {img : Image} {ni : List File} {out : Image}
    (hsub : ∀ f ∈ ni, f ∈ img) (h : getImageWithImports img ni = .ok out) :
    ∀ h ∈ out, FromImg img (paths ni) h := by
  unfold getImageWithImports at h
  rw [extbits_newImage_ok h]
  exact extbits_visitAll_from img (paths ni) _ ni ([], []) hsub (by intro h hh; cases hh)

theorem extbits_splitPaths_sub (img : Image) : ∀ (ps : List Str) (ni : List File) (pot : List Str)
    (ni' : List File) (pot' : List Str), (∀ g ∈ ni, g ∈ img) →
    splitPaths img ps ni pot = .ok (ni', pot') → ∀ g ∈ ni', g ∈ img := by
  intro ps
  induction ps with
  | nil =>
    intro ni pot ni' pot' hsub h
    unfold splitPaths at h
    cases h; exact hsub
  | cons p ps ih =>
    intro ni pot ni' pot' hsub h
    unfold splitPaths at h
    split at h
    · cases h
    · split at h
      · exact ih _ _ _ _ hsub h
      · split at h
        · rename_i f hg
          split at h
          · exact ih _ _ _ _ hsub h
          · refine ih _ _ _ _ ?_ h
            intro g hg'
            rcases List.mem_append.mp hg' with hg' | hg'
            · exact hsub g hg'
            · have : g = f := by simpa using hg'
              exact this ▸ (getFile_some hg).1
        · exact ih _ _ _ _ hsub h

theorem extbits_dirFold_sub (pot excl : List Str) (img0 : Image) : ∀ (l : List File) (st : DirState),
    (∀ g ∈ l, g ∈ img0) → (∀ g ∈ st.1, g ∈ img0) →
    ∀ g ∈ (l.foldl (dirStep pot excl) st).1, g ∈ img0 := by
  intro l
  induction l with
  | nil => intro st _ hst; exact hst
  | cons f l ih =>
    intro st hl hst
    simp only [List.foldl_cons]
    apply ih _ (fun g hg => hl g (List.mem_cons_of_mem _ hg))
    unfold dirStep
    simp only
    split
    · exact hst
    · split
      · exact hst
      · intro g hg
        rcases List.mem_append.mp hg with hg | hg
        · exact hst g hg
        · have : g = f := by simpa using hg
          exact this ▸ hl f (by simp)

/-- The roots of every successful `imageWithOnlyPaths` call are files of the image. -/
theorem extbits_iwop_roots_sub {img : Image} {pths excl : List Str} {allow : Bool} {out : Image}
    (h : imageWithOnlyPaths img pths excl allow = .ok out) :
    ∃ ni, (∀ f ∈ ni, f ∈ img) ∧ getImageWithImports img ni = .ok out := by
  unfold imageWithOnlyPaths at h
  split at h
  · cases h
  · split at h
    · cases h
    · split at h
      · simp only at h
        split at h
        · cases h
        · exact ⟨_, fun f hf => (List.mem_filter.mp hf).1, h⟩
      · split at h
        · cases h
        · split at h
          · cases h
          · rename_i ni pot hsp
            have hsub := extbits_splitPaths_sub img pths [] [] ni pot (by intro g hg; cases hg) hsp
            split at h
            · split at h
              · cases h
              · exact ⟨ni, hsub, h⟩
            · simp only at h
              split at h
              · cases h
              · exact ⟨_, extbits_dirFold_sub pot excl img img (ni, [], []) (fun g hg => hg) hsub, h⟩


theorem extbits_except_map_ok {α β : Type} {f : α → β} {x : Except Err α} {y : β}
    (h : x.map f = .ok y) : ∃ a, x = .ok a ∧ f a = y := by
  cases x with
  | error e => cases h
  | ok a => exact ⟨a, rfl, by injection h⟩

theorem extbits_except_map_error {α β : Type} {f : α → β} {x : Except Err α} {e : Err}
    (h : x.map f = .error e) : x = .error e := by
  cases x with
  | error e' => injection h with h'; rw [h']
  | ok a => cases h

theorem extbits_erase_compilerBits (l : List File) :
    (l.map compilerBits).map eraseUnused = l.map eraseUnused := by
  rw [List.map_map]
  apply List.map_congr_left
  intro f _
  rfl


theorem extbits_mapM_mem {α β : Type} (f : α → Except Err β) : ∀ (l : List α) (out : List β),
    l.mapM f = .ok out → ∀ y ∈ out, ∃ x ∈ l, f x = .ok y := by
  intro l
  induction l with
  | nil =>
    intro out h y hy
    simp [List.mapM_nil, pure, Except.pure] at h
    subst h; cases hy
  | cons a l ih =>
    intro out h y hy
    rw [List.mapM_cons] at h
    cases hfa : f a with
    | error e => rw [hfa] at h; cases h
    | ok b =>
      rw [hfa] at h
      cases hrest : l.mapM f with
      | error e => rw [hrest] at h; cases h
      | ok bs =>
        rw [hrest] at h
        have : out = b :: bs := by cases h; rfl
        subst this
        rcases List.mem_cons.mp hy with rfl | hy
        · exact ⟨a, by simp, hfa⟩
        · obtain ⟨x, hx, hfx⟩ := ih bs hrest y hy
          exact ⟨x, List.mem_cons_of_mem _ hx, hfx⟩


theorem extbits_unusedPaths_sub (f : File) : ∀ p ∈ unusedPaths f, p ∈ f.deps := by
  intro p hp
  unfold unusedPaths at hp
  obtain ⟨i, _, hi⟩ := List.mem_filterMap.mp hp
  exact List.mem_of_getElem? hi


end BufProofs.ImageExtLemmas
