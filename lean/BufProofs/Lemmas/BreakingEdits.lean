import BufProofs.Lemmas.BreakingAdditive
/-
  The catalogue of ADDITIVE EDIT OPERATORS that `⊑ₐ` covers, as inductive relations on the schema
  datatype, one constructor per operator, applicable at any position of a list ("`a ++ x :: b`")
  and — through the congruence constructors `MsgEdit.nested`, `FileEdit.message`, … — at any
  nesting depth:

      SchemaEdit   add a file · edit one file
      FileEdit     add a top-level message / enum / service / extension · edit one of them
      MsgEdit      edit the message's own content (InfoEdit) · add a nested message · edit a nested one
      InfoEdit     add a non-required field with a fresh number · add a oneof · add / edit a nested
                   enum · add a nested extension · add a reserved range / name · add an extension range
      EnumEdit     add a value (anywhere, any number: aliases too) · add a reserved range / name
      SvcEdit      add an RPC

  `SchemaEdit.sound : SchemaEdit s s' → s ⊑ₐ s'`.  The operators act on the DATATYPE (derived facts
  included).  A source-level edit is covered by `⊑ₐ` iff its effect on the compiled descriptors is
  a composition of these operators.  Inserting a new first value into a CLOSED enum is, on the
  descriptors, `EnumEdit.addValue` PLUS a change of `Field.dflt` in every field of that enum type
  without explicit default — and "change a field record" is not in the catalogue
  (`C04.additive_first_enum_value_counterexample`).
-/
namespace BufProofs.Breaking
open BufModel.Schema BufModel.Breaking

theorem mem_insert_of_mem {α : Type} {a b : List α} {x y : α} (h : y ∈ a ++ b) : y ∈ a ++ x :: b := by
  rcases List.mem_append.1 h with h | h
  · exact List.mem_append_left _ h
  · exact List.mem_append_right _ (List.mem_cons_of_mem _ h)

theorem mem_replace_cases {α : Type} {a b : List α} {x y : α} (h : y ∈ a ++ x :: b) :
    y = x ∨ y ∈ a ∨ y ∈ b := by
  rcases List.mem_append.1 h with h | h
  · exact Or.inr (Or.inl h)
  · rcases List.mem_cons.1 h with h | h
    · exact Or.inl h
    · exact Or.inr (Or.inr h)

theorem mem_mid {α : Type} (a b : List α) (x : α) : x ∈ a ++ x :: b :=
  List.mem_append_right _ List.mem_cons_self

/-! ### enums -/

inductive EnumEdit : Enum → Enum → Prop
  | addValue (e : Enum) (a b : List EnumValue) (v : EnumValue) :
      e.values = a ++ b → EnumEdit e { e with values := a ++ v :: b }
  | addReservedRange (e : Enum) (a b : List Range) (r : Range) :
      e.reservedRanges = a ++ b → EnumEdit e { e with reservedRanges := a ++ r :: b }
  | addReservedName (e : Enum) (a b : List Name) (n : Name) :
      e.reservedNames = a ++ b → EnumEdit e { e with reservedNames := a ++ n :: b }

theorem EnumEdit.sound {e e' : Enum} (h : EnumEdit e e') : e'.name = e.name ∧ EnumExt e e' := by
  cases h with
  | addValue a b v he =>
    exact ⟨rfl, ⟨rfl, rfl, fun x hx => mem_insert_of_mem (he ▸ hx), fun _ h => h, fun _ h => h⟩⟩
  | addReservedRange a b r he =>
    exact ⟨rfl, ⟨rfl, rfl, fun _ h => h, fun x hx => mem_insert_of_mem (he ▸ hx), fun _ h => h⟩⟩
  | addReservedName a b n he =>
    exact ⟨rfl, ⟨rfl, rfl, fun _ h => h, fun _ h => h, fun x hx => mem_insert_of_mem (he ▸ hx)⟩⟩

/-! ### message content -/

inductive InfoEdit : MsgInfo → MsgInfo → Prop
  | addField (i : MsgInfo) (a b : List Field) (f : Field) :
      i.fields = a ++ b → f.label ≠ .required → (∀ g ∈ i.fields, g.number ≠ f.number) →
      InfoEdit i { i with fields := a ++ f :: b }
  | addOneof (i : MsgInfo) (a b : List Oneof) (o : Oneof) :
      i.oneofs = a ++ b → InfoEdit i { i with oneofs := a ++ o :: b }
  | addEnum (i : MsgInfo) (a b : List Enum) (e : Enum) :
      i.enums = a ++ b → InfoEdit i { i with enums := a ++ e :: b }
  | editEnum (i : MsgInfo) (a b : List Enum) (e e' : Enum) :
      i.enums = a ++ e :: b → EnumEdit e e' → InfoEdit i { i with enums := a ++ e' :: b }
  | addExtension (i : MsgInfo) (a b : List Field) (x : Field) :
      i.extensions = a ++ b → InfoEdit i { i with extensions := a ++ x :: b }
  | addReservedRange (i : MsgInfo) (a b : List Range) (r : Range) :
      i.reservedRanges = a ++ b → InfoEdit i { i with reservedRanges := a ++ r :: b }
  | addReservedName (i : MsgInfo) (a b : List Name) (n : Name) :
      i.reservedNames = a ++ b → InfoEdit i { i with reservedNames := a ++ n :: b }
  | addExtensionRange (i : MsgInfo) (a b : List Range) (r : Range) :
      i.extRanges = a ++ b → InfoEdit i { i with extRanges := a ++ r :: b }

theorem InfoEdit.sound {i i' : MsgInfo} (h : InfoEdit i i') : InfoExt i i' := by
  have r := InfoExt.refl i
  cases h with
  | addField a b f hi hreq hfresh =>
    exact { r with
      fields := fun g hg => mem_insert_of_mem (hi ▸ hg)
      fresh := fun g hg => by
        rcases mem_replace_cases hg with rfl | hg | hg
        · exact Or.inr ⟨hreq, hfresh⟩
        · exact Or.inl (hi ▸ List.mem_append_left _ hg)
        · exact Or.inl (hi ▸ List.mem_append_right _ hg) }
  | addOneof a b o hi =>
    exact { r with oneofs := fun x hx => List.mem_map_of_mem (mem_insert_of_mem (hi ▸ hx)) }
  | addEnum a b e hi =>
    exact { r with enums := fun x hx => ⟨x, mem_insert_of_mem (hi ▸ hx), rfl, EnumExt.refl x⟩ }
  | editEnum a b e e' hi he =>
    exact { r with
      enums := fun x hx => by
        rw [hi] at hx
        rcases mem_replace_cases hx with rfl | hx | hx
        · exact ⟨e', mem_mid a b e', he.sound.1, he.sound.2⟩
        · exact ⟨x, List.mem_append_left _ hx, rfl, EnumExt.refl x⟩
        · exact ⟨x, List.mem_append_right _ (List.mem_cons_of_mem _ hx), rfl, EnumExt.refl x⟩ }
  | addExtension a b x hi => exact { r with exts := fun y hy => mem_insert_of_mem (hi ▸ hy) }
  | addReservedRange a b x hi => exact { r with rranges := fun y hy => mem_insert_of_mem (hi ▸ hy) }
  | addReservedName a b x hi => exact { r with rnames := fun y hy => mem_insert_of_mem (hi ▸ hy) }
  | addExtensionRange a b x hi => exact { r with extRanges := fun y hy => mem_insert_of_mem (hi ▸ hy) }

/-! ### messages (any depth) -/

inductive MsgEdit : Msg → Msg → Prop
  | info (i i' : MsgInfo) (ns : List Msg) : InfoEdit i i' → MsgEdit (.mk i ns) (.mk i' ns)
  | addNested (i : MsgInfo) (a b : List Msg) (n : Msg) : MsgEdit (.mk i (a ++ b)) (.mk i (a ++ n :: b))
  | nested (i : MsgInfo) (a b : List Msg) (n n' : Msg) :
      MsgEdit n n' → MsgEdit (.mk i (a ++ n :: b)) (.mk i (a ++ n' :: b))

theorem MsgsExt_insert (a b : List Msg) (n : Msg) : MsgsExt (a ++ b) (a ++ n :: b) :=
  MsgsExt_of_forall _ _ fun x hx => ⟨x, mem_insert_of_mem hx, MsgExt.refl x⟩

theorem MsgsExt_replace (a b : List Msg) (n n' : Msg) (h : MsgExt n n') : MsgsExt (a ++ n :: b) (a ++ n' :: b) :=
  MsgsExt_of_forall _ _ fun x hx => by
    rcases mem_replace_cases hx with rfl | hx | hx
    · exact ⟨n', mem_mid a b n', h⟩
    · exact ⟨x, List.mem_append_left _ hx, MsgExt.refl x⟩
    · exact ⟨x, List.mem_append_right _ (List.mem_cons_of_mem _ hx), MsgExt.refl x⟩

theorem MsgEdit.sound {m m' : Msg} (h : MsgEdit m m') : MsgExt m m' := by
  induction h with
  | info i i' ns hi =>
    rw [MsgExt]
    exact ⟨hi.sound, MsgsExt_of_forall _ _ fun x hx => ⟨x, hx, MsgExt.refl x⟩⟩
  | addNested i a b n =>
    rw [MsgExt]
    exact ⟨InfoExt.refl i, MsgsExt_insert a b n⟩
  | nested i a b n n' _ ih =>
    rw [MsgExt]
    exact ⟨InfoExt.refl i, MsgsExt_replace a b n n' ih⟩

/-! ### services -/

inductive SvcEdit : Service → Service → Prop
  | addMethod (s : Service) (a b : List Method) (m : Method) :
      s.methods = a ++ b → SvcEdit s { s with methods := a ++ m :: b }

theorem SvcEdit.sound {s s' : Service} (h : SvcEdit s s') : SvcExt s s' := by
  cases h with
  | addMethod a b m hs => exact ⟨rfl, fun x hx => mem_insert_of_mem (hs ▸ hx)⟩

/-! ### files -/

inductive FileEdit : File → File → Prop
  | addMessage (f : File) (a b : List Msg) (m : Msg) :
      f.messages = a ++ b → FileEdit f { f with messages := a ++ m :: b }
  | message (f : File) (a b : List Msg) (m m' : Msg) :
      f.messages = a ++ m :: b → MsgEdit m m' → FileEdit f { f with messages := a ++ m' :: b }
  | addEnum (f : File) (a b : List Enum) (e : Enum) :
      f.enums = a ++ b → FileEdit f { f with enums := a ++ e :: b }
  | enum (f : File) (a b : List Enum) (e e' : Enum) :
      f.enums = a ++ e :: b → EnumEdit e e' → FileEdit f { f with enums := a ++ e' :: b }
  | addService (f : File) (a b : List Service) (s : Service) :
      f.services = a ++ b → FileEdit f { f with services := a ++ s :: b }
  | service (f : File) (a b : List Service) (s s' : Service) :
      f.services = a ++ s :: b → SvcEdit s s' → FileEdit f { f with services := a ++ s' :: b }
  | addExtension (f : File) (a b : List Field) (x : Field) :
      f.extensions = a ++ b → FileEdit f { f with extensions := a ++ x :: b }
  /-- which source paths have a location (comments, whitespace, positions) is free -/
  | relocate (f : File) (locs : List SPath) : FileEdit f { f with locs := locs }

theorem FileEdit.sound {f f' : File} (h : FileEdit f f') : FileExt f f' := by
  have r := FileExt.refl f
  cases h with
  | addMessage a b m hf => exact { r with msgs := hf ▸ MsgsExt_insert a b m }
  | message a b m m' hf hm => exact { r with msgs := hf ▸ MsgsExt_replace a b m m' hm.sound }
  | addEnum a b e hf =>
    exact { r with enums := fun x hx => ⟨x, mem_insert_of_mem (hf ▸ hx), rfl, EnumExt.refl x⟩ }
  | enum a b e e' hf he =>
    exact { r with
      enums := fun x hx => by
        rw [hf] at hx
        rcases mem_replace_cases hx with rfl | hx | hx
        · exact ⟨e', mem_mid a b e', he.sound.1, he.sound.2⟩
        · exact ⟨x, List.mem_append_left _ hx, rfl, EnumExt.refl x⟩
        · exact ⟨x, List.mem_append_right _ (List.mem_cons_of_mem _ hx), rfl, EnumExt.refl x⟩ }
  | addService a b s hf =>
    exact { r with svcs := fun x hx => ⟨x, mem_insert_of_mem (hf ▸ hx), SvcExt.refl x⟩ }
  | service a b s s' hf hs =>
    exact { r with
      svcs := fun x hx => by
        rw [hf] at hx
        rcases mem_replace_cases hx with rfl | hx | hx
        · exact ⟨s', mem_mid a b s', hs.sound⟩
        · exact ⟨x, List.mem_append_left _ hx, SvcExt.refl x⟩
        · exact ⟨x, List.mem_append_right _ (List.mem_cons_of_mem _ hx), SvcExt.refl x⟩ }
  | addExtension a b x hf => exact { r with exts := fun y hy => mem_insert_of_mem (hf ▸ hy) }
  | relocate locs => exact ⟨rfl, rfl, rfl, rfl, r.msgs, r.enums, r.exts, r.svcs⟩

/-! ### schemas -/

inductive SchemaEdit : Schema → Schema → Prop
  | addFile (a b : List File) (f : File) : SchemaEdit (a ++ b) (a ++ f :: b)
  | file (a b : List File) (f f' : File) : FileEdit f f' → SchemaEdit (a ++ f :: b) (a ++ f' :: b)

theorem SchemaEdit.sound {s s' : Schema} (h : SchemaEdit s s') : s ⊑ₐ s' := by
  cases h with
  | addFile a b f => exact fun x hx => ⟨x, mem_insert_of_mem hx, FileExt.refl x⟩
  | file a b f f' hf =>
    intro x hx
    rcases mem_replace_cases hx with rfl | hx | hx
    · exact ⟨f', mem_mid a b f', hf.sound⟩
    · exact ⟨x, List.mem_append_left _ hx, FileExt.refl x⟩
    · exact ⟨x, List.mem_append_right _ (List.mem_cons_of_mem _ hx), FileExt.refl x⟩

/-- a sequence of additive edits -/
inductive SchemaEdits : Schema → Schema → Prop
  | refl (s : Schema) : SchemaEdits s s
  | step {a b c : Schema} : SchemaEdits a b → SchemaEdit b c → SchemaEdits a c

theorem SchemaEdits.sound {s s' : Schema} (h : SchemaEdits s s') : s ⊑ₐ s' := by
  induction h with
  | refl => exact SchemaExt.refl _
  | step _ hbc ih => exact SchemaExt.trans ih hbc.sound

end BufProofs.Breaking
