import BufProofs.Lemmas.LockLemmas
/-
  Second-pass lemmas about the shared DFS (`BufModel.Graph.dfs` / `dfsRoots`), used by C01 and
  C10 to answer the audit at theorem level:

  * `closed_reach` / `Post.reach_mem`   a successful run visits EVERYTHING reachable from a root
  * `dfs_vis_nodup`                     the visited list stays duplicate-free
  * `dfs_ne_fuel` / `dfsRoots_ne_fuel`  fuel suffices: a run never fails with `.fuel` when the
                                        fuel exceeds the number of nodes that exist
  * `dfs_error_missing`                 a `.missing a` failure names a node that is reachable from
                                        the root asked and does not exist
  * `dfsRoots_ok_of`                    success criterion (all reachable nodes exist + fuel)
  * `dfs_sets_agree`                    two runs over successor functions that agree AS SETS from
                                        root lists that agree as sets visit the same set
  * `isTopo_no_cycle`                   a list accepted by `isTopo` contains no node on a cycle
  * order lemmas for `strLe`, `sortPaths_eq_of_mem_iff`
  * `walkAll_ok`, `lsFiles_ok`          inversion of the ls-files pipeline, `lsFiles_ne_fuel`
-/
set_option linter.unusedSectionVars false
set_option linter.unusedVariables false
namespace BufModel.Graph
open BufModel.Path

section DFS2
variable {α : Type} [DecidableEq α]

/-- a set that is closed under `succ` contains everything reachable from its members. -/
theorem closed_reach {succ : α → Option (List α)} {v : List α}
    (hc : ∀ x ∈ v, ∃ cs, succ x = some cs ∧ ∀ c ∈ cs, c ∈ v) :
    ∀ a b, Reach succ a b → a ∈ v → b ∈ v := by
  intro a b hr
  induction hr with
  | refl => exact fun h => h
  | step _ hs hcm ih =>
    intro ha
    obtain ⟨cs', hs', hcl⟩ := hc _ (ih ha)
    rw [hs] at hs'; injection hs' with hs'; subst hs'
    exact hcl _ hcm

/-- a successful run from `roots` (empty start state): visited = output as sets, every visited
    node exists with all successors visited, everything reachable from a root is visited and
    everything visited is reachable from a root. -/
theorem dfsRoots_exact {succ : α → Option (List α)} {fuel : Nat} {roots vis out : List α}
    (h : dfsRoots succ fuel roots = .ok (vis, out)) :
    (∀ x, x ∈ vis ↔ x ∈ out) ∧ out.Nodup ∧
    (∀ x ∈ vis, ∃ cs, succ x = some cs ∧ ∀ c ∈ cs, c ∈ vis) ∧
    (∀ x, x ∈ vis ↔ ∃ r ∈ roots, Reach succ r x) := by
  obtain ⟨⟨new, e, m, _, nd, rch, cl, _⟩, rts⟩ := dfsRoots_post _ _ _ _ _ h
  simp only [List.nil_append] at e
  subst e
  have hm : ∀ x, x ∈ vis ↔ x ∈ out := fun x => by rw [m]; simp
  have hcl : ∀ x ∈ vis, ∃ cs, succ x = some cs ∧ ∀ c ∈ cs, c ∈ vis := fun x hx => cl x ((hm x).mp hx)
  refine ⟨hm, nd, hcl, fun x => ⟨fun hx => rch x ((hm x).mp hx), ?_⟩⟩
  rintro ⟨r, hr, hreach⟩
  exact closed_reach hcl r x hreach (rts r hr)

/-! ### the visited list stays duplicate-free -/

theorem dfs_vis_nodup (succ : α → Option (List α)) :
    ∀ (fuel : Nat) (n : α) (vis out vis' out' : List α), vis.Nodup →
      dfs succ fuel n (vis, out) = .ok (vis', out') → vis'.Nodup := by
  intro fuel
  induction fuel with
  | zero => intro n vis out vis' out' _ h; simp [dfs] at h
  | succ fuel ih =>
    intro n vis out vis' out' hnd h
    simp only [dfs] at h
    split at h
    · injection h with h; injection h with h1 h2; subst h1; exact hnd
    · rename_i hnot
      split at h
      · exact absurd h (by simp)
      · rename_i cs hs
        split at h
        · exact absurd h (by simp)
        · rename_i v1 o1 hfold
          injection h with h; injection h with h1 h2; subst h1
          have := foldE_ok_inv (dfs succ fuel) (fun s => s.1.Nodup) cs (n :: vis, out) (v1, o1)
            (List.nodup_cons.mpr ⟨hnot, hnd⟩)
            (fun c _ a b ha hb => ih c a.1 a.2 b.1 b.2 ha hb) hfold
          exact this

theorem dfsRoots_vis_nodup {succ : α → Option (List α)} {fuel : Nat} {roots vis out : List α}
    (h : dfsRoots succ fuel roots = .ok (vis, out)) : vis.Nodup :=
  foldE_ok_inv (dfs succ fuel) (fun s => s.1.Nodup) roots ([], []) (vis, out) List.nodup_nil
    (fun c _ a b ha hb => dfs_vis_nodup succ fuel c a.1 a.2 b.1 b.2 ha hb) h

/-! ### fuel suffices -/

theorem filter_len_le {β : Type} (p q : β → Bool) (h : ∀ a, p a = true → q a = true) (l : List β) :
    (l.filter p).length ≤ (l.filter q).length := by
  rw [← List.countP_eq_length_filter, ← List.countP_eq_length_filter]
  exact List.countP_mono_left (fun x _ => h x)

theorem filter_len_lt {β : Type} (p q : β → Bool) (h : ∀ a, p a = true → q a = true) :
    ∀ (l : List β) (n : β), n ∈ l → p n = false → q n = true →
      (l.filter p).length < (l.filter q).length := by
  intro l
  induction l with
  | nil => intro n hn; simp at hn
  | cons a as ih =>
    intro n hn hp hq
    rcases List.mem_cons.mp hn with rfl | hn'
    · have := filter_len_le p q h as
      rw [List.filter_cons_of_neg (by simp [hp]), List.filter_cons_of_pos hq, List.length_cons]
      omega
    · have := ih n hn' hp hq
      by_cases hpa : p a = true
      · rw [List.filter_cons_of_pos hpa, List.filter_cons_of_pos (h a hpa)]
        simp only [List.length_cons]; omega
      · rw [List.filter_cons_of_neg hpa]
        by_cases hqa : q a = true
        · rw [List.filter_cons_of_pos hqa, List.length_cons]; omega
        · rw [List.filter_cons_of_neg hqa]; exact this

theorem unvisited_mono (nodes : List α) {v v' : List α} (h : ∀ x, x ∈ v → x ∈ v') :
    unvisited nodes v' ≤ unvisited nodes v := by
  unfold unvisited
  apply filter_len_le
  intro a ha
  simp only [decide_eq_true_eq] at ha ⊢
  exact fun hv => ha (h a hv)

theorem unvisited_cons_lt (nodes : List α) {v : List α} {n : α} (hn : n ∈ nodes) (hv : n ∉ v) :
    unvisited nodes (n :: v) < unvisited nodes v := by
  unfold unvisited
  apply filter_len_lt _ _ _ nodes n hn
  · simp
  · simpa using hv
  · intro a ha
    simp only [decide_eq_true_eq] at ha ⊢
    exact fun hv => ha (List.mem_cons_of_mem _ hv)

/-- a successful `dfs` only grows the visited set. -/
theorem dfs_vis_mono {succ : α → Option (List α)} {fuel : Nat} {n : α} {vis out vis' out' : List α}
    (h : dfs succ fuel n (vis, out) = .ok (vis', out')) : ∀ x, x ∈ vis → x ∈ vis' := by
  obtain ⟨⟨new, _, m, _⟩, _⟩ := dfs_post succ fuel n vis out vis' out' h
  exact fun x hx => (m x).mpr (Or.inl hx)

/-- Fuel suffices: if every existing node is listed in `nodes` and the fuel exceeds the number
    of listed nodes not yet visited, `dfs` never runs out of fuel. -/
theorem dfs_ne_fuel (succ : α → Option (List α)) (nodes : List α)
    (hex : ∀ x, succ x ≠ none → x ∈ nodes) :
    ∀ (fuel : Nat) (n : α) (vis out : List α), unvisited nodes vis < fuel →
      dfs succ fuel n (vis, out) ≠ .error .fuel := by
  intro fuel
  induction fuel with
  | zero => intro n vis out h; omega
  | succ fuel ih =>
    intro n vis out hlt h
    simp only [dfs] at h
    split at h
    · cases h
    · rename_i hnot
      split at h
      · cases h
      · rename_i cs hs
        have hn : n ∈ nodes := hex n (by rw [hs]; simp)
        have hlt' : unvisited nodes (n :: vis) < fuel := by
          have := unvisited_cons_lt nodes hn hnot
          omega
        have hfold : ∀ (cs : List α) (s : List α × List α), unvisited nodes s.1 < fuel →
            foldE (dfs succ fuel) cs s ≠ .error .fuel := by
          intro cs
          induction cs with
          | nil => intro s _ hh; simp [foldE] at hh
          | cons c cs ihc =>
            intro s hs hh
            simp only [foldE] at hh
            split at hh
            · rename_i e heq
              injection hh with hh; subst hh
              exact ih c s.1 s.2 hs heq
            · rename_i s1 heq
              have hm := dfs_vis_mono (vis := s.1) (out := s.2) (vis' := s1.1) (out' := s1.2) heq
              have := unvisited_mono nodes hm
              exact ihc s1 (by omega) hh
        split at h
        · rename_i e heq
          injection h with h; subst h
          exact hfold cs (n :: vis, out) hlt' heq
        · cases h

theorem dfsRoots_ne_fuel (succ : α → Option (List α)) (nodes : List α)
    (hex : ∀ x, succ x ≠ none → x ∈ nodes) (fuel : Nat) (roots : List α) (hf : nodes.length < fuel) :
    dfsRoots succ fuel roots ≠ .error .fuel := by
  have hfold : ∀ (cs : List α) (s : List α × List α),
      foldE (dfs succ fuel) cs s ≠ .error .fuel := by
    intro cs
    induction cs with
    | nil => intro s hh; simp [foldE] at hh
    | cons c cs ihc =>
      intro s hh
      simp only [foldE] at hh
      split at hh
      · rename_i e heq
        injection hh with hh; subst hh
        refine dfs_ne_fuel succ nodes hex fuel c s.1 s.2 ?_ heq
        have : unvisited nodes s.1 ≤ nodes.length := by
          unfold unvisited; exact List.length_filter_le _ _
        omega
      · exact ihc _ hh
  exact hfold roots ([], [])

/-! ### a `.missing` failure is real -/

theorem dfs_error_missing (succ : α → Option (List α)) :
    ∀ (fuel : Nat) (n : α) (s : List α × List α) (a : α),
      dfs succ fuel n s = .error (.missing a) → Reach succ n a ∧ succ a = none := by
  intro fuel
  induction fuel with
  | zero => intro n s a h; simp [dfs] at h
  | succ fuel ih =>
    intro n s a h
    obtain ⟨vis, out⟩ := s
    simp only [dfs] at h
    split at h
    · cases h
    · split at h
      · rename_i hs
        injection h with h; injection h with h; subst h
        exact ⟨Reach.refl _, hs⟩
      · rename_i cs hs
        split at h
        · rename_i e heq
          injection h with h; subst h
          obtain ⟨c, hc, s', _, hf⟩ := foldE_error_inv (dfs succ fuel) (fun _ => True) cs (n :: vis, out) _
            trivial (fun _ _ _ _ _ _ => trivial) heq
          obtain ⟨hr, hn⟩ := ih c s' a hf
          exact ⟨Reach.head hs hc hr, hn⟩
        · cases h

theorem dfsRoots_error_missing {succ : α → Option (List α)} {fuel : Nat} {roots : List α} {a : α}
    (h : dfsRoots succ fuel roots = .error (.missing a)) :
    (∃ r ∈ roots, Reach succ r a) ∧ succ a = none := by
  obtain ⟨c, hc, s', _, hf⟩ := foldE_error_inv (dfs succ fuel) (fun _ => True) roots ([], []) _
    trivial (fun _ _ _ _ _ _ => trivial) h
  obtain ⟨hr, hn⟩ := dfs_error_missing succ fuel c s' a hf
  exact ⟨⟨c, hc, hr⟩, hn⟩

/-- success criterion: enough fuel and every node reachable from a root exists. -/
theorem dfsRoots_ok_of (succ : α → Option (List α)) (nodes : List α)
    (hex : ∀ x, succ x ≠ none → x ∈ nodes) (fuel : Nat) (roots : List α) (hf : nodes.length < fuel)
    (hall : ∀ r ∈ roots, ∀ x, Reach succ r x → succ x ≠ none) :
    ∃ vis out, dfsRoots succ fuel roots = .ok (vis, out) := by
  cases h : dfsRoots succ fuel roots with
  | ok s => exact ⟨s.1, s.2, rfl⟩
  | error e =>
    cases e with
    | fuel => exact absurd h (dfsRoots_ne_fuel succ nodes hex fuel roots hf)
    | missing a =>
      obtain ⟨⟨r, hr, hreach⟩, hn⟩ := dfsRoots_error_missing h
      exact absurd hn (hall r hr a hreach)

/-! ### two runs that agree as sets -/

/-- Two successful runs of the shared DFS — different successor functions, different fuels,
    different root LISTS — visit the same set, provided the root lists have the same members and
    wherever both successor functions are defined their successor lists have the same members
    (order and multiplicity may differ). -/
theorem dfs_sets_agree (s1 s2 : α → Option (List α)) (f1 f2 : Nat) (r1 r2 v1 o1 v2 o2 : List α)
    (hroots : ∀ x, x ∈ r1 ↔ x ∈ r2)
    (hagree : ∀ x a b, s1 x = some a → s2 x = some b → ∀ c, c ∈ a ↔ c ∈ b)
    (h1 : dfsRoots s1 f1 r1 = .ok (v1, o1)) (h2 : dfsRoots s2 f2 r2 = .ok (v2, o2)) :
    ∀ x, x ∈ v1 ↔ x ∈ v2 := by
  obtain ⟨_, _, c1, e1⟩ := dfsRoots_exact h1
  obtain ⟨_, _, c2, e2⟩ := dfsRoots_exact h2
  -- everything reachable along `sa` from a member of a `sb`-closed set `v` that is also …
  have key : ∀ (sa sb : α → Option (List α)) (v : List α),
      (∀ x ∈ v, ∃ cs, sb x = some cs ∧ ∀ c ∈ cs, c ∈ v) →
      (∀ x a b, sa x = some a → sb x = some b → ∀ c, c ∈ a → c ∈ b) →
      ∀ a b, Reach sa a b → a ∈ v → b ∈ v := by
    intro sa sb v hcl hag a b hr
    induction hr with
    | refl => exact fun h => h
    | step _ hs hcm ih =>
      intro ha
      obtain ⟨cs', hs', hcl'⟩ := hcl _ (ih ha)
      exact hcl' _ (hag _ _ _ hs hs' _ hcm)
  intro x
  constructor
  · intro hx
    obtain ⟨r, hr, hreach⟩ := (e1 x).mp hx
    exact key s1 s2 v2 c2 (fun x a b ha hb c hc => (hagree x a b ha hb c).mp hc) r x hreach
      ((e2 r).mpr ⟨r, (hroots r).mp hr, Reach.refl r⟩)
  · intro hx
    obtain ⟨r, hr, hreach⟩ := (e2 x).mp hx
    exact key s2 s1 v1 c1 (fun x a b ha hb c hc => (hagree x b a hb ha c).mpr hc) r x hreach
      ((e1 r).mpr ⟨r, (hroots r).mpr hr, Reach.refl r⟩)

/-! ### a list accepted by `isTopo` holds no node of a cycle -/

/-- the static half of `isTopo_sound` needed here: for any split, the successors of the split
    element are listed before it. -/
theorem isTopo_split (succ : α → Option (List α)) :
    ∀ (l pre : List α), isTopo succ pre l = true →
      ∀ l1 x l2, l = l1 ++ x :: l2 → ∃ cs, succ x = some cs ∧ ∀ c ∈ cs, c ∈ pre ++ l1 := by
  intro l
  induction l with
  | nil => intro pre _ l1 x l2 h; simp at h
  | cons y ys ih =>
    intro pre h l1 x l2 hl
    simp only [isTopo, Bool.and_eq_true] at h
    obtain ⟨h1, h2⟩ := h
    cases l1 with
    | nil =>
      simp only [List.nil_append, List.cons.injEq] at hl
      obtain ⟨rfl, rfl⟩ := hl
      split at h1
      · exact absurd h1 (by simp)
      · rename_i cs hs
        refine ⟨cs, hs, ?_⟩
        intro c hc
        have := List.all_eq_true.mp h1 c hc
        simpa using this
    | cons z zs =>
      simp only [List.cons_append, List.cons.injEq] at hl
      obtain ⟨rfl, hl⟩ := hl
      obtain ⟨cs, hs, hc⟩ := ih (pre ++ [y]) h2 zs x l2 hl
      exact ⟨cs, hs, fun c hcc => by have := hc c hcc; simpa [List.append_assoc] using this⟩

/-- If the order check accepts `l`, no listed node lies on a cycle: a successor `c` of a listed
    node `x` never reaches `x` again. -/
theorem isTopo_no_cycle (succ : α → Option (List α)) (l : List α) (h : isTopo succ [] l = true)
    (x : α) (hx : x ∈ l) (cs : List α) (c : α) (hs : succ x = some cs) (hc : c ∈ cs) :
    ¬ Reach succ c x := by
  intro hr
  obtain ⟨l1, l2, hl, hnot⟩ := List.eq_append_cons_of_mem hx
  -- the prefix `l1` is closed under `succ`
  have hclosed : ∀ y ∈ l1, ∃ cs, succ y = some cs ∧ ∀ c ∈ cs, c ∈ l1 := by
    intro y hy
    obtain ⟨a, b, hab⟩ := List.append_of_mem hy
    obtain ⟨cs', hs', hc'⟩ := isTopo_split succ l [] h a y (b ++ x :: l2)
      (by rw [hl, hab]; simp [List.append_assoc])
    refine ⟨cs', hs', fun c' hcc => ?_⟩
    have := hc' c' hcc
    rw [hab]
    simp only [List.nil_append] at this
    exact List.mem_append_left _ this
  obtain ⟨cs', hs', hc'⟩ := isTopo_split succ l [] h l1 x l2 hl
  rw [hs] at hs'; injection hs' with hs'; subst hs'
  have hcl1 : c ∈ l1 := by simpa using hc' c hc
  exact hnot (closed_reach hclosed c x hr hcl1)

/-- A successful run whose output passes the order check WITNESSES the two hypotheses of the
    success theorems: everything reachable from a root exists, and nothing reachable lies on a
    cycle.  (Used to discharge those hypotheses on concrete examples by evaluation.) -/
theorem run_witnesses_hyps {succ : α → Option (List α)} {fuel : Nat} {roots vis out : List α}
    (h : dfsRoots succ fuel roots = .ok (vis, out)) (ht : isTopo succ [] out = true) :
    (∀ r ∈ roots, ∀ p, Reach succ r p → succ p ≠ none) ∧
    (∀ r ∈ roots, ∀ x, Reach succ r x → ∀ cs d, succ x = some cs → d ∈ cs → ¬ Reach succ d x) := by
  obtain ⟨hvo, _, hcl, hre⟩ := dfsRoots_exact h
  refine ⟨?_, ?_⟩
  · intro r hr p hp hn
    obtain ⟨cs, hs, _⟩ := hcl p ((hre p).mpr ⟨r, hr, hp⟩)
    rw [hn] at hs; cases hs
  · intro r hr x hx cs d hs hd
    exact isTopo_no_cycle succ out ht x ((hvo x).mp ((hre x).mpr ⟨r, hr, hx⟩)) cs d hs hd

end DFS2

/-! ### the path order -/

theorem strLe_refl : ∀ a : Str, strLe a a = true
  | [] => rfl
  | a :: as => by simp [strLe, strLe_refl as]

theorem strLe_total : ∀ a b : Str, strLe a b = true ∨ strLe b a = true
  | [], _ => Or.inl rfl
  | _ :: _, [] => Or.inr rfl
  | a :: as, b :: bs => by
    simp only [strLe]
    by_cases h1 : a.toNat < b.toNat
    · simp [h1]
    · by_cases h2 : b.toNat < a.toNat
      · simp [h2]
      · simp only [h1, h2, ↓reduceIte]
        exact strLe_total as bs

theorem strLe_antisymm : ∀ a b : Str, strLe a b = true → strLe b a = true → a = b
  | [], [], _, _ => rfl
  | [], _ :: _, _, h => by simp [strLe] at h
  | _ :: _, [], h, _ => by simp [strLe] at h
  | a :: as, b :: bs, h1, h2 => by
    simp only [strLe] at h1 h2
    by_cases l1 : a.toNat < b.toNat
    · have : ¬ b.toNat < a.toNat := by omega
      simp [l1, this] at h2
    · by_cases l2 : b.toNat < a.toNat
      · simp [l1, l2] at h1
      · simp only [l1, l2, ↓reduceIte] at h1 h2
        have hab : a = b := Char.toNat_inj.mp (by omega)
        rw [hab, strLe_antisymm as bs h1 h2]

theorem strLe_trans : ∀ a b c : Str, strLe a b = true → strLe b c = true → strLe a c = true
  | [], _, _, _, _ => rfl
  | _ :: _, [], _, h, _ => by simp [strLe] at h
  | _ :: _, _ :: _, [], _, h => by simp [strLe] at h
  | a :: as, b :: bs, c :: cs, h1, h2 => by
    simp only [strLe] at h1 h2 ⊢
    by_cases l1 : a.toNat < b.toNat
    · by_cases l2 : b.toNat < c.toNat
      · have : a.toNat < c.toNat := by omega
        simp [this]
      · by_cases l3 : c.toNat < b.toNat
        · simp [l2, l3] at h2
        · have : a.toNat < c.toNat := by omega
          simp [this]
    · by_cases l1b : b.toNat < a.toNat
      · simp [l1, l1b] at h1
      · simp only [l1, l1b, ↓reduceIte] at h1
        by_cases l2 : b.toNat < c.toNat
        · have : a.toNat < c.toNat := by omega
          simp [this]
        · by_cases l3 : c.toNat < b.toNat
          · simp [l2, l3] at h2
          · simp only [l2, l3, ↓reduceIte] at h2
            have e1 : ¬ a.toNat < c.toNat := by omega
            have e2 : ¬ c.toNat < a.toNat := by omega
            simp only [e1, e2, ↓reduceIte]
            exact strLe_trans as bs cs h1 h2

theorem sortPaths_perm (l : List Str) : (sortPaths l).Perm l := sortBy_perm strLe l

theorem mem_sortPaths {l : List Str} {x : Str} : x ∈ sortPaths l ↔ x ∈ l := (sortPaths_perm l).mem_iff

theorem sortPaths_sorted (l : List Str) : (sortPaths l).Pairwise (fun a b => strLe a b = true) :=
  sortBy_pairwise strLe strLe_total strLe_trans l

theorem sortPaths_nodup {l : List Str} (h : l.Nodup) : (sortPaths l).Nodup :=
  (sortPaths_perm l).nodup_iff.mpr h

/-- sorting is a function of the SET for duplicate-free lists. -/
theorem sortPaths_eq_of_mem_iff {l1 l2 : List Str} (h1 : l1.Nodup) (h2 : l2.Nodup)
    (h : ∀ x, x ∈ l1 ↔ x ∈ l2) : sortPaths l1 = sortPaths l2 := by
  apply List.Perm.eq_of_pairwise (le := fun a b => strLe a b = true)
  · intro a b _ _ hab hba; exact strLe_antisymm a b hab hba
  · exact sortPaths_sorted l1
  · exact sortPaths_sorted l2
  · exact (sortPaths_perm l1).trans (((List.perm_ext_iff_of_nodup h1 h2).mpr h).trans (sortPaths_perm l2).symm)

/-- a sorted duplicate-free list is its own sorting. -/
theorem sortPaths_eq_self {l : List Str} (hs : l.Pairwise (fun a b => strLe a b = true)) :
    sortPaths l = l := by
  apply List.Perm.eq_of_pairwise (le := fun a b => strLe a b = true)
  · intro a b _ _ hab hba; exact strLe_antisymm a b hab hba
  · exact sortPaths_sorted l
  · exact hs
  · exact sortPaths_perm l

theorem inj_of_nodup_map {β γ : Type} (g : β → γ) : ∀ {l : List β}, (l.map g).Nodup →
    ∀ {a b : β}, a ∈ l → b ∈ l → g a = g b → a = b := by
  intro l
  induction l with
  | nil => intro _ a b ha; simp at ha
  | cons x xs ih =>
    intro hnd a b ha hb h
    simp only [List.map_cons, List.nodup_cons] at hnd
    rcases List.mem_cons.mp ha with rfl | ha'
    · rcases List.mem_cons.mp hb with rfl | hb'
      · rfl
      · exact absurd (List.mem_map.mpr ⟨b, hb', h.symm⟩) hnd.1
    · rcases List.mem_cons.mp hb with rfl | hb'
      · exact absurd (List.mem_map.mpr ⟨a, ha', h⟩) hnd.1
      · exact ih hnd.2 ha' hb' h

/-! ### the ls-files pipeline -/

/-- all (module, file) pairs of the module set, in module order then walk order. -/
def allFiles (ws : WS) : List (Nat × PFile) :=
  (List.range ws.mods.length).flatMap (fun m => (modFiles ws m).map (fun f => (m, f)))

theorem mem_allFiles {ws : WS} {x : Nat × PFile} : x ∈ allFiles ws ↔ x.2 ∈ modFiles ws x.1 := by
  unfold allFiles
  simp only [List.mem_flatMap, List.mem_range, List.mem_map]
  constructor
  · rintro ⟨m, _, f, hf, rfl⟩; exact hf
  · intro h
    refine ⟨x.1, ?_, x.2, h, rfl⟩
    apply Classical.byContradiction
    intro hlt
    have : ws.mods[x.1]? = none := List.getElem?_eq_none (by omega)
    unfold modFiles at h
    rw [this] at h
    simp at h

theorem modFiles_lt {ws : WS} {m : Nat} {f : PFile} (h : f ∈ modFiles ws m) : m < ws.mods.length := by
  apply Classical.byContradiction
  intro hlt
  have : ws.mods[m]? = none := List.getElem?_eq_none (by omega)
  unfold modFiles at h
  rw [this] at h
  simp at h

theorem walkAll_go_ok (m : Nat) : ∀ (fs : List PFile) (acc acc' : List (Nat × PFile)),
    walkAll.go m fs acc = .ok acc' →
      acc' = acc ++ fs.map (fun f => (m, f)) ∧
      ((acc.map (·.2.path)).Nodup → (acc'.map (·.2.path)).Nodup) := by
  intro fs
  induction fs with
  | nil => intro acc acc' h; simp only [walkAll.go] at h; injection h with h; subst h; simp
  | cons f fs ih =>
    intro acc acc' h
    simp only [walkAll.go] at h
    split at h
    · cases h
    · rename_i hany
      obtain ⟨e, hnd⟩ := ih _ _ h
      refine ⟨by rw [e]; simp [List.append_assoc], fun hn => hnd ?_⟩
      rw [List.map_append, List.nodup_append]
      refine ⟨hn, by simp, ?_⟩
      intro a ha b hb hab
      simp only [List.map_cons, List.map_nil, List.mem_singleton] at hb
      subst hb
      apply hany
      obtain ⟨x, hx, hxa⟩ := List.mem_map.mp ha
      exact List.any_eq_true.mpr ⟨x, hx, by simp [hxa, hab]⟩

theorem walkAll_go_of_nodup (m : Nat) : ∀ (fs : List PFile) (acc : List (Nat × PFile)),
    ((acc ++ fs.map (fun f => (m, f))).map (·.2.path)).Nodup →
      walkAll.go m fs acc = .ok (acc ++ fs.map (fun f => (m, f))) := by
  intro fs
  induction fs with
  | nil => intro acc _; simp [walkAll.go]
  | cons f fs ih =>
    intro acc hn
    simp only [walkAll.go]
    have hsplit : acc ++ (f :: fs).map (fun f => (m, f)) = (acc ++ [(m, f)]) ++ fs.map (fun f => (m, f)) := by
      simp [List.append_assoc]
    rw [hsplit] at hn ⊢
    have hnot : ¬ (acc.any (fun x => x.2.path == f.path) = true) := by
      intro hany
      obtain ⟨x, hx, hxp⟩ := List.any_eq_true.mp hany
      have hxp : x.2.path = f.path := by simpa using hxp
      rw [List.map_append, List.map_append, List.append_assoc, List.nodup_append] at hn
      exact hn.2.2 _ (List.mem_map.mpr ⟨x, hx, rfl⟩) f.path (by simp) hxp
    rw [if_neg hnot]
    exact ih _ hn

/-- inversion of a successful `GetFileInfos` walk. -/
theorem walkAll_ok (ws : WS) : ∀ (ms : List Nat) (acc acc' : List (Nat × PFile)),
    walkAll ws ms acc = .ok acc' →
      acc' = acc ++ ms.flatMap (fun m => (modFiles ws m).map (fun f => (m, f))) ∧
      ((acc.map (·.2.path)).Nodup → (acc'.map (·.2.path)).Nodup) ∧
      ∀ m ∈ ms, (modFiles ws m).isEmpty = false := by
  intro ms
  induction ms with
  | nil => intro acc acc' h; simp only [walkAll] at h; injection h with h; subst h; simp
  | cons m ms ih =>
    intro acc acc' h
    simp only [walkAll] at h
    split at h
    · cases h
    · rename_i a1 hgo
      split at h
      · cases h
      · rename_i hne
        obtain ⟨e1, n1⟩ := walkAll_go_ok m _ _ _ hgo
        obtain ⟨e2, n2, ne2⟩ := ih _ _ h
        refine ⟨by rw [e2, e1]; simp [List.append_assoc], fun hn => n2 (n1 hn), ?_⟩
        intro m' hm'
        rcases List.mem_cons.mp hm' with rfl | hm'
        · simpa using hne
        · exact ne2 m' hm'

/-- … and the success criterion: pairwise distinct paths and no empty module. -/
theorem walkAll_of_nodup (ws : WS) : ∀ (ms : List Nat) (acc : List (Nat × PFile)),
    ((acc ++ ms.flatMap (fun m => (modFiles ws m).map (fun f => (m, f)))).map (·.2.path)).Nodup →
    (∀ m ∈ ms, (modFiles ws m).isEmpty = false) →
      walkAll ws ms acc = .ok (acc ++ ms.flatMap (fun m => (modFiles ws m).map (fun f => (m, f)))) := by
  intro ms
  induction ms with
  | nil => intro acc _ _; simp [walkAll]
  | cons m ms ih =>
    intro acc hn hne
    have hsplit : acc ++ (m :: ms).flatMap (fun m => (modFiles ws m).map (fun f => (m, f))) =
        (acc ++ (modFiles ws m).map (fun f => (m, f))) ++ ms.flatMap (fun m => (modFiles ws m).map (fun f => (m, f))) := by
      simp [List.append_assoc]
    rw [hsplit] at hn ⊢
    simp only [walkAll]
    have h1 : ((acc ++ (modFiles ws m).map (fun f => (m, f))).map (·.2.path)).Nodup := by
      rw [List.map_append] at hn
      exact (List.nodup_append.mp hn).1
    rw [walkAll_go_of_nodup m _ _ h1]
    simp only [hne m List.mem_cons_self, Bool.false_eq_true, ↓reduceIte]
    exact ih _ hn (fun m' hm' => hne m' (List.mem_cons_of_mem _ hm'))

/-- the root list of `lsFiles`, as a function of the walk result. -/
def lsRoots (all : List (Nat × PFile)) (tf : Nat → PFile → Bool) : List Str :=
  ((sortBy (fun a b => strLe a.2.path b.2.path) all).filter (fun x => tf x.1 x.2)).map (·.2.path)

theorem mem_lsRoots {all : List (Nat × PFile)} {tf : Nat → PFile → Bool} {p : Str} :
    p ∈ lsRoots all tf ↔ ∃ x ∈ all, tf x.1 x.2 = true ∧ x.2.path = p := by
  unfold lsRoots
  simp only [List.mem_map, List.mem_filter, mem_sortBy]
  constructor
  · rintro ⟨x, ⟨hx, ht⟩, rfl⟩; exact ⟨x, hx, ht, rfl⟩
  · rintro ⟨x, hx, ht, rfl⟩; exact ⟨x, ⟨hx, ht⟩, rfl⟩

/-- inversion of a successful `lsFiles`. -/
theorem lsFiles_ok {ws : WS} {tf : Nat → PFile → Bool} {l : List (Str × Bool)}
    (h : lsFiles ws tf = .ok l) :
    ∃ vis out, walkAll ws (List.range ws.mods.length) [] = .ok (allFiles ws) ∧
      ((allFiles ws).map (·.2.path)).Nodup ∧
      (∀ m, m < ws.mods.length → (modFiles ws m).isEmpty = false) ∧
      dfsRoots (lsLookup (allFiles ws) ws.wkt) ((allFiles ws).length + ws.wkt.length + 1)
        (lsRoots (allFiles ws) tf) = .ok (vis, out) ∧
      l = (sortPaths vis).map (fun p => (p, !((allFiles ws).any (fun x => x.2.path == p && tf x.1 x.2)))) := by
  unfold lsFiles at h
  split at h
  · cases h
  · rename_i all hall
    obtain ⟨e, hn, hne⟩ := walkAll_ok ws _ _ _ hall
    simp only [List.nil_append] at e
    have e' : all = allFiles ws := e
    subst e'
    dsimp only at h
    split at h
    · cases h
    · cases h
    · rename_i vis out hdfs
      injection h with h
      exact ⟨vis, out, hall, hn (by simp), fun m hm => hne m (List.mem_range.mpr hm), hdfs, h.symm⟩

theorem lsLookup_some_mem {all : List (Nat × PFile)} {wkt : List PFile} {p : Str}
    (h : lsLookup all wkt p ≠ none) : p ∈ all.map (·.2.path) ++ wkt.map (·.path) := by
  unfold lsLookup at h
  split at h
  · rename_i x hx
    have h1 := List.find?_some hx
    have h2 := List.mem_of_find?_eq_some hx
    exact List.mem_append_left _ (List.mem_map.mpr ⟨x, h2, by simpa using h1⟩)
  · split at h
    · rename_i f hf
      have h1 := List.find?_some hf
      have h2 := List.mem_of_find?_eq_some hf
      exact List.mem_append_right _ (List.mem_map.mpr ⟨f, h2, by simpa using h1⟩)
    · exact absurd rfl h

/-- in a module set whose paths are pairwise distinct, the lookup of a workspace file's path yields
    that file's sorted unique scanned imports (`FileInfo.Imports()`). -/
theorem lsLookup_file {ws : WS} (hnd : ((allFiles ws).map (·.2.path)).Nodup) {m : Nat} {f : PFile}
    (hf : f ∈ modFiles ws m) : lsLookup (allFiles ws) ws.wkt f.path = some (infoImports f) := by
  unfold lsLookup
  have hmem : (m, f) ∈ allFiles ws := mem_allFiles.mpr hf
  cases hfind : (allFiles ws).find? (fun x => x.2.path == f.path) with
  | none =>
    have := List.find?_eq_none.mp hfind (m, f) hmem
    simp at this
  | some y =>
    have hy := List.mem_of_find?_eq_some hfind
    have hyp : y.2.path = f.path := by simpa using List.find?_some hfind
    have : y = (m, f) := inj_of_nodup_map (fun x : Nat × PFile => x.2.path) hnd hy hmem hyp
    subst this
    rfl

/-- the fuel `lsFiles` passes to its closure is never exhausted. -/
theorem lsFiles_ne_fuel (ws : WS) (tf : Nat → PFile → Bool) : lsFiles ws tf ≠ .error .fuel := by
  intro h
  unfold lsFiles at h
  split at h
  · rename_i e hall
    injection h with h; subst h
    -- walkAll never reports fuel
    have : ∀ (ms : List Nat) (acc : List (Nat × PFile)), walkAll ws ms acc ≠ .error .fuel := by
      intro ms
      induction ms with
      | nil => intro acc hh; simp [walkAll] at hh
      | cons m ms ih =>
        intro acc hh
        simp only [walkAll] at hh
        split at hh
        · rename_i e hgo
          injection hh with hh; subst hh
          have hgo' : ∀ (fs : List PFile) (acc : List (Nat × PFile)), walkAll.go m fs acc ≠ .error .fuel := by
            intro fs
            induction fs with
            | nil => intro acc hh; simp [walkAll.go] at hh
            | cons f fs ihf =>
              intro acc hh
              simp only [walkAll.go] at hh
              split at hh
              · cases hh
              · exact ihf _ hh
          exact hgo' _ _ hgo
        · split at hh
          · cases hh
          · exact ih _ hh
    exact this _ _ hall
  · rename_i all hall
    dsimp only at h
    split at h
    · rename_i hdfs
      refine dfsRoots_ne_fuel (lsLookup all ws.wkt) (all.map (·.2.path) ++ ws.wkt.map (·.path))
        (fun x hx => lsLookup_some_mem hx) _ _ ?_ hdfs
      simp
    · cases h
    · cases h


end BufModel.Graph
