import BufModel.MultiClient
/-
  List arithmetic behind BufProofs.C02.mc_error_is_failing_clients_in_config_order: reading a list
  back through its own indices (job index -> client) commutes with filtering.
-/
namespace BufProofs.MultiClientLemmas

theorem mc_filter_getD (l : List Nat) (p : Nat → Bool) (dflt : Nat) :
    ((List.range l.length).filter (fun j => (l.map p).getD j false)).map (fun j => l.getD j dflt) = l.filter p := by
  induction l with
  | nil => simp
  | cons a l ih =>
    rw [List.length_cons, List.range_succ_eq_map, List.filter_cons]
    simp only [List.map_cons, List.getD_cons_zero]
    have htail : ((List.map Nat.succ (List.range l.length)).filter (fun j => (p a :: l.map p).getD j false)).map (fun j => (a :: l).getD j dflt)
        = l.filter p := by
      rw [List.filter_map, List.map_map]
      rw [← ih]
      congr 1
    generalize ((List.map Nat.succ (List.range l.length)).filter (fun j => (p a :: l.map p).getD j false)) = T at htail ⊢
    simp only [List.getD_eq_getElem?_getD] at htail ⊢
    cases hp : p a <;> simp [htail, hp]

end BufProofs.MultiClientLemmas
