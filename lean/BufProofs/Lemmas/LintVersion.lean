import BufProofs.Lemmas.LintSpec2
import BufProofs.Lemmas.VersionLemmas
/-
  The version grammar (VersionLemmas) composed with packages: the version of a package is the
  version of its last component; a component with a foreign character is not a version.
-/
namespace BufModel.Lint
open BufModel.Case

theorem contains_mid (pat : Str) (hp : pat ≠ []) : ∀ (a b : Str), contains pat (a ++ pat ++ b) = true
  | [], b => by
    unfold contains splitFirst
    cases pat with
    | nil => exact absurd rfl hp
    | cons p ps =>
      simp only [List.nil_append, List.cons_append]
      have : (p :: ps).isPrefixOf (p :: (ps ++ b)) = true := by
        rw [List.isPrefixOf_iff_prefix]; exact ⟨b, rfl⟩
      simp [this]
  | c :: a, b => by
    have ih := contains_mid pat hp a b
    unfold contains at ih ⊢
    simp only [List.cons_append]
    unfold splitFirst
    split
    · rfl
    · cases h : splitFirst pat (a ++ pat ++ b) with
      | none => rw [h] at ih; cases ih
      | some x => rfl

theorem versionForPackage_last_component (b : Bool) (pre : Str) (c : Char) (cs : Str)
    (hnodot : ∀ x ∈ c :: cs, x ≠ '.') :
    versionForPackage b (pre ++ '.' :: c :: cs) = versionForComponent b (c :: cs) := by
  unfold versionForPackage
  rw [splitDots_append_dot, splitDots_no_dot _ hnodot]
  have hlen : ¬ (splitDots pre ++ [c :: cs]).length < 2 := by
    have := splitDots_ne_nil pre
    cases h : splitDots pre with
    | nil => exact absurd h this
    | cons a t => simp
  simp only [List.append_eq_nil_iff, reduceCtorEq, and_false, List.isEmpty_iff, if_false, hlen,
    List.getLast?_append, List.getLast?_singleton, Option.some_or]

/-- a component with a character that is neither a decimal digit nor one of `v + - p a l h b e t`
    and without the substring "test" is not a version -/
theorem versionForComponent_foreign (b : Bool) (s : Str) (x : Char) (hx : x ∈ s) (hd : isDigit x = false)
    (hf : x ∉ versionAlphabet) (ht : contains "test".toList s = false) : versionForComponent b s = none := by
  cases h : versionForComponent b s with
  | none => rfl
  | some v =>
    exfalso
    obtain ⟨rest, rfl, hshape⟩ := versionForComponent_shape b s v h
    by_cases hst : v.stability = .test
    · rw [hst] at hshape
      cases hshape with
      | test n sfx hn =>
        have := contains_mid "test".toList (by decide) ('v' :: n) sfx
        simp only [List.cons_append] at this ht
        rw [this] at ht
        cases ht
      | ab n m _ hst' _ _ => rcases hst' with e | e <;> cases e
      | patch n q m _ hst' _ _ _ => rcases hst' with e | e <;> cases e
    · rcases List.mem_cons.mp hx with rfl | hx
      · exact hf (by decide)
      · rcases docShape_chars rest _ hshape hst x hx with h1 | h1
        · rw [h1] at hd; cases hd
        · exact hf h1

end BufModel.Lint
