import BufModel.Lint
import BufProofs.Lemmas.LintLemmas
/-
  C05 — schema TRANSFORMERS and how the iteration helpers see them.

  A transformer `Tr` rewrites the declarations of ONE file in place, addressed by SOURCE PATH
  (the same paths the iteration helpers of BufModel.Lint hand to the rules): an enum (whole
  declaration: name, comment, allow_alias, value list), the name / comment of a message, the
  name / comment / `required` label of a field or extension, a oneof, the name / comment of a
  service, an RPC (whole declaration).  `mapFile T f` applies it everywhere in `f`; a planting
  operator is a transformer that is the identity except at one source path.

  This file proves, for every iteration helper `els`, that `els (mapFile T f)` is `els f` mapped
  elementwise (so nothing is added, dropped or reordered, at any nesting depth), and that the
  source paths an iteration helper enumerates are pairwise distinct (so "the element at path p"
  is ONE element).
-/
namespace BufModel.Lint
open BufModel.Case

/-! ### indexed lists -/

/-- map with the running index, matching `indexFrom` -/
def mapIdxFrom {α β} (g : Nat → α → β) : Nat → List α → List β
  | _, [] => []
  | i, x :: xs => g i x :: mapIdxFrom g (i + 1) xs

theorem indexFrom_mapIdxFrom {α β} (g : Nat → α → β) : ∀ (i : Nat) (l : List α),
    indexFrom i (mapIdxFrom g i l) = (indexFrom i l).map (fun jx => (jx.1, g jx.1 jx.2))
  | _, [] => rfl
  | i, x :: xs => by
    simp only [mapIdxFrom, indexFrom, List.map_cons]
    rw [indexFrom_mapIdxFrom g (i + 1) xs]

theorem indexed_mapIdxFrom {α β} (g : Nat → α → β) (l : List α) :
    indexed (mapIdxFrom g 0 l) = (indexed l).map (fun jx => (jx.1, g jx.1 jx.2)) :=
  indexFrom_mapIdxFrom g 0 l

theorem mapIdxFrom_id {α} : ∀ (i : Nat) (l : List α), mapIdxFrom (fun _ x => x) i l = l
  | _, [] => rfl
  | i, x :: xs => by simp only [mapIdxFrom]; rw [mapIdxFrom_id (i + 1) xs]

theorem indexFrom_ge {α} : ∀ (i : Nat) (l : List α) (jx : Nat × α), jx ∈ indexFrom i l → i ≤ jx.1
  | _, [], _, h => by simp [indexFrom] at h
  | i, x :: xs, jx, h => by
    simp only [indexFrom, List.mem_cons] at h
    rcases h with rfl | h
    · exact Nat.le_refl _
    · exact Nat.le_of_succ_le (indexFrom_ge (i + 1) xs jx h)

theorem indexFrom_nodup {α} : ∀ (i : Nat) (l : List α), ((indexFrom i l).map (·.1)).Nodup
  | _, [] => by simp [indexFrom]
  | i, x :: xs => by
    simp only [indexFrom, List.map_cons, List.nodup_cons]
    refine ⟨?_, indexFrom_nodup (i + 1) xs⟩
    intro h
    obtain ⟨jx, hjx, e⟩ := List.mem_map.mp h
    have := indexFrom_ge (i + 1) xs jx hjx
    omega

theorem mem_indexFrom_val {α} : ∀ (i : Nat) (l : List α) (jx : Nat × α), jx ∈ indexFrom i l → jx.2 ∈ l
  | _, [], _, h => by simp [indexFrom] at h
  | i, x :: xs, jx, h => by
    simp only [indexFrom, List.mem_cons] at h
    rcases h with rfl | h
    · simp
    · exact List.mem_cons_of_mem _ (mem_indexFrom_val (i + 1) xs jx h)

/-! ### transformers -/

/-- A path-addressed rewriting of the declarations of one file (identity by default). -/
structure Tr where
  /-- one enum value, addressed by ITS source path (`enum path ++ [2, i]`) -/
  value : List Nat → EnumValue → EnumValue := fun _ v => v
  /-- the enum declaration as a whole (applied after `value`): name, comment, allow_alias, and
      any restructuring of the value list (reorder, append) -/
  enum : List Nat → Enum → Enum := fun _ e => e
  msgName : List Nat → Str → Str := fun _ s => s
  msgComment : List Nat → Str → Str := fun _ s => s
  fieldName : List Nat → Str → Str := fun _ s => s
  fieldComment : List Nat → Str → Str := fun _ s => s
  fieldRequired : List Nat → Bool → Bool := fun _ b => b
  oneof : List Nat → Oneof → Oneof := fun _ x => x
  svcName : List Nat → Str → Str := fun _ s => s
  svcComment : List Nat → Str → Str := fun _ s => s
  rpc : List Nat → Rpc → Rpc := fun _ m => m

/-- fields keep their kind (group / proto3 optional / oneof membership) by construction -/
def Tr.field (T : Tr) (p : List Nat) (fd : Field) : Field :=
  { fd with name := T.fieldName p fd.name, comment := T.fieldComment p fd.comment,
            required := T.fieldRequired p fd.required }

/-- an enum declaration under a transformer: every value, then the declaration -/
def Tr.enumFull (T : Tr) (p : List Nat) (e : Enum) : Enum :=
  T.enum p { e with values := mapIdxFrom (fun i => T.value (p ++ [2, i])) 0 e.values }

mutual
  def mapMsg (T : Tr) (p : List Nat) : Message → Message
    | .mk n c me fs os xs es ms =>
      .mk (T.msgName p n) (T.msgComment p c) me
        (mapIdxFrom (fun i => T.field (p ++ [2, i])) 0 fs)
        (mapIdxFrom (fun i => T.oneof (p ++ [8, i])) 0 os)
        (mapIdxFrom (fun i => T.field (p ++ [6, i])) 0 xs)
        (mapIdxFrom (fun i => T.enumFull (p ++ [4, i])) 0 es)
        (mapMsgs T p 3 0 ms)
  def mapMsgs (T : Tr) (p : List Nat) (tag : Nat) (i : Nat) : List Message → List Message
    | [] => []
    | m :: rest => mapMsg T (p ++ [tag, i]) m :: mapMsgs T p tag (i + 1) rest
end

def mapSvc (T : Tr) (p : List Nat) (s : Service) : Service :=
  { name := T.svcName p s.name, comment := T.svcComment p s.comment,
    rpcs := mapIdxFrom (fun i => T.rpc (p ++ [2, i])) 0 s.rpcs }

/-- apply a transformer to every declaration of a file; the file header (path, package, imports,
    options, syntax) is untouched -/
def mapFile (T : Tr) (f : File) : File :=
  { f with enums := mapIdxFrom (fun i => T.enumFull [5, i]) 0 f.enums,
           msgs := mapMsgs T [] 4 0 f.msgs,
           svcs := mapIdxFrom (fun i => mapSvc T [6, i]) 0 f.svcs,
           exts := mapIdxFrom (fun i => T.field [7, i]) 0 f.exts }

/-! ### projections of a mapped message -/

theorem mapMsg_name (T : Tr) (p : List Nat) (m : Message) : (mapMsg T p m).name = T.msgName p m.name := by
  cases m; rfl
theorem mapMsg_comment (T : Tr) (p : List Nat) (m : Message) :
    (mapMsg T p m).comment = T.msgComment p m.comment := by cases m; rfl
theorem mapMsg_mapEntry (T : Tr) (p : List Nat) (m : Message) : (mapMsg T p m).mapEntry = m.mapEntry := by
  cases m; rfl
theorem mapMsg_fields (T : Tr) (p : List Nat) (m : Message) :
    (mapMsg T p m).fields = mapIdxFrom (fun i => T.field (p ++ [2, i])) 0 m.fields := by cases m; rfl
theorem mapMsg_exts (T : Tr) (p : List Nat) (m : Message) :
    (mapMsg T p m).exts = mapIdxFrom (fun i => T.field (p ++ [6, i])) 0 m.exts := by cases m; rfl
theorem mapMsg_oneofs (T : Tr) (p : List Nat) (m : Message) :
    (mapMsg T p m).oneofs = mapIdxFrom (fun i => T.oneof (p ++ [8, i])) 0 m.oneofs := by cases m; rfl
theorem mapMsg_enums (T : Tr) (p : List Nat) (m : Message) :
    (mapMsg T p m).enums = mapIdxFrom (fun i => T.enumFull (p ++ [4, i])) 0 m.enums := by cases m; rfl

/-! ### the message iterator commutes with a transformer -/

mutual
  theorem visitMsg_map (T : Tr) (p : List Nat) : ∀ m : Message,
      visitMsg p (mapMsg T p m) = (visitMsg p m).map (fun qm => (qm.1, mapMsg T qm.1 qm.2))
    | .mk n c me fs os xs es ms => by
      simp only [mapMsg, visitMsg, List.map_cons]
      rw [visitMsgs_map T p 3 0 ms]
  theorem visitMsgs_map (T : Tr) (p : List Nat) (tag : Nat) : ∀ (i : Nat) (ms : List Message),
      visitMsgs p tag i (mapMsgs T p tag i ms) =
        (visitMsgs p tag i ms).map (fun qm => (qm.1, mapMsg T qm.1 qm.2))
    | _, [] => rfl
    | i, m :: rest => by
      simp only [mapMsgs, visitMsgs, List.map_append]
      rw [visitMsg_map T (p ++ [tag, i]) m, visitMsgs_map T p tag (i + 1) rest]
end

def tauMsg (T : Tr) (qm : List Nat × Message) : List Nat × Message := (qm.1, mapMsg T qm.1 qm.2)
def tauEnum (T : Tr) (qe : List Nat × Enum) : List Nat × Enum := (qe.1, T.enumFull qe.1 qe.2)
def tauField (T : Tr) (x : List Nat × Option Message × Field) : List Nat × Option Message × Field :=
  (x.1, x.2.1.map (mapMsg T x.1.dropLast.dropLast), T.field x.1 x.2.2)
def tauOneof (T : Tr) (x : List Nat × Message × Nat × Oneof) : List Nat × Message × Nat × Oneof :=
  (x.1, mapMsg T x.1.dropLast.dropLast x.2.1, x.2.2.1, T.oneof x.1 x.2.2.2)
def tauSvc (T : Tr) (x : List Nat × Service) : List Nat × Service := (x.1, mapSvc T x.1 x.2)
def tauRpc (T : Tr) (x : List Nat × Service × Rpc) : List Nat × Service × Rpc :=
  (x.1, mapSvc T x.1.dropLast.dropLast x.2.1, T.rpc x.1 x.2.2)

theorem dropLast2 (q : List Nat) (a b : Nat) : (q ++ [a, b]).dropLast.dropLast = q := by
  have : q ++ [a, b] = (q ++ [a]) ++ [b] := by simp
  rw [this, List.dropLast_concat, List.dropLast_concat]

theorem fileMsgs_map (T : Tr) (f : File) : fileMsgs (mapFile T f) = (fileMsgs f).map (tauMsg T) := by
  unfold fileMsgs mapFile
  exact visitMsgs_map T [] 4 0 f.msgs

theorem flatMap_map_left {α β γ} (l : List α) (h : α → β) (k : β → List γ) :
    (l.map h).flatMap k = l.flatMap (fun x => k (h x)) := by
  induction l with
  | nil => rfl
  | cons a t ih => simp [List.flatMap_cons, ih]

theorem map_flatMap_right {α β γ} (l : List α) (k : α → List β) (h : β → γ) :
    (l.flatMap k).map h = l.flatMap (fun x => (k x).map h) := by
  induction l with
  | nil => rfl
  | cons a t ih => simp [List.flatMap_cons, ih]

theorem flatMap_congr_mem {α β} (l : List α) (k k' : α → List β) (h : ∀ x ∈ l, k x = k' x) :
    l.flatMap k = l.flatMap k' := by
  induction l with
  | nil => rfl
  | cons a t ih =>
    simp only [List.flatMap_cons]
    rw [h a (by simp), ih (fun x hx => h x (by simp [hx]))]

theorem fileEnums_map (T : Tr) (f : File) : fileEnums (mapFile T f) = (fileEnums f).map (tauEnum T) := by
  unfold fileEnums
  rw [fileMsgs_map, List.map_append, flatMap_map_left, map_flatMap_right]
  congr 1
  · show (indexed (mapIdxFrom (fun i => T.enumFull [5, i]) 0 f.enums)).map _ = _
    rw [indexed_mapIdxFrom]; simp [tauEnum, Function.comp_def]
  · apply flatMap_congr_mem
    intro qm _
    simp only [tauMsg, mapMsg_enums, indexed_mapIdxFrom, List.map_map]
    simp [tauEnum, Function.comp_def]

theorem fileFields_map (T : Tr) (f : File) : fileFields (mapFile T f) = (fileFields f).map (tauField T) := by
  unfold fileFields
  rw [fileMsgs_map, List.map_append, flatMap_map_left, map_flatMap_right]
  congr 1
  · apply flatMap_congr_mem
    intro qm _
    simp only [tauMsg, mapMsg_fields, mapMsg_exts, indexed_mapIdxFrom, List.map_map, List.map_append]
    simp [tauField, Function.comp_def]
  · show (indexed (mapIdxFrom (fun i => T.field [7, i]) 0 f.exts)).map _ = _
    rw [indexed_mapIdxFrom]; simp [tauField, Function.comp_def]

theorem fileOneofs_map (T : Tr) (f : File) : fileOneofs (mapFile T f) = (fileOneofs f).map (tauOneof T) := by
  unfold fileOneofs
  rw [fileMsgs_map, flatMap_map_left, map_flatMap_right]
  apply flatMap_congr_mem
  intro qm _
  simp only [tauMsg, mapMsg_oneofs, indexed_mapIdxFrom, List.map_map]
  simp [tauOneof, Function.comp_def]

theorem fileSvcs_map (T : Tr) (f : File) : fileSvcs (mapFile T f) = (fileSvcs f).map (tauSvc T) := by
  unfold fileSvcs
  show (indexed (mapIdxFrom (fun i => mapSvc T [6, i]) 0 f.svcs)).map _ = _
  rw [indexed_mapIdxFrom]; simp [tauSvc, Function.comp_def]

theorem fileRpcs_map (T : Tr) (f : File) : fileRpcs (mapFile T f) = (fileRpcs f).map (tauRpc T) := by
  unfold fileRpcs
  rw [fileSvcs_map, flatMap_map_left, map_flatMap_right]
  apply flatMap_congr_mem
  intro qs _
  simp only [tauSvc, mapSvc, indexed_mapIdxFrom, List.map_map]
  simp [tauRpc, Function.comp_def, mapSvc]

/-- the enum values of a transformed file: every (transformed) enum with ITS value list -/
theorem fileEnumValues_map (T : Tr) (f : File) :
    fileEnumValues (mapFile T f) = (fileEnums f).flatMap (fun qe =>
      (indexed (T.enumFull qe.1 qe.2).values).map (fun iv => (qe.1 ++ [2, iv.1], T.enumFull qe.1 qe.2, iv.2))) := by
  unfold fileEnumValues
  rw [fileEnums_map, flatMap_map_left]
  rfl

def tauValue (T : Tr) (x : List Nat × Enum × EnumValue) : List Nat × Enum × EnumValue :=
  (x.1, T.enumFull x.1.dropLast.dropLast x.2.1, T.value x.1 x.2.2)

/-- …and when the transformer leaves the enum declarations alone (only values are rewritten),
    elementwise -/
theorem fileEnumValues_map_value (T : Tr) (hid : T.enum = fun _ e => e) (f : File) :
    fileEnumValues (mapFile T f) = (fileEnumValues f).map (tauValue T) := by
  rw [fileEnumValues_map]
  unfold fileEnumValues
  rw [map_flatMap_right]
  apply flatMap_congr_mem
  intro qe _
  simp only [Tr.enumFull, hid, indexed_mapIdxFrom, List.map_map]
  simp [tauValue, Function.comp_def, Tr.enumFull, hid]

/-! ### source paths are pairwise distinct -/

theorem append_pair_inj {q q' : List Nat} {a b a' b' : Nat} (h : q ++ [a, b] = q' ++ [a', b']) :
    q = q' ∧ a = a' ∧ b = b' := by
  have hl : q.length = q'.length := by
    have := congrArg List.length h
    simp at this; omega
  have := List.append_inj h hl
  simp at this
  exact ⟨this.1, this.2.1, this.2.2⟩

mutual
  theorem visitMsg_prefix (p : List Nat) : ∀ (m : Message) (y : List Nat × Message),
      y ∈ visitMsg p m → ∃ s, y.1 = p ++ s
    | .mk n c me fs os xs es ms, y, h => by
      simp only [visitMsg, List.mem_cons] at h
      rcases h with rfl | h
      · exact ⟨[], by simp⟩
      · obtain ⟨j, s, _, e⟩ := visitMsgs_prefix p 3 0 ms y h
        exact ⟨[3, j] ++ s, by rw [e]; simp⟩
  theorem visitMsgs_prefix (p : List Nat) (tag : Nat) : ∀ (i : Nat) (ms : List Message)
      (y : List Nat × Message), y ∈ visitMsgs p tag i ms → ∃ j s, i ≤ j ∧ y.1 = p ++ [tag, j] ++ s
    | _, [], _, h => by simp [visitMsgs] at h
    | i, m :: rest, y, h => by
      simp only [visitMsgs, List.mem_append] at h
      rcases h with h | h
      · obtain ⟨s, e⟩ := visitMsg_prefix (p ++ [tag, i]) m y h
        exact ⟨i, s, Nat.le_refl _, e⟩
      · obtain ⟨j, s, hj, e⟩ := visitMsgs_prefix p tag (i + 1) rest y h
        exact ⟨j, s, Nat.le_of_succ_le hj, e⟩
end

mutual
  theorem visitMsg_nodup (p : List Nat) : ∀ m : Message, ((visitMsg p m).map (·.1)).Nodup
    | .mk n c me fs os xs es ms => by
      simp only [visitMsg, List.map_cons, List.nodup_cons]
      refine ⟨?_, visitMsgs_nodup p 3 0 ms⟩
      intro h
      obtain ⟨y, hy, e⟩ := List.mem_map.mp h
      obtain ⟨j, s, _, e2⟩ := visitMsgs_prefix p 3 0 ms y hy
      have := congrArg List.length (e.symm.trans e2)
      simp at this
  theorem visitMsgs_nodup (p : List Nat) (tag : Nat) : ∀ (i : Nat) (ms : List Message),
      ((visitMsgs p tag i ms).map (·.1)).Nodup
    | _, [] => by simp [visitMsgs]
    | i, m :: rest => by
      simp only [visitMsgs, List.map_append]
      rw [List.nodup_append]
      refine ⟨visitMsg_nodup (p ++ [tag, i]) m, visitMsgs_nodup p tag (i + 1) rest, ?_⟩
      intro a ha b hb e
      obtain ⟨y, hy, rfl⟩ := List.mem_map.mp ha
      obtain ⟨z, hz, rfl⟩ := List.mem_map.mp hb
      obtain ⟨s, e1⟩ := visitMsg_prefix (p ++ [tag, i]) m y hy
      obtain ⟨j, s', hj, e2⟩ := visitMsgs_prefix p tag (i + 1) rest z hz
      have e3 : p ++ ([tag, i] ++ s) = p ++ ([tag, j] ++ s') := by
        rw [← List.append_assoc, ← List.append_assoc, ← e1, ← e2]; exact e
      have := List.append_cancel_left e3
      simp at this
      omega
end

theorem fileMsgs_nodup (f : File) : ((fileMsgs f).map (·.1)).Nodup := visitMsgs_nodup [] 4 0 f.msgs

theorem fileMsgs_path_ne_nil (f : File) (y : List Nat × Message) (h : y ∈ fileMsgs f) : y.1 ≠ [] := by
  obtain ⟨j, s, _, e⟩ := visitMsgs_prefix [] 4 0 f.msgs y h
  rw [e]; simp

/-- keys `key x ++ [t, i]` over containers with distinct keys and, per container, distinct
    (tag, index) suffixes are distinct -/
theorem nodup_keys {α} (key : α → List Nat) (sfx : α → List (Nat × Nat)) : ∀ (l : List α),
    (l.map key).Nodup → (∀ x ∈ l, (sfx x).Nodup) →
    (l.flatMap fun x => (sfx x).map fun ti => key x ++ [ti.1, ti.2]).Nodup
  | [], _, _ => by simp
  | x :: rest, hk, hs => by
    simp only [List.map_cons, List.nodup_cons] at hk
    simp only [List.flatMap_cons]
    rw [List.nodup_append]
    refine ⟨?_, nodup_keys key sfx rest hk.2 (fun y hy => hs y (by simp [hy])), ?_⟩
    · have hx := hs x (by simp)
      generalize sfx x = sx at hx
      induction sx with
      | nil => simp
      | cons a t ih =>
        simp only [List.nodup_cons] at hx
        simp only [List.map_cons, List.nodup_cons]
        refine ⟨?_, ih hx.2⟩
        intro h
        obtain ⟨b, hb, e⟩ := List.mem_map.mp h
        obtain ⟨_, e1, e2⟩ := append_pair_inj e
        exact hx.1 (by rw [show a = b from Prod.ext e1.symm e2.symm]; exact hb)
    · intro a ha b hb e
      obtain ⟨ti, _, rfl⟩ := List.mem_map.mp ha
      obtain ⟨y, hy, hb⟩ := List.mem_flatMap.mp hb
      obtain ⟨tj, _, rfl⟩ := List.mem_map.mp hb
      obtain ⟨e1, _, _⟩ := append_pair_inj e
      exact hk.1 (by rw [e1]; exact List.mem_map.mpr ⟨y, hy, rfl⟩)

theorem nodup_tagged {α} (t : Nat) (l : List α) : ((indexed l).map (fun ix => (t, ix.1))).Nodup := by
  have h := indexFrom_nodup 0 l
  unfold indexed
  generalize indexFrom 0 l = il at h
  induction il with
  | nil => simp
  | cons a r ih =>
    simp only [List.map_cons, List.nodup_cons] at h ⊢
    refine ⟨?_, ih h.2⟩
    intro hm
    obtain ⟨b, hb, e⟩ := List.mem_map.mp hm
    simp only [Prod.mk.injEq, true_and] at e
    exact h.1 (by rw [← e]; exact List.mem_map.mpr ⟨b, hb, rfl⟩)

/-- the containers of a file: the file itself (key `[]`) and every message (key = its path) -/
theorem containers_nodup (f : File) : (([] : List Nat) :: (fileMsgs f).map (·.1)).Nodup := by
  simp only [List.nodup_cons]
  refine ⟨?_, fileMsgs_nodup f⟩
  intro h
  obtain ⟨y, hy, e⟩ := List.mem_map.mp h
  exact fileMsgs_path_ne_nil f y hy e

theorem fileEnums_nodup (f : File) : ((fileEnums f).map (·.1)).Nodup := by
  have h := nodup_keys (α := List Nat × List (Nat × Nat)) (·.1) (·.2)
    (([], (indexed f.enums).map (fun ix => (5, ix.1))) ::
      (fileMsgs f).map (fun qm => (qm.1, (indexed qm.2.enums).map (fun ix => (4, ix.1)))))
    (by simpa [Function.comp_def] using containers_nodup f)
    (by
      intro x hx
      simp only [List.mem_cons, List.mem_map] at hx
      rcases hx with rfl | ⟨qm, _, rfl⟩ <;> exact nodup_tagged _ _)
  unfold fileEnums
  simpa [flatMap_map_left, map_flatMap_right, Function.comp_def] using h

theorem fileOneofs_nodup (f : File) : ((fileOneofs f).map (·.1)).Nodup := by
  have h := nodup_keys (α := List Nat × List (Nat × Nat)) (·.1) (·.2)
    ((fileMsgs f).map (fun qm => (qm.1, (indexed qm.2.oneofs).map (fun ix => (8, ix.1)))))
    (by simpa [Function.comp_def] using fileMsgs_nodup f)
    (by
      intro x hx
      simp only [List.mem_map] at hx
      obtain ⟨qm, _, rfl⟩ := hx
      exact nodup_tagged _ _)
  unfold fileOneofs
  simpa [flatMap_map_left, map_flatMap_right, Function.comp_def] using h

theorem fileSvcs_nodup (f : File) : ((fileSvcs f).map (·.1)).Nodup := by
  have h := nodup_keys (α := List Nat × List (Nat × Nat)) (·.1) (·.2)
    [([], (indexed f.svcs).map (fun ix => (6, ix.1)))] (by simp)
    (by intro x hx; simp only [List.mem_singleton] at hx; subst hx; exact nodup_tagged _ _)
  unfold fileSvcs
  simpa [Function.comp_def] using h

theorem fileRpcs_nodup (f : File) : ((fileRpcs f).map (·.1)).Nodup := by
  have h := nodup_keys (α := List Nat × List (Nat × Nat)) (·.1) (·.2)
    ((fileSvcs f).map (fun qs => (qs.1, (indexed qs.2.rpcs).map (fun ix => (2, ix.1)))))
    (by simpa [Function.comp_def] using fileSvcs_nodup f)
    (by
      intro x hx
      simp only [List.mem_map] at hx
      obtain ⟨qs, _, rfl⟩ := hx
      exact nodup_tagged _ _)
  unfold fileRpcs
  simpa [flatMap_map_left, map_flatMap_right, Function.comp_def] using h

theorem fileEnumValues_nodup (f : File) : ((fileEnumValues f).map (·.1)).Nodup := by
  have h := nodup_keys (α := List Nat × List (Nat × Nat)) (·.1) (·.2)
    ((fileEnums f).map (fun qe => (qe.1, (indexed qe.2.values).map (fun ix => (2, ix.1)))))
    (by simpa [Function.comp_def] using fileEnums_nodup f)
    (by
      intro x hx
      simp only [List.mem_map] at hx
      obtain ⟨qe, _, rfl⟩ := hx
      exact nodup_tagged _ _)
  unfold fileEnumValues
  simpa [flatMap_map_left, map_flatMap_right, Function.comp_def] using h

theorem nodup_two_tags {α β} (t t' : Nat) (ht : t ≠ t') (l : List α) (l' : List β) :
    ((indexed l).map (fun ix => (t, ix.1)) ++ (indexed l').map (fun ix => (t', ix.1))).Nodup := by
  rw [List.nodup_append]
  refine ⟨nodup_tagged t l, nodup_tagged t' l', ?_⟩
  intro a ha b hb e
  obtain ⟨x, _, rfl⟩ := List.mem_map.mp ha
  obtain ⟨y, _, rfl⟩ := List.mem_map.mp hb
  simp only [Prod.mk.injEq] at e
  exact ht e.1

theorem nodup_append_swap {α} {a b : List α} (h : (b ++ a).Nodup) : (a ++ b).Nodup := by
  rw [List.nodup_append] at h ⊢
  exact ⟨h.2.1, h.1, fun x hx y hy e => h.2.2 y hy x hx e.symm⟩

theorem fileFields_nodup (f : File) : ((fileFields f).map (·.1)).Nodup := by
  have h := nodup_keys (α := List Nat × List (Nat × Nat)) (·.1) (·.2)
    (([], (indexed f.exts).map (fun ix => (7, ix.1))) ::
      (fileMsgs f).map (fun qm => (qm.1, (indexed qm.2.fields).map (fun ix => (2, ix.1)) ++
        (indexed qm.2.exts).map (fun ix => (6, ix.1)))))
    (by simpa [Function.comp_def] using containers_nodup f)
    (by
      intro x hx
      simp only [List.mem_cons, List.mem_map] at hx
      rcases hx with rfl | ⟨qm, _, rfl⟩
      · exact nodup_tagged _ _
      · exact nodup_two_tags 2 6 (by decide) _ _)
  unfold fileFields
  rw [List.map_append]
  apply nodup_append_swap
  simpa [flatMap_map_left, map_flatMap_right, Function.comp_def] using h

end BufModel.Lint
