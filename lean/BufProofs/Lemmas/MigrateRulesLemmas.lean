import BufProofs.Lemmas.MigrateRulesBase
/-
  Lemmas for the rule-selection part of C16 (`buf config migrate`): the repair step of
  `equivalentCheckConfigInV2` as set algebra over arbitrary use / except lists.
-/
namespace BufModel.MigrateRules
open BufModel.Path BufModel.Rules BufGen.RuleTables

/-! ### more about `denote` -/

theorem expandOne_mem_isRule (rs : List RuleRow) (u : Id) (e : List Id) (h : expandOne rs u = some e) :
    ∀ id ∈ e, isRuleId rs id = true := by
  unfold expandOne at h
  by_cases h0 : u = ""
  · simp [h0] at h; subst h; intro id hid; cases hid
  · simp only [h0, if_false] at h
    by_cases h1 : isRuleId rs u = true
    · simp [h1] at h; subst h; intro id hid; simp at hid; subst hid; exact h1
    · have h1' : isRuleId rs u = false := by simpa using h1
      simp only [h1', Bool.false_eq_true, if_false] at h
      cases hc : rulesInCategory rs u with
      | nil => simp [hc] at h
      | cons a l =>
        simp [hc] at h; subst h
        intro id hid
        rw [← hc] at hid
        unfold rulesInCategory at hid
        rcases List.mem_map.1 hid with ⟨r, hr, rfl⟩
        exact (isRuleId_iff _ _).2 ⟨r, (List.mem_filter.1 hr).1, rfl⟩

theorem denote_isRule (rs : List RuleRow) (hwf : ReplacementsWF rs) (u x : Id) (hx : x ∈ denote rs u) :
    isRuleId rs x = true := by
  rcases (mem_denote rs u x).1 hx with ⟨e, he, id, hid, hxid⟩
  have hidr := expandOne_mem_isRule rs u e he id hid
  unfold undeprecateOne at hxid
  cases hrep : replacementsOf rs id with
  | none => simp [hrep] at hxid; subst hxid; exact hidr
  | some repl =>
    simp [hrep] at hxid
    rcases replacementsOf_some rs id repl hrep with ⟨d, hd, _, hdep, hrepl⟩
    subst hrepl
    exact (hwf d hd hdep x hxid).2.1

theorem isDeprecatedIn_of_replacementsOf_none (rs : List RuleRow) (x : Id) (h : replacementsOf rs x = none) :
    isDeprecatedIn rs x = false := by
  unfold replacementsOf at h
  unfold isDeprecatedIn
  cases hf : rs.find? (fun r => r.id = x) with
  | none => rfl
  | some d =>
    simp only [hf] at h ⊢
    by_cases hd : d.deprecated = true
    · simp [hd] at h
    · simpa using hd

theorem nonblank_ne_empty {x : Id} (h : blankId x = false) : x ≠ "" := by
  intro hx; subst hx; rw [blank_empty] at h; cases h

/-- A rule id of the table that is not deprecated denotes itself and nothing else. -/
theorem denote_rule (rs : List RuleRow) (hnb : ∀ r ∈ rs, blankId r.id = false) (x : Id)
    (h1 : isRuleId rs x = true) (h2 : replacementsOf rs x = none) :
    blankId x = false ∧ denote rs x = [x] := by
  rcases (isRuleId_iff _ _).1 h1 with ⟨r, hr, rfl⟩
  have hb := hnb r hr
  exact ⟨hb, denote_self rs r.id (nonblank_ne_empty hb) h1 h2⟩

/-! ### the translated lists -/

/-- `x` is, in v2, covered by the translated `except` list. -/
def ExceptCovers (old new : List RuleRow) (exc : List Id) (x : Id) : Prop :=
  ∃ e ∈ translateIds old new exc, blankId e = false ∧ x ∈ denote new e

theorem expectedIds_mem (oldAll newAll : List RuleRow) (lint : Bool) (c : CheckConfig) (E : List Id)
    (hdb : c.disableBuiltin = false) (hold : rulesForType oldAll lint ≠ [])
    (hwf : ReplacementsWF (rulesForType oldAll lint))
    (h : expectedIds oldAll newAll lint c = .ok E) (x : Id) :
    x ∈ E ↔ Selected (rulesForType oldAll lint) c.use c.except x ∧ isRuleId (rulesForType newAll lint) x = true := by
  unfold expectedIds at h
  cases hc : configuredRules oldAll lint false c with
  | error e => simp [hc] at h
  | ok ids =>
    simp only [hc, Except.ok.injEq] at h
    subst h
    rw [List.mem_filter, configuredRules_mem oldAll lint c ids hdb hold hc x]
    constructor
    · rintro ⟨hs, hf⟩
      simp only [Bool.and_eq_true, Bool.not_eq_true'] at hf
      exact ⟨hs, hf.2⟩
    · rintro ⟨hs, hr⟩
      refine ⟨hs, ?_⟩
      have := isDeprecatedIn_of_replacementsOf_none _ x (selected_nondeprecated _ hwf _ _ x hs)
      simp [this, hr]

theorem simpleConfigW_spec (tio : List (Id × List Str) → List (Id × List Str))
    (oldAll newAll : List RuleRow) (lint : Bool) (c simple : CheckConfig)
    (h : simpleConfigW tio oldAll newAll lint c = .ok simple) :
    (∀ x, x ∈ simple.use ↔ x ∈ translateIds (rulesForType oldAll lint) (rulesForType newAll lint) c.use) ∧
    (∀ x, x ∈ simple.except ↔ x ∈ translateIds (rulesForType oldAll lint) (rulesForType newAll lint) c.except) ∧
    simple.disableBuiltin = c.disableBuiltin := by
  unfold simpleConfigW at h
  have S := newEnabledCheckConfig_spec _ _ h
  exact ⟨S.1, S.2.1, S.2.2.2.2.2.2⟩

end BufModel.MigrateRules

namespace BufModel.MigrateRules
open BufModel.Path BufModel.Rules BufGen.RuleTables

/-! ### the repair step of `equivalentCheckConfigInV2` -/

/-- The rule selection of the migrated configuration, for ANY pair of tables satisfying the
    decidable table facts:
      (1) a rule selected before that, in v2, is covered by the translated `except` list is NOT
          selected afterwards (the repair adds it to `use`, `except` wins);
      (2) if no such rule exists, the selection afterwards is exactly the selection before,
          restricted to the rules that exist in v2. -/
theorem migrateCheckW_selected (tio : List (Id × List Str) → List (Id × List Str))
    (oldAll newAll : List RuleRow) (lint : Bool) (c c' : CheckConfig)
    (hdb : c.disableBuiltin = false)
    (hold : rulesForType oldAll lint ≠ []) (hnew : rulesForType newAll lint ≠ [])
    (ok : TablesOK (rulesForType oldAll lint) (rulesForType newAll lint))
    (hm : migrateCheckW tio oldAll newAll lint c = .ok c') :
    c'.disableBuiltin = false ∧
    (∀ x, Selected (rulesForType oldAll lint) c.use c.except x → isRuleId (rulesForType newAll lint) x = true →
      ExceptCovers (rulesForType oldAll lint) (rulesForType newAll lint) c.except x →
      ¬ Selected (rulesForType newAll lint) c'.use c'.except x) ∧
    ((∀ x, Selected (rulesForType oldAll lint) c.use c.except x → isRuleId (rulesForType newAll lint) x = true →
        ¬ ExceptCovers (rulesForType oldAll lint) (rulesForType newAll lint) c.except x) →
      ∀ x, Selected (rulesForType newAll lint) c'.use c'.except x ↔
        (Selected (rulesForType oldAll lint) c.use c.except x ∧ isRuleId (rulesForType newAll lint) x = true)) := by
  -- abbreviations are kept explicit; `old` / `new` below are only names in comments
  unfold migrateCheckW at hm
  cases hE : expectedIds oldAll newAll lint c with
  | error e => simp [hE] at hm
  | ok E =>
    cases hS : simpleConfigW tio oldAll newAll lint c with
    | error e => simp [hE, hS] at hm
    | ok simple =>
      cases hC : configuredRules newAll lint false simple with
      | error e => simp [hE, hS, hC] at hm
      | ok sids =>
        simp only [hE, hS, hC] at hm
        have memE := expectedIds_mem oldAll newAll lint c E hdb hold ok.oldWF hE
        have SS := simpleConfigW_spec tio oldAll newAll lint c simple hS
        have sdb : simple.disableBuiltin = false := by rw [SS.2.2, hdb]
        have memS := configuredRules_mem newAll lint simple sids sdb hnew hC
        -- ExceptCovers in terms of simple.except
        have cov : ∀ x, ExceptCovers (rulesForType oldAll lint) (rulesForType newAll lint) c.except x ↔
            ∃ e ∈ simple.except, blankId e = false ∧ x ∈ denote (rulesForType newAll lint) e := by
          intro x; unfold ExceptCovers
          constructor
          · rintro ⟨e, he, hb, hx⟩; exact ⟨e, (SS.2.1 e).2 he, hb, hx⟩
          · rintro ⟨e, he, hb, hx⟩; exact ⟨e, (SS.2.1 e).1 he, hb, hx⟩
        by_cases heq : E = sids
        · -- the simple translation already selects the expected rules
          simp only [heq, if_true, Except.ok.injEq] at hm
          subst hm
          refine ⟨sdb, ?_, ?_⟩
          · intro x hs hr hcov hsel
            exact hsel.2 ((cov x).1 hcov)
          · intro _ x
            rw [← memS x, ← heq, memE x]
        · simp only [heq, if_false] at hm
          have F := newEnabledCheckConfig_spec _ _ hm
          have fuse : ∀ x, x ∈ c'.use ↔ x ∈ simple.use ∨ (x ∈ E ∧ x ∉ sids) := by
            intro x; rw [F.1 x]; simp [List.mem_filter]
          have fexc : ∀ x, x ∈ c'.except ↔ x ∈ simple.except ∨ (x ∈ sids ∧ x ∉ E) := by
            intro x; rw [F.2.1 x]; simp [List.mem_filter]
          have fdb : c'.disableBuiltin = false := by rw [F.2.2.2.2.2.2]; exact sdb
          -- ids of E and of sids denote themselves in v2
          have selfE : ∀ x ∈ E, blankId x = false ∧ denote (rulesForType newAll lint) x = [x] := by
            intro x hx
            have hx' := (memE x).1 hx
            have hro : isRuleId (rulesForType oldAll lint) x = true := by
              rcases hx'.1.1 with ⟨u, _, hxu⟩
              exact denote_isRule _ ok.oldWF u x hxu
            rcases (isRuleId_iff _ _).1 hro with ⟨r, hr, rfl⟩
            have hnd := isDeprecatedIn_of_replacementsOf_none _ r.id (selected_nondeprecated _ ok.oldWF _ _ _ hx'.1)
            exact denote_rule _ ok.newIdsNonblank r.id hx'.2 (ok.nondepKept r hr hnd hx'.2)
          have selfS : ∀ x ∈ sids, blankId x = false ∧ denote (rulesForType newAll lint) x = [x] := by
            intro x hx
            have hx' := (memS x).1 hx
            have hrn : isRuleId (rulesForType newAll lint) x = true := by
              rcases hx'.1 with ⟨u, _, hxu⟩
              exact denote_isRule _ ok.newWF u x hxu
            exact denote_rule _ ok.newIdsNonblank x hrn (selected_nondeprecated _ ok.newWF _ _ _ hx')
          refine ⟨fdb, ?_, ?_⟩
          · -- (1) `except` wins
            intro x _ _ hcov hsel
            rcases (cov x).1 hcov with ⟨e, he, hb, hx⟩
            exact hsel.2 ⟨e, (fexc e).2 (Or.inl he), hb, hx⟩
          · -- (2)
            intro hno x
            have hnoE : ∀ y ∈ E, ¬ ∃ e ∈ simple.except, blankId e = false ∧ y ∈ denote (rulesForType newAll lint) e := by
              intro y hy hc
              have hy' := (memE y).1 hy
              exact hno y hy'.1 hy'.2 ((cov y).2 hc)
            rw [← memE x]
            -- the except side of the final configuration
            have hX : (∃ e ∈ c'.except, blankId e = false ∧ x ∈ denote (rulesForType newAll lint) e) ↔
                (∃ e ∈ simple.except, blankId e = false ∧ x ∈ denote (rulesForType newAll lint) e) ∨
                (x ∈ sids ∧ x ∉ E) := by
              constructor
              · rintro ⟨e, he, hb, hx⟩
                rcases (fexc e).1 he with he | ⟨hes, heE⟩
                · exact Or.inl ⟨e, he, hb, hx⟩
                · rw [(selfS e hes).2] at hx
                  simp at hx; subst hx; exact Or.inr ⟨hes, heE⟩
              · rintro (⟨e, he, hb, hx⟩ | ⟨hxs, hxE⟩)
                · exact ⟨e, (fexc e).2 (Or.inl he), hb, hx⟩
                · exact ⟨x, (fexc x).2 (Or.inr ⟨hxs, hxE⟩), (selfS x hxs).1, by rw [(selfS x hxs).2]; simp⟩
            -- the use side
            by_cases hb : ∀ u ∈ simple.use, blankId u = true
            · -- `use` was (effectively) absent after translation
              by_cases hmiss : ∃ m, m ∈ E ∧ m ∉ sids
              · -- impossible under `hno`
                exfalso
                rcases hmiss with ⟨m, hmE, hmS⟩
                have hm' := (memE m).1 hmE
                rcases hm'.1.1 with ⟨u, hu, hmu⟩
                rcases (mem_effectiveUse _ _ _).1 hu with ⟨hall, hud⟩ | ⟨_, huc, hub⟩
                · -- m comes from the defaults of the old version
                  unfold defaultIds at hud
                  rcases List.mem_map.1 hud with ⟨r, hr, rfl⟩
                  have hr' := List.mem_filter.1 hr
                  have hd := ok.defaults r hr'.1 hr'.2
                  have hrb := ok.oldIdsNonblank r hr'.1
                  have : denote (rulesForType oldAll lint) r.id = [r.id] :=
                    denote_self _ r.id (nonblank_ne_empty hrb) ((isRuleId_iff _ _).2 ⟨r, hr'.1, rfl⟩) hd.1
                  rw [this] at hmu; simp at hmu; subst hmu
                  -- m is a default of v2, so the simple translation selects it unless `except` covers it
                  have hmd : r.id ∈ defaultIds (rulesForType newAll lint) := hd.2 hm'.2
                  have hU : ∃ u ∈ effectiveUse (rulesForType newAll lint) simple.use, r.id ∈ denote (rulesForType newAll lint) u :=
                    ⟨r.id, (mem_effectiveUse _ _ _).2 (Or.inl ⟨hb, hmd⟩), by rw [(selfE _ hmE).2]; simp⟩
                  have : ¬ Selected (rulesForType newAll lint) simple.use simple.except r.id := fun h => hmS ((memS _).2 h)
                  apply hnoE _ hmE
                  by_cases hc : ∃ e ∈ simple.except, blankId e = false ∧ r.id ∈ denote (rulesForType newAll lint) e
                  · exact hc
                  · exact absurd ⟨hU, hc⟩ this
                · -- m comes from a non-blank id of `use`, whose translation keeps a non-blank id
                  have hu0 : u ≠ "" := nonblank_ne_empty hub
                  rcases (mem_denote _ u m).1 hmu with ⟨e, he, _⟩
                  have huU := mem_idUniverse_of_expandOne _ u e hu0 he
                  have hk := ok.translateKeeps u huU m hmu hm'.2
                  rcases List.any_eq_true.1 hk with ⟨t, ht, htb⟩
                  have hts : t ∈ simple.use := (SS.1 t).2 (by
                    unfold translateIds; exact List.mem_flatMap.2 ⟨u, huc, ht⟩)
                  have := hb t hts
                  simp [this] at htb
              · -- nothing is missing: `use` stays as it is
                have hmiss' : ∀ m, m ∈ E → m ∈ sids := by
                  intro m hmE
                  by_cases hms : m ∈ sids
                  · exact hms
                  · exact absurd ⟨m, hmE, hms⟩ hmiss
                have hb' : ∀ u ∈ c'.use, blankId u = true := by
                  intro u hu
                  rcases (fuse u).1 hu with h | ⟨hE', hS'⟩
                  · exact hb u h
                  · exact absurd (hmiss' u hE') hS'
                have hU : (∃ u ∈ effectiveUse (rulesForType newAll lint) c'.use, x ∈ denote (rulesForType newAll lint) u) ↔
                    (∃ u ∈ effectiveUse (rulesForType newAll lint) simple.use, x ∈ denote (rulesForType newAll lint) u) := by
                  constructor
                  · rintro ⟨u, hu, hx⟩
                    rcases (mem_effectiveUse _ _ _).1 hu with ⟨_, hud⟩ | ⟨hn, _⟩
                    · exact ⟨u, (mem_effectiveUse _ _ _).2 (Or.inl ⟨hb, hud⟩), hx⟩
                    · exact absurd hb' hn
                  · rintro ⟨u, hu, hx⟩
                    rcases (mem_effectiveUse _ _ _).1 hu with ⟨_, hud⟩ | ⟨hn, _⟩
                    · exact ⟨u, (mem_effectiveUse _ _ _).2 (Or.inl ⟨hb', hud⟩), hx⟩
                    · exact absurd hb hn
                unfold Selected
                rw [hU, hX]
                constructor
                · rintro ⟨hu, hnx⟩
                  have hsel : Selected (rulesForType newAll lint) simple.use simple.except x :=
                    ⟨hu, fun hc => hnx (Or.inl hc)⟩
                  have hxs := (memS x).2 hsel
                  by_cases hxE : x ∈ E
                  · exact hxE
                  · exact absurd (Or.inr ⟨hxs, hxE⟩) hnx
                · intro hxE
                  have hxs := hmiss' x hxE
                  have hsel := (memS x).1 hxs
                  refine ⟨hsel.1, ?_⟩
                  rintro (hc | ⟨_, hn⟩)
                  · exact hsel.2 hc
                  · exact hn hxE
            · -- `use` has a non-blank id after translation: the missing ids are added to it
              have hb' : ¬ ∀ u ∈ c'.use, blankId u = true := by
                intro hall; apply hb
                intro u hu; exact hall u ((fuse u).2 (Or.inl hu))
              have hU : (∃ u ∈ effectiveUse (rulesForType newAll lint) c'.use, x ∈ denote (rulesForType newAll lint) u) ↔
                  (∃ u ∈ effectiveUse (rulesForType newAll lint) simple.use, x ∈ denote (rulesForType newAll lint) u) ∨
                  (x ∈ E ∧ x ∉ sids) := by
                constructor
                · rintro ⟨u, hu, hx⟩
                  rcases (mem_effectiveUse _ _ _).1 hu with ⟨ha, _⟩ | ⟨_, huc, hub⟩
                  · exact absurd ha hb'
                  · rcases (fuse u).1 huc with hus | ⟨huE, huS⟩
                    · exact Or.inl ⟨u, (mem_effectiveUse _ _ _).2 (Or.inr ⟨hb, hus, hub⟩), hx⟩
                    · rw [(selfE u huE).2] at hx; simp at hx; subst hx; exact Or.inr ⟨huE, huS⟩
                · rintro (⟨u, hu, hx⟩ | ⟨hxE, hxS⟩)
                  · rcases (mem_effectiveUse _ _ _).1 hu with ⟨ha, _⟩ | ⟨_, huc, hub⟩
                    · exact absurd ha hb
                    · exact ⟨u, (mem_effectiveUse _ _ _).2 (Or.inr ⟨hb', (fuse u).2 (Or.inl huc), hub⟩), hx⟩
                  · exact ⟨x, (mem_effectiveUse _ _ _).2 (Or.inr ⟨hb', (fuse x).2 (Or.inr ⟨hxE, hxS⟩), (selfE x hxE).1⟩),
                      by rw [(selfE x hxE).2]; simp⟩
              unfold Selected
              rw [hU, hX]
              constructor
              · rintro ⟨hu, hnx⟩
                rcases hu with hu | ⟨hxE, _⟩
                · have hsel : Selected (rulesForType newAll lint) simple.use simple.except x :=
                    ⟨hu, fun hc => hnx (Or.inl hc)⟩
                  have hxs := (memS x).2 hsel
                  by_cases hxE : x ∈ E
                  · exact hxE
                  · exact absurd (Or.inr ⟨hxs, hxE⟩) hnx
                · exact hxE
              · intro hxE
                constructor
                · by_cases hxs : x ∈ sids
                  · exact Or.inl ((memS x).1 hxs).1
                  · exact Or.inr ⟨hxE, hxs⟩
                · rintro (hc | ⟨_, hn⟩)
                  · exact hnoE x hxE hc
                  · exact hn hxE

end BufModel.MigrateRules

namespace BufModel.MigrateRules
open BufModel.Path BufModel.Rules BufGen.RuleTables

/-! ### the side condition as a Bool, and `selectedIds` -/

/-- `ExceptCovers`, decidable. -/
def coveredB (old new : List RuleRow) (exc : List Id) (x : Id) : Bool :=
  (translateIds old new exc).any fun e => !blankId e && (denote new e).contains x

theorem coveredB_iff (old new : List RuleRow) (exc : List Id) (x : Id) :
    coveredB old new exc x = true ↔ ExceptCovers old new exc x := by
  unfold coveredB ExceptCovers
  simp [List.any_eq_true]

theorem selectedIds_ok (all : List RuleRow) (lint : Bool) (c : CheckConfig) (S : List Id)
    (hdb : c.disableBuiltin = false) (hrs : rulesForType all lint ≠ [])
    (h : selectedIds all lint c = .ok S) (x : Id) :
    x ∈ S ↔ Selected (rulesForType all lint) c.use c.except x := by
  unfold selectedIds at h
  simp only [hdb, Bool.false_eq_true, if_false] at h
  cases hr : newRulesConfig all lint c with
  | error e => simp [hr] at h
  | ok rc =>
    simp only [hr, Except.ok.injEq] at h
    subst h
    exact newRulesConfig_sel all lint c rc hrs hr x

theorem selectedIds_disabled (all : List RuleRow) (lint : Bool) (c : CheckConfig)
    (hdb : c.disableBuiltin = true) : selectedIds all lint c = .ok [] := by
  unfold selectedIds
  simp only [hdb, if_true]
  have : newRulesConfig [] lint c = .ok { ruleIDs := [], ignoreRootPaths := [], ignoreOnly := [] } := by
    unfold newRulesConfig newRulesConfigCore; simp [rulesForType]
  simp [this]

/-- A configuration the migrator accepts is accepted by the rule selection of its own version. -/
theorem selectedIds_of_migrateCheckW (tio : List (Id × List Str) → List (Id × List Str))
    (oldAll newAll : List RuleRow) (lint : Bool) (c c' : CheckConfig)
    (hm : migrateCheckW tio oldAll newAll lint c = .ok c') : ∃ S, selectedIds oldAll lint c = .ok S := by
  unfold migrateCheckW at hm
  cases hE : expectedIds oldAll newAll lint c with
  | error e => simp [hE] at hm
  | ok E =>
    unfold expectedIds at hE
    cases hc : configuredRules oldAll lint false c with
    | error e => simp [hc] at hE
    | ok ids =>
      unfold configuredRules resolve at hc
      simp only [Bool.false_eq_true, if_false] at hc
      unfold selectedIds
      cases hr : newRulesConfig (if c.disableBuiltin = true then [] else oldAll) lint c with
      | error e => simp [hr] at hc
      | ok rc => exact ⟨rc.ruleIDs, rfl⟩

/-- With `disable_builtin` the migrated configuration is the plain translation and keeps the flag. -/
theorem migrateCheckW_disableBuiltin (tio : List (Id × List Str) → List (Id × List Str))
    (oldAll newAll : List RuleRow) (lint : Bool) (c c' : CheckConfig)
    (hdb : c.disableBuiltin = true) (hm : migrateCheckW tio oldAll newAll lint c = .ok c') :
    c'.disableBuiltin = true := by
  unfold migrateCheckW at hm
  have hE : expectedIds oldAll newAll lint c = .ok [] := by
    unfold expectedIds; rw [configuredRules_disabled oldAll lint c hdb]; rfl
  simp only [hE] at hm
  cases hS : simpleConfigW tio oldAll newAll lint c with
  | error e => simp [hS] at hm
  | ok simple =>
    have sdb : simple.disableBuiltin = true := by
      rw [(simpleConfigW_spec tio oldAll newAll lint c simple hS).2.2, hdb]
    simp only [hS, configuredRules_disabled newAll lint simple sdb, if_true, Except.ok.injEq] at hm
    subst hm; exact sdb

/-! ### the as-coded instance -/

theorem migrateCheck_selected (oldAll newAll : List RuleRow) (lint : Bool) (c c' : CheckConfig)
    (hdb : c.disableBuiltin = false)
    (hold : rulesForType oldAll lint ≠ []) (hnew : rulesForType newAll lint ≠ [])
    (ok : TablesOK (rulesForType oldAll lint) (rulesForType newAll lint))
    (hm : migrateCheck oldAll newAll lint c = .ok c') :
    c'.disableBuiltin = false ∧
    (∀ x, Selected (rulesForType oldAll lint) c.use c.except x → isRuleId (rulesForType newAll lint) x = true →
      ExceptCovers (rulesForType oldAll lint) (rulesForType newAll lint) c.except x →
      ¬ Selected (rulesForType newAll lint) c'.use c'.except x) ∧
    ((∀ x, Selected (rulesForType oldAll lint) c.use c.except x → isRuleId (rulesForType newAll lint) x = true →
        ¬ ExceptCovers (rulesForType oldAll lint) (rulesForType newAll lint) c.except x) →
      ∀ x, Selected (rulesForType newAll lint) c'.use c'.except x ↔
        (Selected (rulesForType oldAll lint) c.use c.except x ∧ isRuleId (rulesForType newAll lint) x = true)) :=
  migrateCheckW_selected _ oldAll newAll lint c c' hdb hold hnew ok hm

theorem selectedIds_of_migrateCheck (oldAll newAll : List RuleRow) (lint : Bool) (c c' : CheckConfig)
    (hm : migrateCheck oldAll newAll lint c = .ok c') : ∃ S, selectedIds oldAll lint c = .ok S :=
  selectedIds_of_migrateCheckW _ oldAll newAll lint c c' hm

theorem migrateCheck_disableBuiltin (oldAll newAll : List RuleRow) (lint : Bool) (c c' : CheckConfig)
    (hdb : c.disableBuiltin = true) (hm : migrateCheck oldAll newAll lint c = .ok c') :
    c'.disableBuiltin = true :=
  migrateCheckW_disableBuiltin _ oldAll newAll lint c c' hdb hm

/-! ### the repaired rule selection (`migrateCheckFixed`) -/

/-- After the repair the migrated configuration selects EXACTLY the rules selected before that
    exist in v2 — no side condition on `except`. -/
theorem migrateCheckFixed_selected (fixIo : Bool) (oldAll newAll : List RuleRow) (lint : Bool) (c c' : CheckConfig)
    (hdb : c.disableBuiltin = false)
    (hold : rulesForType oldAll lint ≠ []) (hnew : rulesForType newAll lint ≠ [])
    (ok : TablesOK (rulesForType oldAll lint) (rulesForType newAll lint))
    (hm : migrateCheckFixed fixIo oldAll newAll lint c = .ok c') :
    c'.disableBuiltin = false ∧
    ∀ x, Selected (rulesForType newAll lint) c'.use c'.except x ↔
      (Selected (rulesForType oldAll lint) c.use c.except x ∧ isRuleId (rulesForType newAll lint) x = true) := by
  unfold migrateCheckFixed at hm
  simp only at hm
  cases hE : expectedIds oldAll newAll lint c with
  | error e => simp [hE] at hm
  | ok E =>
    have memE := expectedIds_mem oldAll newAll lint c E hdb hold ok.oldWF hE
    cases hW : migrateCheckW (tioOf fixIo (rulesForType oldAll lint) (rulesForType newAll lint)) oldAll newAll lint c with
    | error e => simp [hE, hW] at hm
    | ok repaired =>
      have W := migrateCheckW_selected _ oldAll newAll lint c repaired hdb hold hnew ok hW
      cases hC : configuredRules newAll lint false repaired with
      | error e => simp [hE, hW, hC] at hm
      | ok ids =>
        simp only [hE, hW, hC] at hm
        have memI := configuredRules_mem newAll lint repaired ids W.1 hnew hC
        by_cases heq : ids = E
        · simp only [heq, if_true, Except.ok.injEq] at hm
          subst hm
          refine ⟨W.1, fun x => ?_⟩
          rw [← memI x, heq, memE x]
        · simp only [heq, if_false] at hm
          cases hS : simpleConfigW (tioOf fixIo (rulesForType oldAll lint) (rulesForType newAll lint)) oldAll newAll lint c with
          | error e => simp [hS] at hm
          | ok simple =>
            simp only [hS] at hm
            have SS := simpleConfigW_spec _ oldAll newAll lint c simple hS
            have F := newEnabledCheckConfig_spec _ _ hm
            -- E is not empty: otherwise the as-coded repair already selects nothing
            have hne : ∃ m, m ∈ E := by
              cases hEl : E with
              | cons m _ => exact ⟨m, by simp⟩
              | nil =>
                exfalso
                apply heq
                have hnone : ∀ x, Selected (rulesForType oldAll lint) c.use c.except x →
                    isRuleId (rulesForType newAll lint) x = true →
                    ¬ ExceptCovers (rulesForType oldAll lint) (rulesForType newAll lint) c.except x := by
                  intro x hs hr _
                  have := (memE x).2 ⟨hs, hr⟩
                  rw [hEl] at this; cases this
                have hsel := W.2.2 hnone
                cases hids : ids with
                | nil => exact hEl.symm
                | cons y ys =>
                  have hy : y ∈ ids := by rw [hids]; simp
                  have := (memE y).2 ((hsel y).1 ((memI y).1 hy))
                  rw [hEl] at this; cases this
            have selfE : ∀ x ∈ E, blankId x = false ∧ denote (rulesForType newAll lint) x = [x] := by
              intro x hx
              have hx' := (memE x).1 hx
              have hro : isRuleId (rulesForType oldAll lint) x = true := by
                rcases hx'.1.1 with ⟨u, _, hxu⟩
                exact denote_isRule _ ok.oldWF u x hxu
              rcases (isRuleId_iff _ _).1 hro with ⟨r, hr, rfl⟩
              have hnd := isDeprecatedIn_of_replacementsOf_none _ r.id (selected_nondeprecated _ ok.oldWF _ _ _ hx'.1)
              exact denote_rule _ ok.newIdsNonblank r.id hx'.2 (ok.nondepKept r hr hnd hx'.2)
            have fuse : ∀ x, x ∈ c'.use ↔ x ∈ E := fun x => F.1 x
            have fexc : ∀ x, ¬ x ∈ c'.except := by intro x hx; have := (F.2.1 x).1 hx; cases this
            have fdb : c'.disableBuiltin = false := by rw [F.2.2.2.2.2.2, SS.2.2, hdb]
            refine ⟨fdb, fun x => ?_⟩
            rw [← memE x]
            have hnb : ¬ ∀ u ∈ c'.use, blankId u = true := by
              intro hall
              rcases hne with ⟨m, hm'⟩
              have := hall m ((fuse m).2 hm')
              rw [(selfE m hm').1] at this; cases this
            unfold Selected
            constructor
            · rintro ⟨⟨u, hu, hx⟩, _⟩
              rcases (mem_effectiveUse _ _ _).1 hu with ⟨ha, _⟩ | ⟨_, huc, _⟩
              · exact absurd ha hnb
              · have huE := (fuse u).1 huc
                rw [(selfE u huE).2] at hx; simp at hx; subst hx; exact huE
            · intro hxE
              refine ⟨⟨x, (mem_effectiveUse _ _ _).2 (Or.inr ⟨hnb, (fuse x).2 hxE, (selfE x hxE).1⟩),
                by rw [(selfE x hxE).2]; simp⟩, ?_⟩
              rintro ⟨e, he, _⟩
              exact fexc e he

end BufModel.MigrateRules

namespace BufModel.MigrateRules
open BufModel.Path BufModel.Rules BufGen.RuleTables

theorem selectedIds_of_expectedIds (oldAll newAll : List RuleRow) (lint : Bool) (c : CheckConfig) (E : List Id)
    (hE : expectedIds oldAll newAll lint c = .ok E) : ∃ S, selectedIds oldAll lint c = .ok S := by
  unfold expectedIds at hE
  cases hc : configuredRules oldAll lint false c with
  | error e => simp [hc] at hE
  | ok ids =>
    unfold configuredRules resolve at hc
    simp only [Bool.false_eq_true, if_false] at hc
    unfold selectedIds
    cases hr : newRulesConfig (if c.disableBuiltin = true then [] else oldAll) lint c with
    | error e => simp [hr] at hc
    | ok rc => exact ⟨rc.ruleIDs, rfl⟩

theorem migrateCheckFixed_disableBuiltin (fixIo : Bool) (oldAll newAll : List RuleRow) (lint : Bool) (c c' : CheckConfig)
    (hdb : c.disableBuiltin = true) (hm : migrateCheckFixed fixIo oldAll newAll lint c = .ok c') :
    c'.disableBuiltin = true := by
  unfold migrateCheckFixed at hm
  simp only at hm
  have hE : expectedIds oldAll newAll lint c = .ok [] := by
    unfold expectedIds; rw [configuredRules_disabled oldAll lint c hdb]; rfl
  simp only [hE] at hm
  cases hW : migrateCheckW (tioOf fixIo (rulesForType oldAll lint) (rulesForType newAll lint)) oldAll newAll lint c with
  | error e => simp [hW] at hm
  | ok repaired =>
    have rdb := migrateCheckW_disableBuiltin _ oldAll newAll lint c repaired hdb hW
    simp only [hW, configuredRules_disabled newAll lint repaired rdb, if_true, Except.ok.injEq] at hm
    subst hm; exact rdb

theorem selectedIds_of_migrateCheckFixed (fixIo : Bool) (oldAll newAll : List RuleRow) (lint : Bool) (c c' : CheckConfig)
    (hm : migrateCheckFixed fixIo oldAll newAll lint c = .ok c') : ∃ S, selectedIds oldAll lint c = .ok S := by
  unfold migrateCheckFixed at hm
  simp only at hm
  cases hE : expectedIds oldAll newAll lint c with
  | error e => simp [hE] at hm
  | ok E => exact selectedIds_of_expectedIds oldAll newAll lint c E hE

end BufModel.MigrateRules
