import Driver.Util
/-
  Driver.C16Node — the structured-value format shared with harness/internal/nd:
  tokens separated by single spaces; "(" ... ")" is a list, any other token a hex atom
  ("-" = empty string).  Records are positional lists.
-/
namespace Driver.C16Node

inductive Node where
  | atom (s : List Char)
  | list (xs : List Node)
  deriving Inhabited

/-- Parse tokens with an explicit stack of open lists (each kept reversed). -/
def parseToks : List String → List (List Node) → Option Node
  | [], _ => none
  | t :: ts, stack =>
    if t = "(" then parseToks ts ([] :: stack)
    else if t = ")" then
      match stack with
      | [] => none
      | top :: [] => if ts = [] then some (.list top.reverse) else none
      | top :: parent :: rest => parseToks ts ((.list top.reverse :: parent) :: rest)
    else
      match Driver.hexDecode t with
      | none => none
      | some s =>
        match stack with
        | [] => if ts = [] then some (.atom s.toList) else none
        | top :: rest => parseToks ts ((.atom s.toList :: top) :: rest)

def parse (s : String) : Option Node :=
  parseToks ((s.splitOn " ").filter (· ≠ "")) []

partial def render : Node → String
  | .atom s => Driver.enc (String.ofList s)
  | .list xs => "(" ++ String.join (xs.map fun x => " " ++ render x) ++ " )"

def A (s : List Char) : Node := .atom s
def B (b : Bool) : Node := .atom (if b then ['1'] else ['0'])
def L (xs : List Node) : Node := .list xs
def strs (ss : List (List Char)) : Node := .list (ss.map .atom)

def Node.asAtom : Node → Option (List Char)
  | .atom s => some s | _ => none
def Node.asList : Node → Option (List Node)
  | .list xs => some xs | _ => none
def Node.asBool (n : Node) : Option Bool :=
  match n with
  | .atom ['1'] => some true | .atom ['0'] => some false | _ => none
def Node.asStrs (n : Node) : Option (List (List Char)) :=
  match n with
  | .list xs => xs.mapM Node.asAtom | _ => none

end Driver.C16Node
