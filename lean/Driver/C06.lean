import BufModel.Rules
import BufModel.RulesWorkspace
import Driver.Util
/-
  Line protocol for C06 (rule selection and suppression).  Lists: "_" = empty list, otherwise
  ','-separated hex strings ("-" = the empty string).

    rules <ver> <l|b> <validated 0|1> <disableBuiltin 0|1> <use> <except> <ignore> <ignoreOnly>
        ignoreOnly : "_" | ';'-separated  <hexkey>=<paths list>
        -> ok <id>,<id>,...   (Client.ConfiguredRules order)   |  err <class>

    check <ver> <l|b> <validated> <disableBuiltin> <use> <except> <ignore> <ignoreOnly> <opts>
          <files> <againstFiles> <annots>
        opts   : three 0/1 digits: allow_comment_ignores, ignore_unstable_packages, exclude-imports
        files  : "_" | ';'-separated <hexpath>:<import 0|1>:<unstable 0|1>:<comments>
                 comments : "_" | '|'-separated <sourcepath>=<hex leading comments>
                 sourcepath : '.'-separated naturals ("e" = empty)
        annots : "_" | ';'-separated <ruleid>:<loc>:<againstloc>:<hexmessage>
                 loc : "-" | <fileindex>/<sourcepath>/<startLine>/<startCol>/<endLine>/<endCol>  (0-based)
        -> ok <fa>;<fa>;...  with fa = <hexpath|~>:<sl>:<sc>:<el>:<ec>:<type>:<hexmessage>  |  err <class>
        (lint: annotations located in a file whose import bit is 1 are dropped before anything
         else - `runCheckH` / `handlerView`: lint handlers never see import files)

    ycheck <ver> <l|b> <hexModuleDir> <wsSection> <modSection> <exclude-imports 0|1>
           <files> <againstFiles> <annots>
        section : "_" (absent / empty) | use '|' except '|' ignore '|' ignoreOnly '|' <hex enum_zero_value_suffix>
                  '|' <hex service_suffix> '|' six 0/1 digits: rpc_allow_same_request_response,
                  rpc_allow_google_protobuf_empty_requests, …_responses, allow_/disallow_comment_ignores,
                  ignore_unstable_packages, disable_builtin
        -> err config                                   (reading the buf.yaml fails)
         | cfg <eff> top <eff|none> rep ok <fa>;…       (module config, top-level config, report)
         | cfg <eff> top <eff|none> rep err <class>
    ykeys <ver> <l|b> <hexModuleDir> <wsSection> <modSection>
        -> err config | cfg <eff> rules ok <id>,<id>,…  (Client.ConfiguredRules on the module's config)
         | cfg <eff> rules err <class>
    keytab <ver> <l|b>
        -> rules <id>,…  cats <id>,…      (sorted: every id `use` / `except` / `ignore_only` accept
                                            for that rule type in that version)
    ymulti <l|b> <wsSection> (<hexModulePath> <modSection>)*        (v2 only; TAB-separated pairs, file order)
        -> err config
         | m <hexDir> <eff> ; m <hexDir> <eff> ; … top <eff|none>   (BufYAMLFile.ModuleConfigs order: stable by DirPath)
        every module is converted from the same workspace-level section VALUE (`readYamlMulti`)
    directive <hex leading comment> <ruleid>,<ruleid>,…
        -> one 0/1 digit per rule id: the comment names the rule (`commentNames`, prefix buf:lint:ignore)
        eff : d=<disabled> u=<use> x=<except> g=<ignore> o=<ignoreOnly sorted by key> f=<aci><iup><db><same><ereq><eresp>
              z=<hex suffix> s=<hex suffix>
-/
namespace Driver.C06
open BufModel.Rules BufModel.Path BufGen.RuleTables Driver

def s2l (s : String) : List Char := s.toList
def l2s (l : List Char) : String := String.ofList l

def parseList (s : String) : Option (List String) :=
  if s = "_" then some [] else (s.splitOn ",").mapM hexDecode

def parseBool (s : String) : Option Bool :=
  if s = "1" then some true else if s = "0" then some false else none

def parseVer (s : String) : Option Version :=
  if s = "v1beta1" then some .v1beta1 else if s = "v1" then some .v1 else if s = "v2" then some .v2 else none

def parseType (s : String) : Option Bool :=
  if s = "l" then some true else if s = "b" then some false else none

def parseIgnoreOnly (s : String) : Option (List (Id × List Str)) :=
  if s = "_" then some [] else
  (s.splitOn ";").mapM fun e =>
    match e.splitOn "=" with
    | [k, ps] => do
        let k' ← hexDecode k
        let ps' ← parseList ps
        pure (k', ps'.map s2l)
    | _ => none

def parseCfg (db use exc ign io : String) : Option CheckConfig := do
  let db ← parseBool db
  let use ← parseList use
  let exc ← parseList exc
  let ign ← parseList ign
  let io ← parseIgnoreOnly io
  pure { use := use, except := exc, ignore := ign.map s2l, ignoreOnly := io, disableBuiltin := db }

def parseSPath (s : String) : Option SPath :=
  if s = "e" then some [] else (s.splitOn ".").mapM String.toNat?

def parseComments (s : String) : Option (List (SPath × Str)) :=
  if s = "_" then some [] else
  (s.splitOn "|").mapM fun e =>
    match e.splitOn "=" with
    | [p, c] => do
        let p' ← parseSPath p
        let c' ← hexDecode c
        pure (p', s2l c')
    | _ => none

def parseFiles (s : String) : Option (List FileInfo) :=
  if s = "_" then some [] else
  (s.splitOn ";").mapM fun e =>
    match e.splitOn ":" with
    | [p, imp, un, cs] => do
        let p' ← hexDecode p
        let imp' ← parseBool imp
        let un' ← parseBool un
        let cs' ← parseComments cs
        pure { path := s2l p', isImport := imp', unstable := un', comments := cs' }
    | _ => none

def parseLoc (s : String) : Option (Option Loc) :=
  if s = "-" then some none else
  match s.splitOn "/" with
  | [f, sp, sl, sc, el, ec] => do
      let f' ← f.toNat?
      let sp' ← parseSPath sp
      let sl' ← sl.toNat?
      let sc' ← sc.toNat?
      let el' ← el.toNat?
      let ec' ← ec.toNat?
      pure (some { file := f', sourcePath := sp', startLine := sl', startCol := sc', endLine := el', endCol := ec' })
  | _ => none

def parseAnnots (s : String) : Option (List Annot) :=
  if s = "_" then some [] else
  (s.splitOn ";").mapM fun e =>
    match e.splitOn ":" with
    | [r, l, a, m] => do
        let l' ← parseLoc l
        let a' ← parseLoc a
        let m' ← hexDecode m
        pure { ruleId := r, loc := l', against := a', message := m' }
    | _ => none

def showFA (fa : FileAnnot) : String :=
  let p := match fa.path with
    | none => "~"
    | some p => enc (l2s p)
  ":".intercalate [p, toString fa.startLine, toString fa.startCol, toString fa.endLine,
    toString fa.endCol, fa.type, enc fa.message]

def parseSection (s : String) : Option YSection :=
  if s = "_" then some {} else
  match s.splitOn "|" with
  | [use, exc, ign, io, ezs, ss, bits] => do
      let use ← parseList use
      let exc ← parseList exc
      let ign ← parseList ign
      let io ← parseIgnoreOnly io
      let ezs ← hexDecode ezs
      let ss ← hexDecode ss
      match ← bits.toList.mapM (fun ch => parseBool ch.toString) with
      | [same, ereq, eresp, cf, iup, db] =>
        pure { use := use, except := exc, ignore := ign.map s2l, ignoreOnly := io,
               enumZeroValueSuffix := s2l ezs, serviceSuffix := s2l ss,
               rpcAllowSameRequestResponse := same, rpcAllowGoogleProtobufEmptyRequests := ereq,
               rpcAllowGoogleProtobufEmptyResponses := eresp, commentFlag := cf,
               ignoreUnstablePackages := iup, disableBuiltin := db }
      | _ => none
  | _ => none

def showList (l : List String) : String :=
  if l.isEmpty then "_" else ",".intercalate (l.map enc)

def showIgnoreOnly (io : List (Id × List Str)) : String :=
  if io.isEmpty then "_" else
  ";".intercalate ((sortS (fun a b => decide (a.1 < b.1)) io).map fun e => enc e.1 ++ "=" ++ showList (e.2.map l2s))

def b01 (b : Bool) : String := if b then "1" else "0"

def showEff (e : EffConfig) : String :=
  " ".intercalate [
    "d=" ++ b01 e.disabled, "u=" ++ showList e.check.use, "x=" ++ showList e.check.except,
    "g=" ++ showList (e.check.ignore.map l2s), "o=" ++ showIgnoreOnly e.check.ignoreOnly,
    "f=" ++ b01 e.allowCommentIgnores ++ b01 e.ignoreUnstablePackages ++ b01 e.check.disableBuiltin ++
      b01 e.rpcAllowSameRequestResponse ++ b01 e.rpcAllowGoogleProtobufEmptyRequests ++
      b01 e.rpcAllowGoogleProtobufEmptyResponses,
    "z=" ++ enc (l2s e.enumZeroValueSuffix), "s=" ++ enc (l2s e.serviceSuffix)]

def handle : List String → String
  | ["rules", ver, ty, val, db, use, exc, ign, io] =>
    match parseVer ver, parseType ty, parseBool val, parseCfg db use exc ign io with
    | some v, some lint, some validated, some c =>
      (match configuredRules (rulesOf v) lint validated c with
       | .ok ids => "ok " ++ ",".intercalate ids
       | .error e => "err " ++ e.tag)
    | _, _, _, _ => "bad-op"
  | ["check", ver, ty, val, db, use, exc, ign, io, opts, files, afiles, annots] =>
    match parseVer ver, parseType ty, parseBool val, parseCfg db use exc ign io,
          opts.toList.mapM (fun ch => parseBool ch.toString), parseFiles files, parseFiles afiles, parseAnnots annots with
    | some v, some lint, some validated, some c, some [aci, iup, exi], some fs, some afs, some as =>
      let img : Image := { files := fs, againstFiles := afs, annots := as }
      (match runCheckH (rulesOf v) lint validated c aci iup exi img with
       | .ok fas => "ok " ++ ";".intercalate (fas.map showFA)
       | .error e => "err " ++ e.tag)
    | _, _, _, _, _, _, _, _ => "bad-op"
  | ["ycheck", ver, ty, dir, ws, md, exi, files, afiles, annots] =>
    match parseVer ver, parseType ty, hexDecode dir, parseSection ws, parseSection md, parseBool exi,
          parseFiles files, parseFiles afiles, parseAnnots annots with
    | some v, some lint, some dir, some ws, some md, some exi, some fs, some afs, some as =>
      let img : Image := { files := fs, againstFiles := afs, annots := as }
      (match readYaml lint (v == .v2) (s2l dir) ws md with
       | .error e => "err " ++ e.tag
       | .ok (eff, top) =>
         let topS := match top with
           | none => "none"
           | some t => showEff t
         let rep := match runEffH (rulesOf v) lint eff exi img with
           | .ok fas => "ok " ++ ";".intercalate (fas.map showFA)
           | .error e => "err " ++ e.tag
         "cfg " ++ showEff eff ++ " top " ++ topS ++ " rep " ++ rep)
    | _, _, _, _, _, _, _, _, _ => "bad-op"
  | ["ykeys", ver, ty, dir, ws, md] =>
    match parseVer ver, parseType ty, hexDecode dir, parseSection ws, parseSection md with
    | some v, some lint, some dir, some ws, some md =>
      (match readYaml lint (v == .v2) (s2l dir) ws md with
       | .error e => "err " ++ e.tag
       | .ok (eff, _) =>
         let rep := match configuredEff (rulesOf v) lint eff with
           | .ok ids => "ok " ++ ",".intercalate ids
           | .error e => "err " ++ e.tag
         "cfg " ++ showEff eff ++ " rules " ++ rep)
    | _, _, _, _, _ => "bad-op"
  | ["keytab", ver, ty] =>
    match parseVer ver, parseType ty with
    | some v, some lint =>
      let rs := rulesForType (rulesOf v) lint
      "rules " ++ ",".intercalate (usIds (ruleIdsOf rs)) ++ " cats " ++ ",".intercalate (usIds (categoryIdsOf rs))
    | _, _ => "bad-op"
  | "ymulti" :: ty :: ws :: rest =>
    let rec pairs : List String → Option (List (Str × YSection))
      | [] => some []
      | [_] => none
      | d :: sec :: more => do
          let d' ← hexDecode d
          let sec' ← parseSection sec
          let more' ← pairs more
          pure ((s2l d', sec') :: more')
    match parseType ty, parseSection ws, pairs rest with
    | some lint, some ws, some mods =>
      (match readYamlMulti lint ws mods with
       | .error e => "err " ++ e.tag
       | .ok (ms, top) =>
         let topS := match top with
           | none => "none"
           | some t => showEff t
         " ; ".intercalate (ms.map fun m => "m " ++ enc (l2s m.1) ++ " " ++ showEff m.2) ++ " top " ++ topS)
    | _, _, _ => "bad-op"
  | ["directive", comment, rules] =>
    match hexDecode comment with
    | some c =>
      String.join ((rules.splitOn ",").map fun r => b01 (commentNames lintCommentIgnorePrefix (s2l c) r))
    | none => "bad-op"
  | _ => "bad-op"

def run : IO Unit := runLines handle

end Driver.C06
