import BufModel.Breaking
import Driver.Util
/-
  Driver.Breaking — parser of the compact schema encoding shared by the C03 and C04 protocols and
  the canonical rendering of annotation sets.

  A schema is a space-separated token stream (prefix encoding with explicit counts):
    schema := N file*
    file   := hex(path) pkg syn nOpts (num hex(val))* nLocs loc* nMsgs msg* nEnums enum* nSvcs svc* nExts field* isImport
    msg    := name flags4 nFields field* nExts field* nNested msg* nEnums enum* nOneofs (name synth)*
              nRR (lo hi)* nRN name* nER (lo hi)*
    field  := number name hex(fullName) hex(jsonName) label ty kind typeName oneof synth flags4 hex(extendee) jstype utf8 dflt
    enum   := name closed jsonAllow nVals (name number)* nRR (lo hi)* nRN name*
    svc    := name nMethods (name hex(in) hex(out) cs ss idem)*
  Lines:
    pair  <cur> <prev>            -> wf=1|kinds=1|v1beta1/FILE=..|v1beta1/PACKAGE=..|…|v2/WIRE=..
    rules <id,id,…> <cur> <prev>  -> id=..|id=..
    pairold / rulesold            -> the same against the model of the tree without C03-package-last-element.diff
    pairx <cur> <prev>            -> tag=1|x:v1beta1/FILE=..|…  the 12 category runs WITH BreakingWithExcludeImports
                                     (`checkX true`); tag=1: the tagged rules, projected, agree with `check`
    rulesx <id,…> <cur> <prev>    -> x:id=..|…                  single rules with exclude-imports
  with each annotation set rendered as sorted, de-duplicated `RULE:hex(file):dotted-path` joined by ','.
-/
namespace Driver.Breaking
open BufModel.Schema BufModel.Breaking Driver

abbrev P := StateT (List String) Option

def tok : P String := do
  match (← get) with
  | [] => failure
  | t :: ts => set ts; pure t

def nat : P Nat := do
  match (← tok).toNat? with
  | some n => pure n
  | none => failure

def int : P Int := do
  match (← tok).toInt? with
  | some n => pure n
  | none => failure

def hexs : P String := do
  match hexDecode (← tok) with
  | some s => pure s
  | none => failure

def bit : P Bool := do
  match (← tok) with
  | "0" => pure false
  | "1" => pure true
  | _ => failure

def dotted (s : String) : List String := if s = "-" then [] else s.splitOn "."

def qname : P QName := do pure (dotted (← tok))

def spath : P SPath := do
  let t ← tok
  if t = "-" then pure [] else
  match (t.splitOn ".").mapM String.toNat? with
  | some p => pure p
  | none => failure

def many {α : Type} (p : P α) : P (List α) := do
  let n ← nat
  let rec go : Nat → List α → P (List α)
    | 0, acc => pure acc.reverse
    | k + 1, acc => do let x ← p; go k (x :: acc)
  go n []

def flags (n : Nat) : P (List Bool) := do
  let t ← tok
  let cs := t.toList
  if cs.length ≠ n then failure else
  cs.mapM fun c => if c = '0' then pure false else if c = '1' then pure true else failure

def range : P Range := do
  let lo ← int
  let hi ← int
  pure (lo, hi)

def dfltOf (t : String) : Option DefVal :=
  match t.splitOn ":" with
  | ["s", h] => some (.str (if h = "-" then "" else h))   -- raw bytes stay hex (may be invalid UTF-8)
  | ["n", r, z] => some (.num r (z = "1"))
  | ["f", r, z, n] => some (.f32 r (z = "1") (n = "1"))
  | ["d", r, a, z, n] => some (.f64 r a (z = "1") (n = "1"))
  | _ => none

def field : P Field := do
  let number ← int
  let name ← tok
  let fullName ← hexs
  let jsonName ← hexs
  let label ← (do match (← tok) with
    | "o" => pure Label.optional | "q" => pure Label.required | "r" => pure Label.repeated
    | _ => failure)
  let ty ← (do match Kind.ofNat? (← nat) with | some k => pure k | none => failure)
  let kind ← (do match Kind.ofNat? (← nat) with | some k => pure k | none => failure)
  let typeName ← qname
  let oneofName ← tok
  let synth ← bit
  let fl ← flags 4
  let extendee ← hexs
  let jstype ← nat
  let utf8 ← nat
  let dflt ← (do match dfltOf (← tok) with | some d => pure d | none => failure)
  pure { number, name, fullName, jsonName, label, ty, kind, typeName,
         oneof := if oneofName = "-" then none else some (oneofName, synth),
         isMap := fl[0]!, hasPresence := fl[1]!, inMapEntry := fl[2]!, reqCard := fl[3]!,
         extendee, jstype, utf8, dflt }

def enumP : P Enum := do
  let name ← tok
  let closed ← bit
  let jsonAllow ← bit
  let values ← many (do let n ← tok; let k ← int; pure ({ name := n, number := k } : EnumValue))
  let reservedRanges ← many range
  let reservedNames ← many tok
  pure { name, values, reservedRanges, reservedNames, closed, jsonAllow }

partial def msg : P Msg := do
  let name ← tok
  let fl ← flags 4
  let fields ← many field
  let extensions ← many field
  let nested ← many msg
  let enums ← many enumP
  let oneofs ← many (do let n ← tok; let s ← bit; pure ({ name := n, synthetic := s } : Oneof))
  let reservedRanges ← many range
  let reservedNames ← many tok
  let extRanges ← many range
  pure (.mk { name, fields, extensions, enums, oneofs, reservedRanges, reservedNames, extRanges,
              messageSet := fl[0]!, noStdAccessor := fl[1]!, jsonAllow := fl[2]!, mapEntry := fl[3]! } nested)

def svc : P Service := do
  let name ← tok
  let methods ← many (do
    let n ← tok
    let i ← hexs
    let o ← hexs
    let cs ← bit
    let ss ← bit
    let idem ← nat
    pure ({ name := n, input := i, output := o, clientStreaming := cs, serverStreaming := ss, idempotency := idem } : Method))
  pure { name, methods }

def file : P File := do
  let path ← hexs
  let pkg ← qname
  let syn ← (do match (← tok) with
    | "u" => pure Syn.unspecified | "2" => pure Syn.proto2 | "3" => pure Syn.proto3 | "e" => pure Syn.editions
    | _ => failure)
  let opts ← many (do let n ← nat; let v ← hexs; pure (n, v))
  let locs ← many spath
  let messages ← many msg
  let enums ← many enumP
  let services ← many svc
  let extensions ← many field
  let isImport ← bit
  pure { path, pkg, syn, opts, locs, messages, enums, services, extensions, isImport }

def schema (s : String) : Option Schema :=
  match (many file).run ((s.splitOn " ").filter (· ≠ "")) with
  | some (fs, []) => some fs
  | _ => none

def renderAnn (a : Ann) : String :=
  a.rule ++ ":" ++ enc a.file ++ ":" ++ (if a.path.isEmpty then "-" else ".".intercalate (a.path.map toString))

def renderSet (as : List Ann) : String :=
  ",".intercalate (((as.map renderAnn).mergeSort (fun a b => decide (a ≤ b))).eraseDups)

def cats : List String := ["FILE", "PACKAGE", "WIRE_JSON", "WIRE"]
def vers : List (String × Ver) := [("v1beta1", .v1beta1), ("v1", .v1), ("v2", .v2)]

def pairLine (chk : Ver → String → Schema → Schema → List Ann) (c p : String) : String :=
  match schema c, schema p with
  | some cur, some prev =>
    "wf=" ++ (if wfB cur && wfB prev then "1" else "0") ++ "|kinds=" ++ (if kindsOkB cur then "1" else "0") ++ "|" ++
    "|".intercalate (vers.flatMap fun (vn, v) => cats.map fun cat =>
      vn ++ "/" ++ cat ++ "=" ++ renderSet (chk v cat cur prev))
  | _, _ => "bad-schema"

def rulesLine (rr : String → Schema → Schema → List Ann) (ids c p : String) : String :=
  match schema c, schema p with
  | some cur, some prev =>
    "|".intercalate ((ids.splitOn ",").map fun id => id ++ "=" ++ renderSet (rr id cur prev))
  | _, _ => "bad-schema"

/-- the 12 category runs with exclude-imports; `tag`: projecting the tagged rules gives `check` -/
def pairxLine (c p : String) : String :=
  match schema c, schema p with
  | some cur, some prev =>
    let rs := vers.flatMap fun (vn, v) => cats.map fun cat =>
      let ts := checkT v cat cur prev
      (renderSet (ts.map (·.ann)) == renderSet (check v cat cur prev),
       "x:" ++ vn ++ "/" ++ cat ++ "=" ++ renderSet (exclFilter cur prev ts))
    "tag=" ++ (if rs.all (·.1) then "1" else "0") ++ "|" ++ "|".intercalate (rs.map (·.2))
  | _, _ => "bad-schema"

def rulesxLine (ids c p : String) : String :=
  match schema c, schema p with
  | some cur, some prev =>
    "|".intercalate ((ids.splitOn ",").map fun id => "x:" ++ id ++ "=" ++ renderSet (runRuleX true id cur prev))
  | _, _ => "bad-schema"

/-- `pair` / `rules`: the tree with `C03-package-last-element.diff` (what the theorems are about);
    `pairold` / `rulesold`: the tree without it (the harness probes which one it runs against). -/
def handle : List String → String
  | ["pair", c, p] => pairLine check c p
  | ["pairold", c, p] => pairLine checkOld c p
  | ["rules", ids, c, p] => rulesLine runRule ids c p
  | ["rulesold", ids, c, p] => rulesLine runRuleOld ids c p
  | ["pairx", c, p] => pairxLine c p
  | ["rulesx", ids, c, p] => rulesxLine ids c p
  | _ => "bad-op"

end Driver.Breaking
