import BufModel.Generate
import Driver.Util
/-
  Line protocol for C17 (code generation requests and responses).

    req <TAB> cfg <TAB> files
      cfg   : 3 chars: a|d (strategy all / directory), 1|0 include_imports, 1|0 include_wkt
      files : ;-separated  <pathhex>:<I|N>:<W|->:<dephex,dephex,...|->      (image order)
      output: requests joined by ';' ("-" if none), each
              g=<hex,..>|p=<hex[*],..>|s=<hex,..>     (* = source-retention options stripped)

    resp <TAB> cwdhex <TAB> plugins
      plugins : "-" | ;-separated  <outhex>|<file,file,...|->   file = <namehex>:<iphex>:<contenthex>
      output  : err <tag>  |  ok <abs-path-hex>=<contenthex>,...   (sorted by path)

    file fields: `~` = the optional field is absent, `-` = present and empty, hex = present

    gen <TAB> seq|par <TAB> cwdhex <TAB> req <TAB> plugins <TAB> fs     (whole pipeline, per plugin the
      response as it is on the wire: binary handler + protoplugin normalisation + generator, then
      validateResponses, checkRequiredFeatures, response writer)
      req     : <o|->:<edition,..|->        what the image requires
      plugins : ;-separated <outhex>|<files|->|<error>|<features>|<min>|<max>   (`~` = absent)
      output  : err exec:<tag> | err exec-multi | err feature | as for resp with archives

    resp <TAB> cwdhex <TAB> plugins <TAB> fs         (sent when some out is a .jar / .zip archive)
      fs      : "-" | ;-separated <abs-path-hex>:<d|f>    what os.Stat says before the run
      output  : as above; an archive is  <abs-path-hex>=@<entryhex>~<contenthex>+...  (entries sorted)
-/
namespace Driver.C17
open BufModel.Path BufModel.Generate Driver

def s2l (s : String) : List Char := s.toList
def l2s (l : List Char) : String := String.ofList l

def parseList (s : String) (sep : String) : List String :=
  if s = "-" then [] else s.splitOn sep

def parseFile (s : String) : Option File :=
  match s.splitOn ":" with
  | [p, i, w, ds] => do
    let p ← hexDecode p
    let deps ← (parseList ds ",").mapM hexDecode
    pure { path := s2l p, isImport := i = "I", isWKT := w = "W", deps := deps.map s2l }
  | _ => none

def parseCfg (s : String) : Option PluginCfg :=
  match s.toList with
  | [a, i, w] => some { strategyAll := a = 'a', includeImports := i = '1', includeWKT := w = '1' }
  | _ => none

def encList (l : List Str) : String :=
  if l.isEmpty then "-" else ",".intercalate (l.map fun p => enc (l2s p))

def showReq (r : Request) : String :=
  let pf := if r.protoFiles.isEmpty then "-" else
    ",".intercalate (r.protoFiles.map fun (f, g) => enc (l2s f.path) ++ (if g then "*" else ""))
  "g=" ++ encList r.toGenerate ++ "|p=" ++ pf ++ "|s=" ++ encList r.sourceFiles

/-- an optional string field: `~` absent, `-` present and empty, hex otherwise -/
def parseOptStr (s : String) : Option (Option Str) :=
  if s = "~" then some none else (hexDecode s).map fun x => some (s2l x)

def parseRFile (s : String) : Option RFile :=
  match s.splitOn ":" with
  | [n, ip, c] => do
    let n ← parseOptStr n
    let ip ← parseOptStr ip
    let c ← parseOptStr c
    pure { name := n, insertionPoint := ip, content := c }
  | _ => none

def parsePlugin (s : String) : Option PluginResp :=
  match s.splitOn "|" with
  | [o, fs] => do
    let o ← hexDecode o
    let files ← (parseList fs ",").mapM parseRFile
    pure { out := s2l o, files := files }
  | _ => none

def insertSortedP (x : String × String) : List (String × String) → List (String × String)
  | [] => [x]
  | y :: ys => if x.1 < y.1 then x :: y :: ys else y :: insertSortedP x ys

def sortPairs (l : List (String × String)) : List (String × String) :=
  l.foldl (fun acc x => insertSortedP x acc) []

def showBuckets (bs : Buckets) : String :=
  let showObj : Obj → String × String
    | .file p c => (l2s p, enc c)
    | .archive p es =>
      let es := sortPairs (es.map fun (k, c) => (l2s k, c))
      (l2s p, "@" ++ "+".intercalate (es.map fun (k, c) => enc k ++ "~" ++ enc c))
  let objs := sortPairs ((flushedA bs).map showObj)
  if objs.isEmpty then "ok -" else
  "ok " ++ ",".intercalate (objs.map fun (p, c) => enc p ++ "=" ++ c)

def parseNat? (s : String) : Option (Option Nat) :=
  if s = "~" then some none else s.toNat?.map some

def parseInt? (s : String) : Option (Option Int) :=
  if s = "~" then some none else s.toInt?.map some

/-- `<outhex>|<files>|<error>|<features>|<min>|<max>` -/
def parseGenPlugin (s : String) : Option (Str × Resp) :=
  match s.splitOn "|" with
  | [o, fs, e, ft, mn, mx] => do
    let o ← hexDecode o
    let files ← (parseList fs ",").mapM parseRFile
    let e ← parseOptStr e
    let ft ← parseNat? ft
    let mn ← parseInt? mn
    let mx ← parseInt? mx
    pure (s2l o, { files := files, error := e, features := ft, minEdition := mn, maxEdition := mx })
  | _ => none

/-- `<o|->:<edition,edition,...|->` -/
def parseReq (s : String) : Option Required :=
  match s.splitOn ":" with
  | [o, es] => do
    let es ← (parseList es ",").mapM fun x => x.toInt?
    pure { optional := o = "o", editions := es }
  | _ => none

def handle : List String → String
  | ["req", cfg, files] =>
    match parseCfg cfg, (parseList files ";").mapM parseFile with
    | some c, some img =>
      let rs := pluginRequests img c
      if rs.isEmpty then "-" else ";".intercalate (rs.map showReq)
    | _, _ => "bad-op"
  | ["resp", cwd, plugins] =>
    match hexDecode cwd, (parseList plugins ";").mapM parsePlugin with
    | some cwd, some ps =>
      match runResponses (s2l cwd) ps with
      | .error e => "err " ++ e.tag
      | .ok bs =>
        let objs := (flushed bs).map fun (o, k, c) => (l2s (diskPath o k), c)
        let objs := sortPairs objs
        if objs.isEmpty then "ok -" else
        "ok " ++ ",".intercalate (objs.map fun (p, c) => enc p ++ "=" ++ enc c)
    | _, _ => "bad-op"
  | ["resp", cwd, plugins, fs] =>
    let parseStat (s : String) : Option (Str × Bool) :=
      match s.splitOn ":" with
      | [p, k] => (hexDecode p).map fun p => (s2l p, k = "d")
      | _ => none
    match hexDecode cwd, (parseList plugins ";").mapM parsePlugin, (parseList fs ";").mapM parseStat with
    | some cwd, some ps, some fs =>
      match runResponsesA fs (s2l cwd) ps with
      | .error e => "err " ++ e.tag
      | .ok bs => showBuckets bs
    | _, _, _ => "bad-op"
  | ["gen", mode, cwd, req, plugins, fs] =>
    let parseStat (s : String) : Option (Str × Bool) :=
      match s.splitOn ":" with
      | [p, k] => (hexDecode p).map fun p => (s2l p, k = "d")
      | _ => none
    match hexDecode cwd, parseReq req, (parseList plugins ";").mapM parseGenPlugin, (parseList fs ";").mapM parseStat with
    | some cwd, some req, some rs, some fs =>
      match runGenerate (mode = "par") req fs (s2l cwd) rs with
      | .error e => "err " ++ e.tag
      | .ok bs => showBuckets bs
    | _, _, _, _ => "bad-op"
  | _ => "bad-op"

def run : IO Unit := runLines handle

end Driver.C17
