import BufModel.Faults
import BufGen.AstFacts
import Driver.Util
import Driver.Bucket
/-
  Line protocol for C15 (fault injection and atomic puts):
    wobj <helper> <hexpath> <chunks> <faults>      helper: putpath | copyreader | forwriteobject | copyreadobject
    copy <jobs> <faults>                           jobs: hexpath=c1+c2,...   (order = run order)
    untar|unzip <entries> <faults>                 entries: hexname=c1+c2,...
    archw <tar|zip> <bodyFails> <closeFails>       Tar/Zip into a failing io.Writer
    atomic <old> <chunks> <failAt>                 old/failAt: "-" for none
    aprefix <old> <chunks> <j>
    aproducer <old> <chunks> <k>                   the producer fails after k chunks (no write fails)
    conc <old> <chunksA> <chunksB> <schedule bits|->  -> what is at the final path after 0,1,…,all steps
    flush <fails bits|->                           -> err|ok + number of outputs flushed
  chunks: c1+c2+... or "-" (no chunk); faults: hexpath:<p|w|c>:<idx>,... or "-".
  The helpers' error plumbing is instantiated with the REGENERATED BufGen.AstFacts.facts.
-/
namespace Driver.C15
open BufModel.Path BufModel.Bucket BufModel.Faults Driver Driver.Bucket

def parseChunks (s : String) : List Content := if s = "-" then [] else s.splitOn "+"

def parseFault (s : String) : Option Fault :=
  match s.splitOn ":" with
  | [h, k, i] =>
    match hexDecode h, i.toNat? with
    | some p, some n =>
      (match k with
        | "p" => some ⟨s2l p, .put, n⟩
        | "w" => some ⟨s2l p, .write, n⟩
        | "c" => some ⟨s2l p, .close, n⟩
        | _ => none)
    | _, _ => none
  | _ => none

def parseSched (s : String) : Option Sched :=
  if s = "-" then some [] else (s.splitOn ",").mapM parseFault

def parseJobs (s : String) : Option (List (Str × List Content)) :=
  if s = "-" then some [] else
  (s.splitOn ",").mapM fun j =>
    match j.splitOn "=" with
    | [h, cs] => (hexDecode h).map fun p => (s2l p, parseChunks cs)
    | _ => none

def fx : Facts := BufGen.AstFacts.facts

def res (err : Bool) : String := if err then "err" else "ok"

def showDest (d : Dest) : String := dump d.mem ++ "|fired=" ++ toString d.fired.length

def optS (o : Option Content) : String := match o with | none => "-" | some c => "=" ++ c

def handle : List String → String
  | ["wobj", helper, h, cs, fs] =>
    match hexDecode h, parseSched fs with
    | some p, some s =>
      let r := match helper with
        | "copyreader" => copyReader fx s ⟨[], []⟩ (s2l p) (parseChunks cs)
        | "forwriteobject" => forWriteObject fx s ⟨[], []⟩ (s2l p) (parseChunks cs)
        | "copyreadobject" => copyReadObject fx s ⟨[], []⟩ (s2l p) (parseChunks cs)
        | _ => putPath fx s ⟨[], []⟩ (s2l p) (parseChunks cs)
      res r.1 ++ "|" ++ showDest r.2
    | _, _ => "bad-op"
  | ["copy", js, fs] =>
    match parseJobs js, parseSched fs with
    | some jobs, some s =>
      let r := copyAll fx s ⟨[], []⟩ jobs
      res r.1 ++ ":" ++ toString r.2.2 ++ "|" ++ showDest r.2.1
    | _, _ => "bad-op"
  | ["untar", es, fs] =>
    match parseJobs es, parseSched fs with
    | some ents, some s =>
      let r := untarAll fx s ⟨[], []⟩ ents
      res r.1 ++ "|" ++ showDest r.2
    | _, _ => "bad-op"
  | ["unzip", es, fs] =>
    match parseJobs es, parseSched fs with
    | some ents, some s =>
      let r := unzipAll fx s ⟨[], []⟩ ents
      res r.1 ++ "|" ++ showDest r.2
    | _, _ => "bad-op"
  | ["archw", kind, b, c] =>
    res ((if kind = "tar" then tarOut fx else zipOut fx) (b == "1") (c == "1"))
  | ["flush", bits] =>
    let fs := if bits = "-" then [] else bits.toList.map (· == '1')
    let r := flushOuts fs
    res r.1 ++ "|flushed=" ++ toString r.2
  | ["atomic", old, cs, fa] =>
    let o := if old = "-" then none else some old
    let f := if fa = "-" then none else fa.toNat?
    let r := atomicRun o (parseChunks cs) f
    res r.1 ++ "|final" ++ optS r.2.final ++ "|temp" ++ optS r.2.temp
  | ["aproducer", old, cs, k] =>
    match k.toNat? with
    | some n =>
      let o := if old = "-" then none else some old
      let r := atomicProducerFail o (parseChunks cs) n
      res r.1 ++ "|final" ++ optS r.2.final ++ "|temp" ++ optS r.2.temp
    | none => "bad-op"
  | ["conc", old, ca, cb, bits] =>
    let o := if old = "-" then none else some old
    let a := parseChunks ca
    let b := parseChunks cb
    let sched := if bits = "-" then [] else bits.toList.map (· == '1')
    let n := a.length + b.length + 6
    ",".intercalate ((List.range (n + 1)).map fun j => optS (concurrentPrefix false o a b sched j).final)
  | ["aprefix", old, cs, j] =>
    match j.toNat? with
    | some n =>
      let o := if old = "-" then none else some old
      let d := atomicPrefix o (parseChunks cs) n
      "final" ++ optS d.final ++ "|temp" ++ optS d.temp
    | none => "bad-op"
  | _ => "bad-op"

def run : IO Unit := runLines handle

end Driver.C15
