import BufModel.Faults
import BufGen.AstFacts
import Driver.Util
import Driver.Bucket
/-
  Line protocol for C15 (fault injection and atomic puts):
    wobj <helper> <hexpath> <chunks> <faults>      helper: putpath | copyreader | forwriteobject | copyreadobject
    copy <jobs> <faults>                           jobs: hexpath=c1+c2,...   (order = run order)
    untar|unzip <entries> <faults>                 entries: hexname=c1+c2,...
    archw <tar|zip> <bodyFails> <closeFails>       Tar/Zip into a failing io.Writer
    atomic <old> <chunks> <failAt>                 old/failAt: "-" for none
    aprefix <old> <chunks> <j>
    aproducer <old> <chunks> <k>                   the producer fails after k chunks (no write fails)
    conc <old> <chunksA> <chunksB> <schedule bits|->  -> what is at the final path after 0,1,…,all steps
    flush <fails bits|->                           -> err|ok + number of outputs flushed
    walkcb <helper> <source kind> <n> <k|-> <p|w|c|-> <errv|->   a write inside a Walk callback fails with an
                                                   error VALUE (errv: inj | no:<errno> | pe:<errno> | le: | se: | s:<sentinel> |
                                                   w:<errv> | j1:<errv> | j2:<errv>:<errv>) -> err|ok + Puts attempted
    archwk <tar|zip> <source kind> <errv>          Tar/Zip into a writer failing with that value
    walkvanish <source kind> <helper> <change>     an entry of the walked directory vanishes before it is visited
    rput <helper> <atomic 0|1> <old: hexpath=content,...|-> <jobs> <faults>   REAL write(2)/close(2) failures of the
                                                   files behind a disk bucket (part X): -> err|ok:<count>|<dump>
    dclose <atomic 0|1> <first close failed 0|1>   the SECOND Close of an object -> closed | not-closed
    pre <old: hexpath=content,...|-> <wobj|copy|untar|unzip line>   the same helper started from a destination that
                                                   already holds content (part E: longer / shorter / equal-length / identical)
    pprefix <old> <chunks>                         a PLAIN disk put over `old`, observed after Put, every Write and Close
    rover <backend> <old> <ops>                    a reader opened on `old` stays open across puts (part E5); ops, comma
                                                   separated: r<n> read n bytes | R read to the end | p<c> completed put of the
                                                   same path | o<c> of another path | s<c> / w<c> / x<c> in-flight writer of the
                                                   same path / another path / another bucket | c close the oldest in-flight
                                                   writer  -> <what the reader delivered>|<object afterwards>
  The walk lines are evaluated with WalkRule.fixed (handoff/C15-walk-callback-error.diff).
  chunks: c1+c2+... or "-" (no chunk); faults: hexpath:<p|w|c>:<idx>,... or "-".
  The helpers' error plumbing is instantiated with the REGENERATED BufGen.AstFacts.facts.
-/
namespace Driver.C15
open BufModel.Path BufModel.Bucket BufModel.Faults Driver Driver.Bucket

def parseChunks (s : String) : List Content := if s = "-" then [] else s.splitOn "+"

def parseFault (s : String) : Option Fault :=
  match s.splitOn ":" with
  | [h, k, i] =>
    match hexDecode h, i.toNat? with
    | some p, some n =>
      (match k with
        | "p" => some ⟨s2l p, .put, n⟩
        | "w" => some ⟨s2l p, .write, n⟩
        | "c" => some ⟨s2l p, .close, n⟩
        | _ => none)
    | _, _ => none
  | _ => none

def parseSched (s : String) : Option Sched :=
  if s = "-" then some [] else (s.splitOn ",").mapM parseFault

def parseJobs (s : String) : Option (List (Str × List Content)) :=
  if s = "-" then some [] else
  (s.splitOn ",").mapM fun j =>
    match j.splitOn "=" with
    | [h, cs] => (hexDecode h).map fun p => (s2l p, parseChunks cs)
    | _ => none

def fx : Facts := BufGen.AstFacts.facts

def res (err : Bool) : String := if err then "err" else "ok"

def showDest (d : Dest) : String := dump d.mem ++ "|fired=" ++ toString d.fired.length

def optS (o : Option Content) : String := match o with | none => "-" | some c => "=" ++ c

def parseErrno : String → Option Errno
  | "enoent" => some .enoent | "eexist" => some .eexist | "enotdir" => some .enotdir
  | "eisdir" => some .eisdir | "eacces" => some .eacces | "enospc" => some .enospc | _ => none

def parseSentinel : String → Option Sentinel
  | "notexist" => some .notExist | "exist" => some .exist | "permission" => some .permission
  | "eof" => some .eof | "ueof" => some .unexpectedEOF | "shortwrite" => some .shortWrite
  | "closedpipe" => some .closedPipe | "canceled" => some .canceled | "deadline" => some .deadline
  | "closed" => some .closed | "osclosed" => some .osClosed | "skipdir" => some .skipDir
  | "skipall" => some .skipAll | _ => none

partial def parseErrV : List String → Option (ErrV × List String)
  | "inj" :: r => some (.injected, r)
  | "no" :: e :: r => (parseErrno e).map fun x => (.errno x, r)
  | "pe" :: e :: r => (parseErrno e).map fun x => (.pathError x, r)
  | "le" :: e :: r => (parseErrno e).map fun x => (.linkError x, r)
  | "se" :: e :: r => (parseErrno e).map fun x => (.syscallError x, r)
  | "s" :: x :: r => (parseSentinel x).map fun y => (.sentinel y, r)
  | "w" :: r => do
      let (e, r') ← parseErrV r
      pure (.wrap e, r')
  | "j1" :: r => do
      let (e, r') ← parseErrV r
      pure (.join1 e, r')
  | "j2" :: r => do
      let (a, r1) ← parseErrV r
      let (b, r2) ← parseErrV r1
      pure (.join2 a b, r2)
  | _ => none

def parseWalkHelper : String → Option WalkHelper
  | "wro-copyreadobject" => some .wroCopyReadObject
  | "wro-putpath" => some .wroPutPath
  | "walk-bare" => some .walkBare
  | "export-like" => some .exportLike
  | "walk-copypath" => some .walkCopyPath
  | _ => none

def parsePrim : String → Option Prim
  | "p" => some .put | "w" => some .write | "c" => some .close | _ => none

/-- the stale directory listings of the harness's `walkvanish` scenarios, in visiting order -/
def staleListing : String → Option (List Bool)
  | "file-removed-before-visited" => some [false, true, false, false]
  | "sibling-file-removed-before-visited" => some [false, false, false, true]
  | "directory-removed-before-visited" => some [false, false, true]
  | "atomic-put-temp-file-renamed-before-visited" => some [false, false, false, true, false, false]
  | _ => none

def parseROp (s : String) : Option ROp :=
  match s.toList with
  | ['R'] => some (.read 1000000000)
  | ['c'] => some .closeW
  | 'r' :: n => (String.ofList n).toNat?.map .read
  | 'p' :: c => some (.put c)
  | 'o' :: c => some (.other c)
  | 's' :: c => some (.wSame c)
  | 'w' :: c => some (.wOther c)
  | 'x' :: c => some (.wOther c)
  | _ => none

/-- The helpers of part A started from destination `d0` (part A: empty; part E: previous content). -/
def destLine (d0 : Dest) : List String → Option String
  | ["wobj", helper, h, cs, fs] =>
    match hexDecode h, parseSched fs with
    | some p, some s =>
      let r := match helper with
        | "copyreader" => copyReader fx s d0 (s2l p) (parseChunks cs)
        | "forwriteobject" => forWriteObject fx s d0 (s2l p) (parseChunks cs)
        | "copyreadobject" => copyReadObject fx s d0 (s2l p) (parseChunks cs)
        | _ => putPath fx s d0 (s2l p) (parseChunks cs)
      some (res r.1 ++ "|" ++ showDest r.2)
    | _, _ => none
  | ["copy", js, fs] =>
    match parseJobs js, parseSched fs with
    | some jobs, some s =>
      let r := copyAll fx s d0 jobs
      some (res r.1 ++ ":" ++ toString r.2.2 ++ "|" ++ showDest r.2.1)
    | _, _ => none
  | ["untar", es, fs] =>
    match parseJobs es, parseSched fs with
    | some ents, some s =>
      let r := untarAll fx s d0 ents
      some (res r.1 ++ "|" ++ showDest r.2)
    | _, _ => none
  | ["unzip", es, fs] =>
    match parseJobs es, parseSched fs with
    | some ents, some s =>
      let r := unzipAll fx s d0 ents
      some (res r.1 ++ "|" ++ showDest r.2)
    | _, _ => none
  | _ => none

def handle : List String → String
  | "pre" :: old :: rest =>
    match parseJobs old with
    | some o => (destLine ⟨o.map fun (p, cs) => (p, joinContent cs), []⟩ rest).getD "bad-op"
    | none => "bad-op"
  | ["rover", _backend, old, ops] =>
    match (if ops = "-" then some [] else (ops.splitOn ",").mapM parseROp) with
    | some os =>
      let r := readerAcross .asCoded old.toList os
      String.ofList r.1 ++ "|" ++ String.ofList r.2
    | none => "bad-op"
  | ["pprefix", old, cs] =>
    let o := if old = "-" then none else some old
    let chunks := parseChunks cs
    let n := chunks.length
    -- after Put (1), after Write i (i+2), after Close (n+2: nothing more happens to the object)
    ",".intercalate ((List.range (n + 3)).map fun j => optS (plainPrefix o chunks (min j (n + 1))))
  | ["walkcb", helper, src, n, k, p, ev] =>
    match parseWalkHelper helper, n.toNat? with
    | some h, some nn =>
      if k = "-" then "ok|puts=" ++ toString nn else
      match k.toNat?, parsePrim p, parseErrV (ev.splitOn ":") with
      | some kk, some pp, some (e, []) =>
        (match walkCopy .fixed (src != "mem") h pp e with
          | some _ => "err|puts=" ++ toString (kk + 1)
          | none => "ok|puts=" ++ toString nn)
      | _, _, _ => "bad-op"
    | _, _ => "bad-op"
  | ["archwk", _kind, src, ev] =>
    match parseErrV (ev.splitOn ":") with
    | some (e, []) =>
      -- the write is inside WalkReadObjects' callback: a Write of the archive writer
      res ((walkCopy .fixed (src != "mem") .wroCopyReadObject .write e).isSome)
    | _ => "bad-op"
  | ["walkvanish", _src, _helper, change] =>
    match staleListing change with
    | some l => "ok|missing-survivors=" ++ toString ((l.filter (!·)).length - visitStale .fixed l)
    | none => "bad-op"
  | ["rput", helper, atm, old, js, fs] =>
    match realHelper fx helper, parseJobs old, parseJobs js, parseSched fs with
    | some (joins, outer, par), some o, some jobs, some s =>
      let m : Mem := o.map fun (p, cs) => (p, joinContent cs)
      let r := realAll .asCoded par joins outer (atm == "1") s ⟨m, []⟩ jobs
      res r.1 ++ ":" ++ toString (if par then r.2.2 else 0) ++ "|" ++ dump r.2.1.mem
    | _, _, _, _ => "bad-op"
  | ["dclose", atm, _first] =>
    if secondCloseIsErrClosed .asCoded (atm == "1") then "closed" else "not-closed"
  | ["archw", kind, b, c] =>
    res ((if kind = "tar" then tarOut fx else zipOut fx) (b == "1") (c == "1"))
  | ["flush", bits] =>
    let fs := if bits = "-" then [] else bits.toList.map (· == '1')
    let r := flushOuts fs
    res r.1 ++ "|flushed=" ++ toString r.2
  | ["atomic", old, cs, fa] =>
    let o := if old = "-" then none else some old
    let f := if fa = "-" then none else fa.toNat?
    let r := atomicRun o (parseChunks cs) f
    res r.1 ++ "|final" ++ optS r.2.final ++ "|temp" ++ optS r.2.temp
  | ["aproducer", old, cs, k] =>
    match k.toNat? with
    | some n =>
      let o := if old = "-" then none else some old
      let r := atomicProducerFail o (parseChunks cs) n
      res r.1 ++ "|final" ++ optS r.2.final ++ "|temp" ++ optS r.2.temp
    | none => "bad-op"
  | ["conc", old, ca, cb, bits] =>
    let o := if old = "-" then none else some old
    let a := parseChunks ca
    let b := parseChunks cb
    let sched := if bits = "-" then [] else bits.toList.map (· == '1')
    let n := a.length + b.length + 6
    ",".intercalate ((List.range (n + 1)).map fun j => optS (concurrentPrefix false o a b sched j).final)
  | ["aprefix", old, cs, j] =>
    match j.toNat? with
    | some n =>
      let o := if old = "-" then none else some old
      let d := atomicPrefix o (parseChunks cs) n
      "final" ++ optS d.final ++ "|temp" ++ optS d.temp
    | none => "bad-op"
  | l => (destLine ⟨[], []⟩ l).getD "bad-op"

def run : IO Unit := runLines handle

end Driver.C15
