import BufModel.Cache
import BufModel.Faults
import Driver.Util
import Driver.Bucket
/-
  Line protocol for C09 (module cache):
    load <files> <sides> <entry>          files/sides/entry: hexpath=token,... or "-"
                                          (files: paths relative to files/; entry: entry-relative)
        -> miss | mismatch | hit:<sorted module files>
    loadtar <files> <sides> absent|garbage|<entry>
        -> <result>|kept  or  <result>|removed
    run <files> <sides> <entry> <nwriters> <acts>
                                          here contents are REAL bytes: hexpath=hexcontent ("-" = empty);
                                          the value of module.yaml is a marker token.
                                          payload index = position in <files> followed by <sides>.
                                          acts: comma-separated  a<w>  t<w>.<i>  g<w>.<i>.<k>  f<w>.<i>
                                                                 x<w>  c<w>  k<w>  z<w>
        -> <entry dump, contents hex>|lock=<w or ->|<pcs>
    storerun <files> <sides> <entry> <faults> <markerfail>
                                          faults: hexpath:p|w|c:<idx>,... ; markerfail: - or step index
                                          contents are written in chunks of 16 characters
        -> err=<0|1>|fired=<n>|<entry dump>
    tarentry <files> <sides>              -> the entry the tar layout serialises (tokens)
    tarput <files> <sides> absent|garbage|<entry> <nchunks> ok|fail|crash <k>
        -> err=<0|1|->|<load result>|kept/removed
    provider <r1> <putok> <r2>            r: miss | hit | mismatch ; putok: 0|1
        -> value:<r> | error
-/
namespace Driver.C09
open BufModel.Path BufModel.Bucket BufModel.Cache Driver Driver.Bucket

def parseObjs (s : String) : Option (List (Str × Content)) :=
  if s = "-" then some [] else
  (s.splitOn ",").mapM fun kv =>
    match kv.splitOn "=" with
    | [k, v] => (hexDecode k).map fun p => (s2l p, if v = "-" then "" else v)
    | _ => none

/-- contents hex-encoded; the marker's value stays a token -/
def parseObjsHex (s : String) : Option (List (Str × Content)) :=
  if s = "-" then some [] else
  (s.splitOn ",").mapM fun kv =>
    match kv.splitOn "=" with
    | [k, v] =>
      (match hexDecode k with
        | some p =>
          if s2l p = markerPath then some (s2l p, v)
          else (hexDecode v).map fun c => (s2l p, c)
        | none => none)
    | _ => none

def dumpHex (objs : List (Str × Content)) : String :=
  dump (objs.map fun (k, v) => (k, if k = markerPath then v else enc v))

def showLoad : LoadResult → String
  | .miss => "miss"
  | .mismatch => "mismatch"
  | .hit fs => "hit:" ++ dump fs

def nat? (s : String) : Option Nat := s.toNat?

def parseAct (s : String) : Option Act :=
  match s.toList with
  | c :: rest =>
    match ((String.ofList rest).splitOn ".").mapM nat? with
    | some [w] =>
      (match c with
        | 'a' => some (.acquire w) | 'x' => some (.fail w) | 'c' => some (.commit w)
        | 'k' => some (.commitFail w) | 'z' => some (.crash w) | _ => none)
    | some [w, i] =>
      (match c with
        | 't' => some (.truncate w i) | 'f' => some (.fill w i) | _ => none)
    | some [w, i, k] => if c = 'g' then some (.grow w i k) else none
    | _ => none
  | [] => none

def showPc : WPc → String
  | .start => "start"
  | .writing d f => "writing[" ++ " ".intercalate (d.map toString) ++ "|" ++
      " ".intercalate (f.map fun ik => toString ik.1 ++ ":" ++ toString ik.2) ++ "]"
  | .finished ok => if ok then "ok" else "err"
  | .crashed => "crashed"

def parseR (s : String) : Option LoadResult :=
  match s with
  | "miss" => some .miss | "hit" => some (.hit []) | "mismatch" => some .mismatch | _ => none

/-- contents are written in pieces of 16 characters (the harness bucket splits every Write) -/
def chunkChars : Nat → List Char → List Content
  | 0, _ => []
  | _, [] => []
  | fuel + 1, cs => String.ofList (cs.take 16) :: chunkChars fuel (cs.drop 16)

def chunk16 (c : Content) : List Content := chunkChars c.length c.toList

def parseFault (s : String) : Option BufModel.Faults.Fault :=
  match s.splitOn ":" with
  | [h, k, i] =>
    match hexDecode h, i.toNat? with
    | some p, some idx =>
      (match k with
        | "p" => some ⟨s2l p, .put, idx⟩ | "w" => some ⟨s2l p, .write, idx⟩ | "c" => some ⟨s2l p, .close, idx⟩
        | _ => none)
    | _, _ => none
  | _ => none

def handle : List String → String
  | ["load", fs, ss, en] =>
    match parseObjs fs, parseObjs ss, parseObjs en with
    | some f, some s, some e => showLoad (load ⟨f, s⟩ e)
    | _, _, _ => "bad-op"
  | ["loadtar", fs, ss, t] =>
    match parseObjs fs, parseObjs ss with
    | some f, some s =>
      let tarObj : Option (Option (Option Mem)) :=
        if t = "absent" then some none
        else if t = "garbage" then some (some none)
        else (parseObjs t).map fun e => some (some e)
      (match tarObj with
        | some o =>
          let r := loadTar ⟨f, s⟩ o
          showLoad r.1 ++ "|" ++ (if r.2.isSome then "kept" else "removed")
        | none => "bad-op")
    | _, _ => "bad-op"
  | ["run", fs, ss, en, n, acts] =>
    match parseObjsHex fs, parseObjsHex ss, parseObjsHex en, n.toNat?,
        (if acts = "-" then some [] else (acts.splitOn ",").mapM parseAct) with
    | some f, some s, some e, some nw, some as =>
      let st := runActs ⟨f, s⟩ { entry := e, lock := none, writers := List.replicate nw .start } as
      dumpHex st.entry ++ "|lock=" ++ (match st.lock with | some w => toString w | none => "-") ++ "|" ++
        ",".intercalate (st.writers.map showPc)
    | _, _, _, _, _ => "bad-op"
  | ["storerun", fs, ss, en, faults, mf] =>
    match parseObjsHex fs, parseObjsHex ss, parseObjsHex en,
        (if faults = "-" then some [] else (faults.splitOn ",").mapM parseFault),
        (if mf = "-" then some none else mf.toNat?.map some) with
    | some f, some s, some e, some sched, some mfail =>
      let exp : Expected := ⟨f, s⟩
      let r := storeRun BufModel.Faults.Facts.allTrue sched [markerCanonical] mfail ⟨e, []⟩ (fileJobs exp chunk16) (sideJobs exp chunk16)
      "err=" ++ (if r.1 then "1" else "0") ++ "|fired=" ++ toString r.2.fired.length ++ "|" ++ dumpHex r.2.mem
    | _, _, _, _, _ => "bad-op"
  | ["tarentry", fs, ss] =>
    match parseObjs fs, parseObjs ss with
    | some f, some s => dump (tarEntry ⟨f, s⟩)
    | _, _ => "bad-op"
  | ["tarput", fs, ss, t, nch, mode, ks] =>
    match parseObjs fs, parseObjs ss, nch.toNat?, ks.toNat? with
    | some f, some s, some n, some k =>
      let exp : Expected := ⟨f, s⟩
      let oldDec : Option (Option (Option Mem)) :=
        if t = "absent" then some none
        else if t = "garbage" then some (some none)
        else (parseObjs t).map fun e => some (some e)
      (match oldDec with
        | some od =>
          let chunks : List Content := (List.range n).map fun i => "c" ++ toString i ++ ";"
          let old : Option Content := od.map fun _ => "OLD"
          let decode : Content → Option Mem := fun c =>
            if c = BufModel.Faults.joinContent chunks then some (tarEntry exp)
            else if c = "OLD" then (match od with | some o => o | none => none)
            else none
          let res : Option (String × BufModel.Faults.ADir) :=
            if mode = "ok" then let r := tarStore old chunks none; some ((if r.1 then "1" else "0"), r.2)
            else if mode = "fail" then let r := tarStore old chunks (some k); some ((if r.1 then "1" else "0"), r.2)
            else if mode = "crash" then some ("-", tarCrash old chunks k)
            else none
          (match res with
            | some (e, dir) =>
              let lr := loadTar exp (tarView decode dir)
              "err=" ++ e ++ "|" ++ showLoad lr.1 ++ "|" ++ (if lr.2.isSome then "kept" else "removed")
            | none => "bad-op")
        | none => "bad-op")
    | _, _, _, _ => "bad-op"
  | ["provider", r1, ok, r2] =>
    match parseR r1, parseR r2 with
    | some a, some b =>
      (match provider a (ok = "1") b with
        | .error => "error"
        | .value .miss => "value:miss"
        | .value (.hit _) => "value:hit"
        | .value .mismatch => "value:mismatch")
    | _, _ => "bad-op"
  | _ => "bad-op"

def run : IO Unit := runLines handle

end Driver.C09
