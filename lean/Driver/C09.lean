import BufModel.Cache
import Driver.Util
import Driver.Bucket
/-
  Line protocol for C09 (module cache):
    load <files> <sides> <entry>          files/sides/entry: hexpath=content,... or "-"
                                          (files: paths relative to files/; entry: entry-relative)
        -> miss | mismatch | hit:<sorted module files>
    loadtar <files> <sides> absent|garbage|<entry>
        -> <result>|kept  or  <result>|removed
    run <files> <sides> <nwriters> <acts>  acts: comma-separated a<w> t<w> f<w> x<w> c<w> k<w> z<w>
        -> <entry dump>|lock=<w or ->|<pcs>
    provider <r1> <putok> <r2>            r: miss | hit | mismatch ; putok: 0|1
        -> value:<r> | error
-/
namespace Driver.C09
open BufModel.Path BufModel.Bucket BufModel.Cache Driver Driver.Bucket

def parseObjs (s : String) : Option (List (Str × Content)) :=
  if s = "-" then some [] else
  (s.splitOn ",").mapM fun kv =>
    match kv.splitOn "=" with
    | [k, v] => (hexDecode k).map fun p => (s2l p, if v = "-" then "" else v)
    | _ => none

def showLoad : LoadResult → String
  | .miss => "miss"
  | .mismatch => "mismatch"
  | .hit fs => "hit:" ++ dump fs

def parseAct (s : String) : Option Act :=
  match s.toList with
  | c :: rest =>
    match (String.ofList rest).toNat? with
    | some w =>
      (match c with
        | 'a' => some (.acquire w) | 't' => some (.truncate w) | 'f' => some (.fill w)
        | 'x' => some (.fail w) | 'c' => some (.commit w) | 'k' => some (.commitFail w)
        | 'z' => some (.crash w) | _ => none)
    | none => none
  | [] => none

def showPc : WPc → String
  | .start => "start"
  | .writing i t => "writing" ++ toString i ++ (if t then "t" else "")
  | .finished ok => if ok then "ok" else "err"
  | .crashed => "crashed"

def parseR (s : String) : Option LoadResult :=
  match s with
  | "miss" => some .miss | "hit" => some (.hit []) | "mismatch" => some .mismatch | _ => none

def handle : List String → String
  | ["load", fs, ss, en] =>
    match parseObjs fs, parseObjs ss, parseObjs en with
    | some f, some s, some e => showLoad (load ⟨f, s⟩ e)
    | _, _, _ => "bad-op"
  | ["loadtar", fs, ss, t] =>
    match parseObjs fs, parseObjs ss with
    | some f, some s =>
      let tarObj : Option (Option (Option Mem)) :=
        if t = "absent" then some none
        else if t = "garbage" then some (some none)
        else (parseObjs t).map fun e => some (some e)
      (match tarObj with
        | some o =>
          let r := loadTar ⟨f, s⟩ o
          showLoad r.1 ++ "|" ++ (if r.2.isSome then "kept" else "removed")
        | none => "bad-op")
    | _, _ => "bad-op"
  | ["run", fs, ss, n, acts] =>
    match parseObjs fs, parseObjs ss, n.toNat?, (if acts = "-" then some [] else (acts.splitOn ",").mapM parseAct) with
    | some f, some s, some nw, some as =>
      let st := runActs ⟨f, s⟩ { entry := [], lock := none, writers := List.replicate nw .start } as
      dump st.entry ++ "|lock=" ++ (match st.lock with | some w => toString w | none => "-") ++ "|" ++
        ",".intercalate (st.writers.map showPc)
    | _, _, _, _ => "bad-op"
  | ["provider", r1, ok, r2] =>
    match parseR r1, parseR r2 with
    | some a, some b =>
      (match provider a (ok = "1") b with
        | .error => "error"
        | .value .miss => "value:miss"
        | .value (.hit _) => "value:hit"
        | .value .mismatch => "value:mismatch")
    | _, _ => "bad-op"
  | _ => "bad-op"

def run : IO Unit := runLines handle

end Driver.C09
