/-
  Driver.Util — helpers for the line protocol: hex <-> string, field splitting.
  Every arbitrary string travels hex-encoded (UTF-8 bytes) so that tabs/newlines are harmless.
-/
namespace Driver

def hexDigit (n : Nat) : Char :=
  if n < 10 then Char.ofNat (48 + n) else Char.ofNat (87 + n)

def hexEncodeBytes (b : ByteArray) : String :=
  String.ofList (b.toList.flatMap fun x => [hexDigit (x.toNat / 16), hexDigit (x.toNat % 16)])

def hexEncode (s : String) : String := hexEncodeBytes s.toUTF8

def hexVal (c : Char) : Option Nat :=
  if '0' ≤ c ∧ c ≤ '9' then some (c.toNat - 48)
  else if 'a' ≤ c ∧ c ≤ 'f' then some (c.toNat - 87)
  else if 'A' ≤ c ∧ c ≤ 'F' then some (c.toNat - 55)
  else none

def hexDecodeBytes (s : String) : Option ByteArray :=
  let rec go : List Char → ByteArray → Option ByteArray
    | [], acc => some acc
    | a :: b :: rest, acc =>
      match hexVal a, hexVal b with
      | some x, some y => go rest (acc.push (UInt8.ofNat (x * 16 + y)))
      | _, _ => none
    | _, _ => none
  go s.toList ByteArray.empty

/-- hex → String; `-` stands for the empty string. Invalid UTF-8 ↦ none. -/
def hexDecode (s : String) : Option String :=
  if s = "-" then some "" else
  match hexDecodeBytes s with
  | some b => String.fromUTF8? b
  | none => none

def enc (s : String) : String := if s.isEmpty then "-" else hexEncode s

def fields (line : String) : List String :=
  (String.ofList (line.toList.reverse.dropWhile (fun c => c = '\n' || c = '\r')).reverse).splitOn "\t"

partial def forEachLine (h : IO.FS.Stream) (f : String → IO Unit) : IO Unit := do
  let line ← h.getLine
  if line.isEmpty then return ()
  f line
  forEachLine h f

/-- Run a pure line handler over stdin, one output line per input line. -/
def runLines (handler : List String → String) : IO Unit := do
  let stdin ← IO.getStdin
  let stdout ← IO.getStdout
  forEachLine stdin fun line => do
    stdout.putStrLn (handler (fields line))
  stdout.flush

end Driver
