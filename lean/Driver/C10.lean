import BufModel.Graph
import BufModel.Targeting
import BufModel.BucketID
import BufGen.Wkt
import Driver.Util
/-
  Line protocol for C10 (workspace dependency resolution).  One stateless line per workspace:

    ws <TAB> <added modules>

  added modules, in AddLocalModule/AddRemoteModule call order, `;`-separated; each is
    oid:L:T:commit:ctime:name:paths:excludes:protofile:files
      oid      rank of the OpaqueID among the OpaqueIDs of the case (order-isomorphic encoding)
      L,T      0/1 isLocal, isTarget     commit, ctime  Nat     name  `_` | Nat
      paths / excludes   `_` | hex,hex…  (targetPaths / targetExcludePaths)
      protofile          `_` | hex | hex+ (with includePackageFiles)
      files    `_` | file|file…   file = hexpath>hexpkg>syntaxflag(>import)*  import = [!][^|~]hex
               ! = unused (compiler verdict, C01 only); the import MODIFIER as fastscan reports it:
               ^ = `import public`, ~ = `import weak`, none = plain.  Every import statement is
               listed.  The file is parsed into a `KFile` (import STATEMENTS: path + modifier) and handed to
               the model through `KFile.scan`, the model of the loop over fastscan's result: every
               statement counts, whatever its modifier (BufProofs.C10 `ik_*`).

  A workspace read from disk with its buf.lock files keeps the structure the add order is derived
  from (BufModel.Graph.v1Adds / v2Adds):

    wsl <TAB> v1 <TAB> <group>#<group>…    one group per `directories:` entry of buf.work.yaml:
                                           the pins of that directory's buf.lock, then the local
                                           module (added modules as above, `;`-separated)
    wsl <TAB> v2 <TAB> <lock>#<locals>     the pins of the top-level buf.lock (`_` = none), then
                                           the modules of buf.yaml

  answer:  mods=… <TAB> deps=… <TAB> dag=… <TAB> ls=…

  BucketIDs / OpaqueIDs of the local modules of a workspace (BufModel.BucketID):

    bid <TAB> v2 <TAB> <entry>,<entry>…    the `modules:` entries of a v2 buf.yaml in file order;
                                           entry = hex(path as written)~hex(name) (`-` = empty)
        answer  ok/hex(BucketID)~hex(OpaqueID),…  per entry, in the same order  |  err/<PErr tag>
    bid <TAB> v1 <TAB> <dir>,<dir>…        the `directories:` of a buf.work.yaml as written (hex)
        answer  ok/hex(BucketID),…  in the order of BufWorkYAMLFile.DirPaths()  |  err/<WErr tag>
-/
namespace Driver.C10
open BufModel.Path BufModel.Graph BufModel.Targeting Driver

def s2l (s : String) : List Char := s.toList
def l2s (l : List Char) : String := String.ofList l

def wkt : List PFile := BufGen.wktTable.map (fun x => { path := s2l x.1, imports := x.2.map s2l })

structure XFile where
  f : PFile                 -- = kf.scan
  kf : KFile                -- the import statements with their modifiers
  unused : List Str
  noSyntax : Bool

structure XAdded where
  a : Added
  cfg : TCfg
  xfiles : List XFile

def hexL (s : String) : Option Str := (hexDecode s).map s2l

def parseList (s : String) (sep : String) : List String := if s = "_" then [] else s.splitOn sep

/-- `[!][^|~]hex` → (path, unused, modifier). -/
def parseImport (i : String) : Option (Str × Bool × ImpKind) :=
  let (unused, r) := match i.toList with
    | '!' :: r => (true, r)
    | r => (false, r)
  let (kind, r) := match r with
    | '^' :: r => (ImpKind.pub, r)
    | '~' :: r => (ImpKind.weak, r)
    | r => (ImpKind.plain, r)
  (hexL (String.ofList r)).map (fun x => (x, unused, kind))

def parseFile (s : String) : Option XFile :=
  match s.splitOn ">" with
  | p :: pkg :: syn :: imps => do
    let p ← hexL p
    let pkg ← hexL pkg
    let imps ← imps.mapM parseImport
    let kf : KFile := { path := p, stmts := imps.map (fun x => (x.1, x.2.2)), pkg := pkg }
    some { f := kf.scan, kf := kf,
           unused := (imps.filter (·.2.1)).map (·.1), noSyntax := syn = "1" }
  | _ => none

def parseAdded (idx : Nat) (s : String) : Option XAdded :=
  match s.splitOn ":" with
  | [oid, l, t, commit, ctime, name, paths, excludes, pf, files] => do
    let oid ← oid.toNat?
    let commit ← commit.toNat?
    let ctime ← ctime.toNat?
    let name ← (if name = "_" then some none else name.toNat?.map some)
    let paths ← (parseList paths ",").mapM hexL
    let excludes ← (parseList excludes ",").mapM hexL
    let (pfp, incl) ← (if pf = "_" then some ([], false)
                       else if pf.endsWith "+" then (hexL (String.ofList pf.toList.dropLast)).map (fun x => (x, true))
                       else (hexL pf).map (fun x => (x, false)))
    let xfiles ← (parseList files "|").mapM parseFile
    some { a := { oid := oid, isLocal := l = "1", isTarget := t = "1", commit := commit, ctime := ctime,
                  files := xfiles.map (·.f), name := name, idx := idx },
           cfg := { paths := paths, excludes := excludes, protoFile := pfp, includePackageFiles := incl },
           xfiles := xfiles }
  | _ => none

def parseWs (s : String) : Option (List XAdded) :=
  let parts := parseList s ";"
  (parts.zipIdx).mapM (fun x => parseAdded x.2 x.1)

/-- the built module set with per-module targeting options and compiler facts. -/
structure Built where
  tws : TWS
  sel : List Added
  xs : List XAdded

def buildFrom (adds : List Added) (xs : List XAdded) : Built :=
  let sel := uniqueAdded adds
  let ws : WS := { mods := sel.map Added.toMod, wkt := wkt }
  let cfgs := sel.map (fun a => ((xs.find? (fun x => x.a.idx == a.idx)).map (·.cfg)).getD {})
  { tws := { ws := ws, cfgs := cfgs }, sel := sel, xs := xs }

def build (xs : List XAdded) : Built := buildFrom (xs.map (·.a)) xs

/-- `#`-separated groups of added modules; `idx` runs over the whole line. -/
def parseGroups (s : String) : Option (List (List XAdded)) :=
  let rec go : List String → Nat → Option (List (List XAdded))
    | [], _ => some []
    | g :: rest, n => do
      let parts := parseList g ";"
      let xs ← (parts.zipIdx).mapM (fun x => parseAdded (n + x.2) x.1)
      let more ← go rest (n + parts.length)
      some (xs :: more)
  go (s.splitOn "#") 0

/-- a buf.work.yaml directory: its buf.lock pins followed by the local module. -/
def toLocked (g : List XAdded) : Option LockedMod :=
  match g.reverse with
  | l :: ps => some { pins := ps.reverse.map (·.a), loc := l.a }
  | [] => none

/-- the add sequence of a workspace on disk (BufModel.Graph.v1Adds / v2Adds). -/
def diskAdds (kind : String) (gs : List (List XAdded)) : Option (List Added) :=
  if kind = "v1" then (gs.mapM toLocked).map v1Adds
  else match gs with
    | [lock, locs] => some (v2Adds (lock.map (·.a)) (locs.map (·.a)))
    | _ => none

def b01 (b : Bool) (t f : String) : String := if b then t else f

def showMods (sel : List Added) : String :=
  ",".intercalate (sel.map fun a => s!"{a.oid}.{a.commit}.{b01 a.isLocal "L" "R"}.{b01 a.isTarget "T" "N"}")

def showDeps (r : Except DErr DepMap) : String :=
  match r with
  | .error e => "err/" ++ e.tag
  | .ok ds => "ok/" ++ ",".intercalate (ds.map fun d => s!"{d.1}{b01 d.2 "+" "-"}")

def pairLe (a b : Nat × Nat) : Bool := a.1 < b.1 || (a.1 == b.1 && a.2 ≤ b.2)

def showDag (r : Except DErr Dag) : String :=
  match r with
  | .error e => "err/" ++ e.tag
  | .ok g => "ok/" ++ ",".intercalate ((sortBy natLe g.1).map toString) ++ "|" ++
      ",".intercalate ((sortBy pairLe g.2).map fun e => s!"{e.1}>{e.2}")

def showLs (r : Except LsErr (List (Str × Bool))) : String :=
  match r with
  | .error e => "err/" ++ e.tag
  | .ok l => "ok/" ++ ",".intercalate (l.map fun x => enc (l2s x.1) ++ b01 x.2 "-" "+")

def answer (b : Built) : String :=
  let ws := b.tws.ws
  let n := ws.mods.length
  "mods=" ++ showMods b.sel ++ "\tdeps=" ++ ";".intercalate ((List.range n).map fun m => showDeps (moduleDeps ws m))
    ++ "\tdag=" ++ showDag (toDAG ws) ++ "\tls=" ++ showLs (lsFiles ws (isTargetIn b.tws))

/-- `hex(path)~hex(name)` of a `bid v2` line. -/
def parseEntry (s : String) : Option BufModel.BucketID.Entry :=
  match s.splitOn "~" with
  | [p, n] => do
    let p ← hexL p
    let n ← hexL n
    some { raw := p, name := if n = [] then none else some n }
  | _ => none

def handle : List String → String
  | ["ws", s] =>
    match parseWs s with
    | none => "bad-op"
    | some xs => answer (build xs)
  | ["wsl", kind, s] =>
    match parseGroups s with
    | none => "bad-op"
    | some gs =>
      match diskAdds kind gs with
      | none => "bad-op"
      | some adds => answer (buildFrom adds gs.flatten)
  | ["bid", "v2", s] =>
    match (parseList s ",").mapM parseEntry with
    | none => "bad-op"
    | some es =>
      match BufModel.BucketID.v2Resolve es with
      | .error e => "err/" ++ e.tag
      | .ok r => "ok/" ++ ",".intercalate (r.map fun x => enc (l2s x.1) ++ "~" ++ enc (l2s x.2))
  | ["bid", "v1", s] =>
    match (parseList s ",").mapM hexL with
    | none => "bad-op"
    | some ds =>
      match BufModel.BucketID.v1Resolve ds with
      | .error e => "err/" ++ e.tag
      | .ok r => "ok/" ++ ",".intercalate (r.map fun x => enc (l2s x))
  | _ => "bad-op"

def run : IO Unit := runLines handle

end Driver.C10
