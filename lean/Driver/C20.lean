import BufModel.Annot
import Driver.Util
/-
  Line protocol for C20.

    ann <annots>
        <annots> = annotation;annotation;…   ("-" for none)
        annotation = file,sl,sc,el,ec,type,msg,plugin   (strings hex, "-" = empty; file "~" = nil FileInfo)
      -> sorted=<annots> TAB text=<hex> TAB msvs=<hex> TAB gha=<hex> TAB json=<recs> TAB junit=<suites>
        <recs>   = p,sl,sc,el,ec,t,m,g;…     (strings hex, "_" = key omitted)
        <suites> = name,tests[case|case…];…  case = name,message,type (hex)

    exit lint|breaking <controller steps> <check steps>
    exit build <controller steps>
        steps: string over o (ok) a (annotation set) i (import not found) x (other error); "-" = none
      -> exit=<n> printed=<0|1> failure=<0|1>
    exit format <mode> <source writable 0|1> <controller steps> <format step> <diff 0|1>
                <copy-diff step> <rewrite step> <output step>
        <mode> = subset of the letters d (-d) w (-w) o (-o <dir or .proto file>) e (--exit-code); "-" = plain
      -> exit=<n> printed=<0|1> failure=<0|1> stdout=<n|d|s|b> rewrote=<0|1> wrote=<0|1>
         stdout: n nothing, d the diff, s the formatted source, b both
-/
namespace Driver.C20
open BufModel.Annot Driver

def l2s (l : List Char) : String := String.ofList l

def decStr (s : String) : Option Str := (hexDecode s).map String.toList

def decAnnot (s : String) : Option Annot :=
  match s.splitOn "," with
  | [f, sl, sc, el, ec, t, m, g] => do
    let file ← if f = "~" then some none else (decStr f).map some
    let sl ← sl.toNat?
    let sc ← sc.toNat?
    let el ← el.toNat?
    let ec ← ec.toNat?
    let t ← decStr t
    let m ← decStr m
    let g ← decStr g
    some { file := file, sl := sl, sc := sc, el := el, ec := ec, type := t, msg := m, plugin := g }
  | _ => none

def decAnnots (s : String) : Option (List Annot) :=
  if s = "-" then some [] else (s.splitOn ";").mapM decAnnot

def encS (s : Str) : String := enc (l2s s)

def encAnnot (a : Annot) : String :=
  ",".intercalate [match a.file with | none => "~" | some p => encS p,
    toString a.sl, toString a.sc, toString a.el, toString a.ec, encS a.type, encS a.msg, encS a.plugin]

def encAnnots (l : List Annot) : String :=
  if l.isEmpty then "-" else ";".intercalate (l.map encAnnot)

/-- omitempty: an empty string field has no key. -/
def encOmit (s : Str) : String := if s.isEmpty then "_" else encS s

def encJson (r : JsonRec) : String :=
  ",".intercalate [encOmit r.path, toString r.sl, toString r.sc, toString r.el, toString r.ec,
    encOmit r.type, encOmit r.msg, encOmit r.plugin]

def encCase (c : JCase) : String := ",".intercalate [encS c.name, encS c.message, encS c.type]

def encSuite (s : JSuite) : String :=
  encS s.name ++ "," ++ toString s.tests ++ "[" ++ "|".intercalate (s.cases.map encCase) ++ "]"

def listOr (l : List String) : String := if l.isEmpty then "-" else ";".intercalate l

def handleAnn (as : List Annot) : String :=
  let sorted := dedupSort as
  "\t".intercalate [
    "sorted=" ++ encAnnots sorted,
    "text=" ++ encS (printLines textLine sorted),
    "msvs=" ++ encS (printLines msvsLine sorted),
    "gha=" ++ encS (printLines ghaLine sorted),
    "json=" ++ listOr ((sorted.map jsonRec).map encJson),
    "junit=" ++ listOr ((junitSuites sorted).map encSuite)]

def dummy : Annot :=
  { file := some "a.proto".toList, sl := 1, sc := 1, el := 1, ec := 1, type := "X".toList, msg := "m".toList, plugin := [] }

def decSteps (s : String) : Option (List Step) :=
  if s = "-" then some [] else
  s.toList.mapM fun c =>
    if c = 'o' then some none
    else if c = 'a' then some (some (.annots dummy []))
    else if c = 'i' then some (some .importNotExist)
    else if c = 'x' then some (some .other)
    else none

def decStep (s : String) : Option Step :=
  match decSteps s with
  | some [x] => some x
  | _ => none

def decBool (s : String) : Option Bool :=
  if s = "1" then some true else if s = "0" then some false else none

def decMode (s : String) : Option FmtMode :=
  let cs := if s = "-" then [] else s.toList
  if cs.all (fun c => c = 'd' || c = 'w' || c = 'o' || c = 'e') && cs.eraseDups.length = cs.length then
    some { diff := cs.contains 'd', write := cs.contains 'w',
           out := if cs.contains 'o' then .path else .stdout, exitCode := cs.contains 'e' }
  else none

def showEffects (e : FmtEffects) : String :=
  let so := match e.stdoutDiff, e.stdoutSource with
    | false, false => "n" | true, false => "d" | false, true => "s" | true, true => "b"
  "stdout=" ++ so ++ " rewrote=" ++ (if e.rewrote then "1" else "0") ++ " wrote=" ++ (if e.wroteOut then "1" else "0")

def showOutcome (o : Outcome) : String :=
  "exit=" ++ toString o.exit ++ " printed=" ++ (if o.printed.isEmpty then "0" else "1")
    ++ " failure=" ++ (if o.failureLine then "1" else "0")

def handle : List String → String
  | ["ann", s] => match decAnnots s with
      | some as => handleAnn as
      | none => "bad-op"
  | ["exit", "lint", c, k] => match decSteps c, decSteps k with
      | some c, some k => showOutcome (lintLike c k) | _, _ => "bad-op"
  | ["exit", "breaking", c, k] => match decSteps c, decSteps k with
      | some c, some k => showOutcome (lintLike c k) | _, _ => "bad-op"
  | ["exit", "build", c] => match decSteps c with
      | some c => showOutcome (build c) | none => "bad-op"
  | ["exit", "format", m, sw, c, f, d, cp, rw, o] =>
      match decMode m, decBool sw, decSteps c, decStep f, decBool d, decStep cp, decStep rw, decStep o with
      | some m, some sw, some c, some f, some d, some cp, some rw, some o =>
        let r := formatFull m sw c f d { copyDiff := cp, rewrite := rw, output := o }
        showOutcome r.1 ++ " " ++ showEffects r.2
      | _, _, _, _, _, _, _, _ => "bad-op"
  | _ => "bad-op"

def run : IO Unit := runLines handle

end Driver.C20
