import BufModel.Annot
import Driver.Util
/-
  Line protocol for C20.

    ann <annots>
        <annots> = annotation;annotation;…   ("-" for none)
        annotation = file,sl,sc,el,ec,type,msg,plugin   (strings hex, "-" = empty; file "~" = nil FileInfo)
      -> sorted=<annots> TAB text=<hex> TAB msvs=<hex> TAB gha=<hex> TAB json=<recs> TAB junit=<suites>
        <recs>   = p,sl,sc,el,ec,t,m,g;…     (strings hex, "_" = key omitted)
        <suites> = name,tests[case|case…];…  case = name,message,type (hex)

      … TAB djunit=<junit fields>     (the model's junit decoder on the model's testsuites)

    dec text|msvs|gha <hex of the REAL output of the implementation>
      -> the format's decoder (`parseTextLine` / `parseMsvsLine` / `parseGhaLine`) on every line:
         fields;fields;…   ("!" for a line that does not decode, "-" for no lines)
         text p,l,c,t   msvs p,l,c,type,t   gha p,l,c,el,ec,msg   junit suite,type,sl,sc,p,l,c,t

    exit lint|breaking <body steps> <check steps>
    exit lint|breaking <pre steps> <body steps> <check steps> <close step>
    exit build|depgraph <steps>
        steps: string over o (ok) a (annotation set) i (import not found) x (other error)
        s (system error); lower case = the step runs in a controller method, upper case = directly
        in the command's run function; "-" = none
      -> exit=<n> printed=<0|1> failure=<0|1>

    err c|d <error>       one error value returned by a controller method (c) / directly (d)
        <error> = A<n> (annotation set, n annotations) | I (import not exist) | T (errors.New("x"))
                | F (the error bufmodule's header scan returns for `import ;`) | N (the error ModuleDeps() returns for a missing import)
                | Z (errors.New("")) | W(e) fmt.Errorf("w: %w", e) | P<code>(e) app.WrapError(code, e)
                | S(e) syserror.Wrap(e) | C(e) connect unavailable | K(e) connect internal | J(e,e) errors.Join
      -> exit=<n> printed=<count> failure=<0|1>
    exit format <mode> <source writable 0|1> <controller steps> <format step> <diff 0|1>
                <copy-diff step> <rewrite step> <output step>
        <mode> = subset of the letters d (-d) w (-w) o (-o <dir or .proto file>) e (--exit-code); "-" = plain
      -> exit=<n> printed=<0|1> failure=<0|1> stdout=<n|d|s|b> rewrote=<0|1> wrote=<0|1>
         stdout: n nothing, d the diff, s the formatted source, b both
    exit lsfiles <steps>      `buf ls-files` (NewController, GetImportableImageFileInfos, listing)
    fmtw <file>;<file>;…      `buf format -w` at the level of file contents; the files in path order
        <file> = path,orig,fmt,target,openable   (path / orig hex; fmt hex, "!" = does not parse;
                 target / openable 0|1)
      -> err=<0|1> diff=<0|1> files=<path>:<content>;…   (hex)
    fmts stdout|file|dir|write <old> <sfile>;<sfile>;…   `buf format` to stdout / `-o x.proto` /
                 `-o dir` / `-w` on SUMMARIES of the contents (<summ> = length:hash, `Summ`)
        <old> = summary of what the `-o` file held; <sfile> = path,orig,fmt,target,openable
                 (path hex; orig a summary; fmt a summary, "!" = does not parse)
      -> err=<0|1> out=<summ>                      (stdout, file)
         err=<0|1> files=<path>:<summ>;…           (dir: the files written; write: every file)
    fmtc stdout|file <old> <file>;<file>;…         the same on the contents (<file> as for fmtw, <old> hex)
      -> err=<0|1> out=<content>   (hex)
    imp <files> <wkt> <path> <file> <line> <col>   one import statement `import "<path>";` in <file>
                 (hex; position of the path literal) against a module set with the .proto files
                 <files> and the Well-Known Types <wkt> (hex;hex;…  "-" = none)
      -> build=<exit>:<printed>:<failure> at=<file>:<line>:<col> deps=<exit>:<printed>:<failure>
         build: what bufimage.BuildImage returns, through a controller method + wrapError
         (at = the first annotation, "-" without one); deps: what ModuleDeps() returns, directly
-/
namespace Driver.C20
open BufModel.Annot Driver

def l2s (l : List Char) : String := String.ofList l

def decStr (s : String) : Option Str := (hexDecode s).map String.toList

def decAnnot (s : String) : Option Annot :=
  match s.splitOn "," with
  | [f, sl, sc, el, ec, t, m, g] => do
    let file ← if f = "~" then some none else (decStr f).map some
    let sl ← sl.toNat?
    let sc ← sc.toNat?
    let el ← el.toNat?
    let ec ← ec.toNat?
    let t ← decStr t
    let m ← decStr m
    let g ← decStr g
    some { file := file, sl := sl, sc := sc, el := el, ec := ec, type := t, msg := m, plugin := g }
  | _ => none

def decAnnots (s : String) : Option (List Annot) :=
  if s = "-" then some [] else (s.splitOn ";").mapM decAnnot

def encS (s : Str) : String := enc (l2s s)

def encAnnot (a : Annot) : String :=
  ",".intercalate [match a.file with | none => "~" | some p => encS p,
    toString a.sl, toString a.sc, toString a.el, toString a.ec, encS a.type, encS a.msg, encS a.plugin]

def encAnnots (l : List Annot) : String :=
  if l.isEmpty then "-" else ";".intercalate (l.map encAnnot)

/-- omitempty: an empty string field has no key. -/
def encOmit (s : Str) : String := if s.isEmpty then "_" else encS s

def encJson (r : JsonRec) : String :=
  ",".intercalate [encOmit r.path, toString r.sl, toString r.sc, toString r.el, toString r.ec,
    encOmit r.type, encOmit r.msg, encOmit r.plugin]

def encCase (c : JCase) : String := ",".intercalate [encS c.name, encS c.message, encS c.type]

def encSuite (s : JSuite) : String :=
  encS s.name ++ "," ++ toString s.tests ++ "[" ++ "|".intercalate (s.cases.map encCase) ++ "]"

def listOr (l : List String) : String := if l.isEmpty then "-" else ";".intercalate l

def encTextF (t : TextF) : List String := [encS t.path, toString t.line, toString t.col, encS t.text]

def encCarried : Carried → String
  | .text t => ",".intercalate (encTextF t)
  | .msvs m => ",".intercalate [encS m.path, toString m.line, toString m.col, encS m.type, encS m.text]
  | .gha g => ",".intercalate [encS g.path, toString g.line, toString g.col, toString g.endLine, toString g.endCol, encS g.msg]
  | .json r => encJson r
  | .junit j => ",".intercalate ([encS j.suite, encS j.type, toString j.sl, toString j.sc] ++ encTextF j.text)

def encDecoded (l : List (Option Carried)) : String :=
  listOr (l.map fun o => match o with | some c => encCarried c | none => "!")

/-- the decoder of format `f` on every line of a printed text -/
def handleDec (f : Format) (out : Str) : String :=
  encDecoded ((Doc.lines out).items.map (parseItem f))

def handleAnn (as : List Annot) : String :=
  let sorted := dedupSort as
  "\t".intercalate [
    "sorted=" ++ encAnnots sorted,
    "text=" ++ encS (printLines textLine sorted),
    "msvs=" ++ encS (printLines msvsLine sorted),
    "gha=" ++ encS (printLines ghaLine sorted),
    "json=" ++ listOr ((sorted.map jsonRec).map encJson),
    "junit=" ++ listOr ((junitSuites sorted).map encSuite),
    "djunit=" ++ encDecoded ((Doc.junit (junitSuites sorted)).items.map (parseItem .junit))]

def dummy : Annot :=
  { file := some "a.proto".toList, sl := 1, sc := 1, el := 1, ec := 1, type := "X".toList, msg := "m".toList, plugin := [] }

/-- n annotations that differ in the start line -/
def dummies (n : Nat) : List Annot := (List.range n).map fun i => { dummy with sl := i + 1 }

def decCStep (c : Char) : Option CStep :=
  let via := c.isLower
  match c.toLower with
  | 'o' => some (via, none)
  | 'a' => some (via, some (.annotSet dummy []))
  | 'i' => some (via, some .importNotExist)
  | 'x' => some (via, some (.plain true))
  | 's' => some (via, some (.sys (.plain true)))
  | _ => none

def decCSteps (s : String) : Option (List CStep) :=
  if s = "-" then some [] else s.toList.mapM decCStep

def decSteps (s : String) : Option (List Step) := (decCSteps s).map fun l => l.map (·.2)

def decStep (s : String) : Option Step :=
  match decSteps s with
  | some [x] => some x
  | _ => none

/-- close step: "-" / "o" = no error -/
def decClose (s : String) : Option Step :=
  if s = "-" then some none else decStep s

/-- recursive-descent parser of the error notation -/
partial def parseErr : List Char → Option (GoErr × List Char)
  | 'I' :: r => some (.importNotExist, r)
  | 'T' :: r => some (.plain true, r)
  | 'Z' :: r => some (.plain false, r)
  -- what bufmodule RETURNS for planted sources: the header scan's error for `import ;` (as coded
  -- a FileAnnotationSet with one annotation), ModuleDeps() on a missing import (ImportNotExistError)
  | 'F' :: r => some (.annotSet dummy [], r)
  | 'N' :: r => some (.importNotExist, r)
  | 'A' :: r =>
    let ds := r.takeWhile Char.isDigit
    match dummies (String.ofList ds).toNat! with
    | [] => none
    | a :: t => some (.annotSet a t, r.dropWhile Char.isDigit)
  | 'W' :: '(' :: r => unary .wrapf r
  | 'S' :: '(' :: r => unary .sys r
  | 'C' :: '(' :: r => unary (.connect true) r
  | 'K' :: '(' :: r => unary (.connect false) r
  | 'P' :: r =>
    let ds := r.takeWhile Char.isDigit
    match r.dropWhile Char.isDigit with
    | '(' :: r' => if ds.isEmpty then none else unary (newAppError (String.ofList ds).toNat!) r'
    | _ => none
  | 'J' :: '(' :: r =>
    match parseErr r with
    | some (a, ',' :: r') =>
      match parseErr r' with
      | some (b, ')' :: r'') => some (.join a b, r'')
      | _ => none
    | _ => none
  | _ => none
where
  unary (f : GoErr → GoErr) (r : List Char) : Option (GoErr × List Char) :=
    match parseErr r with
    | some (e, ')' :: r') => some (f e, r')
    | _ => none

def decErr (s : String) : Option GoErr :=
  match parseErr s.toList with
  | some (e, []) => some e
  | _ => none

def decBool (s : String) : Option Bool :=
  if s = "1" then some true else if s = "0" then some false else none

def decMode (s : String) : Option FmtMode :=
  let cs := if s = "-" then [] else s.toList
  if cs.all (fun c => c = 'd' || c = 'w' || c = 'o' || c = 'e') && cs.eraseDups.length = cs.length then
    some { diff := cs.contains 'd', write := cs.contains 'w',
           out := if cs.contains 'o' then .path else .stdout, exitCode := cs.contains 'e' }
  else none

def decWFile (s : String) : Option WFile :=
  match s.splitOn "," with
  | [p, o, f, t, w] => do
    let p ← decStr p
    let o ← decStr o
    let f ← if f = "!" then some none else (decStr f).map some
    let t ← decBool t
    let w ← decBool w
    some { path := p, orig := o, fmt := f, target := t, openable := w }
  | _ => none

def handleFmtW (s : String) : String :=
  match (s.splitOn ";").mapM decWFile with
  | some fs =>
    let r := formatWrite fs
    "err=" ++ (if r.2.1 then "1" else "0") ++ " diff=" ++ (if r.2.2 then "1" else "0") ++ " files=" ++
      ";".intercalate (r.1.map fun pc => encS pc.1 ++ ":" ++ encS pc.2)
  | none => "bad-op"

def decSumm (s : String) : Option Summ :=
  match s.splitOn ":" with
  | [l, h] => do
    let l ← l.toNat?
    let h ← h.toNat?
    some ⟨l, h⟩
  | _ => none

def encSumm (s : Summ) : String := toString s.len ++ ":" ++ toString s.hash

def decSFile (s : String) : Option SFile :=
  match s.splitOn "," with
  | [p, o, f, t, _w] => do
    let p ← decStr p
    let o ← decSumm o
    let f ← if f = "!" then some none else (decSumm f).map some
    let t ← decBool t
    some { path := p, orig := o, fmt := f, target := t }
  | _ => none

def b01 (b : Bool) : String := if b then "1" else "0"

def handleFmtS (sink old files : String) : String :=
  match decSumm old, (files.splitOn ";").mapM decSFile with
  | some old, some fs =>
    let showFiles (r : List (Str × Summ) × Bool) : String :=
      "err=" ++ b01 r.2 ++ " files=" ++ ";".intercalate (r.1.map fun pc => encS pc.1 ++ ":" ++ encSumm pc.2)
    let showOut (r : Summ × Bool) : String := "err=" ++ b01 r.2 ++ " out=" ++ encSumm r.1
    if sink = "stdout" then showOut (formatToFileS Summ.empty fs)
    else if sink = "file" then showOut (formatToFileS old fs)
    else if sink = "dir" then showFiles (formatToDirS fs)
    else if sink = "write" then showFiles (formatWriteS fs)
    else "bad-op"
  | _, _ => "bad-op"

def handleFmtC (sink old files : String) : String :=
  match decStr old, (files.splitOn ";").mapM decWFile with
  | some old, some fs =>
    let showOut (r : Str × Bool) : String := "err=" ++ b01 r.2 ++ " out=" ++ encS r.1
    if sink = "stdout" then showOut (formatToStdout fs)
    else if sink = "file" then showOut (formatToFile old fs)
    else "bad-op"
  | _, _ => "bad-op"

def showEffects (e : FmtEffects) : String :=
  let so := match e.stdoutDiff, e.stdoutSource with
    | false, false => "n" | true, false => "d" | false, true => "s" | true, true => "b"
  "stdout=" ++ so ++ " rewrote=" ++ (if e.rewrote then "1" else "0") ++ " wrote=" ++ (if e.wroteOut then "1" else "0")

def showOutcome (o : Outcome) : String :=
  "exit=" ++ toString o.exit ++ " printed=" ++ (if o.printed.isEmpty then "0" else "1")
    ++ " failure=" ++ (if o.failureLine then "1" else "0")

def showErrOutcome (o : Outcome) : String :=
  "exit=" ++ toString o.exit ++ " printed=" ++ toString o.printed.length
    ++ " failure=" ++ (if o.failureLine then "1" else "0")

def decStrs (s : String) : Option (List Str) :=
  if s = "-" then some [] else (s.splitOn ";").mapM decStr

def showTriple (o : Outcome) : String :=
  toString o.exit ++ ":" ++ toString o.printed.length ++ ":" ++ (if o.failureLine then "1" else "0")

def stepOutcome (via : Bool) : Step → Outcome
  | none => Outcome.ok
  | some e => if via then failStep e [] else failDirect e

def handleImp (files wkt path file line col : String) : String :=
  match decStrs files, decStrs wkt, decStr path, decStr file, line.toNat?, col.toNat? with
  | some files, some wkt, some p, some f, some l, some c =>
    let a : Annot := { file := some f, sl := l, sc := c, el := l, ec := c, type := "COMPILE".toList, msg := [], plugin := [] }
    let b := stepOutcome true (buildImageErr a (importFate files wkt p))
    let at_ := match b.printed with
      | x :: _ => encS (x.file.getD []) ++ ":" ++ toString x.sl ++ ":" ++ toString x.sc
      | [] => "-"
    "build=" ++ showTriple b ++ " at=" ++ at_ ++ " deps=" ++ showTriple (stepOutcome false (moduleDepsErr files wkt p))
  | _, _, _, _, _, _ => "bad-op"

def handle : List String → String
  | ["imp", files, wkt, path, file, line, col] => handleImp files wkt path file line col
  | ["ann", s] => match decAnnots s with
      | some as => handleAnn as
      | none => "bad-op"
  | ["dec", "text", s] => match decStr s with
      | some t => handleDec .text t | none => "bad-op"
  | ["dec", "msvs", s] => match decStr s with
      | some t => handleDec .msvs t | none => "bad-op"
  | ["dec", "gha", s] => match decStr s with
      | some t => handleDec .gha t | none => "bad-op"
  | ["err", via, e] => match decErr e with
      | some e =>
        if via = "c" then showErrOutcome (failStep e [])
        else if via = "d" then showErrOutcome (failDirect e) else "bad-op"
      | none => "bad-op"
  | ["exit", "lint", c, k] => match decCSteps c, decSteps k with
      | some c, some k => showOutcome (lintLike [] c k none) | _, _ => "bad-op"
  | ["exit", "breaking", c, k] => match decCSteps c, decSteps k with
      | some c, some k => showOutcome (lintLike [] c k none) | _, _ => "bad-op"
  | ["exit", "lint", p, c, k, cl] => match decSteps p, decCSteps c, decSteps k, decClose cl with
      | some p, some c, some k, some cl => showOutcome (lintLike p c k cl) | _, _, _, _ => "bad-op"
  | ["exit", "breaking", p, c, k, cl] => match decSteps p, decCSteps c, decSteps k, decClose cl with
      | some p, some c, some k, some cl => showOutcome (lintLike p c k cl) | _, _, _, _ => "bad-op"
  | ["exit", "build", c] => match decCSteps c with
      | some c => showOutcome (build c) | none => "bad-op"
  | ["exit", "depgraph", c] => match decCSteps c with
      | some c => showOutcome (Cmd.depGraph c).run | none => "bad-op"
  | ["exit", "lsfiles", c] => match decCSteps c with
      | some c => showOutcome (Cmd.lsFiles c).run | none => "bad-op"
  | ["fmtw", s] => handleFmtW s
  | ["fmts", sink, old, s] => handleFmtS sink old s
  | ["fmtc", sink, old, s] => handleFmtC sink old s
  | ["exit", "format", m, sw, c, f, d, cp, rw, o] =>
      match decMode m, decBool sw, decCSteps c, decStep f, decBool d, decStep cp, decStep rw, decStep o with
      | some m, some sw, some c, some f, some d, some cp, some rw, some o =>
        let r := formatFull m sw c f d { copyDiff := cp, rewrite := rw, output := o }
        showOutcome r.1 ++ " " ++ showEffects r.2
      | _, _, _, _, _, _, _, _ => "bad-op"
  | _ => "bad-op"

def run : IO Unit := runLines handle

end Driver.C20
