import BufModel.Managed
import BufModel.ManagedYaml
import Driver.C16Gen
import Driver.Util
/-
  Line protocol for C18 (managed mode):

    mod <preserve> <enabled> <disables> <overrides> <files>  ->  ok|err <file>|<file>|...
        disables  : `-` or `;`-joined  path,module,field,fileOption,js
        overrides : `-` or `;`-joined  path,module,field,fileOption,js,sval,bval,nval
        files     : `|`-joined  path,pkg,module,opts,fields,locs,payload
            module : `~` (nil) or hex
            opts   : `-` or `;`-joined  <fieldNumber>=<val>   — EVERY option present in FileOptions
                     val : s<hex> (string) | b0 | b1 | n<enum number> | r<hash> (any other option:
                     hash of its wire bytes; custom / unknown options included)
            fields : `-` or `;`-joined  name:path:typ:fopts:rest   (path dotted, `e` = empty;
                     typ `~` = unset; fopts `-` or `+`-joined <fieldNumber>=<val> of FieldOptions;
                     rest = hash of the FieldDescriptorProto without its options)
            locs   : `-` or `;`-joined dotted paths (`e` = empty path)
            payload: hash of the FileDescriptorProto without file options, field options and
                     source code info
        answer per file — the COMPLETE state after Modify:  <opts>,<fields>,<payload>,<removed>
            opts   : as above, sorted by field number;  fields : `-` or `;`-joined  fopts:rest
            removed: `.`-joined indices of the source-info locations that are gone (`-` none)
    modold ...       same, with the sweeper as it was before the fix (documentation / replay)
    cfgv1 <managed node> <env node>   -> err | ok <enabled> <disables> <overrides>
    cfgv2 <managed node> <env node>      the `managed:` section of a buf.gen.yaml v1 / v2 document (node layouts of
                     Driver/C16Gen: managedV1Of / managedV2Of / envOf) translated to rules by
                     BufModel.ConfigGen.readManagedV1/V2 and mapped by BufModel.ManagedYaml.toConfig;
                     the implementation answers with the rules bufconfig.ReadBufGenYAMLFile produced
                     from the YAML text (same encoding as the <disables> <overrides> fields of `mod`)
    wkt <hex>        -> true|false        (datawkt.Exists)
    pascal <hex>     -> <hex>             (stringutil.ToPascalCase)
    pkgver <hex>     -> true|false        (protoversion.NewPackageVersionForPackage ok)
-/
namespace Driver.C18
open BufModel.Managed Driver

def s2l (s : String) : List Char := s.toList
def l2s (l : List Char) : String := String.ofList l

def decStr (s : String) : Option (List Char) := (hexDecode s).map s2l

def decOptStr (s : String) : Option (Option (List Char)) :=
  if s = "~" then some none else (decStr s).map some

def decOptNat (s : String) : Option (Option Nat) :=
  if s = "~" then some none else s.toNat?.map some

def decOptBool (s : String) : Option (Option Bool) :=
  if s = "~" then some none else if s = "0" then some (some false)
  else if s = "1" then some (some true) else none

def decBool (s : String) : Option Bool :=
  if s = "0" then some false else if s = "1" then some true else none

def decPath (s : String) : Option (List Nat) :=
  if s = "e" then some [] else (s.splitOn ".").mapM String.toNat?

def decList {α} (sep : String) (f : String → Option α) (s : String) : Option (List α) :=
  if s = "-" then some [] else (s.splitOn sep).mapM f

def decDisable (s : String) : Option Disable :=
  match s.splitOn "," with
  | [p, m, fl, fo, js] => do
    let p ← decStr p; let m ← decStr m; let fl ← decStr fl
    let fo ← fo.toNat?; let js ← decBool js
    pure ⟨p, m, fl, FileOption.fromNat fo, js⟩
  | _ => none

def decOverride (s : String) : Option Override :=
  match s.splitOn "," with
  | [p, m, fl, fo, js, sv, bv, nv] => do
    let p ← decStr p; let m ← decStr m; let fl ← decStr fl
    let fo ← fo.toNat?; let js ← decBool js
    let sv ← decStr sv; let bv ← decBool bv; let nv ← nv.toNat?
    pure ⟨p, m, fl, FileOption.fromNat fo, js, sv, bv, nv⟩
  | _ => none

def decVal (s : String) : Option OVal :=
  match s.toList with
  | 's' :: rest => (decStr (String.ofList rest)).map .str
  | ['b', '0'] => some (.bool false)
  | ['b', '1'] => some (.bool true)
  | 'n' :: rest => (String.ofList rest).toNat?.map .num
  | 'r' :: rest => (String.ofList rest).toNat?.map .raw
  | _ => none

def decOpt (s : String) : Option (Nat × OVal) :=
  match s.splitOn "=" with
  | [n, v] => do let n ← n.toNat?; let v ← decVal v; pure (n, v)
  | _ => none

def decField (s : String) : Option Field :=
  match s.splitOn ":" with
  | [n, p, t, os, rest] => do
    let n ← decStr n; let p ← decPath p; let t ← decOptNat t
    let os ← decList "+" decOpt os; let rest ← rest.toNat?
    pure ⟨n, p, t, os, rest⟩
  | _ => none

def decFile (s : String) : Option File :=
  match s.splitOn "," with
  | [p, pk, m, opts, fields, locs, payload] => do
    let p ← decStr p; let pk ← decStr pk; let m ← decOptStr m
    let opts ← decList ";" decOpt opts
    let fields ← decList ";" decField fields
    let locs ← decList ";" decPath locs
    let payload ← payload.toNat?
    pure { path := p, pkg := pk, module := m, opts := opts, fields := fields,
           locs := locs.zipIdx.map (fun q => ⟨q.1, q.2⟩), payload := payload }
  | _ => none

def encVal : OVal → String
  | .str s => "s" ++ enc (l2s s)
  | .bool b => if b then "b1" else "b0"
  | .num n => "n" ++ toString n
  | .raw h => "r" ++ toString h

/-- stable insertion by field number (an option set for the first time is appended by the
    model; the wire order is by field number). -/
def insertOpt (x : Nat × OVal) : List (Nat × OVal) → List (Nat × OVal)
  | [] => [x]
  | y :: ys => if x.1 < y.1 then x :: y :: ys else y :: insertOpt x ys

def sortOpts (os : Opts) : Opts := os.foldl (fun acc x => insertOpt x acc) []

def encOpts (sep : String) (os : Opts) : String :=
  if os.isEmpty then "-"
  else sep.intercalate ((sortOpts os).map fun q => toString q.1 ++ "=" ++ encVal q.2)

def fileAnswer (before after : File) : String :=
  let fields := after.fields.map fun fd => encOpts "+" fd.opts ++ ":" ++ toString fd.rest
  let kept := after.locs.map (·.payload)
  let removed := (List.range before.locs.length).filter fun i => !kept.contains i
  encOpts ";" after.opts ++ "," ++
  (if fields.isEmpty then "-" else ";".intercalate fields) ++ "," ++
  toString after.payload ++ "," ++
  (if removed.isEmpty then "-" else ".".intercalate (removed.map toString))

def handleMod (fixed : Bool) (pres en dis ovr files : String) : String :=
  match decBool pres, decBool en, decList ";" decDisable dis, decList ";" decOverride ovr,
        (files.splitOn "|").mapM decFile with
  | some pres, some en, some dis, some ovr, some files =>
    let r := modifyWith fixed pres ⟨en, dis, ovr⟩ files
    (if r.err then "err" else "ok") ++ "\t" ++
      "|".intercalate ((files.zip r.files).map fun q => fileAnswer q.1 q.2)
  | _, _, _, _, _ => "bad-op"

/-- inverse of `FileOption.fromNat` (the Go iota). -/
def foNat : FileOption → Nat
  | .unspecified => 0 | .javaPackage => 1 | .javaPackagePrefix => 2 | .javaPackageSuffix => 3
  | .javaOuterClassname => 4 | .javaMultipleFiles => 5 | .javaStringCheckUtf8 => 6
  | .optimizeFor => 7 | .goPackage => 8 | .goPackagePrefix => 9 | .ccEnableArenas => 10
  | .objcClassPrefix => 11 | .csharpNamespace => 12 | .csharpNamespacePrefix => 13
  | .phpNamespace => 14 | .phpMetadataNamespace => 15 | .phpMetadataNamespaceSuffix => 16
  | .rubyPackage => 17 | .rubyPackageSuffix => 18

def b01 (b : Bool) : String := if b then "1" else "0"

def encDisable (d : Disable) : String :=
  ",".intercalate [enc (l2s d.path), enc (l2s d.module), enc (l2s d.fieldName),
    toString (foNat d.fileOption), b01 d.jstype]

def encOverride (o : Override) : String :=
  ",".intercalate [enc (l2s o.path), enc (l2s o.module), enc (l2s o.fieldName),
    toString (foNat o.fileOption), b01 o.jstype, enc (l2s o.sval), b01 o.bval, toString o.nval]

def encRules (c : Config) : String :=
  let ds := c.disables.map encDisable
  let os := c.overrides.map encOverride
  "ok\t" ++ b01 c.enabled ++ "\t" ++ (if ds.isEmpty then "-" else ";".intercalate ds) ++ "\t" ++
    (if os.isEmpty then "-" else ";".intercalate os)

def handleCfg (v1 : Bool) (doc env : String) : String :=
  match Driver.C16Node.parse doc, (Driver.C16Node.parse env).bind Driver.C16Gen.envOf with
  | some d, some e =>
    if v1 then
      match Driver.C16Gen.managedV1Of d with
      | none => "bad-op"
      | some x => match BufModel.ManagedYaml.configOfV1 e x with
        | none => "err" | some c => encRules c
    else
      match Driver.C16Gen.managedV2Of d with
      | none => "bad-op"
      | some x => match BufModel.ManagedYaml.configOfV2 e x with
        | none => "err" | some c => encRules c
  | _, _ => "bad-op"

def handle : List String → String
  | ["mod", pres, en, dis, ovr, files] => handleMod true pres en dis ovr files
  | ["cfgv1", doc, env] => handleCfg true doc env
  | ["cfgv2", doc, env] => handleCfg false doc env
  | ["modold", pres, en, dis, ovr, files] => handleMod false pres en dis ovr files
  | ["wkt", a] => match decStr a with
      | some s => toString (isWKT s) | none => "bad-op"
  | ["pascal", a] => match decStr a with
      | some s => enc (l2s (toPascalCase s)) | none => "bad-op"
  | ["pkgver", a] => match decStr a with
      | some s => toString (hasPackageVersion s) | none => "bad-op"
  | _ => "bad-op"

def run : IO Unit := runLines handle

end Driver.C18
