import BufModel.Managed
import Driver.Util
/-
  Line protocol for C18 (managed mode):

    mod <preserve> <enabled> <disables> <overrides> <files>  ->  ok|err <file>|<file>|...
        disables  : `-` or `;`-joined  path,module,field,fileOption,js
        overrides : `-` or `;`-joined  path,module,field,fileOption,js,sval,bval,nval
        files     : `|`-joined  path,pkg,module,strs,bools,opt,fields,locs
            module : `~` (nil) or hex;  strs : 8 `:`-joined `~`|hex;  bools : 3 `:`-joined `~`|0|1
            opt : `~`|n;  fields : `-` or `;`-joined  name:path:typ:js  (path dotted, `~` = unset)
            locs : `-` or `;`-joined dotted paths (`e` = empty path)
        answer per file:  <changes>;<removed>   changes = `,`-joined s<tag>=<hex> b<tag>=<0|1>
            o9=<n> j<fieldIndex>=<n> (`-` none);  removed = `.`-joined location indices (`-` none)
    modold ...       same, with the sweeper as it was before the fix (documentation / replay)
    wkt <hex>        -> true|false        (datawkt.Exists)
    pascal <hex>     -> <hex>             (stringutil.ToPascalCase)
    pkgver <hex>     -> true|false        (protoversion.NewPackageVersionForPackage ok)
-/
namespace Driver.C18
open BufModel.Managed Driver

def s2l (s : String) : List Char := s.toList
def l2s (l : List Char) : String := String.ofList l

def decStr (s : String) : Option (List Char) := (hexDecode s).map s2l

def decOptStr (s : String) : Option (Option (List Char)) :=
  if s = "~" then some none else (decStr s).map some

def decOptNat (s : String) : Option (Option Nat) :=
  if s = "~" then some none else s.toNat?.map some

def decOptBool (s : String) : Option (Option Bool) :=
  if s = "~" then some none else if s = "0" then some (some false)
  else if s = "1" then some (some true) else none

def decBool (s : String) : Option Bool :=
  if s = "0" then some false else if s = "1" then some true else none

def decPath (s : String) : Option (List Nat) :=
  if s = "e" then some [] else (s.splitOn ".").mapM String.toNat?

def decList {α} (sep : String) (f : String → Option α) (s : String) : Option (List α) :=
  if s = "-" then some [] else (s.splitOn sep).mapM f

def decDisable (s : String) : Option Disable :=
  match s.splitOn "," with
  | [p, m, fl, fo, js] => do
    let p ← decStr p; let m ← decStr m; let fl ← decStr fl
    let fo ← fo.toNat?; let js ← decBool js
    pure ⟨p, m, fl, FileOption.fromNat fo, js⟩
  | _ => none

def decOverride (s : String) : Option Override :=
  match s.splitOn "," with
  | [p, m, fl, fo, js, sv, bv, nv] => do
    let p ← decStr p; let m ← decStr m; let fl ← decStr fl
    let fo ← fo.toNat?; let js ← decBool js
    let sv ← decStr sv; let bv ← decBool bv; let nv ← nv.toNat?
    pure ⟨p, m, fl, FileOption.fromNat fo, js, sv, bv, nv⟩
  | _ => none

def decField (s : String) : Option Field :=
  match s.splitOn ":" with
  | [n, p, t, js] => do
    let n ← decStr n; let p ← decPath p; let t ← decOptNat t; let js ← decOptNat js
    pure ⟨n, p, t, js, 0⟩
  | _ => none

def nth {α} (l : List α) (i : Nat) : Option α := l[i]?

def decFile (s : String) : Option File :=
  match s.splitOn "," with
  | [p, pk, m, strs, bools, opt, fields, locs] => do
    let p ← decStr p; let pk ← decStr pk; let m ← decOptStr m
    let strs ← (strs.splitOn ":").mapM decOptStr
    let bools ← (bools.splitOn ":").mapM decOptBool
    let opt ← decOptNat opt
    let fields ← decList ";" decField fields
    let locs ← decList ";" decPath locs
    if strs.length ≠ 8 ∨ bools.length ≠ 3 then none else
    let strOpts : StrOpt → Option (List Char) := fun o =>
      ((StrOpt.all.zip strs).find? (fun q => q.1 = o)).bind (·.2)
    let boolOpts : BoolOpt → Option Bool := fun o =>
      ((BoolOpt.all.zip bools).find? (fun q => q.1 = o)).bind (·.2)
    pure { path := p, pkg := pk, module := m, strOpts := strOpts, boolOpts := boolOpts,
           optimizeFor := opt, fields := fields,
           locs := locs.zipIdx.map (fun q => ⟨q.1, q.2⟩), rest := 0 }
  | _ => none

def fileAnswer (before after : File) : String :=
  let strs := StrOpt.all.filterMap fun o =>
    if before.strOpts o = after.strOpts o then none
    else some ("s" ++ toString o.tag ++ "=" ++ enc (l2s ((after.strOpts o).getD [])))
  let bools := BoolOpt.all.filterMap fun o =>
    if before.boolOpts o = after.boolOpts o then none
    else some ("b" ++ toString o.tag ++ "=" ++ (if (after.boolOpts o).getD false then "1" else "0"))
  let opt := if before.optimizeFor = after.optimizeFor then []
    else ["o9=" ++ toString (after.optimizeFor.getD 0)]
  let js := ((before.fields.zip after.fields).zipIdx.filterMap fun q =>
    if q.1.1.jstype = q.1.2.jstype then none
    else some ("j" ++ toString q.2 ++ "=" ++ toString (q.1.2.jstype.getD 0)))
  let changes := strs ++ bools ++ opt ++ js
  let kept := after.locs.map (·.payload)
  let removed := (List.range before.locs.length).filter fun i => !kept.contains i
  (if changes.isEmpty then "-" else ",".intercalate changes) ++ ";" ++
  (if removed.isEmpty then "-" else ".".intercalate (removed.map toString))

def handleMod (fixed : Bool) (pres en dis ovr files : String) : String :=
  match decBool pres, decBool en, decList ";" decDisable dis, decList ";" decOverride ovr,
        (files.splitOn "|").mapM decFile with
  | some pres, some en, some dis, some ovr, some files =>
    let r := modifyWith fixed pres ⟨en, dis, ovr⟩ files
    (if r.err then "err" else "ok") ++ "\t" ++
      "|".intercalate ((files.zip r.files).map fun q => fileAnswer q.1 q.2)
  | _, _, _, _, _ => "bad-op"

def handle : List String → String
  | ["mod", pres, en, dis, ovr, files] => handleMod true pres en dis ovr files
  | ["modold", pres, en, dis, ovr, files] => handleMod false pres en dis ovr files
  | ["wkt", a] => match decStr a with
      | some s => toString (isWKT s) | none => "bad-op"
  | ["pascal", a] => match decStr a with
      | some s => enc (l2s (toPascalCase s)) | none => "bad-op"
  | ["pkgver", a] => match decStr a with
      | some s => toString (hasPackageVersion s) | none => "bad-op"
  | _ => "bad-op"

def run : IO Unit := runLines handle

end Driver.C18
