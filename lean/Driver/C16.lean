import BufModel.Config
import Driver.Util
import Driver.C16Node
import Driver.C16Gen
import Driver.C16Mig
/-
  Line protocol of C16 (fields TAB-separated; a Node is one field, see Driver/C16Node.lean):

    yaml <v1beta1|v1|v2> <ext doc>   -> err | ok <config> <written ext doc> <same | err | config>
    work <( dir ... )>               -> err | ok <( dir ... )> <( written ... )> <same|err|…>
    lock <ver> <( dep ... )> <( plugin ... )>
                                     -> err | ok <lock> <( written dep ... )> <( written plugin ... )> <same|err|…>
    gen <( version body env )>      -> see lean/Driver/C16Gen.lean (buf.gen.yaml, same err|ok … shape)
    migws <( (dir ((root (excl…)) …) lintOff breakingOff) … )> <( file … )>
                                     -> ( before ) ( (v2 module dir (excl…) lintOff breakingOff) … ) ( after ) agree|DISAGREE
       dirs relative to the destination directory; before/after: per file the owner triples
       (module dir, root, root-relative path) computed by BufModel.Config.owners on the v1
       workspace resp. on the modules of readV2 (writeV2 (migrateFile ws)); agree = after is a
       permutation of before renamed by migratedOwner (theorem migrate_preserves_targets_partial);
       lintOff / breakingOff: the checks of the module are switched off (`ignore: [.]`); the
       migrator is `migrateFile (equivLint enabledOf) (equivBreaking enabledOf)` (as coded after
       the fix: a disabled check config stays disabled, theorem migrate_keeps_disabled) and the
       flags of the v2 modules are those the v2 reader returns for the written file
    migchk <mode> <v1beta1|v1> <lint section> <breaking section> <lint hint> <breaking hint>
                                     -> see lean/Driver/C16Mig.lean (rule selection through `buf config migrate`)

  ext doc layouts (positional):
    lint      ( use except ignore ignoreOnly enumZero rpcSame rpcReq rpcResp svcSuffix commentFlag disableBuiltin )
    breaking  ( use except ignore ignoreOnly ignoreUnstable disableBuiltin )
    ignoreOnly ( ( id ( path … ) ) … )           keys sorted
    v1 doc    ( name nameValid ( (full ref valid) … ) roots excludes lint breaking )
    v2 module ( path name nameValid includes excludes lint breaking )
    v2 doc    ( name nameValid ( module … ) ( (full ref valid) … ) lint breaking ( plugin … ) )
    plugin    ( ( path … ) isRef ( (key value) … ) nullOption )
  config layout:
    ( ver ( module … ) ( (full ref) … ) ( plugin … ) )
    module ( dirPath name ( (root (incl …) (excl …)) … ) lint breaking )
    lint ( check enumZero rpcSame rpcReq rpcResp svcSuffix allowCommentIgnores )   breaking ( check ignoreUnstable )
    check ( disabled use except ( ignore … ) ( (id (path …)) … ) disableBuiltin )
    plugin ( kind name ( arg … ) ( (key value) … ) )
-/
namespace Driver.C16
open BufModel.Path BufModel.Config Driver Driver.C16Node

def sl (s : String) : List Char := s.toList

/-! ### Node -> external documents -/

def toPs (n : Node) : Option (List P) := do
  let ss ← n.asStrs
  pure (ss.map normP)

def toIgnoreOnly (n : Node) : Option (List (Str × List P)) := do
  let xs ← n.asList
  xs.mapM fun x => do
    match x with
    | .list [k, ps] => do
      let k ← k.asAtom
      let ps ← toPs ps
      pure (k, ps)
    | _ => none

def toExtLint : Node → Option ExtLint
  | .list [use, exc, ign, io, ez, a, b, c, ss, cf, db] => do
    pure ⟨⟨← use.asStrs, ← exc.asStrs, ← toPs ign, ← toIgnoreOnly io, ← db.asBool⟩,
      ← ez.asAtom, ← a.asBool, ← b.asBool, ← c.asBool, ← ss.asAtom, ← cf.asBool⟩
  | _ => none

def toExtBreaking : Node → Option ExtBreaking
  | .list [use, exc, ign, io, iu, db] => do
    pure ⟨⟨← use.asStrs, ← exc.asStrs, ← toPs ign, ← toIgnoreOnly io, ← db.asBool⟩, ← iu.asBool⟩
  | _ => none

def toRefs (n : Node) : Option (List ExtRef) := do
  let xs ← n.asList
  xs.mapM fun x =>
    match x with
    | .list [f, r, v] => do pure ⟨← f.asAtom, ← r.asAtom, ← v.asBool⟩
    | _ => none

def toExtV1 : Node → Option ExtV1
  | .list [name, nv, deps, roots, excl, lint, brk] => do
    pure ⟨⟨← name.asAtom, ← nv.asBool⟩, ← toRefs deps, ← toPs roots, ← toPs excl, ← toExtLint lint, ← toExtBreaking brk⟩
  | _ => none

def toExtModule : Node → Option ExtModule
  | .list [path, name, nv, incs, excl, lint, brk] => do
    pure ⟨normP (← path.asAtom), ⟨← name.asAtom, ← nv.asBool⟩, ← toPs incs, ← toPs excl, ← toExtLint lint, ← toExtBreaking brk⟩
  | _ => none

def toKVs (n : Node) : Option (List (Str × Str)) := do
  let xs ← n.asList
  xs.mapM fun x =>
    match x with
    | .list [k, v] => do pure (← k.asAtom, ← v.asAtom)
    | _ => none

def toExtPlugin : Node → Option ExtPlugin
  | .list [path, isRef, opts, nullOpt] => do
    pure ⟨← path.asStrs, ← isRef.asBool, ← toKVs opts, ← nullOpt.asBool⟩
  | _ => none

def toExtV2 : Node → Option ExtV2
  | .list [name, nv, mods, deps, lint, brk, plugins] => do
    let ms ← (← mods.asList).mapM toExtModule
    let ps ← (← plugins.asList).mapM toExtPlugin
    pure ⟨⟨← name.asAtom, ← nv.asBool⟩, ms, ← toRefs deps, ← toExtLint lint, ← toExtBreaking brk, ps⟩
  | _ => none

/-! ### model values -> Node -/

def keyN (k : Key) : Node := A (renderKey k)
def keysN (ks : List Key) : Node := L (ks.map keyN)
def pN (p : P) : Node := A p.render
def psN (ps : List P) : Node := L (ps.map pN)

def checkN (c : Check) : Node :=
  L [B c.disabled, strs c.use, strs c.except, keysN c.ignore,
     L (c.ignoreOnly.map fun (id, ks) => L [A id, keysN ks]), B c.disableBuiltin]

def lintN (l : Lint) : Node :=
  L [checkN l.chk, A l.enumZeroValueSuffix, B l.rpcAllowSameRequestResponse,
     B l.rpcAllowGoogleProtobufEmptyRequests, B l.rpcAllowGoogleProtobufEmptyResponses,
     A l.serviceSuffix, B l.allowCommentIgnores]

def breakingN (b : Breaking) : Node := L [checkN b.chk, B b.ignoreUnstablePackages]

def moduleN (m : Module) : Node :=
  L [keyN m.dirPath, A m.name,
     L (m.roots.map fun r => L [keyN r.root, keysN r.includes, keysN r.excludes]),
     lintN m.lint, breakingN m.breaking]

def verS : Ver → String
  | .v1beta1 => "v1beta1" | .v1 => "v1" | .v2 => "v2"

def kindS : PluginKind → String
  | .local => "local" | .localWasm => "local_wasm" | .remoteWasm => "remote_wasm"

def kvsN (kvs : List (Str × Str)) : Node := L (kvs.map fun (k, v) => L [A k, A v])

def configN (c : BufYAML) : Node :=
  L [A (sl (verS c.version)), L (c.modules.map moduleN),
     L (c.deps.map fun d => L [A d.full, A d.ref]),
     L (c.plugins.map fun p => L [A (sl (kindS p.kind)), A p.name, strs p.args, kvsN p.options])]

def extCheckFields (c : ExtCheck) : List Node :=
  [strs c.use, strs c.except, psN c.ignore, L (c.ignoreOnly.map fun (id, ps) => L [A id, psN ps])]

def extLintN (l : ExtLint) : Node :=
  L (extCheckFields l.chk ++ [A l.enumZeroValueSuffix, B l.rpcAllowSameRequestResponse,
     B l.rpcAllowGoogleProtobufEmptyRequests, B l.rpcAllowGoogleProtobufEmptyResponses,
     A l.serviceSuffix, B l.commentFlag, B l.chk.disableBuiltin])

def extBreakingN (b : ExtBreaking) : Node :=
  L (extCheckFields b.chk ++ [B b.ignoreUnstablePackages, B b.chk.disableBuiltin])

def refsN (rs : List ExtRef) : Node := L (rs.map fun r => L [A r.full, A r.ref, B r.valid])

def extV1N (e : ExtV1) : Node :=
  L [A e.name.name, B e.name.valid, refsN e.deps, psN e.roots, psN e.excludes, extLintN e.lint, extBreakingN e.breaking]

def extModuleN (m : ExtModule) : Node :=
  L [pN m.path, A m.name.name, B m.name.valid, psN m.includes, psN m.excludes, extLintN m.lint, extBreakingN m.breaking]

def extV2N (e : ExtV2) : Node :=
  L [A e.name.name, B e.name.valid, L (e.modules.map extModuleN), refsN e.deps, extLintN e.lint, extBreakingN e.breaking,
     L (e.plugins.map fun p => L [strs p.path, B p.isRef, kvsN p.options, B p.nullOption])]

/-! ### handlers -/

def third {α : Type} [DecidableEq α] (c1 : α) (r2 : Option α) (show_ : α → Node) : String :=
  match r2 with
  | none => "err"
  | some c2 => if c2 = c1 then "same" else render (show_ c2)

def handleYaml (ver : String) (n : Node) : String :=
  match ver with
  | "v2" =>
    match toExtV2 n with
    | none => "bad-node"
    | some e =>
      match readV2 e with
      | none => "err"
      | some c =>
        let w := writeV2 c
        "ok " ++ render (configN c) ++ " " ++ render (extV2N w) ++ " " ++ third c (readV2 w) configN
  | _ =>
    let v : Ver := if ver = "v1" then .v1 else .v1beta1
    match toExtV1 n with
    | none => "bad-node"
    | some e =>
      match readV1 v e with
      | none => "err"
      | some c =>
        let w := writeV1 c
        "ok " ++ render (configN c) ++ " " ++ render (extV1N w) ++ " " ++ third c (readV1 v w) configN

def handleWork (n : Node) : String :=
  match toPs n with
  | none => "bad-node"
  | some ps =>
    match readWork ps with
    | none => "err"
    | some ds =>
      let w := writeWork ds
      "ok " ++ render (keysN ds) ++ " " ++ render (psN w) ++ " " ++ third ds (readWork w) keysN

def toDigestType (s : List Char) : DigestType :=
  if s = ['b', '4'] then .b4 else if s = ['b', '5'] then .b5 else .other

def digestTypeS : DigestType → String
  | .b4 => "b4" | .b5 => "b5" | .other => "other"

def toLockDep : Node → Option ExtLockDep
  | .list [r, o, n, nv, c, cv, d, dt] => do
    pure ⟨← r.asAtom, ← o.asAtom, ← n.asAtom, ← nv.asBool, ← c.asAtom, ← cv.asBool, ← d.asAtom, toDigestType (← dt.asAtom)⟩
  | _ => none

def toLockPlugin : Node → Option ExtLockPlugin
  | .list [n, nv, c, cv, d, dv] => do
    pure ⟨← n.asAtom, ← nv.asBool, ← c.asAtom, ← cv.asBool, ← d.asAtom, ← dv.asBool⟩
  | _ => none

def lockN (f : BufLockFile) : Node :=
  L [A (sl (verS f.lock.version)),
     L (f.lock.deps.map fun d => L [A d.remote, A d.owner, A d.repository, A d.commit, A d.digest]),
     L (f.plugins.map fun p => L [A p.name, A p.commit, A p.digest])]

def extLockN (ds : List ExtLockDep) : Node :=
  L (ds.map fun d => L [A d.remote, A d.owner, A d.repository, B d.nameValid, A d.commit, B d.commitValid, A d.digest, A (sl (digestTypeS d.digestType))])

def extLockPluginsN (ps : List ExtLockPlugin) : Node :=
  L (ps.map fun p => L [A p.name, B p.nameValid, A p.commit, B p.commitValid, A p.digest, B p.digestValid])

def toVer (s : String) : Ver := if s = "v2" then .v2 else if s = "v1" then .v1 else .v1beta1

def handleLock (ver : String) (n pn : Node) : String :=
  match n.asList, pn.asList with
  | some xs, some ys =>
    match xs.mapM toLockDep, ys.mapM toLockPlugin with
    | some ds, some ps =>
      match readLockFile (toVer ver) ds ps with
      | none => "err"
      | some f =>
        let w := writeLockFile f
        "ok " ++ render (lockN f) ++ " " ++ render (extLockN w.1) ++ " " ++ render (extLockPluginsN w.2) ++ " " ++
          third f (readLockFile (toVer ver) w.1 w.2) lockN
    | _, _ => "bad-node"
  | _, _ => "bad-node"

def dfltLint : Lint := ⟨⟨false, [], [], [], [], false⟩, [], false, false, false, [], false⟩
def dfltBreaking : Breaking := ⟨⟨false, [], [], [], [], false⟩, false⟩

def tripleN (o : Key × Key × Key) : Node := L [keyN o.1, keyN o.2.1, keyN o.2.2]

/-- canonical order of the owner triples of one file: by module directory, then root (string order) -/
def ownerLt (a b : Key × Key × Key) : Bool :=
  strLt (renderKey a.1 ++ [Char.ofNat 0] ++ renderKey a.2.1) (renderKey b.1 ++ [Char.ofNat 0] ++ renderKey b.2.1)

def permB (a b : List (Key × Key × Key)) : Bool :=
  a.length == b.length && a.all fun x => a.count x == b.count x

/-- migws: BOTH sides are evaluated with the model's `owners` (the shared workspace targeting):
    before = the v1/v1beta1 workspace as given, after = the modules the v2 reader returns for what
    the v2 writer writes for the migrator's file. -/
def handleMigWs (wsN filesN : Node) : String :=
  match wsN.asList, filesN.asStrs with
  | some ms, some fs =>
    let ws : Option (List Module) := ms.mapM fun m =>
      match m with
      | .list [dir, roots, ld, bd] => do
        let d ← (normP (← dir.asAtom)).nv
        let lOff ← ld.asBool
        let bOff ← bd.asBool
        let rs ← (← roots.asList).mapM fun r =>
          match r with
          | .list [root, excl] => do
            let rk ← (normP (← root.asAtom)).nv
            let ex ← (← excl.asStrs).mapM fun s => (normP s).nv
            pure (⟨rk, [], ex⟩ : Root)
          | _ => none
        pure (⟨d, [], rs, if lOff then { dfltLint with chk := Check.disabledCfg } else dfltLint,
                if bOff then { dfltBreaking with chk := Check.disabledCfg } else dfltBreaking⟩ : Module)
      | _ => none
    match ws, fs.mapM (fun f => (normP f).nv) with
    | some ws, some fks =>
      match migrateFile (equivLint enabledOf) (equivBreaking enabledOf) ws [] with
      | none => "migrate-none"
      | some c =>
        match readV2 (writeV2 c) with
        | none => "reread-err"
        | some c' =>
          let before := fks.map fun f => sortStable ownerLt (owners ws f)
          let after := fks.map fun f => sortStable ownerLt (owners c'.modules f)
          let mods := L (c'.modules.map fun m =>
            L [keyN m.dirPath, keysN ((m.roots.headD ⟨[], [], []⟩).excludes.map fun x => m.dirPath ++ x),
               B m.lint.chk.disabled, B m.breaking.chk.disabled])
          let agree := (fks.all fun f => permB (owners c'.modules f) ((owners ws f).map migratedOwner)) && decide (c' = c)
          render (L (before.map fun os => L (os.map tripleN))) ++ " " ++ render mods ++ " " ++
            render (L (after.map fun os => L (os.map tripleN))) ++ " " ++ (if agree then "agree" else "DISAGREE")
    | _, _ => "bad-node"
  | _, _ => "bad-node"

def handle : List String → String
  | ["yaml", ver, a] => match parse a with
      | some n => handleYaml ver n | none => "bad-node"
  | ["work", a] => match parse a with
      | some n => handleWork n | none => "bad-node"
  | ["lock", ver, a, b] => match parse a, parse b with
      | some n, some pn => handleLock ver n pn | _, _ => "bad-node"
  | ["gen", a] => match parse a with
      | some n => Driver.C16Gen.handleGen n | none => "bad-node"
  | ["migws", a, b] => match parse a, parse b with
      | some x, some y => handleMigWs x y | _, _ => "bad-node"
  | ["migchk", mode, ver, a, b, c, d] => match parse a, parse b, parse c, parse d with
      | some l, some br, some hl, some hb => Driver.C16Mig.handleMigChk mode ver l br hl hb | _, _, _, _ => "bad-node"
  | _ => "bad-op"

def run : IO Unit := runLines handle

end Driver.C16
