import BufModel.Bucket
import BufModel.Archive
import Driver.Util
/-
  Line protocol for bucket histories (C13, C14):
    hist <TAB> layers <TAB> init <TAB> ops
      layers : "-" | comma-separated, outermost first: p:<hex> | f:<matcher>
      matcher: ext:<hex> | base:<hex> | eq:<hex> | eoc:<hex> | cont:<hex> | not:<m> | and:<m>:<m> | or:<m>:<m>
      init   : "-" | <hexpath>=<content>,...   (objects placed directly in the base bucket)
      ops    : ;-separated  g:<hex> s:<hex> w:<hex> p:<hex>:<content> d:<hex> D:<hex>
    output: per-op results joined by ';' then '|' and the final base-bucket dump (sorted).
-/
namespace Driver.Bucket
open BufModel.Path BufModel.Bucket Driver

def s2l (s : String) : List Char := s.toList
def l2s (l : List Char) : String := String.ofList l

partial def parseMatcher : List String → Option (Matcher × List String)
  | "ext" :: h :: r => (hexDecode h).map fun s => (.ext (s2l s), r)
  | "base" :: h :: r => (hexDecode h).map fun s => (.base (s2l s), r)
  | "eq" :: h :: r => (hexDecode h).map fun s => (.equal (s2l s), r)
  | "eoc" :: h :: r => (hexDecode h).map fun s => (.eqOrContained (s2l s), r)
  | "cont" :: h :: r => (hexDecode h).map fun s => (.contained (s2l s), r)
  | "not" :: r => (parseMatcher r).map fun (m, r') => (.not m, r')
  | "and" :: r => do
      let (a, r1) ← parseMatcher r
      let (b, r2) ← parseMatcher r1
      pure (.and a b, r2)
  | "or" :: r => do
      let (a, r1) ← parseMatcher r
      let (b, r2) ← parseMatcher r1
      pure (.or a b, r2)
  | _ => none

def parseLayer (s : String) : Option Layer :=
  match s.splitOn ":" with
  | ["p", h] => (hexDecode h).map fun x => .pre (s2l x)
  | "f" :: rest => match parseMatcher rest with
      | some (m, []) => some (.filt m)
      | _ => none
  | _ => none

def parseLayers (s : String) : Option (List Layer) :=
  if s = "-" then some [] else (s.splitOn ",").mapM parseLayer

def parseInit (s : String) : Option Mem :=
  if s = "-" then some [] else
  (s.splitOn ",").mapM fun kv =>
    match kv.splitOn "=" with
    | [k, v] => (hexDecode k).map fun p => (s2l p, v)
    | _ => none

def insertSorted (x : String × String) : List (String × String) → List (String × String)
  | [] => [x]
  | y :: ys => if x.1 < y.1 then x :: y :: ys else y :: insertSorted x ys

def sortPairs (l : List (String × String)) : List (String × String) :=
  l.foldl (fun acc x => insertSorted x acc) []

def dump (objs : List (Str × Content)) : String :=
  let enc' := objs.map fun (k, v) => (hexEncode (l2s k), v)
  ",".intercalate ((sortPairs enc').map fun (k, v) => k ++ "=" ++ v)

def errS (e : PErr) : String := "err:" ++ e.tag

def stepOp (ls : List Layer) (m : Mem) (op : String) : Mem × String :=
  match op.splitOn ":" with
  | ["g", h] => match hexDecode h with
      | some p => (match vGet ls m (s2l p) with
          | .ok c => (m, "ok:" ++ c) | .error e => (m, errS e))
      | none => (m, "bad-op")
  | ["s", h] => match hexDecode h with
      | some p => (match vGet ls m (s2l p) with
          | .ok _ => (m, "ok") | .error e => (m, errS e))
      | none => (m, "bad-op")
  | ["w", h] => match hexDecode h with
      | some p => (match vWalk ls m (s2l p) with
          | .ok objs => (m, "ok:" ++ dump objs) | .error e => (m, errS e))
      | none => (m, "bad-op")
  | ["p", h, c] => match hexDecode h with
      | some p => (match vPut ls m (s2l p) (if c = "-" then "" else c) with
          | .ok m' => (m', "ok") | .error e => (m, errS e))
      | none => (m, "bad-op")
  | ["d", h] => match hexDecode h with
      | some p => (match vDelete ls m (s2l p) with
          | .ok m' => (m', "ok") | .error e => (m, errS e))
      | none => (m, "bad-op")
  | ["D", h] => match hexDecode h with
      | some p => (match vDeleteAll ls m (s2l p) with
          | .ok m' => (m', "ok") | .error e => (m, errS e))
      | none => (m, "bad-op")
  | _ => (m, "bad-op")

def handleHist (layers init ops : String) : String :=
  match parseLayers layers, parseInit init with
  | some ls, some m0 =>
    let opsL := if ops = "-" then [] else ops.splitOn ";"
    let (m, outs) := opsL.foldl (fun (acc : Mem × List String) op =>
      let (m', o) := stepOp ls acc.1 op
      (m', o :: acc.2)) (m0, [])
    ";".intercalate outs.reverse ++ "|" ++ dump m
  | _, _ => "bad-op"

/-- untar <strip> <hexname>=<content>,... : entries in archive order; a rejected entry aborts
    (earlier entries stay written); skipped entries are ignored. Regular files only.
    Runs `BufModel.Archive.extractInto` (the Untar loop; for regular entries without "._" names
    the Unzip loop behaves identically). -/
def handleUntar (strip entries : String) : String :=
  match strip.toNat? with
  | none => "bad-op"
  | some n =>
    let es := if entries = "-" then [] else entries.splitOn ","
    let parsed : Option BufModel.Archive.Archive := es.mapM fun e =>
      match e.splitOn "=" with
      | [k, v] => (hexDecode k).map fun name =>
          { name := s2l name, content := (if v = "-" then "" else v), kind := .reg }
      | _ => none
    match parsed with
    | none => "bad-op"
    | some a =>
      let (res, m) := BufModel.Archive.extractInto .tar n (fun _ => true) 0 a []
      (match res with | none => "ok" | some er => errS er) ++ "|" ++ dump m

end Driver.Bucket
