import BufModel.MigrateRules
import Driver.Util
import Driver.C16Node
/-
  Driver.C16Mig — protocol op `migchk` of C16: what `buf config migrate` makes of the rule
  selection of one v1beta1 / v1 buf.yaml (model: BufModel.MigrateRules on the regenerated rule
  tables).

    migchk <mode> <v1beta1|v1> <lint section> <breaking section> <lint hint> <breaking hint>
        mode     two characters 0|1: the tree under test has the repair of the rule selection (first) / of
                 `undeprecateMap` (second) — handoff/prove6-C16-fix-migrate-rule-selection.diff; the harness probes
                 both witnesses at the start of the section; `00` = as coded today (BufModel.MigrateRules.migrateCheck)
        section  ( use except ignore ignoreOnly disableBuiltin )      ignoreOnly ( ( id ( path … ) ) … )
        hint     ( ( id ( path … ) ) … ) — the migrated ignore_only the implementation wrote.  It is
                 consulted ONLY when two ignore_only keys of the section translate to the same v2 id
                 (then `undeprecateMap` depends on Go's map iteration order): the model answers
                 with the iteration order that yields the hint if there is one (≤ 6 keys), with the
                 key-sorted order otherwise.
      -> err                                   the migration fails (any section)
       | ok <lint result> <breaking result>
        result   ( disabled use except ignore ignoreOnly disableBuiltin selectedBefore selectedAfter collision )
                 use / except sorted unique as `NewEnabledCheckConfig` stores and the writer emits them;
                 ignore = [.] for a switched-off section (what the writer emits for the module "."),
                 ignoreOnly sorted by key; selectedBefore / selectedAfter = the rule ids the section
                 selects in its own version / the migrated section selects in v2 (`rulesConfig.RuleIDs`);
                 collision = 1 when two ignore_only keys translate to a common v2 id.
-/
namespace Driver.C16Mig
open BufModel.Path BufModel.Rules BufModel.MigrateRules BufGen.RuleTables Driver Driver.C16Node

def idOf (s : List Char) : Id := String.ofList s

def toIds (n : Node) : Option (List Id) := do
  let ss ← n.asStrs
  pure (ss.map idOf)

def toIgnoreOnly (n : Node) : Option (List (Id × List Str)) := do
  let xs ← n.asList
  xs.mapM fun x =>
    match x with
    | .list [k, ps] => do pure (idOf (← k.asAtom), ← ps.asStrs)
    | _ => none

def toSection : Node → Option YSection
  | .list [use, exc, ign, io, db] => do
    pure { use := ← toIds use, except := ← toIds exc, ignore := ← ign.asStrs, ignoreOnly := ← toIgnoreOnly io,
           disableBuiltin := ← db.asBool }
  | _ => none

def idsN (l : List Id) : Node := L (l.map fun s => A s.toList)
def ioN (m : List (Id × List Str)) : Node := L (m.map fun (k, ps) => L [A k.toList, strs ps])

/-- all permutations (small lists only) -/
def perms {α} : List α → List (List α)
  | [] => [[]]
  | x :: xs => (perms xs).flatMap fun p => (List.range (p.length + 1)).map fun i => p.take i ++ x :: p.drop i

/-- Do two keys of the map translate to a common id? -/
def hasCollision (old new : List RuleRow) (m : List (Id × List Str)) : Bool :=
  let ts := m.map fun e => translateId old new e.1
  let all := ts.flatMap id
  all.any fun k => (all.filter (· = k)).length > 1

/-- The iteration order of `ignore_only` the model uses: key-sorted, unless keys collide and
    some order reproduces the hint. -/
def chooseOrder (fixIo : Bool) (v : Version) (lint : Bool) (s : YSection) (hint : List (Id × List Str)) : YSection × Bool :=
  let old := rulesForType (rulesOf v) lint
  let new := rulesForType (rulesOf .v2) lint
  match sectionToEff lint false dot true s with
  | .error _ => (s, false)
  | .ok eff =>
    if !hasCollision old new eff.check.ignoreOnly then (s, false)
    else if fixIo || s.ignoreOnly.length > 6 then (s, true)
    else
      let want := sortIgnoreOnly hint
      let ok (p : List (Id × List Str)) : Bool :=
        match sectionToEff lint false dot true { s with ignoreOnly := p } with
        | .error _ => false
        | .ok e => sortIgnoreOnly (translateIgnoreOnly old new e.check.ignoreOnly) = want
      match (perms s.ignoreOnly).find? ok with
      | some p => ({ s with ignoreOnly := p }, true)
      | none => (s, true)

def resultN (fixSel fixIo : Bool) (v : Version) (lint : Bool) (s : YSection) (collision : Bool) : Option Node :=
  match sectionToEff lint false dot true s with
  | .error _ => none
  | .ok before =>
    match migrateEffV fixSel fixIo (rulesOf v) (rulesOf .v2) lint before with
    | .error _ => none
    | .ok after =>
      let selB : List Id := if before.disabled then [] else
        match selectedIds (rulesOf v) lint before.check with | .ok l => l | .error _ => ["?"]
      let selA : List Id := if after.disabled then [] else
        match selectedIds (rulesOf .v2) lint after.check with | .ok l => l | .error _ => ["?"]
      let c := after.check
      some (L [B after.disabled, idsN c.use, idsN c.except,
               strs (if after.disabled then [dot] else c.ignore), ioN (sortIgnoreOnly c.ignoreOnly),
               B c.disableBuiltin, idsN selB, idsN selA, B collision])

def toVersion (s : String) : Version := if s = "v1" then .v1 else .v1beta1

def handleMigChk (mode ver : String) (ln bn hl hb : Node) : String :=
  match toSection ln, toSection bn, toIgnoreOnly hl, toIgnoreOnly hb with
  | some ls, some bs, some hintL, some hintB =>
    let v := toVersion ver
    let fixSel := mode.toList.head? == some '1'
    let fixIo := mode.toList.drop 1 == ['1']
    let (ls', cl) := chooseOrder fixIo v true ls hintL
    let (bs', cb) := chooseOrder fixIo v false bs hintB
    match resultN fixSel fixIo v true ls' cl, resultN fixSel fixIo v false bs' cb with
    | some a, some b => "ok " ++ render a ++ " " ++ render b
    | _, _ => "err"
  | _, _, _, _ => "bad-node"

end Driver.C16Mig
