import BufModel.ImageWire
import Driver.Util
/-
  Line protocol for the serialised form of an image file (C01, `BufModel.ImageWire`):

    wire <TAB> <desc> <TAB> <flags>

    desc  = 14 slots joined by ';' in field-number order
            name ; package ; dependency ; message_type ; enum_type ; service ; extension ; options ;
            source_code_info ; public_dependency ; weak_dependency ; syntax ; edition ; unknown
            optional string  = ~ (unset) | hex ("-" = set but empty)
            string list      = _ | hex,hex,…
            blob list        = _ | blob,blob,…         (blob = fingerprint, [0-9a-f]+)
            optional blob    = ~ | blob
            index list       = _ | n,n,…
            edition          = ~ | n
            unknown          = _ | hex bytes
    flags = isImport(0|1) ; syntaxUnspecified(0|1) ; unused index list ; module name ; commit
            module name = ~ | reghex,ownerhex,namehex        commit = ~ | dashless id

  The harness fills <desc> from an INDEPENDENT protocompile run and <flags> from its own
  bookkeeping; the answer is what the real conversions must produce:

    P=<desc>|<ext> R=<ok:<desc>|<flags> or err:<tag>> F=<0|1>

    P = toWire f           (ImageToProtoImage, read back by field number)
        ext = ~ | imp(~|0|1);su(~|0|1);unused;mi      mi = ~ | <module name>@<commit>
    R = fromWire (toWire f)  (NewImageForProto of the marshalled and unmarshalled proto image)
    F = 1 iff toWire of that result is P again (re-serialisation is the identity)
-/
namespace Driver.C01Wire
open BufModel.Path BufModel.ImagePaths BufModel.ImageWire Driver

def s2l (s : String) : List Char := s.toList
def l2s (l : List Char) : String := String.ofList l

def optHex (s : String) : Option (Option Str) :=
  if s = "~" then some none else (hexDecode s).map (fun x => some (s2l x))

def showOptHex : Option Str → String
  | none => "~"
  | some s => enc (l2s s)

def listOf (s : String) : List String := if s = "_" then [] else s.splitOn ","

def showList (l : List String) : String := if l.isEmpty then "_" else ",".intercalate l

def hexList (s : String) : Option (List Str) := (listOf s).mapM (fun x => (hexDecode x).map s2l)
def showHexList (l : List Str) : String := showList (l.map fun x => enc (l2s x))

def blobList (s : String) : List Blob := (listOf s).map s2l
def showBlobList (l : List Blob) : String := showList (l.map l2s)

def optBlob (s : String) : Option Blob := if s = "~" then none else some (s2l s)
def showOptBlob : Option Blob → String
  | none => "~"
  | some b => l2s b

def natList (s : String) : Option (List Nat) := (listOf s).mapM String.toNat?
def showNatList (l : List Nat) : String := showList (l.map toString)

def optNat (s : String) : Option (Option Nat) := if s = "~" then some none else s.toNat?.map some
def showOptNat : Option Nat → String
  | none => "~"
  | some n => toString n

def bytesOf (s : String) : Option Bytes :=
  if s = "_" then some [] else (hexDecodeBytes s).map (·.toList.map (·.toNat))
def showBytes (b : Bytes) : String :=
  if b.isEmpty then "_" else hexEncodeBytes (ByteArray.mk (b.map UInt8.ofNat).toArray)

def parseDesc (s : String) : Option FDesc :=
  match s.splitOn ";" with
  | [n, p, dep, m, e, sv, x, o, sc, pd, wd, sy, ed, u] => do
    let n ← optHex n
    let p ← optHex p
    let dep ← hexList dep
    let pd ← natList pd
    let wd ← natList wd
    let sy ← optHex sy
    let ed ← optNat ed
    let u ← bytesOf u
    pure { name := n, package := p, dependency := dep, messageType := blobList m, enumType := blobList e,
           service := blobList sv, extension := blobList x, options := optBlob o, sourceCodeInfo := optBlob sc,
           publicDependency := pd, weakDependency := wd, syntaxStr := sy, edition := ed, unknown := u }
  | _ => none

def showDesc (d : FDesc) : String :=
  ";".intercalate
    [showOptHex d.name, showOptHex d.package, showHexList d.dependency, showBlobList d.messageType,
     showBlobList d.enumType, showBlobList d.service, showBlobList d.extension, showOptBlob d.options,
     showOptBlob d.sourceCodeInfo, showNatList d.publicDependency, showNatList d.weakDependency,
     showOptHex d.syntaxStr, showOptNat d.edition, showBytes d.unknown]

def parseName (s : String) : Option (Option ModName) :=
  if s = "~" then some none else
  match s.splitOn "," with
  | [a, b, c] => do
    let a ← hexDecode a; let b ← hexDecode b; let c ← hexDecode c
    pure (some { registry := s2l a, owner := s2l b, name := s2l c })
  | _ => none

def showName : Option ModName → String
  | none => "~"
  | some n => enc (l2s n.registry) ++ "," ++ enc (l2s n.owner) ++ "," ++ enc (l2s n.name)

def showCommit : Option Str → String
  | none => "~"
  | some c => if c.isEmpty then "-" else l2s c

def parseFlags (d : FDesc) (s : String) : Option IFileW :=
  match s.splitOn ";" with
  | [imp, su, un, nm, cm] => do
    let un ← natList un
    let nm ← parseName nm
    pure { d := d, isImport := imp = "1", syntaxUnspecified := su = "1", unusedDeps := un, modName := nm,
           commit := if cm = "~" then none else some (s2l cm) }
  | _ => none

def showFlags (f : IFileW) : String :=
  ";".intercalate [if f.isImport then "1" else "0", if f.syntaxUnspecified then "1" else "0",
    showNatList f.unusedDeps, showName f.modName, showCommit f.commit]

def showExt : Option PExt → String
  | none => "~"
  | some e =>
    let ob : Option Bool → String := fun | none => "~" | some b => if b then "1" else "0"
    let mi := match e.moduleInfo with
      | none => "~"
      | some m => showName m.name ++ "@" ++ showCommit m.commit
    ";".intercalate [ob e.isImport, ob e.syntaxUnspecified, showNatList e.unused, mi]

def showP (p : PFileW) : String := showDesc p.d ++ "|" ++ showExt p.ext

def handle : List String → String
  | [d, fl] =>
    match (parseDesc d).bind (fun d => parseFlags d fl) with
    | none => "bad-op"
    | some f =>
      let p := toWire f
      let r := fromWire p
      let rs := match r with
        | .ok g => "ok:" ++ showDesc g.d ++ "|" ++ showFlags g
        | .error e => "err:" ++ e.tag
      let fx := match r with
        | .ok g => if toWire g = p then "1" else "0"
        | .error _ => "0"
      "P=" ++ showP p ++ " R=" ++ rs ++ " F=" ++ fx
  | _ => "bad-op"

end Driver.C01Wire
