import Driver.C13
import Driver.C14
import Driver.C15
import Driver.C09
import Driver.C19
import Driver.C02
import Driver.C18
import Driver.C08
import Driver.C06
import Driver.C17
import Driver.C12
import Driver.C20
import Driver.C16
import Driver.C07
import Driver.C05
import Driver.C10
import Driver.C01
import Driver.C11
import Driver.C04
import Driver.C03

def main (args : List String) : IO UInt32 := do
  match args with
  | ["c13"] => Driver.C13.run; return 0
  | ["c14"] => Driver.C14.run; return 0
  | ["c15"] => Driver.C15.run; return 0
  | ["c09"] => Driver.C09.run; return 0
  | ["c19"] => Driver.C19.run; return 0
  | ["c02"] => Driver.C02.run; return 0
  | ["c18"] => Driver.C18.run; return 0
  | ["c08"] => Driver.C08.run; return 0
  | ["c06"] => Driver.C06.run; return 0
  | ["c17"] => Driver.C17.run; return 0
  | ["c12"] => Driver.C12.run; return 0
  | ["c20"] => Driver.C20.run; return 0
  | ["c16"] => Driver.C16.run; return 0
  | ["c07"] => Driver.C07.run; return 0
  | ["c05"] => Driver.C05.run; return 0
  | ["c10"] => Driver.C10.run; return 0
  | ["c01"] => Driver.C01.run; return 0
  | ["c11"] => Driver.C11.run; return 0
  | ["c04"] => Driver.C04.run; return 0
  | ["c03"] => Driver.C03.run; return 0
  | _ => IO.eprintln "usage: bufmodel <property-protocol>"; return 2
