import BufModel.Digest
import BufModel.DigestHistory
import Driver.Util
/-
  Line protocol for C08 (module digests, manifests).  Arbitrary strings / bytes are hex-encoded
  ("-" = empty).  The hash `H` arrives as a table `preimagehex=digesthex;...` computed by the Go
  harness with golang.org/x/crypto/sha3 (independently of buf); a preimage the model wants to
  hash but that is not in the table yields `hmiss <preimagehex>` (so a model that builds a
  different manifest / preimage than the published construction is a visible disagreement).

    node   <hex s>                       -> ok <pathhex> <digesthex> | err <tag>
    nodeold <hex s>                      -> same, pre-fix parser
    man    <path=digesthex,...>          -> ok <hex manifest text> | err <tag>
    parse  <hex text>                    -> ok <hex canonical text> | err <tag>
    files  <bucket>                      -> <pathhex>,<pathhex>,...   (module files, sorted)
    b5     <table> <bucket> <deps>       -> ok <digest string> | err <tag> | hmiss <hex>
    b4     <table> <bucket> <obj> <obj>  -> ok <digest string> | err <tag> | hmiss <hex>
    mset   <table> <mods> <i>            -> ok <digest string> | err <tag> | hmiss <hex> | bad-numbering
    hist   <table> <op|op|...>           -> the answers of the healthy steps joined by '|' (Section H: a whole
                                            history on one line; the model answers every step from the step alone)
       op = C;<contenthex>            healthy content digest      -> <digesthex> | hmiss <hex>
          | P;<prefixhex>             read failed after the prefix was absorbed (no answer)
          | D;<bucket>;<deps>         healthy Module.Digest(b5)   -> ok <digest string> | err <tag> | hmiss <hex>
          | F;<bucket>;<deps>;<pathhex>;<k>   Module.Digest(b5) whose read of <path> failed after k bytes (no answer)
  bucket = path=content,...   deps = type:hex,...   obj = name=content | -
  mods = L;bucket;i.j.k | R;bucket;deps  joined by '|'
-/
namespace Driver.C08
open BufModel.Path BufModel.Manifest BufModel.Digest Driver

def s2l (s : String) : List Char := s.toList
def l2s (l : List Char) : String := String.ofList l

def decBytes (s : String) : Option Bytes :=
  if s = "-" then some [] else (hexDecodeBytes s).map (·.data.toList)

def encBytes (b : Bytes) : String :=
  if b.isEmpty then "-" else hexEncodeBytes ⟨b.toArray⟩

def decDigest (s : String) : Option Digest :=
  match decBytes s with
  | some v => if h : v.length = 64 then some ⟨v, h⟩ else none
  | none => none

def listOf (s : String) (sep : String) : List String :=
  if s = "-" || s.isEmpty then [] else s.splitOn sep

def pair (s : String) : Option (String × String) :=
  match s.splitOn "=" with
  | [a, b] => some (a, b)
  | _ => none

def decBucket (s : String) : Option Bucket :=
  (listOf s ",").mapM fun kv => do
    let (k, v) ← pair kv
    let p ← hexDecode k
    let c ← decBytes v
    pure (s2l p, c)

def decTable (s : String) : Option (List (Bytes × Digest)) :=
  (listOf s ";").mapM fun kv => do
    let (k, v) ← pair kv
    let p ← decBytes k
    let d ← decDigest v
    pure (p, d)

def zeroDigest : Digest := ⟨List.replicate 64 0, by simp⟩

def tableH (t : List (Bytes × Digest)) (x : Bytes) : Digest :=
  match t.find? (fun e => e.1 = x) with
  | some e => e.2
  | none => zeroDigest

def decMDigest (s : String) : Option MDigest :=
  match s.splitOn ":" with
  | [ty, hx] => do
    let d ← decDigest hx
    if ty = "b5" then pure ⟨.b5, d⟩
    else if ty = "shake256" then pure ⟨.b4, d⟩
    else none
  | _ => none

def decObj (s : String) : Option (Option ObjectData) :=
  if s = "-" then some none else do
    let (k, v) ← pair s
    let n ← hexDecode k
    let c ← decBytes v
    pure (some ⟨s2l n, c⟩)

def exErr (e : MErr) : String := "err " ++ e.tag

/-- first preimage of `need` that the table lacks -/
def firstMiss (t : List (Bytes × Digest)) (need : List Bytes) : Option Bytes :=
  need.find? (fun x => !(t.any (fun e => e.1 = x)))

def showMD (t : List (Bytes × Digest)) (need : List Bytes) (r : Except MErr MDigest) : String :=
  match r with
  | .error e => exErr e      -- no error of the model depends on a value of H
  | .ok d => match firstMiss t need with
    | some x => "hmiss " ++ encBytes x
    | none => "ok " ++ l2s (mdigestString d)

def decMods (s : String) : Option (List Mod) :=
  (listOf s "|").mapM fun m =>
    match m.splitOn ";" with
    | ["L", b, ds] => do
      let bk ← decBucket b
      let idx ← (listOf ds ".").mapM String.toNat?
      pure ⟨bk, true, idx, []⟩
    | ["R", b, ds] => do
      let bk ← decBucket b
      let pins ← (listOf ds ",").mapM decMDigest
      pure ⟨bk, false, [], pins⟩
    | _ => none

/-- resolved dependencies of every local module have smaller indices -/
def topoNumbered (mods : List Mod) : Bool :=
  (List.range mods.length).all fun i =>
    match mods[i]? with
    | none => true
    | some m => !m.isLocal || m.deps.all (fun j => decide (j < i))

def msetInputs (H : Bytes → Digest) (mods : List Mod) : List Bytes :=
  (List.range mods.length).flatMap fun i =>
    match mods[i]? with
    | none => []
    | some m =>
      -- a local module one of whose dependencies has no digest hashes nothing that matters here
      if m.isLocal then
        (match mapExcept (moduleDigest H mods (mods.length + 1)) m.deps with
         | .ok ds => b5Inputs H m.bucket ds
         | .error _ => [])
      else b5Inputs H m.bucket m.pinned

def showNode (r : Except MErr FileNode) : String :=
  match r with
  | .ok n => "ok " ++ enc (l2s n.path) ++ " " ++ encBytes n.digest.val
  | .error e => exErr e

def showManifest (r : Except MErr Manifest) : String :=
  match r with
  | .ok m => "ok " ++ enc (l2s (manifestString m))
  | .error e => exErr e

def buildNodes : List (Str × Digest) → Except MErr (List FileNode)
  | [] => .ok []
  | (p, d) :: rest =>
    match newFileNode p d with
    | .error e => .error e
    | .ok n => match buildNodes rest with
      | .error e => .error e
      | .ok ns => .ok (n :: ns)

open BufModel.DigestHistory in
def decOp (s : String) : Option Op :=
  match s.splitOn ";" with
  | ["C", c] => (decBytes c).map Op.content
  | ["P", c] => (decBytes c).map Op.contentFail
  | ["D", b, ds] => do
    let bk ← decBucket b
    let deps ← (listOf ds ",").mapM decMDigest
    pure (Op.b5 bk deps)
  | ["F", b, ds, p, k] => do
    let bk ← decBucket b
    let deps ← (listOf ds ",").mapM decMDigest
    let path ← hexDecode p
    let n ← k.toNat?
    pure (Op.b5Fail bk deps (s2l path) n)
  | _ => none

open BufModel.DigestHistory in
/-- the printed answer of one step (`none` for a failed computation: it has no digest) -/
def showAns (t : List (Bytes × Digest)) : Op → Ans → Option String
  | _, .failed => none
  | .content c, .digest d => some (match firstMiss t [c] with
      | some x => "hmiss " ++ encBytes x
      | none => encBytes d.val)
  | .b5 b deps, .mdigest r => some (showMD t (b5Inputs (tableH t) b deps) r)
  | _, _ => some "bad-answer"

def handle : List String → String
  | ["node", a] => match hexDecode a with
      | some s => showNode (parseFileNode (s2l s)) | none => "bad-op"
  | ["nodeold", a] => match hexDecode a with
      | some s => showNode (parseFileNodeOld (s2l s)) | none => "bad-op"
  | ["man", ns] =>
      match (listOf ns ",").mapM (fun kv => do
        let (k, v) ← pair kv
        let p ← hexDecode k
        let d ← decDigest v
        pure (s2l p, d)) with
      | some pds => (match buildNodes pds with
          | .error e => exErr e
          | .ok nodes => showManifest (newManifest nodes))
      | none => "bad-op"
  | ["parse", a] => match hexDecode a with
      | some s => showManifest (parseManifest (s2l s)) | none => "bad-op"
  | ["parseold", a] => match hexDecode a with
      | some s => showManifest (parseManifestOld (s2l s)) | none => "bad-op"
  | ["files", b] => match decBucket b with
      | some bk => ",".intercalate ((sortBy strLe ((filterModule (filterModule bk)).map (·.1))).map fun p => enc (l2s p))
      | none => "bad-op"
  | ["b5", t, b, ds] => match decTable t, decBucket b, (listOf ds ",").mapM decMDigest with
      | some tb, some bk, some deps =>
        showMD tb (b5Inputs (tableH tb) bk deps) (moduleB5 (tableH tb) bk deps)
      | _, _, _ => "bad-op"
  | ["b4", t, b, y, l] => match decTable t, decBucket b, decObj y, decObj l with
      | some tb, some bk, some yo, some lo =>
        showMD tb (b4Inputs (tableH tb) bk yo lo) (moduleB4 (tableH tb) bk yo lo)
      | _, _, _, _ => "bad-op"
  | ["mset", t, ms, i] => match decTable t, decMods ms, i.toNat? with
      | some tb, some mods, some k =>
        -- only topologically numbered sets are answered (resolved dependencies of a local module have
        -- smaller indices): that is the hypothesis of `BufProofs.C08.moduleDigest_fuel`, under which the
        -- fuel `length + 1` used here is provably enough (for other numberings of an acyclic set see
        -- `moduleDigest_fuel_any_numbering`)
        if !topoNumbered mods then "bad-numbering" else
        showMD tb (msetInputs (tableH tb) mods) (moduleDigest (tableH tb) mods (mods.length + 1) k)
      | _, _, _ => "bad-op"
  | ["hist", t, os] => match decTable t, (listOf os "|").mapM decOp with
      | some tb, some ops =>
        -- `answers` = `run` from any process state under any state evolution
        -- (`BufProofs.C08.digest_history_independent`)
        "|".intercalate ((ops.zip (BufModel.DigestHistory.answers (tableH tb) ops)).filterMap
          (fun oa => showAns tb oa.1 oa.2))
      | _, _ => "bad-op"
  | _ => "bad-op"

def run : IO Unit := runLines handle

end Driver.C08
