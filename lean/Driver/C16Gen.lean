import Driver.C16Node
import BufModel.ConfigGen
/-
  Driver.C16Gen — line handler for the buf.gen.yaml part of C16.

  input  Node  ( version body env )        version = "v1beta1" | "v1" | "v2"
    optional X      = ( ) | ( X )
    any-strs        = ( n ) | ( s str ) | ( l (str ...) ) | ( x )
    any-val         = ( n ) | ( s str ) | ( b 0|1 ) | ( x )
    v2 body         = ( clean managed (plugin ...) (input ...) )
      managed       = ( enabled (disable ...) (override ...) )
      disable       = ( file_option field_option module path field )
      override      = ( file_option field_option module path field any-val )
      plugin        = ( remote? revision? local:any-strs protoc_builtin? protoc_path:any-strs out
                        opt:any-strs include_imports include_wkt strategy? (types) (exclude_types) )
      input         = ( module? directory? proto_file? tarball? zip_archive? binary_image?
                        json_image? text_image? yaml_image? git_repo? (types) (exclude_types)
                        (paths) (exclude_paths) compression? strip_components? subdir? branch?
                        commit? tag? ref? depth? recurse_submodules? include_package_files? )
    v1 body         = ( (plugin ...) managed (types.include) )
      plugin        = ( plugin name out revision opt:any-strs path:any-strs protoc_path:any-strs strategy )
      managed       = ( enabled cc_enable_arenas? java_multiple_files? java_string_check_utf8?
                        java_package_prefix csharp_namespace optimize_for go_package_prefix
                        objc_class_prefix ruby_package ((file_option ((path value) ...)) ...) )
      section       = ( default (except ...) ((module value) ...) )
    v1beta1 body    = ( managed (plugin ...) ( cc_enable_arenas? java_multiple_files? optimize_for ) )
      plugin        = ( name out opt:any-strs path strategy )
    env             = ( ((remote-name host) ...) (valid module names) (valid paths) (LookPath hits) )

  output  err | ok <c1> <written v2 body> (same | <c2>) (norm-agree | norm-DISAGREE)  |  ok <c1> <written> reread-err
    (4th field: BufModel.ConfigGen.normalise of c1 equals the re-read configuration)
    c               = ( clean (plugin ...) ( enabled (disable ...) (override ...) ) (type include) (input ...) )
-/
namespace Driver.C16Gen
open Driver.C16Node BufModel.ConfigGen

abbrev N := Driver.C16Node.Node

def optOf {α : Type} (f : N → Option α) (n : N) : Option (Option α) :=
  match n with
  | .list [] => some none
  | .list [x] => (f x).map some
  | _ => none

def natOf (n : N) : Option Nat :=
  match n with
  | .atom s => (String.ofList s).toNat?
  | _ => none

def intOf (n : N) : Option Int :=
  match n with
  | .atom s => (String.ofList s).toInt?
  | _ => none

def anyStrsOf (n : N) : Option AnyStrs :=
  match n with
  | .list [.atom ['n']] => some .nil
  | .list [.atom ['s'], .atom s] => some (.str s)
  | .list [.atom ['l'], l] => l.asStrs.map .list
  | .list [.atom ['x']] => some .bad
  | _ => none

def anyValOf (n : N) : Option ExtVal :=
  match n with
  | .list [.atom ['n']] => some .nil
  | .list [.atom ['s'], .atom s] => some (.str s)
  | .list [.atom ['b'], b] => b.asBool.map .bool
  | .list [.atom ['x']] => some .bad
  | _ => none

def listOf {α : Type} (f : N → Option α) (n : N) : Option (List α) :=
  match n with
  | .list xs => xs.mapM f
  | _ => none

def pairOf (n : N) : Option (Str × Str) :=
  match n with
  | .list [.atom k, .atom v] => some (k, v)
  | _ => none

def pluginV2Of (n : N) : Option ExtPluginV2 :=
  match n with
  | .list [remote, revision, local_, builtin, protocPath, .atom out, opt, ii, iw, strategy, types, et] => do
    some { remote := ← optOf Node.asAtom remote, revision := ← optOf intOf revision,
           local_ := ← anyStrsOf local_, protocBuiltin := ← optOf Node.asAtom builtin,
           protocPath := ← anyStrsOf protocPath, out := out, opt := ← anyStrsOf opt,
           includeImports := ← ii.asBool, includeWKT := ← iw.asBool,
           strategy := ← optOf Node.asAtom strategy, types := ← types.asStrs,
           excludeTypes := ← et.asStrs }
  | _ => none

def disableOf (n : N) : Option ExtDisableV2 :=
  match n with
  | .list [.atom fo, .atom fdo, .atom m, .atom p, .atom f] =>
    some { fileOption := fo, fieldOption := fdo, module := m, path := p, field := f }
  | _ => none

def overrideOf (n : N) : Option ExtOverrideV2 :=
  match n with
  | .list [.atom fo, .atom fdo, .atom m, .atom p, .atom f, v] => do
    some { fileOption := fo, fieldOption := fdo, module := m, path := p, field := f,
           value := ← anyValOf v }
  | _ => none

def managedV2Of (n : N) : Option ExtManagedV2 :=
  match n with
  | .list [en, ds, os] => do
    some { enabled := ← en.asBool, disable := ← listOf disableOf ds, override := ← listOf overrideOf os }
  | _ => none

def inputOf (n : N) : Option ExtInputV2 :=
  match n with
  | .list [mo, di, pf, tb, za, bi, ji, ti, yi, gr, ty, et, tp, ep, co, sc, sd, br, cm, tg, rf, dp, rs, ip] => do
    some { module := ← optOf Node.asAtom mo, directory := ← optOf Node.asAtom di,
           protoFile := ← optOf Node.asAtom pf, tarball := ← optOf Node.asAtom tb,
           zipArchive := ← optOf Node.asAtom za, binaryImage := ← optOf Node.asAtom bi,
           jsonImage := ← optOf Node.asAtom ji, textImage := ← optOf Node.asAtom ti,
           yamlImage := ← optOf Node.asAtom yi, gitRepo := ← optOf Node.asAtom gr,
           types := ← ty.asStrs, excludeTypes := ← et.asStrs, targetPaths := ← tp.asStrs,
           excludePaths := ← ep.asStrs, compression := ← optOf Node.asAtom co,
           stripComponents := ← optOf natOf sc, subdir := ← optOf Node.asAtom sd,
           branch := ← optOf Node.asAtom br, commit := ← optOf Node.asAtom cm,
           tag := ← optOf Node.asAtom tg, ref := ← optOf Node.asAtom rf, depth := ← optOf natOf dp,
           recurseSubmodules := ← optOf Node.asBool rs, includePackageFiles := ← optOf Node.asBool ip }
  | _ => none

def v2Of (n : N) : Option ExtGenV2 :=
  match n with
  | .list [clean, managed, plugins, inputs] => do
    some { clean := ← clean.asBool, managed := ← managedV2Of managed,
           plugins := ← listOf pluginV2Of plugins, inputs := ← listOf inputOf inputs }
  | _ => none

def pluginV1Of (n : N) : Option ExtPluginV1 :=
  match n with
  | .list [.atom plugin, .atom name, .atom out, rev, opt, path, pp, .atom strategy] => do
    some { plugin := plugin, name := name, out := out, revision := ← intOf rev,
           opt := ← anyStrsOf opt, path := ← anyStrsOf path, protocPath := ← anyStrsOf pp,
           strategy := strategy }
  | _ => none

def prefixOf (n : N) : Option ExtPrefixV1 :=
  match n with
  | .list [.atom d, ex, ov] => do
    some { default := d, except := ← ex.asStrs, override := ← listOf pairOf ov }
  | _ => none

def perFileOf (n : N) : Option (Str × List (Str × Str)) :=
  match n with
  | .list [.atom k, m] => do some (k, ← listOf pairOf m)
  | _ => none

def managedV1Of (n : N) : Option ExtManagedV1 :=
  match n with
  | .list [en, cc, jmf, jsc, jpp, cs, of, gpp, objc, ruby, ov] => do
    some { enabled := ← en.asBool, ccEnableArenas := ← optOf Node.asBool cc,
           javaMultipleFiles := ← optOf Node.asBool jmf,
           javaStringCheckUtf8 := ← optOf Node.asBool jsc, javaPackagePrefix := ← prefixOf jpp,
           csharpNamespace := ← prefixOf cs, optimizeFor := ← prefixOf of,
           goPackagePrefix := ← prefixOf gpp, objcClassPrefix := ← prefixOf objc,
           rubyPackage := ← prefixOf ruby, override := ← listOf perFileOf ov }
  | _ => none

def v1Of (n : N) : Option ExtGenV1 :=
  match n with
  | .list [plugins, managed, types] => do
    some { plugins := ← listOf pluginV1Of plugins, managed := ← managedV1Of managed,
           typesInclude := ← types.asStrs }
  | _ => none

def pluginV1Beta1Of (n : N) : Option ExtPluginV1Beta1 :=
  match n with
  | .list [.atom name, .atom out, opt, .atom path, .atom strategy] => do
    some { name := name, out := out, opt := ← anyStrsOf opt, path := path, strategy := strategy }
  | _ => none

def v1beta1Of (n : N) : Option ExtGenV1Beta1 :=
  match n with
  | .list [managed, plugins, .list [cc, jmf, .atom of]] => do
    some { managed := ← managed.asBool, plugins := ← listOf pluginV1Beta1Of plugins,
           options := { ccEnableArenas := ← optOf Node.asBool cc,
                        javaMultipleFiles := ← optOf Node.asBool jmf, optimizeFor := of } }
  | _ => none

def envOf (n : N) : Option Env :=
  match n with
  | .list [remotes, mods, paths, looks] => do
    let rs ← listOf pairOf remotes
    let ms ← mods.asStrs
    let ps ← paths.asStrs
    let ls ← looks.asStrs
    some { remoteHost := fun s => (rs.find? (fun kv => kv.1 = s)).map (·.2),
           validFullName := fun s => ms.contains s,
           validPath := fun s => ps.contains s,
           lookPath := fun s => ls.contains s }
  | _ => none

def docOf (n : N) : Option (ExtGen × Env) :=
  match n with
  | .list [.atom v, body, env] => do
    let e ← envOf env
    if v = "v2".toList then some (.v2 (← v2Of body), e)
    else if v = "v1".toList then some (.v1 (← v1Of body), e)
    else if v = "v1beta1".toList then some (.v1beta1 (← v1beta1Of body), e)
    else none
  | _ => none

/-! ## rendering -/

def nat (n : Nat) : N := A (toString n).toList
def int (i : Int) : N := A (toString i).toList
def optN {α : Type} (f : α → N) : Option α → N
  | none => L []
  | some x => L [f x]

def anyStrsN : AnyStrs → N
  | .nil => L [A ['n']]
  | .str s => L [A ['s'], A s]
  | .list l => L [A ['l'], strs l]
  | .bad => L [A ['x']]

def anyValN : ExtVal → N
  | .nil => L [A ['n']]
  | .str s => L [A ['s'], A s]
  | .bool b => L [A ['b'], B b]
  | .bad => L [A ['x']]

def extPluginN (p : ExtPluginV2) : N :=
  L [optN A p.remote, optN int p.revision, anyStrsN p.local_, optN A p.protocBuiltin,
     anyStrsN p.protocPath, A p.out, anyStrsN p.opt, B p.includeImports, B p.includeWKT,
     optN A p.strategy, strs p.types, strs p.excludeTypes]

def extManagedN (m : ExtManagedV2) : N :=
  L [B m.enabled,
     L (m.disable.map fun d => L [A d.fileOption, A d.fieldOption, A d.module, A d.path, A d.field]),
     L (m.override.map fun o =>
        L [A o.fileOption, A o.fieldOption, A o.module, A o.path, A o.field, anyValN o.value])]

def extInputN (i : ExtInputV2) : N :=
  L [optN A i.module, optN A i.directory, optN A i.protoFile, optN A i.tarball, optN A i.zipArchive,
     optN A i.binaryImage, optN A i.jsonImage, optN A i.textImage, optN A i.yamlImage,
     optN A i.gitRepo, strs i.types, strs i.excludeTypes, strs i.targetPaths, strs i.excludePaths,
     optN A i.compression, optN nat i.stripComponents, optN A i.subdir, optN A i.branch,
     optN A i.commit, optN A i.tag, optN A i.ref, optN nat i.depth, optN B i.recurseSubmodules,
     optN B i.includePackageFiles]

def extV2N (d : ExtGenV2) : N :=
  L [B d.clean, extManagedN d.managed, L (d.plugins.map extPluginN), L (d.inputs.map extInputN)]

def pluginTypeCode : PluginType → Nat
  | .remote => 1 | .local_ => 2 | .protocBuiltin => 3 | .localOrProtocBuiltin => 4

/-- Strategy() accessor: unset reads as directory. -/
def strategyCode : Option Strategy → Nat
  | some .all => 2
  | _ => 1

def inputTypeCode : InputType → Nat
  | .module => 1 | .directory => 2 | .gitRepo => 3 | .protoFile => 4 | .tarball => 5
  | .zipArchive => 6 | .binaryImage => 7 | .jsonImage => 8 | .textImage => 9 | .yamlImage => 10

def foCode : Option FileOption → Nat
  | none => 0
  | some f => f.code

def fdoCode : Option FieldOption → Nat
  | none => 0
  | some .jsType => 1

def valN : Val → List N
  | .str s => [A ['s'], A s]
  | .bool b => [A ['b'], A (if b then "true".toList else "false".toList)]
  | .optMode n => [A ['o'], A n]
  | .jsType n => [A ['j'], A n]

def pluginN (p : Plugin) : N :=
  L [nat (pluginTypeCode p.type), A p.name, A p.out, A (joinWith [','] p.opts), B p.includeImports,
     B p.includeWKT, nat (strategyCode p.strategy), strs p.path, strs p.protocPath, A p.remoteHost,
     int p.revision, strs p.includeTypes, strs p.excludeTypes]

def inputN (i : Input) : N :=
  L [nat (inputTypeCode i.type), A i.location, A i.compression, nat i.stripComponents, A i.subDir,
     A i.branch, A i.commitOrTag, A i.ref, optN nat i.depth, B i.recurseSubmodules,
     B i.includePackageFiles, strs i.targetPaths, strs i.excludePaths, strs i.includeTypes,
     strs i.excludeTypes]

def genFileN (c : GenFile) : N :=
  L [B c.clean, L (c.plugins.map pluginN),
     L [B c.managed.enabled,
        L (c.managed.disables.map fun d =>
           L [A d.path, A d.module, A d.field, nat (foCode d.fileOption), nat (fdoCode d.fieldOption)]),
        L (c.managed.overrides.map fun o =>
           L ([A o.path, A o.module, A o.field, nat (foCode o.fileOption), nat (fdoCode o.fieldOption)]
              ++ valN o.value))],
     strs c.typeInclude, L (c.inputs.map inputN)]

def handleGen (n : N) : String :=
  match docOf n with
  | none => "bad-doc"
  | some (e, env) =>
    match readGen env e with
    | none => "err"
    | some c1 =>
      let w := writeGen env c1
      match readGen env (.v2 w) with
      | none => "ok " ++ render (genFileN c1) ++ " " ++ render (extV2N w) ++ " reread-err"
      | some c2 =>
        -- "same" is decided on the accessor view, exactly as the harness does
        let third := if render (genFileN c2) = render (genFileN c1) then "same" else render (genFileN c2)
        -- `normalise` (theorem gen_reread_eq_normalise) is evaluated too: what was re-read is the
        -- normal form of what was read
        let fourth := if render (genFileN (normalise env c1)) = render (genFileN c2) then "norm-agree" else "norm-DISAGREE"
        "ok " ++ render (genFileN c1) ++ " " ++ render (extV2N w) ++ " " ++ third ++ " " ++ fourth

end Driver.C16Gen
