import Driver.C10
import Driver.C01Wire
import Driver.C11
import BufModel.WorkspaceTargeting
/-
  Line protocol for C01 (image = exact, closed, ordered compilation of the targets):

    img <TAB> <added modules, as in Driver/C10.lean> <TAB> <k>

  `k` picks the order in which the (parameter) compiler hands back the root files: the sorted
  roots rotated by k, reversed when k is odd.  Answer:
    ok/<file>,<file>,…   file = hexpath:I|T:S|s:<unused idx joined by +>:<name|_>:<commit>
    err/<class>

    wire <TAB> <desc> <TAB> <flags>        the serialised form of one image file, see Driver/C01Wire.lean

    wst <TAB> <input> <TAB> <paths> <TAB> <excludes> <TAB> <module dirs> <TAB> <added modules> <TAB> <k>
      one `buf build <input> --path … --exclude-path …` over a workspace on disk: input hex, the
      three lists `_` | hex,hex…; the added modules (all local, in configuration order, one per
      module dir) carry NO targeting of their own: BufModel.WorkspaceTargeting distributes the
      values.  Answer as for `img`, plus err/user, err/notargets, err/sys.

    iwop <TAB> …                           a path filter on a built image: Driver/C11.lean (C11's
                                           model of imageWithOnlyPaths walks every dependency)
-/
namespace Driver.C01
open BufModel.Path BufModel.Graph BufModel.Targeting Driver Driver.C10

def permK (k : Nat) (l : List Str) : List Str :=
  let r := l.rotateLeft (if l.length = 0 then 0 else k % l.length)
  if k % 2 = 1 then r.reverse else r

/-- the compiler facts of the selected modules (and of the built-in WKTs). -/
def compilerOf (b : Built) : Compiler :=
  let roots := match targetList b.tws with | .ok r => r | .error _ => []
  let xfileOf (p : Str) : Option XFile :=
    match owner b.tws.ws p with
    | .one m =>
      (b.sel[m]?).bind fun a =>
        ((b.xs.find? (fun x => x.a.idx == a.idx)).bind fun x => x.xfiles.find? (fun f => f.f.path == p))
    | _ => none
  { imports := fun p => match xfileOf p with
      | some x => x.f.imports
      | none => ((wkt.find? (fun f => f.path == p)).map (·.imports)).getD []
    -- protocompile reports ErrorUnusedImport only for the files it was asked to compile (the
    -- roots), never for files it compiled as somebody's import (library behaviour)
    unused := fun p => if p ∈ roots then ((xfileOf p).map (·.unused)).getD [] else []
    syntaxUnspecified := fun p => ((xfileOf p).map (·.noSyntax)).getD false }

def showFile (f : ImgFile) : String :=
  enc (l2s f.path) ++ ":" ++ b01 f.isImport "I" "T" ++ ":" ++ b01 f.syntaxUnspecified "S" "s" ++ ":" ++
    "+".intercalate (f.unusedIdx.map toString) ++ ":" ++
    (match f.modName with | some n => toString n | none => "_") ++ ":" ++ toString f.commit

def imgAnswer (b : Built) (k : Nat) : String :=
  match buildImage b.tws (compilerOf b) (permK k) with
  -- which of "duplicate path" / "diagnostic" is reported for a path provided twice depends on
  -- whether the compiler first meets it as a root or as an import (scheduling); both are
  -- the one observable class "the workspace does not compile"
  | .error .dupPath => "err/compile"
  | .error e => "err/" ++ e.tag
  | .ok fs => "ok/" ++ ",".intercalate (fs.map showFile)

open BufModel.WorkspaceTargeting in
def handle : List String → String
  | ["img", s, k] =>
    match parseWs s, k.toNat? with
    | some xs, some k => imgAnswer (build xs) k
    | _, _ => "bad-op"
  | ["wst", input, ps, es, dirs, s, k] =>
    match hexL input, (parseList ps ",").mapM hexL, (parseList es ",").mapM hexL, (parseList dirs ",").mapM hexL,
        parseWs s, k.toNat? with
    | some input, some ps, some es, some dirs, some xs, some k =>
      match workspaceTargeting input ps es dirs with
      | .error e => "err/" ++ e.tag
      | .ok mts =>
        match addAll mts with
        | .error e => "err/" ++ e.tag
        | .ok mts =>
          let xs' := xs.zipIdx.map fun (x, i) =>
            let mt := mts[i]?.getD {}
            { x with a := { x.a with isTarget := mt.isTarget }, cfg := toCfg mt }
          imgAnswer (build xs') k
    | _, _, _, _, _, _ => "bad-op"
  | "wire" :: rest => Driver.C01Wire.handle rest
  | "iwop" :: rest => Driver.C11.handle ("iwop" :: rest)
  | _ => "bad-op"

def run : IO Unit := runLines handle

end Driver.C01
