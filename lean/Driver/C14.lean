import BufModel.Bucket
import BufModel.Disk
import Driver.Util
import Driver.Bucket
/-
  Line protocol for C14 (composite buckets over several bases):
    hist2 <TAB> expr <TAB> nbases <TAB> ops
      expr : ':'-separated prefix notation: b:<i> | pre:<hex>:<expr> | filt:<matcher>:<expr>
             | multi:<expr>:<expr> | ovl:<expr>:<expr>       (matcher as in Driver.Bucket)
      ops  : ';'-separated. reads on the composite: g:<hex> s:<hex> w:<hex>;
             writes on base i: p:<i>:<hex>:<content> d:<i>:<hex> D:<i>:<hex>;
             C:<j> = copy everything readable through the composite into base j
             (storage.Copy, Tar→Untar and Zip→Unzip all have this net effect)
    output: results joined by ';' then for every base '|' + its sorted dump.
  Path-function lines of Driver.C13 are accepted too.
-/
namespace Driver.C14
open BufModel.Path BufModel.Bucket BufModel.Disk Driver Driver.Bucket

partial def parseExpr : List String → Option (BExpr × List String)
  | "b" :: i :: r => i.toNat?.map fun n => (.base n, r)
  | "pre" :: h :: r => do
      let p ← hexDecode h
      let (e, r') ← parseExpr r
      pure (.pre (s2l p) e, r')
  | "filt" :: r => do
      let (m, r1) ← parseMatcher r
      let (e, r2) ← parseExpr r1
      pure (.filt m e, r2)
  | "multi" :: r => do
      let (a, r1) ← parseExpr r
      let (b, r2) ← parseExpr r1
      pure (.multi a b, r2)
  | "ovl" :: r => do
      let (a, r1) ← parseExpr r
      let (b, r2) ← parseExpr r1
      pure (.overlay a b, r2)
  | _ => none

/-- driver state: per base, is it a disk bucket, and its tree (memory buckets use `files` only) -/
abbrev DState := List (Bool × Disk)

def DState.bases (st : DState) : Bases := st.map (·.2.files)

def DState.getB (st : DState) (i : Nat) : Bool × Disk := st.getD i (false, BufModel.Disk.empty)

def DState.setB (st : DState) (i : Nat) (d : Disk) : DState :=
  (List.range st.length).map fun j => if j = i then ((st.getB j).1, d) else st.getB j

def stepOp (e : BExpr) (st : DState) (op : String) : DState × String :=
  let bs := st.bases
  match op.splitOn ":" with
  | ["g", h] => match hexDecode h with
      | some p => (match rGet e bs (s2l p) with
          | .ok c => (st, "ok:" ++ c) | .error er => (st, errS er))
      | none => (st, "bad-op")
  | ["s", h] => match hexDecode h with
      | some p => (match rGet e bs (s2l p) with
          | .ok _ => (st, "ok") | .error er => (st, errS er))
      | none => (st, "bad-op")
  | ["w", h] => match hexDecode h with
      | some p => (match rWalkD (st.map (·.1)) e bs (s2l p) with
          | .ok objs => (st, "ok:" ++ dump objs) | .error er => (st, errS er))
      | none => (st, "bad-op")
  | ["p", i, h, c] => match i.toNat?, hexDecode h with
      | some n, some p =>
        let (isDisk, d) := st.getB n
        let content := if c = "-" then "" else c
        if isDisk then
          (match diskPut d (s2l p) content with
            | .ok d' => (st.setB n d', "ok") | .error er => (st, errS er))
        else
          (match memPut d.files (s2l p) content with
            | .ok m' => (st.setB n { d with files := m' }, "ok") | .error er => (st, errS er))
      | _, _ => (st, "bad-op")
  | ["d", i, h] => match i.toNat?, hexDecode h with
      | some n, some p =>
        let (isDisk, d) := st.getB n
        if isDisk then
          (match diskDelete d (s2l p) with
            | .ok d' => (st.setB n d', "ok") | .error er => (st, errS er))
        else
          (match memDelete d.files (s2l p) with
            | .ok m' => (st.setB n { d with files := m' }, "ok") | .error er => (st, errS er))
      | _, _ => (st, "bad-op")
  | ["D", i, h] => match i.toNat?, hexDecode h with
      | some n, some p =>
        let (isDisk, d) := st.getB n
        if isDisk then
          (match diskDeleteAll d (s2l p) with
            | .ok d' => (st.setB n d', "ok") | .error er => (st, errS er))
        else
          (match memDeleteAll d.files (s2l p) with
            | .ok m' => (st.setB n { d with files := m' }, "ok") | .error er => (st, errS er))
      | _, _ => (st, "bad-op")
  | ["C", j] => match j.toNat? with
      | some n =>
        -- the copy target is written object by object; on a disk target every put obeys the tree
        -- Copy, Tar→Untar and Zip→Unzip meet the first error at different moments (Copy lists all
        -- paths first, the archivers read while walking), so only "an error" is compared
        (match rWalkD (st.map (·.1)) e bs [] with
          | .error _ => (st, "err")
          | .ok objs =>
            let (isDisk, d0) := st.getB n
            let res := objs.foldl (fun (acc : Except PErr Disk) kv =>
              match acc with
              | .error er => .error er
              | .ok d =>
                if isDisk then diskPut d kv.1 kv.2
                else match memPut d.files kv.1 kv.2 with
                  | .ok m' => .ok { d with files := m' }
                  | .error er => .error er) (.ok d0)
            match res with
            | .ok d' => (st.setB n d', "ok:" ++ toString objs.length)
            | .error _ => (st, "err"))
      | none => (st, "bad-op")
  | _ => (st, "bad-op")

/-- kinds: a number n (n memory bases) or a string over {m,d}, one letter per base -/
def parseKinds (s : String) : Option (List Bool) :=
  match s.toNat? with
  | some n => some (List.replicate n false)
  | none => s.toList.mapM fun c => if c = 'm' then some false else if c = 'd' then some true else none

def handleHist2 (expr nb ops : String) : String :=
  match parseExpr (expr.splitOn ":"), parseKinds nb with
  | some (e, []), some kinds =>
    let st0 : DState := kinds.map fun k => (k, BufModel.Disk.empty)
    let opsL := if ops = "-" then [] else ops.splitOn ";"
    let (st, outs) := opsL.foldl (fun (acc : DState × List String) op =>
      let (s', o) := stepOp e acc.1 op
      (s', o :: acc.2)) (st0, [])
    ";".intercalate outs.reverse ++ String.join ((List.range kinds.length).map fun i => "|" ++ dump (st.getB i).2.files)
  | _, _ => "bad-op"

def handle : List String → String
  | ["hist2", expr, nb, ops] => handleHist2 expr nb ops
  | _ => "bad-op"

def run : IO Unit := runLines handle

end Driver.C14
