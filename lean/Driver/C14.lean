import BufModel.Bucket
import Driver.Util
import Driver.Bucket
/-
  Line protocol for C14 (composite buckets over several bases):
    hist2 <TAB> expr <TAB> nbases <TAB> ops
      expr : ':'-separated prefix notation: b:<i> | pre:<hex>:<expr> | filt:<matcher>:<expr>
             | multi:<expr>:<expr> | ovl:<expr>:<expr>       (matcher as in Driver.Bucket)
      ops  : ';'-separated. reads on the composite: g:<hex> s:<hex> w:<hex>;
             writes on base i: p:<i>:<hex>:<content> d:<i>:<hex> D:<i>:<hex>;
             C:<j> = copy everything readable through the composite into base j
             (storage.Copy, Tar→Untar and Zip→Unzip all have this net effect)
    output: results joined by ';' then for every base '|' + its sorted dump.
  Path-function lines of Driver.C13 are accepted too.
-/
namespace Driver.C14
open BufModel.Path BufModel.Bucket Driver Driver.Bucket

partial def parseExpr : List String → Option (BExpr × List String)
  | "b" :: i :: r => i.toNat?.map fun n => (.base n, r)
  | "pre" :: h :: r => do
      let p ← hexDecode h
      let (e, r') ← parseExpr r
      pure (.pre (s2l p) e, r')
  | "filt" :: r => do
      let (m, r1) ← parseMatcher r
      let (e, r2) ← parseExpr r1
      pure (.filt m e, r2)
  | "multi" :: r => do
      let (a, r1) ← parseExpr r
      let (b, r2) ← parseExpr r1
      pure (.multi a b, r2)
  | "ovl" :: r => do
      let (a, r1) ← parseExpr r
      let (b, r2) ← parseExpr r1
      pure (.overlay a b, r2)
  | _ => none

def stepOp (e : BExpr) (bs : Bases) (op : String) : Bases × String :=
  match op.splitOn ":" with
  | ["g", h] => match hexDecode h with
      | some p => (match rGet e bs (s2l p) with
          | .ok c => (bs, "ok:" ++ c) | .error er => (bs, errS er))
      | none => (bs, "bad-op")
  | ["s", h] => match hexDecode h with
      | some p => (match rGet e bs (s2l p) with
          | .ok _ => (bs, "ok") | .error er => (bs, errS er))
      | none => (bs, "bad-op")
  | ["w", h] => match hexDecode h with
      | some p => (match rWalk e bs (s2l p) with
          | .ok objs => (bs, "ok:" ++ dump objs) | .error er => (bs, errS er))
      | none => (bs, "bad-op")
  | ["p", i, h, c] => match i.toNat?, hexDecode h with
      | some n, some p => (match memPut (bs.get n) (s2l p) (if c = "-" then "" else c) with
          | .ok m' => (bs.set n m', "ok") | .error er => (bs, errS er))
      | _, _ => (bs, "bad-op")
  | ["d", i, h] => match i.toNat?, hexDecode h with
      | some n, some p => (match memDelete (bs.get n) (s2l p) with
          | .ok m' => (bs.set n m', "ok") | .error er => (bs, errS er))
      | _, _ => (bs, "bad-op")
  | ["D", i, h] => match i.toNat?, hexDecode h with
      | some n, some p => (match memDeleteAll (bs.get n) (s2l p) with
          | .ok m' => (bs.set n m', "ok") | .error er => (bs, errS er))
      | _, _ => (bs, "bad-op")
  | ["C", j] => match j.toNat? with
      | some n => (match rCopy e bs n with
          | .ok (cnt, bs') => (bs', "ok:" ++ toString cnt) | .error er => (bs, errS er))
      | none => (bs, "bad-op")
  | _ => (bs, "bad-op")

def handleHist2 (expr nb ops : String) : String :=
  match parseExpr (expr.splitOn ":"), nb.toNat? with
  | some (e, []), some n =>
    let bs0 : Bases := List.replicate n []
    let opsL := if ops = "-" then [] else ops.splitOn ";"
    let (bs, outs) := opsL.foldl (fun (acc : Bases × List String) op =>
      let (b', o) := stepOp e acc.1 op
      (b', o :: acc.2)) (bs0, [])
    ";".intercalate outs.reverse ++ String.join ((List.range n).map fun i => "|" ++ dump (bs.get i))
  | _, _ => "bad-op"

def handle : List String → String
  | ["hist2", expr, nb, ops] => handleHist2 expr nb ops
  | _ => "bad-op"

def run : IO Unit := runLines handle

end Driver.C14
