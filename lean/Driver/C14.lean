import BufModel.Bucket
import BufModel.Disk
import BufModel.Archive
import BufModel.Reader
import Driver.Util
import Driver.Bucket
/-
  Line protocol for C14 (composite buckets over several bases):
    hist2 <TAB> expr <TAB> nbases <TAB> ops
      expr : ':'-separated prefix notation: b:<i> | pre:<hex>:<expr> | filt:<matcher>:<expr>
             | multi:<expr>:<expr> | ovl:<expr>:<expr> | strip:<expr>   (matcher as in Driver.Bucket)
      ops  : ';'-separated. reads on the composite: g:<hex> s:<hex> w:<hex>;
             writes on base i: p:<i>:<hex>:<content> d:<i>:<hex> D:<i>:<hex>;
             T:<i>:<hex path>:<hex temp base name|->:<content> = atomic Put + Write on base i, writer
             left OPEN (on a disk base the temp file is an object of the directory until the close);
             R:<i>:<hex path>:<hex temp>:<content> = Close of that writer (rename / publish);
             C:<j> = copy everything readable through the composite into base j
             (storage.Copy, Tar→Untar and Zip→Unzip all have this net effect)
             reader handles (BufModel.Reader): O:<i>:<hex path>:<n> = Get on BASE i + read n bytes
             (output ok:<bytes read>; the handle gets the next index 0,1,…), F:<k> = read handle k
             to the end (output ok:<rest>); P:<i>:<hex>:<content> = an ATOMIC put (= p for the
             bucket; open readers of a disk base stay on the old inode)
    output: results joined by ';' then for every base '|' + its sorted dump.
    Functions run: rGet, rWalkD, basePut/baseDelete/baseDeleteAll, copyD (BufModel.Disk) — tied to
    rWalk / rCopy / the memory bucket by rWalkD_ok, rWalkD_of_rWalk_ok, copyD_refines_rCopy,
    disk_refines_map (Props/C14).
    arc <TAB> tar|zip <TAB> strip <TAB> matcher|- <TAB> maxsize <TAB> expr <TAB> kinds <TAB> puts
      output: "err" when Tar/Zip fails, else <entries of the archive, sorted>|<extract result>|<dump>
      (tarOfSorted = tarOf on the bases in sorted walk order, extractInto of BufModel.Archive)
    xtr <TAB> tar|zip <TAB> strip <TAB> matcher|- <TAB> maxsize <TAB> <hexname>:<r|d|o>:<content>,...
      output: <extract result>|<dump>
    dup <TAB> tar|zip <TAB> strip <TAB> matcher|- <TAB> maxsize <TAB> entries (as xtr) <TAB> <hexpath>=<content>,...|-
      = xtr into a bucket that already holds the listed objects (duplicate-member family)
-/
namespace Driver.C14
open BufModel.Path BufModel.Bucket BufModel.Disk BufModel.Archive BufModel.Reader Driver Driver.Bucket

partial def parseExpr : List String → Option (BExpr × List String)
  | "b" :: i :: r => i.toNat?.map fun n => (.base n, r)
  | "pre" :: h :: r => do
      let p ← hexDecode h
      let (e, r') ← parseExpr r
      pure (.pre (s2l p) e, r')
  | "filt" :: r => do
      let (m, r1) ← parseMatcher r
      let (e, r2) ← parseExpr r1
      pure (.filt m e, r2)
  | "multi" :: r => do
      let (a, r1) ← parseExpr r
      let (b, r2) ← parseExpr r1
      pure (.multi a b, r2)
  | "ovl" :: r => do
      let (a, r1) ← parseExpr r
      let (b, r2) ← parseExpr r1
      pure (.overlay a b, r2)
  | "strip" :: r => do
      let (e, r') ← parseExpr r
      pure (.strip e, r')
  | _ => none

/-- driver state: per base, is it a disk bucket, and its tree (memory buckets use `files` only) -/
abbrev DState := List (Bool × Disk)

def DState.bases (st : DState) : Bases := st.map (·.2.files)

def DState.getB (st : DState) (i : Nat) : Bool × Disk := st.getD i (false, BufModel.Disk.empty)

def DState.setB (st : DState) (i : Nat) (d : Disk) : DState :=
  (List.range st.length).map fun j => if j = i then ((st.getB j).1, d) else st.getB j

def stepOp (e : BExpr) (st : DState) (op : String) : DState × String :=
  let bs := st.bases
  match op.splitOn ":" with
  | ["g", h] => match hexDecode h with
      | some p => (match rGet e bs (s2l p) with
          | .ok c => (st, "ok:" ++ c) | .error er => (st, errS er))
      | none => (st, "bad-op")
  | ["s", h] => match hexDecode h with
      | some p => (match rGet e bs (s2l p) with
          | .ok _ => (st, "ok") | .error er => (st, errS er))
      | none => (st, "bad-op")
  | ["w", h] => match hexDecode h with
      | some p => (match rWalkD (st.map (·.1)) e bs (s2l p) with
          | (objs, none) => (st, "ok:" ++ dump objs) | (_, some er) => (st, errS er))
      | none => (st, "bad-op")
  | ["p", i, h, c] | ["P", i, h, c] => match i.toNat?, hexDecode h with
      | some n, some p =>
        let (isDisk, d) := st.getB n
        (match basePut isDisk d (s2l p) (if c = "-" then "" else c) with
          | .ok d' => (st.setB n d', "ok") | .error er => (st, errS er))
      | _, _ => (st, "bad-op")
  | ["d", i, h] => match i.toNat?, hexDecode h with
      | some n, some p =>
        let (isDisk, d) := st.getB n
        (match baseDelete isDisk d (s2l p) with
          | .ok d' => (st.setB n d', "ok") | .error er => (st, errS er))
      | _, _ => (st, "bad-op")
  | ["D", i, h] => match i.toNat?, hexDecode h with
      | some n, some p =>
        let (isDisk, d) := st.getB n
        (match baseDeleteAll isDisk d (s2l p) with
          | .ok d' => (st.setB n d', "ok") | .error er => (st, errS er))
      | _, _ => (st, "bad-op")
  | ["T", i, h, t, c] => match i.toNat?, hexDecode h, hexDecode t with
      | some n, some p, some tn =>
        let (isDisk, d) := st.getB n
        let tmp : Option Comp := if tn = "" then none else some (s2l tn)
        (match baseBeginAtomic isDisk d (s2l p) tmp (if c = "-" then "" else c) with
          | .ok d' => (st.setB n d', "ok") | .error er => (st, errS er))
      | _, _, _ => (st, "bad-op")
  | ["R", i, h, t, c] => match i.toNat?, hexDecode h, hexDecode t with
      | some n, some p, some tn =>
        let (isDisk, d) := st.getB n
        let tmp : Option Comp := if tn = "" then none else some (s2l tn)
        (match baseCommitAtomic isDisk d (s2l p) tmp (if c = "-" then "" else c) with
          | (d', none) => (st.setB n d', "ok") | (d', some er) => (st.setB n d', errS er))
      | _, _, _ => (st, "bad-op")
  | ["C", j] => match j.toNat? with
      | some n =>
        -- Copy, Tar→Untar and Zip→Unzip meet the first error at different moments (Copy lists all
        -- paths first, the archivers read while walking), so only "an error" is compared
        let (isDisk, d0) := st.getB n
        (match copyD (st.map (·.1)) e bs isDisk d0 with
          | .ok (cnt, d') => (st.setB n d', "ok:" ++ toString cnt)
          | .error _ => (st, "err"))
      | none => (st, "bad-op")
  | _ => (st, "bad-op")

/-- the write an op performs as far as open readers are concerned (`BufModel.Reader.Write`), with
    its base; `out` = the op's result -/
def writeOf (parts : List String) (out : String) : Option (Nat × Write) :=
  match parts with
  | ["P", i, h, _] => match i.toNat?, hexDecode h with
      | some n, some p => if out = "ok" then some (n, .putAtomic (s2l p)) else none
      | _, _ => none
  | ["R", i, h, t, _] => match i.toNat?, hexDecode h, hexDecode t with
      | some n, some p, some tn => some (n, .commit (s2l p) (if tn = "" then none else some (s2l tn)))
      | _, _, _ => none
  | ["d", i, h] => match i.toNat?, hexDecode h with
      | some n, some p => if out = "ok" then some (n, .delete (s2l p)) else none
      | _, _ => none
  | ["D", i, h] => match i.toNat?, hexDecode h with
      | some n, some p => if out = "ok" then some (n, .deleteAll (s2l p)) else none
      | _, _ => none
  | _ => none

/-- `stepOp` plus the reader handles -/
def stepOpH (e : BExpr) (acc : DState × List Handle) (op : String) : (DState × List Handle) × String :=
  let st := acc.1
  let hs := acc.2
  match op.splitOn ":" with
  | ["O", i, h, n] => match i.toNat?, hexDecode h, n.toNat? with
      | some b, some p, some k =>
        let (isDisk, d) := st.getB b
        (match openReader isDisk d b (s2l p) k with
          | .ok (hd, got) => ((st, hs ++ [hd]), "ok:" ++ got)
          | .error er => (acc, errS er))
      | _, _, _ => (acc, "bad-op")
  | ["F", j] => match j.toNat? with
      | some k => (match hs[k]? with
          | some hd => (acc, "ok:" ++ finishReader (st.getB hd.base).2 hd)
          | none => (acc, "bad-op"))
      | none => (acc, "bad-op")
  | parts =>
    let (st', out) := stepOp e st op
    let hs' := match writeOf parts out with
      | some (b, w) => afterWrite (st.getB b).2 b w hs
      | none => hs
    ((st', hs'), out)

/-- kinds: a number n (n memory bases) or a string over {m,d}, one letter per base -/
def parseKinds (s : String) : Option (List Bool) :=
  match s.toNat? with
  | some n => some (List.replicate n false)
  | none => s.toList.mapM fun c => if c = 'm' then some false else if c = 'd' then some true else none

def handleHist2 (expr nb ops : String) : String :=
  match parseExpr (expr.splitOn ":"), parseKinds nb with
  | some (e, []), some kinds =>
    let st0 : DState := kinds.map fun k => (k, BufModel.Disk.empty)
    let opsL := if ops = "-" then [] else ops.splitOn ";"
    let ((st, _), outs) := opsL.foldl (fun (acc : (DState × List Handle) × List String) op =>
      let (s', o) := stepOpH e acc.1 op
      (s', o :: acc.2)) ((st0, []), [])
    ";".intercalate outs.reverse ++ String.join ((List.range kinds.length).map fun i => "|" ++ dump (st.getB i).2.files)
  | _, _ => "bad-op"

/-! ### Archive lines -/

def kindS : EKind → String
  | .reg => "r" | .dir => "d" | .other => "o"

def parseKind : String → Option EKind
  | "r" => some .reg | "d" => some .dir | "o" => some .other | _ => none

def parseFmt : String → Option Fmt
  | "tar" => some .tar | "zip" => some .zip | _ => none

def parseMatcherField (s : String) : Option (Str → Bool) :=
  if s = "-" then some (fun _ => true) else
  match parseMatcher (s.splitOn ":") with
  | some (m, []) => some (fun p => m.matches p)
  | _ => none

/-- entries, sorted by hex name then kind/content (the listing order of the real archive is the
    walk order, which for unions is member order: compared as a multiset) -/
def dumpEntries (a : Archive) : String :=
  let enc' := a.map fun e => (hexEncode (l2s e.name) ++ ":" ++ kindS e.kind, e.content)
  ",".intercalate ((sortPairs enc').map fun (k, v) => k ++ "=" ++ v)

def resS : Option PErr → String
  | none => "ok"
  | some er => errS er

def parseEntry (s : String) : Option Entry :=
  match s.splitOn ":" with
  | [h, k, c] => do
      let name ← hexDecode h
      let kind ← parseKind k
      pure { name := s2l name, content := (if c = "-" then "" else c), kind := kind }
  | _ => none

/-- arc: build the bases with puts, Tar/Zip the composite (`tarOf`), extract into an empty memory
    bucket (`extractInto`). -/
def handleArc (fmt strip matcher maxSize expr nb puts : String) : String :=
  match parseFmt fmt, strip.toNat?, parseMatcherField matcher, maxSize.toNat?,
        parseExpr (expr.splitOn ":"), parseKinds nb with
  | some f, some n, some m, some mx, some (e, []), some kinds =>
    let st0 : DState := kinds.map fun k => (k, BufModel.Disk.empty)
    let opsL := if puts = "-" then [] else puts.splitOn ";"
    let st := opsL.foldl (fun (acc : DState) op => (stepOp e acc op).1) st0
    match tarOfSorted e st.bases with
    | .error _ => "err"
    | .ok a =>
      let (res, dest) := extractInto f n m mx a []
      dumpEntries a ++ "|" ++ resS res ++ "|" ++ dump dest
  | _, _, _, _, _, _ => "bad-op"

/-- xtr: extract a given entry list (hostile names, directories, symlinks) into an empty memory
    bucket. -/
def handleXtr (fmt strip matcher maxSize entries : String) : String :=
  match parseFmt fmt, strip.toNat?, parseMatcherField matcher, maxSize.toNat? with
  | some f, some n, some m, some mx =>
    let es := if entries = "-" then some [] else (entries.splitOn ",").mapM parseEntry
    match es with
    | none => "bad-op"
    | some a =>
      let (res, dest) := extractInto f n m mx a []
      resS res ++ "|" ++ dump dest
  | _, _, _, _ => "bad-op"

def parsePre (s : String) : Option Mem :=
  if s = "-" then some [] else
  (s.splitOn ",").mapM fun kv =>
    match kv.splitOn "=" with
    | [h, c] => (hexDecode h).map fun p => (s2l p, c)
    | _ => none

/-- dup: extract an entry list holding repeated / colliding members into a bucket that already
    holds `pre`. -/
def handleDup (fmt strip matcher maxSize entries pre : String) : String :=
  match parseFmt fmt, strip.toNat?, parseMatcherField matcher, maxSize.toNat?, parsePre pre with
  | some f, some n, some m, some mx, some m0 =>
    let es := if entries = "-" then some [] else (entries.splitOn ",").mapM parseEntry
    match es with
    | none => "bad-op"
    | some a =>
      let (res, dest) := extractInto f n m mx a m0
      resS res ++ "|" ++ dump dest
  | _, _, _, _, _ => "bad-op"

def handle : List String → String
  | ["hist2", expr, nb, ops] => handleHist2 expr nb ops
  | ["arc", fmt, strip, matcher, maxSize, expr, nb, puts] => handleArc fmt strip matcher maxSize expr nb puts
  | ["xtr", fmt, strip, matcher, maxSize, entries] => handleXtr fmt strip matcher maxSize entries
  | ["dup", fmt, strip, matcher, maxSize, entries, pre] => handleDup fmt strip matcher maxSize entries pre
  | _ => "bad-op"

def run : IO Unit := runLines handle

end Driver.C14
