import BufModel.ImagePaths
import Driver.Util
/-
  Line protocol for C11.

    iwop <TAB> allow(0|1) <TAB> files <TAB> paths <TAB> excludes
      files : "-" | ;-separated  <pathhex>:<I|N>:<dephex,dephex,...|->     (image order)
      paths : "-" | ,-separated hex
      output: ok <pathhex>:<I|N>,...   |  err:<tag>

    tgt <TAB> modules <TAB> paths <TAB> excludes
      modules : slash-separated  <T|N>|files        (the last one holds the well-known types)
      output  : M=<module-level build>|I=<image-level filter of the full build>
                (F=<err> when the full build fails)

    strip <TAB> byteshex          output: byteshex of stripBufExtensionField

    pimg  <TAB> dir(p2i|i2p) ...  see `handlePimg`
-/
namespace Driver.C11
open BufModel.Path BufModel.ImagePaths Driver

def s2l (s : String) : List Char := s.toList
def l2s (l : List Char) : String := String.ofList l

def parseList (s : String) (sep : String) : List String :=
  if s = "-" then [] else s.splitOn sep

def parseStrs (s : String) : Option (List Str) :=
  ((parseList s ",").mapM hexDecode).map (·.map s2l)

def parseFile (s : String) : Option File :=
  match s.splitOn ":" with
  | [p, i, ds] => do
    let p ← hexDecode p
    let deps ← parseStrs ds
    pure { path := s2l p, isImport := i = "I", deps := deps }
  | _ => none

def parseFiles (s : String) : Option (List File) := (parseList s ";").mapM parseFile

def showImage : Except Err Image → String
  | .error e => "err:" ++ e.tag
  | .ok img => "ok " ++ ",".intercalate (img.map fun f => enc (l2s f.path) ++ ":" ++ (if f.isImport then "I" else "N"))

def parseModule (s : String) : Option Module :=
  match s.splitOn "|" with
  | [t, fs] => do
    let files ← parseFiles fs
    pure { isTarget := t = "T", targetPaths := [], excludePaths := [], files := files }
  | _ => none

def bytesOfHex (s : String) : Option Bytes :=
  if s = "-" then some [] else (hexDecodeBytes s).map (·.toList.map (·.toNat))

def hexOfBytes (b : Bytes) : String :=
  if b.isEmpty then "-" else hexEncodeBytes (ByteArray.mk (b.map UInt8.ofNat).toArray)

def parseNats (s : String) : Option (List Nat) := (parseList s ",").mapM String.toNat?

def showNats (l : List Nat) : String := if l.isEmpty then "-" else ",".intercalate (l.map toString)

def optStr (s : String) : Option (Option Str) :=
  if s = "~" then some none else (hexDecode s).map (fun x => some (s2l x))

def showOptStr : Option Str → String
  | none => "~"
  | some s => enc (l2s s)

def optBool (s : String) : Option Bool := if s = "1" then some true else if s = "0" then some false else none
def b01 (b : Bool) : String := if b then "1" else "0"

/-- name = "~" | reghex:ownerhex:namehex -/
def parseName (s : String) : Option (Option ModName) :=
  if s = "~" then some none else
  match s.splitOn ":" with
  | [a, b, c] => do
    let a ← hexDecode a; let b ← hexDecode b; let c ← hexDecode c
    pure (some { registry := s2l a, owner := s2l b, name := s2l c })
  | _ => none

def showName : Option ModName → String
  | none => "~"
  | some n => enc (l2s n.registry) ++ ":" ++ enc (l2s n.owner) ++ ":" ++ enc (l2s n.name)

def showIFile (f : IFile) : String :=
  "ok imp=" ++ b01 f.isImport ++ " su=" ++ b01 f.syntaxUnspecified ++ " unused=" ++ showNats f.unusedDeps ++
    " name=" ++ showName f.modName ++ " commit=" ++ showOptStr f.commit ++ " unk=" ++ hexOfBytes f.unknown

/-- ext = "~" | imp(0|1|~);su(0|1|~);unused;mi    mi = "~" | name;commit -/
def parsePExt (fs : List String) : Option (Option PExt) :=
  match fs with
  | ["~"] => some none
  | [imp, su, un, nm, cm] => do
    let un ← parseNats un
    let nm' ← (if nm = "^" then some none else parseName nm)
    let cm ← optStr cm
    pure (some { isImport := optBool imp, syntaxUnspecified := optBool su, unused := un,
                 moduleInfo := if nm = "^" then none else some { name := nm', commit := cm } })
  | _ => none

def showPFile (p : PFile) : String :=
  match p.ext with
  | none => "ok ext=~ unk=" ++ hexOfBytes p.unknown
  | some e =>
    let ob : Option Bool → String := fun | none => "~" | some b => b01 b
    let mi := match e.moduleInfo with
      | none => "^;~"
      | some m => showName m.name ++ ";" ++ showOptStr m.commit
    "ok ext=" ++ ob e.isImport ++ ";" ++ ob e.syntaxUnspecified ++ ";" ++ showNats e.unused ++ ";" ++ mi ++
      " unk=" ++ hexOfBytes p.unknown

def handle : List String → String
  | ["iwop", allow, files, pths, excl] =>
    match parseFiles files, parseStrs pths, parseStrs excl with
    | some img, some ps, some es => showImage (imageWithOnlyPaths img ps es (allow = "1"))
    | _, _, _ => "bad-op"
  | ["tgt", mods, pths, excl] =>
    match (mods.splitOn "/").mapM parseModule, parseStrs pths, parseStrs excl with
    | some ws, some ps, some es =>
      match build ws with
      | .error e => "F=err:" ++ e.tag
      | .ok full =>
        "M=" ++ showImage (build (withTargeting ws ps es)) ++ "|I=" ++ showImage (filterImagePaths full ps es)
    | _, _, _ => "bad-op"
  | ["strip", b] =>
    match bytesOfHex b with
    | some u => hexOfBytes (stripBufExtensionField u)
    | none => "bad-op"
  -- image file -> proto image file
  | ["pimg", "i2p", ndeps, imp, su, un, nm, cm, unk] =>
    match ndeps.toNat?, parseNats un, parseName nm, optStr cm, bytesOfHex unk with
    | some nd, some un, some nm, some cm, some unk =>
      showPFile (toProto { path := [], deps := List.replicate nd [], payload := [], unknown := unk,
                           isImport := imp = "1", syntaxUnspecified := su = "1", unusedDeps := un,
                           modName := nm, commit := cm })
    | _, _, _, _, _ => "bad-op"
  -- proto image file -> image file
  | "pimg" :: "p2i" :: ndeps :: unk :: ext =>
    match ndeps.toNat?, bytesOfHex unk, parsePExt ext with
    | some nd, some unk, some e =>
      match toImage { path := [], deps := List.replicate nd [], payload := [], unknown := unk, ext := e } with
      | .ok f => showIFile f
      | .error e => "err:" ++ e.tag
    | _, _, _ => "bad-op"
  | _ => "bad-op"

def run : IO Unit := runLines handle

end Driver.C11
