import BufModel.ImagePaths
import BufModel.LegacyStrip
import BufModel.FindExtension
import BufModel.OutFile
import Driver.Util
/-
  Line protocol for C11.

    iwop <TAB> allow(0|1) <TAB> files <TAB> paths <TAB> excludes
      files : "-" | ;-separated  <pathhex>:<I|N>:<dephex,dephex,...|->     (image order)
      paths : "-" | ,-separated hex
      output: ok <pathhex>:<I|N>,...   |  err:<tag>

    tgt <TAB> modules <TAB> paths <TAB> excludes
      modules : slash-separated  <T|N>|files        (the last one holds the well-known types)
      output  : M=<module-level build>|I=<image-level filter of the full build>
                (F=<err> when the full build fails)

    strip <TAB> byteshex          output: byteshex of stripBufExtensionField

    pimg  <TAB> dir(p2i|i2p) ...  see `handlePimg`

    fext <TAB> tree <TAB> queries  findExtension (build_image.go) on one file (BufModel.FindExtension)
      tree    : space-separated prefix tokens   F nE ext.. nM msg..    msg = M nE ext.. nN msg..
                ext = extendee,number,id   (extendee / id: indexes of interned full names)
      queries : space-separated extendee,number
      output  : per query the id of the extension found, or -

    xflt <TAB> op <TAB> files <TAB> a <TAB> b      the filters that REBUILD image files, with the extension bits
      files : "-" | ;-separated  <pathhex>:<I|N>:<deps>:<S|s>:<unused>:<mod>:<commit>:<payload>
              deps = - | hex,hex,…   S = syntax unspecified   unused = - | n,n,…
              mod = ~ | reghex/ownerhex/namehex   commit = ~ | dashless hex   payload = hash (Nat)
      op    : iwop0 | iwop1  (ImageWithOnlyPaths / …AllowNotExist; a = paths, b = excludes)
              noimp          (ImageWithoutImports)            bydir (ImageByDir)
              tflt           (bufimageutil filterImageFile on the image-file level; a = ;-separated
                              <pathhex>:<K|D>:<bodyChanged>:<hasPublic>:<newPayload>:<required hex,…>
                              per image file: D = dropped by the closure)
      output: ok <file> <file> …   (bydir: images separated by "|")  |  err:<tag>
              file = pathhex:I|N:S|s:unused:mod:commit:payload:deps(.-separated hex)

    legacy <TAB> file             stripLegacyOptionsFromFile on one descriptor tree (BufModel.LegacyStrip)
      file : space-separated prefix tokens
             F rest nM msg.. nE fld..
             msg = M rest mopts nF fld.. nN msg.. nR rng.. nE fld..     mopts = ~ | mset;rest
             fld = number,fopts,rest      fopts = ~ | weak;rest         rng = start,stop,rest
             (optional scalars: ~ = unset; booleans 0/1; rest = hash of everything the pass ignores)
      output: A <file: the caller's descriptor after the call> R <~ | file: the replacement>

    ofh <TAB> ops <TAB> queries     OUTPUT-FILE HISTORY (BufModel.OutFile): what the paths hold at the end
      ops     : space-separated   put:<path id>:<payload id>:<length>   buf writes an output (os.Create)
                                  pre:<path id>:<payload id>:<length>   a foreign file (os.WriteFile)
                                  ln:<path id>:<target id>  mkdir:<path id>  rm:<path id>
      queries : ,-separated path ids
      output  : <per op ok | err:<tag>, joined by ","> | <per query  id=empty | id=seg+seg… | id=err:<tag>>
                seg = <payload id>:<from>:<to>   (bytes from..to-1 of that payload, at those offsets)
-/
namespace Driver.C11
open BufModel.Path BufModel.ImagePaths Driver

def s2l (s : String) : List Char := s.toList
def l2s (l : List Char) : String := String.ofList l

def parseList (s : String) (sep : String) : List String :=
  if s = "-" then [] else s.splitOn sep

def parseStrs (s : String) : Option (List Str) :=
  ((parseList s ",").mapM hexDecode).map (·.map s2l)

def parseFile (s : String) : Option File :=
  match s.splitOn ":" with
  | [p, i, ds] => do
    let p ← hexDecode p
    let deps ← parseStrs ds
    pure { path := s2l p, isImport := i = "I", deps := deps }
  | _ => none

def parseFiles (s : String) : Option (List File) := (parseList s ";").mapM parseFile

def showImage : Except Err Image → String
  | .error e => "err:" ++ e.tag
  | .ok img => "ok " ++ ",".intercalate (img.map fun f => enc (l2s f.path) ++ ":" ++ (if f.isImport then "I" else "N"))

def parseModule (s : String) : Option Module :=
  match s.splitOn "|" with
  | [t, fs] => do
    let files ← parseFiles fs
    pure { isTarget := t = "T", targetPaths := [], excludePaths := [], files := files }
  | _ => none

def bytesOfHex (s : String) : Option Bytes :=
  if s = "-" then some [] else (hexDecodeBytes s).map (·.toList.map (·.toNat))

def hexOfBytes (b : Bytes) : String :=
  if b.isEmpty then "-" else hexEncodeBytes (ByteArray.mk (b.map UInt8.ofNat).toArray)

def parseNats (s : String) : Option (List Nat) := (parseList s ",").mapM String.toNat?

def showNats (l : List Nat) : String := if l.isEmpty then "-" else ",".intercalate (l.map toString)

def optStr (s : String) : Option (Option Str) :=
  if s = "~" then some none else (hexDecode s).map (fun x => some (s2l x))

def showOptStr : Option Str → String
  | none => "~"
  | some s => enc (l2s s)

def optBool (s : String) : Option Bool := if s = "1" then some true else if s = "0" then some false else none
def b01 (b : Bool) : String := if b then "1" else "0"

/-- name = "~" | reghex:ownerhex:namehex -/
def parseName (s : String) : Option (Option ModName) :=
  if s = "~" then some none else
  match s.splitOn ":" with
  | [a, b, c] => do
    let a ← hexDecode a; let b ← hexDecode b; let c ← hexDecode c
    pure (some { registry := s2l a, owner := s2l b, name := s2l c })
  | _ => none

def showName : Option ModName → String
  | none => "~"
  | some n => enc (l2s n.registry) ++ ":" ++ enc (l2s n.owner) ++ ":" ++ enc (l2s n.name)

def showIFile (f : IFile) : String :=
  "ok imp=" ++ b01 f.isImport ++ " su=" ++ b01 f.syntaxUnspecified ++ " unused=" ++ showNats f.unusedDeps ++
    " name=" ++ showName f.modName ++ " commit=" ++ showOptStr f.commit ++ " unk=" ++ hexOfBytes f.unknown

/-- ext = "~" | imp(0|1|~);su(0|1|~);unused;mi    mi = "~" | name;commit -/
def parsePExt (fs : List String) : Option (Option PExt) :=
  match fs with
  | ["~"] => some none
  | [imp, su, un, nm, cm] => do
    let un ← parseNats un
    let nm' ← (if nm = "^" then some none else parseName nm)
    let cm ← optStr cm
    pure (some { isImport := optBool imp, syntaxUnspecified := optBool su, unused := un,
                 moduleInfo := if nm = "^" then none else some { name := nm', commit := cm } })
  | _ => none

def showPFile (p : PFile) : String :=
  match p.ext with
  | none => "ok ext=~ unk=" ++ hexOfBytes p.unknown
  | some e =>
    let ob : Option Bool → String := fun | none => "~" | some b => b01 b
    let mi := match e.moduleInfo with
      | none => "^;~"
      | some m => showName m.name ++ ";" ++ showOptStr m.commit
    "ok ext=" ++ ob e.isImport ++ ";" ++ ob e.syntaxUnspecified ++ ";" ++ showNats e.unused ++ ";" ++ mi ++
      " unk=" ++ hexOfBytes p.unknown

/-! ### xflt: image files with their extension bits -/

def parseMod (s : String) : Option (Option ModName) :=
  if s = "~" then some none else
  match s.splitOn "/" with
  | [a, b, c] => do
    let a ← hexDecode a; let b ← hexDecode b; let c ← hexDecode c
    pure (some { registry := s2l a, owner := s2l b, name := s2l c })
  | _ => none

def showMod : Option ModName → String
  | none => "~"
  | some n => enc (l2s n.registry) ++ "/" ++ enc (l2s n.owner) ++ "/" ++ enc (l2s n.name)

def parseXFile (s : String) : Option File :=
  match s.splitOn ":" with
  | [p, i, ds, su, un, md, cm, pl] => do
    let p ← hexDecode p
    let deps ← parseStrs ds
    let un ← parseNats un
    let md ← parseMod md
    let cm ← optStr cm
    let pl ← pl.toNat?
    pure { path := s2l p, isImport := i = "I", deps := deps,
           ext := { payload := pl, syntaxUnspecified := su = "S", unusedDeps := un, modName := md, commit := cm } }
  | _ => none

def parseXFiles (s : String) : Option (List File) := (parseList s ";").mapM parseXFile

def showXFile (f : File) : String :=
  enc (l2s f.path) ++ ":" ++ (if f.isImport then "I" else "N") ++ ":" ++
    (if f.ext.syntaxUnspecified then "S" else "s") ++ ":" ++ showNats f.ext.unusedDeps ++ ":" ++
    showMod f.ext.modName ++ ":" ++ showOptStr f.ext.commit ++ ":" ++ toString f.ext.payload ++ ":" ++
    (if f.deps.isEmpty then "-" else ".".intercalate (f.deps.map fun d => enc (l2s d)))

def showXFiles (img : Image) : String := " ".intercalate (img.map showXFile)

def showXImage : Except Err Image → String
  | .error e => "err:" ++ e.tag
  | .ok img => "ok " ++ showXFiles img

/-- one instruction of a `tflt` line. -/
def parseTInstr (s : String) : Option (Str × Bool × Bool × Bool × Nat × List Str) :=
  match s.splitOn ":" with
  | [p, k, bc, hp, pl, req] => do
    let p ← hexDecode p
    let pl ← pl.toNat?
    let req ← parseStrs req
    pure (s2l p, k = "K", bc = "1", hp = "1", pl, req)
  | _ => none

def runTflt (img : Image) (instrs : List (Str × Bool × Bool × Bool × Nat × List Str)) : Image :=
  img.filterMap fun f =>
    match instrs.find? (fun i => i.1 = f.path) with
    | some (_, true, bc, hp, pl, req) => some (typeFilterFile req bc hp pl f)
    | _ => none

def handleXflt (op files a b : String) : String :=
  match parseXFiles files with
  | none => "bad-op"
  | some img =>
    if op = "iwop0" || op = "iwop1" then
      match parseStrs a, parseStrs b with
      | some ps, some es => showXImage (imageWithOnlyPaths img ps es (op = "iwop1"))
      | _, _ => "bad-op"
    else if op = "noimp" then "ok " ++ showXFiles (imageWithoutImports img)
    else if op = "bydir" then
      match imageByDir img with
      | .error e => "err:" ++ e.tag
      | .ok imgs => "ok " ++ "|".intercalate (imgs.map showXFiles)
    else if op = "tflt" then
      match (parseList a ";").mapM parseTInstr with
      | some instrs => "ok " ++ showXFiles (runTflt img instrs)
      | none => "bad-op"
    else "bad-op"

/-! ### legacy: token codec for descriptor trees -/
namespace Legacy
open BufModel.LegacyStrip

def optInt (s : String) : Option (Option Int) := if s = "~" then some none else s.toInt?.map some
def optB (s : String) : Option (Option Bool) :=
  if s = "~" then some none else if s = "1" then some (some true) else if s = "0" then some (some false) else none

def parseFld (s : String) : Option Fld :=
  match s.splitOn "," with
  | [n, o, r] => do
    let n ← optInt n
    let r ← r.toNat?
    let o ← (if o = "~" then some none else
      match o.splitOn ";" with
      | [w, orest] => do
        let w ← optB w
        let orest ← orest.toNat?
        pure (some { weak := w, rest := orest })
      | _ => none)
    pure { number := n, opts := o, rest := r }
  | _ => none

def parseRng (s : String) : Option ERange :=
  match s.splitOn "," with
  | [a, b, r] => do
    let a ← optInt a
    let b ← optInt b
    let r ← r.toNat?
    pure { start := a, stop := b, rest := r }
  | _ => none

def parseMOpts (s : String) : Option (Option MOpts) :=
  if s = "~" then some none else
  match s.splitOn ";" with
  | [m, r] => do
    let m ← optB m
    let r ← r.toNat?
    pure (some { mset := m, rest := r })
  | _ => none

def takeN {α : Type} (p : String → Option α) : Nat → List String → Option (List α × List String)
  | 0, ts => some ([], ts)
  | n + 1, t :: ts => do
    let x ← p t
    let (xs, rest) ← takeN p n ts
    pure (x :: xs, rest)
  | _, [] => none

mutual
partial def parseMsg : List String → Option (Msg × List String)
  | "M" :: rest :: mo :: nf :: ts => do
    let rest ← rest.toNat?
    let mo ← parseMOpts mo
    let nf ← nf.toNat?
    let (fs, ts) ← takeN parseFld nf ts
    match ts with
    | nn :: ts => do
      let nn ← nn.toNat?
      let (ns, ts) ← parseMsgs nn ts
      match ts with
      | nr :: ts => do
        let nr ← nr.toNat?
        let (rs, ts) ← takeN parseRng nr ts
        match ts with
        | ne :: ts => do
          let ne ← ne.toNat?
          let (es, ts) ← takeN parseFld ne ts
          pure (Msg.mk rest mo fs ns rs es, ts)
        | _ => none
      | _ => none
    | _ => none
  | _ => none
partial def parseMsgs : Nat → List String → Option (List Msg × List String)
  | 0, ts => some ([], ts)
  | n + 1, ts => do
    let (m, ts) ← parseMsg ts
    let (ms, ts) ← parseMsgs n ts
    pure (m :: ms, ts)
end

def parseFileT : List String → Option BufModel.LegacyStrip.File
  | "F" :: rest :: nm :: ts => do
    let rest ← rest.toNat?
    let nm ← nm.toNat?
    let (ms, ts) ← parseMsgs nm ts
    match ts with
    | ne :: ts => do
      let ne ← ne.toNat?
      let (es, ts) ← takeN parseFld ne ts
      if ts.isEmpty then pure { rest := rest, msgs := ms, exts := es } else none
    | _ => none
  | _ => none

def showOI : Option Int → String | none => "~" | some i => toString i
def showOB : Option Bool → String | none => "~" | some true => "1" | some false => "0"

def showFld (f : Fld) : String :=
  showOI f.number ++ "," ++ (match f.opts with | none => "~" | some o => showOB o.weak ++ ";" ++ toString o.rest) ++ "," ++ toString f.rest

def showRng (r : ERange) : String := showOI r.start ++ "," ++ showOI r.stop ++ "," ++ toString r.rest

partial def showMsg : Msg → List String
  | .mk rest opts fields nested ranges exts =>
    ["M", toString rest, (match opts with | none => "~" | some o => showOB o.mset ++ ";" ++ toString o.rest),
     toString fields.length] ++ fields.map showFld ++ [toString nested.length] ++ (nested.map showMsg).flatten ++
    [toString ranges.length] ++ ranges.map showRng ++ [toString exts.length] ++ exts.map showFld

def showFile (f : BufModel.LegacyStrip.File) : String :=
  " ".intercalate (["F", toString f.rest, toString f.msgs.length] ++ (f.msgs.map showMsg).flatten ++
    [toString f.exts.length] ++ f.exts.map showFld)

def handleLegacy (line : String) : String :=
  match parseFileT ((line.splitOn " ").filter (· ≠ "")) with
  | none => "bad-op"
  | some f =>
    let r := stripFile true f
    "A " ++ showFile r.1 ++ " R " ++ (match r.2 with | none => "~" | some d => showFile d)

end Legacy

/-! ### fext: `findExtension` on a tree of declaration scopes -/
namespace FExt
open BufModel.FindExtension

def parseExt (s : String) : Option Ext :=
  match s.splitOn "," with
  | [m, n, i] => do
    let m ← m.toNat?
    let n ← n.toInt?
    let i ← i.toNat?
    pure { extendee := m, number := n, id := i }
  | _ => none

mutual
partial def parseMsg : List String → Option (Msg × List String)
  | "M" :: ne :: ts => do
    let ne ← ne.toNat?
    let (es, ts) ← Legacy.takeN parseExt ne ts
    match ts with
    | nn :: ts => do
      let nn ← nn.toNat?
      let (ns, ts) ← parseMsgs nn ts
      pure (Msg.mk es ns, ts)
    | _ => none
  | _ => none
partial def parseMsgs : Nat → List String → Option (List Msg × List String)
  | 0, ts => some ([], ts)
  | n + 1, ts => do
    let (m, ts) ← parseMsg ts
    let (ms, ts) ← parseMsgs n ts
    pure (m :: ms, ts)
end

def parseFile : List String → Option BufModel.FindExtension.File
  | "F" :: ne :: ts => do
    let ne ← ne.toNat?
    let (es, ts) ← Legacy.takeN parseExt ne ts
    match ts with
    | nm :: ts => do
      let nm ← nm.toNat?
      let (ms, ts) ← parseMsgs nm ts
      if ts.isEmpty then pure { exts := es, msgs := ms } else none
    | _ => none
  | _ => none

def parseQuery (s : String) : Option (Nat × Int) :=
  match s.splitOn "," with
  | [m, n] => do
    let m ← m.toNat?
    let n ← n.toInt?
    pure (m, n)
  | _ => none

def handle (tree queries : String) : String :=
  match parseFile ((tree.splitOn " ").filter (· ≠ "")), ((queries.splitOn " ").filter (· ≠ "")).mapM parseQuery with
  | some f, some qs =>
    " ".intercalate (qs.map fun (m, n) =>
      match findExtension f m n with
      | some e => toString e.id
      | none => "-")
  | _, _ => "bad-op"

end FExt

/-! ### ofh: output-file histories -/
namespace OFH
open BufModel.OutFile

def parseOp (s : String) : Option (Op (Nat × Nat)) :=
  match s.splitOn ":" with
  | ["put", p, i, n] => do pure (.put (← p.toNat?) (payload (← i.toNat?) (← n.toNat?)))
  | ["pre", p, i, n] => do pure (.pre (← p.toNat?) (payload (← i.toNat?) (← n.toNat?)))
  | ["ln", p, t] => do pure (.ln (← p.toNat?) (← t.toNat?))
  | ["mkdir", p] => do pure (.mkdir (← p.toNat?))
  | ["rm", p] => do pure (.rm (← p.toNat?))
  | _ => none

def showSegs (c : List (Nat × Nat)) : String :=
  match segments c with
  | [] => "empty"
  | segs => "+".intercalate (segs.map fun (i, lo, hi) => s!"{i}:{lo}:{hi}")

def handle (ops queries : String) : String :=
  match ((ops.splitOn " ").filter (· ≠ "")).mapM parseOp, (parseList queries ",").mapM (·.toNat?) with
  | some ops, some qs =>
    let (fs, res) := run ([] : FS (Nat × Nat)) ops
    ",".intercalate (res.map fun | none => "ok" | some e => "err:" ++ e.tag) ++ " | " ++
    " ".intercalate (qs.map fun q =>
      toString q ++ "=" ++ (match readBack fs q with | .ok c => showSegs c | .error e => "err:" ++ e.tag))
  | _, _ => "bad-op"

end OFH

def handle : List String → String
  | ["legacy", file] => Legacy.handleLegacy file
  | ["ofh", ops, queries] => OFH.handle ops queries
  | ["fext", tree, queries] => FExt.handle tree queries
  | ["xflt", op, files, a, b] => handleXflt op files a b
  | ["iwop", allow, files, pths, excl] =>
    match parseFiles files, parseStrs pths, parseStrs excl with
    | some img, some ps, some es => showImage (imageWithOnlyPaths img ps es (allow = "1"))
    | _, _, _ => "bad-op"
  | ["tgt", mods, pths, excl] =>
    match (mods.splitOn "/").mapM parseModule, parseStrs pths, parseStrs excl with
    | some ws, some ps, some es =>
      match build ws with
      | .error e => "F=err:" ++ e.tag
      | .ok full =>
        "M=" ++ showImage (build (withTargeting ws ps es)) ++ "|I=" ++ showImage (filterImagePaths full ps es)
    | _, _, _ => "bad-op"
  | ["strip", b] =>
    match bytesOfHex b with
    | some u => hexOfBytes (stripBufExtensionField u)
    | none => "bad-op"
  -- image file -> proto image file
  | ["pimg", "i2p", ndeps, imp, su, un, nm, cm, unk] =>
    match ndeps.toNat?, parseNats un, parseName nm, optStr cm, bytesOfHex unk with
    | some nd, some un, some nm, some cm, some unk =>
      showPFile (toProto { path := [], deps := List.replicate nd [], payload := [], unknown := unk,
                           isImport := imp = "1", syntaxUnspecified := su = "1", unusedDeps := un,
                           modName := nm, commit := cm })
    | _, _, _, _, _ => "bad-op"
  -- proto image file -> image file
  | "pimg" :: "p2i" :: ndeps :: unk :: ext =>
    match ndeps.toNat?, bytesOfHex unk, parsePExt ext with
    | some nd, some unk, some e =>
      match toImage { path := [], deps := List.replicate nd [], payload := [], unknown := unk, ext := e } with
      | .ok f => showIFile f
      | .error e => "err:" ++ e.tag
    | _, _, _ => "bad-op"
  | _ => "bad-op"

def run : IO Unit := runLines handle

end Driver.C11
