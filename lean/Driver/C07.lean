import BufModel.Format
import Driver.Util
/-
  Line protocol for C07 (translation validation of one formatter run):
    fmt <hex input> <hex output> <hex format(output)>
      -> valid sig=<n in>/<n out> com=<comments> empties=<e> seps=<s> angles=<a> colons=<c>
               imports=<k:hex,...> opts=<hex,...>
       | invalid:<first failing clause of the checker>    (not-idempotent when output ≠ format(output))
    lexonly <hex input>
      -> sig=<n> com=<k> empties=<e> seps=<s> angles=<a> colons=<c>
  The facts after `valid` are derived from the INPUT by the lexer / role automaton / header
  canonicalisation model (only <n out> is read off the output); the harness prints the same
  facts read off protocompile's AST of the input and of the real formatter's output.
-/
namespace Driver.C07
open BufModel.Format Driver

def hexOfBytes (bs : List Nat) : String :=
  if bs.isEmpty then "-" else
  String.ofList (bs.flatMap fun x => [hexDigit (x / 16), hexDigit (x % 16)])

def countRole (l : List (Token × Role)) (r : Role) : Nat := (l.filter (·.2 = r)).length

def failing (inp out : Str) : String :=
  let hi := headerOf inp
  let ho := headerOf out
  if !sameToks hi.syn ho.syn then "syntax"
  else if !sameToks hi.pkg.toList ho.pkg.toList then "package"
  else if !sameToks hi.rest ho.rest then "body"
  else if !importsOK hi.imports ho.imports then "imports"
  else if !optionsOK hi.options ho.options then "options"
  else if !commentsOK (lex inp) (lex out) then "comments"
  else "?"

def handle : List String → String
  | ["lexonly", a] =>
    match hexDecode a with
    | some i =>
      let ti := lex i.toList
      let si := sig ti
      let roles := annotate si
      s!"sig={si.length} com={(comments ti).length} empties={countRole roles .dropEmpty} seps={countRole roles .dropSep} angles={countRole roles .toOpenBrace + countRole roles .toCloseBrace} colons={countRole roles .colonAfter}"
    | none => "bad-op"
  | ["fmt", a, b, c] =>
    match hexDecode a, hexDecode b, hexDecode c with
    | some i, some o, some o2 =>
      let inp := i.toList
      let out := o.toList
      if o2 != o then "invalid:not-idempotent"
      else if validFormat inp out then
        let ti := lex inp
        let si := sig ti
        let roles := annotate si
        let h := canon (headerOf inp)
        let imps := h.imports.map fun s =>
          (if importOrder s = 2 then "p" else if importOrder s = 1 then "w" else "n") ++ ":" ++ hexOfBytes (importName s)
        let opts := h.options.map fun s => enc (String.ofList (optionName s))
        s!"valid sig={si.length}/{(sig (lex out)).length} com={(comments ti).length} empties={countRole roles .dropEmpty} seps={countRole roles .dropSep} angles={countRole roles .toOpenBrace + countRole roles .toCloseBrace} colons={countRole roles .colonAfter} imports={",".intercalate imps} opts={",".intercalate opts}"
      else "invalid:" ++ failing inp out
    | _, _, _ => "bad-op"
  | _ => "bad-op"

def run : IO Unit := runLines handle

end Driver.C07
