import BufModel.Format
import Driver.Util
/-
  Line protocol for C07 (translation validation of one formatter run):
    fmt <hex input> <hex output> <hex format(output)>
      -> valid sig=<n in>/<n out> com=<comments> attr=<i:lead:trail,...> empties=<e> seps=<s>
               angles=<a> colons=<c> oattr=<i:lead:trail,... of the output> imports=<k:hex,...> opts=<hex,...>
       | invalid:<first failing clause of the checker>    (not-idempotent when output ≠ format(output);
                                                           not-formatted:<clause> when isFormatted out fails)
    lexonly <hex input>
      -> sig=<n> com=<k> attr=<i:lead:trail,...> empties=<e> seps=<s> angles=<a> colons=<c>
  The driver accepts a run iff  validFormatFile inp out ∧ isFormatted out ∧ out2 = out
  (validFormatFile = validFormat behind the lexer's discarding of a leading UTF-8 byte order mark).
  The facts after `valid` are derived from the INPUT by the lexer / role automaton / header
  canonicalisation model (only <n out> is read off the output); the harness prints the same
  facts read off protocompile's AST of the input and of the real formatter's output.
-/
namespace Driver.C07
open BufModel.Format Driver

def hexOfBytes (bs : List Nat) : String :=
  if bs.isEmpty then "-" else
  String.ofList (bs.flatMap fun x => [hexDigit (x / 16), hexDigit (x % 16)])

def countRole (l : List (Token × Role)) (r : Role) : Nat := (l.filter (·.2 = r)).length

/-- first failing clause of the checker / of the normal form (diagnostics only) -/
def failing (inp out : Str) : String :=
  let di := decorate (lex inp)
  let dout := decorate (lex out)
  let si := (stmts (normD di)).map gapNorm
  let so := (stmts dout).map gapNorm
  if !dropsClean (annotateD di) then "comment-on-dropped-token"
  else if !(ofCls .syn so == ofCls .syn si) then "syntax"
  else if !(ofCls .pkg so == ofCls .pkg si) then "package"
  else if !(ofCls .rest so == ofCls .rest si) then
    (if (ofCls .rest so).map stmtText == (ofCls .rest si).map stmtText then "body-comments" else "body")
  else if !importsOK (ofCls .imp si) (ofCls .imp so) then "imports"
  else if !optionsOK (ofCls .opt si) (ofCls .opt so) then "options"
  else "?"

def notFormatted (out : Str) : String :=
  let ts := lex out
  let ds := decorate ts
  if !(roles (toks ds)).all (· = .keep) then "rewritable-token"
  else if !((canon (parseHeader (stmts ds))).render == stmts ds) then "header-not-canonical"
  else if !startsOK ts then "leading-whitespace"
  else if !layoutOK ts then "layout"
  else "?"

/-- per-token comment attribution: index:leading:trailing for every token that owns a comment -/
def attrSig (ds : List DTok) : String :=
  let parts := ds.zipIdx.filterMap fun (d, i) =>
    if d.lead.isEmpty && d.trail.isEmpty then none else some s!"{i}:{d.lead.length}:{d.trail.length}"
  if parts.isEmpty then "-" else ",".intercalate parts

def showKey (k : CKey) : String := " ".intercalate (k.map String.ofList)
def showD (d : DTok) : String :=
  (if d.lead.isEmpty then "" else "«L:" ++ "|".intercalate (d.lead.map showKey) ++ "»") ++ String.ofList d.tok.text ++
  (if d.trail.isEmpty then "" else "«T:" ++ "|".intercalate (d.trail.map showKey) ++ "»")
def showS (s : Stmt) : String := " ".intercalate (s.map showD)

/-- diagnostics: the statements of the normalised input that are not (with their comments) in the output, and vice versa -/
def dbg (inp out : Str) : String :=
  let si := (stmts (normD (decorate (lex inp)))).map gapNorm
  let so := (stmts (decorate (lex out))).map gapNorm
  let a := si.filter (fun s => !so.contains s)
  let b := so.filter (fun s => !si.contains s)
  "IN-ONLY:  " ++ " ## ".intercalate (a.map showS) ++ "  OUT-ONLY: " ++ " ## ".intercalate (b.map showS)

def handle : List String → String
  | ["lexonly", a] =>
    match hexDecode a with
    | some i =>
      let ti := lex (stripBOM i.toList)
      let si := sig ti
      let rs := annotate si
      s!"sig={si.length} com={(comments ti).length} attr={attrSig (decorate ti)} empties={countRole rs .dropEmpty} seps={countRole rs .dropSep} angles={countRole rs .toOpenBrace + countRole rs .toCloseBrace} colons={countRole rs .colonAfter}"
    | none => "bad-op"
  | ["dbg", a, b] =>
    match hexDecode a, hexDecode b with
    | some i, some o => dbg (stripBOM i.toList) o.toList
    | _, _ => "bad-op"
  | ["fmt", a, b, c] =>
    match hexDecode a, hexDecode b, hexDecode c with
    | some i, some o, some o2 =>
      -- newLexer consumes a leading byte order mark: validFormatFile inp out = validFormat (stripBOM inp) out
      let inp := stripBOM i.toList
      let out := o.toList
      if o2 != o then "invalid:not-idempotent"
      else if !validFormatFile i.toList out then "invalid:" ++ failing inp out
      else if !isFormatted out then "invalid:not-formatted:" ++ notFormatted out
      else
        let ti := lex inp
        let si := sig ti
        let rs := annotate si
        let h := canon (parseHeader (stmts (normD (decorate ti))))
        let imps := h.imports.map fun s =>
          (if importOrder s = 2 then "p" else if importOrder s = 1 then "w" else "n") ++ ":" ++ hexOfBytes (importName s)
        let opts := h.options.map fun s => enc (String.ofList (optionName s))
        s!"valid sig={si.length}/{(sig (lex out)).length} com={(comments ti).length} attr={attrSig (decorate ti)} empties={countRole rs .dropEmpty} seps={countRole rs .dropSep} angles={countRole rs .toOpenBrace + countRole rs .toCloseBrace} colons={countRole rs .colonAfter} oattr={attrSig (decorate (lex out))} imports={",".intercalate imps} opts={",".intercalate opts}"
    | _, _, _ => "bad-op"
  | _ => "bad-op"

def run : IO Unit := runLines handle

end Driver.C07
