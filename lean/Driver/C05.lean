import BufModel.Case
import BufModel.Lint
import Driver.Util
/-
  Line protocol for C05.

  Section A (stringutil / protoversion):
    pascal <hex>             -> <hex>
    lsnake <0|1> <hex>       -> <hex>          (1 = SnakeCaseWithNewWordOnDigits)
    usnake <0|1> <hex>       -> <hex>
    stl <hex>                -> <hex>,<hex>,…  (SplitTrimLines)
    stlne <hex>              -> <hex>,…|-      (SplitTrimLinesNoEmpty; "none" when empty list)
    tl <hex>                 -> <hex>          (TrimLines)
    ver <0|1> <hex>          -> ok <major> <stab> <minor> <patch> <hex suffix> | none   (package)
    verc <0|1> <hex>         -> same, for a single component

  Section B (lint):
    lint <opts> <rules> <schema>  -> clean=<0|1> dirty=<RULE,…|-> names=<0|1> <RULE>@<hexfile>@<path>;…   (sorted, deduplicated)
  `clean` = `cleanB` of the configured rules; `dirty` = the configured rules whose Clean condition
  (`cleanRule`: grammars, pairwise agreement, flags — NOT the model's own annotation list) fails, in
  the order of <rules>.  The harness prints, from its side, the rules of the annotations that the
  planting operator's DOCUMENTATION-level expectation names: the line compares the model's Clean
  specification with the operator's intent, independently of `lint`.  `names` = the methods of the
  non-import files have pairwise distinct fully-qualified names (`FullNamesDistinct`: the hypothesis
  of the RPC_REQUEST_RESPONSE_UNIQUE theorems, and what `FullNameToMethod` demands); the harness
  prints it from its own schema.
  see Driver.C05.parseSchema for the schema grammar.
-/
namespace Driver.C05
open BufModel.Case BufModel.Lint Driver

def s2l (s : String) : List Char := s.toList
def l2s (l : List Char) : String := String.ofList l

def stabStr : Stability → String
  | .stable => "stable" | .alpha => "alpha" | .beta => "beta" | .test => "test"

def verOut : Option PackageVersion → String
  | none => "none"
  | some v => s!"ok {v.major} {stabStr v.stability} {v.minor} {v.patch} {enc (l2s v.suffix)}"

def flag (s : String) : Bool := s == "1"

/-! ### schema parsing

  Token grammar (space separated tokens inside one TAB field; strings hex-encoded, "-" empty):
    schema  := "W" nfiles file*
    file    := "F" path pkg isImport syntaxUnspecified nimports import* optvals(7) nenums enum* nmsgs msg* nsvcs svc* nexts field*
    import  := "I" path public weak unused
    optvals := 7 × ("~" | hex)   (csharp_namespace go_package java_multiple_files java_package php_namespace ruby_package
                          swift_prefix; "~" = no option statement in the file, otherwise the hex of the explicit value —
                          "-" = explicitly the empty string, java_multiple_files "true"|"false" hex-encoded)
    enum    := "E" name comment allowAlias nvalues value*
    value   := "V" name comment number
    msg     := "M" name comment mapEntry nfields field* noneofs oneof* nexts field* nenums enum* nmsgs msg*
    field   := "D" name comment required group proto3optional oneofIndex(-1 = none)
    oneof   := "O" name comment synthetic
    svc     := "S" name comment nrpcs rpc*
    rpc     := "R" name comment inType outType clientStreaming serverStreaming
  comment is the hex of the leading comment text ("-" = none).
-/

abbrev P := StateT (List String) Option

def tok : P String := do
  let ts ← get
  match ts with
  | [] => failure
  | t :: rest => set rest; pure t

def expect (s : String) : P Unit := do
  let t ← tok
  if t == s then pure () else failure

def pNat : P Nat := do
  let t ← tok
  match t.toNat? with
  | some n => pure n
  | none => failure

def pInt : P Int := do
  let t ← tok
  match t.toInt? with
  | some n => pure n
  | none => failure

def pStr : P (List Char) := do
  let t ← tok
  match hexDecode t with
  | some s => pure s.toList
  | none => failure

/-- a raw file option: "~" = no option statement, else the hex of the explicit value -/
def pOptStr : P (Option (List Char)) := do
  let t ← tok
  if t == "~" then pure none else
  match hexDecode t with
  | some s => pure (some s.toList)
  | none => failure

def pBool : P Bool := do
  let t ← tok
  pure (t == "1")

def pMany {α} (n : Nat) (p : P α) : P (List α) :=
  match n with
  | 0 => pure []
  | n + 1 => do
    let a ← p
    let rest ← pMany n p
    pure (a :: rest)

def pField : P Field := do
  expect "D"
  let name ← pStr
  let comment ← pStr
  let required ← pBool
  let group ← pBool
  let p3o ← pBool
  let oi ← pInt
  pure { name, comment, required, group, proto3Optional := p3o,
         oneofIndex := if oi < 0 then none else some oi.toNat }

def pValue : P EnumValue := do
  expect "V"
  let name ← pStr
  let comment ← pStr
  let number ← pInt
  pure { name, comment, number }

def pEnum : P Enum := do
  expect "E"
  let name ← pStr
  let comment ← pStr
  let allowAlias ← pBool
  let n ← pNat
  let values ← pMany n pValue
  pure { name, comment, allowAlias, values }

def pOneof : P Oneof := do
  expect "O"
  let name ← pStr
  let comment ← pStr
  let synthetic ← pBool
  pure { name, comment, synthetic }

partial def pMsg : P Message := do
  expect "M"
  let name ← pStr
  let comment ← pStr
  let mapEntry ← pBool
  let nf ← pNat
  let fields ← pMany nf pField
  let no ← pNat
  let oneofs ← pMany no pOneof
  let nx ← pNat
  let exts ← pMany nx pField
  let ne ← pNat
  let enums ← pMany ne pEnum
  let nm ← pNat
  let msgs ← pMany nm pMsg
  pure (Message.mk name comment mapEntry fields oneofs exts enums msgs)

def pRpc : P Rpc := do
  expect "R"
  let name ← pStr
  let comment ← pStr
  let inType ← pStr
  let outType ← pStr
  let cs ← pBool
  let ss ← pBool
  pure { name, comment, inType, outType, clientStreaming := cs, serverStreaming := ss }

def pSvc : P Service := do
  expect "S"
  let name ← pStr
  let comment ← pStr
  let n ← pNat
  let rpcs ← pMany n pRpc
  pure { name, comment, rpcs }

def pImport : P Import := do
  expect "I"
  let path ← pStr
  let pub ← pBool
  let weak ← pBool
  let unused ← pBool
  pure { path, isPublic := pub, isWeak := weak, isUnused := unused }

def pFile : P File := do
  expect "F"
  let path ← pStr
  let pkg ← pStr
  let isImport ← pBool
  let syntaxUnspecified ← pBool
  let ni ← pNat
  let imports ← pMany ni pImport
  let opts ← pMany 7 pOptStr
  let ne ← pNat
  let enums ← pMany ne pEnum
  let nm ← pNat
  let msgs ← pMany nm pMsg
  let ns ← pNat
  let svcs ← pMany ns pSvc
  let nx ← pNat
  let exts ← pMany nx pField
  pure { path, pkg, isImport, syntaxUnspecified, imports, langOpts := opts, enums, msgs, svcs, exts }

def pSchema : P Schema := do
  expect "W"
  let n ← pNat
  pMany n pFile

def parseSchema (s : String) : Option Schema :=
  match (pSchema.run (s.splitOn " ")) with
  | some (w, []) => some w
  | _ => none

/-- opts := <hex zeroSuffix> <hex serviceSuffix> <allowSame> <allowEmptyReq> <allowEmptyResp> <hex commentExclude,…> -/
def parseOpts (s : String) : Option Options :=
  match s.splitOn " " with
  | [z, sv, a, b, c, ex] =>
    match hexDecode z, hexDecode sv, (ex.splitOn ",").mapM hexDecode with
    | some z, some sv, some exs =>
      some { enumZeroValueSuffix := z.toList, serviceSuffix := sv.toList,
             rpcAllowSameRequestResponse := flag a,
             rpcAllowGoogleProtobufEmptyRequests := flag b,
             rpcAllowGoogleProtobufEmptyResponses := flag c,
             commentExcludes := (exs.filter (fun e => !e.isEmpty)).map String.toList }
    | _, _, _ => none
  | _ => none

def pathStr (p : List Nat) : String := ".".intercalate (p.map toString)

def insertSorted (x : String) : List String → List String
  | [] => [x]
  | y :: ys => if x < y then x :: y :: ys else if x == y then y :: ys else y :: insertSorted x ys

def sortDedup (xs : List String) : List String := xs.foldl (fun acc x => insertSorted x acc) []

def lintLine (optsS rulesS schemaS : String) : String :=
  match parseOpts optsS, parseSchema schemaS with
  | some opts, some w =>
    let rules := ((rulesS.splitOn ",").filter (fun r => !r.isEmpty)).filterMap ruleOfString
    let anns := lint opts rules w
    let strs := anns.map fun a => s!"{a.rule.id}@{enc (l2s a.file)}@{pathStr a.path}"
    let clean := if cleanB opts rules w then "1" else "0"
    -- hypothesis `cleanB` of the planting theorems, evaluated per rule on the Clean SPECIFICATION
    -- (independent of `anns`): which configured rules are not Clean on this workspace
    let dirty := rules.filter fun r => !cleanRule opts w r
    let dirtyS := if dirty.isEmpty then "-" else ",".intercalate (dirty.map Rule.id)
    let names := if strsDistinct ((rpcEntries w).map (·.full)) then "1" else "0"
    s!"clean={clean} dirty={dirtyS} names={names} " ++ ";".intercalate (sortDedup strs)
  | _, _ => "bad-op"

def handle : List String → String
  | ["pascal", a] => match hexDecode a with
      | some s => enc (l2s (toPascalCase (s2l s))) | none => "bad-op"
  | ["lsnake", o, a] => match hexDecode a with
      | some s => enc (l2s (toLowerSnakeCase (flag o) (s2l s))) | none => "bad-op"
  | ["usnake", o, a] => match hexDecode a with
      | some s => enc (l2s (toUpperSnakeCase (flag o) (s2l s))) | none => "bad-op"
  | ["stl", a] => match hexDecode a with
      | some s => ",".intercalate ((splitTrimLines (s2l s)).map fun l => enc (l2s l)) | none => "bad-op"
  | ["stlne", a] => match hexDecode a with
      | some s =>
        let ls := splitTrimLinesNoEmpty (s2l s)
        if ls.isEmpty then "none" else ",".intercalate (ls.map fun l => enc (l2s l))
      | none => "bad-op"
  | ["tl", a] => match hexDecode a with
      | some s => enc (l2s (trimLines (s2l s))) | none => "bad-op"
  | ["ver", o, a] => match hexDecode a with
      | some s => verOut (versionForPackage (flag o) (s2l s)) | none => "bad-op"
  | ["verc", o, a] => match hexDecode a with
      | some s => verOut (versionForComponent (flag o) (s2l s)) | none => "bad-op"
  | ["lint", opts, rules, schema] => lintLine opts rules schema
  | _ => "bad-op"

def run : IO Unit := runLines handle

end Driver.C05
