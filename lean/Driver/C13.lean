import BufModel.Path
import BufModel.ArchiveKinds
import BufModel.FileNodeGate
import Driver.Util
import Driver.Bucket
/-
  Line protocol for the path functions (used by C13 and C14):
    clean <hex>            -> <hex>
    nv <hex>               -> ok <hex> | err <tag>
    vpath <hex>            -> ok <hex> | err <tag>
    dir <hex>              -> <hex>
    base <hex>             -> <hex>
    join <hex> <hex> ...   -> <hex>
    rel <hex> <hex>        -> ok <hex> | err
    ecp <hex> <hex>        -> true|false
    strip <n> <hex>        -> ok <hex> | none
    comps <hex>            -> <hex>,<hex>,...
    xt <tar|zip> <strip> <matcher|-> <maxSize> <entries>
                           -> ok|err:<tag> '|' <hexpath>=<hexcontent>,... (sorted)
       entries: "-" | comma-separated <kind>:<hexname>:<hexlinkname>:<hexcontent>, archive order, as
       the archive reader yields them; kind = t<flag><modebits> | z<mode>
         flag: 0 reg, 1 hard link, 2 symlink, 3 char, 4 block, 5 dir, 6 fifo, 7 contiguous,
               g PAX global header, S GNU sparse, u unknown
         modebits (c_IS* of the mode field): n none, r, d, f, l, b, c, s
         zip mode: p plain(FAT, attrs 0), D FAT dir attribute, r unix regular, d unix dir, l symlink,
               f fifo, s socket, b block device, c char device
       runs BufModel.ArchiveKinds.extractRaw (the Untar / Unzip loop) on an empty bucket
    fnode <hexpath>        -> ok | err <tag>       bufcas.NewFileNode's gate (validateFileNodeParameters):
                              BufModel.FileNodeGate.fileNodeGateE; tags path-empty, path-invalid:<nv tag>,
                              path-not-normal, path-line-feed
    fparse <hextext>       -> ok <hexpath> | err <tag>    bufcas.ParseFileNode of one "digest  path" text
                              (BufModel.Manifest.parseFileNode; tags of BufModel.Manifest.MErr)
    fman <hextext>         -> ok <hexpath>,... | err <tag>   bufcas.ParseManifest of a whole manifest text
                              (BufModel.Manifest.parseManifest); paths in the manifest's own (sorted) order
-/
namespace Driver.C13
open BufModel.Path Driver
open BufModel.Archive BufModel.ArchiveKinds

def s2l (s : String) : List Char := s.toList
def l2s (l : List Char) : String := String.ofList l

def ex (r : Except PErr Str) : String :=
  match r with
  | .ok p => "ok " ++ enc (l2s p)
  | .error e => "err " ++ e.tag

def parseTarType : Char → Option TarType
  | '0' => some .reg | '1' => some .link | '2' => some .symlink | '3' => some .char
  | '4' => some .block | '5' => some .dir | '6' => some .fifo | '7' => some .cont
  | 'g' => some .xglobal | 'S' => some .sparse | 'u' => some .unknown | _ => none

def parseModeBits : Char → Option ModeBits
  | 'n' => some .none | 'r' => some .reg | 'd' => some .dir | 'f' => some .fifo
  | 'l' => some .lnk | 'b' => some .blk | 'c' => some .chr | 's' => some .sock | _ => none

def parseZipMode : Char → Option ZipMode
  | 'p' => some .plain | 'D' => some .dosDir | 'r' => some .unixReg | 'd' => some .unixDir
  | 'l' => some .symlink | 'f' => some .fifo | 's' => some .socket | 'b' => some .blockDev
  | 'c' => some .charDev | _ => none

def parseEntryKind (s : String) : Option EntryKind :=
  match s.toList with
  | ['t', a, b] => do
      let t ← parseTarType a
      let mb ← parseModeBits b
      pure (.tar t mb)
  | ['z', a] => (parseZipMode a).map .zip
  | _ => none

def parseRawEntry (s : String) : Option RawEntry :=
  match s.splitOn ":" with
  | [k, n, l, c] => do
      let kind ← parseEntryKind k
      let name ← hexDecode n
      let link ← hexDecode l
      let content ← hexDecode c
      pure { kind := kind, name := s2l name, linkname := s2l link, content := content }
  | _ => none

def parseXtMatcher (s : String) : Option (Str → Bool) :=
  if s = "-" then some (fun _ => true) else
  match Driver.Bucket.parseMatcher (s.splitOn ":") with
  | some (m, []) => some (fun p => m.matches p)
  | _ => none

def dumpHex (objs : List (Str × BufModel.Bucket.Content)) : String :=
  let enc' := objs.map fun (k, v) => (hexEncode (l2s k), enc v)
  ",".intercalate ((Driver.Bucket.sortPairs enc').map fun (k, v) => k ++ "=" ++ v)

def handleXt (fmt strip matcher maxSize entries : String) : String :=
  let f : Option Fmt := match fmt with | "tar" => some .tar | "zip" => some .zip | _ => none
  match f, strip.toNat?, parseXtMatcher matcher, maxSize.toNat? with
  | some f, some n, some m, some mx =>
    let es := if entries = "-" then some [] else (entries.splitOn ",").mapM parseRawEntry
    match es with
    | none => "bad-op"
    | some a =>
      let (res, dest) := extractRaw f n m mx a []
      (match res with | none => "ok" | some er => Driver.Bucket.errS er) ++ "|" ++ dumpHex dest
  | _, _, _, _ => "bad-op"

def handleFnode (p : String) : String :=
  match BufModel.FileNodeGate.fileNodeGateE (s2l p) with
  | .ok () => "ok"
  | .error e => "err " ++ e.tag

def handleFparse (t : String) : String :=
  match BufModel.Manifest.parseFileNode (s2l t) with
  | .ok n => "ok " ++ enc (l2s n.path)
  | .error e => "err " ++ e.tag

def handleFman (t : String) : String :=
  match BufModel.Manifest.parseManifest (s2l t) with
  | .ok m => "ok " ++ ",".intercalate (m.map fun n => enc (l2s n.path))
  | .error e => "err " ++ e.tag

def handle : List String → String
  | ["fnode", a] => match hexDecode a with
      | some s => handleFnode s | none => "bad-op"
  | ["fparse", a] => match hexDecode a with
      | some s => handleFparse s | none => "bad-op"
  | ["fman", a] => match hexDecode a with
      | some s => handleFman s | none => "bad-op"
  | ["xt", fmt, strip, matcher, maxSize, entries] => handleXt fmt strip matcher maxSize entries
  | ["clean", a] => match hexDecode a with
      | some s => enc (l2s (clean (s2l s))) | none => "bad-op"
  | ["nv", a] => match hexDecode a with
      | some s => ex (normalizeAndValidate (s2l s)) | none => "bad-op"
  | ["vpath", a] => match hexDecode a with
      | some s => ex (validatePath (s2l s)) | none => "bad-op"
  | ["dir", a] => match hexDecode a with
      | some s => enc (l2s (dir (s2l s))) | none => "bad-op"
  | ["base", a] => match hexDecode a with
      | some s => enc (l2s (base (s2l s))) | none => "bad-op"
  | "join" :: rest => match rest.mapM hexDecode with
      | some ss => enc (l2s (join (ss.map s2l))) | none => "bad-op"
  | ["rel", a, b] => match hexDecode a, hexDecode b with
      | some x, some y => (match rel (s2l x) (s2l y) with
          | some r => "ok " ++ enc (l2s r) | none => "err")
      | _, _ => "bad-op"
  | ["ecp", a, b] => match hexDecode a, hexDecode b with
      | some x, some y => toString (equalsOrContainsPath (s2l x) (s2l y))
      | _, _ => "bad-op"
  | ["strip", n, a] => match n.toNat?, hexDecode a with
      | some k, some s => (match stripComponents (s2l s) k with
          | some r => "ok " ++ enc (l2s r) | none => "none")
      | _, _ => "bad-op"
  | ["comps", a] => match hexDecode a with
      | some s => ",".intercalate ((components (s2l s)).map fun c => enc (l2s c))
      | none => "bad-op"
  | ["untar", strip, entries] => Driver.Bucket.handleUntar strip entries
  | ["hist", layers, init, ops] => Driver.Bucket.handleHist layers init ops
  | _ => "bad-op"

def run : IO Unit := runLines handle

end Driver.C13
