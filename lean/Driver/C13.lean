import BufModel.Path
import Driver.Util
import Driver.Bucket
/-
  Line protocol for the path functions (used by C13 and C14):
    clean <hex>            -> <hex>
    nv <hex>               -> ok <hex> | err <tag>
    vpath <hex>            -> ok <hex> | err <tag>
    dir <hex>              -> <hex>
    base <hex>             -> <hex>
    join <hex> <hex> ...   -> <hex>
    rel <hex> <hex>        -> ok <hex> | err
    ecp <hex> <hex>        -> true|false
    strip <n> <hex>        -> ok <hex> | none
    comps <hex>            -> <hex>,<hex>,...
-/
namespace Driver.C13
open BufModel.Path Driver

def s2l (s : String) : List Char := s.toList
def l2s (l : List Char) : String := String.ofList l

def ex (r : Except PErr Str) : String :=
  match r with
  | .ok p => "ok " ++ enc (l2s p)
  | .error e => "err " ++ e.tag

def handle : List String → String
  | ["clean", a] => match hexDecode a with
      | some s => enc (l2s (clean (s2l s))) | none => "bad-op"
  | ["nv", a] => match hexDecode a with
      | some s => ex (normalizeAndValidate (s2l s)) | none => "bad-op"
  | ["vpath", a] => match hexDecode a with
      | some s => ex (validatePath (s2l s)) | none => "bad-op"
  | ["dir", a] => match hexDecode a with
      | some s => enc (l2s (dir (s2l s))) | none => "bad-op"
  | ["base", a] => match hexDecode a with
      | some s => enc (l2s (base (s2l s))) | none => "bad-op"
  | "join" :: rest => match rest.mapM hexDecode with
      | some ss => enc (l2s (join (ss.map s2l))) | none => "bad-op"
  | ["rel", a, b] => match hexDecode a, hexDecode b with
      | some x, some y => (match rel (s2l x) (s2l y) with
          | some r => "ok " ++ enc (l2s r) | none => "err")
      | _, _ => "bad-op"
  | ["ecp", a, b] => match hexDecode a, hexDecode b with
      | some x, some y => toString (equalsOrContainsPath (s2l x) (s2l y))
      | _, _ => "bad-op"
  | ["strip", n, a] => match n.toNat?, hexDecode a with
      | some k, some s => (match stripComponents (s2l s) k with
          | some r => "ok " ++ enc (l2s r) | none => "none")
      | _, _ => "bad-op"
  | ["comps", a] => match hexDecode a with
      | some s => ",".intercalate ((components (s2l s)).map fun c => enc (l2s c))
      | none => "bad-op"
  | ["untar", strip, entries] => Driver.Bucket.handleUntar strip entries
  | ["hist", layers, init, ops] => Driver.Bucket.handleHist layers init ops
  | _ => "bad-op"

def run : IO Unit := runLines handle

end Driver.C13
