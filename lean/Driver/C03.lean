import Driver.Breaking
/- Line protocol of property C03 (shared schema encoding, see Driver/Breaking.lean). -/
namespace Driver.C03
def run : IO Unit := Driver.runLines Driver.Breaking.handle
end Driver.C03
